(** Helpers for correspondence case files (executed with vm_compute). *)
From Coq Require Import List ZArith QArith Qabs Bool String.
Import ListNotations.

Fixpoint bad_indices_aux {A} (chk : A -> bool) (l : list A) (i : nat) : list nat :=
  match l with
  | [] => []
  | x :: l' => if chk x then bad_indices_aux chk l' (S i) else i :: bad_indices_aux chk l' (S i)
  end.
Definition bad_indices {A} (chk : A -> bool) (l : list A) : list nat := bad_indices_aux chk l 0.

(** |a - b| <= tol * (|a| + |b|) + atol *)
Definition Qclose (tol atol a b : Q) : bool :=
  Qle_bool (Qabs (a - b)) (tol * (Qabs a + Qabs b) + atol).

Fixpoint list_eqb {A} (eqb : A -> A -> bool) (l m : list A) : bool :=
  match l, m with
  | [], [] => true
  | x :: l', y :: m' => eqb x y && list_eqb eqb l' m'
  | _, _ => false
  end.

Definition option_eqb {A} (eqb : A -> A -> bool) (a b : option A) : bool :=
  match a, b with
  | None, None => true
  | Some x, Some y => eqb x y
  | _, _ => false
  end.
