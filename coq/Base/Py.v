(** Python value universe and expression / statement combinators used by the
    generated (translated) models.  Definitions only; lemmas are in Proofs/. *)
From Coq Require Import List ZArith QArith Bool String.
Import ListNotations.
Open Scope string_scope.

Inductive pv : Type :=
| PNone
| PBool (b : bool)
| PInt (z : Z)
| PFloat (q : Q)                    (* finite floats only, as exact rationals *)
| PStr (s : string)
| PEnum (cls name : string)
| PTuple (l : list pv)
| PList (l : list pv).

Inductive pytype := T_int | T_float | T_str | T_tuple | T_list | T_bool | T_real | T_enum (cls : string).

Inductive exn := ValueError | TypeError | IndexError | KeyError | OtherError.

Inductive res (A : Type) := Ok (a : A) | Raise (e : exn).
Arguments Ok {A} a.
Arguments Raise {A} e.

Definition bind {A B} (r : res A) (f : A -> res B) : res B :=
  match r with Ok a => f a | Raise e => Raise e end.

(** isinstance: bool is a subclass of int, as in Python; numbers.Real covers int, bool, float *)
Definition isinstance1 (v : pv) (t : pytype) : bool :=
  match t, v with
  | T_int, PInt _ => true | T_int, PBool _ => true
  | T_bool, PBool _ => true
  | T_float, PFloat _ => true
  | T_real, PInt _ => true | T_real, PBool _ => true | T_real, PFloat _ => true
  | T_str, PStr _ => true
  | T_tuple, PTuple _ => true
  | T_list, PList _ => true
  | T_enum c, PEnum c' _ => String.eqb c c'
  | _, _ => false
  end.

Definition num_of (v : pv) : option Q :=
  match v with
  | PBool true => Some 1%Q | PBool false => Some 0%Q
  | PInt z => Some (inject_Z z)
  | PFloat q => Some q
  | _ => None
  end.

Fixpoint py_eq (a b : pv) {struct a} : bool :=
  let fix eql (l : list pv) (m : list pv) {struct l} : bool :=
      match l, m with
      | [], [] => true
      | x :: l', y :: m' => py_eq x y && eql l' m'
      | _, _ => false
      end in
  match num_of a, num_of b with
  | Some x, Some y => Qeq_bool x y
  | _, _ =>
    match a, b with
    | PNone, PNone => true
    | PStr s, PStr t => String.eqb s t
    | PEnum c n, PEnum c' n' => String.eqb c c' && String.eqb n n'
    | PTuple l, PTuple m => eql l m
    | PList l, PList m => eql l m
    | _, _ => false
    end
  end.

Definition truthy (v : pv) : bool :=
  match v with
  | PNone => false
  | PBool b => b
  | PInt z => negb (Z.eqb z 0)
  | PFloat q => negb (Qeq_bool q 0)
  | PStr s => negb (String.eqb s "")
  | PEnum _ _ => true
  | PTuple l => match l with [] => false | _ => true end
  | PList l => match l with [] => false | _ => true end
  end.

(** expression combinators (all evaluate to [res pv]) *)
Definition e_const (v : pv) : res pv := Ok v.
Definition e_isinstance (v : res pv) (ts : list pytype) : res pv :=
  bind v (fun x => Ok (PBool (existsb (isinstance1 x) ts))).
Definition e_and (a : res pv) (b : unit -> res pv) : res pv :=
  bind a (fun va => if truthy va then b tt else Ok va).
Definition e_or (a : res pv) (b : unit -> res pv) : res pv :=
  bind a (fun va => if truthy va then Ok va else b tt).
Definition e_not (a : res pv) : res pv := bind a (fun va => Ok (PBool (negb (truthy va)))).

Inductive cmpop := Lt | Le | Gt | Ge | Eq | Ne.
Definition cmp_num (op : cmpop) (x y : Q) : bool :=
  match op with
  | Lt => negb (Qle_bool y x) | Le => Qle_bool x y
  | Gt => negb (Qle_bool x y) | Ge => Qle_bool y x
  | Eq => Qeq_bool x y | Ne => negb (Qeq_bool x y)
  end.
Definition e_cmp (op : cmpop) (a b : res pv) : res pv :=
  bind a (fun va => bind b (fun vb =>
    match op with
    | Eq => Ok (PBool (py_eq va vb))
    | Ne => Ok (PBool (negb (py_eq va vb)))
    | _ => match num_of va, num_of vb with
           | Some x, Some y => Ok (PBool (cmp_num op x y))
           | _, _ => Raise TypeError       (* '<' not supported between e.g. str and int *)
           end
    end)).
Definition e_in (a : res pv) (l : list pv) : res pv :=
  bind a (fun va => Ok (PBool (existsb (py_eq va) l))).
Definition e_len (a : res pv) : res pv :=
  bind a (fun va => match va with
                    | PTuple l | PList l => Ok (PInt (Z.of_nat (List.length l)))
                    | PStr s => Ok (PInt (Z.of_nat (String.length s)))
                    | _ => Raise TypeError end).
(** any(f(x) for x in seq): stops at the first truthy element, propagates exceptions met before it *)
Fixpoint any_list (f : pv -> res pv) (l : list pv) : res pv :=
  match l with
  | [] => Ok (PBool false)
  | x :: l' => bind (f x) (fun vx => if truthy vx then Ok (PBool true) else any_list f l')
  end.
Definition e_any (seq : res pv) (f : pv -> res pv) : res pv :=
  bind seq (fun vs => match vs with
                      | PTuple l | PList l => any_list f l
                      | _ => Raise TypeError end).

(** Enum(value): look a member up by its value *)
Fixpoint enum_lookup (cls : string) (members : list (string * pv)) (v : pv) : res pv :=
  match members with
  | [] => Raise ValueError
  | (name, mv) :: ms => if py_eq mv v then Ok (PEnum cls name) else enum_lookup cls ms v
  end.

(** A store: flat association list from keys to Python values (nested dicts are
    flattened with "." between the keys). *)
Definition store := list (string * pv).
Fixpoint sget (s : store) (k : string) : res pv :=
  match s with
  | [] => Raise KeyError
  | (k', v) :: s' => if String.eqb k k' then Ok v else sget s' k
  end.
Fixpoint sset (s : store) (k : string) (v : pv) : store :=
  match s with
  | [] => [(k, v)]
  | (k', v') :: s' => if String.eqb k k' then (k, v) :: s' else (k', v') :: sset s' k v
  end.

(** statements: a state transformer that may stop with an exception; the state at the
    moment of the exception is kept, so partial updates are visible. *)
Definition stmt := store -> store * option exn.
Definition s_skip : stmt := fun s => (s, None).
Definition s_seq (a b : stmt) : stmt :=
  fun s => match a s with (s1, None) => b s1 | (s1, Some e) => (s1, Some e) end.
Definition s_raise (e : exn) : stmt := fun s => (s, Some e).
Definition s_assign (k : string) (e : store -> res pv) : stmt :=
  fun s => match e s with Ok v => (sset s k v, None) | Raise x => (s, Some x) end.
Definition s_if (c : store -> res pv) (a b : stmt) : stmt :=
  fun s => match c s with
           | Ok v => if truthy v then a s else b s
           | Raise x => (s, Some x) end.
(** call of another translated procedure with an argument expression *)
Definition s_call (p : pv -> stmt) (e : store -> res pv) : stmt :=
  fun s => match e s with Ok v => p v s | Raise x => (s, Some x) end.
