(** Executable rational arithmetic in the option monad (None = not computable in Q:
    transcendental function, division by zero, non-integer power). *)
From Coq Require Import ZArith QArith.
Local Open Scope Q_scope.

Definition obind {A B} (a : option A) (f : A -> option B) : option B :=
  match a with Some x => f x | None => None end.
Definition olift2 (f : Q -> Q -> Q) (a b : option Q) : option Q :=
  obind a (fun x => obind b (fun y => Some (Qred (f x y)))).
Definition oadd := olift2 Qplus.
Definition osub := olift2 Qminus.
Definition omul := olift2 Qmult.
Definition oneg (a : option Q) : option Q := obind a (fun x => Some (Qopp x)).
Definition odiv (a b : option Q) : option Q :=
  obind a (fun x => obind b (fun y => if Qeq_bool y 0 then None else Some (Qred (x / y)))).
(** integer powers only; a negative power of zero is undefined *)
Definition Qpow_Z (x : Q) (k : Z) : option Q :=
  if Qeq_bool x 0 then (if (k <? 0)%Z then None else Some (Qred (Qpower x k)))
  else Some (Qred (Qpower x k)).
Definition opow (a b : option Q) : option Q :=
  obind a (fun x => obind b (fun y =>
    let y' := Qred y in
    if Pos.eqb (Qden y') 1 then Qpow_Z x (Qnum y') else None)).
Definition oifnz (c : option Q) (t e : unit -> option Q) : option Q :=
  obind c (fun x => if Qeq_bool x 0 then e tt else t tt).
