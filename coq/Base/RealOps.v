(** Real-number vocabulary used by the generated operator tables. *)
From Coq Require Import Reals.
Local Open Scope R_scope.

Definition Rlog10 (x : R) : R := ln x / ln 10.

(** total power used for Python's [**] on reals: exp (a ln b) for a positive base; an integer
    power for an integer exponent; junk (0) otherwise -- excluded by every theorem's domain. *)
Definition Rpow (b a : R) : R :=
  if Rlt_dec 0 b then Rpower b a
  else if Req_EM_T a (IZR (Int_part a)) then powerRZ b (Int_part a)
  else 0.
