(** C11 -- the DISPATCH of array arithmetic and vectorised math functions: which scalar operation, with
    which operand order, produces the i-th element of the result, for every special method x operand
    kind.  Definitions only; lemmas in Proofs/ArrayOps.v.

    Layers (top to bottom):
      [arr_binop]   Python's binary-operator protocol for "A op other" / "other op A"      (hand-written)
      [eva_call]    ExperimentalValueArray.__d__              GENERATED table [arr_overload] (Gen/OverloadsGen.v)
      [nd_call]     numpy.ndarray.__d__ on an object array: the ufunc applied element by element, with
                    broadcasting of a scalar operand                                        (ORACLE, hand-written)
      [py_binop]    Python's binary-operator protocol between two scalars                  (hand-written)
      [ev_call]     ExperimentalValue.__d__                   GENERATED table [ev_overload]
    and for functions [array_fn] = utils.vectorize (GENERATED rule list) around [scalar_fn]
    (GENERATED [fn_table], _execute).  Results are symbolic: the Formula tree of each DerivedValue. *)
From Coq Require Import List ZArith QArith Bool Arith.
From QV Require Import Model.OverloadVocab Gen.OverloadsGen.
Import ListNotations.

(** plain Python numbers, possibly computed (OPERATIONS[op](...) or float arithmetic) *)
Inductive num :=
| NLit (x : Q)
| N1 (o : oplit) (a : num)
| N2 (o : oplit) (a b : num).

(** a scalar Python value *)
Inductive sval :=
| VElem (k i : nat)               (* the i-th element object of MeasurementArray number k *)
| VMeas (m : nat)                 (* a single Measurement object *)
| VConst (n : num)                (* Constant(n) *)
| VNum (n : num)                  (* a plain number *)
| VF1 (o : oplit) (a : sval)      (* DerivedValue(Formula(o, [a])) *)
| VF2 (o : oplit) (a b : sval)    (* DerivedValue(Formula(o, [a, b])) *)
| VErr.

Definition is_ev (v : sval) : bool := match v with VNum _ | VErr => false | _ => true end.
(** wrap_in_experimental_value: a number of ANY numbers.Real type (Python int / float / bool, numpy scalar of any
    width, Fraction) becomes Constant(int(x)) or Constant(float(x)): a Constant with the same numeric value in a
    plain Python type -- [VConst n] carries that value, so [KNum x] stands for every spelling of the number x *)
Definition wrapv (v : sval) : sval := match v with VNum n => VConst n | _ => v end.

(** ExperimentalValue.__d__(self, other) for a scalar [other] *)
Definition ev_call (d : dunder) (self other : sval) : sval :=
  match ev_overload d with
  | EvBinary op true _ => VF2 op self (wrapv other)
  | EvBinary op false _ => VF2 op (wrapv other) self
  | EvUnary op => VF1 op self
  end.

Inductive binop := BAdd | BSub | BMul | BDiv | BPow.
(** Python data model: the special methods of an operator, and the operator's name in OPERATIONS *)
Definition fwd (o : binop) : dunder :=
  match o with BAdd => D_add | BSub => D_sub | BMul => D_mul | BDiv => D_truediv | BPow => D_pow end.
Definition refl (o : binop) : dunder :=
  match o with BAdd => D_radd | BSub => D_rsub | BMul => D_rmul | BDiv => D_rtruediv | BPow => D_rpow end.
Definition lit_of (o : binop) : oplit :=
  match o with BAdd => ADD | BSub => SUB | BMul => MUL | BDiv => DIV | BPow => POW end.

(** [l o r] between scalars: the left operand's method first; a plain number returns NotImplemented
    for an ExperimentalValue, so the right operand's reflected method runs *)
Definition py_binop (o : binop) (l r : sval) : sval :=
  if is_ev l then ev_call (fwd o) l r
  else if is_ev r then ev_call (refl o) r l
  else match l, r with VNum a, VNum b => VNum (N2 (lit_of o) a b) | _, _ => VErr end.
Definition py_neg (a : sval) : sval := if is_ev a then ev_call D_neg a a else match a with VNum x => VNum (N1 NEG x) | _ => VErr end.

(** ---- operands of array arithmetic ---- *)
Inductive operand :=
| KNum (x : Q)                    (* a number *)
| KMeas (m : nat)                 (* ONE quantity: a Measurement (from a number or from repeated
                                     readings) or a calculated value; numpy must treat it as a scalar *)
| KList (l : list Q)              (* a list of numbers *)
| KNd (l : list Q)                (* a numpy array of numbers *)
| KArr (k n : nat).               (* MeasurementArray number k with n elements *)

Definition elems (k n : nat) : list sval := map (VElem k) (seq 0 n).
Definition lit (x : Q) : sval := VNum (NLit x).

Definition operand_at (o : operand) (i : nat) : sval :=
  match o with
  | KNum x => lit x
  | KMeas m => VMeas m
  | KList l | KNd l => lit (nth i l 0)
  | KArr k _ => VElem k i
  end.
Definition compatible (n : nat) (o : operand) : Prop :=
  match o with
  | KList l | KNd l => length l = n
  | KArr _ n' => n' = n
  | _ => True
  end.
Definition is_array_kind (o : operand) : bool :=
  match o with KList _ | KNd _ | KArr _ _ => true | _ => false end.

(** what numpy sees: one object broadcast to every position, or a sequence of objects *)
Inductive nd_operand := NScalar (v : sval) | NSeq (l : list sval).
Definition as_nd (o : operand) : nd_operand :=
  match o with
  | KNum x => NScalar (lit x)
  | KMeas m => NScalar (VMeas m)
  | KList l | KNd l => NSeq (map lit l)
  | KArr k n => NSeq (elems k n)
  end.
Definition wrap_nd (o : nd_operand) : nd_operand :=
  match o with NScalar v => NScalar (wrapv v) | s => s end.

Definition base_of (d : dunder) : option (binop * bool) :=       (* operator, reflected *)
  match d with
  | D_add => Some (BAdd, false) | D_radd => Some (BAdd, true)
  | D_sub => Some (BSub, false) | D_rsub => Some (BSub, true)
  | D_mul => Some (BMul, false) | D_rmul => Some (BMul, true)
  | D_truediv => Some (BDiv, false) | D_rtruediv => Some (BDiv, true)
  | D_pow => Some (BPow, false) | D_rpow => Some (BPow, true)
  | D_neg => None
  end.

Fixpoint map2 {A B C} (f : A -> B -> C) (l : list A) (m : list B) : list C :=
  match l, m with x :: l', y :: m' => f x y :: map2 f l' m' | _, _ => [] end.

(** numpy.ndarray.__d__(A, o) on an object array (ORACLE): np.<op>(A, o), reflected np.<op>(o, A) *)
Definition nd_call (d : dunder) (A : list sval) (o : nd_operand) : list sval :=
  match base_of d with
  | None => map py_neg A
  | Some (b, reflected) =>
      let f a x := if reflected then py_binop b x a else py_binop b a x in
      match o with
      | NScalar v => map (fun a => f a v) A
      | NSeq l => map2 f A l
      end
  end.

(** ExperimentalValueArray.__d__(A, other), from the generated table *)
Definition eva_call (d : dunder) (A : list sval) (o : operand) : list sval :=
  match arr_overload d with
  | ArrDelegate d' wraps =>
      nd_call d' A (if is_array_kind o then as_nd o else if wraps then wrap_nd (as_nd o) else as_nd o)
  | ArrInherited => nd_call d A (as_nd o)
  end.

(** "A o other" (self_left = true) and "other o A" (self_left = false) for the array A = (k, n) *)
Definition arr_binop (o : binop) (self_left : bool) (k n : nat) (other : operand) : list sval :=
  let A := elems k n in
  if self_left then eva_call (fwd o) A other
  else
    match other with
    | KMeas m =>
        (* ExperimentalValue.__op__(m, A): the ARRAY_TYPES branch defers to A.__defer__(m) *)
        match ev_overload (fwd o) with
        | EvBinary _ _ (Some d') => eva_call d' A other
        | _ => []
        end
    | KArr k2 n2 => eva_call (fwd o) (elems k2 n2) (KArr k n)     (* the other array's own method *)
    | _ => eva_call (refl o) A other      (* number / list: NotImplemented; plain ndarray: subclass priority *)
    end.
Definition arr_neg (k n : nat) : list sval := eva_call D_neg (elems k n) (KNum 0).

(** ---- vectorised math functions ---- *)
Definition execute1 (op : oplit) (x : sval) : sval :=
  match x with VNum a => VNum (N1 op a) | VErr => VErr | _ => VF1 op (wrapv x) end.
Definition execute2 (op : oplit) (x y : sval) : sval :=
  match x, y with
  | VNum a, VNum b => VNum (N2 op a b)
  | VErr, _ | _, VErr => VErr
  | _, _ => VF2 op (wrapv x) (wrapv y)
  end.
(** x / divisor * factor, by Python's operator protocol *)
Definition deg (divisor factor : Q) (x : sval) : sval :=
  py_binop BMul (py_binop BDiv x (lit divisor)) (lit factor).

Definition scalar_fn (f : fname) (x : sval) : sval :=
  match fn_table f with
  | FnDirect op => execute1 op x
  | FnDegrees base dv fc =>
      match fn_table base with FnDirect op => execute1 op (deg dv fc x) | _ => VErr end
  | FnLog _ _ _ one => execute1 one x
  end.
Definition pick (i : nat) (a b : sval) : sval := match i with O => a | _ => b end.
Definition scalar_log2 (a b : sval) : sval :=
  match fn_table F_log with
  | FnLog two i j _ => execute2 two (pick i a b) (pick j a b)
  | _ => VErr
  end.

Inductive cont := CScalar | CList | CNd | CEva.
Definition matches (k : vkind) (o : operand) : bool :=
  match k, o with
  | VkNdarray, KNd _ | VkNdarray, KArr _ _ => true       (* a MeasurementArray is an ndarray *)
  | VkList, KList _ => true
  | _, _ => false
  end.
Definition is_eva (o : operand) : bool := match o with KArr _ _ => true | _ => false end.
(** the container utils.vectorize returns; np.vectorize gives a MeasurementArray when an argument is
    one (ORACLE: numpy's __array_wrap__) *)
Fixpoint container_of (rules : list (vkind * bool)) (args : list operand) : cont :=
  match rules with
  | [] => CScalar
  | (k, tolist) :: r =>
      if existsb (matches k) args then
        (if tolist then CList else if existsb is_eva args then CEva else CNd)
      else container_of r args
  end.
Definition op_len (o : operand) : option nat :=
  match o with KList l | KNd l => Some (length l) | KArr _ n => Some n | _ => None end.
Fixpoint args_len (args : list operand) : nat :=
  match args with
  | [] => 1
  | a :: r => match op_len a with Some n => n | None => args_len r end
  end.

Definition array_fn (f : fname) (arg : operand) : cont * list sval :=
  (container_of vectorize_rules [arg],
   map (fun i => scalar_fn f (operand_at arg i)) (seq 0 (args_len [arg]))).
Definition array_log2 (a b : operand) : cont * list sval :=
  (container_of vectorize_rules [a; b],
   map (fun i => scalar_log2 (operand_at a i) (operand_at b i)) (seq 0 (args_len [a; b]))).
