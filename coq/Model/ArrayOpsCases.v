(** Executable comparison of the dispatch model (Model/ArrayOps.v) with the Formula trees observed on
    the implementation. *)
From Coq Require Import List ZArith QArith Bool Arith.
From QV Require Import Base.CaseLib Model.OverloadVocab Gen.OverloadsGen Model.ArrayOps.
Import ListNotations.

Definition oplit_eqb (a b : oplit) : bool :=
  match a, b with
  | NEG, NEG | ADD, ADD | SUB, SUB | MUL, MUL | DIV, DIV | SQRT, SQRT | SIN, SIN | COS, COS | TAN, TAN
  | SEC, SEC | CSC, CSC | COT, COT | POW, POW | EXP, EXP | LOG, LOG | LOG10, LOG10 | LN, LN
  | ASIN, ASIN | ACOS, ACOS | ATAN, ATAN => true
  | _, _ => false
  end.

(** the value of a Constant is compared when it is a literal; computed plain numbers only as such *)
Definition num_eqb (a b : num) : bool :=
  match a, b with
  | NLit x, NLit y => Qeq_bool x y
  | NLit _, _ | _, NLit _ => false
  | _, _ => true
  end.

Fixpoint sval_eqb (a b : sval) : bool :=
  match a, b with
  | VElem k i, VElem k' i' => Nat.eqb k k' && Nat.eqb i i'
  | VMeas m, VMeas m' => Nat.eqb m m'
  | VConst x, VConst y => num_eqb x y
  | VNum _, VNum _ => true                 (* a plain number; its value is the oracle's business *)
  | VF1 o x, VF1 o' x' => oplit_eqb o o' && sval_eqb x x'
  | VF2 o x y, VF2 o' x' y' => oplit_eqb o o' && sval_eqb x x' && sval_eqb y y'
  | _, _ => false
  end.

Definition cont_eqb (a b : cont) : bool :=
  match a, b with CScalar, CScalar | CList, CList | CNd, CNd | CEva, CEva => true | _, _ => false end.

Definition compatibleb (n : nat) (o : operand) : bool :=
  match o with
  | KList l | KNd l => Nat.eqb (length l) n
  | KArr _ n' => Nat.eqb n' n
  | _ => true
  end.

Inductive ccase :=
| CBin (o : binop) (self_left : bool) (n : nat) (other : operand)
| CNeg (n : nat)
| CFn (f : fname) (arg : operand)
| CLog2 (a b : operand).

(** observation: None = an exception was raised *)
Definition check_case (c : ccase * option (cont * list sval)) : bool :=
  let (cs, obs) := c in
  match cs, obs with
  | CBin o sl n other, Some (ct, l) =>
      compatibleb n other && cont_eqb ct CEva && list_eqb sval_eqb (arr_binop o sl 0 n other) l
  | CBin o sl n other, None => negb (compatibleb n other)
  | CNeg n, Some (ct, l) => cont_eqb ct CEva && list_eqb sval_eqb (arr_neg 0 n) l
  | CFn f arg, Some (ct, l) =>
      let (mc, ml) := array_fn f arg in cont_eqb ct mc && list_eqb sval_eqb ml l
  | CLog2 a b, Some (ct, l) =>
      let (mc, ml) := array_log2 a b in cont_eqb ct mc && list_eqb sval_eqb ml l
  | _, None => false
  end.
