(** C17 -- model of the edit and aggregate methods of qexpy.data.datasets.ExperimentalValueArray
    (MeasurementArray).  Definitions only; lemmas are in Proofs/Arrays.v.

    A numpy object array holds REFERENCES to ExperimentalValue objects.  np.append / np.insert /
    np.delete build a new array of references, so the array an edit started from and the result
    share their element objects; the methods then rename / re-unit the elements of the result
    in place.  The model therefore has a heap of element objects (id -> value, error, name, unit)
    and arrays are lists of ids.

    Hand-written, line by line after datasets.py / data/utils.py; tied to the code by the
    correspondence run of tools/props/c17.py.  What is NOT modelled: __array_finalize__'s
    renaming loop inside np.insert / np.delete / .view() -- it rewrites element names with the
    array name, and every successful edit overwrites all of those names again in its own loop,
    reading the array name through [self[0].name] which that loop leaves invariant (see
    Proofs/Arrays.v, strip_idx_name); the correspondence observes names after every edit. *)
From Coq Require Import List ZArith QArith Qabs Bool Arith.
From QV Require Import Base.Py.
Import ListNotations.

(** text = list of Unicode code points *)
Definition str := list N.

(** an ExperimentalValue object as far as arrays are concerned.  The unit is a token for the
    canonical printed unit string (0 = no unit): [x.unit = s] parses [s] and [x.unit] prints it
    back; that round trip is the identity on printed strings (property C13). *)
Record elem := mkElem { ev : Q; ee : Q; en : str; eu : N }.
Definition heap := nat -> elem.
Definition arr := list nat.
Definition hs := (heap * nat)%type.          (* heap, next free id *)

Definition dflt : elem := mkElem 0 0 [] 0%N.
Definition empty_heap : heap := fun _ => dflt.
Definition upd (h : heap) (i : nat) (e : elem) : heap := fun j => if Nat.eqb j i then e else h j.
Definition set_value (h : heap) i (x : Q) := upd h i (mkElem x (ee (h i)) (en (h i)) (eu (h i))).
Definition set_name (h : heap) i (n : str) := upd h i (mkElem (ev (h i)) (ee (h i)) n (eu (h i))).
Definition set_unit (h : heap) i (u : N) := upd h i (mkElem (ev (h i)) (ee (h i)) (en (h i)) u).

(** ---- "{}_{}".format(name, index) and re.sub(r"_[0-9]+$", "", s) ---- *)
Definition is_digit (c : N) : bool := (48 <=? c)%N && (c <=? 57)%N.
Definition underscore : N := 95%N.

Fixpoint dec_aux (fuel n : nat) (acc : str) : str :=
  match fuel with
  | O => acc
  | S f => let d := (N.of_nat (n mod 10) + 48)%N in
           if Nat.eqb (n / 10) 0 then d :: acc else dec_aux f (n / 10) (d :: acc)
  end.
Definition dec (n : nat) : str := dec_aux (S n) n [].
Definition idx_name (name : str) (j : nat) : str := name ++ underscore :: dec j.

Fixpoint span_digits (s : str) : str * str :=
  match s with
  | c :: r => if is_digit c then let (d, t) := span_digits r in (c :: d, t) else ([], s)
  | [] => ([], [])
  end.
(** the only possible match of [_[0-9]+$] starts just before the maximal trailing digit run *)
Definition strip_index (s : str) : str :=
  let (d, t) := span_digits (rev s) in
  match d, t with
  | _ :: _, c :: t' => if N.eqb c underscore then rev t' else s
  | _, _ => s
  end.

Definition is_nil {A} (l : list A) : bool := match l with [] => true | _ => false end.

(** the [name] and [unit] properties of the array read element 0 ("" for an empty array) *)
Definition arr_name (h : heap) (A : arr) : str :=
  match A with [] => [] | id :: _ => strip_index (en (h id)) end.
Definition arr_unit (h : heap) (A : arr) : N :=
  match A with [] => 0%N | id :: _ => eu (h id) end.

(** ---- operands of the edits ---- *)
Inductive item :=
| INum (x : Q)                 (* a real number *)
| IPair (x e : Q)              (* a (value, error) tuple *)
| IMeas (id : nat)             (* an existing measurement object *)
| IBad (e : exn).              (* anything else; [e] is what wrap_in_measurement raises for it *)
Inductive operand :=
| OItem (it : item)
| OList (l : list item)        (* list / ndarray of items *)
| OArr (B : arr).              (* another ExperimentalValueArray *)

(** data/utils.py: wrap_in_measurement(value, unit=u, name=n) *)
Definition wrap_item (u : N) (n : str) (s : hs) (it : item) : hs * res nat :=
  let (h, nx) := s in
  match it with
  | INum x => ((upd h nx (mkElem x 0 n u), S nx), Ok nx)
  | IPair x e => if Qle_bool 0 e then ((upd h nx (mkElem x e n u), S nx), Ok nx)
                 else (s, Raise ValueError)
  | IMeas id => ((set_unit (set_name h id n) id u, nx), Ok id)
  | IBad e => (s, Raise e)
  end.

Fixpoint wrap_items (u : N) (n : str) (s : hs) (l : list item) : hs * res (list nat) :=
  match l with
  | [] => (s, Ok [])
  | it :: r =>
      match wrap_item u n s it with
      | (s1, Raise e) => (s1, Raise e)
      | (s1, Ok id) =>
          match wrap_items u n s1 r with
          | (s2, Raise e) => (s2, Raise e)
          | (s2, Ok ids) => (s2, Ok (id :: ids))
          end
      end
  end.

(** data/utils.py: wrap_in_value_array *)
Definition wrap_operand (u : N) (n : str) (s : hs) (o : operand) : hs * res arr :=
  match o with
  | OArr B => (s, Ok B)
  | OList l => wrap_items u n s l
  | OItem it => wrap_items u n s [it]
  end.

(** the loop of append / insert / delete over the result:
      for idx, measurement in enumerate(result):
          measurement.name = "{}_{}".format(self.name, idx)
          measurement.unit = self.unit                       (append and insert only)
    [self] is the array the edit started from: its name and unit are re-read, through its
    element 0, at every iteration, while that element may itself be renamed by the loop. *)
Fixpoint relabel (with_unit : bool) (h : heap) (A R : arr) (j : nat) : heap :=
  match R with
  | [] => h
  | id :: R' =>
      let h1 := set_name h id (idx_name (arr_name h A) j) in
      let h2 := if with_unit then set_unit h1 id (arr_unit h1 A) else h1 in
      relabel with_unit h2 A R' (S j)
  end.

(** numpy index normalisation: valid keys are -n <= k < n (k <= n for insert) *)
Definition norm_index (n : nat) (k : Z) (incl_end : bool) : option nat :=
  let nz := Z.of_nat n in
  if (k <? - nz)%Z || (if incl_end then (k >? nz)%Z else (k >=? nz)%Z) then None
  else Some (Z.to_nat (if (k <? 0)%Z then k + nz else k)%Z).

Fixpoint remove_nth {A} (i : nat) (l : list A) : list A :=
  match l, i with
  | [], _ => []
  | _ :: r, O => r
  | x :: r, S i' => x :: remove_nth i' r
  end.
Fixpoint update {A} (i : nat) (x : A) (l : list A) : list A :=
  match l, i with
  | [], _ => []
  | _ :: r, O => x :: r
  | y :: r, S i' => y :: update i' x r
  end.

Definition append (s : hs) (A : arr) (o : operand) : hs * res arr :=
  let h := fst s in
  match wrap_operand (arr_unit h A) (arr_name h A) s o with
  | (s1, Raise e) => (s1, Raise e)
  | ((h1, nx1), Ok V) => let R := A ++ V in ((relabel true h1 A R 0, nx1), Ok R)
  end.

Definition insert (s : hs) (A : arr) (k : Z) (o : operand) : hs * res arr :=
  let h := fst s in
  match wrap_operand (arr_unit h A) (arr_name h A) s o with
  | (s1, Raise e) => (s1, Raise e)
  | ((h1, nx1), Ok V) =>
      match norm_index (length A) k true with
      | None => ((h1, nx1), Raise IndexError)
      | Some i => let R := firstn i A ++ V ++ skipn i A in
                  ((relabel true h1 A R 0, nx1), Ok R)
      end
  end.

(** deleting the only element gives an empty array (no name, no unit) *)
Definition delete (s : hs) (A : arr) (k : Z) : hs * res arr :=
  let (h, nx) := s in
  match norm_index (length A) k false with
  | None => (s, Raise IndexError)
  | Some i => let R := remove_nth i A in ((relabel false h A R 0, nx), Ok R)
  end.

(** __setitem__ mutates the array object: the result is the new id list of the SAME array.
      name = self.name                       (read once, before the new element is stored)
      super().__setitem__(key, wrap_in_measurement(value, unit=self.unit, name=name))
      if name: self[key].name = "{}_{}".format(name, index)        (index = normalised key) *)
Definition setitem (s : hs) (A : arr) (k : Z) (o : operand) : hs * res arr :=
  let (h, nx) := s in
  match o with
  | OItem (INum x) =>
      match norm_index (length A) k false with
      | None => (s, Raise IndexError)
      | Some i => ((set_value h (nth i A 0%nat) x, nx), Ok A)
      end
  | OItem it =>
      match wrap_item (arr_unit h A) (arr_name h A) s it with
      | (s1, Raise e) => (s1, Raise e)
      | ((h1, nx1), Ok id) =>
          match norm_index (length A) k false with
          | None => ((h1, nx1), Raise IndexError)
          | Some i =>
              let nm := arr_name h A in
              let h2 := if is_nil nm then h1 else set_name h1 id (idx_name nm i) in
              ((h2, nx1), Ok (update i id A))
          end
      end
  | _ => (s, Raise TypeError)
  end.

(** ---- constructor: numbers with no / common / per-element / relative uncertainties ---- *)
Inductive errspec := ENone | ECommon (e : Q) | EEach (l : list Q) | RCommon (r : Q) | REach (l : list Q).

Definition check_nonneg (l : list Q) : res (list Q) :=
  if forallb (fun e => Qle_bool 0 e) l then Ok l else Raise ValueError.

Fixpoint map2 {A B C} (f : A -> B -> C) (l : list A) (m : list B) : list C :=
  match l, m with x :: l', y :: m' => f x y :: map2 f l' m' | _, _ => [] end.

(** datasets.py: _get_error_array_helper *)
Definition error_array (data : list Q) (sp : errspec) : res (list Q) :=
  match sp with
  | ENone => Ok (map (fun _ => 0) data)
  | ECommon e => check_nonneg (map (fun _ => e) data)
  | EEach l => if Nat.eqb (length l) (length data) then check_nonneg l else Raise ValueError
  | RCommon r => check_nonneg (map (fun x => r * Qabs x) data)
  | REach l => if Nat.eqb (length l) (length data) then check_nonneg (map2 (fun r x => r * Qabs x) l data)
               else Raise ValueError
  end.

Fixpoint alloc_all (s : hs) (name : str) (u : N) (ves : list (Q * Q)) (j : nat) : hs * arr :=
  match ves with
  | [] => (s, [])
  | (v, e) :: r =>
      let (h, nx) := s in
      let nm := if is_nil name then [] else idx_name name j in
      let (s2, ids) := alloc_all (upd h nx (mkElem v e nm u), S nx) name u r (S j) in
      (s2, nx :: ids)
  end.

Definition mk_array (s : hs) (data : list Q) (sp : errspec) (name : str) (u : N) : hs * res arr :=
  match error_array data sp with
  | Raise e => (s, Raise e)
  | Ok errs => let (s2, ids) := alloc_all s name u (combine data errs) 0 in (s2, Ok ids)
  end.

(** q.Measurement(v, e, name=, unit=) *)
Definition new_meas (s : hs) (v e : Q) (name : str) (u : N) : hs * res nat :=
  let (h, nx) := s in
  if Qle_bool 0 e then ((upd h nx (mkElem v e name u), S nx), Ok nx) else (s, Raise ValueError).

(** ---- abstraction: the array as a Python list of (value, uncertainty) pairs ---- *)
Definition pair_of (h : heap) (id : nat) : Q * Q := (ev (h id), ee (h id)).
Definition abs (h : heap) (A : arr) : list (Q * Q) := map (pair_of h) A.

Definition coerce_item (h : heap) (it : item) : Q * Q :=
  match it with
  | INum x => (x, 0)
  | IPair x e => (x, e)
  | IMeas id => pair_of h id
  | IBad _ => (0, 0)
  end.
Definition coerce (h : heap) (o : operand) : list (Q * Q) :=
  match o with
  | OItem it => [coerce_item h it]
  | OList l => map (coerce_item h) l
  | OArr B => abs h B
  end.

(** ---- aggregates (the uncertainty of sum and mean and std are returned SQUARED) ---- *)
Definition values (h : heap) (A : arr) : list Q := map (fun id => ev (h id)) A.
Definition errors (h : heap) (A : arr) : list Q := map (fun id => ee (h id)) A.
Definition qsum (l : list Q) : Q := fold_right Qplus 0 l.
Definition qlen {A} (l : list A) : Q := inject_Z (Z.of_nat (length l)).
Definition np_mean (l : list Q) : Q := qsum l / qlen l.
Definition np_var1 (l : list Q) : Q :=                (* np.std(l, ddof=1) ** 2 *)
  qsum (map (fun x => (x - np_mean l) * (x - np_mean l)) l) / (qlen l - 1).
(** sum(): np.sum(self.values), np.sqrt(np.sum(self.errors ** 2)) *)
Definition agg_sum (h : heap) (A : arr) : Q * Q :=
  (qsum (values h A), qsum (map (fun e => e * e) (errors h A))).
(** std(): np.std(self.values, ddof=1) *)
Definition agg_std_sq (h : heap) (A : arr) : Q := np_var1 (values h A).
(** mean(): np.mean(self.values), self.std() / sqrt(self.size) *)
Definition agg_mean (h : heap) (A : arr) : Q * Q :=
  (np_mean (values h A), agg_std_sq h A / qlen A).
Definition mean_of : str := [109; 101; 97; 110; 32; 111; 102; 32]%N.   (* "mean of " *)
Definition agg_mean_name (h : heap) (A : arr) : str :=
  if is_nil (arr_name h A) then [] else mean_of ++ arr_name h A.

(** ---- a session: several arrays and user measurements over one heap ---- *)
Record state := mkState { st_hs : hs; st_pool : list nat; st_store : list arr }.
Definition init_state : state := mkState (empty_heap, 0%nat) [] [].

Inductive uitem := UNum (x : Q) | UPair (x e : Q) | UMeas (j : nat) | UBad (e : exn).
Inductive uoperand := UItem (it : uitem) | UList (l : list uitem) | UArr (k : nat).
Inductive op :=
| MkArr (data : list Q) (sp : errspec) (name : str) (u : N)
| NewMeas (v e : Q) (name : str) (u : N)
| Append (k : nat) (o : uoperand)
| Insert (k : nat) (i : Z) (o : uoperand)
| Delete (k : nat) (i : Z)
| SetItem (k : nat) (i : Z) (o : uoperand).

Definition res_item (st : state) (it : uitem) : item :=
  match it with
  | UNum x => INum x | UPair x e => IPair x e
  | UMeas j => IMeas (nth j (st_pool st) 0%nat) | UBad e => IBad e
  end.
Definition res_operand (st : state) (o : uoperand) : operand :=
  match o with
  | UItem it => OItem (res_item st it)
  | UList l => OList (map (res_item st) l)
  | UArr k => OArr (nth k (st_store st) [])
  end.

Definition push_result (st : state) (r : hs * res arr) : state * option exn :=
  match r with
  | (s, Ok R) => (mkState s (st_pool st) (st_store st ++ [R]), None)
  | (s, Raise e) => (mkState s (st_pool st) (st_store st), Some e)
  end.

Definition step (st : state) (o : op) : state * option exn :=
  let arr_at k := nth k (st_store st) [] in
  match o with
  | MkArr data sp name u => push_result st (mk_array (st_hs st) data sp name u)
  | NewMeas v e name u =>
      match new_meas (st_hs st) v e name u with
      | (s, Ok id) => (mkState s (st_pool st ++ [id]) (st_store st), None)
      | (s, Raise x) => (mkState s (st_pool st) (st_store st), Some x)
      end
  | Append k o => push_result st (append (st_hs st) (arr_at k) (res_operand st o))
  | Insert k i o => push_result st (insert (st_hs st) (arr_at k) i (res_operand st o))
  | Delete k i => push_result st (delete (st_hs st) (arr_at k) i)
  | SetItem k i o =>
      match setitem (st_hs st) (arr_at k) i (res_operand st o) with
      | (s, Ok A') => (mkState s (st_pool st) (update k A' (st_store st)), None)
      | (s, Raise e) => (mkState s (st_pool st) (st_store st), Some e)
      end
  end.

(** ---- linear edit histories and their specification: Python list surgery ---- *)
Inductive edit :=
| EAppend (o : operand) | EInsert (k : Z) (o : operand) | EDelete (k : Z) | ESet (k : Z) (it : item).

Definition apply_edit (s : hs) (A : arr) (e : edit) : hs * res arr :=
  match e with
  | EAppend o => append s A o
  | EInsert k o => insert s A k o
  | EDelete k => delete s A k
  | ESet k it => setitem s A k (OItem it)
  end.
(** an edit that raises leaves the program with the array it had *)
Definition next_arr (A : arr) (r : res arr) : arr := match r with Ok R => R | Raise _ => A end.
Fixpoint run_edits (s : hs) (A : arr) (es : list edit) : hs * arr :=
  match es with
  | [] => (s, A)
  | e :: r => let (s1, res) := apply_edit s A e in run_edits s1 (next_arr A res) r
  end.

(** the same edits on a Python list of (value, uncertainty) pairs; None = the edit is rejected *)
Inductive ledit :=
| LAppend (v : list (Q * Q))             (* l + v *)
| LInsert (k : Z) (v : list (Q * Q))     (* l[k:k] = v *)
| LDelete (k : Z)                        (* del l[k] *)
| LSetNum (k : Z) (x : Q)                (* l[k] = (x, l[k][1]) : the uncertainty is kept *)
| LSet (k : Z) (p : Q * Q)               (* l[k] = p *)
| LNop.                                  (* malformed operand *)
Definition list_edit (l : list (Q * Q)) (e : ledit) : option (list (Q * Q)) :=
  match e with
  | LAppend v => Some (l ++ v)
  | LInsert k v => option_map (fun i => firstn i l ++ v ++ skipn i l) (norm_index (length l) k true)
  | LDelete k => option_map (fun i => remove_nth i l) (norm_index (length l) k false)
  | LSetNum k x => option_map (fun i => update i (x, snd (nth i l (0, 0))) l) (norm_index (length l) k false)
  | LSet k p => option_map (fun i => update i p l) (norm_index (length l) k false)
  | LNop => None
  end.
Definition list_step (l : list (Q * Q)) (e : ledit) : list (Q * Q) :=
  match list_edit l e with Some l' => l' | None => l end.
Definition list_run (l : list (Q * Q)) (es : list ledit) : list (Q * Q) := fold_left list_step es l.

Definition item_wf (it : item) : bool :=
  match it with IBad _ => false | IPair _ e => Qle_bool 0 e | _ => true end.
Definition operand_wf (o : operand) : bool :=
  match o with OItem it => item_wf it | OList l => forallb item_wf l | OArr _ => true end.

(** an edit as a list edit: measurement operands contribute the (value, error) they have at that time *)
Definition abstract_edit (h : heap) (e : edit) : ledit :=
  match e with
  | EAppend o => if operand_wf o then LAppend (coerce h o) else LNop
  | EInsert k o => if operand_wf o then LInsert k (coerce h o) else LNop
  | EDelete k => LDelete k
  | ESet k (INum x) => LSetNum k x
  | ESet k it => if item_wf it then LSet k (coerce_item h it) else LNop
  end.
Fixpoint trace (s : hs) (A : arr) (es : list edit) : list ledit :=
  match es with
  | [] => []
  | e :: r => abstract_edit (fst s) e :: (let (s1, res) := apply_edit s A e in trace s1 (next_arr A res) r)
  end.
