(** Executable comparison of the array model (Model/Arrays.v) with observations of the implementation. *)
From Coq Require Import List ZArith QArith Qabs Bool Arith.
From QV Require Import Base.Py Base.CaseLib Model.Arrays.
Import ListNotations.

Definition exn_eqb17 (a b : exn) : bool :=
  match a, b with
  | ValueError, ValueError | TypeError, TypeError | IndexError, IndexError
  | KeyError, KeyError | OtherError, OtherError => true
  | _, _ => false
  end.

(** value, error, name, unit token of one element *)
Definition eobs := (Q * Q * str * N)%type.
Definition eobs_eqb (a b : eobs) : bool :=
  let '(v1, e1, n1, u1) := a in
  let '(v2, e2, n2, u2) := b in
  Qeq_bool v1 v2 && Qeq_bool e1 e2 && list_eqb N.eqb n1 n2 && N.eqb u1 u2.

Definition obs_elem (h : heap) (id : nat) : eobs := (ev (h id), ee (h id), en (h id), eu (h id)).
Definition obs_arr (h : heap) (A : arr) : list eobs := map (obs_elem h) A.

(** after every operation: the exception class (if any), ALL arrays created so far (the result, the
    array the edit started from and every older array that may share elements with them), and the
    measurement objects the user holds *)
Definition stepobs := (op * option exn * list (list eobs) * list eobs)%type.

Definition check_obs (st : state) (arrays : list (list eobs)) (pool : list eobs) : bool :=
  let h := fst (st_hs st) in
  list_eqb (list_eqb eobs_eqb) (map (obs_arr h) (st_store st)) arrays
  && list_eqb eobs_eqb (map (obs_elem h) (st_pool st)) pool.

Fixpoint check_steps (st : state) (l : list stepobs) : bool :=
  match l with
  | [] => true
  | (o, e, arrays, pool) :: r =>
      let (st1, e1) := step st o in
      option_eqb exn_eqb17 e1 e && check_obs st1 arrays pool && check_steps st1 r
  end.

Fixpoint run (st : state) (l : list op) : state :=
  match l with [] => st | o :: r => run (fst (step st o)) r end.

(** aggregates of array [k] of the final state: sum value, sum error, (mean value, mean error, std)
    when the array has at least two elements, name of the sum, name of the mean, unit token *)
Definition aggobs := (nat * Q * Q * option (Q * Q * Q) * str * str * N)%type.

Definition tol : Q := 1 # 1000000000.
Definition check_agg (st : state) (a : aggobs) : bool :=
  let '(k, sv, se, rest, sname, mname, u) := a in
  let h := fst (st_hs st) in
  let A := nth k (st_store st) [] in
  let (msv, mse2) := agg_sum h A in
  Qclose tol 0 sv msv && Qclose tol 0 (se * se) mse2
  && list_eqb N.eqb sname (arr_name h A) && list_eqb N.eqb mname (agg_mean_name h A)
  && N.eqb u (arr_unit h A)
  && match rest with
     | None => Nat.leb (length A) 1
     | Some (mv, me, sd) =>
         let (mmv, mme2) := agg_mean h A in
         Nat.leb 2 (length A) && Qle_bool 0 me && Qle_bool 0 sd && Qle_bool 0 se
         && Qclose tol 0 mv mmv && Qclose tol 0 (me * me) mme2 && Qclose tol 0 (sd * sd) (agg_std_sq h A)
     end.

Definition check_session (c : list stepobs * list aggobs) : bool :=
  let (steps, aggs) := c in
  check_steps init_state steps && forallb (check_agg (run init_state (map (fun s => fst (fst (fst s))) steps))) aggs.
