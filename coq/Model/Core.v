(** The object graph of qexpy.data and the pure derivative-method evaluation, generic in the
    number type.  Objects are kept newest first; the id of an object is the number of objects
    created before it (= length of the tail).  A formula refers to EARLIER objects by id or to
    numeric constants, so evaluation is structural recursion over the list and sharing of
    sub-results (one object referenced several times) is explicit.

    Mirrors, for the current code:
      operations._evaluate_formula            -> [vals]      (recurses through ._formula)
      MeasuredValue/DerivedValue/Constant.derivative, operations.differentiate with the
        _Operand proxy (operand values come from _evaluate_formula)          -> [dvals]
      operations._find_source_measurement_ids -> [srcs]
      DerivativeEvaluator.__evaluate          -> [err2]      (quadrature + covariance terms)  *)
From Coq Require Import List Arith Bool.
From QV Require Import Gen.OpsTable.
Import ListNotations.

Section Eval.
  Variable T : Type.
  Variables (zero one two : T) (add mul : T -> T -> T).
  Variable su : uop -> T -> T.
  Variable sb : bop -> T -> T -> T.
  Variable du : uop -> T -> T -> T.
  Variable db : bop -> T -> T -> T -> T -> T.

  Inductive ref := RObj (k : nat) | RConst (c : T).
  Inductive formula := FU (o : uop) (a : ref) | FB (o : bop) (a b : ref).
  Inductive obj := OMeas (v e : T) | ODer (f : formula).

  (** entry of the object with id [k] in a newest-first table *)
  Definition lookup {A} (d : A) (l : list A) (k : nat) : A := nth (length l - 1 - k) l d.

  Definition val_ref (vs : list T) (r : ref) : T :=
    match r with RObj k => lookup zero vs k | RConst c => c end.

  Definition val_of (vs : list T) (o : obj) : T :=
    match o with
    | OMeas v _ => v
    | ODer (FU op a) => su op (val_ref vs a)
    | ODer (FB op a b) => sb op (val_ref vs a) (val_ref vs b)
    end.

  Fixpoint vals (l : list obj) : list T :=
    match l with
    | [] => []
    | o :: older => let vs := vals older in val_of vs o :: vs
    end.

  Definition value (l : list obj) (k : nat) : T := lookup zero (vals l) k.

  (** derivative of every object with respect to the object with id [m] *)
  Definition d_ref (ds : list T) (r : ref) : T :=
    match r with RObj k => lookup zero ds k | RConst _ => zero end.

  Definition d_of (m id : nat) (vs ds : list T) (o : obj) : T :=
    if Nat.eqb id m then one
    else match o with
         | OMeas _ _ => zero
         | ODer (FU op a) => du op (val_ref vs a) (d_ref ds a)
         | ODer (FB op a b) => db op (val_ref vs a) (d_ref ds a) (val_ref vs b) (d_ref ds b)
         end.

  Fixpoint dvals (m : nat) (l : list obj) : list T :=
    match l with
    | [] => []
    | o :: older => d_of m (length older) (vals older) (dvals m older) o :: dvals m older
    end.

  Definition deriv (l : list obj) (k m : nat) : T := lookup zero (dvals m l) k.

  (** source measurements: sorted, duplicate-free lists of ids *)
  Fixpoint insert_sorted (x : nat) (l : list nat) : list nat :=
    match l with
    | [] => [x]
    | y :: l' => if Nat.ltb x y then x :: l else if Nat.eqb x y then l else y :: insert_sorted x l'
    end.
  Definition union_sorted (a b : list nat) : list nat := fold_right insert_sorted b a.

  Definition src_ref (ss : list (list nat)) (r : ref) : list nat :=
    match r with RObj k => lookup [] ss k | RConst _ => [] end.

  Definition src_of (id : nat) (ss : list (list nat)) (o : obj) : list nat :=
    match o with
    | OMeas _ _ => [id]
    | ODer (FU _ a) => src_ref ss a
    | ODer (FB _ a b) => union_sorted (src_ref ss a) (src_ref ss b)
    end.

  Fixpoint srcs (l : list obj) : list (list nat) :=
    match l with
    | [] => []
    | o :: older => src_of (length older) (srcs older) o :: srcs older
    end.

  Definition sources (l : list obj) (k : nat) : list nat := lookup [] (srcs l) k.

  (** uncertainty of a measurement object (zero for anything else) *)
  Definition err_of (o : obj) : T := match o with OMeas _ e => e | ODer _ => zero end.
  Definition error_m (l : list obj) (i : nat) : T := err_of (lookup (OMeas zero zero) l i).

  Definition sum (xs : list T) : T := fold_right add zero xs.

  Fixpoint pairs {A} (l : list A) : list (A * A) :=      (* itertools.combinations(l, 2) *)
    match l with
    | [] => []
    | x :: l' => map (fun y => (x, y)) l' ++ pairs l'
    end.

  (** the square of the propagated uncertainty of object [k]; [rho i j] = correlation set between
      measurements i and j *)
  Definition err2 (rho : nat -> nat -> T) (l : list obj) (k : nat) : T :=
    let S := sources l k in
    let q i := let t := mul (error_m l i) (deriv l k i) in mul t t in
    let c (p : nat * nat) :=
        let '(i, j) := p in
        mul (mul (mul two (mul (mul (rho i j) (error_m l i)) (error_m l j))) (deriv l k i)) (deriv l k j) in
    add (sum (map q S)) (sum (map c (pairs S))).

  (** well-formed: every reference points to an earlier object *)
  Definition ref_ok (n : nat) (r : ref) : bool := match r with RObj k => Nat.ltb k n | RConst _ => true end.
  Definition obj_ok (n : nat) (o : obj) : bool :=
    match o with
    | OMeas _ _ => true
    | ODer (FU _ a) => ref_ok n a
    | ODer (FB _ a b) => ref_ok n a && ref_ok n b
    end.
  Fixpoint wf (l : list obj) : bool :=
    match l with [] => true | o :: older => obj_ok (length older) o && wf older end.

  (** change the central value of measurement [i] (no effect on other objects) *)
  Fixpoint set_value (l : list obj) (i : nat) (t : T) : list obj :=
    match l with
    | [] => []
    | o :: older =>
        (if Nat.eqb (length older) i then match o with OMeas _ e => OMeas t e | ODer f => ODer f end else o)
          :: set_value older i t
    end.
End Eval.

Arguments RObj {T} k.
Arguments RConst {T} c.
Arguments FU {T} o a.
Arguments FB {T} o a b.
Arguments OMeas {T} v e.
Arguments ODer {T} f.
