(** Executable instance of Model/Core.v over [option Q] (None = not computable in Q) and the
    comparison with observations of the implementation. *)
From Coq Require Import List Arith Bool ZArith QArith Qabs.
From QV Require Import Base.QOps Base.CaseLib Gen.OpsTable Model.Core.
Import ListNotations.

Definition oq := option Q.
Definition q_su (o : uop) (x : oq) : oq := obind x (qsem_u o).
Definition q_sb (o : bop) (x y : oq) : oq := obind x (fun a => obind y (fun b => qsem_b o a b)).
Definition q_du (o : uop) (v d : oq) : oq := obind v (fun a => obind d (fun b => qd_u o a b)).
Definition q_db (o : bop) (v0 d0 v1 d1 : oq) : oq :=
  obind v0 (fun a => obind d0 (fun b => obind v1 (fun c => obind d1 (fun e => qd_b o a b c e)))).

Definition qzero : oq := Some 0.
Definition qone : oq := Some 1.
Definition qtwo : oq := Some 2.

Definition qvalue := value oq qzero q_su q_sb.
Definition qderiv := deriv oq qzero qone q_su q_sb q_du q_db.
Definition qsources := @sources oq.
Definition qerr2 := err2 oq qzero qone qtwo oadd omul q_su q_sb q_du q_db.

(** the same sum with absolute values of the terms: scale for the tolerance *)
Definition oabs (x : oq) : oq := obind x (fun a => Some (Qabs a)).
Definition qerr2_abs (rho : nat -> nat -> oq) (l : list (obj oq)) (k : nat) : oq :=
  let srcl := qsources l k in
  let q i := let t := omul (error_m oq qzero l i) (qderiv l k i) in oabs (omul t t) in
  let c (p : nat * nat) :=
      let '(i, j) := p in
      oabs (omul (omul (omul qtwo (omul (omul (rho i j) (error_m oq qzero l i)) (error_m oq qzero l j)))
                       (qderiv l k i)) (qderiv l k j)) in
  oadd (sum oq qzero oadd (map q srcl)) (sum oq qzero oadd (map c (pairs (A:=nat) srcl))).

(** correlations as a symmetric association list *)
Fixpoint rho_of (tbl : list (nat * nat * Q)) (i j : nat) : oq :=
  match tbl with
  | [] => Some 0
  | (a, b, r) :: tbl' =>
      if (Nat.eqb a i && Nat.eqb b j) || (Nat.eqb a j && Nat.eqb b i) then Some r else rho_of tbl' i j
  end.

Definition tol : Q := 1 # 1000000000.

(** model value (if computable) against an observed number *)
Definition agree (m : oq) (obs atol : Q) : bool :=
  match m with Some x => Qclose tol atol x obs | None => true end.
Definition computable (m : oq) : bool := match m with Some _ => true | None => false end.

(** observation of one derived object: id, value, error, sorted source ids, derivatives (m, d) *)
Definition obs := (nat * Q * Q * list nat * list (nat * Q))%type.

Definition check_obs (l : list (obj oq)) (rho : nat -> nat -> oq) (vtol dtol : Q) (o : obs) : bool :=
  let '(k, v, e, srcl, ds) := o in
  agree (qvalue l k) v vtol
  && list_eqb Nat.eqb (qsources l k) srcl
  && forallb (fun md => agree (qderiv l k (fst md)) (snd md) dtol) ds
  && match qerr2 rho l k, qerr2_abs rho l k with
     | Some x, Some s => Qle_bool (Qabs (x - e * e)) ((4 # 1) * tol * (s + e * e) + (1 # 1000000000000000000000000))
     | _, _ => true
     end.

(** a case: objects (newest first), correlations, tolerances, observations *)
Definition case := (list (obj oq) * list (nat * nat * Q) * Q * Q * list obs)%type.
Definition check_case (c : case) : bool :=
  let '(l, tbl, vtol, dtol, os) := c in
  wf oq l && forallb (check_obs l (rho_of tbl) vtol dtol) os.

(** how many observed numbers were actually compared (model computable) *)
Definition compared (c : case) : nat :=
  let '(l, tbl, _, _, os) := c in
  fold_right (fun (o : obs) n =>
    let '(k, _, _, _, ds) := o in
    n + (if computable (qvalue l k) then 1 else 0)
      + (if computable (qerr2 (rho_of tbl) l k) then 1 else 0)
      + length (filter (fun md => computable (qderiv l k (fst md))) ds))%nat 0%nat os.

(** C03: only the derivatives are compared *)
Definition check_case_derivs (c : case) : bool :=
  let '(l, tbl, vtol, dtol, os) := c in
  wf oq l && forallb (fun o : obs => let '(k, _, _, _, ds) := o in
                        forallb (fun md => agree (qderiv l k (fst md)) (snd md) dtol) ds) os.

(** ---- the same checks with the tables computed once per case (vm_compute shares let-bound values).
    [value l k], [deriv l k m], [sources l k] ARE lookups into [vals l], [dvals m l], [srcs l]; the
    functions below only avoid recomputing those tables for every number
    (Proofs/CoreQFast.v: check_case_fast c = check_case c). ---- *)
Definition assoc_tab (tabs : list (nat * list oq)) (m : nat) : list oq :=
  match find (fun p => Nat.eqb (fst p) m) tabs with Some p => snd p | None => [] end.

Definition qerr2_tab (rho : nat -> nat -> oq) (l : list (obj oq)) (srcl : list nat) (dk : nat -> oq) (absolute : bool) : oq :=
  let ab (x : oq) := if absolute then oabs x else x in
  let q i := let t := omul (error_m oq qzero l i) (dk i) in ab (omul t t) in
  let c (p : nat * nat) :=
      let '(i, j) := p in
      ab (omul (omul (omul qtwo (omul (omul (rho i j) (error_m oq qzero l i)) (error_m oq qzero l j)))
                     (dk i)) (dk j)) in
  oadd (sum oq qzero oadd (map q srcl)) (sum oq qzero oadd (map c (pairs (A:=nat) srcl))).

Definition check_case_fast (c : case) : bool :=
  let '(l, tbl, vtol, dtol, os) := c in
  let vs := vals oq qzero q_su q_sb l in
  let ss := srcs oq l in
  let ms := fold_right (fun (o : obs) acc => let '(_, _, _, _, ds) := o in
                          fold_right (fun md a => if existsb (Nat.eqb (fst md)) a then a else fst md :: a) acc ds) [] os in
  let ms2 := fold_right (fun s acc => fold_right (fun i a => if existsb (Nat.eqb i) a then a else i :: a) acc s) ms ss in
  let tabs := map (fun m => (m, dvals oq qzero qone q_su q_sb q_du q_db m l)) ms2 in
  let rho := rho_of tbl in
  wf oq l && forallb (fun o : obs =>
    let '(k, v, e, srcl, ds) := o in
    let dk i := lookup qzero (assoc_tab tabs i) k in
    let msrc := lookup [] ss k in
    agree (lookup qzero vs k) v vtol
    && list_eqb Nat.eqb msrc srcl
    && forallb (fun md => agree (dk (fst md)) (snd md) dtol) ds
    && match qerr2_tab rho l msrc dk false, qerr2_tab rho l msrc dk true with
       | Some x, Some s => Qle_bool (Qabs (x - e * e)) ((4 # 1) * tol * (s + e * e) + (1 # 1000000000000000000000000))
       | _, _ => true
       end) os.
