(** The stateful part of qexpy.data around the pure evaluator of Model/Core.v:
    buffered derivative results (DerivativeEvaluator.result), the stored Monte Carlo sample set
    (identified by a generation number: each new simulation takes a fresh one), error-method
    selection (global and per quantity), recalculate(), and changes of the source measurements.

    Ghost field [stale]: set for every calculated quantity by any change of a source value,
    uncertainty or correlation, cleared by recalculate(); it is not observable and only serves to
    state when a buffered result must equal a fresh evaluation. *)
From Coq Require Import List Arith Bool.
From QV Require Import Gen.OpsTable Model.Core.
Import ListNotations.

Inductive method := Derivative | MonteCarlo.

Section State.
  Variable T : Type.
  Variables (zero one two : T) (add mul : T -> T -> T).
  Variable su : uop -> T -> T.
  Variable sb : bop -> T -> T -> T.
  Variable du : uop -> T -> T -> T.
  Variable db : bop -> T -> T -> T -> T -> T.
  Variable negative : T -> bool.          (* e < 0 : an uncertainty the setter rejects *)

  Record dstate := mk_dstate {
    own : option method;             (* per-quantity selection; None = follow the global setting *)
    dcache : option (T * T);         (* buffered (value, variance) of the derivative method *)
    mc_gen : option nat;             (* generation of the stored Monte Carlo samples, if any *)
    stale : bool                     (* ghost *)
  }.
  Definition fresh_dstate := mk_dstate None None None false.

  Record state := mk_state {
    objs : list (obj T);             (* newest first *)
    corr : list (nat * nat * T);     (* correlations set between measurements, newest first *)
    dst : list dstate;               (* one entry per object, newest first (unused for measurements) *)
    gmethod : method;
    next_gen : nat
  }.

  Fixpoint rho_fn (tbl : list (nat * nat * T)) (i j : nat) : T :=
    match tbl with
    | [] => zero
    | (a, b, r) :: tbl' =>
        if (Nat.eqb a i && Nat.eqb b j) || (Nat.eqb a j && Nat.eqb b i) then r else rho_fn tbl' i j
    end.

  (** what a read of object [k] by the derivative method computes when nothing is buffered *)
  Definition fresh (l : list (obj T)) (tbl : list (nat * nat * T)) (k : nat) : T * T :=
    (value T zero su sb l k, err2 T zero one two add mul su sb du db (rho_fn tbl) l k).

  Inductive op :=
  | SetValue (m : nat) (v : T)
  | SetError (m : nat) (e : T)
  | SetCorr (i j : nat) (r : T)
  | ResetCorr
  | New (o : obj T)
  | ReadValue (k : nat)
  | ReadError (k : nat)
  | ReadDeriv (k m : nat)
  | Recalc (k : nat)
  | SetGlobal (me : method)
  | SetOwn (k : nat) (me : method)
  | ResetOwn (k : nat)
  | Peek (k : nat)                   (* r.mc : draws samples if there are none *)
  | SetSampleSize (k : nat).         (* r.mc.sample_size = n : clears the Monte Carlo evaluator *)

  Inductive out :=
  | ONone | ORejected
  | OVal (v : T) | OVar (e2 : T) | ODeriv (d : T)
  | OMcValue (g : nat) | OMcError (g : nat) | OGen (g : nat).

  Definition dlookup (s : state) (k : nat) : dstate := lookup fresh_dstate (dst s) k.

  Fixpoint update {A} (l : list A) (k : nat) (f : A -> A) : list A :=   (* entry of id k, newest first *)
    match l with
    | [] => []
    | x :: l' => if Nat.eqb (length l') k then f x :: l' else x :: update l' k f
    end.

  Definition set_dst (s : state) (k : nat) (f : dstate -> dstate) : state :=
    mk_state (objs s) (corr s) (update (dst s) k f) (gmethod s) (next_gen s).

  Definition mark_stale (s : state) : list dstate :=
    map (fun d => mk_dstate (own d) (dcache d) (mc_gen d) true) (dst s).

  Definition effective (s : state) (k : nat) : method :=
    match own (dlookup s k) with Some me => me | None => gmethod s end.

  Fixpoint set_error (l : list (obj T)) (i : nat) (e : T) : list (obj T) :=
    match l with
    | [] => []
    | o :: older =>
        (if Nat.eqb (length older) i then match o with OMeas v _ => OMeas v e | ODer f => ODer f end else o)
          :: set_error older i e
    end.

  (** make sure object k has stored samples; returns the state and their generation *)
  Definition ensure_samples (s : state) (k : nat) : state * nat :=
    match mc_gen (dlookup s k) with
    | Some g => (s, g)
    | None =>
        let g := next_gen s in
        (mk_state (objs s) (corr s)
                  (update (dst s) k (fun d => mk_dstate (own d) (dcache d) (Some g) (stale d)))
                  (gmethod s) (S g), g)
    end.

  (** buffered derivative result of object k (computed now if there is none) *)
  Definition ensure_der (s : state) (k : nat) : state * (T * T) :=
    match dcache (dlookup s k) with
    | Some r => (s, r)
    | None =>
        let r := fresh (objs s) (corr s) k in
        (set_dst s k (fun d => mk_dstate (own d) (Some r) (mc_gen d) (stale d)), r)
    end.

  Definition step (s : state) (x : op) : state * out :=
    match x with
    | SetValue m v =>
        (mk_state (set_value T (objs s) m v) (corr s) (mark_stale s) (gmethod s) (next_gen s), ONone)
    | SetError m e =>
        if negative e then (s, ORejected)
        else (mk_state (set_error (objs s) m e) (corr s) (mark_stale s) (gmethod s) (next_gen s), ONone)
    | SetCorr i j r =>
        (mk_state (objs s) ((i, j, r) :: corr s) (mark_stale s) (gmethod s) (next_gen s), ONone)
    | ResetCorr =>
        (mk_state (objs s) [] (mark_stale s) (gmethod s) (next_gen s), ONone)
    | New o =>
        if obj_ok T (length (objs s)) o
        then (mk_state (o :: objs s) (corr s) (fresh_dstate :: dst s) (gmethod s) (next_gen s), ONone)
        else (s, ORejected)            (* operands are existing objects: cannot happen in Python *)
    | ReadValue k =>
        match effective s k with
        | Derivative => let '(s1, r) := ensure_der s k in (s1, OVal (fst r))
        | MonteCarlo => let '(s1, g) := ensure_samples s k in (s1, OMcValue g)
        end
    | ReadError k =>
        match effective s k with
        | Derivative => let '(s1, r) := ensure_der s k in (s1, OVar (snd r))
        | MonteCarlo => let '(s1, g) := ensure_samples s k in (s1, OMcError g)
        end
    | ReadDeriv k m =>
        (s, ODeriv (deriv T zero one su sb du db (objs s) k m))
    | Recalc k =>
        (set_dst s k (fun d => mk_dstate (own d) None None false), ONone)
    | SetGlobal me => (mk_state (objs s) (corr s) (dst s) me (next_gen s), ONone)
    | SetOwn k me => (set_dst s k (fun d => mk_dstate (Some me) (dcache d) (mc_gen d) (stale d)), ONone)
    | ResetOwn k => (set_dst s k (fun d => mk_dstate None (dcache d) (mc_gen d) (stale d)), ONone)
    | Peek k => let '(s1, g) := ensure_samples s k in (s1, OGen g)
    | SetSampleSize k =>
        (* r.mc.sample_size = n : the setter clears the Monte Carlo evaluator.  (The access to r.mc
           first draws samples if there were none, but they are discarded at once and never
           observable, so they do not get a generation number.) *)
        (set_dst s k (fun d => mk_dstate (own d) (dcache d) None (stale d)), ONone)
    end.

  Definition init : state := mk_state [] [] [] Derivative 0.

  Fixpoint run (s : state) (ops : list op) : state * list out :=
    match ops with
    | [] => (s, [])
    | x :: ops' => let '(s1, o) := step s x in let '(s2, os) := run s1 ops' in (s2, o :: os)
    end.
End State.
