(** Executable instance of Model/CoreState.v over [option Q] and comparison with observed histories. *)
From Coq Require Import List Arith Bool ZArith QArith Qabs.
From QV Require Import Base.QOps Base.CaseLib Gen.OpsTable Model.Core Model.CoreQ Model.CoreState.
Import ListNotations.

Definition qnegative (e : oq) : bool := match e with Some x => negb (Qle_bool 0 x) | None => false end.

Definition qstate := state oq.
Definition qop := op oq.
Definition qstep := step oq qzero qone qtwo oadd omul q_su q_sb q_du q_db qnegative.
Definition qinit := init oq.

(** what the harness observed for one operation *)
Inductive obs_out :=
| XNone | XRejected
| XVal (v : Q) | XErr (e : Q) | XDeriv (d : Q)
| XGen (g : nat)                    (* a Monte Carlo read / peek: generation of the stored samples *)
| XAny.                             (* a read whose number is not finite (inf / nan at a singular point): not compared *)

Definition out_agrees (vtol : Q) (m : out oq) (o : obs_out) : bool :=
  match m, o with
  | ONone _, XNone => true
  | ORejected _, XRejected => true
  | OVal _ x, XVal v => agree x v vtol
  | OVar _ x, XErr e =>
      match x with
      | Some x2 => Qle_bool (Qabs (x2 - e * e)) ((4 # 1) * tol * (Qabs x2 + e * e) + vtol * vtol)
      | None => true
      end
  | ODeriv _ x, XDeriv d => agree x d vtol
  | OMcValue _ g, XGen g' | OMcError _ g, XGen g' | OGen _ g, XGen g' => Nat.eqb g g'
  | OVal _ _, XAny | OVar _ _, XAny | ODeriv _ _, XAny => true
  | _, _ => false
  end.

Fixpoint check_ops (vtol : Q) (s : qstate) (h : list (qop * obs_out)) : bool :=
  match h with
  | [] => true
  | (x, o) :: h' => let '(s1, m) := qstep s x in out_agrees vtol m o && check_ops vtol s1 h'
  end.

Definition hcase := (Q * list (qop * obs_out))%type.
Definition check_hcase (c : hcase) : bool := check_ops (fst c) qinit (snd c).
