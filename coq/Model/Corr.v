(** The correlation / covariance records of qexpy.data (C04, inferred path shared with C10).
    Definitions only (lemmas: Proofs/Corr.v).

    State = table of quantities (the harness numbers them 0, 1, ...; the code uses UUIDs)
            + the store ExperimentalValue._correlations, keyed by the sorted id pair.
    [step] mirrors, guard by guard and in the order of the code,
      data.set_covariance / set_correlation / get_covariance / get_correlation  (function forms),
      ExperimentalValue / MeasuredValue / RepeatedlyMeasuredValue .set_* / .get_*  (method forms),
      RepeatedlyMeasuredValue.__infer_covariance (with the clamp to +-std*std),
      reset_correlations, and the two attribute writes that change what [std] means
      (MeasuredValue.error setter, RepeatedlyMeasuredValue.value setter). *)
From Coq Require Import List ZArith QArith Qminmax Bool PeanoNat.
From QV Require Import Model.Stats.
Import ListNotations.
Open Scope Q_scope.

(** class of a quantity: MeasuredValue / RepeatedlyMeasuredValue / DerivedValue / Constant *)
Inductive kind := KSingle | KRepeated | KDerived | KConstant.

Record quantity := {
  q_kind  : kind;
  q_err   : Q;          (* the uncertainty currently in use (.error) *)
  q_rstd  : Q;          (* KRepeated: standard deviation of the raw data (._std) *)
  q_data  : list Q;     (* KRepeated: the readings *)
  q_plain : bool        (* KRepeated: no individual uncertainties (raw_data is a plain ndarray) *)
}.

(** .std : the raw-data standard deviation of a repeated measurement, the error otherwise *)
Definition q_std (x : quantity) : Q :=
  match q_kind x with KRepeated => q_rstd x | _ => q_err x end.

Definition is_measured (x : quantity) : bool :=
  match q_kind x with KSingle | KRepeated => true | _ => false end.
Definition is_repeated (x : quantity) : bool :=
  match q_kind x with KRepeated => true | _ => false end.

Definition key := (nat * nat)%type.
Definition mkkey (a b : nat) : key := (Nat.min a b, Nat.max a b).      (* sorted id pair *)
Definition key_eqb (k k' : key) : bool := Nat.eqb (fst k) (fst k') && Nat.eqb (snd k) (snd k').

(** Correlation(correlation, covariance) *)
Definition record := (Q * Q)%type.
Definition store := list (key * record).

Fixpoint lookup (k : key) (st : store) : option record :=
  match st with
  | [] => None
  | (k', r) :: st' => if key_eqb k k' then Some r else lookup k st'
  end.

Record state := { table : list quantity; recs : store }.

(** an argument that is expected to be a quantity: a registered object, or a plain Python
    value that is not an ExperimentalValue (a number, a string) *)
Inductive operand := Ref (id : nat) | NotQ.
(** the optional number: omitted (None), a real number, or something that is not a number *)
Inductive arg := ANone | ANum (x : Q) | AJunk.
(** q.f(a, b, ...) or a.f(b, ...) *)
Inductive form := Fn | Meth.

Inductive op :=
| SetCorr (f : form) (a b : operand) (r : arg)
| SetCov  (f : form) (a b : operand) (c : arg)
| GetCorr (f : form) (a b : operand)
| GetCov  (f : form) (a b : operand)
| Reset
| SetErr  (a : nat) (e : Q)        (* a.error = e      on a (repeated) measurement *)
| SetValue (a : nat).               (* a.value = number on a (repeated) measurement *)

Inductive exnk :=
| EIllegalArg        (* IllegalArgumentError *)
| EUndefinedAction   (* UndefinedActionError *)
| EArithmetic        (* ArithmeticError, incl. ZeroDivisionError *)
| EValue             (* ValueError *)
| EType              (* TypeError *)
| EAttribute         (* AttributeError *)
| EOutside.          (* outside the modelled calls (never generated) *)

Inductive out := Done | Ret (x : Q) | Raised (e : exnk).

Definition nthq (s : state) (id : nat) : option quantity := nth_error (table s) id.

(** what an operand denotes: None = not an ExperimentalValue *)
Definition deref (s : state) (o : operand) : option (nat * quantity) :=
  match o with
  | Ref id => match nthq s id with Some x => Some (id, x) | None => None end
  | NotQ => None
  end.

Definition qclamp (limit c : Q) : Q := Qmax (- limit) (Qmin limit c).

Inductive inferred := InfNone | InfCrash | InfCov (c : Q).
(** RepeatedlyMeasuredValue.__infer_covariance(other):
    ValueError for different lengths (caught by the caller: InfNone); AttributeError when one
    of the two holds individual uncertainties (np.mean of an array of objects: InfCrash);
    otherwise the sample covariance clamped to +- std*std *)
Definition infer (x y : quantity) : inferred :=
  match c_cov (q_data x) (q_data y) with
  | None => InfNone
  | Some c => if q_plain x && q_plain y then InfCov (qclamp (q_std x * q_std y) c) else InfCrash
  end.

Definition put (s : state) (a b : nat) (r : record) : state :=
  {| table := table s; recs := (mkkey a b, r) :: recs s |}.

(** MeasuredValue.set_correlation(self = (a, x), other = (b, y), corr) after the isinstance guards *)
Definition measured_set_corr (s : state) (a : nat) (x : quantity) (b : nat) (y : quantity) (r : arg)
  : state * out :=
  if Qeq_bool (q_std x) 0 || Qeq_bool (q_std y) 0 then (s, Raised EArithmetic) else
  match r with
  | ANone => (s, Raised EIllegalArg)
  | AJunk => (s, Raised EType)
  | ANum corr =>
      if negb (Qle_bool corr 1) || negb (Qle_bool (-1) corr) then (s, Raised EValue)     (* corr > 1 or corr < -1 *)
      else (put s a b (corr, corr * (q_std x * q_std y)), Done)
  end.

Definition measured_set_cov (s : state) (a : nat) (x : quantity) (b : nat) (y : quantity) (c : arg)
  : state * out :=
  if Qeq_bool (q_std x) 0 || Qeq_bool (q_std y) 0 then (s, Raised EArithmetic) else
  match c with
  | ANone => (s, Raised EIllegalArg)
  | AJunk => (s, Raised EType)
  | ANum cov =>
      let corr := cov / (q_std x * q_std y) in
      if negb (Qle_bool corr 1) || negb (Qle_bool (-1) corr) then (s, Raised EValue)
      else (put s a b (corr, cov), Done)
  end.

(** a.set_correlation(b, r) : dispatch on the class of the receiver *)
Definition meth_set_corr (s : state) (a : nat) (x : quantity) (b : operand) (r : arg) : state * out :=
  match q_kind x with
  | KDerived | KConstant => (s, Raised EUndefinedAction)        (* ExperimentalValue.set_correlation *)
  | KSingle =>
      match deref s b with
      | None => (s, Raised EIllegalArg)                          (* not an ExperimentalValue *)
      | Some (ib, y) =>
          if negb (is_measured y) then (s, Raised EIllegalArg)   (* not a MeasuredValue *)
          else measured_set_corr s a x ib y r
      end
  | KRepeated =>
      match deref s b with
      | None => (s, Raised EIllegalArg)
      | Some (ib, y) =>
          if negb (is_measured y) then (s, Raised EIllegalArg) else
          match r, is_repeated y with
          | ANone, true =>
              match infer x y with
              | InfNone => measured_set_corr s a x ib y ANone
              | InfCrash => (s, Raised EAttribute)
              | InfCov cov =>
                  if Qeq_bool (q_std x * q_std y) 0 then (s, Raised EArithmetic)   (* ZeroDivisionError *)
                  else measured_set_corr s a x ib y (ANum (cov / (q_std x * q_std y)))
              end
          | _, _ => measured_set_corr s a x ib y r
          end
      end
  end.

Definition meth_set_cov (s : state) (a : nat) (x : quantity) (b : operand) (c : arg) : state * out :=
  match q_kind x with
  | KDerived | KConstant => (s, Raised EUndefinedAction)
  | KSingle =>
      match deref s b with
      | None => (s, Raised EIllegalArg)
      | Some (ib, y) =>
          if negb (is_measured y) then (s, Raised EIllegalArg)
          else measured_set_cov s a x ib y c
      end
  | KRepeated =>
      match deref s b with
      | None => (s, Raised EIllegalArg)
      | Some (ib, y) =>
          if negb (is_measured y) then (s, Raised EIllegalArg) else
          match c, is_repeated y with
          | ANone, true =>
              match infer x y with
              | InfNone => measured_set_cov s a x ib y ANone
              | InfCrash => (s, Raised EAttribute)
              | InfCov cov => measured_set_cov s a x ib y (ANum cov)
              end
          | _, _ => measured_set_cov s a x ib y c
          end
      end
  end.

(** MeasuredValue.get_correlation / get_covariance on two measurements *)
Definition measured_get (covariance : bool) (s : state) (a : nat) (x : quantity) (b : nat) (y : quantity) : Q :=
  if Qeq_bool (q_std x) 0 || Qeq_bool (q_std y) 0 then 0 else
  if Nat.eqb a b then (if covariance then q_std x * q_std x else 1) else
  match lookup (mkkey a b) (recs s) with
  | Some (corr, cov) => if covariance then cov else corr
  | None => 0
  end.

Definition meth_get (covariance : bool) (s : state) (a : nat) (x : quantity) (b : operand) : out :=
  match q_kind x with
  | KDerived | KConstant => Ret 0                                   (* ExperimentalValue.get_*: 0 *)
  | _ =>
      match deref s b with
      | None => Raised EIllegalArg
      | Some (ib, y) => if negb (is_measured y) then Ret 0 else Ret (measured_get covariance s a x ib y)
      end
  end.

(** the value read between two ids (0 unless both are measurements), as a function *)
Definition get (covariance : bool) (s : state) (a b : nat) : Q :=
  match nthq s a, nthq s b with
  | Some x, Some y => if is_measured x && is_measured y then measured_get covariance s a x b y else 0
  | _, _ => 0
  end.
Definition get_corr := get false.
Definition get_cov := get true.
Definition std_of (s : state) (a : nat) : Q :=
  match nthq s a with Some x => q_std x | None => 0 end.

Definition set_nth {A} (l : list A) (n : nat) (x : A) : list A :=
  firstn n l ++ match skipn n l with [] => [] | _ :: t => x :: t end.

Definition step (s : state) (o : op) : state * out :=
  match o with
  | SetCorr f a b r =>
      match f, deref s a, deref s b with
      | Fn, None, _ | Fn, _, None => (s, Raised EIllegalArg)        (* any(not isinstance(var, ExperimentalValue)) *)
      | Meth, None, _ => (s, Raised EAttribute)                      (* a number has no such method *)
      | _, Some (ia, x), _ => meth_set_corr s ia x b r
      end
  | SetCov f a b c =>
      match f, deref s a, deref s b with
      | Fn, None, _ | Fn, _, None => (s, Raised EIllegalArg)
      | Meth, None, _ => (s, Raised EAttribute)
      | _, Some (ia, x), _ => meth_set_cov s ia x b c
      end
  | GetCorr f a b =>
      match f, deref s a, deref s b with
      | Fn, None, _ | Fn, _, None => (s, Raised EIllegalArg)
      | Meth, None, _ => (s, Raised EAttribute)
      | Fn, Some (ia, x), Some (ib, y) =>
          (s, if is_measured x && is_measured y then Ret (measured_get false s ia x ib y) else Ret 0)
      | Meth, Some (ia, x), _ => (s, meth_get false s ia x b)
      end
  | GetCov f a b =>
      match f, deref s a, deref s b with
      | Fn, None, _ | Fn, _, None => (s, Raised EIllegalArg)
      | Meth, None, _ => (s, Raised EAttribute)
      | Fn, Some (ia, x), Some (ib, y) =>
          (s, if is_measured x && is_measured y then Ret (measured_get true s ia x ib y) else Ret 0)
      | Meth, Some (ia, x), _ => (s, meth_get true s ia x b)
      end
  | Reset => ({| table := table s; recs := [] |}, Done)
  | SetErr a e =>
      match nthq s a with
      | Some x =>
          if is_measured x then
            if negb (Qle_bool 0 e) then (s, Raised EValue)         (* error < 0 *)
            else ({| table := set_nth (table s) a
                                {| q_kind := q_kind x; q_err := e; q_rstd := q_rstd x;
                                   q_data := q_data x; q_plain := q_plain x |};
                     recs := recs s |}, Done)
          else (s, Raised EOutside)
      | None => (s, Raised EOutside)
      end
  | SetValue a =>
      match nthq s a with
      | Some x =>
          if is_measured x then
            (* a repeated measurement whose value is overridden becomes a single MeasuredValue *)
            ({| table := set_nth (table s) a
                           {| q_kind := KSingle; q_err := q_err x; q_rstd := q_rstd x;
                              q_data := q_data x; q_plain := q_plain x |};
                recs := recs s |}, Done)
          else (s, Raised EOutside)
      | None => (s, Raised EOutside)
      end
  end.

Definition run (ops : list op) (s : state) : state := fold_left (fun st o => fst (step st o)) ops s.

Definition init (t : list quantity) : state := {| table := t; recs := [] |}.

(** ---- vocabulary of the theorems ---------------------------------------------------- *)
Definition measured_id (s : state) (a : nat) : bool :=
  match nthq s a with Some x => is_measured x | None => false end.

(** [o] is a set request on the unordered pair {a, b} *)
Definition targets (o : op) (a b : nat) : bool :=
  match o with
  | SetCorr _ (Ref c) (Ref d) _ | SetCov _ (Ref c) (Ref d) _ => key_eqb (mkkey c d) (mkkey a b)
  | _ => false
  end.
