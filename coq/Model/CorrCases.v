(** Executable comparison of the correlation-store model with observations of the implementation. *)
From Coq Require Import List ZArith QArith Qabs Bool.
From QV Require Import Base.CaseLib Model.Stats Model.Corr.
Import ListNotations.
Open Scope Q_scope.

Definition exnk_eqb (a b : exnk) : bool :=
  match a, b with
  | EIllegalArg, EIllegalArg | EUndefinedAction, EUndefinedAction | EArithmetic, EArithmetic
  | EValue, EValue | EType, EType | EAttribute, EAttribute | EOutside, EOutside => true
  | _, _ => false
  end.

Definition tol : Q := 1 # 1000000000.

Definition out_close (atol : Q) (model obs : out) : bool :=
  match model, obs with
  | Done, Done => true
  | Ret x, Ret y => Qclose tol atol x y
  | Raised e, Raised e' => exnk_eqb e e'
  | _, _ => false
  end.

(** all ordered pairs (i, j), i, j < n, row by row *)
Definition all_pairs (n : nat) : list (nat * nat) :=
  flat_map (fun i => map (fun j => (i, j)) (seq 0 n)) (seq 0 n).

(** the matrix the harness observes after every call: q.get_correlation(i, j), q.get_covariance(i, j) *)
Definition matrix (s : state) : list (out * out) :=
  map (fun p => (snd (step s (GetCorr Fn (Ref (fst p)) (Ref (snd p)))),
                 snd (step s (GetCov Fn (Ref (fst p)) (Ref (snd p)))))) (all_pairs (length (table s))).

(** absolute tolerance of a covariance between i and j: 1e-9 x the product of the two raw-data
    standard deviations (absorbs the cancellation noise of a sample covariance that is 0 or
    nearly 0); 0 unless both are repeated measurements *)
Definition pair_atol (t : list quantity) (i j : nat) : Q :=
  match nth_error t i, nth_error t j with
  | Some x, Some y => tol * Qabs (q_rstd x * q_rstd y)
  | _, _ => 0
  end.

Fixpoint matrix_close (t : list quantity) (ps : list (nat * nat)) (m o : list (out * out)) : bool :=
  match ps, m, o with
  | [], [], [] => true
  | (i, j) :: ps', (a, b) :: m', (a', b') :: o' =>
      out_close tol a a' && out_close (pair_atol t i j) b b' && matrix_close t ps' m' o'
  | _, _, _ => false
  end.

Definition op_atol (t : list quantity) (o : op) : Q :=
  match o with
  | GetCov _ (Ref a) (Ref b) => pair_atol t a b
  | GetCorr _ _ _ => tol
  | _ => 0
  end.

(** a history: (call, observed outcome, observed matrix after the call) *)
Fixpoint check_history (t : list quantity) (s : state) (h : list (op * out * list (out * out))) : bool :=
  match h with
  | [] => true
  | (o, obs, mat) :: h' =>
      let '(s1, r) := step s o in
      out_close (op_atol t o) r obs
      && matrix_close t (all_pairs (length t)) (matrix s1) mat && check_history t s1 h'
  end.

(** a case: the quantities, the matrix of the untouched session, the history *)
Definition check_case (c : list quantity * list (out * out) * list (op * out * list (out * out))) : bool :=
  let '(t, m0, h) := c in
  matrix_close t (all_pairs (length t)) (matrix (init t)) m0 && check_history t (init t) h.

(** observed matrices are transmitted as pairs of numbers *)
Definition mk_mat (l : list (Q * Q)) : list (out * out) := map (fun p => (Ret (fst p), Ret (snd p))) l.

(** constructors used by the generated files *)
Definition single (e : Q) : quantity :=
  {| q_kind := KSingle; q_err := e; q_rstd := 0; q_data := []; q_plain := true |}.
Definition repeated (e rstd : Q) (xs : list Q) (plain : bool) : quantity :=
  {| q_kind := KRepeated; q_err := e; q_rstd := rstd; q_data := xs; q_plain := plain |}.
Definition derived (e : Q) : quantity :=
  {| q_kind := KDerived; q_err := e; q_rstd := 0; q_data := []; q_plain := true |}.
Definition constant : quantity :=
  {| q_kind := KConstant; q_err := 0; q_rstd := 0; q_data := []; q_plain := true |}.
