(** Model of qexpy/fitting (C06, C07).  Definitions only.

    [FR]: the specification level over the reals (what "weighted least-squares optimum",
          "residual", "chi-squared", "one covariance matrix" mean).
    [FQ]: the executable model over Q of [fit_to_xy_dataset] for the polynomial models
          (x-range selection, yerr selection, weights handed to polyfit, a normal-equation
          solver whose answer is CHECKED against the normal equations before it is returned,
          residual-scaled covariance), of the glue around scipy's curve_fit (effective
          variance, one pass / two passes) and of [XYFitResult.__init__],
          [__correlate_fit_params], [cov2corr].
    The model lambdas come from Gen/Fitters.v, the arithmetic glue from Gen/FitGlue.v; both
    are regenerated from /repo on every run. *)
From Coq Require Import List Reals QArith Qabs Bool Arith.
From QV Require Import Gen.Fitters Gen.FitGlue.
Import ListNotations.

(* ------------------------------------------------------------------------------------ *)
Module FR.
Local Open Scope R_scope.

(** a data point handed to the least-squares problem: x, y and the weight w that multiplies
    the residual (numpy.polyfit minimises sum (w_i (y_i - P(x_i)))^2) *)
Definition pt := (R * R * R)%type.
Definition px (t : pt) : R := fst (fst t).
Definition py (t : pt) : R := snd (fst t).
Definition pw (t : pt) : R := snd t.

(** sum_i c_i x^(d-i): coefficients from the highest power down to the constant term *)
Fixpoint peval (cs : list R) (x : R) : R :=
  match cs with
  | [] => 0
  | c :: cs' => c * x ^ length cs' + peval cs' x
  end.

Fixpoint gsum {A} (f : A -> R) (l : list A) : R :=
  match l with
  | [] => 0
  | a :: l' => f a + gsum f l'
  end.

Definition resid (p : list R) (t : pt) : R := py t - peval p (px t).
Definition chi2 (pts : list pt) (p : list R) : R := gsum (fun t => (pw t * resid p t) ^ 2) pts.
Definition moment (pts : list pt) (p : list R) (j : nat) : R :=
  gsum (fun t => (pw t) ^ 2 * resid p t * (px t) ^ j) pts.

(** the weighted normal equations of a polynomial with [length p] coefficients *)
Definition normal_eqs (pts : list pt) (p : list R) : Prop :=
  forall j, (j < length p)%nat -> moment pts p j = 0.

(** entry (k, l) of A^T W A for the Vandermonde matrix with columns x^d ... x^0, d = np - 1 *)
Definition normal_entry (pts : list pt) (np k l : nat) : R :=
  gsum (fun t => (pw t) ^ 2 * (px t) ^ (np - 1 - k) * (px t) ^ (np - 1 - l)) pts.

(** sums over 0 .. n-1 *)
Fixpoint rsum (n : nat) (f : nat -> R) : R :=
  match n with
  | O => 0
  | S k => rsum k f + f k
  end.

(** sum over the pairs i < j < n *)
Fixpoint psum (n : nat) (f : nat -> nat -> R) : R :=
  match n with
  | O => 0
  | S k => psum k f + rsum k (fun i => f i k)
  end.

(** g^T C g *)
Definition quad_form (n : nat) (g : nat -> R) (C : nat -> nat -> R) : R :=
  rsum n (fun i => rsum n (fun j => g i * C i j * g j)).

(** what the derivative method computes for a function of the n parameters
    (C01): quadrature terms plus twice the covariance terms over the pairs i < j *)
Definition propagated_var (n : nat) (g sigma : nat -> R) (cov : nat -> nat -> R) : R :=
  rsum n (fun i => (g i * sigma i) ^ 2) + psum n (fun i j => 2 * cov i j * g i * g j).

(** the pre-set models: lambda x: func(x, *params) of __combine_fit_func_and_fit_params *)
Inductive model := MLin | MQuad | MPoly | MExpo | MGauss.
Definition model_fn (m : model) (ps : list R) (x : R) : R :=
  match m, ps with
  | MLin, [a; b] => FitR.fit_lin x a b
  | MQuad, [a; b; c] => FitR.fit_quad x a b c
  | MPoly, _ => FitR.fit_poly x ps
  | MExpo, [c; a] => FitR.fit_expo x c a
  | MGauss, [n; m; s] => FitR.fit_gauss x n m s
  | _, _ => 0
  end.

(** numerical_derivative(f, x0, dx) *)
Definition central_diff (f : R -> R) (x0 dx : R) : R := FitGlueR.num_derivative f x0 dx.

(** a fit result at the specification level: the fitted model bound to the parameters *)
Definition residual_at (f : R -> R) (x y : R) : R := y - f x.

(** chi-squared of XYFitResult: generated term and guard, over the zipped residuals / y-errors *)
Fixpoint chi2_res (res errs : list R) : R :=
  match res, errs with
  | r :: res', e :: errs' =>
      (if Req_EM_T e 0 then 0 else FitGlueR.chi2_term r e) + chi2_res res' errs'
  | _, _ => 0
  end.

(** cov2corr and the parameter errors, from one covariance matrix *)
Definition perr (C : nat -> nat -> R) (i : nat) : R := sqrt (C i i).
Definition pcorr (C : nat -> nat -> R) (i j : nat) : R := FitGlueR.cov2corr_entry (C i j) (perr C i) (perr C j).

(** what MeasuredValue.set_covariance stores for a pair, given the two uncertainties *)
Definition stored_corr (cov si sj : R) : R := cov / (si * sj).

End FR.

(* ------------------------------------------------------------------------------------ *)
Module FQ.
Local Open Scope Q_scope.

Fixpoint qpow (x : Q) (n : nat) : Q :=
  match n with
  | O => 1
  | S k => x * qpow x k
  end.

Definition pt := (Q * Q * Q)%type.
Definition px (t : pt) : Q := fst (fst t).
Definition py (t : pt) : Q := snd (fst t).
Definition pw (t : pt) : Q := snd t.

Fixpoint peval (cs : list Q) (x : Q) : Q :=
  match cs with
  | [] => 0
  | c :: cs' => c * qpow x (length cs') + peval cs' x
  end.

Fixpoint gsum {A} (f : A -> Q) (l : list A) : Q :=
  match l with
  | [] => 0
  | a :: l' => f a + gsum f l'
  end.

Definition resid (p : list Q) (t : pt) : Q := py t - peval p (px t).
Definition chi2 (pts : list pt) (p : list Q) : Q := gsum (fun t => qpow (pw t * resid p t) 2) pts.
Definition moment (pts : list pt) (p : list Q) (j : nat) : Q :=
  gsum (fun t => qpow (pw t) 2 * resid p t * qpow (px t) j) pts.

Definition normal_eqs_b (pts : list pt) (p : list Q) : bool :=
  forallb (fun j => Qeq_bool (moment pts p j) 0) (seq 0 (length p)).

Definition normal_entry (pts : list pt) (np k l : nat) : Q :=
  gsum (fun t => qpow (pw t) 2 * qpow (px t) (np - 1 - k) * qpow (px t) (np - 1 - l)) pts.

(* ---- x-range selection: fit_to_xy_dataset ------------------------------------------- *)
(** a point of the data set: x, its uncertainty, y, its uncertainty *)
Record dpt := { dx : Q; dxe : Q; dy : Q; dye : Q }.

Inductive xrange_arg :=
| XNone                      (* xrange not given, or given as None *)
| XEmpty                     (* () or []: falsy, so the whole data set is used *)
| XPair (lo hi : Q)
| XBadLen                    (* a tuple / list whose length is not 2 *)
| XNonReal.                  (* length 2 but an entry that is not a real number *)

Inductive fexn := EValue | EType | EOther.
Inductive fres (A : Type) := FOk (a : A) | FRaise (e : fexn).
Arguments FOk {A} a.
Arguments FRaise {A} e.

(** the boolean mask (xrange[0] <= x) & (x < xrange[1]), generated from the source *)
Definition select (lo hi : Q) (l : list dpt) : list dpt :=
  filter (fun t => FitGlueQ.in_range lo hi (dx t)) l.

Definition select_arg (xr : xrange_arg) (l : list dpt) : fres (list dpt) :=
  match xr with
  | XNone | XEmpty => FOk l
  | XBadLen | XNonReal => FRaise EType
  | XPair lo hi => if Qle_bool lo hi then FOk (select lo hi l) else FRaise EValue
  end.

(** yerr = y.errors if any(err > 0) else None *)
Definition any_pos (l : list Q) : bool := existsb (fun e => negb (Qle_bool e 0)) l.
Definition yerr_used (sel : list dpt) : option (list Q) :=
  if any_pos (map dye sel) then Some (map dye sel) else None.

(** weights = 1 / yerr if yerr is not None else None   (None: polyfit uses weight 1) *)
Definition weights (ye : option (list Q)) (n : nat) : list Q :=
  match ye with
  | Some l => map FitGlueQ.polyfit_weight l
  | None => repeat 1 n
  end.

Fixpoint mk_pts (sel : list dpt) (ws : list Q) : list pt :=
  match sel, ws with
  | t :: sel', w :: ws' => (dx t, dy t, w) :: mk_pts sel' ws'
  | _, _ => []
  end.

Definition lsq_points (sel : list dpt) : list pt :=
  mk_pts sel (weights (yerr_used sel) (length sel)).

(* ---- exact solver with certificate ---------------------------------------------------- *)
Definition scale_row (c : Q) (r : list Q) : list Q := map (fun a => Qred (c * a)) r.
Fixpoint sub_row (r : list Q) (c : Q) (p : list Q) : list Q :=
  match r, p with
  | a :: r', b :: p' => Qred (a - c * b) :: sub_row r' c p'
  | _, _ => []
  end.

Fixpoint find_pivot (col : nat) (rows : list (list Q)) : option (list Q * list (list Q)) :=
  match rows with
  | [] => None
  | r :: rs =>
      if negb (Qeq_bool (nth col r 0) 0) then Some (r, rs)
      else match find_pivot col rs with
           | Some (p, rest) => Some (p, r :: rest)
           | None => None
           end
  end.

(** Gauss-Jordan elimination on augmented rows; [n] columns remain, [col] is the current one *)
Fixpoint gauss_jordan (n col : nat) (done todo : list (list Q)) : option (list (list Q)) :=
  match n with
  | O => Some done
  | S k =>
      match find_pivot col todo with
      | None => None
      | Some (p, rest) =>
          let p' := scale_row (/ nth col p 0) p in
          let elim := fun r => sub_row r (nth col r 0) p' in
          gauss_jordan k (S col) (map elim done ++ [p']) (map elim rest)
      end
  end.

Definition unit_row (n k : nat) : list Q := map (fun l => if Nat.eqb k l then 1 else 0) (seq 0 n).

Definition normal_matrix (pts : list pt) (np : nat) : list (list Q) :=
  map (fun k => map (fun l => Qred (normal_entry pts np k l)) (seq 0 np)) (seq 0 np).
Definition normal_rhs (pts : list pt) (np : nat) : list Q :=
  map (fun k => Qred (gsum (fun t => qpow (pw t) 2 * py t * qpow (px t) (np - 1 - k)) pts)) (seq 0 np).

Definition mat_entry (m : list (list Q)) (i j : nat) : Q := nth j (nth i m []) 0.

(** M * X = I, entry by entry *)
Definition inverse_b (np : nat) (m x : list (list Q)) : bool :=
  forallb (fun i => forallb (fun j =>
     Qeq_bool (gsum (fun k => mat_entry m i k * mat_entry x k j) (seq 0 np))
              (if Nat.eqb i j then 1 else 0)) (seq 0 np)) (seq 0 np).

(** solve the normal equations of a polynomial with [np] coefficients; the answer is returned
    only if it satisfies the normal equations and the second component inverts A^T W A *)
Definition solve (pts : list pt) (np : nat) : option (list Q * list (list Q)) :=
  let m := normal_matrix pts np in
  let b := normal_rhs pts np in
  let aug := map (fun k => nth k m [] ++ [nth k b 0] ++ unit_row np k) (seq 0 np) in
  match gauss_jordan np 0 [] aug with
  | None => None
  | Some rows =>
      let p := map (fun r => nth np r 0) rows in
      let inv := map (fun r => skipn (S np) r) rows in
      if (Nat.eqb (length p) np && normal_eqs_b pts p && inverse_b np m inv)%bool
      then Some (p, inv) else None
  end.

(** numpy.polyfit(x, y, deg, w=w, cov=True): parameters highest power first and the
    covariance inverse(A^T W A) * chi2_min / (n - (deg + 1)); ValueError unless n > deg + 1 *)
Definition polyfit (pts : list pt) (deg : nat) : fres (list Q * list (list Q)) :=
  if Nat.leb (length pts) (S deg) then FRaise EValue
  else match solve pts (S deg) with
       | None => FRaise EOther
       | Some (p, inv) =>
           let fac := Qred (chi2 pts p / inject_Z (Z.of_nat (length pts - S deg))) in
           FOk (p, map (map (fun a => Qred (fac * a))) inv)
       end.

(** fit_to_xy_dataset for the polynomial models (linear: deg 1, quadratic: deg 2,
    polynomial: deg = degrees): raw results popt, pcov *)
Definition fit_poly_raw (data : list dpt) (xr : xrange_arg) (deg : nat) : fres (list Q * list (list Q)) :=
  match select_arg xr data with
  | FRaise e => FRaise e
  | FOk sel =>
      match sel with
      | [] => FRaise EType           (* empty selection: polyfit raises TypeError (expected non-empty vector) *)
      | _ => polyfit (lsq_points sel) deg
      end
  end.

(* ---- the glue around curve_fit ------------------------------------------------------- *)
(** curve_fit is an oracle: given the sigma argument it returns popt and pcov.
    [slope popt x] is numerical_derivative of the model bound to popt. *)
Section CurveFit.
Variable P : Type.                                   (* whatever the optimiser returns *)
Variable optimise : option (list Q) -> P.            (* sigma (None = unweighted) -> result *)
Variable slope : P -> Q -> Q.                        (* slope of the first-pass curve at a point *)

(** squares of the sigma handed to the second pass (Q has no square root) *)
(** the points handed to numerical_derivative: the x values (or, were the source to say so, another array) *)
Definition slope_point (t : dpt) : Q := if slope_at_values then dx t else dxe t.

Definition sigma2_second_pass (r1 : P) (sel : list dpt) (ye : option (list Q)) : list Q :=
  let ys := match ye with Some l => l | None => repeat 0 (length sel) end in
  map (fun '(t, sy) => FitGlueQ.eff_variance sy (dxe t) (slope r1 (slope_point t))) (combine sel ys).

(** number of optimiser calls and the squared sigma of the last one (None = sigma is yerr / None) *)
Definition curve_fit_sigmas (sel : list dpt) : option (list Q) * option (list Q) :=
  let ye := yerr_used sel in
  let r1 := optimise ye in
  if any_pos (map dxe sel) then (ye, Some (sigma2_second_pass r1 sel ye)) else (ye, None).
End CurveFit.

(* ---- XYFitResult ---------------------------------------------------------------------- *)
(** the rational models bound to their parameters; [MUserQuad] is the user model
    f(x, a, b) = a*x**2 + b*x used by the correspondence for the curve_fit path *)
Inductive model := MLin | MQuad | MPoly | MUserQuad.
Definition model_fn (m : model) (ps : list Q) (x : Q) : Q :=
  match m, ps with
  | MLin, [a; b] => FitQ.fit_lin x a b
  | MQuad, [a; b; c] => FitQ.fit_quad x a b c
  | MPoly, _ => FitQ.fit_poly x ps
  | MUserQuad, [a; b] => a * x ^ 2 + b * x
  | _, _ => 0
  end.

(** residuals over the WHOLE data set (not only the selected range), for a model function
    already bound to the parameters *)
Definition residuals (f : Q -> Q) (data : list dpt) : list Q := map (fun t => dy t - f (dx t)) data.

Fixpoint chi2_res (res errs : list Q) : Q :=
  match res, errs with
  | r :: res', e :: errs' =>
      (if FitGlueQ.chi2_guard e then FitGlueQ.chi2_term r e else 0) + chi2_res res' errs'
  | _, _ => 0
  end.

Definition chi2_of (f : Q -> Q) (data : list dpt) : Q := chi2_res (residuals f data) (map dye data).
Definition ndof (data : list dpt) (nparams : nat) : Z := Z.of_nat (length data) - Z.of_nat nparams - 1.

(** __correlate_fit_params: the pairs visited by the double loop and the covariance entry read
    for each: (index1, index2 + index1 + 1, corr[row][col]) with the generated index arithmetic *)
Definition correlate_pairs (n : nat) : list (nat * nat * (nat * nat)) :=
  flat_map (fun i1 => map (fun i2 => (i1, (i2 + i1 + 1)%nat, (FitGlueQ.corr_row i1 i2, FitGlueQ.corr_col i1 i2)))
                          (seq 0 (n - (i1 + 1)))) (seq 0 n).

(** the record store after the loop: lookup of an unordered pair *)
Definition pair_eqb (a b : nat * nat) : bool :=
  (Nat.eqb (fst a) (fst b) && Nat.eqb (snd a) (snd b)) || (Nat.eqb (fst a) (snd b) && Nat.eqb (snd a) (fst b)).

Fixpoint lookup_pair (k : nat * nat) (l : list (nat * nat * (nat * nat))) : option (nat * nat) :=
  match l with
  | [] => None
  | (i, j, e) :: l' =>
      match lookup_pair k l' with          (* later writes win *)
      | Some e' => Some e'
      | None => if pair_eqb k (i, j) then Some e else None
      end
  end.

(** covariance registered between parameter objects i and j (i <> j); 0 when no record *)
Definition registered_cov (cov : list (list Q)) (i j : nat) : Q :=
  match lookup_pair (i, j) (correlate_pairs (length cov)) with
  | Some (r, c) => mat_entry cov r c
  | None => 0
  end.

End FQ.
