(** Executable comparison of the fit model with observations of the implementation (C06, C07).
    Floats cross as exact rationals; real-valued quantities are compared with tolerances decided
    in Q, square roots through their squares. *)
From Coq Require Import List ZArith QArith Qabs Bool Arith.
From QV Require Import Base.CaseLib Gen.Fitters Gen.FitGlue Model.Fit.
Import ListNotations.
Import FQ.
Local Open Scope Q_scope.

Definition qsq (a : Q) : Q := a * a.
Definition lists_eq (a b : list Q) : bool := list_eqb Qeq_bool a b.
Definition lists_close (tol atol : Q) (a b : list Q) : bool := list_eqb (Qclose tol atol) a b.
Definition opt_lists_eq (a b : option (list Q)) : bool := option_eqb lists_eq a b.
Definition diag (m : list (list Q)) : list Q := map (fun i => mat_entry m i i) (seq 0 (length m)).
Definition fexn_eqb (a b : fexn) : bool :=
  match a, b with EValue, EValue | EType, EType | EOther, EOther => true | _, _ => false end.

(** (a - b)^2 <= tol^2 * s2   (s2 = the square of the natural scale) *)
Definition close_sq (tol a b s2 : Q) : bool := Qle_bool (qsq (a - b)) (qsq tol * s2).

Fixpoint forall2b {A B} (f : A -> B -> bool) (l : list A) (m : list B) : bool :=
  match l, m with
  | [], [] => true
  | a :: l', b :: m' => f a b && forall2b f l' m'
  | _, _ => false
  end.

Fixpoint forall3b {A B C} (f : A -> B -> C -> bool) (l : list A) (m : list B) (n : list C) : bool :=
  match l, m, n with
  | [], [], [] => true
  | a :: l', b :: m', c :: n' => f a b c && forall3b f l' m' n'
  | _, _, _ => false
  end.

Definition indices (n : nat) : list nat := seq 0 n.

(** matrices: same shape and entry (i, j) within tol of the scale sqrt (d_i d_j) *)
Definition mat_close (tol : Q) (obs model : list (list Q)) : bool :=
  let n := length model in
  Nat.eqb (length obs) n &&
  forallb (fun i => Nat.eqb (length (nth i obs [])) n &&
     forallb (fun j => close_sq tol (mat_entry obs i j) (mat_entry model i j)
                                (Qabs (mat_entry model i i * mat_entry model j j))) (indices n)) (indices n).

(* ------------------------------------------------------------------ C06 (a): polynomial models *)
Record poly_case := {
  pc_data : list dpt; pc_xr : xrange_arg; pc_deg : nat;
  pc_exn : option fexn;                       (* class of the exception the call raised, if any *)
  pc_rec_x : list Q; pc_rec_y : list Q;       (* arguments recorded at numpy.polyfit *)
  pc_rec_w : option (list Q); pc_rec_deg : nat;
  pc_params : list Q; pc_errs : list Q;       (* result.params[i].value / .error *)
  pc_cov : list (list Q)                      (* pcov as returned by numpy.polyfit *)
}.

Definition tol_param : Q := 1 # 10000000.
Definition tol_cov : Q := 1 # 1000000.

Definition check_poly (c : poly_case) : bool :=
  match fit_poly_raw (pc_data c) (pc_xr c) (pc_deg c) with
  | FRaise e => option_eqb fexn_eqb (Some e) (pc_exn c)
  | FOk (p, cov) =>
      match pc_exn c, select_arg (pc_xr c) (pc_data c) with
      | None, FOk sel =>
          lists_eq (pc_rec_x c) (map dx sel) && lists_eq (pc_rec_y c) (map dy sel) &&
          Nat.eqb (pc_rec_deg c) (pc_deg c) &&
          match yerr_used sel, pc_rec_w c with
          | None, None => true
          | Some ye, Some w => lists_close (1 # 1000000000000) 0 w (weights (Some ye) (length sel))
          | _, _ => false
          end &&
          (* parameters, in order: within tol of their own uncertainty, or relatively *)
          forall3b (fun a b ckk => close_sq tol_param a b ckk || Qclose tol_param 0 a b) (pc_params c) p (diag cov) &&
          forall2b (fun e ckk => Qclose tol_cov 0 (qsq e) ckk) (pc_errs c) (diag cov) &&
          mat_close tol_cov (pc_cov c) cov
      | _, _ => false
      end
  end.

(* ------------------------------------------------------------------ C06 (b): the glue around curve_fit *)
Record curve_case := {
  cc_data : list dpt; cc_xr : xrange_arg;
  cc_userquad : bool;                          (* the model is f(x, a, b) = a*x**2 + b*x *)
  cc_exn : option fexn;
  cc_sigmas : list (option (list Q));          (* sigma of each curve_fit call, in order *)
  cc_call_x : list (list Q); cc_call_y : list (list Q);   (* xdata / ydata of each call *)
  cc_abs_sigma : list bool;                    (* absolute_sigma of each call *)
  cc_deriv_x : list (list Q);                  (* points of each numerical_derivative call *)
  cc_deriv_out : list Q;                       (* what the (single) numerical_derivative call returned *)
  cc_popt1 : list Q;                           (* popt of the first pass *)
  cc_popt : list Q; cc_pcov : list (list Q);   (* what the last call returned *)
  cc_params : list Q; cc_errs : list Q
}.

Fixpoint lookupQ (x : Q) (tbl : list (Q * Q)) : Q :=
  match tbl with
  | [] => 0
  | (k, v) :: tbl' => if Qeq_bool k x then v else lookupQ x tbl'
  end.

Definition tol_tight : Q := 1 # 1000000000000.

Definition check_curve (c : curve_case) : bool :=
  match select_arg (cc_xr c) (cc_data c) with
  | FRaise e => option_eqb fexn_eqb (Some e) (cc_exn c)
  | FOk [] => option_eqb fexn_eqb (Some EValue) (cc_exn c)   (* curve_fit: `ydata` must not be empty *)
  | FOk sel =>
      match cc_exn c with
      | Some _ => false
      | None =>
          let pts := map slope_point sel in
          let slope := fun (_ : list Q) (x : Q) => lookupQ x (combine pts (cc_deriv_out c)) in
          let '(s1, s2) := curve_fit_sigmas (list Q) (fun _ => cc_popt1 c) slope sel in
          forallb (fun xs => lists_eq xs (map dx sel)) (cc_call_x c) &&
          forallb (fun ys => lists_eq ys (map dy sel)) (cc_call_y c) &&
          forallb (fun b => b) (cc_abs_sigma c) &&
          match s2, cc_sigmas c with
          | None, [o1] => opt_lists_eq o1 s1 && match cc_deriv_x c with [] => true | _ => false end
          | Some sq, [o1; Some o2] =>
              opt_lists_eq o1 s1 &&
              forall2b (fun o m => Qclose tol_tight 0 (qsq o) m) o2 sq &&
              match cc_deriv_x c with [dxs] => lists_eq dxs pts | _ => false end &&
              Nat.eqb (length (cc_deriv_out c)) (length sel) &&
              (if cc_userquad c then
                 match cc_popt1 c with
                 | [a; b] => forall2b (fun x o => Qclose (1 # 1000000) ((1 # 1000000) * (Qabs (a * x) + Qabs b))
                                                         o (2 * a * x + b)) pts (cc_deriv_out c)
                 | _ => false
                 end
               else true)
          | _, _ => false
          end &&
          lists_eq (cc_params c) (cc_popt c) &&
          forall2b (fun e ckk => Qclose tol_tight 0 (qsq e) ckk) (cc_errs c) (diag (cc_pcov c))
      end
  end.

(* ------------------------------------------------------------------ C07: the result object *)
Inductive fmodel := FRat (m : model) | FTable.

Record res_case := {
  rc_model : fmodel;
  rc_params : list Q; rc_cov : list (list Q);   (* popt / pcov the fit routine returned *)
  rc_data : list dpt;                           (* the WHOLE data set *)
  rc_table : list (Q * Q);                      (* FTable: fit_function at the data points, as observed *)
  rc_eval : list (Q * (Q * Q * Q));             (* x, fit_function(x) called with a scalar / in a list / in an array *)
  rc_res : list Q; rc_chi2 : Q; rc_ndof : Z;
  rc_errs : list Q;
  rc_pcorr : list (list Q);                     (* reported correlation matrix *)
  rc_getcorr : list (list Q);                   (* get_correlation between the parameter objects *)
  rc_getcov : list (list Q);                    (* get_covariance between the parameter objects *)
  rc_printed : list (list Q)                    (* the matrix printed by str(result) *)
}.

Definition pscale (ps : list Q) (x : Q) : Q := peval (map Qabs ps) (Qabs x) + 1.
Definition tol_fn : Q := 1 # 1000000000.

Definition check_res (c : res_case) : bool :=
  let ps := rc_params c in
  let cov := rc_cov c in
  let n := length ps in
  let f := match rc_model c with FRat m => model_fn m ps | FTable => fun x => lookupQ x (rc_table c) end in
  let sc := fun x => match rc_model c with FRat _ => pscale ps x | FTable => Qabs (f x) + 1 end in
  let errs := rc_errs c in
  let err := fun i => nth i errs 0 in
  (* fit_function at scalars, lists, arrays *)
  forallb (fun '(x, (v1, v2, v3)) =>
     match rc_model c with
     | FRat _ => Qclose tol_fn (tol_fn * sc x) v1 (f x)
     | FTable => true
     end && Qeq_bool v2 v1 && Qeq_bool v3 v1) (rc_eval c) &&
  (* residuals over the whole data set *)
  forall2b (fun t r => Qclose tol_fn (tol_fn * (Qabs (dy t) + sc (dx t))) r (dy t - f (dx t))) (rc_data c) (rc_res c) &&
  (* chi-squared *)
  Qclose tol_fn (tol_fn * gsum (fun t => if FitGlueQ.chi2_guard (dye t)
                                         then qsq ((Qabs (dy t) + sc (dx t)) / dye t) else 0) (rc_data c))
         (rc_chi2 c) (chi2_of f (rc_data c)) &&
  Z.eqb (rc_ndof c) (ndof (rc_data c) n) &&
  (* one covariance: uncertainties, reported matrix, registered correlations / covariances *)
  Nat.eqb (length cov) n && Nat.eqb (length errs) n &&
  forall2b (fun e ckk => Qclose tol_tight 0 (qsq e) ckk) errs (diag cov) &&
  forallb (fun i => forallb (fun j =>
     let s := err i * err j in
     Qclose tol_fn (tol_fn * s) (mat_entry (rc_pcorr c) i j * s) (mat_entry cov i j) &&
     Qclose 0 (6 # 10000) (mat_entry (rc_printed c) i j) (mat_entry (rc_pcorr c) i j) &&
     (if Nat.eqb i j
      then Qeq_bool (mat_entry (rc_getcorr c) i j) 1 && Qclose tol_tight 0 (mat_entry (rc_getcov c) i j) (qsq (err i))
      else Qclose tol_fn (tol_fn * s) (mat_entry (rc_getcorr c) i j * s) (registered_cov cov i j) &&
           Qclose tol_fn (tol_fn * s) (mat_entry (rc_getcov c) i j) (registered_cov cov i j)))
     (indices n)) (indices n).
