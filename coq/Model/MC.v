(** Monte Carlo evaluation (C16, C02): hand-written executable model of
      qexpy/utils/utils.py      find_mode_and_uncertainty
      qexpy/data/utils.py       MonteCarloSettings, generate_offset_matrix, correlate_samples
      qexpy/data/operations.py  MonteCarloEvaluator (samples mask, evaluate, regenerate_samples, clear,
                                __compute_samples, _generate_random_data_set)
      qexpy/data/data.py        DerivedValue.mc / value / error / recalculate
    Definitions only; lemmas are in Proofs/MC*.v.  Numbers are exact rationals; a sample standard
    deviation is carried as its square ([ESqrt var]).  numpy.random.normal is an oracle
    [normal : call index -> requested size -> offsets]; numpy.histogram and numpy.linalg.cholesky are
    recomputed exactly (bin membership in Q, closed-form factor for up to three sources whenever the
    radicands are squares of rationals). *)
From Coq Require Import List ZArith QArith Qabs Qround Bool.
From QV Require Import Base.Py.
Import ListNotations.
Open Scope Q_scope.

(** * (i) find_mode_and_uncertainty on a vector of bin counts *)

Definition getz (n : list Z) (i : nat) : Z := nth i n 0%Z.
Definition total (n : list Z) : Z := fold_right Z.add 0%Z n.

(** numpy argmax: index of the FIRST maximum *)
Fixpoint argmax_aux (n : list Z) (i best : nat) (bv : Z) : nat :=
  match n with
  | [] => best
  | x :: t => if (bv <? x)%Z then argmax_aux t (S i) i x else argmax_aux t (S i) best bv
  end.
Definition argmax (n : list Z) : nat :=
  match n with [] => O | x :: t => argmax_aux t 1 0 x end.

(** the loop condition  count < confidence * number_of_samples *)
Definition below (count : Z) (conf : Q) (tot : Z) : bool :=
  negb (Qle_bool (conf * inject_Z tot) (inject_Z count)).

(** what one iteration adds: the bins at distance k on either side; positions beyond the ends: nothing *)
Definition ring_add (n : list Z) (m k : nat) : Z :=
  ((if (k <=? m)%nat then getz n (m - k) else 0) +
   (if (m + k <? length n)%nat then getz n (m + k) else 0))%Z.

(** the while loop; [k] = high_idx - max_idx; [fuel] bounds the number of iterations *)
Fixpoint walk (fuel : nat) (n : list Z) (m : nat) (conf : Q) (tot : Z) (k : nat) (count : Z) : option nat :=
  if below count conf tot then
    match fuel with
    | O => None
    | S f => walk f n m conf tot (S k) (count + ring_add n m (S k))%Z
    end
  else Some k.

Definition qnth (l : list Q) (i : nat) : Q := nth i l 0.

(** find_mode_and_uncertainty(n, bins, confidence) -> (value, error); fuel = len(n) *)
Definition find_mode_k (n : list Z) (conf : Q) : option nat :=
  let m := argmax n in walk (length n) n m conf (total n) 0 (getz n m).
Definition find_mode (n : list Z) (bins : list Q) (conf : Q) : option (Q * Q) :=
  let m := argmax n in
  match find_mode_k n conf with
  | Some k => Some ((qnth bins m + qnth bins (S m)) / 2,
                    inject_Z (Z.of_nat k) * (qnth bins (S m) - qnth bins m))
  | None => None
  end.

(** SPEC side: the samples held by the bins within distance k of bin m (inside the histogram) *)
Fixpoint sumf (f : nat -> Z) (len : nat) : Z :=
  match len with O => 0%Z | S l => (sumf f l + f l)%Z end.
Definition within (m k i : nat) : bool := (i <=? m + k)%nat && (m <=? i + k)%nat.
Definition window (n : list Z) (m k : nat) : Z :=
  sumf (fun i => if within m k i then getz n i else 0%Z) (length n).
Definition covers (n : list Z) (m : nat) (conf : Q) (k : nat) : Prop :=
  conf * inject_Z (total n) <= inject_Z (window n m k).

(** * numpy.histogram(samples, bins=nb): equal-width bins over [min, max], last bin closed *)
Fixpoint qmin_l (a : Q) (l : list Q) : Q :=
  match l with [] => a | x :: t => qmin_l (if Qle_bool x a then x else a) t end.
Fixpoint qmax_l (a : Q) (l : list Q) : Q :=
  match l with [] => a | x :: t => qmax_l (if Qle_bool a x then x else a) t end.
Definition outer_edges (xs : list Q) : Q * Q :=
  match xs with
  | [] => (0, 1)
  | x :: t => let mn := qmin_l x t in let mx := qmax_l x t in
              if Qeq_bool mn mx then (mn - (1 # 2), mx + (1 # 2)) else (mn, mx)
  end.
Definition bin_of (lo hi : Q) (nb : nat) (x : Q) : nat :=
  let p := Qfloor ((x - lo) * inject_Z (Z.of_nat nb) / (hi - lo)) in
  if (Z.of_nat nb <=? p)%Z then (nb - 1)%nat else Z.to_nat p.
Definition count_bin (bs : list nat) (i : nat) : Z :=
  fold_right (fun b acc => if (b =? i)%nat then (acc + 1)%Z else acc) 0%Z bs.
Definition hist (xs : list Q) (nb : nat) : list Z :=
  let '(lo, hi) := outer_edges xs in
  let bs := map (bin_of lo hi nb) xs in map (count_bin bs) (seq 0 nb).
Definition hist_edges (xs : list Q) (nb : nat) : list Q :=
  let '(lo, hi) := outer_edges xs in
  map (fun i => lo + inject_Z (Z.of_nat i) * (hi - lo) / inject_Z (Z.of_nat nb)) (seq 0 (S nb)).

(** * reported numbers *)
Inductive errv := EExact (e : Q) | ESqrt (var : Q) | EUndef.   (* ESqrt v: the error is sqrt v *)
Record rep := mkrep { r_value : option Q; r_error : errv }.

(** sums are kept in lowest terms ([Qred]) so that the model can be executed on long sample lists *)
Definition qsum (l : list Q) : Q := fold_right (fun x acc => Qred (x + acc)) 0 l.
Definition qlen (l : list Q) : Q := inject_Z (Z.of_nat (length l)).
Definition mean (l : list Q) : Q := Qred (qsum l / qlen l).
Definition sumsq (l : list Q) : Q := let m := mean l in qsum (map (fun x => Qred ((x - m) * (x - m))) l).
Definition svar (l : list Q) : Q := Qred (sumsq l / (qlen l - 1)).       (* ddof = 1 *)

(** np.mean / np.std(ddof=1); empty input: nan (masked), one element: std undefined *)
Definition mean_std (l : list Q) : rep :=
  match l with
  | [] => mkrep None EUndef
  | [x] => mkrep (Some x) EUndef
  | _ => mkrep (Some (mean l)) (ESqrt (svar l))
  end.

(** np.ma.masked_outside(raw, lo, hi): the closed interval is kept *)
Definition restrict (xr : option (Q * Q)) (l : list Q) : list Q :=
  match xr with
  | None => l
  | Some (lo, hi) => filter (fun x => Qle_bool lo x && Qle_bool x hi) l
  end.

Definition NBINS : nat := 100.
Definition mode_rep (xs : list Q) (conf : Q) : rep :=
  match find_mode (hist xs NBINS) (hist_edges xs NBINS) conf with
  | Some (v, e) => mkrep (Some v) (EExact e)
  | None => mkrep None EUndef            (* the loop would not terminate; excluded by C16_mode_total *)
  end.

(** * formulas on the rational fragment.  [None] = a non-finite outcome (removed by the isfinite filter).
    Faithful as long as no denominator contains a division (c / inf = 0 would be finite again). *)
Inductive expr :=
| Var (i : nat) | Cst (c : Q) | Neg (a : expr)
| Add (a b : expr) | Sub (a b : expr) | Mul (a b : expr) | Div (a b : expr)
| SqrtSq (a : expr).      (* sqrt(a) * sqrt(a): a where a >= 0, nan otherwise *)

Definition obind2 (a b : option Q) (f : Q -> Q -> option Q) : option Q :=
  match a, b with Some x, Some y => f x y | _, _ => None end.
Fixpoint eval (e : expr) (x : list Q) : option Q :=
  match e with
  | Var i => Some (qnth x i)
  | Cst c => Some c
  | Neg a => match eval a x with Some v => Some (Qred (- v)) | None => None end
  | Add a b => obind2 (eval a x) (eval b x) (fun u v => Some (Qred (u + v)))
  | Sub a b => obind2 (eval a x) (eval b x) (fun u v => Some (Qred (u - v)))
  | Mul a b => obind2 (eval a x) (eval b x) (fun u v => Some (Qred (u * v)))
  | Div a b => obind2 (eval a x) (eval b x) (fun u v => if Qeq_bool v 0 then None else Some (Qred (u / v)))
  | SqrtSq a => match eval a x with Some v => if Qle_bool 0 v then Some v else None | None => None end
  end.
Fixpoint has_div (e : expr) : bool :=
  match e with
  | Var _ | Cst _ => false
  | Neg a | SqrtSq a => has_div a
  | Add a b | Sub a b | Mul a b => has_div a || has_div b
  | Div _ _ => true
  end.
Fixpoint wf_expr (e : expr) : bool :=
  match e with
  | Var _ | Cst _ => true
  | Neg a | SqrtSq a => wf_expr a
  | Add a b | Sub a b | Mul a b => wf_expr a && wf_expr b
  | Div a b => wf_expr a && wf_expr b && negb (has_div b)
  end.

(** * sources, correlation matrix, Cholesky factor (closed form, up to three sources) *)
Record src := mksrc { s_value : Q; s_error : Q; s_std : Q }.   (* s_std: spread of the raw readings (unused by MC) *)

Definition matrix := list (list Q).
Definition mget (C : matrix) (i j : nat) : Q := qnth (nth i C []) j.

(** np.count_nonzero(corr - diag(diag(corr))) == 0 *)
Definition offdiag_zero (C : matrix) (k : nat) : bool :=
  forallb (fun i => forallb (fun j => (i =? j)%nat || Qeq_bool (mget C i j) 0) (seq 0 k)) (seq 0 k).

(** exact square root of a rational that is the square of a rational *)
Definition qsqrt (x : Q) : option Q :=
  let y := Qred x in
  let n := Qnum y in let d := Zpos (Qden y) in
  let rn := Z.sqrt n in let rd := Z.sqrt d in
  if ((rn * rn =? n) && (rd * rd =? d) && (0 <? rd))%Z then Some (rn # Z.to_pos rd) else None.

Inductive cholres := CholOk (L : matrix) | CholNotPD | CholIrrational | CholUnsupported.

(** The radicands of the factorisation (the squares of the diagonal of L), computed without square
    roots: r1 = c11, r2 = c22 - c21^2/r1, r3 = c33 - c31^2/r1 - t^2/r2 with t = c32 - c31 c21/r1.
    LAPACK potrf fails as soon as one of them is not positive, in this order. *)
Definition rad1 (C : matrix) : Q := mget C 0 0.
Definition rad2 (C : matrix) : Q := mget C 1 1 - mget C 1 0 * mget C 1 0 / rad1 C.
Definition t32 (C : matrix) : Q := mget C 2 1 - mget C 2 0 * mget C 1 0 / rad1 C.
Definition rad3 (C : matrix) : Q := mget C 2 2 - mget C 2 0 * mget C 2 0 / rad1 C - t32 C * t32 C / rad2 C.

Definition positive (x : Q) : bool := negb (Qle_bool x 0).

Definition chol (k : nat) (C : matrix) : cholres :=
  match k with
  | 1%nat =>
      if negb (positive (rad1 C)) then CholNotPD else
      match qsqrt (rad1 C) with
      | Some l11 => CholOk [[l11]]
      | None => CholIrrational
      end
  | 2%nat =>
      if negb (positive (rad1 C)) then CholNotPD else
      if negb (positive (rad2 C)) then CholNotPD else
      match qsqrt (rad1 C), qsqrt (rad2 C) with
      | Some l11, Some l22 => CholOk [[l11; 0]; [mget C 1 0 / l11; l22]]
      | _, _ => CholIrrational
      end
  | 3%nat =>
      if negb (positive (rad1 C)) then CholNotPD else
      if negb (positive (rad2 C)) then CholNotPD else
      if negb (positive (rad3 C)) then CholNotPD else
      match qsqrt (rad1 C), qsqrt (rad2 C), qsqrt (rad3 C) with
      | Some l11, Some l22, Some l33 =>
          CholOk [[l11; 0; 0]; [mget C 1 0 / l11; l22; 0]; [mget C 2 0 / l11; t32 C / l22; l33]]
      | _, _, _ => CholIrrational
      end
  | _ => CholUnsupported
  end.

Fixpoint dot (a b : list Q) : Q :=
  match a, b with
  | x :: a', y :: b' => Qred (x * y + dot a' b')
  | _, _ => 0
  end.
Definition matvec (L : matrix) (z : list Q) : list Q := map (fun row => dot row z) L.

(** column n of the k x N offset matrix whose rows are the successive np.random.normal results *)
Definition columns (rows : list (list Q)) (N : nat) : list (list Q) :=
  map (fun n => map (fun r => qnth r n) rows) (seq 0 N).

(** correlate_samples: (columns after correlation, fallback warning, outside the executable fragment) *)
Definition correlate (C : matrix) (k : nat) (cols : list (list Q)) : list (list Q) * bool * bool :=
  if offdiag_zero C k then (cols, false, false)
  else match chol k C with
       | CholOk L => (map (matvec L) cols, false, false)
       | CholNotPD => (cols, true, false)
       | _ => (cols, false, true)
       end.

(** _generate_random_data_set: offsets * error + value  (the uncertainty, NOT the spread of the readings) *)
Fixpoint scale_shift (srcs : list src) (o : list Q) : list Q :=
  match srcs, o with
  | s :: srcs', x :: o' => Qred (s_value s + s_error s * x) :: scale_shift srcs' o'
  | _, _ => []
  end.

Fixpoint keep_finite (l : list (option Q)) : list Q :=
  match l with
  | [] => []
  | Some y :: t => y :: keep_finite t
  | None :: t => keep_finite t
  end.

Record drawn := mkdrawn { d_samples : list Q; d_warn_pd : bool; d_unsup : bool }.

(** __compute_samples for given offset rows *)
Definition compute_samples (f : list Q -> option Q) (C : matrix) (srcs : list src)
           (rows : list (list Q)) (N : nat) : drawn :=
  let '(cols, wpd, unsup) := correlate C (length srcs) (columns rows N) in
  mkdrawn (keep_finite (map (fun c => f (scale_shift srcs c)) cols)) wpd unsup.

(** len(result) / global_sample_size < 0.9   (the GLOBAL size, also when the quantity has its own) *)
Definition warn10 (len : nat) (gsz : Z) : bool :=
  negb (Qle_bool ((9 # 10) * inject_Z gsz) (inject_Z (Z.of_nat len))).

(** * the evaluator / settings state machine *)
Inductive strategy := MeanStd | Mode | Custom.
Definition strategy_eqb (a b : strategy) : bool :=
  match a, b with MeanStd, MeanStd | Mode, Mode | Custom, Custom => true | _, _ => false end.

Record st := mkst {
  arrays : list (list Q);       (* every numpy array allocated so far (append-only heap) *)
  raw_h : nat;                  (* MonteCarloEvaluator.raw_samples: a handle into [arrays] *)
  handed : list nat;            (* handles returned to the user by samples() *)
  c_mean : option rep;          (* MonteCarloEvaluator.values[...] *)
  c_mode : option rep;
  c_custom : option rep;
  strat : strategy;             (* MonteCarloSettings.__settings *)
  conf : Q;
  xr : option (Q * Q);
  own : Z;                      (* 0 = follow the global sample size *)
  gsz : Z;                      (* settings.monte_carlo_sample_size *)
  ncalls : nat;                 (* np.random.normal calls consumed *)
  srcs : list src;              (* current (value, error, std) of the source measurements, in set order *)
  unsup : bool                  (* sticky: a draw left the executable fragment (irrational factor / > 3 sources) *)
}.

Definition raw (s : st) : list Q := nth (raw_h s) (arrays s) [].

Definition init (srcs0 : list src) (g : Z) : st :=
  mkst [[]] 0 [] None None None MeanStd (17 # 25) None 0 g 0 srcs0 false.

Definition set_caches (s : st) (a b c : option rep) : st :=
  mkst (arrays s) (raw_h s) (handed s) a b c (strat s) (conf s) (xr s) (own s) (gsz s) (ncalls s) (srcs s) (unsup s).
Definition set_strat (s : st) (x : strategy) : st :=
  mkst (arrays s) (raw_h s) (handed s) (c_mean s) (c_mode s) (c_custom s) x (conf s) (xr s) (own s) (gsz s)
       (ncalls s) (srcs s) (unsup s).
Definition set_conf (s : st) (x : Q) : st :=
  mkst (arrays s) (raw_h s) (handed s) (c_mean s) (c_mode s) (c_custom s) (strat s) x (xr s) (own s) (gsz s)
       (ncalls s) (srcs s) (unsup s).
Definition set_xr (s : st) (x : option (Q * Q)) : st :=
  mkst (arrays s) (raw_h s) (handed s) (c_mean s) (c_mode s) (c_custom s) (strat s) (conf s) x (own s) (gsz s)
       (ncalls s) (srcs s) (unsup s).
Definition set_own (s : st) (x : Z) : st :=
  mkst (arrays s) (raw_h s) (handed s) (c_mean s) (c_mode s) (c_custom s) (strat s) (conf s) (xr s) x (gsz s)
       (ncalls s) (srcs s) (unsup s).
Definition set_gsz (s : st) (x : Z) : st :=
  mkst (arrays s) (raw_h s) (handed s) (c_mean s) (c_mode s) (c_custom s) (strat s) (conf s) (xr s) (own s) x
       (ncalls s) (srcs s) (unsup s).
Definition set_srcs (s : st) (x : list src) : st :=
  mkst (arrays s) (raw_h s) (handed s) (c_mean s) (c_mode s) (c_custom s) (strat s) (conf s) (xr s) (own s) (gsz s)
       (ncalls s) x (unsup s).
(** a new array becomes raw_samples *)
Definition set_raw_new (s : st) (a : list Q) (calls : nat) (u : bool) : st :=
  mkst (arrays s ++ [a]) (length (arrays s)) (handed s) (c_mean s) (c_mode s) (c_custom s) (strat s) (conf s)
       (xr s) (own s) (gsz s) calls (srcs s) (unsup s || u).
(** a new array is handed to the user *)
Definition hand_out (s : st) (a : list Q) : st :=
  mkst (arrays s ++ [a]) (raw_h s) (handed s ++ [length (arrays s)]) (c_mean s) (c_mode s) (c_custom s) (strat s)
       (conf s) (xr s) (own s) (gsz s) (ncalls s) (srcs s) (unsup s).
Definition set_arrays (s : st) (a : list (list Q)) : st :=
  mkst a (raw_h s) (handed s) (c_mean s) (c_mode s) (c_custom s) (strat s) (conf s) (xr s) (own s) (gsz s)
       (ncalls s) (srcs s) (unsup s).

(** MonteCarloSettings.sample_size getter: set_size if set_size else default_size *)
Definition eff_size (s : st) : Z := if (own s =? 0)%Z then gsz s else own s.

Fixpoint upd {A} (l : list A) (i : nat) (x : A) : list A :=
  match l, i with
  | [], _ => []
  | _ :: t, O => x :: t
  | y :: t, S j => y :: upd t j x
  end.

Inductive op :=
| ReadValue | ReadError                 (* derived.value / derived.error with Monte Carlo selected *)
| SetConfidence (c : pv)                (* derived.mc.confidence = c *)
| SetRange (args : list pv)             (* derived.mc.set_xrange(args...) *)
| UseMode (c : pv)                      (* derived.mc.use_mode_with_confidence(c); PNone = no argument *)
| UseMeanStd
| UseCustom (v e : pv)
| SetSampleSize (k : pv)                (* derived.mc.sample_size = k *)
| ResetSampleSize
| Recalc                                (* derived.recalculate() *)
| Samples                               (* derived.mc.samples() *)
| Inspect                               (* mc.sample_size, mc.confidence, mc.strategy, mc.xrange *)
| Mutate (j i : nat) (x : Q)            (* arr[i] = x on the j-th array returned by samples() *)
| SetGlobalSize (g : Z)                 (* q.set_monte_carlo_sample_size(g), g > 0 *)
| SetSrc (i : nat) (v e : Q).           (* measurement_i.value = v; measurement_i.error = e  (e >= 0) *)

Inductive out :=
| ONone
| OExn (e : exn)
| ORead (v : option Q)                  (* .value *)
| OErr (e : errv)                       (* .error *)
| OSamples (h : nat) (a : list Q)
| OInfo (size : Z) (c : Q) (s : strategy) (r : option (Q * Q)).

Section Machine.
  Variable f : list Q -> option Q.      (* the formula on one joint draw of the sources *)
  Variable C : matrix.                  (* correlations between the sources, in source order *)
  Variable normal : nat -> nat -> list Q.   (* np.random.normal(0, 1, size): call index, size *)

  (** warnings raised while an operation runs: (correlation fallback, "over 10 percent") *)
  Definition nowarn : bool * bool := (false, false).

  (** regenerate_samples: draw only when no sample is stored *)
  Definition regen (s : st) : st * (bool * bool) :=
    match raw s with
    | [] =>
        let N := Z.to_nat (eff_size s) in
        let k := length (srcs s) in
        let rows := map (fun j => normal (ncalls s + j) N) (seq 0 k) in
        let d := compute_samples f C (srcs s) rows N in
        (* results buffered for an earlier (empty) sample set are dropped, except the custom pair *)
        (set_caches (set_raw_new s (d_samples d) (ncalls s + k) (d_unsup d)) None None (c_custom s),
         (d_warn_pd d, warn10 (length (d_samples d)) (gsz s)))
    | _ => (s, nowarn)
    end.

  (** MonteCarloEvaluator.clear *)
  Definition clear (s : st) : st :=
    set_caches (set_raw_new s [] (ncalls s) false) None None None.

  Definition cache_of (s : st) (x : strategy) : option rep :=
    match x with MeanStd => c_mean s | Mode => c_mode s | Custom => c_custom s end.

  (** MonteCarloEvaluator.evaluate.  The chained comparisons  strategy == X not in self.values  mean
      (strategy == X) and (X not in self.values). *)
  Definition evaluate (s : st) : st * rep * (bool * bool) :=
    let '(s1, w) := regen s in
    let s2 := match strat s1, c_custom s1 with
              | Custom, None => set_strat s1 MeanStd
              | _, _ => s1 end in
    let s3 := match strat s2, c_mean s2 with
              | MeanStd, None => set_caches s2 (Some (mean_std (restrict (xr s2) (raw s2)))) (c_mode s2) (c_custom s2)
              | _, _ => s2 end in
    let s4 := match strat s3, c_mode s3 with
              | Mode, None => set_caches s3 (c_mean s3) (Some (mode_rep (raw s3) (conf s3))) (c_custom s3)
              | _, _ => s3 end in
    (s4, match cache_of s4 (strat s4) with Some r => r | None => mkrep None EUndef end, w).

  (** confidence setter *)
  Definition do_set_conf (s : st) (c : pv) : st * option exn :=
    if negb (isinstance1 c T_real) then (s, Some TypeError)
    else match num_of c with
         | Some x =>
             if negb (Qle_bool x 1) || negb (Qle_bool 0 x) then (s, Some ValueError)
             else (set_caches (set_conf s x) (c_mean s) None (c_custom s), None)   (* pops only the mode entry *)
         | None => (s, Some TypeError)
         end.

  Definition is_real (v : pv) : bool := isinstance1 v T_real.
  Definition numq (v : pv) : Q := match num_of v with Some x => x | None => 0 end.

  Definition out_exn (e : option exn) : out := match e with Some x => OExn x | None => ONone end.

  Definition step (s : st) (x : op) : st * out * (bool * bool) :=
    match x with
    | ReadValue => let '(s1, r, w) := evaluate s in (s1, ORead (r_value r), w)
    | ReadError => let '(s1, r, w) := evaluate s in (s1, OErr (r_error r), w)
    | Recalc => (clear s, ONone, nowarn)
    | SetGlobalSize g => if (0 <? g)%Z then (set_gsz s g, ONone, nowarn) else (s, OExn ValueError, nowarn)
    | SetSrc i v e => (set_srcs s (upd (srcs s) i (mksrc v e (s_std (nth i (srcs s) (mksrc 0 0 0))))), ONone, nowarn)
    | Mutate j i x =>
        (match nth_error (handed s) j with
         | Some h => set_arrays s (upd (arrays s) h (upd (nth h (arrays s) []) i x))
         | None => s end, ONone, nowarn)
    | _ =>
      (* everything else goes through the property  derived.mc, which regenerates samples first *)
      let '(s1, w) := regen s in
      match x with
      | SetConfidence c => let '(s2, e) := do_set_conf s1 c in (s2, out_exn e, w)
      | SetRange args =>
          match args with
          | [] => (set_caches (set_xr s1 None) None None None, ONone, w)
          | [_] => (s1, OExn TypeError, w)             (* a 1-tuple never validates *)
          | a :: b :: _ =>
              if negb (is_real a && is_real b) then (s1, OExn TypeError, w)
              else if negb (Qle_bool (numq a) (numq b)) then (s1, OExn ValueError, w)
              else (set_caches (set_xr s1 (Some (numq a, numq b))) None None None, ONone, w)
          end
      | UseMode c =>                                   (* the confidence is validated first *)
          if truthy c then
            let '(s2, e) := do_set_conf s1 c in
            match e with
            | Some x => (s2, OExn x, w)
            | None => (set_strat s2 Mode, ONone, w)
            end
          else (set_strat s1 Mode, ONone, w)
      | UseMeanStd => (set_strat s1 MeanStd, ONone, w)
      | UseCustom v e =>                                (* validation first; a rejected request changes nothing *)
          if negb (is_real v) then (s1, OExn TypeError, w)
          else if negb (is_real e) then (s1, OExn TypeError, w)
          else if negb (Qle_bool 0 (numq e)) then (s1, OExn ValueError, w)
          else let s2 := set_strat s1 Custom in
               (set_caches s2 (c_mean s2) (c_mode s2) (Some (mkrep (Some (numq v)) (EExact (numq e)))), ONone, w)
      | SetSampleSize k =>
          match k with
          | PInt z => if (z <? 0)%Z then (s1, OExn ValueError, w) else (clear (set_own s1 z), ONone, w)
          | PBool b => (clear (set_own s1 (if b then 1 else 0)%Z), ONone, w)   (* bool is an int; outside the domain *)
          | _ => (s1, OExn ValueError, w)
          end
      | ResetSampleSize => (clear (set_own s1 0%Z), ONone, w)
      | Samples => (hand_out s1 (raw s1), OSamples (length (arrays s1)) (raw s1), w)
      | Inspect => (s1, OInfo (eff_size s1) (conf s1) (strat s1) (xr s1), w)
      | _ => (s1, ONone, w)
      end
    end.

  Definition run (ops : list op) (s : st) : st := fold_left (fun a x => fst (fst (step a x))) ops s.
End Machine.
