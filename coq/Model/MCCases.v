(** Executable comparison of the Monte Carlo model (Model/MC.v) with observations of the
    implementation; evaluated by vm_compute in generated case files. *)
From Coq Require Import List ZArith QArith Qabs Bool.
From QV Require Import Base.Py Base.CaseLib Model.MC.
Import ListNotations.
Open Scope Q_scope.

Definition TOL : Q := 1 # 1000000000.
(** comparisons are RELATIVE; the absolute slack [atol] is given per case by the harness as 1e-10 times the largest
    magnitude that occurs in the case (so that data of size 1e-12 or 1e9 are compared as strictly as data of size 1) *)
Definition close (atol a b : Q) : bool := Qclose TOL atol a b.

Definition oq_close (atol : Q) (a b : option Q) : bool :=
  match a, b with
  | Some x, Some y => close atol x y
  | None, None => true
  | _, _ => false
  end.

(** (i) find_mode_and_uncertainty(n, bins, confidence) directly: counts, edges, confidence, observed pair *)
Definition check_mode (c : Q * list Z * list Q * Q * option (Q * Q)) : bool :=
  let '(atol, n, bins, conf, obs) := c in
  match find_mode n bins conf, obs with
  | Some (v, e), Some (v', e') => close atol v v' && close atol e e'
  | None, None => true
  | _, _ => false
  end.

(** numpy.histogram(samples, bins=100) against the exact binning: samples, observed counts, observed edges *)
Definition check_hist (c : Q * list Q * list Z * list Q) : bool :=
  let '(atol, xs, n, edges) := c in
  list_eqb Z.eqb (hist xs NBINS) n && list_eqb (close atol) (hist_edges xs NBINS) edges.

(** observations of one operation *)
Inductive obs :=
| BNone
| BExn (e : exn)
| BVal (v : option Q)             (* None = nan / masked *)
| BErr (e : option Q)
| BSamples (a : list Q)
| BInfo (size : Z) (c : Q) (s : strategy) (r : option (Q * Q)).

Definition exn_eqb (a b : exn) : bool :=
  match a, b with
  | ValueError, ValueError | TypeError, TypeError | IndexError, IndexError
  | KeyError, KeyError | OtherError, OtherError => true
  | _, _ => false
  end.

Definition range_eqb (a b : option (Q * Q)) : bool :=
  match a, b with
  | None, None => true
  | Some (x, y), Some (x', y') => Qeq_bool x x' && Qeq_bool y y'
  | _, _ => false
  end.

Definition out_matches (atol : Q) (o : out) (b : obs) : bool :=
  match o, b with
  | ONone, BNone => true
  | OExn e, BExn e' => exn_eqb e e'
  | ORead v, BVal v' => oq_close atol v v'
  | OErr (EExact e), BErr (Some e') => close atol e e'
  | OErr (ESqrt v), BErr (Some e') =>
      Qle_bool 0 e' && Qclose (4 # 1000000000) (atol * atol * (10000000000 # 1)) v (e' * e')
  | OErr EUndef, BErr None => true
  | OSamples _ a, BSamples a' => list_eqb (close atol) a a'
  | OInfo z c s r, BInfo z' c' s' r' =>
      Z.eqb z z' && close (1 # 1000000000000) c c' && strategy_eqb s s' && range_eqb r r'
  | _, _ => false
  end.

(** the recorded results of the successive np.random.normal calls; a call whose requested size differs
    from the recorded one yields nothing, so that a wrong sample size shows up *)
Definition recorded (calls : list (list Q)) (i n : nat) : list Q :=
  let l := nth i calls [] in if (length l =? n)%nat then l else [].

Fixpoint check_steps (atol : Q) (f : list Q -> option Q) (C : matrix) (calls : list (list Q))
         (s : st) (h : list (op * obs * (bool * bool))) : bool :=
  match h with
  | [] => negb (unsup s) && (ncalls s =? length calls)%nat
  | (x, b, (w1, w2)) :: h' =>
      let '(s1, o, (m1, m2)) := step f C (recorded calls) s x in
      out_matches atol o b && Bool.eqb m1 w1 && Bool.eqb m2 w2 && check_steps atol f C calls s1 h'
  end.

(** a history: formula, correlation matrix, sources (in the order of the implementation's id set),
    global sample size at the start, the recorded normal() results, the operations with observations *)
Definition check_history
  (c : Q * expr * matrix * list src * Z * list (list Q) * list (op * obs * (bool * bool))) : bool :=
  let '(atol, e, C, srcs0, g, calls, h) := c in
  wf_expr e && check_steps atol (eval e) C calls (init srcs0 g) h.

(** index of the first step that disagrees (for shrinking / reports) *)
Fixpoint first_bad (atol : Q) (f : list Q -> option Q) (C : matrix) (calls : list (list Q))
         (s : st) (h : list (op * obs * (bool * bool))) (i : nat) : option nat :=
  match h with
  | [] => if negb (unsup s) && (ncalls s =? length calls)%nat then None else Some i
  | (x, b, (w1, w2)) :: h' =>
      let '(s1, o, (m1, m2)) := step f C (recorded calls) s x in
      if out_matches atol o b && Bool.eqb m1 w1 && Bool.eqb m2 w2 then first_bad atol f C calls s1 h' (S i) else Some i
  end.
