(** Vocabulary shared by the GENERATED overload / math-function tables (Gen/OverloadsGen.v) and the
    hand-written dispatch model (Model/ArrayOps.v).  Definitions only. *)
From Coq Require Import List QArith.
Import ListNotations.

(** operator literals of qexpy/settings/literals.py (section "operators") *)
Inductive oplit :=
| NEG | ADD | SUB | MUL | DIV | SQRT | SIN | COS | TAN | SEC | CSC | COT | POW | EXP | LOG | LOG10 | LN
| ASIN | ACOS | ATAN.

(** arithmetic special methods *)
Inductive dunder :=
| D_add | D_radd | D_sub | D_rsub | D_mul | D_rmul | D_truediv | D_rtruediv | D_pow | D_rpow | D_neg.

(** the vectorised math functions exported by the package *)
Inductive fname :=
| F_sqrt | F_exp | F_sin | F_sind | F_cos | F_cosd | F_tan | F_tand | F_sec | F_secd | F_csc | F_cscd
| F_cot | F_cotd | F_asin | F_acos | F_atan | F_log | F_log10.

(** ExperimentalValue.__d__(self, other):
      [if isinstance(other, ARRAY_TYPES): return other.__defer__(self)]
      return DerivedValue(Formula(lit.OP, [self, wrap(other)]))          (self_first = true)
      return DerivedValue(Formula(lit.OP, [wrap(other), self]))          (self_first = false)
    ExperimentalValue.__neg__(self): return DerivedValue(Formula(lit.OP, [self])) *)
Inductive ev_shape :=
| EvBinary (op : oplit) (self_first : bool) (defer : option dunder)
| EvUnary (op : oplit).

(** ExperimentalValueArray.__d__(self, other):
      if isinstance(other, ARRAY_TYPES): return super().__target__(other)
      return super().__target__(wrap(other))                              (wraps = true)
    or not defined in the class (inherited from numpy.ndarray) *)
Inductive arr_shape :=
| ArrDelegate (target : dunder) (wraps : bool)
| ArrInherited.

(** a math function f(x):
      return _execute(lit.OP, x)
      return base(x / divisor * factor)
      log( *args): two arguments -> _execute(lit.TWO, args[first], args[second]); one -> _execute(lit.ONE, args[0]) *)
Inductive fn_shape :=
| FnDirect (op : oplit)
| FnDegrees (base : fname) (divisor factor : Q)
| FnLog (two : oplit) (first second : nat) (one : oplit).

(** utils.vectorize: rules tried in order: "if any argument is a <kind>: np.vectorize(func)( *args)[.tolist()]" *)
Inductive vkind := VkNdarray | VkList.
