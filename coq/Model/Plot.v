(** C19 -- the pure pipeline between the user's objects and the matplotlib calls
    (qexpy/plotting/plotting.py, plotobjects.py, XYFitResult of fitting/fitting.py).
    Definitions only.  The single-expression parts (x-range mask, number of curve points,
    label formatting, label sources, the aggregates of the plot's x-domain, the keyword
    filters) come from Gen/PlotGen.v, regenerated from the source on every run.

    What is NOT in the model (oracles, validated by the correspondence only): matplotlib,
    numpy.histogram / numpy.linspace (modelled by their exact-arithmetic definitions), the
    Monte Carlo evaluation of a fit curve ([fi_mc]), the propagated uncertainties of the
    residuals ([fi_res_err]), the printed form of a unit. *)
From Coq Require Import List ZArith QArith Bool String.
From QV Require Import Model.PlotBase Gen.PlotGen.
Import ListNotations.
Open Scope Q_scope.

(** * Generic helpers *)

(** numpy boolean-mask indexing  a[mask] *)
Fixpoint pick {A} (m : list bool) (l : list A) : list A :=
  match m, l with
  | b :: m', a :: l' => if b then a :: pick m' l' else pick m' l'
  | _, _ => []
  end.

Fixpoint map2 {A B C} (f : A -> B -> C) (l : list A) (m : list B) : list C :=
  match l, m with
  | a :: l', b :: m' => f a b :: map2 f l' m'
  | _, _ => []
  end.

Definition count_if {A} (p : A -> bool) (l : list A) : nat := List.length (filter p l).

Definition list_agg (a : agg) (l : list Q) : option Q :=
  match l with [] => None | x :: r => Some (aggregate a x r) end.

(** (min(xs), max(xs)) *)
Definition span (xs : list Q) : option range :=
  match list_agg AggMin xs, list_agg AggMax xs with
  | Some a, Some b => Some (a, b)
  | _, _ => None
  end.

Definition Qn (n : nat) : Q := inject_Z (Z.of_nat n).

(** numpy.linspace(lo, hi, n), endpoint included, in exact arithmetic *)
Definition linspace (n : nat) (lo hi : Q) : list Q :=
  map (fun i => lo + Qn i * (hi - lo) / Qn (n - 1)) (seq 0 n).
Definition linspace100 := linspace gen_linspace_num.

(** * The user's objects *)

Record dataset := mk_dataset {
  ds_x : list Q; ds_y : list Q; ds_xe : list Q; ds_ye : list Q;
  ds_name : text;                                   (* XYDataSet.name ("XY Dataset" when none was given) *)
  ds_xname : text; ds_yname : text; ds_xunit : text; ds_yunit : text }.

(** XYDataSetOnPlot *)
Record data_obj := mk_data_obj {
  do_ds : dataset;
  do_range : option range;                          (* the xrange keyword *)
  do_label : option text }.                         (* the label keyword *)

Definition do_mask (o : data_obj) : option (list bool) :=
  match do_range o with
  | Some r => Some (map (gen_mask (fst r) (snd r)) (ds_x (do_ds o)))    (* __get_indices_from_xrange *)
  | None => None
  end.
Definition masked {A} (m : option (list bool)) (l : list A) : list A :=
  match m with Some m => pick m l | None => l end.
Definition do_xvalues (o : data_obj) := masked (do_mask o) (ds_x (do_ds o)).
Definition do_yvalues (o : data_obj) := masked (do_mask o) (ds_y (do_ds o)).
Definition do_xerr (o : data_obj) := masked (do_mask o) (ds_xe (do_ds o)).
Definition do_yerr (o : data_obj) := masked (do_mask o) (ds_ye (do_ds o)).
(** XYDataSetOnPlot.xrange *)
Definition do_xrange (o : data_obj) : option range :=
  match do_range o with Some r => Some r | None => span (ds_x (do_ds o)) end.

(** FunctionOnPlot: [fo_f x] = (central value, uncertainty) of the user's function at x *)
Record fn_obj := mk_fn_obj {
  fo_f : Q -> Q * Q;
  fo_spec : bool;                                   (* "xrange" in kwargs *)
  fo_range : option range;
  fo_xname : text; fo_yname : text; fo_xunit : text; fo_yunit : text;
  fo_label : text }.

(** XYFitResult + XYFitResultOnPlot *)
Record fit_obj := mk_fit_obj {
  fi_ds : dataset;                                  (* the data set the fit was made on *)
  fi_xrange : option range;                         (* the xrange the fit was restricted to *)
  fi_fn : Q -> Q;                                   (* central value of fit_function *)
  fi_mc : Q -> Q * Q;                               (* ORACLE: Monte Carlo (mean, std) of fit_function at x *)
  fi_res_err : list Q;                              (* ORACLE: propagated uncertainties of the residuals *)
  fi_label : text }.

(** XYFitResult.__init__:  y_err = dataset.ydata - result_func(dataset.xdata) *)
Definition fit_residuals (o : fit_obj) : list Q :=
  map2 Qminus (ds_y (fi_ds o)) (map (fi_fn o) (ds_x (fi_ds o))).
(** XYFitResultOnPlot._xrange *)
Definition fi_range (o : fit_obj) : option range :=
  match fi_xrange o with Some r => Some r | None => span (ds_x (fi_ds o)) end.
(** XYFitResultOnPlot.residuals_on_plot = XYDataSetOnPlot(dataset.xdata, result.residuals) *)
Definition fi_residual_obj (o : fit_obj) : data_obj :=
  {| do_ds := {| ds_x := ds_x (fi_ds o); ds_y := fit_residuals o; ds_xe := ds_xe (fi_ds o); ds_ye := fi_res_err o;
                 ds_name := []; ds_xname := ds_xname (fi_ds o); ds_yname := []; ds_xunit := ds_xunit (fi_ds o);
                 ds_yunit := [] |};
     do_range := None; do_label := None |}.
(** XYFitResultOnPlot.func_on_plot = FunctionOnPlot(fit_function, xrange=_xrange, error_method=MONTE_CARLO) *)
Definition fi_func_obj (o : fit_obj) : fn_obj :=
  {| fo_f := fi_mc o; fo_spec := true; fo_range := fi_range o;
     fo_xname := []; fo_yname := []; fo_xunit := []; fo_yunit := []; fo_label := fi_label o |}.

(** HistogramOnPlot.  Keywords that reach numpy.histogram (NP_HIST_VALID_KWARGS): bins, range, density,
    weights; keywords that reach ax.hist (HIST_VALID_KWARGS): those and cumulative (the purely
    cosmetic ones -- histtype, align, rwidth, bottom, log, orientation -- are not modelled).
    bins: an integer, an ascending sequence of edges (any widths), or a string rule ("auto",
    "sturges", ...) -- for a rule the edges numpy's estimator chose are an ORACLE input. *)
Inductive bins := BInt (k : nat) | BSeq (edges : list Q) | BRule (edges : list Q).
Record hist_kw := mk_hist_kw {
  kw_bins : option bins; kw_range : option range; kw_label : option text;
  kw_density : bool; kw_weights : option (list Q); kw_cumulative : bool }.
Record hist_obj := mk_hist_obj { hi_samples : list Q; hi_kw : hist_kw }.

(** {k: v for k, v in kwargs.items() if k in VALID} *)
Definition restrict (valid : list string) (k : hist_kw) : hist_kw :=
  {| kw_bins := if kw_in "bins" valid then kw_bins k else None;
     kw_range := if kw_in "range" valid then kw_range k else None;
     kw_label := if kw_in "label" valid then kw_label k else None;
     kw_density := if kw_in "density" valid then kw_density k else false;
     kw_weights := if kw_in "weights" valid then kw_weights k else None;
     kw_cumulative := if kw_in "cumulative" valid then kw_cumulative k else false |}.

(** numpy.histogram, bin edges: a sequence is taken as it is; an integer k gives k equal-width
    bins over the given range, or over (min, max) of the samples; a range of zero width is
    widened by one half on each side; default 10 bins *)
Definition hist_edges (samples : list Q) (kw : hist_kw) : option (list Q) :=
  match kw_bins kw with
  | Some (BSeq e) => Some e
  | Some (BRule e) => Some e
  | b =>
      let k := match b with Some (BInt k) => k | _ => 10%nat end in
      match (match kw_range kw with Some r => Some r | None => span samples end) with
      | None => None
      | Some (lo, hi) =>
          let '(lo, hi) := if Qeq_bool lo hi then (lo - (1 # 2), hi + (1 # 2)) else (lo, hi) in
          Some (linspace (S k) lo hi)
      end
  end.

(** bin i is [e_i, e_i+1), the last bin is closed *)
Definition half_open (a b s : Q) : bool := Qle_bool a s && Qltb s b.
Definition closed (a b s : Q) : bool := Qle_bool a s && Qle_bool s b.

(** plain counts (what the bin contents are when no weights are given, see Proofs) *)
Fixpoint hist_counts_from (samples : list Q) (e0 : Q) (rest : list Q) {struct rest} : list nat :=
  match rest with
  | [] => []
  | e1 :: rest' =>
      match rest' with
      | [] => [count_if (closed e0 e1) samples]
      | _ :: _ => count_if (half_open e0 e1) samples :: hist_counts_from samples e1 rest'
      end
  end.
Definition hist_counts (samples edges : list Q) : list nat :=
  match edges with [] => [] | e0 :: rest => hist_counts_from samples e0 rest end.

(** bin contents in general: the sum of the weights of the samples in the bin (weight 1 each
    when no weights are given) *)
Definition weighted (samples : list Q) (kw : hist_kw) : list (Q * Q) :=
  combine samples (match kw_weights kw with Some w => w | None => repeat 1 (List.length samples) end).
Definition bin_sum (p : Q -> bool) (ws : list (Q * Q)) : Q :=
  fold_right (fun sw acc => if p (fst sw) then snd sw + acc else acc) 0 ws.
Fixpoint hist_sums_from (ws : list (Q * Q)) (e0 : Q) (rest : list Q) {struct rest} : list Q :=
  match rest with
  | [] => []
  | e1 :: rest' =>
      match rest' with
      | [] => [bin_sum (closed e0 e1) ws]
      | _ :: _ => bin_sum (half_open e0 e1) ws :: hist_sums_from ws e1 rest'
      end
  end.
Definition hist_sums (ws : list (Q * Q)) (edges : list Q) : list Q :=
  match edges with [] => [] | e0 :: rest => hist_sums_from ws e0 rest end.

Fixpoint widths (edges : list Q) : list Q :=
  match edges with
  | e0 :: ((e1 :: _) as rest) => (e1 - e0) :: widths rest
  | _ => []
  end.
Definition qsum (l : list Q) : Q := fold_right Qplus 0 l.
(** density=True:  n / diff(edges) / n.sum() *)
Definition densities (raw edges : list Q) : list Q :=
  map2 (fun r w => r / w / qsum raw) raw (widths edges).

(** numpy.histogram(samples, **kw) = (bin contents or densities, edges) *)
Definition np_histogram (samples : list Q) (kw : hist_kw) : option (list Q * list Q) :=
  match hist_edges samples kw with
  | Some e =>
      let raw := hist_sums (weighted samples kw) e in
      Some (if kw_density kw then densities raw e else raw, e)
  | None => None
  end.

(** what Plot.hist returns to the caller: HistogramOnPlot.__init__ calls numpy.histogram with
    the keywords in NP_HIST_VALID_KWARGS *)
Definition hist_returned (h : hist_obj) : option (list Q * list Q) :=
  np_histogram (hi_samples h) (restrict NP_HIST_VALID_KWARGS (hi_kw h)).
(** HistogramOnPlot._xrange = (bin_edges[0], bin_edges[-1]) *)
Definition hi_xrange (h : hist_obj) : option range :=
  match hist_returned h with
  | Some (_, e0 :: rest) => Some (e0, last rest e0)
  | _ => None
  end.

(** running sums *)
Fixpoint cumsum_from (acc : Q) (l : list Q) : list Q :=
  match l with [] => [] | x :: r => (acc + x) :: cumsum_from (acc + x) r end.
(** matplotlib's Axes.hist on top of numpy.histogram: cumulative=True shows running sums of the
    bin contents -- of density * width when density=True *)
Definition mpl_heights (kw : hist_kw) (n edges : list Q) : list Q :=
  if kw_cumulative kw
  then cumsum_from 0 (if kw_density kw then map2 Qmult n (widths edges) else n)
  else n.
(** one bar (left edge, width, height) per bin *)
Fixpoint bars_of (edges : list Q) (heights : list Q) : list (Q * Q * Q) :=
  match edges, heights with
  | e0 :: ((e1 :: _) as rest), c :: cs => (e0, e1 - e0, c) :: bars_of rest cs
  | _, _ => []
  end.
(** what HistogramOnPlot.show draws: ax.hist(samples, **kwargs in HIST_VALID_KWARGS), which
    bins the samples with numpy.histogram *)
Definition hist_bars (h : hist_obj) : option (list (Q * Q * Q)) :=
  let kw := restrict HIST_VALID_KWARGS (hi_kw h) in
  match np_histogram (hi_samples h) kw with
  | Some (n, e) => Some (bars_of e (mpl_heights kw n e))
  | None => None
  end.

Inductive obj :=
| OData (o : data_obj)
| OFunc (o : fn_obj)
| OFit (o : fit_obj)
| OHist (o : hist_obj).

(** * The plot *)

Record settings := mk_settings {
  s_errorbar : bool; s_residuals : bool; s_legend : bool;
  s_xrange : option range;                          (* Plot.xrange when set by the user *)
  s_title : text; s_xname : text; s_yname : text; s_xunit : text; s_yunit : text }.

(** xrange of an ObjectWithRange (every kind of object is one) *)
Definition obj_xrange (o : obj) : option range :=
  match o with
  | OData d => do_xrange d
  | OFunc f => fo_range f
  | OFit f => fi_range f
  | OHist h => hi_xrange h
  end.

Definition ranges_of (objs : list obj) : list range :=
  flat_map (fun o => match obj_xrange o with Some r => [r] | None => [] end) objs.

Definition bound (spec : agg * comp) (rs : list range) : option Q :=
  list_agg (fst spec) (map (component (snd spec)) rs).

(** Plot.xrange.  The result is reduced to lowest terms so that equal bounds are equal terms. *)
Definition plot_domain (cfg : settings) (objs : list obj) : option range :=
  match s_xrange cfg with
  | Some r => Some r
  | None =>
      match bound gen_dom_low (ranges_of objs), bound gen_dom_high (ranges_of objs) with
      | Some a, Some b => Some (Qred a, Qred b)
      | _, _ => None
      end
  end.

(** the x-range a function is evaluated on (Plot.__prepare_fig + FunctionOnPlot.xvalues) *)
Definition fn_domain (dom : range) (f : fn_obj) : option range :=
  if fo_spec f then fo_range f else Some dom.

(** * What is handed to matplotlib *)

Definition seg := (Q * Q * Q * Q)%type.             (* x0 y0 x1 y1 *)
Record points := mk_points {
  p_x : list Q; p_y : list Q;
  p_bars : option (list seg * list seg) }.          (* horizontal (x) bars, vertical (y) bars *)
Record curve := mk_curve {
  c_x : list Q; c_y : list Q;
  c_band : option (list Q * list Q) }.              (* lower, upper edge of the filled band *)
Inductive drawn :=
| DrData (p : points)
| DrFunc (c : curve)
| DrFit (c : curve) (res : option points)
| DrHist (bars : list (Q * Q * Q)).

Definition xbar (p : Q * Q * Q) : seg := let '(x, y, e) := p in (x - e, y, x + e, y).
Definition ybar (p : Q * Q * Q) : seg := let '(x, y, e) := p in (x, y - e, x, y + e).

(** XYDataSetOnPlot.show: ax.plot(x, y) or ax.errorbar(x, y, yerr, xerr) *)
Definition draw_data (eb : bool) (o : data_obj) : points :=
  let xs := do_xvalues o in let ys := do_yvalues o in
  {| p_x := xs; p_y := ys;
     p_bars := if eb then Some (map xbar (combine (combine xs ys) (do_xerr o)),
                                map ybar (combine (combine xs ys) (do_yerr o)))
               else None |}.

(** FunctionOnPlot.show: ax.plot(linspace, values); ax.fill_between(x, y - err, y + err) *)
Definition draw_curve (eb : bool) (f : Q -> Q * Q) (r : range) : curve :=
  let xs := linspace100 (fst r) (snd r) in
  let ys := map (fun x => fst (f x)) xs in
  let es := map (fun x => snd (f x)) xs in
  {| c_x := xs; c_y := ys;
     c_band := if eb then Some (map2 Qminus ys es, map2 Qplus ys es) else None |}.

Inductive outcome (A : Type) :=
| Rendered (a : A)
| ErrNoDomain               (* ValueError: no object on the plot has an x-range *)
| ErrNoFunctionDomain       (* UndefinedActionError: the domain of this function cannot be found *)
| ErrHistogram.             (* numpy cannot bin (no samples and no range) *)
Arguments Rendered {A} a.
Arguments ErrNoDomain {A}.
Arguments ErrNoFunctionDomain {A}.
Arguments ErrHistogram {A}.

Definition draw_obj (cfg : settings) (dom : range) (o : obj) : outcome drawn :=
  match o with
  | OData d => Rendered (DrData (draw_data (s_errorbar cfg) d))
  | OFunc f =>
      match fn_domain dom f with
      | Some r => Rendered (DrFunc (draw_curve (s_errorbar cfg) (fo_f f) r))
      | None => ErrNoFunctionDomain
      end
  | OFit f =>
      match fn_domain dom (fi_func_obj f) with
      | Some r => Rendered (DrFit (draw_curve (s_errorbar cfg) (fi_mc f) r)
                                  (if s_residuals cfg
                                   then Some (draw_data (s_errorbar cfg) (fi_residual_obj f)) else None))
      | None => ErrNoFunctionDomain
      end
  | OHist h =>
      match hist_bars h with
      | Some b => Rendered (DrHist b)
      | None => ErrHistogram
      end
  end.

Fixpoint sequence {A} (l : list (outcome A)) : outcome (list A) :=
  match l with
  | [] => Rendered []
  | Rendered a :: l' => match sequence l' with Rendered r => Rendered (a :: r) | e => e end
  | ErrNoDomain :: _ => ErrNoDomain
  | ErrNoFunctionDomain :: _ => ErrNoFunctionDomain
  | ErrHistogram :: _ => ErrHistogram
  end.

(** what is drawn for one object of a plot *)
Definition drawn_for (cfg : settings) (objs : list obj) (o : obj) : outcome drawn :=
  match plot_domain cfg objs with
  | Some dom => draw_obj cfg dom o
  | None => ErrNoDomain
  end.

(** Plot.__prepare_fig: all objects, in the order they were added *)
Definition render (cfg : settings) (objs : list obj) : outcome (list drawn) :=
  match plot_domain cfg objs with
  | Some dom => sequence (map (draw_obj cfg dom) objs)
  | None => ErrNoDomain
  end.

(** * Labels *)

(** attribute of an XYObjectOnPlot (data sets and functions; fits and histograms are not) *)
Definition xy_attr (a : string) (o : obj) : list text :=
  match o with
  | OData d =>
      let s := do_ds d in
      [if String.eqb a "xname" then ds_xname s else if String.eqb a "yname" then ds_yname s
       else if String.eqb a "xunit" then ds_xunit s else if String.eqb a "yunit" then ds_yunit s else []]
  | OFunc f =>
      [if String.eqb a "xname" then fo_xname f else if String.eqb a "yname" then fo_yname f
       else if String.eqb a "xunit" then fo_xunit f else if String.eqb a "yunit" then fo_yunit f else []]
  | _ => []
  end.
Definition plot_info (cfg : settings) (k : string) : text :=
  if String.eqb k "xname" then s_xname cfg else if String.eqb k "yname" then s_yname cfg
  else if String.eqb k "xunit" then s_xunit cfg else if String.eqb k "yunit" then s_yunit cfg
  else if String.eqb k "title" then s_title cfg else [].
Definition first_nonempty (l : list text) : text :=
  match filter nonempty l with t :: _ => t | [] => [] end.
(** explicit override, else the first XY object for which the attribute is non-empty *)
Definition resolve (src : string * string) (cfg : settings) (objs : list obj) : text :=
  if nonempty (plot_info cfg (fst src)) then plot_info cfg (fst src)
  else first_nonempty (flat_map (xy_attr (snd src)) objs).
Definition plot_xname := resolve gen_src_xname.
Definition plot_yname := resolve gen_src_yname.
Definition plot_xunit := resolve gen_src_xunit.
Definition plot_yunit := resolve gen_src_yunit.
Definition xlabel (cfg : settings) (objs : list obj) : text :=
  gen_xlabel (plot_xname cfg objs) (plot_yname cfg objs) (plot_xunit cfg objs) (plot_yunit cfg objs).
Definition ylabel (cfg : settings) (objs : list obj) : text :=
  gen_ylabel (plot_xname cfg objs) (plot_yname cfg objs) (plot_xunit cfg objs) (plot_yunit cfg objs).

(** the rule of the property text: name, then the unit in square brackets when there is one *)
Definition label (name unit : text) : text :=
  (name ++ (if nonempty unit then [91%N] ++ unit ++ [93%N] else []))%list.

(** * Legend *)
Definition obj_label (o : obj) : text :=
  match o with
  | OData d => match do_label d with Some l => l | None => ds_name (do_ds d) end
  | OFunc f => fo_label f
  | OFit f => fi_label f
  | OHist h => match kw_label (restrict HIST_VALID_KWARGS (hi_kw h)) with Some l => l | None => [] end
  end.
(** data sets drawn with error bars are matplotlib containers, which a legend lists after the
    plain artists *)
Definition is_container (cfg : settings) (o : obj) : bool :=
  match o with OData _ => s_errorbar cfg | _ => false end.
(** matplotlib leaves out empty labels and labels that start with an underscore *)
Definition listed (t : text) : bool :=
  match t with [] => false | c :: _ => negb (N.eqb c 95%N) end.
Definition legend (cfg : settings) (objs : list obj) : option (list text) :=
  if s_legend cfg
  then Some (filter listed (map obj_label (filter (fun o => negb (is_container cfg o)) objs)
                            ++ map obj_label (filter (is_container cfg) objs))%list)
  else None.

(** * The whole figure *)
Record figure := mk_figure {
  fig_objs : list drawn;
  fig_has_res_axes : bool;
  fig_title : text; fig_xlabel : text; fig_ylabel : text;
  fig_res_xlabel : option text;
  fig_legend : option (list text) }.

Definition savefig (cfg : settings) (objs : list obj) : outcome figure :=
  match render cfg objs with
  | Rendered ds =>
      Rendered {| fig_objs := ds; fig_has_res_axes := s_residuals cfg;
                  fig_title := s_title cfg; fig_xlabel := xlabel cfg objs; fig_ylabel := ylabel cfg objs;
                  fig_res_xlabel := if s_residuals cfg then Some (xlabel cfg objs) else None;
                  fig_legend := legend cfg objs |}
  | ErrNoDomain => ErrNoDomain
  | ErrNoFunctionDomain => ErrNoFunctionDomain
  | ErrHistogram => ErrHistogram
  end.
