(** Vocabulary shared by the generated plotting tables (Gen/PlotGen.v) and the hand-written
    plot pipeline model (Model/Plot.v).  Definitions only. *)
From Coq Require Import List ZArith QArith Bool String.
Import ListNotations.

(** text = Python str as a list of Unicode code points *)
Definition text := list N.
Definition text_eqb (a b : text) : bool :=
  (fix go (a b : text) : bool :=
     match a, b with
     | [], [] => true
     | x :: a', y :: b' => N.eqb x y && go a' b'
     | _, _ => false
     end) a b.
(** truthiness of a Python str *)
Definition nonempty (t : text) : bool := match t with [] => false | _ => true end.

Definition range := (Q * Q)%type.

(** strict comparison on Q as a boolean *)
Definition Qltb (a b : Q) : bool := negb (Qle_bool b a).

(** which aggregate / which tuple component the plot's x-domain takes *)
Inductive agg := AggMin | AggMax.
Inductive comp := Comp0 | Comp1.

(** Python's min / max over an iterable keep the first extremal element *)
Definition qmin (cur new : Q) : Q := if Qltb new cur then new else cur.
Definition qmax (cur new : Q) : Q := if Qltb cur new then new else cur.
Definition aggregate (a : agg) (first : Q) (rest : list Q) : Q :=
  fold_left (match a with AggMin => qmin | AggMax => qmax end) rest first.
Definition component (c : comp) (r : range) : Q := match c with Comp0 => fst r | Comp1 => snd r end.

(** "prefix{}suffix".format(arg) *)
Definition format1 (prefix suffix arg : text) : text := (prefix ++ arg ++ suffix)%list.

(** membership of a keyword in one of the VALID_KWARGS lists *)
Definition kw_in (k : string) (valid : list string) : bool := existsb (String.eqb k) valid.
