(** Executable comparison of the plot model with what was read back from the matplotlib
    axes after Plot.savefig (correspondence case files, evaluated with vm_compute). *)
From Coq Require Import List ZArith QArith Qabs Bool String.
From QV Require Import Base.CaseLib Model.PlotBase Gen.PlotGen Model.Plot.
Import ListNotations.
Open Scope Q_scope.

(** a double, transmitted as mantissa and binary exponent: m * 2^e *)
Definition fl (m e : Z) : Q :=
  if (0 <=? e)%Z then inject_Z (m * 2 ^ e) else Qmake m (Z.to_pos (2 ^ (- e))).

(** exact results up to double rounding: |a - b| <= 1e-12 (|a| + |b|) + 1e-11 * s, where s is the
    scale of the case's data (generated cases multiply x, y and uncertainties by s = 2^k,
    k in -40 .. 30, so that an absolute tolerance cannot hide a discrepancy in small data) *)
Definition qc (s a b : Q) : bool := Qclose (1 # 1000000000000) ((1 # 100000000000) * s) a b.
Definition qlc (s : Q) := list_eqb (qc s).
Definition seg_close (s : Q) (a b : seg) : bool :=
  let '(a0, a1, a2, a3) := a in let '(b0, b1, b2, b3) := b in qc s a0 b0 && qc s a1 b1 && qc s a2 b2 && qc s a3 b3.
(** the largest magnitude in a list: the scale of histogram contents (counts, or densities ~ 1/s) *)
Definition maxabs (l : list Q) : Q := fold_right (fun x m => if Qle_bool m (Qabs x) then Qabs x else m) 0 l.
Definition bar_close (s hs : Q) (a b : Q * Q * Q) : bool :=
  let '(a0, a1, a2) := a in let '(b0, b1, b2) := b in qc s a0 b0 && qc s a1 b1 && qc hs a2 b2.
Definition pair_close (s : Q) (a b : list Q * list Q) : bool := qlc s (fst a) (fst b) && qlc s (snd a) (snd b).
Definition segs_close (s : Q) (a b : list seg * list seg) : bool :=
  list_eqb (seg_close s) (fst a) (fst b) && list_eqb (seg_close s) (snd a) (snd b).
Definition points_close (s : Q) (a b : points) : bool :=
  qlc s (p_x a) (p_x b) && qlc s (p_y a) (p_y b) && option_eqb (segs_close s) (p_bars a) (p_bars b).
Definition curve_close (s : Q) (a b : curve) : bool :=
  qlc s (c_x a) (c_x b) && qlc s (c_y a) (c_y b) && option_eqb (pair_close s) (c_band a) (c_band b).
Definition drawn_close (sc : Q) (a b : drawn) : bool :=
  match a, b with
  | DrData p, DrData q => points_close sc p q
  | DrFunc c, DrFunc d => curve_close sc c d
  | DrFit c r, DrFit d s => curve_close sc c d && option_eqb (points_close sc) r s
  | DrHist x, DrHist y => list_eqb (bar_close sc (maxabs (map (fun b => snd b) x))) x y
  | _, _ => false
  end.

(** functions used in generated cases: value = polynomial, uncertainty = |polynomial| *)
Fixpoint horner (cs : list Q) (x : Q) : Q :=      (* coefficients lowest power first *)
  match cs with [] => 0 | c :: cs' => c + x * horner cs' x end.
Definition poly_fn (cv ce : list Q) (x : Q) : Q * Q := (horner cv x, Qabs (horner ce x)).

(** central value of a fit function: a polynomial (lowest power first), or -- for the models
    that are not rational functions -- the values the implementation's fit_function reports
    at the 100 curve points and at the data points (reference tables) *)
Inductive fit_ref := RefPoly (cs : list Q) | RefTable (curve_ys : list Q) (at_data : list (Q * Q)).

Inductive cobj :=
| CData (d : data_obj)
| CFunc (cv ce : list Q) (spec : bool) (r : option range) (xname yname xunit yunit label : text)
| CFit (ds : dataset) (xr : option range) (ref : fit_ref) (res_err : list Q) (sig : list Q) (label : text)
| CHist (h : hist_obj).

Fixpoint index_of (x : Q) (l : list Q) (i : nat) : nat :=
  match l with
  | [] => i
  | y :: l' => if Qeq_bool x y then i else index_of x l' (S i)
  end.

(** the Monte Carlo oracle of a fit, instantiated by the observation: the observed (mean, std)
    at the i-th curve point is the oracle's answer at the model's i-th abscissa *)
Definition table_fn (xs : list Q) (tab : list (Q * Q)) (x : Q) : Q * Q :=
  nth (index_of x xs 0) tab (0, 0).

(** the Monte Carlo standard deviation at each curve point: half the width of the drawn band;
    when no band is drawn (error bars off), the first-order uncertainty of fit_function *)
Definition half_widths (band : option (list Q * list Q)) (sig : list Q) : list Q :=
  match band with
  | Some (lo, hi) => map2 (fun a b => (b - a) / 2) lo hi
  | None => sig
  end.

Definition fit_xs (ds : dataset) (xr : option range) : list Q :=
  match (match xr with Some r => Some r | None => span (ds_x ds) end) with
  | Some r => linspace100 (fst r) (snd r)
  | None => []
  end.

Definition ref_fn (ref : fit_ref) (xs : list Q) (x : Q) : Q :=
  match ref with
  | RefPoly cs => horner cs x
  | RefTable ys at_data =>
      match find (fun p => Qeq_bool (fst p) x) at_data with
      | Some p => snd p
      | None => nth (index_of x xs 0) ys 0
      end
  end.

Definition to_obj (c : cobj) (o : option drawn) : obj :=
  match c with
  | CData d => OData d
  | CFunc cv ce spec r xn yn xu yu lb =>
      OFunc {| fo_f := poly_fn cv ce; fo_spec := spec; fo_range := r;
               fo_xname := xn; fo_yname := yn; fo_xunit := xu; fo_yunit := yu; fo_label := lb |}
  | CFit ds xr ref re sig lb =>
      let xs := fit_xs ds xr in
      let tab := match o with
                 | Some (DrFit c _) => combine (c_y c) (half_widths (c_band c) sig)
                 | _ => []
                 end in
      OFit {| fi_ds := ds; fi_xrange := xr; fi_fn := ref_fn ref xs; fi_mc := table_fn xs tab;
              fi_res_err := re; fi_label := lb |}
  | CHist h => OHist h
  end.

Fixpoint to_objs (cs : list cobj) (os : list drawn) : list obj :=
  match cs with
  | [] => []
  | c :: cs' => match os with
                | o :: os' => to_obj c (Some o) :: to_objs cs' os'
                | [] => to_obj c None :: to_objs cs' []
                end
  end.

(** the drawn fit curve agrees with the fit function within Monte Carlo sampling error:
    6 sigma / sqrt(10000), sigma = the drawn band's half width, plus rounding slack *)
Definition mc_tolerance (sc sigma ref : Q) : Q :=
  6 * sigma / 100 + (1 # 1000000000) * (Qabs ref + sc).
Definition mc_within (sc : Q) (f : fit_obj) (xs : list Q) : bool :=
  forallb (fun x => let '(m, s) := fi_mc f x in
                    Qle_bool (Qabs (m - fi_fn f x)) (mc_tolerance sc s (fi_fn f x)) && Qle_bool 0 s) xs.
Definition obj_mc_ok (sc : Q) (o : obj) : bool :=
  match o with
  | OFit f => match fi_range f with
              | Some r => mc_within sc f (linspace100 (fst r) (snd r))
              | None => true
              end
  | _ => true
  end.

(** observation of one savefig *)
Inductive status := StOk | StNoDomain | StNoFunctionDomain | StHistogram | StOther.
Record observation := mk_observation {
  ob_status : status;
  ob_objs : list drawn;
  ob_xlabel : text; ob_ylabel : text; ob_title : text;
  ob_res_xlabel : option text;
  ob_legend : option (list text);
  ob_returned : list (list Q * list Q);
  ob_scale : Q }.                                     (* the scale of the case's data (1 for ordinary cases) *)          (* what Plot.hist returned, per histogram, in order *)

Definition status_eqb (a b : status) : bool :=
  match a, b with
  | StOk, StOk | StNoDomain, StNoDomain | StNoFunctionDomain, StNoFunctionDomain
  | StHistogram, StHistogram | StOther, StOther => true
  | _, _ => false
  end.

Definition returned_close (sc : Q) (a b : list Q * list Q) : bool :=
  qlc (maxabs (fst a)) (fst a) (fst b) && qlc sc (snd a) (snd b).
Definition returns_of (objs : list obj) : list (option (list Q * list Q)) :=
  flat_map (fun o => match o with OHist h => [hist_returned h] | _ => [] end) objs.

Definition check_case (c : settings * list cobj * observation) : bool :=
  let '(cfg, cobjs, ob) := c in
  let objs := to_objs cobjs (ob_objs ob) in
  list_eqb (option_eqb (returned_close (ob_scale ob))) (returns_of objs) (map Some (ob_returned ob)) &&
  match savefig cfg objs with
  | Rendered fig =>
      status_eqb (ob_status ob) StOk &&
      list_eqb (drawn_close (ob_scale ob)) (fig_objs fig) (ob_objs ob) &&
      forallb (obj_mc_ok (ob_scale ob)) objs &&
      text_eqb (fig_xlabel fig) (ob_xlabel ob) && text_eqb (fig_ylabel fig) (ob_ylabel ob) &&
      text_eqb (fig_title fig) (ob_title ob) &&
      option_eqb text_eqb (fig_res_xlabel fig) (ob_res_xlabel ob) &&
      option_eqb (list_eqb text_eqb) (fig_legend fig) (ob_legend ob)
  | ErrNoDomain => status_eqb (ob_status ob) StNoDomain
  | ErrNoFunctionDomain => status_eqb (ob_status ob) StNoFunctionDomain
  | ErrHistogram => status_eqb (ob_status ob) StHistogram
  end.

(** which part of a case disagrees (diagnostics for a failed case):
    returned / status / objects / Monte Carlo / xlabel / ylabel / title / residual label / legend *)
Definition check_parts (c : settings * list cobj * observation) : list bool :=
  let '(cfg, cobjs, ob) := c in
  let objs := to_objs cobjs (ob_objs ob) in
  list_eqb (option_eqb (returned_close (ob_scale ob))) (returns_of objs) (map Some (ob_returned ob)) ::
  match savefig cfg objs with
  | Rendered fig =>
      [status_eqb (ob_status ob) StOk;
       list_eqb (drawn_close (ob_scale ob)) (fig_objs fig) (ob_objs ob);
       forallb (obj_mc_ok (ob_scale ob)) objs;
       text_eqb (fig_xlabel fig) (ob_xlabel ob); text_eqb (fig_ylabel fig) (ob_ylabel ob);
       text_eqb (fig_title fig) (ob_title ob);
       option_eqb text_eqb (fig_res_xlabel fig) (ob_res_xlabel ob);
       option_eqb (list_eqb text_eqb) (fig_legend fig) (ob_legend ob)]
  | ErrNoDomain => [status_eqb (ob_status ob) StNoDomain]
  | ErrNoFunctionDomain => [status_eqb (ob_status ob) StNoFunctionDomain]
  | ErrHistogram => [status_eqb (ob_status ob) StHistogram]
  end.
Definition objects_parts (c : settings * list cobj * observation) : list bool :=
  let '(cfg, cobjs, ob) := c in
  let objs := to_objs cobjs (ob_objs ob) in
  match savefig cfg objs with
  | Rendered fig => map2 (drawn_close (ob_scale ob)) (fig_objs fig) (ob_objs ob)
  | _ => []
  end.
