(** C19 -- the Plot as a state machine (histories of plot / hist / fit, switches, x-range, renderings).

    The only mutable state of the implementation that a rendering reads back is the [_xrange] of a
    FunctionOnPlot that was given no x-range of its own: Plot.__prepare_fig overwrites it with the
    plot's x-domain at every rendering, and -- being an ObjectWithRange -- the function then takes
    part in the NEXT computation of that domain with the range left behind by the previous rendering
    (objects may have been added, the plot's x-range set, in between).  This file models that
    faithfully; Proofs/PlotHistory.v shows it can never be observed.  Definitions only. *)
From Coq Require Import List ZArith QArith Bool String.
From QV Require Import Model.PlotBase Gen.PlotGen Model.Plot.
Import ListNotations.
Open Scope Q_scope.

(** an object on the plot together with the x-range a previous rendering left in it
    (meaningful for functions without their own x-range only) *)
Record slot := mk_slot { sl_obj : obj; sl_left : option range }.

(** obj.xrange as the implementation reads it *)
Definition slot_xrange (s : slot) : option range :=
  match sl_obj s with
  | OFunc f => if fo_spec f then fo_range f else sl_left s
  | o => obj_xrange o
  end.

Definition slot_ranges (slots : list slot) : list range :=
  flat_map (fun s => match slot_xrange s with Some r => [r] | None => [] end) slots.

(** Plot.xrange over the objects as they are now *)
Definition impl_domain (cfg : settings) (slots : list slot) : option range :=
  match s_xrange cfg with
  | Some r => Some r
  | None =>
      match bound gen_dom_low (slot_ranges slots), bound gen_dom_high (slot_ranges slots) with
      | Some a, Some b => Some (Qred a, Qred b)
      | _, _ => None
      end
  end.

(** for obj in objects: if it is a function without its own range: obj.xrange = domain *)
Definition assign (dom : range) (s : slot) : slot :=
  match sl_obj s with
  | OFunc f => if fo_spec f then s else {| sl_obj := sl_obj s; sl_left := Some dom |}
  | _ => s
  end.

(** obj.show: a function is evaluated on obj.xrange as it is now *)
Definition draw_slot (cfg : settings) (s : slot) : outcome drawn :=
  match sl_obj s with
  | OFunc f =>
      match slot_xrange s with
      | Some r => Rendered (DrFunc (draw_curve (s_errorbar cfg) (fo_f f) r))
      | None => ErrNoFunctionDomain
      end
  | o => draw_obj cfg (0, 0) o          (* the other kinds never read the plot's domain *)
  end.

Inductive op :=
| Add (o : obj)                                   (* Plot.plot / Plot.hist / Plot.fit *)
| SetXrange (r : range)                           (* plot.xrange = r  (cannot be unset) *)
| Switch (eb res lg : bool)                       (* error_bars / residuals / legend *)
| SetInfo (title xname yname xunit yunit : text)  (* title and label overrides *)
| Render.                                         (* savefig / show *)

Record pstate := mk_pstate {
  ps_cfg : settings;
  ps_slots : list slot;
  ps_last : option (outcome figure) }.            (* what the most recent rendering produced *)

Definition figure_of (cfg : settings) (objs : list obj) (r : outcome (list drawn)) : outcome figure :=
  match r with
  | Rendered ds =>
      Rendered {| fig_objs := ds; fig_has_res_axes := s_residuals cfg;
                  fig_title := s_title cfg; fig_xlabel := xlabel cfg objs; fig_ylabel := ylabel cfg objs;
                  fig_res_xlabel := if s_residuals cfg then Some (xlabel cfg objs) else None;
                  fig_legend := legend cfg objs |}
  | ErrNoDomain => ErrNoDomain
  | ErrNoFunctionDomain => ErrNoFunctionDomain
  | ErrHistogram => ErrHistogram
  end.

Definition pstep (st : pstate) (x : op) : pstate :=
  match x with
  | Add o => {| ps_cfg := ps_cfg st; ps_slots := ps_slots st ++ [{| sl_obj := o; sl_left := None |}];
                ps_last := ps_last st |}
  | SetXrange r =>
      let c := ps_cfg st in
      {| ps_cfg := {| s_errorbar := s_errorbar c; s_residuals := s_residuals c; s_legend := s_legend c;
                      s_xrange := Some r; s_title := s_title c; s_xname := s_xname c; s_yname := s_yname c;
                      s_xunit := s_xunit c; s_yunit := s_yunit c |};
         ps_slots := ps_slots st; ps_last := ps_last st |}
  | Switch eb res lg =>
      let c := ps_cfg st in
      {| ps_cfg := {| s_errorbar := eb; s_residuals := res; s_legend := lg;
                      s_xrange := s_xrange c; s_title := s_title c; s_xname := s_xname c; s_yname := s_yname c;
                      s_xunit := s_xunit c; s_yunit := s_yunit c |};
         ps_slots := ps_slots st; ps_last := ps_last st |}
  | SetInfo t xn yn xu yu =>
      let c := ps_cfg st in
      {| ps_cfg := {| s_errorbar := s_errorbar c; s_residuals := s_residuals c; s_legend := s_legend c;
                      s_xrange := s_xrange c; s_title := t; s_xname := xn; s_yname := yn;
                      s_xunit := xu; s_yunit := yu |};
         ps_slots := ps_slots st; ps_last := ps_last st |}
  | Render =>
      match impl_domain (ps_cfg st) (ps_slots st) with
      | None => {| ps_cfg := ps_cfg st; ps_slots := ps_slots st; ps_last := Some ErrNoDomain |}
      | Some dom =>
          let slots := map (assign dom) (ps_slots st) in
          {| ps_cfg := ps_cfg st; ps_slots := slots;
             ps_last := Some (figure_of (ps_cfg st) (map sl_obj slots)
                                        (sequence (map (draw_slot (ps_cfg st)) slots))) |}
      end
  end.

Definition prun (ops : list op) (st : pstate) : pstate := fold_left pstep ops st.

(** a new Plot() *)
Definition new_plot : pstate :=
  {| ps_cfg := {| s_errorbar := true; s_residuals := false; s_legend := false; s_xrange := None;
                  s_title := []; s_xname := []; s_yname := []; s_xunit := []; s_yunit := [] |};
     ps_slots := []; ps_last := None |}.

(** objects as the constructors make them: a function that was given no x-range has none *)
Definition wf_obj (o : obj) : Prop :=
  match o with OFunc f => fo_spec f = false -> fo_range f = None | _ => True end.
Definition wf_op (x : op) : Prop := match x with Add o => wf_obj o | _ => True end.

(** * Several plots alive at once: a session is a list of (plot number, call) steps; each call acts on
    its own Plot object (the model has no state shared between plots -- that the implementation
    has none either is what the multi-plot correspondence checks) *)
Fixpoint update {A} (i : nat) (f : A -> A) (l : list A) : list A :=
  match l, i with
  | [], _ => []
  | x :: r, O => f x :: r
  | x :: r, S j => x :: update j f r
  end.
Definition sstep (sts : list pstate) (s : nat * op) : list pstate :=
  update (fst s) (fun st => pstep st (snd s)) sts.
Definition srun (steps : list (nat * op)) (sts : list pstate) : list pstate := fold_left sstep steps sts.
(** the calls made on plot i, in order *)
Definition calls_on (i : nat) (steps : list (nat * op)) : list op :=
  map snd (filter (fun s => Nat.eqb (fst s) i) steps).
