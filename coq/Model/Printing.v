(** Model of qexpy/utils/printing.py (value +/- uncertainty formatting) in exact rationals.
    Definitions only.  The two kinds of rounding the code performs -- Python's [round(x)]
    (stage 1, in [__round_values_to_sig_figs]) and ["{:.{d}f}".format(x)] (stage 2) -- and
    the order-of-magnitude function [floor(log10 |x|)] are PARAMETERS of the model;
    the integer arithmetic (exponent of the back-off, number of decimals and its clamp, the
    tolerance of [order_of]) is GENERATED from the source text on every run (Gen/PrintingGen.v:
    [gen_back_off_exp_err], [gen_back_off_exp_val], [gen_decimals_exp], [gen_clamp], [gen_snap_*])
    ([rounders], [ord]); the theorems of Proofs/Printing.v hold for every choice of them that
    rounds to within half a unit, the correspondence runs the model with round-half-even.

    printing.py                               here
    ---------------------------------------   -----------------------------------------
    get_printer(style)                         [printer]
    __default_printer(value, error, latex)     [core None]
    __scientific_printer / __latex_printer     [sci_printer]  ([core (Some order)])
    __round_values_to_sig_figs                 [round_values]
    __find_number_of_decimals, order_of        [find_decimals]   ([None] = math domain error), [order_of]
    the printed string                         [output]: mantissa integers, decimals, exponent *)
From Coq Require Import ZArith QArith Qabs Qround Qpower Bool List.
From QV Require Import Gen.PrintingGen.
Import ListNotations.
Open Scope Q_scope.

Inductive style := Default | Scientific | Latex.
Inductive mode := Auto | ValueMode | ErrorMode.
Record cfg := { c_mode : mode; c_n : Z }.

(** what is printed: [o_sci = false]:  "V pm E";  [o_sci = true]: "(V pm E) * 10^ex".
    V is the integer [o_val] written with [o_dec] digits after the point; E likewise from
    [o_err], except that [o_bare = true] means the uncertainty is printed as the bare "0". *)
Record output := { o_sci : bool; o_latex : bool; o_val : Z; o_err : Z; o_bare : bool;
                   o_dec : Z; o_exp : Z }.

Definition pow10 (k : Z) : Q := (10 # 1) ^ k.

(** the numbers the text reads back as *)
Definition out_value (o : output) : Q := inject_Z (o_val o) / pow10 (o_dec o) * pow10 (o_exp o).
Definition out_error (o : output) : Q := inject_Z (o_err o) / pow10 (o_dec o) * pow10 (o_exp o).
(** unit of the last printed digit *)
Definition out_unit (o : output) : Q := pow10 (o_exp o - o_dec o).

Definition is_zero (x : Q) : bool := Qeq_bool x 0.
Definition uses_error (m : mode) : bool := match m with ValueMode => false | _ => true end.

(** the four rounding sites *)
Record rounders := { r_val : Q -> Z;   (* round(value / back_off)        *)
                     r_err : Q -> Z;   (* round(error / back_off)        *)
                     f_val : Q -> Z;   (* "{:.{d}f}".format(value) * 10^d *)
                     f_err : Q -> Z }. (* "{:.{d}f}".format(error) * 10^d *)

Section Model.
Variable ord : Q -> Z.        (* m.floor(m.log10(abs(x))), x <> 0 *)
Variable rd : rounders.

(** __round_values_to_sig_figs *)
Definition round_values (c : cfg) (v e : Q) : Q * Q :=
  if uses_error (c_mode c) then
    if is_zero e then (v, e)
    else let back_off := pow10 (gen_back_off_exp_err (ord e) (c_n c)) in
         (inject_Z (r_val rd (v / back_off)) * back_off, inject_Z (r_err rd (e / back_off)) * back_off)
  else
    if is_zero v then (v, e)
    else let back_off := pow10 (gen_back_off_exp_val (ord v) (c_n c)) in
         (inject_Z (r_val rd (v / back_off)) * back_off, inject_Z (r_err rd (e / back_off)) * back_off).

(** the local helper [order_of] of __find_number_of_decimals: a number that is less than a
    relative 1e-14 below a power of ten has the order of magnitude of that power of ten *)
Definition snap_factor : Q := gen_snap_factor.          (* 1 - 1e-14 in the source today *)
Definition order_of (x : Q) : Z :=
  let result := ord x in
  if Qle_bool (pow10 (gen_snap_next result) * snap_factor) (Qabs x) then gen_snap_bump result else result.

(** __find_number_of_decimals; [None] when log10 is applied to 0 *)
Definition find_decimals (c : cfg) (v e : Q) : option Z :=
  let ref := if uses_error (c_mode c)
             then (if is_zero e then v else e)
             else (if is_zero v then e else v) in
  if is_zero ref then None
  else Some (gen_clamp (gen_decimals_exp (order_of ref) (c_n c))).

(** division by 10**order in the scientific printer; absent in the default printer *)
Definition conv (ex : option Z) (x : Q) : Q :=
  match ex with None => x | Some k => x / pow10 k end.
Definition expo (ex : option Z) : Z := match ex with None => 0%Z | Some k => k end.

(** common tail of __default_printer ([ex = None]) and __scientific_printer ([ex = Some order]) *)
Definition core (latex : bool) (ex : option Z) (c : cfg) (v e : Q) : option output :=
  let '(rv, re) := round_values c v e in
  let cv := conv ex rv in
  let ce := conv ex re in
  match find_decimals c cv ce with
  | None => None
  | Some d =>
      Some {| o_sci := match ex with None => false | Some _ => true end; o_latex := latex;
              o_val := f_val rd (cv * pow10 d);
              o_err := if is_zero e then 0%Z else f_err rd (ce * pow10 d);
              o_bare := is_zero e; o_dec := d; o_exp := expo ex |}
  end.

Definition zero_output (latex : bool) : output :=
  {| o_sci := false; o_latex := latex; o_val := 0; o_err := 0; o_bare := true; o_dec := 0; o_exp := 0 |}.

Definition default_printer (latex : bool) (c : cfg) (v e : Q) : option output :=
  if is_zero v && is_zero e then Some (zero_output latex) else core latex None c v e.

Definition sci_printer (latex : bool) (c : cfg) (v e : Q) : option output :=
  if is_zero v && is_zero e then Some (zero_output latex)
  else let order := ord (if is_zero v then e else v) in
       if (order =? 0)%Z then default_printer latex c v e
       else core latex (Some order) c v e.

(** get_printer(style)(value, error) *)
Definition printer (s : style) (c : cfg) (v e : Q) : option output :=
  match s with
  | Default => default_printer false c v e
  | Scientific => sci_printer false c v e
  | Latex => sci_printer true c v e
  end.
End Model.

(** ** The executable instance *)

(** floor(log10 |x|) by repeated multiplication; fuel from the binary size *)
Fixpoint ord_up (fuel : nat) (a b k : Z) : Z :=       (* b <= a: largest k' with b*10^(k'-k) <= a *)
  match fuel with
  | O => k
  | S f => if (b * 10 <=? a)%Z then ord_up f a (b * 10)%Z (k + 1)%Z else k
  end.
Fixpoint ord_down (fuel : nat) (a b k : Z) : Z :=     (* a < b: multiply a until it reaches b *)
  match fuel with
  | O => k
  | S f => if (a <? b)%Z then ord_down f (a * 10)%Z b (k - 1)%Z else k
  end.
Definition order (x : Q) : Z :=
  let a := Z.abs (Qnum x) in
  let b := Zpos (Qden x) in
  if (b <=? a)%Z then ord_up (S (Z.to_nat (Z.log2 a))) a b 0
  else ord_down (S (Z.to_nat (Z.log2 b))) a b 0.

(** round half to even (Python's round(float) -> int and the exact-tie rule of format) *)
Definition round_half_even (x : Q) : Z :=
  let f := Qfloor x in
  let r := x - inject_Z f in
  match Qcompare r (1 # 2) with
  | Lt => f
  | Gt => (f + 1)%Z
  | Eq => if Z.even f then f else (f + 1)%Z
  end.

Definition rhe : rounders :=
  {| r_val := round_half_even; r_err := round_half_even; f_val := round_half_even; f_err := round_half_even |}.

(** [near_tie x]: the fractional part of x is within 2^-47 |x| of 1/2 -- a binary-float
    computation of x (three to six roundings of relative size 2^-53) can land on either side *)
Definition tie_tol (x : Q) : Q := (Qabs x + 1) * (1 # 140737488355328).
Definition near_tie (x : Q) : bool :=
  Qle_bool (Qabs (x - inject_Z (Qfloor x) - (1 # 2))) (tie_tol x).
Definition round_choice (up : bool) (x : Q) : Z :=
  if near_tie x then (if up then Qfloor x + 1 else Qfloor x)%Z else round_half_even x.

Definition rd_choice (a b c d : bool) : rounders :=
  {| r_val := round_choice a; r_err := round_choice b; f_val := round_choice c; f_err := round_choice d |}.

Definition print_exact := printer order rhe.
Definition print_choice (a b c d : bool) := printer order (rd_choice a b c d).
