(** Checkers evaluated by the generated C09 case files: the implementation's parsed output
    against [print_exact] (round-half-even everywhere) and, when a rounding argument is within
    float noise of a tie, against the set of outputs for the two roundings of that step. *)
From Coq Require Import ZArith QArith Bool List.
From QV Require Import Base.CaseLib Model.Printing Model.PrintingObj.
Import ListNotations.

(** what the harness parsed from the printed text: the output fields plus the number of decimals
    of the uncertainty (which must equal that of the value unless it is the bare "0") *)
Definition obs := option (output * Z).

Definition output_eqb (a b : output) : bool :=
  Bool.eqb (o_sci a) (o_sci b) && Bool.eqb (o_latex a) (o_latex b) && (o_val a =? o_val b)%Z &&
  (o_err a =? o_err b)%Z && (o_dec a =? o_dec b)%Z && (o_exp a =? o_exp b)%Z.

(** [o_bare] is not observable by itself: the bare "0" and a zero formatted with no decimals are the
    same text; it is observed through the number of decimals of the uncertainty *)
Definition agrees (m : option output) (x : obs) : bool :=
  match m, x with
  | None, None => true
  | Some o, Some (o', de) => output_eqb o o' && (de =? (if o_bare o then 0 else o_dec o))%Z
  | _, _ => false
  end.

(** one pair, printed under several configurations *)
Definition pcase := (Q * Q * list (style * mode * Z * obs))%type.

Definition bools := [false; true].
Definition choices : list (bool * bool * bool * bool) :=
  flat_map (fun a => flat_map (fun b => flat_map (fun c => map (fun d => (a, b, c, d)) bools) bools) bools) bools.

Definition check_exact1 (v e : Q) (k : style * mode * Z * obs) : bool :=
  let '(s, m, n, x) := k in agrees (print_exact s {| c_mode := m; c_n := n |} v e) x.
Definition check_any1 (v e : Q) (k : style * mode * Z * obs) : bool :=
  (* [if], not [||]: vm_compute is call-by-value and would evaluate the 16 alternatives every time *)
  if check_exact1 v e k then true
  else let '(s, m, n, x) := k in
       existsb (fun ch => let '(a, b, c, d) := ch in
                          agrees (print_choice a b c d s {| c_mode := m; c_n := n |} v e) x) choices.

(** per pair: the indices of the configurations that disagree *)
Definition bad_exact (c : pcase) : list nat := let '(v, e, ks) := c in bad_indices (check_exact1 v e) ks.
Definition bad_any (c : pcase) : list nat := let '(v, e, ks) := c in bad_indices (check_any1 v e) ks.

(** flattened report: (pair index, configuration index) *)
Fixpoint report_aux (f : pcase -> list nat) (l : list pcase) (i : nat) : list (nat * nat) :=
  match l with
  | [] => []
  | c :: l' => map (fun j => (i, j)) (f c) ++ report_aux f l' (S i)
  end.
Definition report (f : pcase -> list nat) (l : list pcase) := report_aux f l 0.

(** ** object histories: the model state follows the operations, every observed print is compared
    with the printer of the model's CURRENT state *)
Definition hcase := (ostate * list (oop * obs))%type.

Fixpoint check_hist (any : bool) (st : ostate) (l : list (oop * obs)) (i : nat) : list nat :=
  match l with
  | [] => []
  | (op, x) :: l' =>
      match op with
      | OPrint =>
          let k := (s_style st, c_mode (s_cfg st), c_n (s_cfg st), x) in
          let ok := if any then check_any1 (s_value st) (s_error st) k else check_exact1 (s_value st) (s_error st) k in
          (if ok then [] else [i]) ++ check_hist any st l' (S i)
      | _ => check_hist any (step st op) l' (S i)
      end
  end.
Definition bad_hist_exact (c : hcase) : list nat := check_hist false (fst c) (snd c) 0.
Definition bad_hist_any (c : hcase) : list nat := check_hist true (fst c) (snd c) 0.

Fixpoint hreport_aux (f : hcase -> list nat) (l : list hcase) (i : nat) : list (nat * nat) :=
  match l with
  | [] => []
  | c :: l' => map (fun j => (i, j)) (f c) ++ hreport_aux f l' (S i)
  end.
Definition hreport (f : hcase -> list nat) (l : list hcase) := hreport_aux f l 0.
