(** Model of a measurement OBJECT being printed over a history of public operations (C09):
    qexpy.data.MeasuredValue / RepeatedlyMeasuredValue hold a current value and uncertainty;
    the setters and the use_* selectors change them; str / repr / print_value_error print the
    CURRENT pair with the printer selected by the CURRENT settings.  Definitions only. *)
From Coq Require Import ZArith QArith Qabs Bool List.
From QV Require Import Model.Printing.
Import ListNotations.
Open Scope Q_scope.

(** statistics of a repeated measurement, fixed at construction (None = not available / NaN) *)
Record stats := { st_std : Q; st_eom : Q; st_ewm : option Q; st_prop : option Q }.

Record ostate := { s_value : Q; s_error : Q; s_stats : option stats;   (* None: a single measurement *)
                   s_style : style; s_cfg : cfg }.

Inductive oop :=
| OConfig (s : style) (m : mode) (n : Z)   (* set_print_style + set_sig_figs_for_* / sig_fig_value *)
| OPrint                                   (* str(x), repr(x), x.print_value_error(), "{}".format(x) *)
| OSetValue (x : Q)                        (* x.value = ...  (a repeated measurement becomes a single one) *)
| OSetError (x : Q)                        (* x.error = ... *)
| OSetRel (r : Q)                          (* x.relative_error = r  ->  |value| * r *)
| OUseStd | OUseEom | OUseEwm | OUseProp.  (* use_std_for_uncertainty() ... ; no-ops on a single measurement
                                              (the methods do not exist there; the harness does not count them) *)

Definition with_ve (st : ostate) (v e : Q) : ostate :=
  {| s_value := v; s_error := e; s_stats := s_stats st; s_style := s_style st; s_cfg := s_cfg st |}.

Definition step (st : ostate) (op : oop) : ostate :=
  match op with
  | OConfig s m n => {| s_value := s_value st; s_error := s_error st; s_stats := s_stats st;
                        s_style := s; s_cfg := {| c_mode := m; c_n := n |} |}
  | OPrint => st
  | OSetValue x => {| s_value := x; s_error := s_error st; s_stats := None; s_style := s_style st; s_cfg := s_cfg st |}
  | OSetError x => with_ve st (s_value st) x
  | OSetRel r => with_ve st (s_value st) (Qabs (s_value st) * r)
  | OUseStd => match s_stats st with Some k => with_ve st (s_value st) (st_std k) | None => st end
  | OUseEom => match s_stats st with Some k => with_ve st (s_value st) (st_eom k) | None => st end
  | OUseEwm => match s_stats st with
               | Some k => match st_ewm k with Some x => with_ve st x (s_error st) | None => st end
               | None => st end
  | OUseProp => match s_stats st with
                | Some k => match st_prop k with Some x => with_ve st (s_value st) x | None => st end
                | None => st end
  end.

Section Obj.
Variable ord : Q -> Z.
Variable rd : rounders.

(** what one print shows: the printer of the current settings on the current pair *)
Definition print_now (st : ostate) : option output :=
  printer ord rd (s_style st) (s_cfg st) (s_value st) (s_error st).

(** the texts printed along a history, with the state each was printed in *)
Fixpoint run (st : ostate) (ops : list oop) : list (ostate * option output) :=
  match ops with
  | [] => []
  | OPrint :: ops' => (st, print_now st) :: run st ops'
  | op :: ops' => run (step st op) ops'
  end.
End Obj.

(** the domain of histories: uncertainties that are assigned or selected are never negative,
    1 <= n <= 13 *)
Definition stats_ok (k : stats) : Prop :=
  0 <= st_std k /\ 0 <= st_eom k /\ match st_prop k with Some x => 0 <= x | None => True end.
Definition op_ok (op : oop) : Prop :=
  match op with
  | OConfig _ _ n => (1 <= n <= 13)%Z
  | OSetError x => 0 <= x
  | OSetRel r => 0 <= r
  | _ => True
  end.
Definition state_ok (st : ostate) : Prop :=
  0 <= s_error st /\ (1 <= c_n (s_cfg st) <= 13)%Z /\
  match s_stats st with Some k => stats_ok k | None => True end.
