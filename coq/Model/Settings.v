(** Hand-written part of the settings model: operations of the public API, the
    documented domains (the SPEC, written from the property text), observations.
    The setters themselves are GENERATED from qexpy/settings/settings.py (Gen/SettingsGen.v). *)
From Coq Require Import List ZArith QArith Bool String.
From QV Require Import Base.Py Gen.SettingsGen.
Import ListNotations.
Open Scope string_scope.

Inductive opt := O_error_method | O_print_style | O_unit_style | O_sf_value | O_sf_error
               | O_mc_size | O_plot_dims.

Inductive op := Set_ (o : opt) (v : pv) | Reset.

Definition apply (o : opt) (v : pv) : stmt :=
  match o with
  | O_error_method => api_set_error_method v
  | O_print_style => api_set_print_style v
  | O_unit_style => api_set_unit_style v
  | O_sf_value => api_set_sig_figs_for_value v
  | O_sf_error => api_set_sig_figs_for_error v
  | O_mc_size => api_set_monte_carlo_sample_size v
  | O_plot_dims => api_set_plot_dimensions v
  end.

Definition step (s : store) (x : op) : store * option exn :=
  match x with
  | Set_ o v => apply o v s
  | Reset => api_reset_default_configuration s
  end.

(** a history: the state after each call, exceptions do not stop the session *)
Definition run (ops : list op) (s : store) : store := fold_left (fun st x => fst (step st x)) ops s.

(** ---- SPEC: the documented values of each option (from the property text) ---- *)
Definition str_in (s : string) (l : list string) : bool := existsb (String.eqb s) l.

Definition enum_member (cls : string) (names : list string) (values : list string) (v : pv) : bool :=
  match v with
  | PEnum c n => String.eqb c cls && str_in n names
  | PStr s => str_in s values
  | _ => false
  end.

Definition positive_int (v : pv) : bool :=
  match v with
  | PInt z => Z.ltb 0 z
  | PBool b => b                      (* Python: True is the integer 1 *)
  | _ => false
  end.

Definition positive_number (v : pv) : bool :=
  match v with
  | PFloat q => negb (Qle_bool q 0)
  | _ => positive_int v
  end.

Definition documented (o : opt) (v : pv) : bool :=
  match o with
  | O_error_method => enum_member "ErrorMethod" ["DERIVATIVE"; "MONTE_CARLO"] ["derivative"; "monte-carlo"] v
  | O_print_style => enum_member "PrintStyle" ["DEFAULT"; "LATEX"; "SCIENTIFIC"] ["default"; "latex"; "scientific"] v
  | O_unit_style => enum_member "UnitStyle" ["FRACTION"; "EXPONENTS"] ["fraction"; "exponents"] v
  | O_sf_value | O_sf_error | O_mc_size => positive_int v
  | O_plot_dims => match v with
                   | PTuple [a; b] => positive_number a && positive_number b
                   | _ => false
                   end
  end.

(** values that exist in a Python session: an enum value is one of the declared members;
    the AUTO error method is outside the property's domain *)
Definition real_enum (v : pv) : bool :=
  match v with
  | PEnum c n =>
      (String.eqb c "ErrorMethod" && str_in n ["DERIVATIVE"; "MONTE_CARLO"; "AUTO"])
      || (String.eqb c "PrintStyle" && str_in n ["DEFAULT"; "LATEX"; "SCIENTIFIC"])
      || (String.eqb c "UnitStyle" && str_in n ["FRACTION"; "EXPONENTS"])
      || (String.eqb c "SigFigMode" && str_in n ["AUTOMATIC"; "VALUE"; "ERROR"])
  | _ => true
  end.
Definition in_domain (v : pv) : bool :=
  real_enum v && negb (py_eq v (PEnum "ErrorMethod" "AUTO")).

(** the stored (canonical) form of an accepted value *)
Definition canon_enum (cls : string) (tbl : list (string * string)) (v : pv) : pv :=
  match v with
  | PStr s => match find (fun p => String.eqb (snd p) s) tbl with
              | Some (n, _) => PEnum cls n
              | None => v end
  | _ => v
  end.

Definition canon (o : opt) (v : pv) : pv :=
  match o with
  | O_error_method => canon_enum "ErrorMethod" [("DERIVATIVE", "derivative"); ("MONTE_CARLO", "monte-carlo")] v
  | O_print_style => canon_enum "PrintStyle" [("DEFAULT", "default"); ("LATEX", "latex"); ("SCIENTIFIC", "scientific")] v
  | O_unit_style => canon_enum "UnitStyle" [("FRACTION", "fraction"); ("EXPONENTS", "exponents")] v
  | _ => v
  end.

(** what an accepted request writes: key/value pairs *)
Definition writes (o : opt) (v : pv) : list (string * pv) :=
  match o with
  | O_error_method => [("error_method", canon o v)]
  | O_print_style => [("print_style", canon o v)]
  | O_unit_style => [("unit_style", canon o v)]
  | O_sf_value => [("significant_figures.value", v); ("significant_figures.mode", PEnum "SigFigMode" "VALUE")]
  | O_sf_error => [("significant_figures.value", v); ("significant_figures.mode", PEnum "SigFigMode" "ERROR")]
  | O_mc_size => [("monte_carlo_sample_size", v)]
  | O_plot_dims => [("plot_dimensions", v)]
  end.

Definition keys (s : store) : list string := map fst s.

(** ---- temporary override: use_mc_sample_size(size)(func)(args) ----
    [func] is the wrapped computation: an arbitrary state transformer that returns or raises.
    The shape flag is generated from the source of the wrapper. *)
Definition restore (temp : pv) (s2 : store) (r : res pv) : store * res pv :=
  match api_set_monte_carlo_sample_size temp s2 with
  | (s3, Some e) => (s3, Raise e)
  | (s3, None) => (s3, r)
  end.

Definition wrapper (func : store -> store * res pv) (size : pv) (s : store) : store * res pv :=
  match get_monte_carlo_sample_size s with
  | Raise e => (s, Raise e)
  | Ok temp =>
    match api_set_monte_carlo_sample_size size s with
    | (s1, Some e) => (s1, Raise e)
    | (s1, None) =>
      let '(s2, r) := func s1 in
      if wrapper_restores_in_finally then restore temp s2 r
      else match r with
           | Raise e => (s2, Raise e)          (* the restoring call is skipped *)
           | Ok _ => restore temp s2 r
           end
    end
  end.

(** the wrapped function entered again [d] times while it is running (recursion, a curve defined through another curve):
    every level is one more application of the wrapper *)
Fixpoint nest (d : nat) (f : store -> store * res pv) (size : pv) : store -> store * res pv :=
  match d with O => f | S d' => wrapper (nest d' f size) size end.

(** ---- comparison with observations of the implementation ---- *)
Fixpoint store_eqb (a b : store) : bool :=
  match a, b with
  | [], [] => true
  | (k, v) :: a', (k', v') :: b' => String.eqb k k' && py_eq v v' && store_eqb a' b'
  | _, _ => false
  end.
(** py_eq identifies True with 1 and 1.0; the observation also records the Python type tag *)
Definition tag (v : pv) : nat :=
  match v with PNone => 0 | PBool _ => 1 | PInt _ => 2 | PFloat _ => 3 | PStr _ => 4
             | PEnum _ _ => 5 | PTuple _ => 6 | PList _ => 7 end.
Fixpoint tags (v : pv) : list nat :=
  match v with
  | PTuple l | PList l => tag v :: flat_map tags l
  | _ => [tag v]
  end.
Fixpoint store_tags (a : store) : list (list nat) := map (fun p => tags (snd p)) a.

Definition exn_eqb (a b : option exn) : bool :=
  match a, b with
  | None, None => true
  | Some ValueError, Some ValueError | Some TypeError, Some TypeError
  | Some IndexError, Some IndexError | Some KeyError, Some KeyError
  | Some OtherError, Some OtherError => true
  | _, _ => false
  end.
