(** Executable comparison of the settings model with observations of the implementation. *)
From Coq Require Import List ZArith QArith Bool String.
From QV Require Import Base.Py Base.CaseLib Gen.SettingsGen Model.Settings.
Import ListNotations.
Open Scope string_scope.

Definition obs_eqb (model obs : store) : bool :=
  store_eqb model obs && list_eqb (list_eqb Nat.eqb) (store_tags model) (store_tags obs).

Fixpoint check_history (s : store) (h : list (op * option exn * store)) : bool :=
  match h with
  | [] => true
  | (x, e, obs) :: h' =>
      let '(s1, e1) := step s x in
      exn_eqb e1 e && obs_eqb s1 obs && check_history s1 h'
  end.

(** a session: the vector of a fresh interpreter, then a history *)
Definition check_session (c : store * list (op * option exn * store)) : bool :=
  obs_eqb init_cfg (fst c) && check_history init_cfg (snd c).

(** temporary override: start history, requested size, what the wrapped function does
    (optionally sets the sample size itself, then returns or raises), observation *)
Definition wfunc (inner : option pv) (raises : option exn) : store -> store * res pv :=
  fun s =>
    let '(s1, e1) := match inner with
                     | Some k => api_set_monte_carlo_sample_size k s
                     | None => (s, None) end in
    match e1 with
    | Some x => (s1, Raise x)
    | None => match raises with Some x => (s1, Raise x) | None => (s1, Ok (PInt 1)) end
    end.

Definition check_wrapper (c : list op * pv * nat * option pv * option exn * option exn * store) : bool :=
  let '(start, size, depth, inner, raises, e_obs, obs) := c in
  let s0 := run start init_cfg in
  let '(s1, r) := wrapper (nest depth (wfunc inner raises) size) size s0 in
  exn_eqb (match r with Ok _ => None | Raise x => Some x end) e_obs && obs_eqb s1 obs.

(** observations are transmitted as the values only, in the key order of [init_cfg] *)
Definition mk_obs (l : list pv) : store := combine (map fst init_cfg) l.
