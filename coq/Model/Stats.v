(** Statistics of a repeatedly measured quantity, in exact rational arithmetic.
    Definitions only (lemmas: Proofs/Stats.v).

    Two layers:
    - the TEXTBOOK definitions ([t_mean], [t_var], ...) written from the property text;
    - the MODEL of the code ([c_mean], [c_var], ... and the record [rmv] with its selector
      state machine), written after the structure of qexpy/data/data.py
      (RepeatedlyMeasuredValue), qexpy/data/datasets.py (ExperimentalValueArray.mean / std /
      error_on_mean / error_weighted_mean / propagated_error) and qexpy/utils/utils.py
      (calculate_covariance).
    Square roots do not exist in Q: every uncertainty is carried as its SQUARE
    ([..._sq]); the correspondence compares the squares of what the code reports. *)
From Coq Require Import List ZArith QArith Qabs Bool.
Import ListNotations.
Open Scope Q_scope.

(** ---- list helpers ---------------------------------------------------------------- *)
(** addition with the result in lowest terms: the same rational number as x + y ([qadd_eq], Proofs/Stats.v);
    keeps the numerals short when the model is executed on the doubles of a case file *)
Definition qadd (x y : Q) : Q := Qred (x + y).
Arguments qadd : simpl never.

Fixpoint qsum (l : list Q) : Q :=
  match l with [] => 0 | x :: l' => qadd x (qsum l') end.

Definition qlen {A} (l : list A) : Q := inject_Z (Z.of_nat (length l)).

Fixpoint map2 {A B C} (f : A -> B -> C) (l : list A) (m : list B) : list C :=
  match l, m with
  | x :: l', y :: m' => f x y :: map2 f l' m'
  | _, _ => []
  end.

Definition sq (x : Q) : Q := x * x.

(** ---- TEXTBOOK definitions (the specification) ------------------------------------- *)
Definition t_mean (xs : list Q) : Q := qsum xs / qlen xs.
(** sum of squared deviations about [m], of cross deviations about [mx], [my] *)
Definition dev2 (m : Q) (xs : list Q) : Q := qsum (map (fun x => sq (x - m)) xs).
Definition devxy (mx my : Q) (xs ys : list Q) : Q :=
  qsum (map2 (fun x y => (x - mx) * (y - my)) xs ys).
Definition t_var (xs : list Q) : Q := dev2 (t_mean xs) xs / (qlen xs - 1).   (* std^2, n-1 denominator *)
Definition t_eom_sq (xs : list Q) : Q := t_var xs / qlen xs.                  (* (std/sqrt n)^2 *)
Definition t_wsum (ss : list Q) : Q := qsum (map (fun s => 1 / sq s) ss).     (* sum 1/s_i^2 *)
Definition t_wmean (xs ss : list Q) : Q :=
  qsum (map2 (fun x s => x / sq s) xs ss) / t_wsum ss.                       (* sum(x_i/s_i^2)/sum(1/s_i^2) *)
Definition t_perr_sq (ss : list Q) : Q := 1 / t_wsum ss.                      (* (1/sqrt(sum 1/s_i^2))^2 *)
Definition t_cov (xs ys : list Q) : Q :=
  devxy (t_mean xs) (t_mean ys) xs ys / (qlen xs - 1).                       (* sample covariance *)

(** ---- MODEL of the code ---------------------------------------------------------------
    np.mean(values) *)
Definition c_mean (xs : list Q) : Q := qsum xs / qlen xs.
(** np.std(values, ddof=1) ** 2 : mean of |x - mean|^2 with divisor n - ddof *)
Definition c_var (ddof : Q) (xs : list Q) : Q :=
  let m := c_mean xs in qsum (map (fun x => Qabs (x - m) * Qabs (x - m)) xs) / (qlen xs - ddof).
(** error_on_mean: self.std() / sqrt(self.size), squared *)
Definition c_eom_sq (xs : list Q) : Q := c_var 1 xs / qlen xs.
(** weights = 1 / err**2 ; error_weighted_mean = sum(weights * values) / sum(weights);
    both statistics are "not valid" (nan + warning) when any individual error is 0 *)
Definition c_weights (ss : list Q) : list Q := map (fun e => 1 / (e * e)) ss.
Definition c_weights_valid (ss : list Q) : bool := forallb (fun e => negb (Qeq_bool e 0)) ss.
Definition c_wmean (xs ss : list Q) : Q :=
  qsum (map2 Qmult (c_weights ss) xs) / qsum (c_weights ss).
(** propagated_error: 1 / sqrt(sum(weights)), squared *)
Definition c_perr_sq (ss : list Q) : Q := 1 / qsum (c_weights ss).
(** utils.calculate_covariance: 1/(n-1) * sum((x - mean x)(y - mean y) for x, y in zip) ;
    [None] = ValueError (different lengths) *)
Definition c_cov (xs ys : list Q) : option Q :=
  if Nat.eqb (length xs) (length ys)
  then Some (1 / (qlen xs - 1) * qsum (map2 (fun x y => (x - c_mean xs) * (y - c_mean ys)) xs ys))
  else None.

(** RepeatedlyMeasuredValue: readings, individual uncertainties (all 0 when none were
    given, all equal for a common uncertainty), the value and the SQUARE of the
    uncertainty currently in use *)
Record rmv := { r_xs : list Q; r_ss : list Q; r_value : Q; r_err_sq : Q }.

(** the constructor: value = mean, uncertainty = error on the mean *)
Definition rmv_new (xs ss : list Q) : rmv :=
  {| r_xs := xs; r_ss := ss; r_value := c_mean xs; r_err_sq := c_eom_sq xs |}.

Inductive sel := UseStd | UseEom | UseEwm | UsePerr.

(** the four use_* methods; the bool is "a warning was issued" (statistic not valid) *)
Definition sel_step (r : rmv) (o : sel) : rmv * bool :=
  match o with
  | UseStd => ({| r_xs := r_xs r; r_ss := r_ss r; r_value := r_value r; r_err_sq := c_var 1 (r_xs r) |}, false)
  | UseEom => ({| r_xs := r_xs r; r_ss := r_ss r; r_value := r_value r; r_err_sq := c_eom_sq (r_xs r) |}, false)
  | UseEwm => if c_weights_valid (r_ss r)
              then ({| r_xs := r_xs r; r_ss := r_ss r; r_value := c_wmean (r_xs r) (r_ss r);
                       r_err_sq := r_err_sq r |}, false)
              else (r, true)
  | UsePerr => if c_weights_valid (r_ss r)
               then ({| r_xs := r_xs r; r_ss := r_ss r; r_value := r_value r;
                        r_err_sq := c_perr_sq (r_ss r) |}, false)
               else (r, true)
  end.

Definition sel_run (ops : list sel) (r : rmv) : rmv := fold_left (fun st o => fst (sel_step st o)) ops r.

(** the statistics an observer reads off an object (all independent of the selectors) *)
Definition r_mean (r : rmv) := c_mean (r_xs r).
Definition r_std_sq (r : rmv) := c_var 1 (r_xs r).
Definition r_eom_sq (r : rmv) := c_eom_sq (r_xs r).
Definition r_wmean (r : rmv) : option Q :=
  if c_weights_valid (r_ss r) then Some (c_wmean (r_xs r) (r_ss r)) else None.
Definition r_perr_sq (r : rmv) : option Q :=
  if c_weights_valid (r_ss r) then Some (c_perr_sq (r_ss r)) else None.

(** ---- specification of the selector histories: last selector of each group wins ------- *)
Definition is_err_sel (o : sel) : bool := match o with UseEwm => false | _ => true end.
(** selectors that have an effect on an object with uncertainties [ss] *)
Definition effective (ss : list Q) (o : sel) : bool :=
  match o with UseStd | UseEom => true | UseEwm | UsePerr => c_weights_valid ss end.
Fixpoint last_such {A} (p : A -> bool) (l : list A) : option A :=
  match l with
  | [] => None
  | x :: l' => match last_such p l' with Some y => Some y | None => if p x then Some x else None end
  end.
Definition spec_value (xs ss : list Q) (ops : list sel) : Q :=
  match last_such (fun o => negb (is_err_sel o) && effective ss o) ops with
  | Some _ => t_wmean xs ss
  | None => t_mean xs
  end.
Definition spec_err_sq (xs ss : list Q) (ops : list sel) : Q :=
  match last_such (fun o => is_err_sel o && effective ss o) ops with
  | Some UseStd => t_var xs
  | Some UsePerr => t_perr_sq ss
  | _ => t_eom_sq xs
  end.

(** the constructor's validation of individual uncertainties: one per reading, none negative
    (RepeatedlyMeasuredValue.__init__ / _get_error_array_helper raise ValueError otherwise) *)
Definition rmv_make (xs ss : list Q) : option rmv :=
  if Nat.eqb (length xs) (length ss) && forallb (fun e => Qle_bool 0 e) ss then Some (rmv_new xs ss) else None.

(** what a later first-order propagation d = k * a + c reads off the object: value k * value + c and
    (uncertainty)^2 = k^2 * uncertainty^2 *)
Definition lin_value (k c : Q) (r : rmv) : Q := k * r_value r + c.
Definition lin_err_sq (k : Q) (r : rmv) : Q := k * k * r_err_sq r.

(** Monte Carlo propagation (MonteCarloEvaluator.__compute_samples / _generate_random_data_set): the data set
    of a source measurement is  offsets * measurement.error + measurement.value  -- the uncertainty and value
    IN USE, not the raw-data standard deviation -- and the formula is evaluated on the data sets.
    [v], [e]: value and uncertainty in use; [o]: one standard-normal offset.  d = k * a + c and d = a * a *)
Definition mc_lin (k c v e o : Q) : Q := k * (o * e + v) + c.
Definition mc_sq (v e o : Q) : Q := (o * e + v) * (o * e + v).
