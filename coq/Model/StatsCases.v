(** Executable comparison of the repeated-measurement statistics model with observations of the
    implementation.  Uncertainties are compared through their squares (no square roots in Q). *)
From Coq Require Import List ZArith QArith Qabs Bool.
From QV Require Import Base.CaseLib Model.Stats.
Import ListNotations.
Open Scope Q_scope.

Definition tol : Q := 1 # 1000000000.
(** absolute tolerances are only ever used for sums that may cancel: 1e-12 x the magnitude of the summands *)
Definition ctol : Q := 1 # 1000000000000.
Definition close (a b : Q) : bool := Qclose tol 0 a b.
(** observed double [e] (an uncertainty, so >= 0) against the model's square *)
Definition close_sqrt (sq_model e : Q) : bool := Qle_bool 0 e && Qclose (2 * tol) 0 sq_model (e * e).

Definition close_opt_sqrt (m : option Q) (o : option Q) : bool :=
  match m, o with
  | Some x, Some y => close_sqrt x y
  | None, None => true
  | _, _ => false
  end.
Definition close_opt (m : option Q) (o : option Q) : bool :=
  match m, o with
  | Some x, Some y => close x y
  | None, None => true
  | _, _ => false
  end.

(** what the harness reads off an object: raw readings, mean, std, error_on_mean,
    error_weighted_mean, propagated_error (None = nan + warning), value, error *)
Record obs := { o_raw : list Q; o_mean : Q; o_std : Q; o_eom : Q; o_wmean : option Q; o_perr : option Q;
                o_value : Q; o_error : Q }.

(** mean-like numbers may cancel to (nearly) 0: absolute tolerance 1e-12 x the mean magnitude of the readings *)
Definition mean_abs (xs : list Q) : Q := qsum (map Qabs xs) / qlen xs.
Definition close_mean (xs : list Q) (a b : Q) : bool := Qclose tol (ctol * mean_abs xs) a b.
Definition close_mean_opt (xs : list Q) (m o : option Q) : bool :=
  match m, o with
  | Some x, Some y => close_mean xs x y
  | None, None => true
  | _, _ => false
  end.

Definition check_obs (r : rmv) (o : obs) : bool :=
  list_eqb Qeq_bool (r_xs r) (o_raw o)
  && close_mean (r_xs r) (r_mean r) (o_mean o) && close_sqrt (r_std_sq r) (o_std o) && close_sqrt (r_eom_sq r) (o_eom o)
  && close_mean_opt (r_xs r) (r_wmean r) (o_wmean o) && close_opt_sqrt (r_perr_sq r) (o_perr o)
  && close_mean (r_xs r) (r_value r) (o_value o) && close_sqrt (r_err_sq r) (o_error o).

(** a selector history: after each use_* call (selector, warned, what is read, and the value and
    uncertainty of k * a + c computed by the derivative method afterwards) *)
(** Monte Carlo samples retrieved after a propagation with injected offsets: every sample of k*a+c and of a*a
    is the formula evaluated at  offset * (uncertainty in use) + (value in use), where value and uncertainty are
    the numbers just read off the object (tied to the model by [check_obs]); only double rounding is allowed *)
Definition mctol : Q := 1 # 1000000000000.
Fixpoint check_mc_lin (k c v e : Q) (offs samples : list Q) : bool :=
  match offs, samples with
  | [], [] => true
  | o :: offs', s :: samples' =>
      Qle_bool (Qabs (mc_lin k c v e o - s)) (mctol * (Qabs (k * o * e) + Qabs (k * v) + Qabs c))
      && check_mc_lin k c v e offs' samples'
  | _, _ => false
  end.
Fixpoint check_mc_sq (v e : Q) (offs samples : list Q) : bool :=
  match offs, samples with
  | _, [] => true                              (* the harness retrieves a prefix *)
  | o :: offs', s :: samples' =>
      Qle_bool (Qabs (mc_sq v e o - s)) (mctol * ((Qabs (o * e) + Qabs v) * (Qabs (o * e) + Qabs v)))
      && check_mc_sq v e offs' samples'
  | [], _ :: _ => false
  end.
Definition check_mc (k c : Q) (ob : obs) (offs : list Q) (mc : list Q * list Q) : bool :=
  check_mc_lin k c (o_value ob) (o_error ob) offs (fst mc) && check_mc_sq (o_value ob) (o_error ob) offs (snd mc).

Fixpoint check_sels (k c : Q) (offs : list Q) (r : rmv) (h : list (sel * bool * obs * (Q * Q) * (list Q * list Q))) : bool :=
  match h with
  | [] => true
  | (o, warned, ob, (dv, de), mc) :: h' =>
      let '(r1, w) := sel_step r o in
      Bool.eqb w warned && check_obs r1 ob
      && Qclose tol (ctol * (Qabs k * mean_abs (r_xs r1) + Qabs (k * r_value r1) + Qabs c)) (lin_value k c r1) dv && close_sqrt (lin_err_sq k r1) de
      && check_mc k c ob offs mc
      && check_sels k c offs r1 h'
  end.

(** case: readings, individual uncertainties, what a fresh object reads, k, c, injected offsets, the Monte Carlo
    samples of the fresh object, history *)
Definition check_rmv (c : list Q * list Q * obs * (Q * Q) * list Q * (list Q * list Q)
                          * list (sel * bool * obs * (Q * Q) * (list Q * list Q))) : bool :=
  let '(xs, ss, o0, (k, c0), offs, mc0, h) := c in
  check_obs (rmv_new xs ss) o0 && check_mc k c0 o0 offs mc0 && check_sels k c0 offs (rmv_new xs ss) h.

(** inferred covariance between two plain reading arrays: observed (covariance, correlation) after
    set_covariance(a, b) / set_correlation(a, b), or None when the request was rejected.
    The model: rejected iff the lengths differ or one spread is 0; otherwise the sample covariance,
    and a correlation c with c^2 * var x * var y = cov^2, the sign of cov, |c| <= 1. *)
Definition Qsgn (x : Q) : Z := Z.sgn (Qnum x).

Definition check_pair (c : list Q * list Q * option (Q * Q)) : bool :=
  let '(xs, ys, o) := c in
  match c_cov xs ys, o with
  | None, None => true
  | Some cv, None => Qeq_bool (c_var 1 xs) 0 || Qeq_bool (c_var 1 ys) 0
  | Some cv, Some (ocov, ocorr) =>
      negb (Qeq_bool (c_var 1 xs) 0) && negb (Qeq_bool (c_var 1 ys) 0)
      && (Qclose tol 0 cv ocov
          || Qle_bool ((cv - ocov) * (cv - ocov)) (tol * tol * (c_var 1 xs * c_var 1 ys)))   (* |diff| <= 1e-9 std x std y *)
      && Qclose (4 * tol) (tol * tol * (c_var 1 xs * c_var 1 ys))
                (ocorr * ocorr * (c_var 1 xs * c_var 1 ys)) (cv * cv)
      && Qle_bool (Qabs ocorr) 1
      && (Z.eqb (Qsgn ocorr) (Qsgn ocov))
  | None, Some _ => false
  end.

Definition mk_obs (raw : list Q) (l : list Q) (wm pe : option Q) : obs :=
  match l with
  | [m; s; e; v; er] => {| o_raw := raw; o_mean := m; o_std := s; o_eom := e; o_wmean := wm; o_perr := pe;
                           o_value := v; o_error := er |}
  | _ => {| o_raw := []; o_mean := 0; o_std := -1; o_eom := -1; o_wmean := None; o_perr := None;
            o_value := 0; o_error := -1 |}
  end.

(** construction with a malformed uncertainty array: (readings, uncertainties, accepted?) *)
Definition check_ctor (c : list Q * list Q * bool) : bool :=
  let '(xs, ss, ok) := c in
  Bool.eqb (match rmv_make xs ss with Some _ => true | None => false end) ok.
