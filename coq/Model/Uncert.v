(** C14: the uncertainty of one quantity under every way of creating and changing it.
    Hand-written model of the validation in qexpy/data/data.py (MeasuredValue.__init__, the value /
    error / relative_error setters of MeasuredValue, RepeatedlyMeasuredValue and DerivedValue, the
    use_* selectors), qexpy/data/datasets.py (_get_error_array_helper) and
    MonteCarloSettings.use_custom_value_and_error.  Numbers are exact rationals. *)
From Coq Require Import List ZArith QArith Qabs Bool.
From QV Require Import Base.Py.
Import ListNotations.

Inductive kind := KSingle | KRepeated | KDerived.

(** statistics of a repeated measurement that the selectors may install (all computed once, at
    construction); [ewm] / [perr] are None when an individual uncertainty is 0 (nan in Python) *)
Record stats := { st_std : Q; st_eom : Q; st_ewm : option Q; st_perr : option Q }.

Record quantity := {
  q_kind : kind;
  q_value : Q;          (* for KDerived: the currently reported value *)
  q_error : Q;          (* for KDerived: the currently reported (propagated) uncertainty *)
  q_stats : stats       (* meaningful for KRepeated only *)
}.

Inductive outcome := Accepted | Rejected (e : exn).

Definition is_real (v : pv) : option Q := num_of v.        (* numbers.Real: int, bool, float *)

Definition mk (k : kind) (v e : Q) (st : stats) := {| q_kind := k; q_value := v; q_error := e; q_stats := st |}.
Definition no_stats := {| st_std := 0; st_eom := 0; st_ewm := None; st_perr := None |}.

(** Measurement(value, error) for a real [value] *)
Definition construct (v : Q) (e : pv) : option quantity * outcome :=
  match e with
  | PNone => (Some (mk KSingle v 0 no_stats), Accepted)
  | _ => match is_real e with
         | None => (None, Rejected OtherError)                         (* IllegalArgumentError *)
         | Some x => if Qle_bool 0 x then (Some (mk KSingle v x no_stats), Accepted)
                     else (None, Rejected ValueError)
         end
  end.

(** _get_error_array_helper(data, error, rel_error): the array of uncertainties or a rejection.
    [error] / [rel] : None, a number, or a list of numbers *)
Definition all_real (l : list pv) : option (list Q) :=
  fold_right (fun v acc => match num_of v, acc with Some x, Some xs => Some (x :: xs) | _, _ => None end) (Some []) l.

Definition check_nonneg (l : list Q) : option (list Q) * outcome :=
  if forallb (fun x => Qle_bool 0 x) l then (Some l, Accepted) else (None, Rejected ValueError).

Definition as_real_list (v : pv) : option (list Q) :=
  match v with PList l => all_real l | _ => None end.

Definition error_array (data : list Q) (error rel : pv) : option (list Q) * outcome :=
  let n := length data in
  match error, rel with
  | PNone, PNone => (Some (map (fun _ => 0) data), Accepted)
  | _, _ =>
    match is_real error with
    | Some x => check_nonneg (map (fun _ => x) data)
    | None =>
      match as_real_list error with
      | Some xs => if Nat.eqb (length xs) n then check_nonneg xs else (None, Rejected ValueError)
      | None =>
        match is_real rel with
        | Some r => check_nonneg (map (fun d => r * Qabs d) data)
        | None =>
          match as_real_list rel with
          | Some xs => if Nat.eqb (length xs) n
                       then check_nonneg (map (fun p => fst p * Qabs (snd p)) (combine xs data))
                       else (None, Rejected ValueError)
          | None => (None, Rejected TypeError)
          end
        end
      end
    end
  end.

Inductive op :=
| SetValue (v : pv)
| SetError (e : pv)
| SetRelError (r : pv)
| UseStd | UseEom | UseEwm | UsePerr           (* selectors of a repeated measurement *)
| SetCustom (v e : pv)                         (* r.mc.use_custom_value_and_error under Monte Carlo *)
| UseMode (c : pv) (v e : Q).                  (* r.mc.use_mode_with_confidence(c); (v, e) = the numbers the mode
                                                  strategy then reports (an input: they are C16's subject) *)

Definition cast (q : quantity) (v e : Q) : quantity := mk KSingle v e (q_stats q).

Definition step (q : quantity) (x : op) : quantity * outcome :=
  match x with
  | SetValue v =>
      match is_real v with
      | None => (q, Rejected TypeError)
      | Some x =>
          match q_kind q with
          | KSingle => (mk KSingle x (q_error q) (q_stats q), Accepted)
          | KRepeated => (cast q x (q_error q), Accepted)            (* becomes a single measurement *)
          | KDerived => (cast q x (q_error q), Accepted)
          end
      end
  | SetError e =>
      match is_real e with
      | None => (q, Rejected TypeError)
      | Some x =>
          if Qle_bool 0 x
          then match q_kind q with
               | KSingle | KRepeated => (mk (q_kind q) (q_value q) x (q_stats q), Accepted)
               | KDerived => (cast q (q_value q) x, Accepted)
               end
          else (q, Rejected ValueError)
      end
  | SetRelError r =>
      match is_real r with
      | None => (q, Rejected TypeError)
      | Some x =>
          if Qle_bool 0 x
          then let e := Qabs (q_value q) * x in
               match q_kind q with
               | KSingle | KRepeated => (mk (q_kind q) (q_value q) e (q_stats q), Accepted)
               | KDerived => (cast q (q_value q) e, Accepted)
               end
          else (q, Rejected ValueError)
      end
  | UseStd =>
      match q_kind q with
      | KRepeated => (mk KRepeated (q_value q) (st_std (q_stats q)) (q_stats q), Accepted)
      | _ => (q, Rejected OtherError)          (* AttributeError: not a repeated measurement *)
      end
  | UseEom =>
      match q_kind q with
      | KRepeated => (mk KRepeated (q_value q) (st_eom (q_stats q)) (q_stats q), Accepted)
      | _ => (q, Rejected OtherError)
      end
  | UseEwm =>
      match q_kind q with
      | KRepeated => (match st_ewm (q_stats q) with
                      | Some w => mk KRepeated w (q_error q) (q_stats q)
                      | None => q end, Accepted)      (* invalid: warning, unchanged *)
      | _ => (q, Rejected OtherError)
      end
  | UsePerr =>
      match q_kind q with
      | KRepeated => (match st_perr (q_stats q) with
                      | Some p => mk KRepeated (q_value q) p (q_stats q)
                      | None => q end, Accepted)
      | _ => (q, Rejected OtherError)
      end
  | SetCustom v e =>
      match q_kind q with
      | KDerived =>
          match is_real v, is_real e with
          | None, _ => (q, Rejected TypeError)
          | Some _, None => (q, Rejected TypeError)
          | Some x, Some y => if Qle_bool 0 y then (mk KDerived x y (q_stats q), Accepted)
                              else (q, Rejected ValueError)
          end
      | _ => (q, Rejected OtherError)
      end
  | UseMode c v e =>
      match q_kind q with
      | KDerived =>
          let accept := if Qle_bool 0 e then (mk KDerived v e (q_stats q), Accepted)
                        else (q, Rejected OtherError) in     (* a mode uncertainty is k bin widths >= 0 *)
          if truthy c
          then match is_real c with
               | None => (q, Rejected TypeError)
               | Some x => if Qle_bool 0 x && Qle_bool x 1 then accept else (q, Rejected ValueError)
               end
          else accept                                        (* None / 0: the confidence is left as it is *)
      | _ => (q, Rejected OtherError)
      end
  end.

Definition run (q : quantity) (ops : list op) : quantity := fold_left (fun s x => fst (step s x)) ops q.

(** statistics are well-formed: standard deviations are non-negative *)
Definition stats_ok (st : stats) : Prop :=
  0 <= st_std st /\ 0 <= st_eom st /\ match st_perr st with Some p => 0 <= p | None => True end.
