(** Comparison of Model/Uncert.v with observations of the implementation. *)
From Coq Require Import List ZArith QArith Qabs Bool.
From QV Require Import Base.Py Base.CaseLib Model.Uncert.
Import ListNotations.

Definition exn_code (e : exn) : nat :=
  match e with ValueError => 1 | TypeError => 2 | IndexError => 3 | KeyError => 4 | OtherError => 5 end.
Definition outcome_eqb (a b : outcome) : bool :=
  match a, b with
  | Accepted, Accepted => true
  | Rejected x, Rejected y => Nat.eqb (exn_code x) (exn_code y)
  | _, _ => false
  end.
Definition kind_code (k : kind) : nat := match k with KSingle => 0 | KRepeated => 1 | KDerived => 2 end.

Definition qtol : Q := 1 # 1000000000000.
Definition qeq (a b : Q) : bool := Qclose qtol (1 # 1000000000000000000000000000000) a b.

(** history of one quantity: start state, then (op, observed outcome, observed kind, value, error) *)
Fixpoint check_steps (q : quantity) (h : list (op * outcome * nat * Q * Q)) : bool :=
  match h with
  | [] => true
  | (x, o, k, v, e) :: h' =>
      let '(q1, o1) := step q x in
      outcome_eqb o1 o && Nat.eqb (kind_code (q_kind q1)) k && qeq (q_value q1) v && qeq (q_error q1) e
      && check_steps q1 h'
  end.
Definition check_history (c : quantity * list (op * outcome * nat * Q * Q)) : bool := check_steps (fst c) (snd c).

(** Measurement(v, e): observed outcome and (if accepted) the stored uncertainty *)
Definition check_construct (c : Q * pv * outcome * Q) : bool :=
  let '(v, e, o, err) := c in
  let '(q, o1) := construct v e in
  outcome_eqb o1 o && match q with Some q1 => qeq (q_error q1) err && qeq (q_value q1) v | None => true end.

(** array constructors: data, error, relative error, observed outcome and uncertainties *)
Definition check_array (c : list Q * pv * pv * outcome * list Q) : bool :=
  let '(data, error, rel, o, errs) := c in
  let '(l, o1) := error_array data error rel in
  outcome_eqb o1 o && match l with Some xs => list_eqb qeq xs errs | None => true end.
