(** The grammar of C12 as an abstract syntax, its rendering to text and its conventional reading.
    Definitions only (used to STATE the theorems; the parser model does not depend on this file).

      expr   := term (op term)*                 op := '*' | '/' | dot
      term   := factor+
      factor := SYMBOL | SYMBOL '^' INT | '(' expr-without-parentheses ')'

    plus the two notations the library's own printers emit: a leading "1/" (empty numerator) and a
    fractional power SYMBOL '^(' INT '/' DIGITS ')'. *)
From Coq Require Import List ZArith NArith QArith Bool.
From QV Require Import Gen.UnitSyntaxGen Model.UnitSyntax.
Import ListNotations.

Inductive power :=
| PNone                                    (* bare symbol *)
| PInt (neg : bool) (ds : str)             (* ^ -? digits *)
| PFrac (neg : bool) (n d : str).          (* ^( -? digits / digits )   -- library notation *)
Record atom := mk_atom { a_sym : str; a_pow : power }.
Inductive mulop := Star | Slash | Dot.

(** a sentence over some kind of item: optional "1/", a first term, then (operator, term) pairs *)
Record gsent (item : Type) := mk_gsent
  { g_one : bool; g_head : list item; g_tail : list (mulop * list item) }.
Arguments mk_gsent {item}. Arguments g_one {item}. Arguments g_head {item}. Arguments g_tail {item}.

Definition flat := gsent atom.                       (* an expression without parentheses *)
Inductive factor := FAtom (a : atom) | FParen (e : flat).
Definition expr := gsent factor.

(** ---- rendering ---- *)
Definition sign_str (neg : bool) : str := if neg then [c_minus] else [].
Definition render_power (p : power) : str :=
  match p with
  | PNone => []
  | PInt neg ds => c_caret :: sign_str neg ++ ds
  | PFrac neg n d => c_caret :: c_lpar :: sign_str neg ++ n ++ c_slash :: d ++ [c_rpar]
  end.
Definition render_atom (a : atom) : str := a_sym a ++ render_power (a_pow a).
Definition render_op (o : mulop) : str :=
  match o with Star => [c_star] | Slash => [c_slash] | Dot => [c_dot] end.

Section Render.
  Context {item : Type} (render_item : item -> str).
  Definition render_term (t : list item) : str := concat (map render_item t).
  Definition render_tail (tl : list (mulop * list item)) : str :=
    concat (map (fun ot => render_op (fst ot) ++ render_term (snd ot)) tl).
  Definition render_gsent (g : gsent item) : str :=
    (if g_one g then [c_one; c_slash] else []) ++ render_term (g_head g) ++ render_tail (g_tail g).
End Render.

Definition render_flat (e : flat) : str := render_gsent render_atom e.
Definition render_factor (f : factor) : str :=
  match f with
  | FAtom a => render_atom a
  | FParen e => c_lpar :: render_flat e ++ [c_rpar]
  end.
Definition render (e : expr) : str := render_gsent render_factor e.

(** ---- the conventional reading: exponent of symbol [k] ---- *)
Definition digits_value (ds : str) : Z := Z.of_uint (fold_right digit_cons Decimal.Nil ds).
Definition signed (neg : bool) (z : Z) : Z := if neg then (- z)%Z else z.
Definition power_value (p : power) : Q :=
  match p with
  | PNone => 1
  | PInt neg ds => inject_Z (signed neg (digits_value ds))
  | PFrac neg n d => signed neg (digits_value n) # Z.to_pos (digits_value d)
  end.
Definition denote_atom (a : atom) (k : str) : Q :=
  if str_eqb k (a_sym a) then power_value (a_pow a) else 0.
Definition op_sign (o : mulop) : Q := match o with Slash => -1 | _ => 1 end.

Section Denote.
  Context {item : Type} (denote_item : item -> str -> Q).
  Definition denote_term (t : list item) (k : str) : Q :=
    fold_right (fun i acc => denote_item i k + acc) 0 t.
  (** juxtaposition binds tighter than the explicit operators: a whole term takes the sign of the
      operator in front of it; the explicit operators associate from left to right *)
  Definition denote_tail (tl : list (mulop * list item)) (k : str) : Q :=
    fold_right (fun ot acc => op_sign (fst ot) * denote_term (snd ot) k + acc) 0 tl.
  Definition denote_gsent (g : gsent item) (k : str) : Q :=
    (if g_one g then -1 else 1) * denote_term (g_head g) k + denote_tail (g_tail g) k.
End Denote.

Definition denote_flat (e : flat) : str -> Q := denote_gsent denote_atom e.
Definition denote_factor (f : factor) : str -> Q :=
  match f with FAtom a => denote_atom a | FParen e => denote_flat e end.
Definition denote (e : expr) : str -> Q := denote_gsent denote_factor e.

(** ---- well-formedness ---- *)
Definition digits_ok (ds : str) : Prop := ds <> [] /\ forallb is_digit ds = true.
Definition wf_power (p : power) : Prop :=
  match p with
  | PNone => True
  | PInt _ ds => digits_ok ds
  | PFrac _ n d => digits_ok n /\ digits_ok d /\ (0 < digits_value d)%Z
  end.
Definition wf_atom (a : atom) : Prop :=
  a_sym a <> [] /\ forallb is_letter (a_sym a) = true /\ wf_power (a_pow a).

Section WF.
  Context {item : Type} (wf_item : item -> Prop)
          (bare : item -> bool)          (* a symbol without power *)
          (starts_letter : item -> bool).
  (** a bare symbol immediately followed by a factor that starts with a letter would read as one
      longer symbol: excluded (an ambiguity of the grammar itself) *)
  Fixpoint adjacent_ok (t : list item) : Prop :=
    match t with
    | i :: ((j :: _) as t') => (bare i = true -> starts_letter j = false) /\ adjacent_ok t'
    | _ => True
    end.
  Definition wf_term (t : list item) : Prop :=
    t <> [] /\ Forall wf_item t /\ adjacent_ok t.
  Definition wf_gsent (g : gsent item) : Prop :=
    wf_term (g_head g) /\ Forall (fun ot => wf_term (snd ot)) (g_tail g).
End WF.

Definition atom_bare (a : atom) : bool := match a_pow a with PNone => true | _ => false end.
Definition wf_flat (e : flat) : Prop := wf_gsent wf_atom atom_bare (fun _ => true) e.
Definition wf_factor (f : factor) : Prop :=
  match f with FAtom a => wf_atom a | FParen e => wf_flat e end.
Definition factor_bare (f : factor) : bool := match f with FAtom a => atom_bare a | _ => false end.
Definition factor_starts_letter (f : factor) : bool := match f with FAtom _ => true | _ => false end.
Definition wf (e : expr) : Prop := wf_gsent wf_factor factor_bare factor_starts_letter e.

(** the sentences of the property's own grammar: no "1/" numerator, integer powers only *)
Definition plain_atom (a : atom) : Prop := match a_pow a with PFrac _ _ _ => False | _ => True end.
Definition plain_flat (e : flat) : Prop :=
  g_one e = false /\ Forall plain_atom (g_head e) /\ Forall (fun ot => Forall plain_atom (snd ot)) (g_tail e).
Definition plain_factor (f : factor) : Prop :=
  match f with FAtom a => plain_atom a | FParen e => plain_flat e end.
Definition plain (e : expr) : Prop :=
  g_one e = false /\ Forall plain_factor (g_head e) /\ Forall (fun ot => Forall plain_factor (snd ot)) (g_tail e).

(** ---- rejection classes (on the raw text) ---- *)
Definition allowed_char (c : N) : bool :=
  is_letter c || is_digit c ||
  existsb (N.eqb c) [c_caret; c_minus; c_star; c_slash; c_lpar; c_rpar; c_dot].

(** bracket balance: never closing more than opened, everything closed at the end *)
Fixpoint balanced_from (d : nat) (s : str) : bool :=
  match s with
  | [] => Nat.eqb d 0
  | c :: s' =>
      if N.eqb c c_lpar then balanced_from (S d) s'
      else if N.eqb c c_rpar then match d with O => false | S d' => balanced_from d' s' end
      else balanced_from d s'
  end.
Definition balanced (s : str) : bool := balanced_from 0 s.

(** a digit that cannot belong to a power: right after a letter, after a multiplication sign,
    after a closing bracket, or at the very beginning (other than the "1" of "1/") *)
Definition mul_char (c : N) : bool := N.eqb c c_star || N.eqb c c_dot.
Definition digit_without_caret (s : str) : Prop :=
  (exists a c d b, s = a ++ c :: d :: b /\ is_digit d = true /\
                   (is_letter c = true \/ mul_char c = true \/ c = c_rpar)) \/
  (exists d b, s = d :: b /\ is_digit d = true /\ ~ (d = c_one /\ starts_with c_slash b = true)).

(** an explicit operator at the beginning, at the end, or directly after another one *)
Definition op_char (c : N) : bool := N.eqb c c_star || N.eqb c c_slash || N.eqb c c_dot.
Definition doubled_or_dangling_operator (s : str) : Prop :=
  (exists c b, s = c :: b /\ op_char c = true) \/
  (exists a c, s = a ++ [c] /\ op_char c = true) \/
  (exists a c d b, s = a ++ c :: d :: b /\ op_char c = true /\ op_char d = true).
