(** Model of the unit-string printers of qexpy/utils/units.py (C13): definitions only.
    construct_unit_string (no compound-unit definitions active), the two styles,
    __power_num2str with Fraction(power).limit_denominator(gen_max_denominator),
    the [unit] property / setter of ExperimentalValue and the unit handling of the three
    MeasurementArray edits. *)
From Coq Require Import List ZArith NArith QArith Bool.
From Coq Require DecimalZ DecimalPos.
From QV Require Import Gen.UnitSyntaxGen Model.UnitSyntax.
Import ListNotations.
Local Open Scope Z_scope.

Inductive style := Fraction | Exponents.

(** decimal digits of str(int) *)
Fixpoint digits_of_uint (u : Decimal.uint) : str :=
  match u with
  | Decimal.Nil => []
  | Decimal.D0 u' => 48%N :: digits_of_uint u' | Decimal.D1 u' => 49%N :: digits_of_uint u'
  | Decimal.D2 u' => 50%N :: digits_of_uint u' | Decimal.D3 u' => 51%N :: digits_of_uint u'
  | Decimal.D4 u' => 52%N :: digits_of_uint u' | Decimal.D5 u' => 53%N :: digits_of_uint u'
  | Decimal.D6 u' => 54%N :: digits_of_uint u' | Decimal.D7 u' => 55%N :: digits_of_uint u'
  | Decimal.D8 u' => 56%N :: digits_of_uint u' | Decimal.D9 u' => 57%N :: digits_of_uint u'
  end.
Definition show_pos (p : positive) : str := digits_of_uint (Pos.to_uint p).
Definition show_Z (z : Z) : str :=
  match z with
  | Z0 => [48%N]
  | Zpos p => show_pos p
  | Zneg p => c_minus :: show_pos p
  end.

(** Fraction.limit_denominator (CPython 3.12) on the normalised fraction n/d *)
Fixpoint ld_loop (fuel : nat) (maxd p0 q0 p1 q1 n d : Z) : Z * Z * Z * Z * Z * Z :=
  match fuel with
  | O => (p0, q0, p1, q1, n, d)
  | S f =>
      let a := n / d in
      let q2 := q0 + a * q1 in
      if q2 >? maxd then (p0, q0, p1, q1, n, d)
      else ld_loop f maxd p1 q1 (p0 + a * p1) q2 d (n - a * d)
  end.
Definition limit_denominator (maxd : Z) (x : Q) : Z * Z :=
  let r := Qred x in
  let n := Qnum r in
  let d := Zpos (Qden r) in
  if d <=? maxd then (n, d)
  else
    let '(p0, q0, p1, q1, n', d') := ld_loop 64 maxd 0 1 1 0 n d in
    let k := (maxd - q0) / q1 in
    if 2 * d' * (q0 + k * q1) <=? d then (p1, q1) else (p0 + k * p1, q0 + k * q1).

(** __power_num2str *)
Definition power_num2str (power : Q) : str :=
  let '(n, d) := limit_denominator gen_max_denominator power in
  if (n =? 1) && (d =? 1) then []
  else if d =? 1 then c_caret :: show_Z n
  else c_caret :: c_lpar :: show_Z n ++ c_slash :: show_Z d ++ [c_rpar].

Fixpoint join (sep : str) (l : list str) : str :=
  match l with
  | [] => []
  | [x] => x
  | x :: l' => x ++ sep ++ join sep l'
  end.

Definition Qpositive (q : Q) : bool := (0 <? Qnum q)%Z.
Definition Qnegative (q : Q) : bool := (Qnum q <? 0)%Z.

(** __construct_unit_string_with_exponents *)
Definition construct_exponents (m : umap) : str :=
  join gen_dot_string (map (fun kv => fst kv ++ power_num2str (snd kv)) m).

(** __construct_unit_string_as_fraction *)
Definition construct_fraction (m : umap) : str :=
  let num := map (fun kv => fst kv ++ power_num2str (snd kv)) (filter (fun kv => Qpositive (snd kv)) m) in
  let den := map (fun kv => fst kv ++ power_num2str (- snd kv)%Q) (filter (fun kv => Qnegative (snd kv)) m) in
  let ns := match num with [] => [c_one] | _ => join gen_dot_string num end in
  let ds := join gen_dot_string den in
  match den with
  | [] => match num with [] => [] | _ => ns end
  | [_] => ns ++ c_slash :: ds
  | _ => ns ++ c_slash :: c_lpar :: ds ++ [c_rpar]
  end.

Definition construct (st : style) (m : umap) : str :=
  match st with Fraction => construct_fraction m | Exponents => construct_exponents m end.

(** ExperimentalValue.unit : getter and setter *)
Definition get_unit (st : style) (m : umap) : str :=
  match m with [] => [] | _ => construct st m end.
Definition set_unit (s : str) : option umap :=
  match s with [] => Some [] | _ => parse s end.

(** the unit handling of MeasurementArray.append / insert / __setitem__ : the array is the list of
    the exponent maps of its elements; the new element is created with unit = self.unit (the
    printed unit of element 0) and (append, insert) every element is re-assigned that string *)
Definition arr_unit (st : style) (arr : list umap) : str :=
  match arr with m :: _ => get_unit st m | [] => [] end.

Fixpoint insert_at {A} (i : nat) (x : A) (l : list A) : list A :=
  match i, l with
  | O, _ => x :: l
  | S i', y :: l' => y :: insert_at i' x l'
  | S _, [] => [x]
  end.
Fixpoint set_at {A} (i : nat) (x : A) (l : list A) : list A :=
  match i, l with
  | O, _ :: l' => x :: l'
  | S i', y :: l' => y :: set_at i' x l'
  | _, [] => []
  end.

Definition arr_append (st : style) (arr : list umap) : option (list umap) :=
  match set_unit (arr_unit st arr) with
  | Some u => map_opt (fun _ => set_unit (arr_unit st arr)) (arr ++ [u])
  | None => None
  end.
Definition arr_insert (st : style) (i : nat) (arr : list umap) : option (list umap) :=
  match set_unit (arr_unit st arr) with
  | Some u => map_opt (fun _ => set_unit (arr_unit st arr)) (insert_at i u arr)
  | None => None
  end.
Definition arr_setitem (st : style) (i : nat) (arr : list umap) : option (list umap) :=
  match set_unit (arr_unit st arr) with
  | Some u => Some (set_at i u arr)
  | None => None
  end.
