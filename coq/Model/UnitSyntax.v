(** Model of the unit-string parser of qexpy/utils/units.py (C12, C13): definitions only.

    parse_unit_string = __evaluate_unit_tree . __construct_expression_tree_with_list .
                        __parse_unit_string_to_list
    Strings are lists of Unicode code points.  Any Python exception is [None] ("Rejected").
    The sentinel, the precedence table, the two comparisons of the builder, the "1" leaf, the
    dot sign and the presence of the coverage check come from Gen/UnitSyntaxGen.v, which is
    regenerated from the source text on every run. *)
From Coq Require Import List ZArith NArith QArith Bool.
From Coq Require DecimalZ DecimalPos String Ascii.
From QV Require Import Gen.UnitSyntaxGen.
Import ListNotations.
Local Open Scope N_scope.

Definition str := list N.

Definition c_nl : N := 10.   Definition c_lpar : N := 40.  Definition c_rpar : N := 41.
Definition c_star : N := 42. Definition c_minus : N := 45. Definition c_slash : N := 47.
Definition c_zero : N := 48. Definition c_one : N := 49.   Definition c_caret : N := 94.
Definition c_dot : N := 8901.

Fixpoint str_eqb (a b : str) : bool :=
  match a, b with
  | [], [] => true
  | x :: a', y :: b' => (x =? y) && str_eqb a' b'
  | _, _ => false
  end.

Definition is_letter (c : N) : bool := ((65 <=? c) && (c <=? 90)) || ((97 <=? c) && (c <=? 122)).
Definition is_digit (c : N) : bool := (48 <=? c) && (c <=? 57).

(** [s.replace(from, to)] for a one-character [from] *)
Definition replace_char (from : N) (to : str) (s : str) : str :=
  flat_map (fun c => if c =? from then to else [c]) s.
Definition preprocess (s : str) : str :=
  match gen_replace_from with
  | [d] => replace_char d gen_replace_to s
  | _ => s
  end.

(** greedy run *)
Fixpoint span (p : N -> bool) (s : str) : str * str :=
  match s with
  | [] => ([], [])
  | c :: s' => if p c then let '(a, b) := span p s' in (c :: a, b) else ([], s)
  end.

Definition opt_minus (s : str) : str * str :=
  match s with
  | c :: t => if c =? c_minus then ([c_minus], t) else ([], s)
  | [] => ([], s)
  end.

(** \^-?[0-9]+ tried right after a letter run; [s] starts at the caret *)
Definition match_intpow (s : str) : option (str * str) :=
  match s with
  | c :: s1 =>
      if c =? c_caret then
        let '(sg, s2) := opt_minus s1 in
        let '(ds, s3) := span is_digit s2 in
        match ds with
        | _ :: _ => Some (c_caret :: sg ++ ds, s3)
        | [] => None
        end
      else None
  | [] => None
  end.

(** \^\(-?[0-9]+/[0-9]+\) *)
Definition match_frac (s : str) : option (str * str) :=
  match s with
  | c :: l :: t1 =>
      if (c =? c_caret) && (l =? c_lpar) then
        let '(sg, t2) := opt_minus t1 in
        let '(n, t3) := span is_digit t2 in
        match n, t3 with
        | _ :: _, sl :: t4 =>
            if sl =? c_slash then
              let '(d, t5) := span is_digit t4 in
              match d, t5 with
              | _ :: _, r :: t6 =>
                  if r =? c_rpar
                  then Some (c_caret :: c_lpar :: sg ++ n ++ c_slash :: d ++ [c_rpar], t6)
                  else None
              | _, _ => None
              end
            else None
        | _, _ => None
        end
      else None
  | _ => None
  end.

(** the optional group (\^-?[0-9]+|\^\(-?[0-9]+/[0-9]+\)) : alternatives in order *)
Definition match_power (s : str) : option (str * str) :=
  match match_intpow s with
  | Some r => Some r
  | None => match_frac s
  end.

(** the rest of  \((?:\^\(-?[0-9]+/[0-9]+\)|[^()])*\)  after the opening bracket: items are taken
    greedily, a fractional-power group first, else any one character that is not a bracket
    (a newline included); the first character that is no item must be the closing bracket.
    [skip] = characters of the current fractional-power group still to be copied.
    Returns the bracket content and what follows the closing bracket. *)
Fixpoint bracket_body (s : str) (skip : nat) : option (str * str) :=
  match s with
  | [] => None
  | c :: t =>
      let continue := fun k => match bracket_body t k with
                               | Some (i, r) => Some (c :: i, r)
                               | None => None
                               end in
      match skip with
      | S k => continue k
      | O =>
          if c =? c_rpar then Some ([], t)
          else if c =? c_lpar then None
          else match match_frac s with
               | Some (g, _) => continue (pred (length g))
               | None => continue O
               end
      end
  end.

Definition starts_with (c : N) (s : str) : bool :=
  match s with x :: _ => x =? c | [] => false end.

(** one match of the token pattern at the head of [s]; alternatives in the order of the pattern
    ^1(?=/) | [a-zA-Z]+(power)? | / | \* | bracket       ([first]: we are at offset 0) *)
Definition match_at (first : bool) (s : str) : option (str * str) :=
  match s with
  | [] => None
  | c :: s' =>
      if first && (c =? c_one) && starts_with c_slash s' then Some ([c_one], s')
      else if is_letter c then
        let '(ls, r) := span is_letter s in
        match match_power r with
        | Some (p, r') => Some (ls ++ p, r')
        | None => Some (ls, r)
        end
      else if c =? c_slash then Some ([c_slash], s')
      else if c =? c_star then Some ([c_star], s')
      else if c =? c_lpar then
        match bracket_body s' O with
        | Some (inner, r) => Some (c_lpar :: inner ++ [c_rpar], r)
        | None => None
        end
      else None
  end.

(** token_pattern.finditer: leftmost matches, unmatched characters are skipped silently *)
Fixpoint finditer (fuel : nat) (first : bool) (s : str) : list str :=
  match fuel with
  | O => []
  | S f =>
      match s with
      | [] => []
      | _ :: s' =>
          match match_at first s with
          | Some (t, r) => t :: finditer f false r
          | None => finditer f false s'
          end
      end
  end.

(** re.fullmatch("(TOKEN)+", s).  Every alternative of the token pattern is deterministic for the
    purpose of a full match: a shorter letter or digit run leaves a letter / digit, dropping the
    optional power leaves a caret, and a bracket token cannot end before its own closing bracket
    -- none of which can start a token; so the backtracking search succeeds iff the greedy scan
    reaches the end of a non-empty string. *)
Fixpoint valid_from (fuel : nat) (first : bool) (s : str) : bool :=
  match fuel with
  | O => false
  | S f =>
      match match_at first s with
      | Some (_, []) => true
      | Some (_, r) => valid_from f false r
      | None => false
      end
  end.
Definition valid (s : str) : bool := valid_from (length s) true s.

(** Python token lists: a string or a nested list *)
Inductive tok := TS (s : str) | TL (l : list tok).

(** bracket_enclosed_expression_pattern.fullmatch(token) *)
Definition is_bracket_token (t : str) : bool :=
  match t with
  | c :: t' =>
      (c =? c_lpar) && match bracket_body t' O with Some (_, []) => true | _ => false end
  | [] => false
  end.

(** unit_with_exponent_pattern.fullmatch(token) ; on success the two pieces of token.split("^") *)
Definition split_unit_power (t : str) : option (str * str) :=
  match t with
  | c :: _ =>
      if is_letter c then
        let '(ls, r) := span is_letter t in
        match match_power r with
        | Some (_ :: p, []) => Some (ls, p)
        | _ => None
        end
      else None
  | [] => None
  end.

Definition inner_of (t : str) : str := removelast (tl t).     (* token[1:-1] *)

Definition is_op_tok (t : tok) : bool :=      (* isinstance(token, str) and [/*] fullmatch *)
  match t with
  | TS [c] => (c =? c_slash) || (c =? c_star)
  | _ => false
  end.

(** implicit-multiplication grouping; [acc] is tokens_list reversed *)
Fixpoint group_aux (raw : list tok) (acc : list tok) (preceding : bool) : option (list tok) :=
  match raw with
  | [] => Some (rev acc)
  | t :: raw' =>
      if preceding then group_aux raw' (t :: acc) false
      else if is_op_tok t then group_aux raw' (t :: acc) true
      else match acc with
           | last :: acc' => group_aux raw' (TL [last; TS [c_star]; t] :: acc') false
           | [] => None
           end
  end.
Definition group (raw : list tok) : option (list tok) := group_aux raw [] true.

Fixpoint map_opt {A B} (f : A -> option B) (l : list A) : option (list B) :=
  match l with
  | [] => Some []
  | x :: l' => match f x with
               | Some y => match map_opt f l' with Some ys => Some (y :: ys) | None => None end
               | None => None
               end
  end.

(** the treatment of one token found by finditer; [rec] is the recursive call on a bracket content *)
Definition process (rec : str -> option (list tok)) (t : str) : option tok :=
  if is_bracket_token t then
    match rec (inner_of t) with Some l => Some (TL l) | None => None end
  else match split_unit_power t with
       | Some (u, p) => Some (TL [TS u; TS [c_caret]; TS p])
       | None => Some (TS t)
       end.

(** __parse_unit_string_to_list ; [fuel] bounds the bracket recursion *)
Fixpoint lex (fuel : nat) (s0 : str) : option (list tok) :=
  match fuel with
  | O => None
  | S f =>
      let s := preprocess s0 in
      if negb (valid s) then None
      else
        let ts := finditer (length s) true s in
        if gen_coverage_check && negb (str_eqb (concat ts) s) then None
        else
          match map_opt (process (lex f)) ts with
          | Some raw => group raw
          | None => None
          end
  end.

(** expression trees; a leaf is a Python string *)
Inductive tree := Leaf (s : str) | Node (op : str) (l r : tree).

Fixpoint assoc {B} (k : str) (l : list (str * B)) : option B :=
  match l with
  | [] => None
  | (k', v) :: l' => if str_eqb k k' then Some v else assoc k l'
  end.
Definition prec (s : str) : option Z := assoc s gen_prec_table.

(** __construct_sub_tree_and_push_to_operand_stack ; stacks have their top at the head *)
Definition reduce (operands : list tree) (ops : list str) : option (list tree * list str) :=
  match operands, ops with
  | r :: l :: rest, o :: ops' => Some (Node o l r :: rest, ops')
  | _, _ => None
  end.

Section Builder.
  Variable sub : tok -> option tree.      (* the recursive call on a nested list *)

  Definition step (t : tok) (operands : list tree) (ops : list str) : option (list tree * list str) :=
    match ops with
    | [] => None                          (* operator_stack[-1] *)
    | top :: _ =>
        match t with
        | TL _ => match sub t with Some x => Some (x :: operands, ops) | None => None end
        | TS s =>
            match prec s with
            | None => Some (Leaf s :: operands, ops)
            | Some p =>
                match prec top with
                | None => None            (* KeyError *)
                | Some pt =>
                    if gen_cmp_push p pt then Some (operands, s :: ops)
                    else if gen_cmp_reduce p pt then
                      match reduce operands ops with
                      | Some (operands', ops') => Some (operands', s :: ops')
                      | None => None
                      end
                    else Some (Leaf s :: operands, ops)
                end
            end
        end
    end.

  Fixpoint run (ts : list tok) (operands : list tree) (ops : list str) : option (list tree * list str) :=
    match ts with
    | [] => Some (operands, ops)
    | t :: ts' => match step t operands ops with
                  | Some (a, b) => run ts' a b
                  | None => None
                  end
    end.
End Builder.

(** while len(operator_stack) > 1: reduce *)
Fixpoint finish (operands : list tree) (ops : list str) : option (list tree) :=
  match ops with
  | o :: ((_ :: _) as ops') =>
      match operands with
      | r :: l :: rest => finish (Node o l r :: rest) ops'
      | _ => None
      end
  | _ => Some operands
  end.

Definition empty_expression : tree := Node [] (Leaf []) (Leaf []).

Definition finalize (st : option (list tree * list str)) : option tree :=
  match st with
  | Some (operands, ops) =>
      match finish operands ops with
      | Some [] => Some empty_expression
      | Some (x :: xs) => Some (last xs x)        (* operand_stack[0] is the bottom *)
      | None => None
      end
  | None => None
  end.

(** __construct_expression_tree_with_list on the list inside [TL] *)
Fixpoint build_tok (t : tok) : option tree :=
  match t with
  | TS s => Some (Leaf s)
  | TL l => finalize (run build_tok l [] [gen_sentinel])
  end.
Definition build (toks : list tok) : option tree := build_tok (TL toks).

(** exponent maps: ordered like the OrderedDict *)
Definition umap := list (str * Q).

Fixpoint uset (k : str) (v : Q) (u : umap) : umap :=
  match u with
  | [] => [(k, v)]
  | (k', v') :: u' => if str_eqb k k' then (k', v) :: u' else (k', v') :: uset k v u'
  end.
Definition uget (k : str) (u : umap) : Q := match assoc k u with Some v => v | None => 0%Q end.
Definition dim (u : umap) (k : str) : Q := uget k u.

(** digits *)
Definition digit_cons (c : N) (u : Decimal.uint) : Decimal.uint :=
  match (c - 48)%N with
  | 0 => Decimal.D0 u | 1 => Decimal.D1 u | 2 => Decimal.D2 u | 3 => Decimal.D3 u
  | 4 => Decimal.D4 u | 5 => Decimal.D5 u | 6 => Decimal.D6 u | 7 => Decimal.D7 u
  | 8 => Decimal.D8 u | _ => Decimal.D9 u
  end.
Definition uint_of_digits (ds : str) : option Decimal.uint :=
  match ds with
  | [] => None
  | _ => if forallb is_digit ds then Some (fold_right digit_cons Decimal.Nil ds) else None
  end.

(** int("-?[0-9]+") *)
Definition parse_int (p : str) : option Z :=
  let '(sg, ds) := opt_minus p in
  match uint_of_digits ds with
  | Some u => Some (match sg with [] => Z.of_uint u | _ => Z.opp (Z.of_uint u) end)
  | None => None
  end.

Fixpoint split_at (c : N) (s : str) : str * str :=     (* at the first [c]; [c] dropped *)
  match s with
  | [] => ([], [])
  | x :: s' => if x =? c then ([], s') else let '(a, b) := split_at c s' in (x :: a, b)
  end.

(** __power_str2num: int(power) or float(Fraction(power[1:-1])) ; ZeroDivisionError = None *)
Definition power_str2num (p : str) : option Q :=
  if starts_with c_lpar p then
    let '(n, d) := split_at c_slash (inner_of p) in
    match parse_int n, uint_of_digits d with
    | Some zn, Some ud =>
        match Z.of_uint ud with
        | Zpos pd => Some (zn # pd)
        | _ => None
        end
    | _, _ => None
    end
  else match parse_int p with Some z => Some (inject_Z z) | None => None end.

(** the second loop of the "*" / "/" case *)
Fixpoint merge (sign : Q) (units : umap) (right : umap) : umap :=
  match right with
  | [] => units
  | (k, e) :: right' => merge sign (uset k (uget k units + sign * e) units) right'
  end.
Fixpoint copy_into (units : umap) (left : umap) : umap :=
  match left with
  | [] => units
  | (k, e) :: left' => copy_into (uset k e units) left'
  end.

(** __evaluate_unit_tree *)
Fixpoint eval (t : tree) : option umap :=
  match t with
  | Leaf s => if str_eqb s gen_one_leaf then Some [] else Some [(s, 1%Q)]
  | Node op l r =>
      if str_eqb op gen_pow_op then
        match l, r with
        | Leaf u, Leaf p => match power_str2num p with Some q => Some [(u, q)] | None => None end
        | _, _ => None       (* not reachable from the lexer: "^" only occurs in [unit, "^", power] *)
        end
      else if existsb (str_eqb op) gen_muldiv_ops then
        match eval l, eval r with
        | Some ul, Some ur =>
            Some (merge (if str_eqb op gen_plus_op then 1 else -1)%Q (copy_into [] ul) ur)
        | _, _ => None
        end
      else None              (* an Expression used as a dict key: not reachable *)
  end.

Definition parse (s : str) : option umap :=
  match lex (S (length s)) s with
  | Some toks => match build toks with Some t => eval t | None => None end
  | None => None
  end.

(** the patterns this model was written for (compared with the generated literals in Proofs/) *)
Import String.
Definition ascii_str (s : String.string) : str :=
  map (fun a => N.of_nat (Ascii.nat_of_ascii a)) (String.list_ascii_of_string s).
Definition expected_power_pattern := ascii_str "\^-?[0-9]+|\^\(-?[0-9]+/[0-9]+\)"%string.
Definition expected_token_pattern :=
  ascii_str "^1(?=/)|[a-zA-Z]+(\^-?[0-9]+|\^\(-?[0-9]+/[0-9]+\))?|/|\*|\((?:\^\(-?[0-9]+/[0-9]+\)|[^()])*\)"%string.
Definition expected_valid_pattern :=
  ascii_str "(^1(?=/)|[a-zA-Z]+(\^-?[0-9]+|\^\(-?[0-9]+/[0-9]+\))?|/|\*|\((?:\^\(-?[0-9]+/[0-9]+\)|[^()])*\))+"%string.
Definition expected_bracket_pattern := ascii_str "\((?:\^\(-?[0-9]+/[0-9]+\)|[^()])*\)"%string.
Definition expected_unit_exp_pattern := ascii_str "[a-zA-Z]+(\^-?[0-9]+|\^\(-?[0-9]+/[0-9]+\))"%string.
Definition expected_operator_pattern := ascii_str "[/*]"%string.
Definition patterns_as_modelled : bool :=
  str_eqb gen_power_pattern expected_power_pattern &&
  str_eqb gen_bracket_pattern expected_bracket_pattern &&
  str_eqb gen_token_pattern expected_token_pattern &&
  str_eqb gen_valid_pattern expected_valid_pattern &&
  str_eqb gen_bracket_enclosed_expression_pattern expected_bracket_pattern &&
  str_eqb gen_unit_with_exponent_pattern expected_unit_exp_pattern &&
  str_eqb gen_operator_pattern expected_operator_pattern.
