(** Executable comparison of the parser / printer models with observations of the implementation. *)
From Coq Require Import List ZArith NArith QArith Bool.
From QV Require Import Base.CaseLib Gen.UnitSyntaxGen Model.UnitSyntax Model.UnitPrint.
Import ListNotations.

(** observed exponents cross as exact rationals of the Python int / float; the model computes in Q
    (float rounding of fractional exponents is modelled, not verified) *)
Definition entry_close (x y : str * Q) : bool :=
  str_eqb (fst x) (fst y) && Qclose (1 # 1000000000000) 0 (snd x) (snd y).
Definition umap_close (a b : umap) : bool := list_eqb entry_close a b.
Definition res_close (m o : option umap) : bool := option_eqb umap_close m o.

(** one parser case: the string, and [None] (any exception) or the ordered exponent list *)
Definition check_parse (c : str * option umap) : bool := res_close (parse (fst c)) (snd c).

(** exhaustive scope: every string [prefix ++ w], w of length n over the alphabet, in enumeration
    order; the implementation's accepted strings are transmitted in the same order *)
Definition alphabet : list N := [97; 98; 94; 45; 49; 50; 42; 47; 40; 41; 8901]%N.
Fixpoint all_strings (n : nat) : list str :=
  match n with
  | O => [[]]
  | S k => flat_map (fun c => map (cons c) (all_strings k)) alphabet
  end.
Fixpoint walk (ss : list str) (exp : list (str * umap)) : bool :=
  match ss with
  | [] => match exp with [] => true | _ => false end
  | s :: ss' =>
      match parse s, exp with
      | None, [] => walk ss' []
      | None, (s', _) :: _ => if str_eqb s s' then false else walk ss' exp
      | Some u, (s', u') :: exp' => if str_eqb s s' && umap_close u u' then walk ss' exp' else false
      | Some _, [] => false
      end
  end.
Definition check_exhaustive (prefix : str) (n : nat) (exp : list (str * umap)) : list nat :=
  if walk (map (app prefix) (all_strings n)) exp then [] else [0%nat].
(** diagnosis when a shard disagrees: everything the model accepts in that scope *)
Fixpoint accepted (ss : list str) : list (str * umap) :=
  match ss with
  | [] => []
  | s :: ss' => match parse s with Some u => (s, u) :: accepted ss' | None => accepted ss' end
  end.
Definition accepted_in (prefix : str) (n : nat) := accepted (map (app prefix) (all_strings n)).

(** one printer case: the map, the two printed strings (fraction, exponents) and what the
    implementation parses them back to *)
Definition check_print (c : umap * (str * option umap) * (str * option umap)) : bool :=
  let '(m, (sf, rf), (se, re)) := c in
  str_eqb (construct Fraction m) sf && str_eqb (construct Exponents m) se &&
  res_close (parse sf) rf && res_close (parse se) re.

(** array edits through the public API: style, the common unit map of the array, the edit,
    observed: None (raised) or the unit maps of all elements afterwards *)
Inductive edit := EAppend | EInsert (i : nat) | ESetitem (i : nat).
Definition run_edit (st : style) (e : edit) (arr : list umap) : option (list umap) :=
  match e with
  | EAppend => arr_append st arr
  | EInsert i => arr_insert st i arr
  | ESetitem i => arr_setitem st i arr
  end.
Definition check_edit (c : style * edit * list umap * option (list umap)) : bool :=
  let '(st, e, arr, obs) := c in
  option_eqb (list_eqb umap_close) (run_edit st e arr) obs.

(** unit assignment b.unit = a.unit *)
Definition check_assign (c : style * umap * option umap) : bool :=
  let '(st, m, obs) := c in res_close (set_unit (get_unit st m)) obs.
