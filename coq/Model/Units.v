(** Model of unit propagation (C08, C18): qexpy/utils/units.py [operate_with_units],
    [__unpack_unit], [__try_pack], [construct_unit_string]'s packing loop, [define_unit],
    [clear_unit_definitions], and qexpy/data/operations.py [propagate_units] as called by
    [DerivedValue.__init__] / [recalculate].  The operator table and the exponent arithmetic
    ([UNIT_OPERATIONS], [__neg __add_and_sub __mul __div __sqrt],
    [__update_unit_exponent_count_in_dict]) are GENERATED (Gen/UnitsGen.v).  Definitions only. *)
From Coq Require Import List QArith Bool PArith.
From QV Require Import Model.UnitsBase Gen.UnitsGen.
Import ListNotations.
Open Scope Q_scope.

(** * Unit definitions: the global dict [UNIT_DEFINITIONS] (name -> exponent map), in
      definition order (dict order). *)
Definition defmap := list (sym * umap).

Fixpoint d_lookup (defs : defmap) (k : sym) : option umap :=
  match defs with
  | [] => None
  | (k', d) :: r => if Pos.eqb k k' then Some d else d_lookup r k
  end.

(** [UNIT_DEFINITIONS[name] = parsed]: an existing name keeps its place *)
Fixpoint d_set (defs : defmap) (k : sym) (d : umap) : defmap :=
  match defs with
  | [] => [(k, d)]
  | (k', d') :: r => if Pos.eqb k k' then (k', d) :: r else (k', d') :: d_set r k d
  end.

Inductive event := Define (name : sym) (unit : umap) | Clear.

Definition d_step (defs : defmap) (e : event) : defmap :=
  match e with
  | Define n u => d_set defs n u
  | Clear => []
  end.

(** the definitions in force after a history of [define_unit] / [clear_unit_definitions] calls *)
Definition d_run (h : list event) : defmap := fold_left d_step h [].

(** * [__unpack_unit(unit, count=1)]
    [unpack_str] is the call on a name (str), [unpack_map] the call on a dict.  The Python
    function recurses through the definitions and does not terminate on a cyclic definition
    (RecursionError); the model carries explicit fuel and answers [None] when it runs out. *)
Definition merge_into (result unpacked : umap) : umap :=
  fold_left (fun result kv => let '(tok, val) := kv in update_count result tok val) unpacked result.

Definition unpack_items (rec : sym -> Q -> option umap) (unit : umap) (count : Q) : option umap :=
  fold_left (fun acc kv =>
               let '(name, exp) := kv in
               match acc with
               | None => None
               | Some result =>
                 match rec name (exp * count) with
                 | None => None
                 | Some unpacked => Some (merge_into result unpacked)
                 end
               end) unit (Some []).

Fixpoint unpack_str (fuel : nat) (defs : defmap) (unit : sym) (count : Q) : option umap :=
  match fuel with
  | O => None
  | S f =>
    match d_lookup defs unit with
    | None => Some [(unit, count)]                                  (* str not in UNIT_DEFINITIONS *)
    | Some d => unpack_items (unpack_str f defs) d count            (* __unpack_unit(UNIT_DEFINITIONS[unit], count) *)
    end
  end.

Definition unpack_map (fuel : nat) (defs : defmap) (unit : umap) (count : Q) : option umap :=
  unpack_items (unpack_str fuel defs) unit count.

(** * [__try_pack(unit, pre_defined)]: 0 = does not pack *)
Fixpoint try_pack_loop (unit pre : umap) (exponent : Q) : option Q :=
  match unit with
  | [] => Some exponent
  | (name, exp) :: rest =>
    let pre_exp := u_get pre name in                                (* pre_defined.get(name, 0) *)
    if Qeq_bool pre_exp 0 then None                                 (* if not pre_exp: return 0 *)
    else if negb (Qeq_bool exponent 0) && negb (Qeq_bool exponent (exp / pre_exp)) then None
    else try_pack_loop rest pre (if Qeq_bool exponent 0 then exp / pre_exp else exponent)
  end.

Definition try_pack (unit pre : umap) : Q :=
  match try_pack_loop unit pre 0 with
  | None => 0
  | Some exponent =>
    if forallb (fun kv => negb (Qeq_bool (u_get unit (fst kv)) 0)) pre   (* if not unit.get(name, 0): return 0 *)
    then exponent else 0
  end.

(** the packing loops of [operate_with_units] and [construct_unit_string]:
    the first definition (dict order) that packs wins *)
Fixpoint pack_first (defs : defmap) (result : umap) : umap :=
  match defs with
  | [] => result
  | (unit, expression) :: r =>
    let exp := try_pack result expression in
    if negb (Qeq_bool exp 0) then [(unit, exp)] else pack_first r result
  end.

(** * [operate_with_units(operator, *operands)]; [None] = the Python call does not return
      normally (fuel exhausted on a cyclic definition, or wrong number of operands) *)
Fixpoint unpack_all (fuel : nat) (defs : defmap) (operands : list umap) : option (list umap) :=
  match operands with
  | [] => Some []
  | o :: r =>
    match unpack_map fuel defs o 1, unpack_all fuel defs r with
    | Some u, Some us => Some (filter_zero u :: us)      (* cancelled units disappear before the operation *)
    | _, _ => None
    end
  end.

Definition operate_with_units (fuel : nat) (defs : defmap) (operator : opname) (operands : list umap)
  : option (umap * bool) :=
  match unpack_all fuel defs operands with
  | None => None
  | Some opr_unpacked =>
    match (match unit_operations operator with
           | Some f => apply_ufn f opr_unpacked
           | None => Some ([], false)
           end) with
    | None => None
    | Some (result, warned) =>
      let result := filter_zero result in
      Some (pack_first defs result, warned)
    end
  end.

(** what [.unit] prints: [construct_unit_string] packs first (then formats; formatting is C13) *)
Definition display (defs : defmap) (units : umap) : umap :=
  if u_empty units then [] else pack_first defs units.

(** * Expression trees and [propagate_units] *)
Inductive expr :=
| Leaf (u : umap)                      (* a measurement; [u] is its parsed unit, [[]] = none given *)
| Cst (c : Q)                          (* a Constant (plain number operand), unit {} *)
| Un (o : opname) (a : expr)           (* DerivedValue(Formula(o, [a])) *)
| Bin (o : opname) (a b : expr).       (* DerivedValue(Formula(o, [a, b])) *)

Definition is_const (e : expr) : bool := match e with Cst _ => true | _ => false end.

(** [propagate_units(formula)] given the operands (whether each is a Constant, its [_unit]) *)
Definition propagate_units (fuel : nat) (defs : defmap) (operator : opname)
           (operands : list (expr * umap)) : option (umap * bool) :=
  match operator, operands with
  | OP_pow, [(_, u0); (Cst power, _)] =>
      (* the power operator is different: no unpacking, no zero filter, no packing *)
      Some (map (fun kv => (fst kv, snd kv * power)) u0, false)
  | _, _ =>
    if forallb (fun eu => negb (u_empty (snd eu)) || is_const (fst eu)) operands
    then operate_with_units fuel defs operator (map snd operands)
    else Some ([], false)
  end.

(** the unit of every node, bottom-up as the DerivedValues are constructed; the boolean is
    "a mismatch warning was issued while the tree was built" *)
Fixpoint unit_of (fuel : nat) (defs : defmap) (e : expr) : option (umap * bool) :=
  match e with
  | Leaf u => Some (u, false)
  | Cst _ => Some ([], false)
  | Un o a =>
    match unit_of fuel defs a with
    | None => None
    | Some (ua, wa) =>
      match propagate_units fuel defs o [(a, ua)] with
      | None => None
      | Some (u, w) => Some (u, wa || w)
      end
    end
  | Bin o a b =>
    match unit_of fuel defs a, unit_of fuel defs b with
    | Some (ua, wa), Some (ub, wb) =>
      match propagate_units fuel defs o [(a, ua); (b, ub)] with
      | None => None
      | Some (u, w) => Some (u, wa || wb || w)
      end
    | _, _ => None
    end
  end.

(** * Specification side: dimensional analysis *)

(** the expression grammar of the properties *)
Definition un_in_grammar (o : opname) : bool :=
  match o with OP_neg | OP_sqrt => true | _ => false end.
Definition bin_in_grammar (o : opname) : bool :=
  match o with OP_add | OP_sub | OP_mul | OP_div => true | _ => false end.
Definition is_addsub (o : opname) : bool :=
  match o with OP_add | OP_sub => true | _ => false end.

(** the dimension of a symbol once every defined name is expanded: a parameter [E] of the
    specification (for no definitions: [delta]) *)
Definition delta (s k : sym) : Q := if Pos.eqb k s then 1 else 0.

(** the dimension a unit map denotes under [E]: sum of exponent * dimension of the symbol *)
Fixpoint xdim (E : sym -> sym -> Q) (u : umap) (k : sym) : Q :=
  match u with
  | [] => 0
  | (n, x) :: r => x * E n k + xdim E r k
  end.

(** [E] is the expansion of the definitions: an undefined name is a base symbol, a defined
    name denotes what its definition denotes *)
Definition is_expansion (defs : defmap) (E : sym -> sym -> Q) : Prop :=
  forall s, match d_lookup defs s with
            | None => forall k, E s k == delta s k
            | Some d => forall k, E s k == xdim E d k
            end.

(** dimensional analysis of a tree: * adds, / subtracts, a constant power multiplies, sqrt
    halves, unary minus, + and - keep the common dimension (of the non-constant operand) *)
Fixpoint dspec (E : sym -> sym -> Q) (e : expr) (k : sym) : Q :=
  match e with
  | Leaf u => xdim E u k
  | Cst _ => 0
  | Un o a =>
    match o with
    | OP_neg => dspec E a k
    | OP_sqrt => dspec E a k / 2
    | _ => 0
    end
  | Bin o a b =>
    match o with
    | OP_mul => dspec E a k + dspec E b k
    | OP_div => dspec E a k - dspec E b k
    | OP_add | OP_sub => if is_const a then dspec E b k else dspec E a k
    | OP_pow => match b with Cst p => dspec E a k * p | _ => 0 end
    | _ => 0
    end
  end.

(** * The domain of the properties (C08/C18 quantifier text)
    "every non-constant operand of every operation, leaf or intermediate result, carries a
    non-empty unit ... trees with a dimensionless intermediate result are outside the domain":
    the unit the library computed for the operand denotes a non-zero dimension. *)
Definition has_unit (E : sym -> sym -> Q) (u : umap) : Prop := exists k, ~ xdim E u k == 0.

Definition operand_ok (fuel : nat) (defs : defmap) (E : sym -> sym -> Q) (a : expr) : Prop :=
  is_const a = true \/ exists u w, unit_of fuel defs a = Some (u, w) /\ has_unit E u.

Fixpoint in_domain (fuel : nat) (defs : defmap) (E : sym -> sym -> Q) (e : expr) : Prop :=
  match e with
  | Leaf u => NoDup (keys u)                     (* a unit is a dict: unique symbols *)
  | Cst _ => True
  | Un o a => un_in_grammar o = true /\ in_domain fuel defs E a /\ operand_ok fuel defs E a
  | Bin o a b =>
    in_domain fuel defs E a /\ in_domain fuel defs E b /\ operand_ok fuel defs E a /\
    ((bin_in_grammar o = true /\ operand_ok fuel defs E b) \/ (o = OP_pow /\ exists p, b = Cst p))
  end.

(** the two operands of the root + / - are quantities of different dimension *)
Definition genuine_mismatch (E : sym -> sym -> Q) (e : expr) : Prop :=
  match e with
  | Bin o a b => is_addsub o = true /\ is_const a = false /\ is_const b = false /\
                 exists k, ~ dspec E a k == dspec E b k
  | _ => False
  end.

(** definitions without a cycle: a rank that decreases from a name to the defined names its
    definition mentions ("defined in terms of earlier names" in any order of definition) *)
Definition acyclic (defs : defmap) : Prop :=
  exists rank : sym -> nat,
    forall n d m, d_lookup defs n = Some d -> In m (keys d) -> d_lookup defs m <> None -> (rank m < rank n)%nat.

(** * Well-formedness of definitions and histories; reference semantics of a history *)

(** definitions form a dict: unique names; every definition is itself a dict (unique symbols) *)
Definition wf_defs (defs : defmap) : Prop :=
  NoDup (map fst defs) /\ forall n d, In (n, d) defs -> NoDup (keys d).

Definition wf_history (h : list event) : Prop :=
  forall n u, In (Define n u) h -> NoDup (keys u).

(** what a name stands for after a history: its latest definition since the latest clear *)
Fixpoint last_def (h : list event) (n : sym) (cur : option umap) : option umap :=
  match h with
  | [] => cur
  | Clear :: r => last_def r n None
  | Define m u :: r => last_def r n (if Pos.eqb n m then Some u else cur)
  end.

(** the expansion computed by unfolding the definitions [f] times (it is THE expansion of
    acyclic definitions once [f] exceeds their depth, see C18_expansion_exists) *)
Fixpoint Efuel (defs : defmap) (f : nat) (s k : sym) : Q :=
  match f with
  | O => 0
  | S f' => match d_lookup defs s with
            | None => delta s k
            | Some d => xdim (Efuel defs f') d k
            end
  end.
