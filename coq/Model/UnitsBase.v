(** Carrier of the unit algebra (C08, C18): a unit is the ordered exponent map that
    qexpy keeps in [ExperimentalValue._unit] (an OrderedDict / dict: insertion ordered,
    unique keys).  Symbols are [positive] identifiers (the harness numbers the unit names),
    exponents are exact rationals.  Definitions only. *)
From Coq Require Import List QArith Bool PArith.
Import ListNotations.

Definition sym := positive.
Definition umap := list (sym * Q).

(** [k in d] *)
Fixpoint u_mem (k : sym) (d : umap) : bool :=
  match d with
  | [] => false
  | (k', _) :: r => if Pos.eqb k k' then true else u_mem k r
  end.

(** [d[k]] for a key that is present, [d.get(k, 0)] in general *)
Fixpoint u_get (d : umap) (k : sym) : Q :=
  match d with
  | [] => 0
  | (k', v) :: r => if Pos.eqb k k' then v else u_get r k
  end.

(** [d[k] = v]: an existing key keeps its position, a new key goes to the end *)
Fixpoint u_set (d : umap) (k : sym) (v : Q) : umap :=
  match d with
  | [] => [(k, v)]
  | (k', v') :: r => if Pos.eqb k k' then (k', v) :: r else (k', v') :: u_set r k v
  end.

(** the dimension denoted by a unit: exponent of every symbol (0 when absent) *)
Definition dim (d : umap) (k : sym) : Q := u_get d k.

(** truthiness of a dict: [bool(d)] is [negb (u_empty d)] *)
Definition u_empty (d : umap) : bool := match d with [] => true | _ => false end.

Definition keys (d : umap) : list sym := map fst d.

(** [OrderedDict([(unit, count) for unit, count in result.items() if count != 0])] *)
Definition filter_zero (d : umap) : umap :=
  filter (fun kv => negb (Qeq_bool (snd kv) 0)) d.

(** [dict(a) == dict(b)]: same key set and equal values, whatever the order *)
Definition dict_eqb (a b : umap) : bool :=
  Nat.eqb (length a) (length b) &&
  forallb (fun kv => u_mem (fst kv) b && Qeq_bool (u_get b (fst kv)) (snd kv)) a.

(** [a == b] on two OrderedDicts: equal as dicts AND in the same order *)
Fixpoint odict_eqb (a b : umap) : bool :=
  match a, b with
  | [], [] => true
  | (k, v) :: a', (k', v') :: b' => Pos.eqb k k' && Qeq_bool v v' && odict_eqb a' b'
  | _, _ => false
  end.

(** sum of ALL entries for a key (equals [dim] on maps with unique keys) *)
Fixpoint total (d : umap) (k : sym) : Q :=
  match d with
  | [] => 0
  | (k', v) :: r => (if Pos.eqb k k' then v else 0) + total r k
  end.

(** same keys in the same order, exponents equal as rationals (what the harness compares) *)
Definition umap_eqb (a b : umap) : bool := odict_eqb a b.
