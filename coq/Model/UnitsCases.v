(** Executable comparison of the unit model with observations of the implementation (C08, C18). *)
From Coq Require Import List QArith Bool PArith.
From QV Require Import Base.CaseLib Model.UnitsBase Gen.UnitsGen Model.Units.
Import ListNotations.
Open Scope Q_scope.

(** Python's recursion limit is 1000 frames; acyclic definition sets in the cases are < 10 deep *)
Definition FUEL : nat := 40.

Definition opt_umap_eqb := option_eqb umap_eqb.

(** history of define/clear calls, tree, observed root [_unit] + "a mismatch warning was seen"
    ([None] = RecursionError), observed re-parsed [.unit] ([None] = not compared: exponent
    not printable exactly), [true] = fraction style (order of factors not comparable) *)
Definition check_tree (c : list event * expr * option (umap * bool) * option umap * bool) : bool :=
  let '(h, e, obs, shown, frac) := c in
  let defs := d_run h in
  match unit_of FUEL defs e, obs with
  | None, None => true
  | Some (mu, mw), Some (u, w) =>
    umap_eqb mu u && Bool.eqb mw w &&
    match shown with
    | None => true
    | Some sh => if frac then dict_eqb (filter_zero (display defs mu)) (filter_zero sh)
                 else umap_eqb (display defs mu) sh
    end
  | _, _ => false
  end.

(** direct call [operate_with_units(op, *operands)] *)
Definition check_operate (c : list event * opname * list umap * option (umap * bool)) : bool :=
  let '(h, o, args, obs) := c in
  match operate_with_units FUEL (d_run h) o args, obs with
  | None, None => true
  | Some (mu, mw), Some (u, w) => umap_eqb mu u && Bool.eqb mw w
  | _, _ => false
  end.

(** direct call [__try_pack(unit, pre_defined)] *)
Definition check_try_pack (c : umap * umap * Q) : bool :=
  let '(u, d, r) := c in Qeq_bool (try_pack u d) r.

(** [UNIT_DEFINITIONS.items()] after a history *)
Fixpoint defs_eqb (a b : defmap) : bool :=
  match a, b with
  | [], [] => true
  | (k, d) :: a', (k', d') :: b' => Pos.eqb k k' && umap_eqb d d' && defs_eqb a' b'
  | _, _ => false
  end.
Definition check_defs (c : list event * defmap) : bool := defs_eqb (d_run (fst c)) (snd c).

(** tree built under history [h1]; then [h2] happens; then [root.recalculate()] *)
Definition recalc_root (h1 h2 : list event) (e : expr) : option (umap * bool) :=
  let d1 := d_run h1 in
  let d2 := d_run (h1 ++ h2) in
  match e with
  | Un o a =>
    match unit_of FUEL d1 a with
    | Some (ua, _) => propagate_units FUEL d2 o [(a, ua)]
    | None => None
    end
  | Bin o a b =>
    match unit_of FUEL d1 a, unit_of FUEL d1 b with
    | Some (ua, _), Some (ub, _) => propagate_units FUEL d2 o [(a, ua); (b, ub)]
    | _, _ => None
    end
  | _ => unit_of FUEL d2 e
  end.

Definition check_recalc (c : list event * list event * expr * option (umap * bool)) : bool :=
  let '(h1, h2, e, obs) := c in
  match recalc_root h1 h2 e, obs with
  | None, None => true
  | Some (mu, mw), Some (u, w) => umap_eqb mu u && Bool.eqb mw w
  | _, _ => false
  end.

(** a session: define / clear calls interleaved with uses; every use builds a tree under the
    definitions in force at that moment ([d_run] of the events so far) and is observed *)
Inductive sstep :=
| SEv (ev : event)
| SUse (e : expr) (obs : option (umap * bool)) (shown : option umap).

Fixpoint check_session_from (defs : defmap) (steps : list sstep) : bool :=
  match steps with
  | [] => true
  | SEv ev :: r => check_session_from (d_step defs ev) r
  | SUse e obs shown :: r =>
    (match unit_of FUEL defs e, obs with
     | None, None => true
     | Some (mu, mw), Some (u, w) =>
       umap_eqb mu u && Bool.eqb mw w &&
       match shown with None => true | Some sh => umap_eqb (display defs mu) sh end
     | _, _ => false
     end) && check_session_from defs r
  end.

Definition check_session (steps : list sstep) : bool := check_session_from [] steps.
