(** Lemmas about the dispatch model Model/ArrayOps.v over the GENERATED tables of Gen/OverloadsGen.v
    (property C11).  Every proof that mentions a special method computes with the generated table:
    a changed operator literal, operand order, deferral target or delegation target breaks it. *)
From Coq Require Import List ZArith QArith Bool Arith Lia.
From QV Require Import Model.OverloadVocab Gen.OverloadsGen Model.ArrayOps.
Import ListNotations.

(** * The generated tables denote the operators they are named after *)

(** __op__(self, other) denotes self op other; __rop__(self, other) denotes other op self *)
Lemma dunder_denotes : forall d b reflected self other,
  base_of d = Some (b, reflected) ->
  ev_call d self other =
    if reflected then VF2 (lit_of b) (wrapv other) self else VF2 (lit_of b) self (wrapv other).
Proof.
  intros d b reflected self other H.
  destruct d; simpl in H; inversion H; subst; reflexivity.
Qed.

Lemma neg_denotes : forall self other, ev_call D_neg self other = VF1 NEG self.
Proof. reflexivity. Qed.

(** the forward method of a scalar hands an array operand to the array's matching reflected method *)
Lemma forward_defers_to_reflected : forall o,
  exists op sf, ev_overload (fwd o) = EvBinary op sf (Some (refl o)).
Proof. intros o. destruct o; simpl; eauto. Qed.

(** every array method delegates to the ndarray method of the same name and wraps scalars *)
Lemma array_delegates_same : forall d b r, base_of d = Some (b, r) -> arr_overload d = ArrDelegate d true.
Proof. intros d b r H. destruct d; simpl in *; try reflexivity; discriminate. Qed.

Lemma wrapv_ev : forall v, is_ev v = true -> wrapv v = v.
Proof. intros v H. destruct v; simpl in *; try reflexivity; discriminate. Qed.

(** Python's protocol between two scalars, one of which is an ExperimentalValue, always builds the
    Formula with the operands in source order: [l o r] is Formula(o, [wrap l, wrap r]) *)
Lemma overload_sound : forall o l r,
  is_ev l = true \/ (l <> VErr /\ is_ev r = true) ->
  py_binop o l r = VF2 (lit_of o) (wrapv l) (wrapv r).
Proof.
  intros o l r H. unfold py_binop. destruct (is_ev l) eqn:El.
  - rewrite (dunder_denotes (fwd o) o false); [|destruct o; reflexivity].
    rewrite (wrapv_ev l El). reflexivity.
  - destruct H as [H|[Hl Hr]]; [discriminate|]. rewrite Hr.
    rewrite (dunder_denotes (refl o) o true); [|destruct o; reflexivity].
    rewrite (wrapv_ev r Hr). reflexivity.
Qed.

(** * Lists *)

Lemma nth_map_seq : forall (g : nat -> sval) n i d, (i < n)%nat -> nth i (map g (seq 0 n)) d = g i.
Proof.
  intros g n i d H. rewrite (nth_indep _ d (g 0%nat)) by (rewrite map_length, seq_length; exact H).
  rewrite map_nth. rewrite seq_nth by exact H. reflexivity.
Qed.

Lemma nth_elems : forall k n i, (i < n)%nat -> nth i (elems k n) VErr = VElem k i.
Proof. intros. unfold elems. apply nth_map_seq. assumption. Qed.
Lemma length_elems : forall k n, length (elems k n) = n.
Proof. intros. unfold elems. rewrite map_length, seq_length. reflexivity. Qed.

Lemma nth_map_lt : forall {A} (g : A -> sval) l i d d', (i < length l)%nat -> nth i (map g l) d = g (nth i l d').
Proof.
  intros A g l. induction l as [|x l IH]; intros i d d' H; simpl in H; [lia|].
  destruct i; simpl; auto. apply IH. lia.
Qed.

Lemma nth_map2 : forall {A B} (f : A -> B -> sval) l m i d da db,
  (i < length l)%nat -> (i < length m)%nat -> nth i (map2 f l m) d = f (nth i l da) (nth i m db).
Proof.
  intros A B f l. induction l as [|x l IH]; intros m i d da db Hl Hm; simpl in Hl; [lia|].
  destruct m as [|y m]; simpl in Hm; [lia|].
  destruct i; simpl; auto. apply IH; lia.
Qed.
Lemma length_map2 : forall {A B C} (f : A -> B -> C) l m, length l = length m -> length (map2 f l m) = length l.
Proof.
  intros A B C f l. induction l as [|x l IH]; intros m H; destruct m; simpl in *; try lia. rewrite IH; lia.
Qed.

Lemma nth_map_lit : forall l i, (i < length l)%nat -> nth i (map lit l) VErr = lit (nth i l 0).
Proof. intros. apply nth_map_lt. assumption. Qed.

(** * Array arithmetic is element-wise scalar arithmetic *)

Definition scalar_side (o : binop) (self_left : bool) (a x : sval) : sval :=
  if self_left then py_binop o a x else py_binop o x a.

Lemma nd_call_nth : forall d b r A o i,
  base_of d = Some (b, r) -> (i < length A)%nat ->
  match o with NSeq l => length l = length A | _ => True end ->
  nth i (nd_call d A o) VErr =
    let x := match o with NScalar v => v | NSeq l => nth i l VErr end in
    if r then py_binop b x (nth i A VErr) else py_binop b (nth i A VErr) x.
Proof.
  intros d b r A o i Hd Hi Hl. unfold nd_call. rewrite Hd. destruct o as [v|l].
  - rewrite (nth_map_lt _ A i VErr VErr Hi). reflexivity.
  - rewrite (nth_map2 _ A l i VErr VErr VErr Hi) by lia. reflexivity.
Qed.

Theorem binop_elementwise : forall o self_left k n other i,
  compatible n other -> (i < n)%nat ->
  nth i (arr_binop o self_left k n other) VErr = scalar_side o self_left (VElem k i) (operand_at other i).
Proof.
  intros o sl k n other i Hc Hi.
  assert (HA : nth i (elems k n) VErr = VElem k i) by (apply nth_elems; exact Hi).
  assert (LA : length (elems k n) = n) by apply length_elems.
  unfold arr_binop, scalar_side.
  destruct sl.
  - (* A o other : ExperimentalValueArray.__op__ *)
    unfold eva_call. rewrite (array_delegates_same (fwd o) o false) by (destruct o; reflexivity).
    destruct other as [x|m|l|l|k2 n2]; simpl in Hc; cbn [is_array_kind as_nd wrap_nd wrapv lit].
    + rewrite (nd_call_nth (fwd o) o false) by (try (destruct o; reflexivity); try lia; auto).
      cbv beta iota zeta. rewrite HA. rewrite !overload_sound by (left; reflexivity). reflexivity.
    + rewrite (nd_call_nth (fwd o) o false) by (try (destruct o; reflexivity); try lia; auto).
      cbv beta iota zeta. rewrite HA. reflexivity.
    + rewrite (nd_call_nth (fwd o) o false) by (try (destruct o; reflexivity); try lia; try (rewrite map_length; lia)).
      cbv beta iota zeta. rewrite HA, nth_map_lit by lia. reflexivity.
    + rewrite (nd_call_nth (fwd o) o false) by (try (destruct o; reflexivity); try lia; try (rewrite map_length; lia)).
      cbv beta iota zeta. rewrite HA, nth_map_lit by lia. reflexivity.
    + subst n2. rewrite (nd_call_nth (fwd o) o false) by (try (destruct o; reflexivity); try lia; try (rewrite length_elems; lia)).
      cbv beta iota zeta. rewrite HA, nth_elems by lia. reflexivity.
  - destruct other as [x|m|l|l|k2 n2]; simpl in Hc.
    + (* number o A : float returns NotImplemented, ExperimentalValueArray.__rop__ *)
      unfold eva_call. rewrite (array_delegates_same (refl o) o true) by (destruct o; reflexivity).
      cbn [is_array_kind as_nd wrap_nd wrapv lit].
      rewrite (nd_call_nth (refl o) o true) by (try (destruct o; reflexivity); try lia; auto).
      cbv beta iota zeta. rewrite HA. rewrite !overload_sound; try (left; reflexivity).
      * reflexivity.
      * right. split; [discriminate | reflexivity].
    + (* measurement o A : ExperimentalValue.__op__ defers to A.__rop__(m) *)
      destruct (forward_defers_to_reflected o) as [op [sf E]]. rewrite E.
      unfold eva_call. rewrite (array_delegates_same (refl o) o true) by (destruct o; reflexivity).
      cbn [is_array_kind as_nd wrap_nd wrapv].
      rewrite (nd_call_nth (refl o) o true) by (try (destruct o; reflexivity); try lia; auto).
      cbv beta iota zeta. rewrite HA. reflexivity.
    + unfold eva_call. rewrite (array_delegates_same (refl o) o true) by (destruct o; reflexivity).
      cbn [is_array_kind as_nd].
      rewrite (nd_call_nth (refl o) o true) by (try (destruct o; reflexivity); try lia; try (rewrite map_length; lia)).
      cbv beta iota zeta. rewrite HA, nth_map_lit by lia. reflexivity.
    + unfold eva_call. rewrite (array_delegates_same (refl o) o true) by (destruct o; reflexivity).
      cbn [is_array_kind as_nd].
      rewrite (nd_call_nth (refl o) o true) by (try (destruct o; reflexivity); try lia; try (rewrite map_length; lia)).
      cbv beta iota zeta. rewrite HA, nth_map_lit by lia. reflexivity.
    + (* B o A : B's own forward method *)
      subst n2. unfold eva_call. rewrite (array_delegates_same (fwd o) o false) by (destruct o; reflexivity).
      cbn [is_array_kind as_nd].
      rewrite (nd_call_nth (fwd o) o false) by (try (destruct o; reflexivity); try (rewrite !length_elems; lia)).
      cbv beta iota zeta. rewrite HA, nth_elems by lia. reflexivity.
Qed.

Lemma binop_length : forall o self_left k n other, compatible n other -> length (arr_binop o self_left k n other) = n.
Proof.
  intros o sl k n other Hc.
  assert (LA : length (elems k n) = n) by apply length_elems.
  assert (G : forall d b r A x, base_of d = Some (b, r) ->
              match x with NSeq l => length l = length A | _ => True end -> length (nd_call d A x) = length A).
  { intros d b r A x Hd Hx. unfold nd_call. rewrite Hd. destruct x; [apply map_length | apply length_map2; lia]. }
  unfold arr_binop. destruct sl.
  - unfold eva_call. rewrite (array_delegates_same (fwd o) o false) by (destruct o; reflexivity).
    rewrite (G (fwd o) o false) by (try (destruct o; reflexivity);
      destruct other; simpl in *; auto; rewrite ?map_length, ?length_elems; lia). exact LA.
  - destruct other as [x|m|l|l|k2 n2]; simpl in Hc.
    + unfold eva_call. rewrite (array_delegates_same (refl o) o true) by (destruct o; reflexivity).
      rewrite (G (refl o) o true) by (try (destruct o; reflexivity); simpl; auto). exact LA.
    + destruct (forward_defers_to_reflected o) as [op [sf E]]. rewrite E.
      unfold eva_call. rewrite (array_delegates_same (refl o) o true) by (destruct o; reflexivity).
      rewrite (G (refl o) o true) by (try (destruct o; reflexivity); simpl; auto). exact LA.
    + unfold eva_call. rewrite (array_delegates_same (refl o) o true) by (destruct o; reflexivity).
      rewrite (G (refl o) o true) by (try (destruct o; reflexivity); simpl; rewrite ?map_length; lia). exact LA.
    + unfold eva_call. rewrite (array_delegates_same (refl o) o true) by (destruct o; reflexivity).
      rewrite (G (refl o) o true) by (try (destruct o; reflexivity); simpl; rewrite ?map_length; lia). exact LA.
    + subst n2. unfold eva_call. rewrite (array_delegates_same (fwd o) o false) by (destruct o; reflexivity).
      rewrite (G (fwd o) o false) by (try (destruct o; reflexivity); simpl; rewrite ?length_elems; lia).
      apply length_elems.
Qed.

(** the i-th element is the Formula of the operator with the i-th operands in source order *)
Corollary binop_formula : forall o self_left k n other i,
  compatible n other -> (i < n)%nat ->
  nth i (arr_binop o self_left k n other) VErr =
    if self_left then VF2 (lit_of o) (VElem k i) (wrapv (operand_at other i))
    else VF2 (lit_of o) (wrapv (operand_at other i)) (VElem k i).
Proof.
  intros o sl k n other i Hc Hi. rewrite binop_elementwise by assumption. unfold scalar_side.
  destruct sl.
  - rewrite overload_sound by (left; reflexivity). reflexivity.
  - rewrite overload_sound; [reflexivity|]. right. split; [|reflexivity].
    destruct other; simpl; discriminate.
Qed.

Theorem neg_elementwise : forall k n i, (i < n)%nat ->
  nth i (arr_neg k n) VErr = py_neg (VElem k i) /\ py_neg (VElem k i) = VF1 NEG (VElem k i)
  /\ length (arr_neg k n) = n.
Proof.
  intros k n i Hi. unfold arr_neg, eva_call. cbn [arr_overload nd_call base_of as_nd].
  split; [|split].
  - rewrite (nth_map_lt _ (elems k n) i VErr VErr) by (rewrite length_elems; exact Hi).
    rewrite nth_elems by exact Hi. reflexivity.
  - reflexivity.
  - rewrite map_length. apply length_elems.
Qed.

(** * Vectorised functions *)

Lemma plain_in_plain_out : forall f a, exists b, scalar_fn f (VNum a) = VNum b.
Proof. intros f a. destruct f; cbn; eauto. Qed.

Lemma ev_in_formula : forall f x, is_ev x = true ->
  exists op, scalar_fn f x = VF1 op (match fn_table f with FnDegrees _ dv fc => deg dv fc x | _ => x end).
Proof.
  intros f x H. destruct f; cbn [scalar_fn fn_table]; unfold execute1;
    try (destruct x; simpl in H; try discriminate; eexists; reflexivity).
  all: unfold deg; rewrite (overload_sound BDiv x) by (left; exact H);
    rewrite overload_sound by (left; reflexivity); eexists; reflexivity.
Qed.

(** a degree variant is the radian function of x / 180 * pi, computed by scalar arithmetic *)
Lemma degrees_compose : forall f base dv fc x,
  fn_table f = FnDegrees base dv fc ->
  scalar_fn f x = scalar_fn base (deg dv fc x) /\ dv == 180 /\ (exists op, fn_table base = FnDirect op).
Proof.
  intros f base dv fc x H. destruct f; cbn in H; try discriminate; inversion H; subst; cbn;
    (split; [reflexivity | split; [reflexivity | eexists; reflexivity]]).
Qed.

(** log(a, b) passes its arguments to the LOG operator in the order given; log(a) is LN *)
Lemma log_args_in_order : forall a b, scalar_log2 a b = execute2 LOG a b /\ scalar_fn F_log a = execute1 LN a.
Proof. intros. split; reflexivity. Qed.

Lemma fn_elementwise : forall f arg i, (i < args_len [arg])%nat ->
  nth i (snd (array_fn f arg)) VErr = scalar_fn f (operand_at arg i) /\
  length (snd (array_fn f arg)) = args_len [arg].
Proof.
  intros f arg i H. unfold array_fn. cbn [snd]. split.
  - apply (nth_map_seq (fun j => scalar_fn f (operand_at arg j))). exact H.
  - rewrite map_length, seq_length. reflexivity.
Qed.

Lemma log2_elementwise : forall a b i, (i < args_len [a; b])%nat ->
  nth i (snd (array_log2 a b)) VErr = scalar_log2 (operand_at a i) (operand_at b i) /\
  length (snd (array_log2 a b)) = args_len [a; b].
Proof.
  intros a b i H. unfold array_log2. cbn [snd]. split.
  - apply (nth_map_seq (fun j => scalar_log2 (operand_at a j) (operand_at b j))). exact H.
  - rewrite map_length, seq_length. reflexivity.
Qed.

(** the container kind is preserved: list -> list (of plain numbers), ndarray -> ndarray (of plain
    numbers), MeasurementArray -> MeasurementArray, scalar -> scalar *)
Lemma fn_container : forall f,
  (forall l, fst (array_fn f (KList l)) = CList /\
             forall i, (i < length l)%nat -> exists b, nth i (snd (array_fn f (KList l))) VErr = VNum b) /\
  (forall l, fst (array_fn f (KNd l)) = CNd /\
             forall i, (i < length l)%nat -> exists b, nth i (snd (array_fn f (KNd l))) VErr = VNum b) /\
  (forall k n, fst (array_fn f (KArr k n)) = CEva) /\
  (forall x, fst (array_fn f (KNum x)) = CScalar) /\ (forall m, fst (array_fn f (KMeas m)) = CScalar).
Proof.
  intros f. split; [|split; [|split; [|split]]]; try (intros; reflexivity).
  - intros l. split; [reflexivity|]. intros i Hi.
    destruct (fn_elementwise f (KList l) i Hi) as [E _]. rewrite E. apply plain_in_plain_out.
  - intros l. split; [reflexivity|]. intros i Hi.
    destruct (fn_elementwise f (KNd l) i Hi) as [E _]. rewrite E. apply plain_in_plain_out.
Qed.

(** two-argument log: an ndarray / MeasurementArray argument in either position decides the container
    before a list does; two plain arguments give plain numbers *)
Lemma log2_container : forall a b,
  fst (array_log2 a b) =
    if is_eva a || is_eva b then CEva
    else if matches VkNdarray a || matches VkNdarray b then CNd
    else if matches VkList a || matches VkList b then CList else CScalar.
Proof.
  intros a b. unfold array_log2. cbn [fst vectorize_rules container_of existsb].
  destruct a, b; reflexivity.
Qed.
Lemma log2_plain : forall x y, exists b, scalar_log2 (VNum x) (VNum y) = VNum b.
Proof. intros. cbn. eauto. Qed.
