(** Lemmas about Model/Arrays.v (property C17). *)
From Coq Require Import List ZArith QArith Qabs Bool Arith Lia.
From QV Require Import Base.Py Model.Arrays.
Import ListNotations.

(** * Strings: strip_index (name ++ "_" ++ dec j) = name *)

Lemma is_digit_of_mod : forall n, is_digit (N.of_nat (n mod 10) + 48)%N = true.
Proof.
  intros n. unfold is_digit.
  assert (H : (n mod 10 < 10)%nat) by (apply Nat.mod_upper_bound; lia).
  apply andb_true_iff; split; apply N.leb_le; lia.
Qed.

Lemma dec_aux_spec : forall fuel n acc,
  exists d, dec_aux fuel n acc = d ++ acc /\ forallb is_digit d = true /\ (fuel <> 0%nat -> d <> []).
Proof.
  induction fuel as [|f IH]; intros n acc.
  - exists []. simpl. repeat split; auto.
  - cbn [dec_aux]. set (d0 := (N.of_nat (n mod 10) + 48)%N).
    assert (Hd : is_digit d0 = true) by apply is_digit_of_mod.
    clearbody d0.
    destruct (Nat.eqb (n / 10) 0).
    + exists [d0]. cbn [forallb app]. rewrite Hd. repeat split; auto. discriminate.
    + destruct (IH (n / 10)%nat (d0 :: acc)) as [d [E [D _]]].
      exists (d ++ [d0]). rewrite E. rewrite <- app_assoc. cbn [app].
      repeat split; auto.
      * rewrite forallb_app, D. cbn [forallb]. rewrite Hd. reflexivity.
      * intros _ C. apply app_eq_nil in C. destruct C as [_ C]. discriminate.
Qed.

Lemma dec_spec : forall n, forallb is_digit (dec n) = true /\ dec n <> [].
Proof.
  intros n. unfold dec. destruct (dec_aux_spec (S n) n []) as [d [E [D NE]]].
  rewrite E, app_nil_r. split; auto.
Qed.

Lemma span_digits_app : forall a c t,
  forallb is_digit a = true -> is_digit c = false -> span_digits (a ++ c :: t) = (a, c :: t).
Proof.
  induction a as [|x a IH]; intros c t Ha Hc; simpl.
  - rewrite Hc. reflexivity.
  - simpl in Ha. apply andb_true_iff in Ha. destruct Ha as [Hx Ha]. rewrite Hx.
    rewrite (IH c t Ha Hc). reflexivity.
Qed.

Lemma forallb_rev : forall {A} (f : A -> bool) l, forallb f (rev l) = forallb f l.
Proof.
  intros A f l. induction l as [|x l IH]; simpl; auto.
  rewrite forallb_app, IH. simpl. rewrite andb_true_r. apply andb_comm.
Qed.

(** whatever the name is (it may itself end in _<digits>), the index suffix is what gets stripped *)
Lemma strip_idx_name : forall n j, strip_index (idx_name n j) = n.
Proof.
  intros n j. unfold strip_index, idx_name.
  destruct (dec_spec j) as [D NE].
  rewrite rev_app_distr. simpl. rewrite <- app_assoc. simpl.
  rewrite span_digits_app; [| rewrite forallb_rev; exact D | reflexivity].
  destruct (rev (dec j)) eqn:R.
  - exfalso. apply NE. rewrite <- (rev_involutive (dec j)), R. reflexivity.
  - rewrite N.eqb_refl. apply rev_involutive.
Qed.

(** * Heap updates *)

Lemma upd_same : forall h i e, upd h i e i = e.
Proof. intros. unfold upd. rewrite Nat.eqb_refl. reflexivity. Qed.
Lemma upd_other : forall h i e j, j <> i -> upd h i e j = h j.
Proof. intros h i e j H. unfold upd. apply Nat.eqb_neq in H. rewrite H. reflexivity. Qed.

(** names and units are the only fields the relabelling touches *)
Definition same_ve (h h' : heap) : Prop := forall id, pair_of h' id = pair_of h id.

Lemma same_ve_refl : forall h, same_ve h h.
Proof. intros h id. reflexivity. Qed.
Lemma same_ve_trans : forall h1 h2 h3, same_ve h1 h2 -> same_ve h2 h3 -> same_ve h1 h3.
Proof. intros h1 h2 h3 A B id. rewrite B. apply A. Qed.
Lemma same_ve_set_name : forall h i n, same_ve h (set_name h i n).
Proof.
  intros h i n id. unfold pair_of, set_name, upd. destruct (Nat.eqb id i) eqn:E; auto.
  apply Nat.eqb_eq in E. subst. reflexivity.
Qed.
Lemma same_ve_set_unit : forall h i u, same_ve h (set_unit h i u).
Proof.
  intros h i u id. unfold pair_of, set_unit, upd. destruct (Nat.eqb id i) eqn:E; auto.
  apply Nat.eqb_eq in E. subst. reflexivity.
Qed.

Lemma same_ve_relabel : forall wu R h A j, same_ve h (relabel wu h A R j).
Proof.
  induction R as [|id R IH]; intros h A j; simpl.
  - apply same_ve_refl.
  - eapply same_ve_trans; [| apply IH].
    destruct wu.
    + eapply same_ve_trans; [apply same_ve_set_name | apply same_ve_set_unit].
    + apply same_ve_set_name.
Qed.

Lemma abs_same_ve : forall h h' A, same_ve h h' -> abs h' A = abs h A.
Proof. intros h h' A H. unfold abs. apply map_ext. intros id. apply H. Qed.

(** values of the objects that existed before (id < nx) are kept *)
Definition ext_ve (nx : nat) (h h' : heap) : Prop := forall id, (id < nx)%nat -> pair_of h' id = pair_of h id.
Definition bounded (nx : nat) (A : arr) : Prop := forall id, In id A -> (id < nx)%nat.

Lemma abs_ext_ve : forall nx h h' A, ext_ve nx h h' -> bounded nx A -> abs h' A = abs h A.
Proof.
  intros nx h h' A H B. unfold abs. apply map_ext_in. intros id Hin. apply H. apply B. exact Hin.
Qed.

Lemma bounded_mono : forall nx nx' A, bounded nx A -> (nx <= nx')%nat -> bounded nx' A.
Proof. intros nx nx' A B L id Hin. specialize (B id Hin). lia. Qed.

(** * Operands *)

Definition item_ok (nx : nat) (it : item) : Prop :=
  match it with IMeas id => (id < nx)%nat | _ => True end.
Definition operand_ok (nx : nat) (o : operand) : Prop :=
  match o with
  | OItem it => item_ok nx it
  | OList l => Forall (item_ok nx) l
  | OArr B => bounded nx B
  end.

Lemma wrap_item_ok : forall u n h nx it h1 nx1 id,
  wrap_item u n (h, nx) it = ((h1, nx1), Ok id) -> item_ok nx it ->
  (nx <= nx1)%nat /\ ext_ve nx h h1 /\ pair_of h1 id = coerce_item h it /\ (id < nx1)%nat
  /\ (forall j, (nx1 <= j)%nat -> h1 j = h j)
  /\ (match it with IMeas m => id = m /\ nx1 = nx | _ => id = nx /\ nx1 = S nx end).
Proof.
  intros u n h nx it h1 nx1 id H Hok. destruct it as [x|x e|m|e]; simpl in H.
  - inversion H; subst. repeat split; try lia.
    + intros j Hj. unfold pair_of. rewrite upd_other by lia. reflexivity.
    + unfold pair_of. rewrite upd_same. reflexivity.
    + intros j Hj. apply upd_other. lia.
  - destruct (Qle_bool 0 e); [|discriminate]. inversion H; subst. repeat split; try lia.
    + intros j Hj. unfold pair_of. rewrite upd_other by lia. reflexivity.
    + unfold pair_of. rewrite upd_same. reflexivity.
    + intros j Hj. apply upd_other. lia.
  - inversion H; subst. simpl in Hok. repeat split; try lia.
    + intros j Hj. rewrite <- (same_ve_set_name h id n j). apply same_ve_set_unit.
    + simpl. rewrite <- (same_ve_set_name h id n id). apply same_ve_set_unit.
    + intros j Hj. unfold set_unit, set_name. rewrite !upd_other by lia. reflexivity.
  - discriminate.
Qed.

(** ids of measurement objects named by a list of items *)
Fixpoint meas_ids (l : list item) : list nat :=
  match l with
  | [] => []
  | IMeas id :: r => id :: meas_ids r
  | _ :: r => meas_ids r
  end.

Lemma wrap_items_ok : forall u n l h nx h1 nx1 ids,
  wrap_items u n (h, nx) l = ((h1, nx1), Ok ids) -> Forall (item_ok nx) l ->
  (nx <= nx1)%nat /\ ext_ve nx h h1 /\ abs h1 ids = map (coerce_item h) l /\ bounded nx1 ids
  /\ (forall j, (nx1 <= j)%nat -> h1 j = h j)
  /\ (forall id, In id ids -> In id (meas_ids l) \/ (nx <= id)%nat)
  /\ (NoDup (meas_ids l) -> NoDup ids).
Proof.
  intros u n l. induction l as [|it r IH]; intros h nx h1 nx1 ids H Hok; cbn [wrap_items] in H.
  - inversion H; subst. split; [lia|]. split; [intros id Hid; reflexivity|]. split; [reflexivity|].
    split; [intros id []|]. split; [auto|]. split; [intros id []|]. intros _; constructor.
  - destruct (wrap_item u n (h, nx) it) as [[h2 nx2] [id|e]] eqn:W; [|discriminate].
    destruct (wrap_items u n (h2, nx2) r) as [[h3 nx3] [ids'|e]] eqn:W2; [|discriminate].
    inversion H; subst. clear H.
    inversion Hok as [|? ? Hit Hr]; subst.
    destruct (wrap_item_ok _ _ _ _ _ _ _ _ W Hit) as [L1 [E1 [P1 [B1 [K1 Kind]]]]].
    assert (Hr2 : Forall (item_ok nx2) r).
    { eapply Forall_impl; [|exact Hr]. intros a Ha. destruct a; simpl in *; auto. lia. }
    destruct (IH _ _ _ _ _ W2 Hr2) as [L2 [E2 [A2 [B2 [K2 [M2 N2]]]]]].
    assert (Hco : map (coerce_item h2) r = map (coerce_item h) r).
    { apply map_ext_in. intros a Ha. destruct a; simpl; auto.
      apply E1. rewrite Forall_forall in Hr. apply (Hr _ Ha). }
    repeat split.
    + lia.
    + intros j Hj. rewrite E2 by lia. apply E1. exact Hj.
    + simpl. rewrite A2, Hco. f_equal. rewrite E2 by exact B1. exact P1.
    + intros j [Hj|Hj]; [subst; lia | apply B2; exact Hj].
    + intros j Hj. rewrite K2 by exact Hj. apply K1. lia.
    + intros j [Hj|Hj].
      * subst j. destruct it; simpl; destruct Kind as [Kid Knx]; subst; auto; try (right; lia).
      * destruct (M2 j Hj) as [Hm|Hm].
        -- left. destruct it; simpl; auto.
        -- right. lia.
    + intros ND. constructor.
      * intros Hin. destruct (M2 _ Hin) as [Hm|Hm].
        -- destruct it; simpl in *; destruct Kind as [Kid Knx]; subst.
           ++ rewrite Forall_forall in Hr.
              assert (In (IMeas nx) r -> False).
              { intros Hx. specialize (Hr _ Hx). simpl in Hr. lia. }
              clear - Hm H. induction r as [|a r IHr]; simpl in Hm; [contradiction|].
              destruct a; try (apply IHr; auto; intros Hx; apply H; right; exact Hx).
              destruct Hm as [Hm|Hm]; [subst; apply H; left; reflexivity|].
              apply IHr; auto. intros Hx; apply H; right; exact Hx.
           ++ rewrite Forall_forall in Hr.
              assert (In (IMeas nx) r -> False).
              { intros Hx. specialize (Hr _ Hx). simpl in Hr. lia. }
              clear - Hm H. induction r as [|a r IHr]; simpl in Hm; [contradiction|].
              destruct a; try (apply IHr; auto; intros Hx; apply H; right; exact Hx).
              destruct Hm as [Hm|Hm]; [subst; apply H; left; reflexivity|].
              apply IHr; auto. intros Hx; apply H; right; exact Hx.
           ++ inversion ND; subst. contradiction.
           ++ discriminate W.
        -- destruct it; simpl in *; destruct Kind as [Kid Knx]; subst; try lia.
      * apply N2. destruct it; simpl in ND; auto. inversion ND; auto.
Qed.

Definition operand_ids (o : operand) : list nat :=
  match o with OItem it => meas_ids [it] | OList l => meas_ids l | OArr B => B end.

Lemma wrap_operand_ok : forall u n o h nx h1 nx1 V,
  wrap_operand u n (h, nx) o = ((h1, nx1), Ok V) -> operand_ok nx o ->
  (nx <= nx1)%nat /\ ext_ve nx h h1 /\ abs h1 V = coerce h o /\ bounded nx1 V
  /\ (forall id, In id V -> In id (operand_ids o) \/ (nx <= id)%nat)
  /\ (NoDup (operand_ids o) -> NoDup V).
Proof.
  intros u n o h nx h1 nx1 V H Hok. destruct o as [it|l|B]; cbn [wrap_operand] in H.
  - assert (Hf : Forall (item_ok nx) [it]) by (constructor; auto).
    destruct (wrap_items_ok _ _ _ _ _ _ _ _ H Hf) as [L [E [A [B [K [M N]]]]]].
    repeat split; auto.
  - destruct (wrap_items_ok _ _ _ _ _ _ _ _ H Hok) as [L [E [A [B [K [M N]]]]]].
    repeat split; auto.
  - inversion H; subst. repeat split; auto.
Qed.

(** * The edits commute with the abstraction *)

Lemma append_abs : forall h nx A o h' nx' R,
  append (h, nx) A o = ((h', nx'), Ok R) -> bounded nx A -> operand_ok nx o ->
  abs h' R = abs h A ++ coerce h o /\ abs h' A = abs h A /\ (nx <= nx')%nat /\ bounded nx' R.
Proof.
  intros h nx A o h' nx' R H BA Hok. unfold append in H. simpl fst in H.
  destruct (wrap_operand (arr_unit h A) (arr_name h A) (h, nx) o) as [[h1 nx1] [V|e]] eqn:W; [|discriminate].
  inversion H; subst. clear H.
  destruct (wrap_operand_ok _ _ _ _ _ _ _ _ W Hok) as [L [E [AV [BV _]]]].
  assert (S1 : same_ve h1 (relabel true h1 A (A ++ V) 0)) by apply same_ve_relabel.
  repeat split; auto.
  - rewrite (abs_same_ve _ _ _ S1). unfold abs at 1. rewrite map_app. fold (abs h1 A) (abs h1 V).
    rewrite AV. f_equal. eapply abs_ext_ve; eauto.
  - rewrite (abs_same_ve _ _ _ S1). eapply abs_ext_ve; eauto.
  - intros id Hin. apply in_app_or in Hin. destruct Hin as [Hin|Hin]; [specialize (BA _ Hin); lia | apply BV; auto].
Qed.

Lemma in_firstn : forall {T} i (l : list T) x, In x (firstn i l) -> In x l.
Proof.
  intros T i l x H. rewrite <- (firstn_skipn i l). apply in_or_app. left. exact H.
Qed.
Lemma bounded_firstn : forall nx i A, bounded nx A -> bounded nx (firstn i A).
Proof. intros nx i A B id Hin. apply B. eapply in_firstn; eauto. Qed.
Lemma in_skipn : forall {T} i (l : list T) x, In x (skipn i l) -> In x l.
Proof.
  intros T i l x H. rewrite <- (firstn_skipn i l). apply in_or_app. right. exact H.
Qed.
Lemma bounded_skipn : forall nx i A, bounded nx A -> bounded nx (skipn i A).
Proof. intros nx i A B id Hin. apply B. eapply in_skipn; eauto. Qed.

Lemma abs_app : forall h A B, abs h (A ++ B) = abs h A ++ abs h B.
Proof. intros. unfold abs. apply map_app. Qed.
Lemma abs_firstn : forall h i A, abs h (firstn i A) = firstn i (abs h A).
Proof. intros. unfold abs. symmetry. apply firstn_map. Qed.
Lemma abs_skipn : forall h i A, abs h (skipn i A) = skipn i (abs h A).
Proof. intros. unfold abs. symmetry. apply skipn_map. Qed.

Lemma insert_abs : forall h nx A k o h' nx' R,
  insert (h, nx) A k o = ((h', nx'), Ok R) -> bounded nx A -> operand_ok nx o ->
  exists i, norm_index (length A) k true = Some i /\
  abs h' R = firstn i (abs h A) ++ coerce h o ++ skipn i (abs h A) /\ abs h' A = abs h A
  /\ (nx <= nx')%nat /\ bounded nx' R.
Proof.
  intros h nx A k o h' nx' R H BA Hok. unfold insert in H. simpl fst in H.
  destruct (wrap_operand (arr_unit h A) (arr_name h A) (h, nx) o) as [[h1 nx1] [V|e]] eqn:W; [|discriminate].
  destruct (norm_index (length A) k true) as [i|] eqn:NI; [|discriminate].
  inversion H; subst. clear H. exists i. split; auto.
  destruct (wrap_operand_ok _ _ _ _ _ _ _ _ W Hok) as [L [E [AV [BV _]]]].
  assert (S1 : same_ve h1 (relabel true h1 A (firstn i A ++ V ++ skipn i A) 0)) by apply same_ve_relabel.
  assert (EA : abs h1 A = abs h A) by (eapply abs_ext_ve; eauto).
  repeat split; auto.
  - rewrite (abs_same_ve _ _ _ S1). rewrite !abs_app, abs_firstn, abs_skipn, AV, EA. reflexivity.
  - rewrite (abs_same_ve _ _ _ S1). exact EA.
  - intros id Hin. apply in_app_or in Hin. destruct Hin as [Hin|Hin].
    + apply in_firstn in Hin. specialize (BA _ Hin). lia.
    + apply in_app_or in Hin. destruct Hin as [Hin|Hin]; [apply BV; auto|].
      apply in_skipn in Hin. specialize (BA _ Hin). lia.
Qed.

Lemma remove_nth_map : forall {T U} (f : T -> U) i l, remove_nth i (map f l) = map f (remove_nth i l).
Proof.
  intros T U f i l. revert i. induction l as [|x l IH]; intros i; simpl; [destruct i; reflexivity|].
  destruct i; simpl; auto. rewrite IH. reflexivity.
Qed.
Lemma in_remove_nth : forall {T} i (l : list T) x, In x (remove_nth i l) -> In x l.
Proof.
  intros T i l. revert i. induction l as [|y l IH]; intros i x H; simpl in *; [destruct i; auto|].
  destruct i; simpl in *; auto. destruct H as [H|H]; auto. right. eapply IH; eauto.
Qed.

Lemma delete_abs : forall h nx A k h' nx' R,
  delete (h, nx) A k = ((h', nx'), Ok R) ->
  exists i, norm_index (length A) k false = Some i /\
  abs h' R = remove_nth i (abs h A) /\ abs h' A = abs h A /\ nx' = nx /\ (bounded nx A -> bounded nx R).
Proof.
  intros h nx A k h' nx' R H. unfold delete in H.
  destruct (norm_index (length A) k false) as [i|] eqn:NI; [|discriminate].
  inversion H; subst. clear H. exists i. split; auto.
  assert (S1 : same_ve h (relabel false h A (remove_nth i A) 0)) by apply same_ve_relabel.
  repeat split; auto.
  - rewrite (abs_same_ve _ _ _ S1). unfold abs. symmetry. apply remove_nth_map.
  - apply (abs_same_ve _ _ _ S1).
  - intros B id Hin. apply B. eapply in_remove_nth; eauto.
Qed.

Lemma update_map : forall {T U} (f : T -> U) i x l, update i (f x) (map f l) = map f (update i x l).
Proof.
  intros T U f i x l. revert i. induction l as [|y l IH]; intros i; simpl; [destruct i; reflexivity|].
  destruct i; simpl; auto. rewrite IH. reflexivity.
Qed.

Lemma norm_index_lt : forall n k i, norm_index n k false = Some i -> (i < n)%nat.
Proof.
  intros n k i H. unfold norm_index in H.
  destruct ((k <? - Z.of_nat n)%Z) eqn:E1; simpl in H; [discriminate|].
  destruct ((k >=? Z.of_nat n)%Z) eqn:E2; [discriminate|].
  inversion H; subst. clear H.
  apply Z.ltb_ge in E1. rewrite Z.geb_leb in E2. apply Z.leb_gt in E2.
  destruct (k <? 0)%Z eqn:E3; [apply Z.ltb_lt in E3 | apply Z.ltb_ge in E3]; lia.
Qed.
Lemma norm_index_le : forall n k i, norm_index n k true = Some i -> (i <= n)%nat.
Proof.
  intros n k i H. unfold norm_index in H.
  destruct ((k <? - Z.of_nat n)%Z) eqn:E1; simpl in H; [discriminate|].
  destruct ((k >? Z.of_nat n)%Z) eqn:E2; [discriminate|].
  inversion H; subst. clear H.
  apply Z.ltb_ge in E1. rewrite Z.gtb_ltb in E2. apply Z.ltb_ge in E2.
  destruct (k <? 0)%Z eqn:E3; [apply Z.ltb_lt in E3 | apply Z.ltb_ge in E3]; lia.
Qed.

(** assigning a bare number: the element object is mutated; with distinct element objects only
    position i of the list changes, and the uncertainty is kept *)
Lemma update_value_abs : forall A h i x, NoDup A -> (i < length A)%nat ->
  abs (set_value h (nth i A 0%nat) x) A = update i (x, snd (nth i (abs h A) (0, 0))) (abs h A).
Proof.
  induction A as [|a A IH]; intros h i x ND Hi; simpl in Hi; [lia|].
  inversion ND as [|? ? Hnot ND']; subst.
  destruct i as [|i]; simpl.
  - f_equal.
    + unfold pair_of, set_value. rewrite upd_same. reflexivity.
    + unfold abs. apply map_ext_in. intros id Hin. unfold pair_of, set_value.
      rewrite upd_other; auto. intros C; subst; contradiction.
  - f_equal.
    + unfold pair_of, set_value. rewrite upd_other; auto.
      intros C. apply Hnot. rewrite C. apply nth_In. lia.
    + apply IH; auto. lia.
Qed.

Lemma setitem_num_abs : forall h nx A k x h' nx' A',
  setitem (h, nx) A k (OItem (INum x)) = ((h', nx'), Ok A') -> NoDup A ->
  exists i, norm_index (length A) k false = Some i /\ A' = A /\ nx' = nx /\
  abs h' A' = update i (x, snd (nth i (abs h A) (0, 0))) (abs h A).
Proof.
  intros h nx A k x h' nx' A' H ND. simpl in H.
  destruct (norm_index (length A) k false) as [i|] eqn:NI; [|discriminate].
  inversion H; subst. clear H. exists i. repeat split; auto.
  apply update_value_abs; auto. eapply norm_index_lt; eauto.
Qed.

Lemma setitem_other_abs : forall h nx A k it h' nx' A',
  (forall x, it <> INum x) ->
  setitem (h, nx) A k (OItem it) = ((h', nx'), Ok A') -> bounded nx A -> item_ok nx it ->
  exists i id, norm_index (length A) k false = Some i /\ A' = update i id A /\
  abs h' A' = update i (coerce_item h it) (abs h A) /\ (nx <= nx')%nat /\ bounded nx' A'
  /\ (match it with IMeas m => id = m | _ => id = nx end).
Proof.
  intros h nx A k it h' nx' A' Hnn H BA Hok.
  assert (H' : match wrap_item (arr_unit h A) (arr_name h A) (h, nx) it with
               | (s1, Raise e) => (s1, Raise e)
               | ((h1, nx1), Ok id) =>
                   match norm_index (length A) k false with
                   | None => ((h1, nx1), Raise IndexError)
                   | Some i =>
                       let nm := arr_name h A in
                       let h2 := if is_nil nm then h1 else set_name h1 id (idx_name nm i) in
                       ((h2, nx1), Ok (update i id A))
                   end
               end = ((h', nx'), Ok A')).
  { destruct it; try exact H. exfalso. eapply Hnn; reflexivity. }
  clear H.
  destruct (wrap_item (arr_unit h A) (arr_name h A) (h, nx) it) as [[h1 nx1] [id|e]] eqn:W; [|discriminate].
  destruct (norm_index (length A) k false) as [i|] eqn:NI; [|discriminate].
  cbv zeta in H'. inversion H'; subst. clear H'.
  destruct (wrap_item_ok _ _ _ _ _ _ _ _ W Hok) as [L [E [P [B [K Kind]]]]].
  exists i, id. repeat split; auto.
  - set (h2 := if is_nil (arr_name h A) then h1 else set_name h1 id (idx_name (arr_name h A) i)).
    assert (S2 : same_ve h1 h2).
    { unfold h2. destruct (is_nil (arr_name h A)); [apply same_ve_refl | apply same_ve_set_name]. }
    rewrite (abs_same_ve _ _ _ S2).
    rewrite <- P. unfold abs. rewrite <- update_map. f_equal.
    apply map_ext_in. intros j Hj. apply E. apply BA. exact Hj.
  - intros j Hj. clear - Hj BA B L.
    revert i Hj. induction A as [|a A IH]; intros i Hj; simpl in Hj; [destruct i; contradiction|].
    destruct i; simpl in Hj.
    + destruct Hj as [Hj|Hj]; [subst; auto|]. assert (j < nx)%nat by (apply BA; right; auto). lia.
    + destruct Hj as [Hj|Hj]; [subst; assert (j < nx)%nat by (apply BA; left; auto); lia|].
      eapply IH; eauto. intros z Hz. apply BA. right. exact Hz.
  - destruct it; destruct Kind; auto.
Qed.

(** * Names and units after an edit *)

Lemma arr_name_set_name_other : forall h A id n, hd_error A <> Some id -> arr_name (set_name h id n) A = arr_name h A.
Proof.
  intros h A id n H. destruct A as [|a A]; simpl; auto.
  unfold set_name. rewrite upd_other; auto. intros C; subst; apply H; reflexivity.
Qed.

Lemma relabel_inv_step : forall h A id n j u,
  arr_name h A = n -> arr_unit h A = u ->
  let h1 := set_name h id (idx_name n j) in
  arr_name h1 A = n /\ arr_unit h1 A = u.
Proof.
  intros h A id n j u Hn Hu. destruct A as [|a A]; simpl in *; auto.
  unfold set_name, upd. destruct (Nat.eqb a id) eqn:E.
  - apply Nat.eqb_eq in E. subst a. simpl. split; [apply strip_idx_name | exact Hu].
  - split; assumption.
Qed.

Lemma relabel_spec : forall wu R h A j0 n u,
  NoDup R -> arr_name h A = n -> arr_unit h A = u ->
  let h' := relabel wu h A R j0 in
  (forall j, (j < length R)%nat ->
     en (h' (nth j R 0%nat)) = idx_name n (j0 + j) /\
     eu (h' (nth j R 0%nat)) = if wu then u else eu (h (nth j R 0%nat)))
  /\ (forall id, ~ In id R -> h' id = h id)
  /\ arr_name h' A = n /\ arr_unit h' A = u.
Proof.
  intros wu R. induction R as [|id R IH]; intros h A j0 n u ND Hn Hu; simpl.
  - split; [|split; [|split]]; auto. intros j Hj. simpl in Hj. lia.
  - inversion ND as [|? ? Hnot ND']; subst.
    set (h1 := set_name h id (idx_name (arr_name h A) j0)).
    destruct (relabel_inv_step h A id (arr_name h A) j0 (arr_unit h A) eq_refl eq_refl) as [N1 U1].
    fold h1 in N1, U1.
    set (h2 := if wu then set_unit h1 id (arr_unit h1 A) else h1).
    assert (N2 : arr_name h2 A = arr_name h A).
    { unfold h2. destruct wu; auto. destruct A as [|a A]; simpl in *; auto.
      unfold set_unit, upd. destruct (Nat.eqb a id) eqn:E; auto.
      apply Nat.eqb_eq in E. subst a. simpl. exact N1. }
    assert (U2 : arr_unit h2 A = arr_unit h A).
    { unfold h2. destruct wu; auto. destruct A as [|a A]; simpl in *; auto.
      unfold set_unit, upd. destruct (Nat.eqb a id) eqn:E; auto. }
    destruct (IH h2 A (S j0) (arr_name h A) (arr_unit h A) ND' N2 U2) as [HJ [HO [HN HU]]].
    assert (Hid : h2 id = mkElem (ev (h id)) (ee (h id)) (idx_name (arr_name h A) j0)
                                 (if wu then arr_unit h A else eu (h id))).
    { unfold h2, h1. destruct wu.
      - unfold set_unit. rewrite upd_same. unfold set_name at 1 2 3. rewrite !upd_same. simpl.
        fold h1. rewrite U1. reflexivity.
      - unfold set_name. rewrite upd_same. reflexivity. }
    split; [|split; [|split]].
    + intros j Hj. destruct j as [|j]; cbn [nth].
      * rewrite (HO id Hnot), Hid. simpl. rewrite Nat.add_0_r. split; reflexivity.
      * assert (Hj' : (j < length R)%nat) by (simpl in Hj; lia).
        destruct (HJ j Hj') as [E1 E2]. split.
        -- rewrite E1. f_equal. lia.
        -- rewrite E2. destruct wu; [reflexivity|].
           unfold h2, h1, set_name. rewrite upd_other; auto.
           intros C. apply Hnot. rewrite <- C. apply nth_In. exact Hj'.
    + intros x Hx. rewrite HO by (intros C; apply Hx; right; exact C).
      assert (x <> id) by (intros C; apply Hx; left; auto).
      unfold h2, h1. destruct wu; unfold set_unit, set_name; rewrite ?upd_other; auto.
    + exact HN.
    + exact HU.
Qed.

(** * Well-formed operands, frame properties of the coercion *)

Lemma wrap_item_wf : forall u n s it, (exists s1 id, wrap_item u n s it = (s1, Ok id)) <-> item_wf it = true.
Proof.
  intros u n [h nx] it. destruct it as [x|x e|m|e]; simpl.
  - split; eauto.
  - destruct (Qle_bool 0 e); split; eauto; try discriminate. intros [s1 [id H]]. discriminate.
  - split; eauto.
  - split; [intros [s1 [id H]]; discriminate | discriminate].
Qed.

Lemma wrap_items_wf : forall u n l s, (exists s1 ids, wrap_items u n s l = (s1, Ok ids)) <-> forallb item_wf l = true.
Proof.
  intros u n l. induction l as [|it r IH]; intros s; cbn [wrap_items forallb].
  - split; eauto.
  - destruct (wrap_item u n s it) as [s1 [id|e]] eqn:W.
    + assert (Hw : item_wf it = true) by (apply (wrap_item_wf u n s it); eauto).
      rewrite Hw. simpl. rewrite <- (IH s1).
      destruct (wrap_items u n s1 r) as [s2 [ids|e]]; split; eauto;
        intros [s3 [ids' H]]; discriminate.
    + assert (Hw : item_wf it = false).
      { destruct (item_wf it) eqn:E; auto. apply (wrap_item_wf u n s it) in E.
        destruct E as [s2 [id E]]. rewrite W in E. discriminate. }
      rewrite Hw. simpl. split; [intros [s3 [ids H]]; discriminate | discriminate].
Qed.

Lemma wrap_operand_wf : forall u n o s, (exists s1 V, wrap_operand u n s o = (s1, Ok V)) <-> operand_wf o = true.
Proof.
  intros u n o s. destruct o as [it|l|B]; cbn [wrap_operand operand_wf].
  - rewrite (wrap_items_wf u n [it] s). simpl. rewrite andb_true_r. reflexivity.
  - apply wrap_items_wf.
  - split; eauto.
Qed.

(** whatever the outcome, objects that existed keep value and error; objects that are not operands
    are not touched at all *)
Lemma wrap_item_any : forall u n h nx it h1 nx1 r,
  wrap_item u n (h, nx) it = ((h1, nx1), r) ->
  (nx <= nx1)%nat /\ ext_ve nx h h1 /\ (forall id, (id < nx)%nat -> ~ In id (meas_ids [it]) -> h1 id = h id).
Proof.
  intros u n h nx it h1 nx1 r H. destruct it as [x|x e|m|e]; simpl in H.
  - inversion H; subst. repeat split; try lia.
    + intros j Hj. unfold pair_of. rewrite upd_other by lia. reflexivity.
    + intros j Hj _. apply upd_other. lia.
  - destruct (Qle_bool 0 e); inversion H; subst.
    + split; [lia|]. split.
      * intros j Hj. unfold pair_of. rewrite upd_other by lia. reflexivity.
      * intros j Hj _. apply upd_other. lia.
    + split; [lia|]. split; [intros j Hj; reflexivity | auto].
  - inversion H; subst. repeat split; try lia.
    + intros j Hj. transitivity (pair_of (set_name h m n) j); [apply same_ve_set_unit | apply same_ve_set_name].
    + intros j Hj Hn. simpl in Hn. unfold set_unit, set_name. rewrite !upd_other; auto.
  - inversion H; subst. split; [lia|]. split; [intros j Hj; reflexivity | auto].
Qed.

Lemma wrap_items_any : forall u n l h nx h1 nx1 r,
  wrap_items u n (h, nx) l = ((h1, nx1), r) ->
  (nx <= nx1)%nat /\ ext_ve nx h h1 /\ (forall id, (id < nx)%nat -> ~ In id (meas_ids l) -> h1 id = h id).
Proof.
  intros u n l. induction l as [|it l IH]; intros h nx h1 nx1 r H; cbn [wrap_items] in H.
  - inversion H; subst. split; [lia|]. split; [intros j Hj; reflexivity | auto].
  - destruct (wrap_item u n (h, nx) it) as [[h2 nx2] [id|e]] eqn:W.
    + destruct (wrap_item_any _ _ _ _ _ _ _ _ W) as [L1 [E1 F1]].
      destruct (wrap_items u n (h2, nx2) l) as [[h3 nx3] r3] eqn:W2.
      destruct (IH _ _ _ _ _ W2) as [L2 [E2 F2]].
      assert (h3 = h1 /\ nx3 = nx1) as [-> ->] by (destruct r3; inversion H; auto).
      repeat split; try lia.
      * intros j Hj. rewrite E2 by lia. apply E1; auto.
      * intros j Hj Hn. rewrite F2; [apply F1; auto | lia |].
        -- intros C. apply Hn. destruct it; simpl in *; try contradiction. destruct C as [C|[]]. left; exact C.
        -- intros C. apply Hn. destruct it; simpl; auto.
    + inversion H; subst. destruct (wrap_item_any _ _ _ _ _ _ _ _ W) as [L1 [E1 F1]].
      repeat split; auto. intros j Hj Hn. apply F1; auto.
      intros C. apply Hn. destruct it; simpl in *; try contradiction. destruct C as [C|[]]. left. exact C.
Qed.

Lemma wrap_operand_any : forall u n o h nx h1 nx1 r,
  wrap_operand u n (h, nx) o = ((h1, nx1), r) ->
  (nx <= nx1)%nat /\ ext_ve nx h h1 /\
  (forall id, (id < nx)%nat -> ~ In id (operand_ids o) -> h1 id = h id).
Proof.
  intros u n o h nx h1 nx1 r H. destruct o as [it|l|B]; cbn [wrap_operand operand_ids] in *.
  - eapply wrap_items_any; eauto.
  - eapply wrap_items_any; eauto.
  - inversion H; subst. split; [lia|]. split; [intros j Hj; reflexivity | auto].
Qed.

(** * Invariant of an array inside a session *)

Definition disjoint (l m : list nat) : Prop := forall x, In x l -> ~ In x m.
Definition fresh_operand (A : arr) (o : operand) : Prop :=
  NoDup (operand_ids o) /\ disjoint (operand_ids o) A.

(** every element carries the unit [u]; when the name [n] is not empty, element j is named n_j *)
Definition named (h : heap) (A : arr) (n : str) (u : N) : Prop :=
  forall j, (j < length A)%nat ->
    eu (h (nth j A 0%nat)) = u /\ (n <> [] -> en (h (nth j A 0%nat)) = idx_name n j).

Definition inv (s : hs) (A : arr) : Prop :=
  NoDup A /\ bounded (snd s) A /\ named (fst s) A (arr_name (fst s) A) (arr_unit (fst s) A).

Lemma NoDup_app_intro : forall (l m : list nat), NoDup l -> NoDup m -> disjoint m l -> NoDup (l ++ m).
Proof.
  induction l as [|x l IH]; intros m Hl Hm D; simpl; auto.
  inversion Hl; subst. constructor.
  - intros C. apply in_app_or in C. destruct C as [C|C]; [contradiction|].
    apply (D x C). left. reflexivity.
  - apply IH; auto. intros y Hy C. apply (D y Hy). right. exact C.
Qed.

Lemma NoDup_remove_nth : forall i (l : list nat), NoDup l -> NoDup (remove_nth i l).
Proof.
  intros i l. revert i. induction l as [|x l IH]; intros i H; simpl; [destruct i; constructor|].
  inversion H; subst. destruct i; auto. constructor; auto.
  intros C. apply in_remove_nth in C. contradiction.
Qed.

Lemma nth_update_same : forall {T} i (x d : T) l, (i < length l)%nat -> nth i (update i x l) d = x.
Proof.
  intros T i x d l. revert i. induction l as [|y l IH]; intros i H; simpl in H; [lia|].
  destruct i; simpl; auto. apply IH. lia.
Qed.
Lemma nth_update_other : forall {T} i j (x d : T) l, i <> j -> nth j (update i x l) d = nth j l d.
Proof.
  intros T i j x d l. revert i j. induction l as [|y l IH]; intros i j H; simpl; [destruct i; reflexivity|].
  destruct i, j; simpl; auto; try lia.
Qed.
Lemma length_update : forall {T} i (x : T) l, length (update i x l) = length l.
Proof.
  intros T i x l. revert i. induction l as [|y l IH]; intros i; simpl; [destruct i; reflexivity|].
  destruct i; simpl; auto.
Qed.
Lemma in_update : forall {T} i (x y : T) l, In y (update i x l) -> y = x \/ In y l.
Proof.
  intros T i x y l. revert i. induction l as [|z l IH]; intros i H; simpl in *; [destruct i; simpl in H; contradiction|].
  destruct i; simpl in H.
  - destruct H; auto.
  - destruct H as [H|H]; auto. destruct (IH _ H); auto.
Qed.
Lemma NoDup_update : forall i (x : nat) l, NoDup l -> ~ In x l -> NoDup (update i x l).
Proof.
  intros i x l. revert i. induction l as [|y l IH]; intros i ND Hx; simpl; [destruct i; constructor|].
  inversion ND; subst. destruct i.
  - constructor; auto. intros C. apply Hx. right. exact C.
  - constructor.
    + intros C. apply in_update in C. destruct C as [C|C]; [subst; apply Hx; left; reflexivity | contradiction].
    + apply IH; auto. intros C. apply Hx. right. exact C.
Qed.

Lemma length_abs : forall h A, length (abs h A) = length A.
Proof. intros. unfold abs. apply map_length. Qed.

(** the name and unit of a non-empty result are those its element 0 was given *)
Lemma name_unit_of_named0 : forall h R n u,
  R <> [] -> en (h (nth 0 R 0%nat)) = idx_name n 0 -> eu (h (nth 0 R 0%nat)) = u ->
  arr_name h R = n /\ arr_unit h R = u.
Proof.
  intros h R n u NE Hn Hu. destruct R as [|a R]; [contradiction|]. simpl in *.
  rewrite Hn. split; [apply strip_idx_name | exact Hu].
Qed.

(** what the relabelling loop of append / insert establishes *)
Lemma relabel_true_named : forall h1 A R n u,
  NoDup R -> arr_name h1 A = n -> arr_unit h1 A = u ->
  let h' := relabel true h1 A R 0 in
  named h' R (arr_name h' R) (arr_unit h' R) /\
  (forall j, (j < length R)%nat -> en (h' (nth j R 0%nat)) = idx_name n j /\ eu (h' (nth j R 0%nat)) = u) /\
  (R <> [] -> arr_name h' R = n /\ arr_unit h' R = u).
Proof.
  intros h1 A R n u ND Hn Hu h'.
  destruct (relabel_spec true R h1 A 0 n u ND Hn Hu) as [HJ _]. fold h' in HJ. simpl in HJ.
  assert (HNU : R <> [] -> arr_name h' R = n /\ arr_unit h' R = u).
  { intros NE. assert (L : (0 < length R)%nat) by (destruct R; [contradiction | simpl; lia]).
    destruct (HJ _ L) as [E1 E2]. apply name_unit_of_named0; auto. }
  split; [|split]; auto.
  intros j Hj. assert (NE : R <> []) by (intros C; subst; simpl in Hj; lia).
  destruct (HNU NE) as [-> ->]. destruct (HJ j Hj) as [E1 E2]. split; auto.
Qed.

(** * One edit: refinement step, invariant, names and units *)

Definition edit_operand_ids (e : edit) : list nat :=
  match e with
  | EAppend o | EInsert _ o => operand_ids o
  | EDelete _ => []
  | ESet _ it => meas_ids [it]
  end.
(** operands are existing objects, distinct from each other and from the elements of the array *)
Definition edit_ok (nx : nat) (A : arr) (e : edit) : Prop :=
  (forall id, In id (edit_operand_ids e) -> (id < nx)%nat) /\ NoDup (edit_operand_ids e)
  /\ disjoint (edit_operand_ids e) A.

Lemma items_ok_of_ids : forall nx l, (forall id, In id (meas_ids l) -> (id < nx)%nat) -> Forall (item_ok nx) l.
Proof.
  intros nx l. induction l as [|it l IH]; intros H; constructor.
  - destruct it; simpl; auto. apply H. simpl. left. reflexivity.
  - apply IH. intros id Hid. apply H. destruct it; simpl; auto.
Qed.
Lemma operand_ok_of_ids : forall nx o, (forall id, In id (operand_ids o) -> (id < nx)%nat) -> operand_ok nx o.
Proof.
  intros nx o H. destruct o as [it|l|B]; simpl in *.
  - destruct it; simpl; auto. apply H. simpl. left. reflexivity.
  - apply items_ok_of_ids. exact H.
  - exact H.
Qed.

Lemma frame_name_unit : forall h h1 A, (forall id, In id A -> h1 id = h id) ->
  arr_name h1 A = arr_name h A /\ arr_unit h1 A = arr_unit h A.
Proof.
  intros h h1 A F. destruct A as [|a A]; simpl; auto. rewrite (F a) by (left; reflexivity). auto.
Qed.
Lemma frame_named : forall h h1 A n u, (forall id, In id A -> h1 id = h id) -> named h A n u -> named h1 A n u.
Proof.
  intros h h1 A n u F H j Hj. rewrite (F (nth j A 0%nat)) by (apply nth_In; exact Hj). apply H. exact Hj.
Qed.
Lemma frame_inv : forall h nx h1 nx1 A, (forall id, In id A -> h1 id = h id) -> (nx <= nx1)%nat ->
  inv (h, nx) A -> inv (h1, nx1) A.
Proof.
  intros h nx h1 nx1 A F L [ND [B Nm]]. simpl in *. destruct (frame_name_unit h h1 A F) as [E1 E2].
  split; [|split]; simpl; auto.
  - eapply bounded_mono; eauto.
  - rewrite E1, E2. eapply frame_named; eauto.
Qed.

Lemma operand_frame : forall u n o h nx h1 nx1 r A,
  wrap_operand u n (h, nx) o = ((h1, nx1), r) -> bounded nx A -> disjoint (operand_ids o) A ->
  forall id, In id A -> h1 id = h id.
Proof.
  intros u n o h nx h1 nx1 r A W B D id Hin.
  destruct (wrap_operand_any _ _ _ _ _ _ _ _ W) as [_ [_ F]].
  apply F; auto. intros C. apply (D id C Hin).
Qed.

Lemma disjoint_result : forall nx A o V,
  bounded nx A -> disjoint (operand_ids o) A ->
  (forall id, In id V -> In id (operand_ids o) \/ (nx <= id)%nat) -> disjoint V A.
Proof.
  intros nx A o V B D M id Hin C. destruct (M id Hin) as [H|H].
  - apply (D id H C).
  - specialize (B id C). lia.
Qed.

Definition step_ok (h : heap) (nx : nat) (A : arr) (e : edit) (s1 : hs) (R : arr) : Prop :=
  list_edit (abs h A) (abstract_edit h e) = Some (abs (fst s1) R) /\ inv s1 R /\ (nx <= snd s1)%nat /\
  named (fst s1) R (arr_name h A) (arr_unit h A) /\
  (R <> [] -> arr_name (fst s1) R = arr_name h A /\ arr_unit (fst s1) R = arr_unit h A) /\
  (match e with ESet _ _ => True | _ => abs (fst s1) A = abs h A end).
Definition step_raise (h : heap) (nx : nat) (A : arr) (e : edit) (s1 : hs) : Prop :=
  list_edit (abs h A) (abstract_edit h e) = None /\ abs (fst s1) A = abs h A /\ inv s1 A /\ (nx <= snd s1)%nat.

Lemma named_weaken : forall h R n u,
  (forall j, (j < length R)%nat -> en (h (nth j R 0%nat)) = idx_name n j /\ eu (h (nth j R 0%nat)) = u) ->
  named h R n u.
Proof. intros h R n u H j Hj. destruct (H j Hj) as [E1 E2]. split; auto. Qed.

Lemma append_step : forall h nx A o, inv (h, nx) A -> edit_ok nx A (EAppend o) ->
  match append (h, nx) A o with
  | (s1, Ok R) => step_ok h nx A (EAppend o) s1 R
  | (s1, Raise _) => step_raise h nx A (EAppend o) s1
  end.
Proof.
  intros h nx A o [ND [BA Nm]] [Hlt [NDo Dj]]. simpl in *.
  assert (Hok : operand_ok nx o) by (apply operand_ok_of_ids; exact Hlt).
  destruct (append (h, nx) A o) as [[h' nx'] [R|x]] eqn:EA.
  - destruct (append_abs _ _ _ _ _ _ _ EA BA Hok) as [AR [AA [L BR]]].
    unfold append in EA. simpl fst in EA.
    destruct (wrap_operand (arr_unit h A) (arr_name h A) (h, nx) o) as [[h1 nx1] [V|e]] eqn:W; [|discriminate].
    inversion EA; subst. clear EA.
    destruct (wrap_operand_ok _ _ _ _ _ _ _ _ W Hok) as [_ [_ [_ [_ [M N]]]]].
    assert (Hwf : operand_wf o = true) by (apply (wrap_operand_wf (arr_unit h A) (arr_name h A) o (h, nx)); eauto).
    destruct (frame_name_unit h h1 A (operand_frame _ _ _ _ _ _ _ _ _ W BA Dj)) as [E1 E2].
    assert (NDR : NoDup (A ++ V)).
    { apply NoDup_app_intro; auto. eapply disjoint_result; eauto. }
    destruct (relabel_true_named h1 A (A ++ V) _ _ NDR E1 E2) as [NM [NJ NU]].
    unfold step_ok. simpl. rewrite Hwf. simpl. rewrite AR.
    split; [reflexivity|]. split; [|split; [exact L|split; [apply named_weaken; exact NJ | split; [exact NU | exact AA]]]].
    split; [exact NDR | split; [exact BR | exact NM]].
  - unfold append in EA. simpl fst in EA.
    destruct (wrap_operand (arr_unit h A) (arr_name h A) (h, nx) o) as [[h1 nx1] [V|e]] eqn:W; [discriminate|].
    inversion EA; subst. clear EA.
    assert (Hwf : operand_wf o = false).
    { destruct (operand_wf o) eqn:E; auto.
      apply (wrap_operand_wf (arr_unit h A) (arr_name h A) o (h, nx)) in E. destruct E as [s2 [V E]].
      rewrite W in E. discriminate. }
    destruct (wrap_operand_any _ _ _ _ _ _ _ _ W) as [L [E _]].
    unfold step_raise. simpl. rewrite Hwf. split; [reflexivity|]. split; [eapply abs_ext_ve; eauto|].
    split; [|exact L].
    eapply frame_inv; [eapply operand_frame; eauto | exact L | split; [|split]; auto].
Qed.

Lemma NoDup_insert_at : forall i (A V : list nat), NoDup A -> NoDup V -> disjoint V A ->
  NoDup (firstn i A ++ V ++ skipn i A).
Proof.
  intros i A V NA NV D.
  rewrite <- (firstn_skipn i A) in NA, D.
  assert (D1 : disjoint V (firstn i A)) by (intros x Hx C; apply (D x Hx); apply in_or_app; left; exact C).
  assert (D2 : disjoint V (skipn i A)) by (intros x Hx C; apply (D x Hx); apply in_or_app; right; exact C).
  revert NA D1 D2. generalize (firstn i A) as F. generalize (skipn i A) as S. clear D.
  intros S F. induction F as [|x F IH]; intros NA D1 D2; simpl in *.
  - apply NoDup_app_intro; auto. intros y Hy C. apply (D2 y C Hy).
  - inversion NA; subst. constructor.
    + intros C. apply in_app_or in C. destruct C as [C|C]; [apply H1; apply in_or_app; left; exact C|].
      apply in_app_or in C. destruct C as [C|C]; [apply (D1 x C); left; reflexivity|].
      apply H1. apply in_or_app. right. exact C.
    + apply IH; auto. intros y Hy C. apply (D1 y Hy). right. exact C.
Qed.

Lemma insert_step : forall h nx A k o, inv (h, nx) A -> edit_ok nx A (EInsert k o) ->
  match insert (h, nx) A k o with
  | (s1, Ok R) => step_ok h nx A (EInsert k o) s1 R
  | (s1, Raise _) => step_raise h nx A (EInsert k o) s1
  end.
Proof.
  intros h nx A k o [ND [BA Nm]] [Hlt [NDo Dj]]. simpl in *.
  assert (Hok : operand_ok nx o) by (apply operand_ok_of_ids; exact Hlt).
  destruct (insert (h, nx) A k o) as [[h' nx'] [R|x]] eqn:EA.
  - destruct (insert_abs _ _ _ _ _ _ _ _ EA BA Hok) as [i [NI [AR [AA [L BR]]]]].
    unfold insert in EA. simpl fst in EA.
    destruct (wrap_operand (arr_unit h A) (arr_name h A) (h, nx) o) as [[h1 nx1] [V|e]] eqn:W; [|discriminate].
    rewrite NI in EA. inversion EA; subst. clear EA.
    destruct (wrap_operand_ok _ _ _ _ _ _ _ _ W Hok) as [_ [_ [_ [_ [M N]]]]].
    assert (Hwf : operand_wf o = true) by (apply (wrap_operand_wf (arr_unit h A) (arr_name h A) o (h, nx)); eauto).
    destruct (frame_name_unit h h1 A (operand_frame _ _ _ _ _ _ _ _ _ W BA Dj)) as [E1 E2].
    assert (NDR : NoDup (firstn i A ++ V ++ skipn i A)).
    { apply NoDup_insert_at; auto. eapply disjoint_result; eauto. }
    destruct (relabel_true_named h1 A _ _ _ NDR E1 E2) as [NM [NJ NU]].
    unfold step_ok. simpl. rewrite Hwf. simpl. rewrite length_abs, NI. simpl. rewrite AR.
    split; [reflexivity|]. split; [|split; [exact L|split; [apply named_weaken; exact NJ | split; [exact NU | exact AA]]]].
    split; [exact NDR | split; [exact BR | exact NM]].
  - unfold insert in EA. simpl fst in EA.
    destruct (wrap_operand (arr_unit h A) (arr_name h A) (h, nx) o) as [[h1 nx1] [V|e]] eqn:W.
    + destruct (norm_index (length A) k true) as [i|] eqn:NI; [discriminate|].
      inversion EA; subst. clear EA.
      destruct (wrap_operand_any _ _ _ _ _ _ _ _ W) as [L [E _]].
      unfold step_raise. simpl. destruct (operand_wf o); simpl; rewrite ?length_abs, ?NI; simpl.
      * split; [reflexivity|]. split; [eapply abs_ext_ve; eauto|]. split; [|exact L].
        eapply frame_inv; [eapply operand_frame; eauto | exact L | split; [|split]; auto].
      * split; [reflexivity|]. split; [eapply abs_ext_ve; eauto|]. split; [|exact L].
        eapply frame_inv; [eapply operand_frame; eauto | exact L | split; [|split]; auto].
    + inversion EA; subst. clear EA.
      assert (Hwf : operand_wf o = false).
      { destruct (operand_wf o) eqn:E; auto.
        apply (wrap_operand_wf (arr_unit h A) (arr_name h A) o (h, nx)) in E. destruct E as [s2 [V E]].
        rewrite W in E. discriminate. }
      destruct (wrap_operand_any _ _ _ _ _ _ _ _ W) as [L [E _]].
      unfold step_raise. simpl. rewrite Hwf. split; [reflexivity|]. split; [eapply abs_ext_ve; eauto|].
      split; [|exact L].
      eapply frame_inv; [eapply operand_frame; eauto | exact L | split; [|split]; auto].
Qed.

Lemma nth_remove_nth : forall {T} i j (l : list T) d,
  nth j (remove_nth i l) d = if (j <? i)%nat then nth j l d else nth (S j) l d.
Proof.
  intros T i j l d. revert i j. induction l as [|x l IH]; intros i j; simpl.
  - destruct i; simpl; destruct j; simpl; try reflexivity;
      match goal with |- context [if ?c then _ else _] => destruct c end; reflexivity.
  - destruct i; simpl; auto. destruct j; simpl; auto. rewrite IH.
    change (S j <? S i)%nat with (j <? i)%nat. reflexivity.
Qed.
Lemma length_remove_nth : forall {T} i (l : list T), (i < length l)%nat -> S (length (remove_nth i l)) = length l.
Proof.
  intros T i l. revert i. induction l as [|x l IH]; intros i H; simpl in *; [lia|].
  destruct i; simpl; auto. rewrite IH; auto. lia.
Qed.

Lemma delete_step : forall h nx A k, inv (h, nx) A ->
  match delete (h, nx) A k with
  | (s1, Ok R) => step_ok h nx A (EDelete k) s1 R
  | (s1, Raise _) => step_raise h nx A (EDelete k) s1
  end.
Proof.
  intros h nx A k [ND [BA Nm]]. simpl in BA, Nm.
  destruct (delete (h, nx) A k) as [[h' nx'] [R|x]] eqn:EA.
  - destruct (delete_abs _ _ _ _ _ _ _ EA) as [i [NI [AR [AA [-> BR]]]]].
    unfold delete in EA. rewrite NI in EA. inversion EA; subst. clear EA.
    assert (NDR : NoDup (remove_nth i A)) by (apply NoDup_remove_nth; exact ND).
    pose proof (norm_index_lt _ _ _ NI) as Li.
    destruct (relabel_spec false (remove_nth i A) h A 0 _ _ NDR eq_refl eq_refl) as [HJ [HO [HN HU]]].
    simpl in HJ.
    remember (relabel false h A (remove_nth i A) 0) as h' eqn:Eh'.
    assert (NJ : forall j, (j < length (remove_nth i A))%nat ->
                 en (h' (nth j (remove_nth i A) 0%nat)) = idx_name (arr_name h A) j /\
                 eu (h' (nth j (remove_nth i A) 0%nat)) = arr_unit h A).
    { intros j Hj. destruct (HJ j Hj) as [E1 E2]. split; auto. rewrite E2.
      pose proof (length_remove_nth i A Li) as LR.
      rewrite nth_remove_nth. destruct (j <? i)%nat; apply Nm; lia. }
    assert (NU : remove_nth i A <> [] -> arr_name h' (remove_nth i A) = arr_name h A /\
                                        arr_unit h' (remove_nth i A) = arr_unit h A).
    { intros NE. assert (L0 : (0 < length (remove_nth i A))%nat) by (destruct (remove_nth i A); [contradiction | simpl; lia]).
      destruct (NJ _ L0) as [E1 E2]. apply name_unit_of_named0; auto. }
    clear Eh'.
    unfold step_ok. simpl. rewrite length_abs, NI. simpl. rewrite AR.
    split; [reflexivity|]. split; [|split; [lia|split; [apply named_weaken; exact NJ | split; [exact NU | exact AA]]]].
    split; [exact NDR | split; [apply BR; exact BA |]]. simpl.
    intros j Hj. assert (NE : remove_nth i A <> []) by (intros C; rewrite C in Hj; simpl in Hj; lia).
    destruct (NU NE) as [-> ->]. destruct (NJ j Hj) as [E1 E2]. split; auto.
  - unfold delete in EA. destruct (norm_index (length A) k false) as [i|] eqn:NI; [discriminate|].
    inversion EA; subst. clear EA. unfold step_raise. simpl. rewrite length_abs, NI. simpl.
    split; [reflexivity|]. split; [reflexivity|]. split; [|lia]. split; [|split]; auto.
Qed.

Lemma strip_index_nil : strip_index [] = [].
Proof. reflexivity. Qed.

Lemma setnum_step : forall h nx A k x, inv (h, nx) A ->
  match setitem (h, nx) A k (OItem (INum x)) with
  | (s1, Ok R) => step_ok h nx A (ESet k (INum x)) s1 R
  | (s1, Raise _) => step_raise h nx A (ESet k (INum x)) s1
  end.
Proof.
  intros h nx A k x [ND [BA Nm]]. simpl in *.
  destruct (norm_index (length A) k false) as [i|] eqn:NI.
  - pose proof (norm_index_lt _ _ _ NI) as Li.
    set (h' := set_value h (nth i A 0%nat) x).
    assert (Fn : forall id, en (h' id) = en (h id) /\ eu (h' id) = eu (h id)).
    { intros id. unfold h', set_value, upd. destruct (Nat.eqb id (nth i A 0%nat)) eqn:E; auto.
      apply Nat.eqb_eq in E. subst id. simpl. auto. }
    assert (E1 : arr_name h' A = arr_name h A) by (destruct A as [|a A]; simpl; auto; rewrite (proj1 (Fn a)); auto).
    assert (E2 : arr_unit h' A = arr_unit h A) by (destruct A as [|a A]; simpl; auto; apply Fn).
    assert (NM : named h' A (arr_name h A) (arr_unit h A)).
    { intros j Hj. destruct (Fn (nth j A 0%nat)) as [-> ->]. apply Nm. exact Hj. }
    unfold step_ok. simpl. rewrite length_abs, NI. simpl.
    pose proof (update_value_abs A h i x ND Li) as AV. fold h' in AV. rewrite AV.
    split; [reflexivity|]. split; [|split; [lia|split; [exact NM|split; auto]]].
    split; [exact ND | split; [exact BA |]]. simpl. rewrite E1, E2. exact NM.
  - unfold step_raise. simpl. rewrite length_abs, NI. simpl.
    split; [reflexivity|]. split; [reflexivity|]. split; [|lia]. split; [|split]; auto.
Qed.

Lemma wrap_item_fields : forall u n h nx it h1 nx1 id,
  wrap_item u n (h, nx) it = ((h1, nx1), Ok id) -> en (h1 id) = n /\ eu (h1 id) = u.
Proof.
  intros u n h nx it h1 nx1 id H. destruct it as [x|x e|m|e]; simpl in H.
  - inversion H; subst. rewrite upd_same. auto.
  - destruct (Qle_bool 0 e); [|discriminate]. inversion H; subst. rewrite upd_same. auto.
  - inversion H; subst. unfold set_unit. rewrite upd_same. simpl. unfold set_name. rewrite upd_same. auto.
  - discriminate.
Qed.

Lemma setother_step : forall h nx A k it, (forall x, it <> INum x) -> inv (h, nx) A -> edit_ok nx A (ESet k it) ->
  match setitem (h, nx) A k (OItem it) with
  | (s1, Ok R) => step_ok h nx A (ESet k it) s1 R
  | (s1, Raise _) => step_raise h nx A (ESet k it) s1
  end.
Proof.
  intros h nx A k it Hnn [ND [BA Nm]] [Hlt [NDo Dj]]. simpl in BA, Nm, Hlt, NDo, Dj.
  assert (Hok : item_ok nx it) by (destruct it; simpl; auto; apply Hlt; simpl; left; reflexivity).
  assert (Habs : abstract_edit h (ESet k it) = if item_wf it then LSet k (coerce_item h it) else LNop).
  { destruct it; auto. exfalso. eapply Hnn; reflexivity. }
  assert (Hset : setitem (h, nx) A k (OItem it) =
               match wrap_item (arr_unit h A) (arr_name h A) (h, nx) it with
               | (s1, Raise e) => (s1, Raise e)
               | ((h1, nx1), Ok id) =>
                   match norm_index (length A) k false with
                   | None => ((h1, nx1), Raise IndexError)
                   | Some i =>
                       let nm := arr_name h A in
                       let h2 := if is_nil nm then h1 else set_name h1 id (idx_name nm i) in
                       ((h2, nx1), Ok (update i id A))
                   end
               end).
  { destruct it; auto. exfalso. eapply Hnn; reflexivity. }
  destruct (setitem (h, nx) A k (OItem it)) as [[h' nx'] [R|x]] eqn:EA.
  - destruct (setitem_other_abs _ _ _ _ _ _ _ _ Hnn EA BA Hok) as [i [id [NI [-> [AR [L [BR Kind]]]]]]].
    clear EA. symmetry in Hset. rename Hset into EA.
    destruct (wrap_item (arr_unit h A) (arr_name h A) (h, nx) it) as [[h1 nx1] [id'|e]] eqn:W; [|discriminate].
    rewrite NI in EA. cbv zeta in EA. inversion EA; subst. clear EA.
    assert (id' = id) as ->.
    { destruct (wrap_item_ok _ _ _ _ _ _ _ _ W Hok) as [_ [_ [_ [_ [_ K2]]]]].
      destruct it; destruct K2; subst; auto. }
    assert (Hwf : item_wf it = true) by (apply (wrap_item_wf (arr_unit h A) (arr_name h A) (h, nx) it); eauto).
    pose proof (norm_index_lt _ _ _ NI) as Li.
    destruct (wrap_item_fields _ _ _ _ _ _ _ _ W) as [Fn Fu].
    assert (Hnot : ~ In id A).
    { destruct it; try (subst id; intros C; specialize (BA _ C); lia).
      subst id. intros C. apply (Dj id0); [simpl; left; reflexivity | exact C]. }
    assert (Fr : forall x, In x A -> h1 x = h x).
    { intros x Hx. destruct (wrap_item_any _ _ _ _ _ _ _ _ W) as [_ [_ F]]. apply F.
      - apply BA; exact Hx.
      - intros C. apply (Dj x C Hx). }
    set (nm := arr_name h A) in *. set (u := arr_unit h A) in *.
    set (h2 := if is_nil nm then h1 else set_name h1 id (idx_name nm i)) in *.
    assert (Fr2 : forall x, In x A -> h2 x = h x).
    { intros x Hx. unfold h2. destruct (is_nil nm); [apply Fr; exact Hx|].
      unfold set_name. rewrite upd_other; [apply Fr; exact Hx | intros C; subst; contradiction]. }
    assert (Hid : eu (h2 id) = u /\ (nm <> [] -> en (h2 id) = idx_name nm i) /\ (nm = [] -> en (h2 id) = [])).
    { unfold h2. destruct nm as [|c nm'] eqn:Enm; simpl.
      - split; [exact Fu|]. split; [intros C; exfalso; apply C; reflexivity | intros _; exact Fn].
      - unfold set_name. rewrite upd_same. simpl. split; [exact Fu|]. split; [auto | discriminate]. }
    destruct Hid as [Hu [Hn1 Hn2]].
    assert (NM : named h2 (update i id A) nm u).
    { intros j Hj. rewrite length_update in Hj. destruct (Nat.eq_dec i j) as [->|Hne].
      - rewrite nth_update_same by exact Hj. split; auto.
      - rewrite nth_update_other by exact Hne. rewrite Fr2 by (apply nth_In; exact Hj). apply Nm. exact Hj. }
    assert (NU : arr_name h2 (update i id A) = nm /\ arr_unit h2 (update i id A) = u).
    { destruct A as [|a A]; [simpl in Li; lia|]. destruct i; simpl.
      - split; [|exact Hu]. destruct nm as [|c nm'] eqn:Enm.
        + rewrite Hn2 by reflexivity. reflexivity.
        + rewrite Hn1 by discriminate. apply strip_idx_name.
      - rewrite Fr2 by (left; reflexivity). auto. }
    unfold step_ok. rewrite Habs, Hwf. simpl. rewrite length_abs, NI. simpl. rewrite AR.
    split; [reflexivity|]. split; [|split; [exact L|split; [exact NM|split; auto]]].
    split; [apply NoDup_update; auto | split; [exact BR |]]. simpl.
    destruct NU as [-> ->]. exact NM.
  - clear EA. symmetry in Hset. rename Hset into EA.
    destruct (wrap_item (arr_unit h A) (arr_name h A) (h, nx) it) as [[h1 nx1] [id|e]] eqn:W.
    + destruct (norm_index (length A) k false) as [i|] eqn:NI; [discriminate|].
      inversion EA; subst. clear EA.
      destruct (wrap_item_any _ _ _ _ _ _ _ _ W) as [L [E F]].
      unfold step_raise. rewrite Habs. destruct (item_wf it); simpl; rewrite ?length_abs, ?NI; simpl.
      * split; [reflexivity|]. split; [eapply abs_ext_ve; eauto|]. split; [|exact L].
        eapply frame_inv; [| exact L | split; [|split]; eauto].
        intros y Hy. apply F; [apply BA; exact Hy | intros C; apply (Dj y C Hy)].
      * split; [reflexivity|]. split; [eapply abs_ext_ve; eauto|]. split; [|exact L].
        eapply frame_inv; [| exact L | split; [|split]; eauto].
        intros y Hy. apply F; [apply BA; exact Hy | intros C; apply (Dj y C Hy)].
    + inversion EA; subst. clear EA.
      assert (Hwf : item_wf it = false).
      { destruct (item_wf it) eqn:E; auto.
        apply (wrap_item_wf (arr_unit h A) (arr_name h A) (h, nx) it) in E. destruct E as [s2 [V E]].
        rewrite W in E. discriminate. }
      destruct (wrap_item_any _ _ _ _ _ _ _ _ W) as [L [E F]].
      unfold step_raise. rewrite Habs, Hwf. simpl. split; [reflexivity|]. split; [eapply abs_ext_ve; eauto|].
      split; [|exact L].
      eapply frame_inv; [| exact L | split; [|split]; eauto].
      intros y Hy. apply F; [apply BA; exact Hy | intros C; apply (Dj y C Hy)].
Qed.

Theorem edit_step : forall h nx A e, inv (h, nx) A -> edit_ok nx A e ->
  match apply_edit (h, nx) A e with
  | (s1, Ok R) => step_ok h nx A e s1 R
  | (s1, Raise _) => step_raise h nx A e s1
  end.
Proof.
  intros h nx A e I Hok. destruct e as [o|k o|k|k it]; cbn [apply_edit].
  - apply append_step; auto.
  - apply insert_step; auto.
  - apply delete_step; auto.
  - destruct it as [x|x e|m|e].
    + apply setnum_step; auto.
    + apply setother_step; auto. intros y; discriminate.
    + apply setother_step; auto. intros y; discriminate.
    + apply setother_step; auto. intros y; discriminate.
Qed.

(** * Any finite edit history behaves like the list *)

Fixpoint hist_ok (s : hs) (A : arr) (es : list edit) : Prop :=
  match es with
  | [] => True
  | e :: r => edit_ok (snd s) A e /\ (let (s1, res) := apply_edit s A e in hist_ok s1 (next_arr A res) r)
  end.

Theorem history_refines : forall es s A, inv s A -> hist_ok s A es ->
  abs (fst (fst (run_edits s A es))) (snd (run_edits s A es)) = list_run (abs (fst s) A) (trace s A es)
  /\ inv (fst (run_edits s A es)) (snd (run_edits s A es)).
Proof.
  induction es as [|e es IH]; intros [h nx] A I H.
  - simpl. auto.
  - cbn [run_edits trace hist_ok] in *. destruct H as [Hok H].
    pose proof (edit_step h nx A e I Hok) as St. simpl snd in Hok.
    destruct (apply_edit (h, nx) A e) as [s1 [R|x]] eqn:E; cbn [next_arr] in *.
    + destruct St as [LE [I1 _]]. destruct (IH s1 R I1 H) as [E1 E2]. split; auto.
      rewrite E1. unfold list_run. cbn [fold_left fst].
      replace (list_step (abs h A) (abstract_edit h e)) with (abs (fst s1) R); [reflexivity|].
      unfold list_step. rewrite LE. reflexivity.
    + destruct St as [LE [AE [I1 _]]]. destruct (IH s1 A I1 H) as [E1 E2]. split; auto.
      rewrite E1. unfold list_run. cbn [fold_left fst].
      replace (list_step (abs h A) (abstract_edit h e)) with (abs (fst s1) A); [reflexivity|].
      unfold list_step. rewrite LE, AE. reflexivity.
Qed.

(** * Aggregates are the textbook functions of the list of pairs *)

Lemma values_abs : forall h A, values h A = map fst (abs h A).
Proof. intros. unfold values, abs. rewrite map_map. reflexivity. Qed.
Lemma errors_abs : forall h A, errors h A = map snd (abs h A).
Proof. intros. unfold errors, abs. rewrite map_map. reflexivity. Qed.

Definition list_sum_spec (l : list (Q * Q)) : Q * Q :=
  (qsum (map fst l), qsum (map (fun p => snd p * snd p) l)).
Definition list_mean_spec (l : list (Q * Q)) : Q := qsum (map fst l) / qlen l.
Definition list_var_spec (l : list (Q * Q)) : Q :=
  qsum (map (fun p => (fst p - list_mean_spec l) * (fst p - list_mean_spec l)) l) / (qlen l - 1).

Lemma aggregates_spec : forall h A,
  agg_sum h A = list_sum_spec (abs h A) /\
  agg_std_sq h A = list_var_spec (abs h A) /\
  agg_mean h A = (list_mean_spec (abs h A), list_var_spec (abs h A) / qlen (abs h A)).
Proof.
  intros h A.
  assert (Hl : qlen (abs h A) = qlen A) by (unfold qlen; rewrite length_abs; reflexivity).
  assert (Hv : qlen (values h A) = qlen A) by (unfold qlen, values; rewrite map_length; reflexivity).
  assert (Hm : np_mean (values h A) = list_mean_spec (abs h A)).
  { unfold np_mean, list_mean_spec. rewrite Hv, Hl, values_abs. reflexivity. }
  assert (Hs : agg_std_sq h A = list_var_spec (abs h A)).
  { unfold agg_std_sq, np_var1, list_var_spec. rewrite Hm, Hv, Hl, values_abs, map_map. reflexivity. }
  split; [|split].
  - unfold agg_sum, list_sum_spec. rewrite values_abs, errors_abs, map_map. reflexivity.
  - exact Hs.
  - unfold agg_mean. rewrite Hm, Hs, Hl. reflexivity.
Qed.

(** * Statements in the form used by Props/C17.v *)

Lemma units_names : forall h nx A e s1 R,
  inv (h, nx) A -> edit_ok nx A e -> apply_edit (h, nx) A e = (s1, Ok R) ->
  named (fst s1) R (arr_name h A) (arr_unit h A) /\
  (R <> [] -> arr_name (fst s1) R = arr_name h A /\ arr_unit (fst s1) R = arr_unit h A) /\
  inv s1 R.
Proof.
  intros h nx A e s1 R I Hok E. pose proof (edit_step h nx A e I Hok) as St. rewrite E in St.
  destruct St as [_ [I1 [_ [NM [NU _]]]]]. auto.
Qed.

Lemma source_unchanged : forall h nx A e s1 R,
  bounded nx A -> (forall id, In id (edit_operand_ids e) -> (id < nx)%nat) ->
  (forall k it, e <> ESet k it) ->
  apply_edit (h, nx) A e = (s1, Ok R) -> abs (fst s1) A = abs h A.
Proof.
  intros h nx A e [h1 nx1] R BA Hlt Hns E. destruct e as [o|k o|k|k it]; cbn [apply_edit] in E; simpl in Hlt.
  - destruct (append_abs _ _ _ _ _ _ _ E BA (operand_ok_of_ids _ _ Hlt)) as [_ [AA _]]. exact AA.
  - destruct (insert_abs _ _ _ _ _ _ _ _ E BA (operand_ok_of_ids _ _ Hlt)) as [i [_ [_ [AA _]]]]. exact AA.
  - destruct (delete_abs _ _ _ _ _ _ _ E) as [i [_ [_ [AA _]]]]. exact AA.
  - exfalso. eapply Hns; reflexivity.
Qed.

Lemma setitem_abs : forall h nx A k it h' nx' A',
  setitem (h, nx) A k (OItem it) = ((h', nx'), Ok A') -> NoDup A -> bounded nx A -> item_ok nx it ->
  exists i, norm_index (length A) k false = Some i /\
  abs h' A' = match it with
              | INum x => update i (x, snd (nth i (abs h A) (0, 0))) (abs h A)      (* keeps the uncertainty *)
              | _ => update i (coerce_item h it) (abs h A)
              end.
Proof.
  intros h nx A k it h' nx' A' E ND BA Hok. destruct it as [x|x e|m|e].
  - destruct (setitem_num_abs _ _ _ _ _ _ _ _ E ND) as [i [NI [_ [_ AR]]]]. eauto.
  - assert (Hnn : forall y, IPair x e <> INum y) by (intros y; discriminate).
    destruct (setitem_other_abs _ _ _ _ _ _ _ _ Hnn E BA Hok) as [i [id [NI [_ [AR _]]]]]. eauto.
  - assert (Hnn : forall y, IMeas m <> INum y) by (intros y; discriminate).
    destruct (setitem_other_abs _ _ _ _ _ _ _ _ Hnn E BA Hok) as [i [id [NI [_ [AR _]]]]]. eauto.
  - assert (Hnn : forall y, IBad e <> INum y) by (intros y; discriminate).
    destruct (setitem_other_abs _ _ _ _ _ _ _ _ Hnn E BA Hok) as [i [id [NI [_ [AR _]]]]]. eauto.
Qed.

(** non-vacuity: a named array with unit, a user measurement, and a history with every edit kind *)
Definition ex_name : str := [120%N].                                   (* "x" *)
Definition ex_state : hs * res arr :=
  let (s1, _) := mk_array (empty_heap, 0%nat) [1; 2] (ECommon (1 # 2)) ex_name 1%N in
  let (s2, _) := new_meas s1 4 (1 # 4) [109%N] 2%N in
  (s2, Ok [0; 1]%nat).
Definition ex_edits : list edit :=
  [EInsert 0 (OItem (IMeas 2)); ESet (-1) (INum 9); EDelete 1; EInsert 7 (OItem (INum 1));
   EAppend (OList [IPair 3 (1 # 4); INum 5]); ESet 0 (IPair 6 (1 # 8))].

Lemma example_history :
  let s := fst ex_state in let A := [0; 1]%nat in
  inv s A /\ hist_ok s A ex_edits /\
  abs (fst (fst (run_edits s A ex_edits))) (snd (run_edits s A ex_edits))
    = [(6, 1 # 8); (9, 1 # 2); (3, 1 # 4); (5, 0)] /\
  arr_name (fst (fst (run_edits s A ex_edits))) (snd (run_edits s A ex_edits)) = ex_name /\
  en (fst (fst (run_edits s A ex_edits)) 5%nat) = idx_name ex_name 3.
Proof.
  cbv zeta. split; [|split; [|split; [|split]]].
  - split; [|split].
    + constructor; [simpl; intros [C|[]]; discriminate|]. constructor; [simpl; tauto | constructor].
    + intros id H. simpl in *. intuition lia.
    + intros j Hj. simpl in Hj.
      destruct j as [|[|j]]; [| |lia]; vm_compute; split; intros; reflexivity.
  - vm_compute. repeat split; try (intros; intuition (try lia; try discriminate)); repeat constructor;
      simpl; intuition (try lia; try discriminate).
  - vm_compute. reflexivity.
  - vm_compute. reflexivity.
  - vm_compute. reflexivity.
Qed.

(** * The constructor establishes the invariant *)

Lemma alloc_all_spec : forall ves h nx name u j s2 ids,
  alloc_all (h, nx) name u ves j = (s2, ids) ->
  ids = seq nx (length ves) /\ snd s2 = (nx + length ves)%nat /\
  (forall i, (i < length ves)%nat ->
     fst s2 (nx + i)%nat = mkElem (fst (nth i ves (0, 0))) (snd (nth i ves (0, 0)))
                                  (if is_nil name then [] else idx_name name (j + i)) u) /\
  (forall id, (id < nx)%nat -> fst s2 id = h id).
Proof.
  induction ves as [|[v e] ves IH]; intros h nx name u j s2 ids H; cbn [alloc_all] in H.
  - inversion H; subst. simpl. repeat split; auto; try lia.
  - match type of H with context [alloc_all ?a ?b ?c ?d ?e] =>
      destruct (alloc_all a b c d e) as [s3 ids'] eqn:E end.
    inversion H; subst. clear H.
    destruct (IH _ _ _ _ _ _ _ E) as [I1 [I2 [I3 I4]]].
    split; [|split; [|split]].
    + simpl. rewrite I1. reflexivity.
    + rewrite I2. simpl. lia.
    + intros i Hi. destruct i as [|i].
      * rewrite Nat.add_0_r. rewrite I4 by lia. rewrite upd_same. rewrite Nat.add_0_r. reflexivity.
      * simpl in Hi. replace (nx + S i)%nat with (S nx + i)%nat by lia. rewrite I3 by lia.
        replace (S j + i)%nat with (j + S i)%nat by lia. reflexivity.
    + intros id Hid. rewrite I4 by lia. apply upd_other. lia.
Qed.

Lemma mk_array_spec : forall h nx data sp name u s2 A,
  mk_array (h, nx) data sp name u = (s2, Ok A) ->
  exists errs, error_array data sp = Ok errs /\
  abs (fst s2) A = combine data errs /\ inv s2 A /\
  named (fst s2) A name u /\ (A <> [] -> arr_name (fst s2) A = name /\ arr_unit (fst s2) A = u) /\
  (forall id, (id < nx)%nat -> fst s2 id = h id).
Proof.
  intros h nx data sp name u s2 A H. unfold mk_array in H.
  destruct (error_array data sp) as [errs|x] eqn:EA; [|discriminate].
  destruct (alloc_all (h, nx) name u (combine data errs) 0) as [s3 ids] eqn:E.
  inversion H; subst. clear H. exists errs. split; [reflexivity|].
  destruct (alloc_all_spec _ _ _ _ _ _ _ _ E) as [I1 [I2 [I3 I4]]].
  set (ves := combine data errs) in *.
  assert (Hnth : forall i, (i < length ves)%nat -> nth i A 0%nat = (nx + i)%nat).
  { intros i Hi. rewrite I1. apply seq_nth. exact Hi. }
  assert (LA : length A = length ves) by (rewrite I1; apply seq_length).
  assert (NM : named (fst s2) A name u).
  { intros j Hj. rewrite LA in Hj. rewrite (Hnth j Hj), (I3 j Hj). simpl. split; [reflexivity|].
    intros Hne. destruct name; [contradiction|]. reflexivity. }
  assert (NU : A <> [] -> arr_name (fst s2) A = name /\ arr_unit (fst s2) A = u).
  { intros NE. destruct A as [|a A']; [contradiction|].
    assert (L0 : (0 < length ves)%nat) by (rewrite <- LA; simpl; lia).
    pose proof (Hnth 0%nat L0) as H0. simpl in H0. simpl. rewrite H0, (I3 0%nat L0). simpl.
    split; [|reflexivity]. destruct name; [reflexivity | apply strip_idx_name]. }
  split; [|split; [|split; [exact NM | split; [exact NU | exact I4]]]].
  - unfold abs. apply nth_ext with (d := (0, 0)) (d' := (0, 0)).
    + rewrite map_length. exact LA.
    + intros i Hi. rewrite map_length, LA in Hi.
      rewrite (nth_indep _ (0, 0) (pair_of (fst s2) 0%nat)) by (rewrite map_length, LA; exact Hi).
      rewrite map_nth, (Hnth i Hi). unfold pair_of. rewrite (I3 i Hi). simpl.
      destruct (nth i ves (0, 0)); reflexivity.
  - split; [|split].
    + rewrite I1. apply seq_NoDup.
    + intros id Hin. rewrite I1 in Hin. apply in_seq in Hin. rewrite I2. lia.
    + destruct A as [|a A'] eqn:EAA; [intros j Hj; simpl in Hj; lia|].
      destruct NU as [-> ->]; [discriminate|]. exact NM.
Qed.
