(** The squares used by the executable aggregates are the textbook square roots over the reals. *)
From Coq Require Import List ZArith QArith Qreals Reals Lra.
From QV Require Import Base.Py Model.Arrays Proofs.Arrays.
Import ListNotations.

(** a non-negative rational whose square is S is sqrt S *)
Lemma sq_is_sqrt : forall e S : Q, 0 <= e -> e * e == S -> Q2R e = sqrt (Q2R S).
Proof.
  intros e S He Hs. apply Qeq_eqR in Hs. rewrite <- Hs, Q2R_mult.
  symmetry. apply sqrt_square. apply Qle_Rle in He. rewrite RMicromega.Q2R_0 in He. exact He.
Qed.

(** sum() = (sum x_i, sqrt(sum s_i^2)); std() = sample standard deviation; mean() = (mean, std/sqrt n),
    for any reported uncertainties that are the non-negative roots of the model's squares *)
Lemma aggregates_R : forall h A (se sd me : Q),
  0 <= se -> 0 <= sd -> 0 <= me ->
  se * se == snd (agg_sum h A) -> sd * sd == agg_std_sq h A -> me * me == snd (agg_mean h A) ->
  fst (agg_sum h A) = qsum (map fst (abs h A)) /\
  Q2R se = sqrt (Q2R (qsum (map (fun p => snd p * snd p) (abs h A)))) /\
  fst (agg_mean h A) = list_mean_spec (abs h A) /\
  Q2R sd = sqrt (Q2R (list_var_spec (abs h A))) /\
  Q2R me = sqrt (Q2R (list_var_spec (abs h A) / qlen (abs h A))).
Proof.
  intros h A se sd me H1 H2 H3 E1 E2 E3.
  destruct (aggregates_spec h A) as [S1 [S2 S3]].
  rewrite S1 in *. rewrite S2 in *. rewrite S3 in *. simpl in *.
  repeat split; try reflexivity; apply sq_is_sqrt; assumption.
Qed.
