(** A formula built afresh evaluates like the original (C05: "equal to those of the same formula
    built afresh from the current measurements, also when the formula was assembled through
    intermediate calculated quantities").  Any number type. *)
From Coq Require Import List Arith Bool Lia Wf_nat.
From QV Require Import Gen.OpsTable Model.Core Proofs.CoreLists.
Import ListNotations.

Section Copy.
  Variable T : Type.
  Variables (zero one two : T) (add mul : T -> T -> T).
  Variable su : uop -> T -> T.
  Variable sb : bop -> T -> T -> T.
  Variable du : uop -> T -> T -> T.
  Variable db : bop -> T -> T -> T -> T -> T.

  Notation vals := (vals T zero su sb).
  Notation dvals := (dvals T zero one su sb du db).
  Notation dflt := (OMeas zero zero : obj T).

  (** tables are not changed, below the new entry, by a newer object *)
  Lemma val_ref_cons x vs a : ref_ok T (length vs) a = true -> val_ref T zero (x :: vs) a = val_ref T zero vs a.
  Proof. destruct a as [j|c]; simpl; [|reflexivity]. intros H. apply lookup_cons_lt, Nat.ltb_lt, H. Qed.

  Lemma d_ref_cons x ds a : ref_ok T (length ds) a = true -> d_ref T zero (x :: ds) a = d_ref T zero ds a.
  Proof. destruct a as [j|c]; simpl; [|reflexivity]. intros H. apply lookup_cons_lt, Nat.ltb_lt, H. Qed.

  Lemma src_ref_cons x ss a : ref_ok T (length ss) a = true -> src_ref T (x :: ss) a = src_ref T ss a.
  Proof. destruct a as [j|c]; simpl; [|reflexivity]. intros H. apply lookup_cons_lt, Nat.ltb_lt, H. Qed.

  Lemma ref_ok_mono n n' a : n <= n' -> ref_ok T n a = true -> ref_ok T n' a = true.
  Proof. destruct a; simpl; [|reflexivity]. rewrite !Nat.ltb_lt. lia. Qed.

  Lemma obj_ok_mono n n' o : n <= n' -> obj_ok T n o = true -> obj_ok T n' o = true.
  Proof.
    intros H. destruct o as [v e|[op a|op a b]]; simpl; [reflexivity| |].
    - apply ref_ok_mono, H.
    - rewrite !andb_true_iff. intros [A B]. split; eapply ref_ok_mono; eauto.
  Qed.

  (** every object's references point below its own id *)
  Lemma wf_lookup l : forall k, wf T l = true -> k < length l -> obj_ok T k (lookup dflt l k) = true.
  Proof.
    induction l as [|o l IH]; intros k Hwf Hk; [simpl in Hk; lia|].
    simpl in Hwf. apply andb_true_iff in Hwf. destruct Hwf as [Hok Hwf]. simpl in Hk.
    destruct (Nat.eq_dec k (length l)) as [->|N].
    - rewrite lookup_cons_eq. exact Hok.
    - rewrite lookup_cons_lt by lia. apply IH; [exact Hwf|lia].
  Qed.

  (** the table entry of object k is its formula evaluated in the full table *)
  Lemma vals_entry l : forall k, wf T l = true -> k < length l ->
    lookup zero (vals l) k = val_of T zero su sb (vals l) (lookup dflt l k).
  Proof.
    induction l as [|o l IH]; intros k Hwf Hk; [simpl in Hk; lia|].
    simpl in Hwf. apply andb_true_iff in Hwf. destruct Hwf as [Hok Hwf]. simpl in Hk. simpl Core.vals.
    assert (Hcons : forall o', obj_ok T (length l) o' = true ->
              val_of T zero su sb (val_of T zero su sb (vals l) o :: vals l) o' = val_of T zero su sb (vals l) o').
    { intros [v e|[op a|op a b]] H; simpl in *; [reflexivity| |].
      - rewrite val_ref_cons by (rewrite length_vals; exact H). reflexivity.
      - apply andb_true_iff in H. destruct H as [A B].
        rewrite !val_ref_cons by (rewrite length_vals; assumption). reflexivity. }
    destruct (Nat.eq_dec k (length l)) as [->|N].
    - rewrite (lookup_hd zero _ _ _ (length_vals T zero su sb l)), lookup_cons_eq. symmetry. apply Hcons, Hok.
    - assert (Hlt : k < length l) by lia.
      rewrite (lookup_tl zero _ _ _ _ (length_vals T zero su sb l) Hlt), lookup_cons_lt by exact Hlt.
      rewrite Hcons by (eapply obj_ok_mono; [|apply (wf_lookup l k Hwf Hlt)]; lia).
      apply IH; assumption.
  Qed.

  Lemma dvals_entry m l : forall k, wf T l = true -> k < length l ->
    lookup zero (dvals m l) k = d_of T zero one du db m k (vals l) (dvals m l) (lookup dflt l k).
  Proof.
    induction l as [|o l IH]; intros k Hwf Hk; [simpl in Hk; lia|].
    simpl in Hwf. apply andb_true_iff in Hwf. destruct Hwf as [Hok Hwf]. simpl in Hk. simpl Core.dvals. simpl Core.vals.
    set (x := val_of T zero su sb (vals l) o). set (y := d_of T zero one du db m (length l) (vals l) (dvals m l) o).
    assert (Hcons : forall id o', obj_ok T (length l) o' = true ->
              d_of T zero one du db m id (x :: vals l) (y :: dvals m l) o' = d_of T zero one du db m id (vals l) (dvals m l) o').
    { intros id [v e|[op a|op a b]] H; unfold d_of; simpl in *; destruct (Nat.eqb id m); try reflexivity.
      - rewrite val_ref_cons by (rewrite length_vals; exact H).
        rewrite d_ref_cons by (rewrite length_dvals; exact H). reflexivity.
      - apply andb_true_iff in H. destruct H as [A B].
        rewrite !val_ref_cons by (rewrite length_vals; assumption).
        rewrite !d_ref_cons by (rewrite length_dvals; assumption). reflexivity. }
    destruct (Nat.eq_dec k (length l)) as [->|N].
    - rewrite (lookup_hd zero _ _ _ (length_dvals T zero one su sb du db m l)), lookup_cons_eq.
      symmetry. apply Hcons, Hok.
    - assert (Hlt : k < length l) by lia.
      rewrite (lookup_tl zero _ _ _ _ (length_dvals T zero one su sb du db m l) Hlt), lookup_cons_lt by exact Hlt.
      rewrite Hcons by (eapply obj_ok_mono; [|apply (wf_lookup l k Hwf Hlt)]; lia).
      apply IH; assumption.
  Qed.

  Lemma srcs_entry l : forall k, wf T l = true -> k < length l ->
    lookup [] (srcs T l) k = src_of T k (srcs T l) (lookup dflt l k).
  Proof.
    induction l as [|o l IH]; intros k Hwf Hk; [simpl in Hk; lia|].
    simpl in Hwf. apply andb_true_iff in Hwf. destruct Hwf as [Hok Hwf]. simpl in Hk. simpl Core.srcs.
    assert (Hcons : forall id o', obj_ok T (length l) o' = true ->
              src_of T id (src_of T (length l) (srcs T l) o :: srcs T l) o' = src_of T id (srcs T l) o').
    { intros id [v e|[op a|op a b]] H; simpl in *; [reflexivity| |].
      - rewrite src_ref_cons by (rewrite length_srcs; exact H). reflexivity.
      - apply andb_true_iff in H. destruct H as [A B].
        rewrite !src_ref_cons by (rewrite length_srcs; assumption). reflexivity. }
    destruct (Nat.eq_dec k (length l)) as [->|N].
    - rewrite (lookup_hd [] _ _ _ (length_srcs T l)), lookup_cons_eq. symmetry. apply Hcons, Hok.
    - assert (Hlt : k < length l) by lia.
      rewrite (lookup_tl [] _ _ _ _ (length_srcs T l) Hlt), lookup_cons_lt by exact Hlt.
      rewrite Hcons by (eapply obj_ok_mono; [|apply (wf_lookup l k Hwf Hlt)]; lia).
      apply IH; assumption.
  Qed.

  (** [copy l k k']: object k' is object k's formula built afresh: measurements are shared, every
      calculated quantity it was assembled from has been built again *)
  Inductive copy (l : list (obj T)) : nat -> nat -> Prop :=
  | copy_same k : copy l k k                                  (* the same object (e.g. a measurement) *)
  | copy_un k k' op a a' : lookup dflt l k = ODer (FU op a) -> lookup dflt l k' = ODer (FU op a') ->
      copy_ref l a a' -> copy l k k'
  | copy_bin k k' op a a' b b' : lookup dflt l k = ODer (FB op a b) -> lookup dflt l k' = ODer (FB op a' b') ->
      copy_ref l a a' -> copy_ref l b b' -> copy l k k'
  with copy_ref (l : list (obj T)) : ref T -> ref T -> Prop :=
  | copy_const c : copy_ref l (RConst c) (RConst c)
  | copy_obj j j' : copy l j j' -> copy_ref l (RObj j) (RObj j').

  Scheme copy_ind2 := Minimality for copy Sort Prop
    with copy_ref_ind2 := Minimality for copy_ref Sort Prop.

  (** [m] is not the id of a calculated quantity taking part in the copy (in particular: a measurement) *)
  Definition not_a_result (l : list (obj T)) (m : nat) : Prop :=
    forall f, lookup dflt l m <> ODer f.

  Theorem copy_equal l : wf T l = true -> forall k k', copy l k k' -> k < length l -> k' < length l ->
    lookup zero (vals l) k = lookup zero (vals l) k' /\
    lookup [] (srcs T l) k = lookup [] (srcs T l) k' /\
    (forall m, not_a_result l m -> lookup zero (dvals m l) k = lookup zero (dvals m l) k').
  Proof.
    intros Hwf.
    apply (copy_ind2 l
      (fun k k' => k < length l -> k' < length l ->
         lookup zero (vals l) k = lookup zero (vals l) k' /\
         lookup [] (srcs T l) k = lookup [] (srcs T l) k' /\
         (forall m, not_a_result l m -> lookup zero (dvals m l) k = lookup zero (dvals m l) k'))
      (fun a a' => ref_ok T (length l) a = true -> ref_ok T (length l) a' = true ->
         val_ref T zero (vals l) a = val_ref T zero (vals l) a' /\
         src_ref T (srcs T l) a = src_ref T (srcs T l) a' /\
         (forall m, not_a_result l m -> d_ref T zero (dvals m l) a = d_ref T zero (dvals m l) a'))).
    - intros k _ _. repeat split; reflexivity.
    - intros k k' op a a' Hk Hk' _ IHa Hlt Hlt'.
      assert (Oa := wf_lookup l k Hwf Hlt). assert (Oa' := wf_lookup l k' Hwf Hlt').
      rewrite Hk in Oa. rewrite Hk' in Oa'. simpl in Oa, Oa'.
      destruct (IHa (ref_ok_mono _ _ _ (Nat.lt_le_incl _ _ Hlt) Oa) (ref_ok_mono _ _ _ (Nat.lt_le_incl _ _ Hlt') Oa'))
        as [Ev [Es Ed]].
      rewrite (vals_entry l k Hwf Hlt), (vals_entry l k' Hwf Hlt'), Hk, Hk'.
      rewrite (srcs_entry l k Hwf Hlt), (srcs_entry l k' Hwf Hlt'), Hk, Hk'. simpl.
      rewrite Ev, Es. repeat split.
      intros m Hm. rewrite (dvals_entry m l k Hwf Hlt), (dvals_entry m l k' Hwf Hlt'), Hk, Hk'.
      unfold d_of.
      destruct (Nat.eqb_spec k m) as [->|Nk]; [exfalso; apply (Hm _ Hk)|].
      destruct (Nat.eqb_spec k' m) as [->|Nk']; [exfalso; apply (Hm _ Hk')|].
      rewrite Ev, (Ed m Hm). reflexivity.
    - intros k k' op a a' b b' Hk Hk' _ IHa _ IHb Hlt Hlt'.
      assert (Oa := wf_lookup l k Hwf Hlt). assert (Oa' := wf_lookup l k' Hwf Hlt').
      rewrite Hk in Oa. rewrite Hk' in Oa'. simpl in Oa, Oa'.
      apply andb_true_iff in Oa. apply andb_true_iff in Oa'. destruct Oa as [Oa Ob]. destruct Oa' as [Oa' Ob'].
      destruct (IHa (ref_ok_mono _ _ _ (Nat.lt_le_incl _ _ Hlt) Oa) (ref_ok_mono _ _ _ (Nat.lt_le_incl _ _ Hlt') Oa'))
        as [Ev [Es Ed]].
      destruct (IHb (ref_ok_mono _ _ _ (Nat.lt_le_incl _ _ Hlt) Ob) (ref_ok_mono _ _ _ (Nat.lt_le_incl _ _ Hlt') Ob'))
        as [Ev2 [Es2 Ed2]].
      rewrite (vals_entry l k Hwf Hlt), (vals_entry l k' Hwf Hlt'), Hk, Hk'.
      rewrite (srcs_entry l k Hwf Hlt), (srcs_entry l k' Hwf Hlt'), Hk, Hk'. simpl.
      rewrite Ev, Es, Ev2, Es2. repeat split.
      intros m Hm. rewrite (dvals_entry m l k Hwf Hlt), (dvals_entry m l k' Hwf Hlt'), Hk, Hk'.
      unfold d_of.
      destruct (Nat.eqb_spec k m) as [->|Nk]; [exfalso; apply (Hm _ Hk)|].
      destruct (Nat.eqb_spec k' m) as [->|Nk']; [exfalso; apply (Hm _ Hk')|].
      rewrite Ev, Ev2, (Ed m Hm), (Ed2 m Hm). reflexivity.
    - intros c _ _. repeat split; reflexivity.
    - intros j j' _ IH Hj Hj'. simpl in Hj, Hj'. apply Nat.ltb_lt in Hj. apply Nat.ltb_lt in Hj'.
      destruct (IH Hj Hj') as [A [B C]]. simpl. repeat split; assumption.
  Qed.

  (** sources are measurements *)
  Lemma sources_meas l : forall k i, wf T l = true -> k < length l -> In i (sources T l k) ->
    i < length l /\ exists v e, lookup dflt l i = OMeas v e.
  Proof.
    intros k. induction k as [k IH] using lt_wf_ind. intros i Hwf Hk Hin.
    unfold sources in Hin. rewrite (srcs_entry l k Hwf Hk) in Hin.
    assert (Ok := wf_lookup l k Hwf Hk).
    assert (Href : forall a, ref_ok T k a = true -> In i (src_ref T (srcs T l) a) ->
                   i < length l /\ exists v e, lookup dflt l i = OMeas v e).
    { intros [j|c] Ha Hi; simpl in Hi; [|contradiction]. simpl in Ha. apply Nat.ltb_lt in Ha.
      apply (IH j Ha i Hwf); [lia|exact Hi]. }
    destruct (lookup dflt l k) as [v e|[op a|op a b]] eqn:E; simpl in Hin.
    - destruct Hin as [<-|[]]. split; [exact Hk|]. exists v, e. exact E.
    - simpl in Ok. apply (Href a Ok Hin).
    - simpl in Ok. apply andb_true_iff in Ok. destruct Ok as [A B].
      apply In_union_sorted in Hin. destruct Hin as [Hi|Hi]; [apply (Href a A Hi)|apply (Href b B Hi)].
  Qed.

  Lemma In_pairs_both {A} (l0 : list A) x y : In (x, y) (pairs l0) -> In x l0 /\ In y l0.
  Proof.
    induction l0 as [|z l0 IH]; simpl; [tauto|].
    rewrite in_app_iff, in_map_iff. intros [[w [E Hw]]|H].
    - injection E as <- <-. tauto.
    - apply IH in H. tauto.
  Qed.

  (** the whole fresh result (value and variance) of a rebuilt formula equals the original's *)
  Theorem copy_fresh l rho k k' : wf T l = true -> copy l k k' -> k < length l -> k' < length l ->
    value T zero su sb l k = value T zero su sb l k' /\
    err2 T zero one two add mul su sb du db rho l k = err2 T zero one two add mul su sb du db rho l k' /\
    (forall m, not_a_result l m -> deriv T zero one su sb du db l k m = deriv T zero one su sb du db l k' m).
  Proof.
    intros Hwf Hc Hk Hk'. destruct (copy_equal l Hwf k k' Hc Hk Hk') as [Ev [Es Ed]].
    split; [exact Ev|]. split; [|exact Ed].
    unfold err2, sources. rewrite <- Es.
    assert (Hd : forall i, In i (lookup [] (srcs T l) k) ->
              deriv T zero one su sb du db l k i = deriv T zero one su sb du db l k' i).
    { intros i Hi. apply Ed. intros f Hf.
      destruct (sources_meas l k i Hwf Hk Hi) as [_ [v [e E]]]. congruence. }
    f_equal; f_equal; apply map_ext_in.
    - intros i Hi. rewrite (Hd i Hi). reflexivity.
    - intros [i j] Hij. apply In_pairs_both in Hij. destruct Hij as [Hi Hj].
      rewrite (Hd i Hi), (Hd j Hj). reflexivity.
  Qed.
End Copy.
