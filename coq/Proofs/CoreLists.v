(** List lemmas for the newest-first object tables of Model/Core.v (any number type). *)
From Coq Require Import List Arith Bool Lia.
From QV Require Import Gen.OpsTable Model.Core.
Import ListNotations.

Lemma lookup_cons_lt {A} (d x : A) l k : k < length l -> lookup d (x :: l) k = lookup d l k.
Proof.
  intros H. unfold lookup. simpl length.
  replace (S (length l) - 1 - k) with (S (length l - 1 - k)) by lia. reflexivity.
Qed.

Lemma lookup_cons_eq {A} (d x : A) l : lookup d (x :: l) (length l) = x.
Proof. unfold lookup. simpl length. replace (S (length l) - 1 - length l) with 0 by lia. reflexivity. Qed.

Lemma lookup_hd {A} (d x : A) tbl n : length tbl = n -> lookup d (x :: tbl) n = x.
Proof. intros <-. apply lookup_cons_eq. Qed.
Lemma lookup_tl {A} (d x : A) tbl n k : length tbl = n -> k < n -> lookup d (x :: tbl) k = lookup d tbl k.
Proof. intros <- H. apply lookup_cons_lt, H. Qed.

Section Lists.
  Variable T : Type.
  Variables (zero one : T).
  Variable su : uop -> T -> T.
  Variable sb : bop -> T -> T -> T.
  Variable du : uop -> T -> T -> T.
  Variable db : bop -> T -> T -> T -> T -> T.

  Lemma length_vals l : length (vals T zero su sb l) = length l.
  Proof. induction l as [|o l IH]; simpl; [reflexivity|]. now rewrite IH. Qed.

  Lemma length_dvals m l : length (dvals T zero one su sb du db m l) = length l.
  Proof. induction l as [|o l IH]; simpl; [reflexivity|]. now rewrite IH. Qed.

  Lemma length_set_value l i t : length (set_value T l i t) = length l.
  Proof. induction l as [|o l IH]; simpl; [reflexivity|]. now rewrite IH. Qed.

  Lemma length_srcs l : length (srcs T l) = length l.
  Proof. induction l as [|o l IH]; simpl; [reflexivity|]. now rewrite IH. Qed.

  (** setting the value of an object that does not exist (yet) changes nothing *)
  Lemma set_value_beyond l i t : length l <= i -> set_value T l i t = l.
  Proof.
    induction l as [|o l IH]; simpl; intros H; [reflexivity|].
    destruct (Nat.eqb_spec (length l) i); [lia|]. rewrite IH by lia. reflexivity.
  Qed.

  (** setting a measurement to the value it already has changes nothing *)
  Lemma set_value_same l i v e :
    lookup (ODer (FU NEG (RConst zero))) l i = OMeas v e -> set_value T l i v = l.
  Proof.
    induction l as [|o l IH]; simpl; intros H; [reflexivity|].
    destruct (Nat.eqb_spec (length l) i) as [E|N].
    - subst i. rewrite lookup_cons_eq in H. subst o.
      rewrite set_value_beyond by lia. reflexivity.
    - destruct (Nat.lt_ge_cases i (length l)) as [Hlt|Hge].
      + rewrite lookup_cons_lt in H by exact Hlt. rewrite IH by exact H. reflexivity.
      + (* out of range: the default is not a measurement *)
        unfold lookup in H. simpl length in H.
        replace (S (length l) - 1 - i) with 0 in H by lia. simpl in H. subst o.
        rewrite set_value_beyond by lia. reflexivity.
  Qed.
End Lists.

Lemma In_insert_sorted x y l : In x (insert_sorted y l) <-> x = y \/ In x l.
Proof.
  induction l as [|z l IH]; simpl.
  - intuition.
  - destruct (Nat.ltb y z); simpl; [intuition|].
    destruct (Nat.eqb_spec y z) as [->|N]; simpl; [intuition|].
    rewrite IH. intuition.
Qed.

Lemma In_union_sorted x a b : In x (union_sorted a b) <-> In x a \/ In x b.
Proof.
  unfold union_sorted. induction a as [|y a IH]; simpl; [intuition|].
  rewrite In_insert_sorted, IH. intuition.
Qed.
