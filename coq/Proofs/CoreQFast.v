(** The table-sharing checker of Model/CoreQ.v decides exactly what the specification checker decides. *)
From Coq Require Import List Arith Bool ZArith QArith Qabs Lia.
From QV Require Import Base.QOps Base.CaseLib Gen.OpsTable Model.Core Model.CoreQ.
Import ListNotations.

Lemma dedupe_in (a acc : list nat) x :
  In x (fold_right (fun i a0 => if existsb (Nat.eqb i) a0 then a0 else i :: a0) acc a) <-> In x a \/ In x acc.
Proof.
  induction a as [|y a IH]; simpl; [tauto|].
  destruct (existsb (Nat.eqb y) _) eqn:E.
  - rewrite IH. split; [tauto|]. intros [[<-|H]|H]; try tauto.
    apply existsb_exists in E. destruct E as [z [Hz Ez]]. apply Nat.eqb_eq in Ez. subst z.
    apply IH. exact Hz.
  - simpl. rewrite IH. tauto.
Qed.

(** membership in the two nested de-duplicating folds of check_case_fast *)
Lemma dedupe_md (ds : list (nat * Q)) (acc : list nat) x :
  In x (fold_right (fun (md : nat * Q) a => if existsb (Nat.eqb (fst md)) a then a else fst md :: a) acc ds)
  <-> In x (map fst ds) \/ In x acc.
Proof.
  induction ds as [|y ds IH]; simpl; [tauto|].
  destruct (existsb (Nat.eqb (fst y)) _) eqn:E.
  - rewrite IH. split; [tauto|]. intros [[<-|H]|H]; try tauto.
    apply existsb_exists in E. destruct E as [z [Hz Ez]]. apply Nat.eqb_eq in Ez. subst z.
    apply IH. exact Hz.
  - simpl. rewrite IH. tauto.
Qed.

Lemma dedupe_in' (ss : list (list nat)) (acc : list nat) x :
  In x (fold_right (fun s acc0 => fold_right (fun i a => if existsb (Nat.eqb i) a then a else i :: a) acc0 s) acc ss)
  <-> (exists s, In s ss /\ In x s) \/ In x acc.
Proof.
  induction ss as [|s ss IH]; simpl.
  - split; [tauto|]. intros [[s [[] _]]|H]; exact H.
  - rewrite dedupe_in, IH. split.
    + intros [H|[[s0 [H1 H2]]|H]]; [left; exists s; tauto|left; exists s0; tauto|tauto].
    + intros [[s0 [[<-|H1] H2]]|H]; [tauto|right; left; exists s0; tauto|tauto].
Qed.

Lemma assoc_tab_map (f : nat -> list oq) ms m : In m ms -> assoc_tab (map (fun m0 => (m0, f m0)) ms) m = f m.
Proof.
  unfold assoc_tab. induction ms as [|y ms IH]; simpl; [tauto|].
  destruct (Nat.eqb_spec y m) as [->|N]; [reflexivity|]. intros [E|H]; [contradiction|]. apply IH, H.
Qed.

Lemma lookup_in_or_default {A} (d : A) (l : list A) k : lookup d l k = d \/ In (lookup d l k) l.
Proof. unfold lookup. destruct (nth_in_or_default (length l - 1 - k) l d); tauto. Qed.

Lemma qerr2_tab_spec rho l k (dk : nat -> oq) :
  (forall i, In i (qsources l k) -> dk i = qderiv l k i) ->
  qerr2_tab rho l (qsources l k) dk false = qerr2 rho l k /\
  qerr2_tab rho l (qsources l k) dk true = qerr2_abs rho l k.
Proof.
  intros H. unfold qerr2_tab, qerr2, qerr2_abs, err2. fold (qsources l k).
  assert (P : forall i j, In (i, j) (pairs (qsources l k)) -> In i (qsources l k) /\ In j (qsources l k)).
  { generalize (qsources l k). intros S0 i j. induction S0 as [|z S0 IHS]; simpl; [tauto|].
    rewrite in_app_iff, in_map_iff. intros [[w [E Hw]]|Hin].
    - injection E as <- <-. tauto.
    - apply IHS in Hin. tauto. }
  split; f_equal; f_equal; apply map_ext_in.
  - intros i Hi. rewrite (H i Hi). reflexivity.
  - intros [i j] Hij. destruct (P i j Hij) as [Hi Hj]. rewrite (H i Hi), (H j Hj). reflexivity.
  - intros i Hi. rewrite (H i Hi). reflexivity.
  - intros [i j] Hij. destruct (P i j Hij) as [Hi Hj]. rewrite (H i Hi), (H j Hj). reflexivity.
Qed.

Lemma forallb_ext_in {A} (f g : A -> bool) l : (forall x, In x l -> f x = g x) -> forallb f l = forallb g l.
Proof.
  induction l as [|x l IH]; simpl; intros H; [reflexivity|].
  rewrite (H x) by tauto. rewrite IH by (intros y Hy; apply H; tauto). reflexivity.
Qed.

Theorem check_case_fast_spec c : check_case_fast c = check_case c.
Proof.
  destruct c as [[[[l tbl] vtol] dtol] os]. unfold check_case_fast, check_case.
  set (ss := srcs oq l).
  set (ms := fold_right _ [] os).
  set (ms2 := fold_right _ ms ss).
  set (tabs := map _ ms2).
  f_equal. apply forallb_ext_in. intros [[[[k v] e] srcl] ds] Ho. unfold check_obs.
  (* every measurement asked about, and every source, has its table *)
  assert (Hms : forall md, In md ds -> In (fst md) ms2).
  { intros md Hmd. unfold ms2. apply dedupe_in'. right.
    unfold ms. clear -Ho Hmd. induction os as [|o os IH]; simpl in *; [tauto|].
    destruct Ho as [->|Ho].
    - apply dedupe_md. left. apply in_map, Hmd.
    - destruct o as [[[[k0 v0] e0] s0] d0]. apply dedupe_md. right. apply IH, Ho. }
  assert (Hsrc : forall i, In i (qsources l k) -> In i ms2).
  { intros i Hi. unfold ms2. apply dedupe_in'. left.
    unfold qsources, sources in Hi. fold ss in Hi.
    destruct (lookup_in_or_default [] ss k) as [E|E]; [rewrite E in Hi; destruct Hi|].
    exists (lookup [] ss k). split; assumption. }
  assert (Hdk : forall i, In i ms2 -> lookup qzero (assoc_tab tabs i) k = qderiv l k i).
  { intros i Hi. unfold tabs. rewrite (assoc_tab_map (fun m => dvals oq qzero qone q_su q_sb q_du q_db m l) ms2 i Hi).
    reflexivity. }
  change (lookup [] ss k) with (qsources l k).
  change (lookup qzero (vals oq qzero q_su q_sb l) k) with (qvalue l k).
  destruct (qerr2_tab_spec (rho_of tbl) l k (fun i => lookup qzero (assoc_tab tabs i) k)
              (fun i Hi => Hdk i (Hsrc i Hi))) as [E1 E2].
  rewrite E1, E2.
  f_equal. f_equal.
  apply forallb_ext_in. intros md Hmd. rewrite (Hdk _ (Hms md Hmd)). reflexivity.
Qed.
