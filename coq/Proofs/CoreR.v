(** The derivative-method evaluator over the reals: [deriv] is the true partial derivative of
    [value] (C03), for every well-formed object DAG inside the operators' domains. *)
From Coq Require Import List Arith Bool Lia Reals Lra.
From Coquelicot Require Import Coquelicot.
From QV Require Import Base.RealOps Gen.OpsTable Model.Core Proofs.OpsRules Proofs.CoreLists.
Import ListNotations.
Local Open Scope R_scope.

Definition rvals := vals R 0 sem_u sem_b.
Definition rdvals := dvals R 0 1 sem_u sem_b d_u d_b.
Definition rvalue := value R 0 sem_u sem_b.
Definition rderiv := deriv R 0 1 sem_u sem_b d_u d_b.
Definition rval_ref := val_ref R 0.
Definition rd_ref := d_ref R 0.

(** the object with id [m] is a measurement with central value [v] *)
Definition meas_at (l : list (obj R)) (m : nat) (v : R) : Prop :=
  (m < length l)%nat /\ exists e, lookup (ODer (FU NEG (RConst 0))) l m = OMeas v e.

(** operators' domains along the DAG, at the current central values *)
Definition dom_obj (vs : list R) (o : obj R) : Prop :=
  match o with
  | OMeas _ _ => True
  | ODer (FU op a) => DomU op (rval_ref vs a)
  | ODer (FB op a b) =>
      DomB op (rval_ref vs a) (rval_ref vs b)
      \/ (op = POW /\ exists k, b = RConst (IZR k) /\ (rval_ref vs a <> 0 \/ (0 <= k)%Z))
  end.
Fixpoint Dom (l : list (obj R)) : Prop :=
  match l with [] => True | o :: older => dom_obj (rvals older) o /\ Dom older end.

Lemma len_rvals l : length (rvals l) = length l. Proof. apply length_vals. Qed.
Lemma len_rdvals m l : length (rdvals m l) = length l. Proof. apply length_dvals. Qed.

Lemma d_u_zero o v : d_u o v 0 = 0.
Proof. rewrite d_u_linear. ring. Qed.

Lemma d_b_zero o va vb : d_b o va 0 vb 0 = 0.
Proof.
  destruct o; unfold d_b, Rdiv; try ring.
  destruct (Req_EM_T 0 0); ring.
Qed.

(** derivatives with respect to an object that does not exist (yet) are all 0 *)
Lemma dvals_beyond m l : (length l <= m)%nat -> forall k, lookup 0 (rdvals m l) k = 0.
Proof.
  induction l as [|o l IH]; intros Hm k.
  - unfold lookup. simpl. destruct (0 - 1 - k)%nat; reflexivity.
  - simpl in Hm. assert (IHl := IH ltac:(lia)). clear IH.
    assert (Hhead : d_of R 0 1 d_u d_b m (length l) (rvals l) (rdvals m l) o = 0).
    { unfold d_of. destruct (Nat.eqb_spec (length l) m); [lia|].
      destruct o as [v e|[op a|op a b]]; [reflexivity| |].
      - replace (d_ref R 0 (rdvals m l) a) with 0; [apply d_u_zero|].
        destruct a; simpl; [symmetry; apply IHl|reflexivity].
      - replace (d_ref R 0 (rdvals m l) a) with 0; [replace (d_ref R 0 (rdvals m l) b) with 0; [apply d_b_zero|]|].
        + destruct b; simpl; [symmetry; apply IHl|reflexivity].
        + destruct a; simpl; [symmetry; apply IHl|reflexivity]. }
    unfold rdvals. simpl dvals. fold (rdvals m l). fold (rvals l). rewrite Hhead.
    destruct (Nat.lt_ge_cases k (length l)) as [Hlt|Hge].
    + rewrite lookup_cons_lt by (unfold rdvals; rewrite length_dvals; exact Hlt). apply IHl.
    + unfold lookup. simpl length. unfold rdvals. rewrite length_dvals.
      replace (S (length l) - 1 - k)%nat with 0%nat by lia. reflexivity.
Qed.

(** references to earlier objects: value as a function of the measurement, and its derivative *)
Lemma ref_is_derive older m v a :
  ref_ok R (length older) a = true ->
  (forall k, (k < length older)%nat ->
     is_derive (fun t => lookup 0 (rvals (set_value R older m t)) k) v (lookup 0 (rdvals m older) k)) ->
  is_derive (fun t => rval_ref (rvals (set_value R older m t)) a) v (rd_ref (rdvals m older) a).
Proof.
  intros Hok IH. destruct a as [j|c]; simpl.
  - apply IH. simpl in Hok. apply Nat.ltb_lt, Hok.
  - apply (is_derive_const (K := R_AbsRing) (V := R_NormedModule) c v).
Qed.

Theorem deriv_is_derive l : forall m v,
  wf R l = true -> Dom l -> meas_at l m v ->
  forall k, (k < length l)%nat ->
  is_derive (fun t => lookup 0 (rvals (set_value R l m t)) k) v (lookup 0 (rdvals m l) k).
Proof.
  induction l as [|o older IH]; intros m v Hwf Hdom Hm k Hk; [simpl in Hk; lia|].
  simpl in Hwf. apply andb_true_iff in Hwf. destruct Hwf as [Hok Hwf].
  destruct Hdom as [Hdo Hdom].
  unfold rdvals. simpl dvals. fold (rdvals m older). fold (rvals older).
  destruct (Nat.eq_dec m (length older)) as [Emn|Nmn].
  - (* the head is the measurement itself *)
    subst m. destruct Hm as [_ [e Hm]]. rewrite lookup_cons_eq in Hm. subst o.
    apply (is_derive_ext (fun t => lookup 0 (t :: rvals older) k)).
    { intros t. cbv beta. simpl set_value. rewrite Nat.eqb_refl.
      rewrite set_value_beyond by lia. reflexivity. }
    unfold d_of. rewrite Nat.eqb_refl.
    simpl in Hk.
    destruct (Nat.eq_dec k (length older)) as [->|Nk].
    + rewrite (lookup_hd 0 1 _ _ (len_rdvals _ _)).
      apply (is_derive_ext (fun t => t)).
      { intros t. cbv beta. symmetry. apply (lookup_hd 0 t _ _ (len_rvals _)). }
      apply (is_derive_id (K := R_AbsRing) v).
    + assert (Hlt : (k < (length older))%nat) by lia.
      apply (is_derive_ext (fun _ => lookup 0 (rvals older) k)).
      { intros t. cbv beta. symmetry. apply (lookup_tl 0 t _ _ _ (len_rvals _) Hlt). }
      rewrite (lookup_tl 0 _ _ _ _ (len_rdvals _ _) Hlt).
      rewrite dvals_beyond by lia.
      apply (is_derive_const (K := R_AbsRing) (V := R_NormedModule)).
  - (* the measurement is an earlier object *)
    assert (Hm' : meas_at older m v).
    { destruct Hm as [Hr [e Hm]]. simpl in Hr.
      assert (Hlt : (m < length older)%nat) by lia.
      split; [exact Hlt|]. exists e.
      rewrite lookup_cons_lt in Hm by exact Hlt. exact Hm. }
    assert (IHo := IH m v Hwf Hdom Hm'). clear IH.
    assert (Hset : forall t, set_value R (o :: older) m t = o :: set_value R older m t).
    { intros t. cbv beta. simpl. destruct (Nat.eqb_spec (length older) m); [lia|reflexivity]. }
    assert (Hsame : set_value R older m v = older).
    { destruct Hm' as [_ [e He]]. eapply set_value_same. exact He. }
    simpl in Hk.
    destruct (Nat.eq_dec k (length older)) as [->|Nk].
    + (* the new object itself *)
      rewrite (lookup_hd 0 _ _ _ (len_rdvals _ _)).
      apply (is_derive_ext (fun t => val_of R 0 sem_u sem_b (rvals (set_value R older m t)) o)).
      { intros t. cbv beta. rewrite Hset. unfold rvals. simpl vals.
        rewrite lookup_hd; [reflexivity|]. rewrite length_vals, length_set_value. reflexivity. }
      unfold d_of. destruct (Nat.eqb_spec (length older) m); [lia|].
      destruct o as [v0 e0|[op a|op a b]].
      * simpl. apply (is_derive_const (K := R_AbsRing) (V := R_NormedModule)).
      * simpl in Hok. simpl val_of.
        assert (Ha := ref_is_derive older m v a Hok IHo).
        fold (rval_ref (rvals older) a). fold (rd_ref (rdvals m older) a).
        rewrite d_u_linear.
        replace (rval_ref (rvals older) a) with (rval_ref (rvals (set_value R older m v)) a)
          by (rewrite Hsame; reflexivity).
        apply (is_derive_comp (sem_u op) (fun t => rval_ref (rvals (set_value R older m t)) a) v
                 (d_u op (rval_ref (rvals (set_value R older m v)) a) 1) _); [|exact Ha].
        apply rule_u. rewrite Hsame. exact Hdo.
      * simpl in Hok. apply andb_true_iff in Hok. destruct Hok as [Hoa Hob]. simpl val_of.
        assert (Ha := ref_is_derive older m v a Hoa IHo).
        assert (Hb := ref_is_derive older m v b Hob IHo).
        fold (rval_ref (rvals older) a). fold (rd_ref (rdvals m older) a).
        fold (rval_ref (rvals older) b). fold (rd_ref (rdvals m older) b).
        replace (rval_ref (rvals older) a) with (rval_ref (rvals (set_value R older m v)) a)
          by (rewrite Hsame; reflexivity).
        replace (rval_ref (rvals older) b) with (rval_ref (rvals (set_value R older m v)) b)
          by (rewrite Hsame; reflexivity).
        destruct Hdo as [Hd|[-> [kz [-> Hd]]]].
        -- apply (rule_b op _ _ v _ _ Ha Hb). rewrite Hsame. exact Hd.
        -- simpl rval_ref. simpl rd_ref.
           apply (rule_pow_int _ v _ kz Ha). rewrite Hsame. exact Hd.
    + assert (Hlt : (k < (length older))%nat) by lia.
      apply (is_derive_ext (fun t => lookup 0 (rvals (set_value R older m t)) k)).
      { intros t. cbv beta. rewrite Hset. unfold rvals. simpl vals.
        rewrite (lookup_tl 0 _ _ (length older)); [reflexivity| |exact Hlt].
        rewrite length_vals, length_set_value. reflexivity. }
      rewrite (lookup_tl 0 _ _ _ _ (len_rdvals _ _) Hlt).
      apply IHo, Hlt.
Qed.

(** ---- a result does not depend on measurements it is not derived from ---- *)
Definition not_derived (l : list (obj R)) (m : nat) : Prop :=
  forall k f, (k < length l)%nat -> lookup (OMeas 0 0) l k = ODer f -> k <> m.

Lemma len_srcs (l : list (obj R)) : length (srcs R l) = length l. Proof. apply length_srcs. Qed.

Lemma deriv_unrelated l : forall m,
  wf R l = true -> not_derived l m ->
  forall k, (k < length l)%nat -> ~ In m (sources R l k) -> rderiv l k m = 0.
Proof.
  unfold rderiv, deriv, sources. fold rdvals.
  induction l as [|o older IH]; intros m Hwf Hnd k Hk Hnot; [simpl in Hk; lia|].
  simpl in Hwf. apply andb_true_iff in Hwf. destruct Hwf as [Hok Hwf].
  assert (Hnd' : not_derived older m).
  { intros j f Hj Hl. apply (Hnd j f); [simpl; lia|]. rewrite lookup_cons_lt by exact Hj. exact Hl. }
  assert (IHo := IH m Hwf Hnd'). clear IH.
  unfold rdvals in *. simpl dvals. simpl srcs in Hnot. fold (rdvals m older) in *. fold (rvals older).
  simpl in Hk.
  destruct (Nat.eq_dec k (length older)) as [->|Nk].
  - rewrite (lookup_hd 0 _ _ _ (len_rdvals _ _)).
    rewrite (lookup_hd [] _ _ _ (len_srcs _)) in Hnot.
    unfold d_of. destruct (Nat.eqb_spec (length older) m) as [E|N].
    + (* the object is m itself: it must be a measurement, hence its own source *)
      exfalso. destruct o as [v e|f].
      * apply Hnot. simpl. left. exact E.
      * apply (Hnd (length older) f); [simpl; lia| |exact E]. apply lookup_cons_eq.
    + assert (Href : forall a, ref_ok R (length older) a = true ->
                ~ In m (src_ref R (srcs R older) a) -> d_ref R 0 (rdvals m older) a = 0).
      { intros [j|c] Ha Hn; simpl; [|reflexivity].
        apply IHo; [apply Nat.ltb_lt, Ha|exact Hn]. }
      destruct o as [v e|[op a|op a b]]; [reflexivity| |].
      * simpl in Hok, Hnot. rewrite (Href a Hok Hnot). apply d_u_zero.
      * simpl in Hok, Hnot. apply andb_true_iff in Hok. destruct Hok as [Ha Hb].
        rewrite In_union_sorted in Hnot.
        rewrite (Href a Ha), (Href b Hb) by tauto. apply d_b_zero.
  - assert (Hlt : (k < length older)%nat) by lia.
    rewrite (lookup_tl 0 _ _ _ _ (len_rdvals _ _) Hlt).
    rewrite (lookup_tl [] _ _ _ _ (len_srcs _) Hlt) in Hnot.
    apply IHo; assumption.
Qed.

Lemma deriv_self l m v : meas_at l m v -> rderiv l m m = 1.
Proof.
  unfold rderiv, deriv. fold rdvals.
  induction l as [|o older IH]; intros [Hr [e Hm]]; [simpl in Hr; lia|].
  unfold rdvals. simpl dvals. fold (rdvals m older). simpl in Hr.
  destruct (Nat.eq_dec m (length older)) as [->|N].
  - rewrite (lookup_hd 0 _ _ _ (len_rdvals _ _)). unfold d_of. rewrite Nat.eqb_refl. reflexivity.
  - assert (Hlt : (m < length older)%nat) by lia.
    rewrite (lookup_tl 0 _ _ _ _ (len_rdvals _ _) Hlt). apply IH.
    split; [exact Hlt|]. exists e. rewrite lookup_cons_lt in Hm by exact Hlt. exact Hm.
Qed.

(** ---- the propagated variance is the first-order law with the true partial derivatives ---- *)
Definition rerr2 := err2 R 0 1 2 Rplus Rmult sem_u sem_b d_u d_b.
Definition sigma (l : list (obj R)) (i : nat) : R := error_m R 0 l i.
Definition central (l : list (obj R)) (i : nat) : R :=
  match lookup (ODer (FU NEG (RConst 0))) l i with OMeas v _ => v | ODer _ => 0 end.
(** the exact partial derivative of result [k] with respect to measurement [i] *)
Definition Dpart (l : list (obj R)) (k i : nat) : R :=
  Derive (fun t => rvalue (set_value R l i t) k) (central l i).

Lemma sources_are_meas l : forall k i, wf R l = true -> (k < length l)%nat ->
  In i (sources R l k) -> meas_at l i (central l i).
Proof.
  unfold sources.
  induction l as [|o older IH]; intros k i Hwf Hk Hin; [simpl in Hk; lia|].
  simpl in Hwf. apply andb_true_iff in Hwf. destruct Hwf as [Hok Hwf].
  assert (Hlift : forall j, meas_at older j (central older j) -> meas_at (o :: older) j (central (o :: older) j)).
  { intros j [Hr [e He]]. split; [simpl; lia|]. unfold central in *.
    rewrite (lookup_cons_lt _ o older j Hr). exact (ex_intro _ e He). }
  simpl srcs in Hin. simpl in Hk.
  destruct (Nat.eq_dec k (length older)) as [->|Nk].
  - rewrite (lookup_hd [] _ _ _ (len_srcs _)) in Hin.
    assert (Href : forall a, ref_ok R (length older) a = true -> In i (src_ref R (srcs R older) a) ->
                   meas_at (o :: older) i (central (o :: older) i)).
    { intros [j|c] Ha Hi; simpl in Hi; [|contradiction].
      apply Hlift. apply (IH j i Hwf); [apply Nat.ltb_lt, Ha|exact Hi]. }
    destruct o as [v e|[op a|op a b]]; simpl in Hin.
    + destruct Hin as [<-|[]]. split; [simpl; lia|]. unfold central. rewrite !lookup_cons_eq.
      exists e. reflexivity.
    + simpl in Hok. apply (Href a Hok Hin).
    + simpl in Hok. apply andb_true_iff in Hok. destruct Hok as [Ha Hb].
      apply In_union_sorted in Hin. destruct Hin as [Hi|Hi]; [apply (Href a Ha Hi)|apply (Href b Hb Hi)].
  - assert (Hlt : (k < length older)%nat) by lia.
    rewrite (lookup_tl [] _ _ _ _ (len_srcs _) Hlt) in Hin.
    apply Hlift. apply (IH k i Hwf Hlt Hin).
Qed.

Lemma deriv_is_Dpart l k i :
  wf R l = true -> Dom l -> (k < length l)%nat -> meas_at l i (central l i) ->
  rderiv l k i = Dpart l k i.
Proof.
  intros Hwf Hdom Hk Hm. unfold Dpart. symmetry. apply is_derive_unique.
  apply (deriv_is_derive l i (central l i) Hwf Hdom Hm k Hk).
Qed.

Definition law_terms (rho : nat -> nat -> R) (l : list (obj R)) (k : nat) (V : list nat) : R :=
  sum R 0 Rplus (map (fun i => (sigma l i * Dpart l k i) * (sigma l i * Dpart l k i)) V)
  + sum R 0 Rplus (map (fun p : nat * nat => let '(i, j) := p in
        2 * (rho i j * sigma l i * sigma l j) * Dpart l k i * Dpart l k j) (pairs V)).

Lemma In_pairs {A} (l : list A) x y : In (x, y) (pairs l) -> In x l /\ In y l.
Proof.
  induction l as [|z l IH]; simpl; [tauto|].
  rewrite in_app_iff, in_map_iff. intros [[w [E Hw]]|H].
  - injection E as <- <-. tauto.
  - apply IH in H. tauto.
Qed.

Theorem err2_is_law rho l k :
  wf R l = true -> Dom l -> (k < length l)%nat ->
  rerr2 rho l k = law_terms rho l k (sources R l k).
Proof.
  intros Hwf Hdom Hk. unfold rerr2, err2, law_terms.
  assert (HD : forall i, In i (sources R l k) -> deriv R 0 1 sem_u sem_b d_u d_b l k i = Dpart l k i).
  { intros i Hi. apply (deriv_is_Dpart l k i Hwf Hdom Hk). apply (sources_are_meas l k i Hwf Hk Hi). }
  f_equal.
  - f_equal. apply map_ext_in. intros i Hi. rewrite (HD i Hi). reflexivity.
  - f_equal. apply map_ext_in. intros [i j] Hij. apply In_pairs in Hij. destruct Hij as [Hi Hj].
    rewrite (HD i Hi), (HD j Hj). unfold sigma. ring.
Qed.

(** measurements the result does not depend on contribute nothing: the law may be summed over
    any list that extends the sources by further measurements *)
Lemma sum_app (a b : list R) : sum R 0 Rplus (a ++ b) = sum R 0 Rplus a + sum R 0 Rplus b.
Proof. unfold sum. induction a as [|x a IH]; simpl; [ring|]. rewrite IH. ring. Qed.

Lemma sum_zero (a : list R) : (forall x, In x a -> x = 0) -> sum R 0 Rplus a = 0.
Proof.
  unfold sum. induction a as [|x a IH]; simpl; intros H; [reflexivity|].
  rewrite (H x) by tauto. rewrite IH by (intros y Hy; apply H; tauto). ring.
Qed.

Lemma Dpart_unrelated l k i :
  wf R l = true -> Dom l -> (k < length l)%nat -> meas_at l i (central l i) ->
  ~ In i (sources R l k) -> Dpart l k i = 0.
Proof.
  intros Hwf Hdom Hk Hm Hn. rewrite <- (deriv_is_Dpart l k i Hwf Hdom Hk Hm).
  apply deriv_unrelated; try assumption.
  intros j f Hj Hl E. subst j. destruct Hm as [_ [e He]].
  (* the same object cannot be both a measurement and a derived value *)
  unfold lookup in He, Hl. 
  assert (Hidx : (length l - 1 - i < length l)%nat) by lia.
  rewrite (nth_indep l _ (OMeas 0 0) Hidx) in He. rewrite He in Hl. discriminate Hl.
Qed.

Theorem err2_law_superset rho l k X :
  wf R l = true -> Dom l -> (k < length l)%nat ->
  (forall i, In i X -> meas_at l i (central l i) /\ ~ In i (sources R l k)) ->
  rerr2 rho l k = law_terms rho l k (sources R l k ++ X).
Proof.
  intros Hwf Hdom Hk HX. rewrite (err2_is_law rho l k Hwf Hdom Hk). unfold law_terms.
  assert (HZ : forall i, In i X -> Dpart l k i = 0).
  { intros i Hi. destruct (HX i Hi) as [Hm Hn]. apply (Dpart_unrelated l k i Hwf Hdom Hk Hm Hn). }
  rewrite map_app, sum_app.
  rewrite (sum_zero (map _ X)).
  2:{ intros x Hx. apply in_map_iff in Hx. destruct Hx as [i [<- Hi]]. rewrite (HZ i Hi). ring. }
  (* pairs of the extended list: every additional pair has an element of X *)
  assert (Hp : forall S0, sum R 0 Rplus (map (fun p : nat * nat => let '(i, j) := p in
        2 * (rho i j * sigma l i * sigma l j) * Dpart l k i * Dpart l k j) (pairs (S0 ++ X)))
      = sum R 0 Rplus (map (fun p : nat * nat => let '(i, j) := p in
        2 * (rho i j * sigma l i * sigma l j) * Dpart l k i * Dpart l k j) (pairs S0))).
  { induction S0 as [|s S0 IHS]; simpl.
    - apply sum_zero. intros x Hx. apply in_map_iff in Hx. destruct Hx as [[i j] [<- Hij]].
      apply In_pairs in Hij. rewrite (HZ i) by tauto. ring.
    - change (pairs ((s :: S0) ++ X)) with (map (fun y => (s, y)) (S0 ++ X) ++ pairs (S0 ++ X)).
      change (pairs (s :: S0)) with (map (fun y => (s, y)) S0 ++ pairs S0).
      rewrite (map_app (fun y => (s, y)) S0 X).
      rewrite !map_app, !sum_app, IHS.
      rewrite (sum_zero (map _ (map _ X))); [ring|].
      intros x Hx. apply in_map_iff in Hx. destruct Hx as [[i j] [<- Hij]].
      apply in_map_iff in Hij. destruct Hij as [y [E Hy]]. injection E as <- <-.
      rewrite (HZ y Hy). ring. }
  rewrite Hp. ring.
Qed.

(** x - x and x / x have zero uncertainty: a measurement that occurs several times is one variable *)
Lemma x_minus_x_zero rho v e : rerr2 rho [ODer (FB SUB (RObj 0) (RObj 0)); OMeas v e] 1 = 0.
Proof. unfold rerr2, err2. cbn. ring. Qed.

Lemma x_div_x_zero rho v e : v <> 0 -> rerr2 rho [ODer (FB DIV (RObj 0) (RObj 0)); OMeas v e] 1 = 0.
Proof. intros H. unfold rerr2, err2. cbn. field. exact H. Qed.
