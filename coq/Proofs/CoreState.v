(** Invariant of the evaluator state machine (Model/CoreState.v), for any number type:
    a buffered derivative result that is not stale equals a fresh evaluation. *)
From Coq Require Import List Arith Bool Lia.
From QV Require Import Gen.OpsTable Model.Core Model.CoreState Proofs.CoreLists.
Import ListNotations.

Section Proofs.
  Variable T : Type.
  Variables (zero one two : T) (add mul : T -> T -> T).
  Variable su : uop -> T -> T.
  Variable sb : bop -> T -> T -> T.
  Variable du : uop -> T -> T -> T.
  Variable db : bop -> T -> T -> T -> T -> T.
  Variable negative : T -> bool.

  Notation state := (state T).
  Notation step := (step T zero one two add mul su sb du db negative).
  Notation run := (run T zero one two add mul su sb du db negative).
  Notation fresh := (fresh T zero one two add mul su sb du db).
  Notation dlookup := (dlookup T).
  Notation init := (init T).

  (** ---- tables ---- *)
  Lemma length_update {A} (l : list A) k f : length (update l k f) = length l.
  Proof. induction l as [|x l IH]; simpl; [reflexivity|]. destruct (Nat.eqb (length l) k); simpl; congruence. Qed.

  Lemma lookup_update {A} (d : A) l k k' f : (k' < length l)%nat ->
    lookup d (update l k f) k' = if Nat.eqb k' k then f (lookup d l k') else lookup d l k'.
  Proof.
    induction l as [|x l IH]; simpl; intros Hk; [lia|].
    destruct (Nat.eqb_spec (length l) k) as [E|N].
    - destruct (Nat.eq_dec k' (length l)) as [->|Nk].
      + rewrite !lookup_cons_eq. rewrite E, Nat.eqb_refl. reflexivity.
      + assert (Hlt : (k' < length l)%nat) by lia.
        rewrite !lookup_cons_lt by exact Hlt. destruct (Nat.eqb_spec k' k); [lia|reflexivity].
    - destruct (Nat.eq_dec k' (length l)) as [->|Nk].
      + rewrite (lookup_hd d _ _ _ (length_update l k f)), lookup_cons_eq.
        destruct (Nat.eqb_spec (length l) k); [contradiction|reflexivity].
      + assert (Hlt : (k' < length l)%nat) by lia.
        rewrite lookup_cons_lt by (rewrite length_update; exact Hlt).
        rewrite lookup_cons_lt by exact Hlt. apply IH, Hlt.
  Qed.

  (** ---- adding a newer object does not change older results ---- *)
  Lemma sources_lt l : forall k i, wf T l = true -> (k < length l)%nat -> In i (sources T l k) -> (i < length l)%nat.
  Proof.
    unfold sources. induction l as [|o older IH]; intros k i Hwf Hk Hin; [simpl in Hk; lia|].
    simpl in Hwf. apply andb_true_iff in Hwf. destruct Hwf as [Hok Hwf].
    simpl srcs in Hin. simpl in Hk. simpl length.
    destruct (Nat.eq_dec k (length older)) as [->|Nk].
    - rewrite (lookup_hd [] _ _ _ (length_srcs T older)) in Hin.
      assert (Href : forall a, ref_ok T (length older) a = true -> In i (src_ref T (srcs T older) a) -> (i < S (length older))%nat).
      { intros [j|c] Ha Hi; simpl in Hi; [|contradiction].
        apply Nat.ltb_lt in Ha. specialize (IH j i Hwf Ha Hi). lia. }
      destruct o as [v e|[op a|op a b]]; simpl in Hin.
      + destruct Hin as [<-|[]]. lia.
      + apply (Href a Hok Hin).
      + simpl in Hok. apply andb_true_iff in Hok. destruct Hok as [Ha Hb].
        apply In_union_sorted in Hin. destruct Hin as [Hi|Hi]; [apply (Href a Ha Hi)|apply (Href b Hb Hi)].
    - assert (Hlt : (k < length older)%nat) by lia.
      rewrite (lookup_tl [] _ _ _ _ (length_srcs T older) Hlt) in Hin.
      specialize (IH k i Hwf Hlt Hin). lia.
  Qed.

  Lemma fresh_cons o l tbl k : wf T l = true -> (k < length l)%nat -> fresh (o :: l) tbl k = fresh l tbl k.
  Proof.
    intros Hwf Hk. unfold CoreState.fresh. f_equal.
    - unfold value. simpl vals. apply lookup_cons_lt. rewrite length_vals. exact Hk.
    - unfold err2.
      assert (Hs : sources T (o :: l) k = sources T l k).
      { unfold sources. simpl srcs. apply lookup_cons_lt. rewrite length_srcs. exact Hk. }
      rewrite Hs.
      assert (Hd : forall i, deriv T zero one su sb du db (o :: l) k i = deriv T zero one su sb du db l k i).
      { intros i. unfold deriv. simpl dvals. apply lookup_cons_lt. rewrite length_dvals. exact Hk. }
      assert (He : forall i, In i (sources T l k) -> error_m T zero (o :: l) i = error_m T zero l i).
      { intros i Hi. unfold error_m. rewrite lookup_cons_lt; [reflexivity|]. apply (sources_lt l k i Hwf Hk Hi). }
      f_equal; f_equal; apply map_ext_in.
      + intros i Hi. rewrite (He i Hi), Hd. reflexivity.
      + intros [i j] Hij.
        assert (Hi : In i (sources T l k) /\ In j (sources T l k)).
        { clear -Hij. revert Hij. generalize (sources T l k). intros S0.
          induction S0 as [|z S0 IHS]; simpl; [tauto|].
          rewrite in_app_iff, in_map_iff. intros [[w [E Hw]]|H].
          - injection E as <- <-. tauto.
          - apply IHS in H. tauto. }
        destruct Hi as [Hi Hj]. rewrite (He i Hi), (He j Hj), !Hd. reflexivity.
  Qed.

  Lemma wf_set_value l i t : wf T (set_value T l i t) = wf T l.
  Proof.
    induction l as [|o l IH]; simpl; [reflexivity|]. rewrite length_set_value, IH. f_equal.
    destruct (Nat.eqb (length l) i); [destruct o; reflexivity|reflexivity].
  Qed.

  Lemma length_set_error l i e : length (set_error T l i e) = length l.
  Proof. induction l as [|o l IH]; simpl; congruence. Qed.

  Lemma wf_set_error l i e : wf T (set_error T l i e) = wf T l.
  Proof.
    induction l as [|o l IH]; simpl; [reflexivity|]. rewrite length_set_error, IH. f_equal.
    destruct (Nat.eqb (length l) i); [destruct o; reflexivity|reflexivity].
  Qed.

  (** ---- the invariant ---- *)
  Record Inv (s : state) : Prop := {
    inv_len : length (dst T s) = length (objs T s);
    inv_wf : wf T (objs T s) = true;
    inv_cache : forall k r, (k < length (objs T s))%nat ->
        dcache T (dlookup s k) = Some r -> stale T (dlookup s k) = false ->
        r = fresh (objs T s) (corr T s) k
  }.

  Lemma inv_init : Inv init.
  Proof. split; simpl; [reflexivity|reflexivity|intros; lia]. Qed.

  Lemma dlookup_mark_stale s k tbl l g n : (k < length (dst T s))%nat ->
    stale T (CoreState.dlookup T (mk_state T l tbl (mark_stale T s) g n) k) = true.
  Proof.
    intros Hk. unfold CoreState.dlookup, mark_stale. simpl.
    unfold lookup. rewrite map_length.
    rewrite (nth_indep _ _ (mk_dstate T (own T (fresh_dstate T)) (dcache T (fresh_dstate T)) (mc_gen T (fresh_dstate T)) true))
      by (rewrite map_length; lia).
    rewrite (map_nth (fun d => mk_dstate T (own T d) (dcache T d) (mc_gen T d) true)). reflexivity.
  Qed.

  Ltac stale_case Hi :=
    split; simpl;
    [ unfold mark_stale; rewrite map_length; rewrite ?length_set_value, ?length_set_error; apply (inv_len _ Hi)
    | rewrite ?wf_set_value, ?wf_set_error; apply (inv_wf _ Hi)
    | intros k r Hk _ Hst; exfalso;
      rewrite dlookup_mark_stale in Hst;
      [discriminate Hst | rewrite (inv_len _ Hi); rewrite ?length_set_value, ?length_set_error in Hk; exact Hk] ].

  Lemma dlookup_set_dst s k k' f : (k' < length (dst T s))%nat ->
    dlookup (set_dst T s k f) k' = if Nat.eqb k' k then f (dlookup s k') else dlookup s k'.
  Proof. intros H. unfold CoreState.dlookup, set_dst. simpl. apply lookup_update, H. Qed.

  Lemma inv_set_dst s k f :
    Inv s ->
    (forall d, dcache T (f d) = None \/ (dcache T (f d) = dcache T d /\ (stale T (f d) = false -> stale T d = false))
               \/ (dcache T d = None /\ dcache T (f d) = Some (fresh (objs T s) (corr T s) k))) ->
    Inv (set_dst T s k f).
  Proof.
    intros Hi Hf. split; simpl.
    - rewrite length_update. apply (inv_len _ Hi).
    - apply (inv_wf _ Hi).
    - intros k' r Hk Hc Hst.
      change (objs T (set_dst T s k f)) with (objs T s) in *.
      change (corr T (set_dst T s k f)) with (corr T s).
      rewrite dlookup_set_dst in Hc, Hst by (rewrite (inv_len _ Hi); exact Hk).
      destruct (Nat.eqb_spec k' k) as [->|N].
      + destruct (Hf (dlookup s k)) as [E|[[E Es]|[E1 E2]]].
        * rewrite E in Hc. discriminate.
        * rewrite E in Hc. apply (inv_cache _ Hi k r Hk Hc (Es Hst)).
        * rewrite E2 in Hc. injection Hc as <-. reflexivity.
      + apply (inv_cache _ Hi k' r Hk Hc Hst).
  Qed.

  Lemma inv_ensure_samples s k : Inv s -> Inv (fst (ensure_samples T s k)).
  Proof.
    intros Hi. unfold ensure_samples. destruct (mc_gen T (dlookup s k)); [exact Hi|]. simpl.
    destruct (inv_set_dst s k (fun d => mk_dstate T (own T d) (dcache T d) (Some (next_gen T s)) (stale T d)) Hi) as [L W C].
    { intros d. right. left. simpl. tauto. }
    split; assumption.
  Qed.

  Lemma inv_ensure_der s k : Inv s -> Inv (fst (ensure_der T zero one two add mul su sb du db s k)).
  Proof.
    intros Hi. unfold ensure_der. destruct (dcache T (dlookup s k)) eqn:E; [exact Hi|]. simpl.
    (* only object k's entry changes: use the invariant lemma with a function that is the identity elsewhere *)
    split; simpl.
    - rewrite length_update. apply (inv_len _ Hi).
    - apply (inv_wf _ Hi).
    - intros k' r Hk Hc Hst.
      rewrite dlookup_set_dst in Hc, Hst by (rewrite (inv_len _ Hi); exact Hk).
      destruct (Nat.eqb_spec k' k) as [->|N].
      + simpl in Hc. injection Hc as <-. reflexivity.
      + apply (inv_cache _ Hi k' r Hk Hc Hst).
  Qed.

  Theorem inv_step s x : Inv s -> Inv (fst (step s x)).
  Proof.
    intros Hi. destruct x; simpl.
    - stale_case Hi.
    - destruct (negative e); [exact Hi|]. stale_case Hi.
    - rename r into r0. stale_case Hi.
    - stale_case Hi.
    - (* New *)
      destruct (obj_ok T (length (objs T s)) o) eqn:Hok; [|exact Hi]. split; simpl.
      + f_equal. apply (inv_len _ Hi).
      + rewrite Hok. apply (inv_wf _ Hi).
      + intros k r Hk Hc Hst. unfold CoreState.dlookup in Hc, Hst. simpl in Hc, Hst.
        destruct (Nat.eq_dec k (length (objs T s))) as [->|N].
        * rewrite <- (inv_len _ Hi) in Hc. rewrite lookup_cons_eq in Hc. discriminate Hc.
        * assert (Hlt : (k < length (objs T s))%nat) by lia.
          rewrite lookup_cons_lt in Hc, Hst by (rewrite (inv_len _ Hi); exact Hlt).
          rewrite fresh_cons by (try apply (inv_wf _ Hi); exact Hlt).
          apply (inv_cache _ Hi k r Hlt Hc Hst).
    - destruct (effective T s k).
      + generalize (inv_ensure_der s k Hi). destruct (ensure_der _ _ _ _ _ _ _ _ _ _ s k) as [s1 r]. simpl. auto.
      + generalize (inv_ensure_samples s k Hi). destruct (ensure_samples T s k) as [s1 g]. simpl. auto.
    - destruct (effective T s k).
      + generalize (inv_ensure_der s k Hi). destruct (ensure_der _ _ _ _ _ _ _ _ _ _ s k) as [s1 r]. simpl. auto.
      + generalize (inv_ensure_samples s k Hi). destruct (ensure_samples T s k) as [s1 g]. simpl. auto.
    - exact Hi.
    - apply inv_set_dst; [exact Hi|]. intros d. left. reflexivity.
    - destruct Hi as [L W C]. split; assumption.
    - apply inv_set_dst; [exact Hi|]. intros d. right. left. simpl. tauto.
    - apply inv_set_dst; [exact Hi|]. intros d. right. left. simpl. tauto.
    - generalize (inv_ensure_samples s k Hi). destruct (ensure_samples T s k) as [s1 g]. simpl. auto.
    - apply inv_set_dst; [exact Hi|]. intros d. right. left. simpl. tauto.
  Qed.

  Theorem inv_run ops : forall s, Inv s -> Inv (fst (run s ops)).
  Proof.
    induction ops as [|x ops IH]; intros s Hi; simpl; [exact Hi|].
    generalize (inv_step s x Hi). destruct (step s x) as [s1 o]. simpl. intros Hi1.
    generalize (IH s1 Hi1). destruct (run s1 ops) as [s2 os]. simpl. auto.
  Qed.

  Corollary inv_reachable ops : Inv (fst (run init ops)).
  Proof. apply inv_run, inv_init. Qed.

  (** ---- consequences ---- *)
  (** a derivative-method read of a quantity that is not stale returns the fresh evaluation of the
      current measurements, correlations and formula -- whatever the global method, the random
      state (next_gen), stored samples or the history of method switches *)
  Theorem read_fresh s k : Inv s -> (k < length (objs T s))%nat ->
    effective T s k = Derivative -> stale T (dlookup s k) = false ->
    snd (step s (ReadValue T k)) = OVal T (fst (fresh (objs T s) (corr T s) k)) /\
    snd (step s (ReadError T k)) = OVar T (snd (fresh (objs T s) (corr T s) k)).
  Proof.
    intros Hi Hk He Hst. simpl. rewrite He. unfold ensure_der.
    destruct (dcache T (dlookup s k)) as [r|] eqn:Ec; simpl.
    - rewrite (inv_cache _ Hi k r Hk Ec Hst). split; reflexivity.
    - split; reflexivity.
  Qed.

  (** recalculate() leaves the quantity not stale and without buffered results *)
  Theorem recalc_clears s k : (k < length (dst T s))%nat ->
    let s1 := fst (step s (Recalc T k)) in
    stale T (dlookup s1 k) = false /\ dcache T (dlookup s1 k) = None /\ mc_gen T (dlookup s1 k) = None
    /\ objs T s1 = objs T s /\ corr T s1 = corr T s /\ own T (dlookup s1 k) = own T (dlookup s k).
  Proof.
    intros Hk. simpl. rewrite dlookup_set_dst by exact Hk. rewrite Nat.eqb_refl. simpl. tauto.
  Qed.

  Corollary recalc_then_read s k : Inv s -> (k < length (objs T s))%nat ->
    effective T s k = Derivative ->
    let s1 := fst (step s (Recalc T k)) in
    snd (step s1 (ReadValue T k)) = OVal T (fst (fresh (objs T s) (corr T s) k)) /\
    snd (step s1 (ReadError T k)) = OVar T (snd (fresh (objs T s) (corr T s) k)).
  Proof.
    intros Hi Hk He s1.
    assert (Hk' : (k < length (dst T s))%nat) by (rewrite (inv_len _ Hi); exact Hk).
    destruct (recalc_clears s k Hk') as [Hst [_ [_ [Ho [Hc Hown]]]]]. fold s1 in Hst, Ho, Hc, Hown.
    assert (Hi1 : Inv s1) by (apply inv_step, Hi).
    assert (HkA : (k < length (objs T s1))%nat) by (unfold s1; simpl; exact Hk).
    assert (HeA : effective T s1 k = Derivative) by (unfold effective in *; rewrite Hown; exact He).
    rewrite <- Ho, <- Hc. apply (read_fresh s1 k Hi1 HkA HeA Hst).
  Qed.

  (** repeated reads return identical results and change nothing the second time *)
  Lemma ensure_der_spec s k : (k < length (dst T s))%nat ->
    let s1 := fst (ensure_der T zero one two add mul su sb du db s k) in
    let r := snd (ensure_der T zero one two add mul su sb du db s k) in
    dcache T (dlookup s1 k) = Some r /\ own T (dlookup s1 k) = own T (dlookup s k) /\ gmethod T s1 = gmethod T s.
  Proof.
    intros Hk. unfold ensure_der. destruct (dcache T (dlookup s k)) as [r|] eqn:Ec; simpl; [tauto|].
    rewrite dlookup_set_dst by exact Hk. rewrite Nat.eqb_refl. simpl. tauto.
  Qed.

  Lemma ensure_samples_spec s k : (k < length (dst T s))%nat ->
    let s1 := fst (ensure_samples T s k) in
    let g := snd (ensure_samples T s k) in
    mc_gen T (dlookup s1 k) = Some g /\ own T (dlookup s1 k) = own T (dlookup s k) /\ gmethod T s1 = gmethod T s.
  Proof.
    intros Hk. unfold ensure_samples. destruct (mc_gen T (dlookup s k)) as [g|] eqn:Ec; simpl; [tauto|].
    unfold CoreState.dlookup. simpl. rewrite lookup_update by exact Hk. rewrite Nat.eqb_refl. simpl. tauto.
  Qed.

  Theorem read_stable s k : (k < length (dst T s))%nat ->
    let s1 := fst (step s (ReadValue T k)) in
    snd (step s1 (ReadValue T k)) = snd (step s (ReadValue T k)) /\ fst (step s1 (ReadValue T k)) = s1 /\
    snd (step s1 (ReadError T k)) = snd (step s (ReadError T k)) /\ fst (step s1 (ReadError T k)) = s1.
  Proof.
    intros Hk. simpl. destruct (effective T s k) eqn:Ee.
    - destruct (ensure_der_spec s k Hk) as [Hc [Ho Hg]].
      destruct (ensure_der T zero one two add mul su sb du db s k) as [s1 r] eqn:E1. simpl in *.
      assert (Ee1 : effective T s1 k = Derivative) by (unfold effective in *; rewrite Ho, Hg; exact Ee).
      rewrite Ee1. unfold ensure_der. rewrite Hc. simpl. tauto.
    - destruct (ensure_samples_spec s k Hk) as [Hc [Ho Hg]].
      destruct (ensure_samples T s k) as [s1 g] eqn:E1. simpl in *.
      assert (Ee1 : effective T s1 k = MonteCarlo) by (unfold effective in *; rewrite Ho, Hg; exact Ee).
      rewrite Ee1. unfold ensure_samples. rewrite Hc. simpl. tauto.
  Qed.

  (** the stored Monte Carlo samples of a quantity are kept by every operation except its own
      recalculation and the assignment of its sample size *)
  Theorem samples_kept s x k g : (k < length (dst T s))%nat ->
    mc_gen T (dlookup s k) = Some g ->
    x <> Recalc T k -> x <> SetSampleSize T k ->
    mc_gen T (dlookup (fst (step s x)) k) = Some g.
  Proof.
    intros Hk Hg Hn1 Hn2.
    assert (Hes : forall k', mc_gen T (dlookup (fst (ensure_samples T s k')) k) = Some g).
    { intros k'. unfold ensure_samples. destruct (mc_gen T (dlookup s k')) eqn:E; [exact Hg|]. simpl.
      unfold CoreState.dlookup. simpl. rewrite lookup_update by exact Hk.
      destruct (Nat.eqb_spec k k') as [->|N]; [|exact Hg]. unfold CoreState.dlookup in E, Hg. congruence. }
    assert (Hed : forall k', mc_gen T (dlookup (fst (ensure_der T zero one two add mul su sb du db s k')) k) = Some g).
    { intros k'. unfold ensure_der. destruct (dcache T (dlookup s k')); [exact Hg|]. simpl.
      rewrite dlookup_set_dst by exact Hk. destruct (Nat.eqb k k'); simpl; exact Hg. }
    assert (Hms : forall l tbl gm n, mc_gen T (CoreState.dlookup T (mk_state T l tbl (mark_stale T s) gm n) k) = Some g).
    { intros. unfold CoreState.dlookup, mark_stale. simpl. unfold lookup. rewrite map_length.
      rewrite (nth_indep _ _ (mk_dstate T (own T (fresh_dstate T)) (dcache T (fresh_dstate T)) (mc_gen T (fresh_dstate T)) true))
        by (rewrite map_length; lia).
      rewrite (map_nth (fun d => mk_dstate T (own T d) (dcache T d) (mc_gen T d) true)). simpl. exact Hg. }
    destruct x; simpl; try apply Hms; try exact Hg.
    - destruct (negative e); [exact Hg|apply Hms].
    - destruct (obj_ok T (length (objs T s)) o); [|exact Hg].
      unfold CoreState.dlookup. simpl. rewrite lookup_cons_lt by exact Hk. exact Hg.
    - destruct (effective T s k0).
      + generalize (Hed k0). destruct (ensure_der _ _ _ _ _ _ _ _ _ _ s k0). simpl. auto.
      + generalize (Hes k0). destruct (ensure_samples T s k0). simpl. auto.
    - destruct (effective T s k0).
      + generalize (Hed k0). destruct (ensure_der _ _ _ _ _ _ _ _ _ _ s k0). simpl. auto.
      + generalize (Hes k0). destruct (ensure_samples T s k0). simpl. auto.
    - rewrite dlookup_set_dst by exact Hk. destruct (Nat.eqb_spec k k0) as [->|N]; [congruence|exact Hg].
    - rewrite dlookup_set_dst by exact Hk. destruct (Nat.eqb k k0); simpl; exact Hg.
    - rewrite dlookup_set_dst by exact Hk. destruct (Nat.eqb k k0); simpl; exact Hg.
    - generalize (Hes k0). destruct (ensure_samples T s k0). simpl. auto.
    - rewrite dlookup_set_dst by exact Hk.
      destruct (Nat.eqb_spec k k0) as [->|N]; [congruence|exact Hg].
  Qed.

  (** error-method selection *)
  Theorem selection s k me : (k < length (dst T s))%nat ->
    effective T (fst (step s (SetOwn T k me))) k = me /\
    effective T (fst (step s (ResetOwn T k))) k = gmethod T s /\
    (own T (dlookup s k) = None -> effective T (fst (step s (SetGlobal T me))) k = me) /\
    (forall me', own T (dlookup s k) = Some me' -> effective T (fst (step s (SetGlobal T me))) k = me').
  Proof.
    intros Hk. unfold effective. simpl. rewrite !dlookup_set_dst by exact Hk. rewrite Nat.eqb_refl. simpl.
    repeat split.
    - intros E. unfold CoreState.dlookup in *. simpl. rewrite E. reflexivity.
    - intros me' E. unfold CoreState.dlookup in *. simpl. rewrite E. reflexivity.
  Qed.

  (** determinism: two reachable states that agree on measurements, formulas and correlations give the
      same derivative-method results for a quantity that is not stale, whatever else differs *)
  Theorem deterministic s1 s2 k : Inv s1 -> Inv s2 ->
    objs T s1 = objs T s2 -> corr T s1 = corr T s2 -> (k < length (objs T s1))%nat ->
    effective T s1 k = Derivative -> effective T s2 k = Derivative ->
    stale T (dlookup s1 k) = false -> stale T (dlookup s2 k) = false ->
    snd (step s1 (ReadValue T k)) = snd (step s2 (ReadValue T k)) /\
    snd (step s1 (ReadError T k)) = snd (step s2 (ReadError T k)) /\
    snd (step s1 (ReadDeriv T k 0)) = snd (step s2 (ReadDeriv T k 0)).
  Proof.
    intros H1 H2 Eo Ec Hk E1 E2 S1 S2.
    destruct (read_fresh s1 k H1 Hk E1 S1) as [A1 B1].
    assert (Hk2 : (k < length (objs T s2))%nat) by (rewrite <- Eo; exact Hk).
    destruct (read_fresh s2 k H2 Hk2 E2 S2) as [A2 B2].
    rewrite A1, A2, B1, B2, Eo, Ec. simpl. rewrite Eo. tauto.
  Qed.
End Proofs.
