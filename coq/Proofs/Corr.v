(** Lemmas about the correlation-store model (Model/Corr.v). *)
From Coq Require Import List ZArith QArith Qminmax Qabs Bool PeanoNat Lia Lqa.
From QV Require Import Model.Stats Model.Corr.
Import ListNotations.
Open Scope Q_scope.

(** ---- keys ----------------------------------------------------------------------------- *)
Lemma mkkey_comm a b : mkkey a b = mkkey b a.
Proof. unfold mkkey. now rewrite Nat.min_comm, Nat.max_comm. Qed.

Lemma key_eqb_eq k k' : key_eqb k k' = true <-> k = k'.
Proof.
  destruct k as [a b], k' as [c d]; unfold key_eqb; simpl.
  rewrite andb_true_iff, !Nat.eqb_eq. split; [intros [-> ->]; reflexivity|intros H; inversion H; auto].
Qed.

Lemma key_eqb_refl k : key_eqb k k = true.
Proof. now apply key_eqb_eq. Qed.

Lemma key_eqb_neq k k' : k <> k' -> key_eqb k k' = false.
Proof. intros H. destruct (key_eqb k k') eqn:E; [apply key_eqb_eq in E; contradiction|reflexivity]. Qed.

Lemma key_eqb_sym k k' : key_eqb k k' = key_eqb k' k.
Proof.
  destruct (key_eqb k k') eqn:E.
  - apply key_eqb_eq in E; subst. now rewrite key_eqb_refl.
  - destruct (key_eqb k' k) eqn:E'; [apply key_eqb_eq in E'; subst; now rewrite key_eqb_refl in E|reflexivity].
Qed.

(** the unordered pair is what the key identifies *)
Lemma mkkey_eq_iff a b c d : mkkey a b = mkkey c d <-> (a = c /\ b = d) \/ (a = d /\ b = c).
Proof. unfold mkkey. split; [intros H; inversion H; lia|intros [[-> ->]|[-> ->]]; f_equal; lia]. Qed.

(** ---- rational booleans ------------------------------------------------------------------ *)
Lemma Qeq_bool_false_neq x y : Qeq_bool x y = false <-> ~ x == y.
Proof.
  split.
  - intros H E. apply Qeq_bool_iff in E. congruence.
  - intros H. destruct (Qeq_bool x y) eqn:E; [apply Qeq_bool_iff in E; contradiction|reflexivity].
Qed.

Lemma in_range_iff r : negb (Qle_bool r 1) || negb (Qle_bool (-1) r) = false <-> -1 <= r <= 1.
Proof.
  rewrite orb_false_iff, !negb_false_iff, !Qle_bool_iff. tauto.
Qed.

Lemma std_guard_false x y :
  Qeq_bool (q_std x) 0 || Qeq_bool (q_std y) 0 = false <-> ~ q_std x == 0 /\ ~ q_std y == 0.
Proof. rewrite orb_false_iff, !Qeq_bool_false_neq. tauto. Qed.

(** ---- the clamp ---------------------------------------------------------------------------- *)
Lemma qclamp_bounds L c : 0 <= L -> - L <= qclamp L c <= L.
Proof.
  intros HL. unfold qclamp. split.
  - apply Q.le_max_l.
  - apply Q.max_lub; [lra|apply Q.le_min_l].
Qed.

Lemma qclamp_id L c : - L <= c <= L -> qclamp L c == c.
Proof.
  intros [H1 H2]. unfold qclamp. rewrite Q.min_r by exact H2. now rewrite Q.max_r by exact H1.
Qed.

Lemma qclamp_neg L c : L < 0 -> qclamp L c == - L.
Proof.
  intros HL. unfold qclamp. apply Q.max_l.
  apply Qle_trans with L; [apply Q.le_min_l|lra].
Qed.

Lemma qclamp_ratio_bounded L c : ~ L == 0 -> -1 <= qclamp L c / L <= 1.
Proof.
  intros HL.
  destruct (Qlt_le_dec L 0) as [Hneg|Hpos].
  - rewrite (qclamp_neg L c Hneg).
    assert (E : - L / L == -1) by (field; exact HL). rewrite E. lra.
  - assert (HL' : 0 < L) by (apply Qle_lteq in Hpos; destruct Hpos as [H|H]; [exact H|exfalso; apply HL; now symmetry]).
    destruct (qclamp_bounds L c Hpos) as [H1 H2].
    split.
    + apply Qle_shift_div_l; [exact HL'|lra].
    + apply Qle_shift_div_r; [exact HL'|lra].
Qed.

(** ---- table bookkeeping ---------------------------------------------------------------------- *)
Lemma put_table s a b r : table (put s a b r) = table s.
Proof. reflexivity. Qed.

Lemma nthq_put s a b r id : nthq (put s a b r) id = nthq s id.
Proof. reflexivity. Qed.

(** ---- shape of a set request: rejected with the state untouched, or one record written ---------- *)
Definition accepted_write (s : state) (oa ob : operand) (s' : state) (corr cov : Q) : Prop :=
  exists a b x y,
    oa = Ref a /\ ob = Ref b /\ nthq s a = Some x /\ nthq s b = Some y /\
    is_measured x = true /\ is_measured y = true /\
    ~ q_std x == 0 /\ ~ q_std y == 0 /\ -1 <= corr <= 1 /\
    s' = put s a b (corr, cov).

Lemma deref_ref s o id x : deref s o = Some (id, x) -> o = Ref id /\ nthq s id = Some x.
Proof.
  destruct o as [i|]; simpl; [|discriminate].
  destruct (nthq s i) eqn:E; [|discriminate]. intros H; inversion H; subst. auto.
Qed.

Lemma measured_set_corr_shape s a x b y r s' o :
  measured_set_corr s a x b y r = (s', o) ->
  (s' = s /\ exists e, o = Raised e) \/
  (o = Done /\ ~ q_std x == 0 /\ ~ q_std y == 0 /\
   exists corr, r = ANum corr /\ -1 <= corr <= 1 /\ s' = put s a b (corr, corr * (q_std x * q_std y))).
Proof.
  unfold measured_set_corr.
  destruct (Qeq_bool (q_std x) 0 || Qeq_bool (q_std y) 0) eqn:G.
  - intros H; inversion H; left; eauto.
  - apply std_guard_false in G. destruct r as [|corr|].
    + intros H; inversion H; left; eauto.
    + destruct (negb (Qle_bool corr 1) || negb (Qle_bool (-1) corr)) eqn:R.
      * intros H; inversion H; left; eauto.
      * apply in_range_iff in R. intros H; inversion H; right. repeat split; try tauto. eauto.
    + intros H; inversion H; left; eauto.
Qed.

Lemma measured_set_cov_shape s a x b y c s' o :
  measured_set_cov s a x b y c = (s', o) ->
  (s' = s /\ exists e, o = Raised e) \/
  (o = Done /\ ~ q_std x == 0 /\ ~ q_std y == 0 /\
   exists cov, c = ANum cov /\ -1 <= cov / (q_std x * q_std y) <= 1 /\
               s' = put s a b (cov / (q_std x * q_std y), cov)).
Proof.
  unfold measured_set_cov.
  destruct (Qeq_bool (q_std x) 0 || Qeq_bool (q_std y) 0) eqn:G.
  - intros H; inversion H; left; eauto.
  - apply std_guard_false in G. destruct c as [|cov|].
    + intros H; inversion H; left; eauto.
    + cbv zeta.
      destruct (negb (Qle_bool (cov / (q_std x * q_std y)) 1) || negb (Qle_bool (-1) (cov / (q_std x * q_std y)))) eqn:R.
      * intros H; inversion H; left; eauto.
      * apply in_range_iff in R. intros H; inversion H; right. repeat split; try tauto. eauto.
    + intros H; inversion H; left; eauto.
Qed.

(** what number a request resolves to: the explicit one, or the inferred one *)
Definition resolved_corr (x y : quantity) (r : arg) (corr : Q) : Prop :=
  r = ANum corr \/
  (r = ANone /\ is_repeated x = true /\ is_repeated y = true /\
   exists c, infer x y = InfCov c /\ corr = c / (q_std x * q_std y)).
Definition resolved_cov (x y : quantity) (r : arg) (cov : Q) : Prop :=
  r = ANum cov \/
  (r = ANone /\ is_repeated x = true /\ is_repeated y = true /\ infer x y = InfCov cov).

Lemma meth_set_corr_shape s a x ob r s' o :
  nthq s a = Some x ->
  meth_set_corr s a x ob r = (s', o) ->
  (s' = s /\ exists e, o = Raised e) \/
  (o = Done /\ exists b y corr,
     ob = Ref b /\ nthq s b = Some y /\ is_measured x = true /\ is_measured y = true /\
     ~ q_std x == 0 /\ ~ q_std y == 0 /\ -1 <= corr <= 1 /\ resolved_corr x y r corr /\
     s' = put s a b (corr, corr * (q_std x * q_std y))).
Proof.
  intros Hx. unfold meth_set_corr.
  assert (Fin : forall ib y r', deref s ob = Some (ib, y) -> is_measured x = true -> negb (is_measured y) = false ->
            (r' = r \/ (r = ANone /\ is_repeated x = true /\ is_repeated y = true /\
                        exists c, infer x y = InfCov c /\ r' = ANum (c / (q_std x * q_std y)))) ->
            measured_set_corr s a x ib y r' = (s', o) ->
            (s' = s /\ exists e, o = Raised e) \/
            (o = Done /\ exists b y corr,
               ob = Ref b /\ nthq s b = Some y /\ is_measured x = true /\ is_measured y = true /\
               ~ q_std x == 0 /\ ~ q_std y == 0 /\ -1 <= corr <= 1 /\ resolved_corr x y r corr /\
               s' = put s a b (corr, corr * (q_std x * q_std y)))).
  { intros ib y r' Hd Hmx Hmy Hr H.
    apply deref_ref in Hd. destruct Hd as [-> Hy]. apply negb_false_iff in Hmy.
    apply measured_set_corr_shape in H. destruct H as [H|(-> & Hsx & Hsy & corr & -> & Hc & ->)]; [left; exact H|].
    right. split; [reflexivity|]. exists ib, y, corr. repeat split; try assumption; try tauto.
    destruct Hr as [<-|(-> & Hrx & Hry & c & Hi & E)]; [left; reflexivity|].
    right. inversion E; subst. repeat split; try assumption. exists c. split; [assumption|reflexivity]. }
  destruct (q_kind x) eqn:K.
  - (* single *)
    destruct (deref s ob) as [[ib y]|] eqn:D; [|intros H; inversion H; left; eauto].
    destruct (negb (is_measured y)) eqn:My; [intros H; inversion H; left; eauto|].
    intros H. eapply Fin; eauto. unfold is_measured. now rewrite K.
  - (* repeated *)
    destruct (deref s ob) as [[ib y]|] eqn:D; [|intros H; inversion H; left; eauto].
    destruct (negb (is_measured y)) eqn:My; [intros H; inversion H; left; eauto|].
    assert (Mx : is_measured x = true) by (unfold is_measured; now rewrite K).
    assert (Rx : is_repeated x = true) by (unfold is_repeated; now rewrite K).
    destruct r as [|corr|];
      [|intros H; eapply Fin; eauto; destruct (is_repeated y); exact H
       |intros H; eapply Fin; eauto; destruct (is_repeated y); exact H].
    destruct (is_repeated y) eqn:Ry; [|intros H; eapply Fin; eauto].
    destruct (infer x y) as [| |cov] eqn:I.
    + intros H; eapply Fin; eauto.
    + intros H; inversion H; left; eauto.
    + destruct (Qeq_bool (q_std x * q_std y) 0); [intros H; inversion H; left; eauto|].
      intros H. eapply (Fin ib y (ANum (cov / (q_std x * q_std y)))); [reflexivity|exact Mx|exact My| |exact H].
      right. repeat split; auto. exists cov. auto.
  - intros H; inversion H; left; eauto.
  - intros H; inversion H; left; eauto.
Qed.

Lemma meth_set_cov_shape s a x ob r s' o :
  nthq s a = Some x ->
  meth_set_cov s a x ob r = (s', o) ->
  (s' = s /\ exists e, o = Raised e) \/
  (o = Done /\ exists b y cov,
     ob = Ref b /\ nthq s b = Some y /\ is_measured x = true /\ is_measured y = true /\
     ~ q_std x == 0 /\ ~ q_std y == 0 /\ -1 <= cov / (q_std x * q_std y) <= 1 /\ resolved_cov x y r cov /\
     s' = put s a b (cov / (q_std x * q_std y), cov)).
Proof.
  intros Hx. unfold meth_set_cov.
  assert (Fin : forall ib y r', deref s ob = Some (ib, y) -> is_measured x = true -> negb (is_measured y) = false ->
            (r' = r \/ (r = ANone /\ is_repeated x = true /\ is_repeated y = true /\
                        exists c, infer x y = InfCov c /\ r' = ANum c)) ->
            measured_set_cov s a x ib y r' = (s', o) ->
            (s' = s /\ exists e, o = Raised e) \/
            (o = Done /\ exists b y cov,
               ob = Ref b /\ nthq s b = Some y /\ is_measured x = true /\ is_measured y = true /\
               ~ q_std x == 0 /\ ~ q_std y == 0 /\ -1 <= cov / (q_std x * q_std y) <= 1 /\ resolved_cov x y r cov /\
               s' = put s a b (cov / (q_std x * q_std y), cov))).
  { intros ib y r' Hd Hmx Hmy Hr H.
    apply deref_ref in Hd. destruct Hd as [-> Hy]. apply negb_false_iff in Hmy.
    apply measured_set_cov_shape in H. destruct H as [H|(-> & Hsx & Hsy & cov & -> & Hc & ->)]; [left; exact H|].
    right. split; [reflexivity|]. exists ib, y, cov. repeat split; try assumption; try tauto.
    destruct Hr as [<-|(-> & Hrx & Hry & c & Hi & E)]; [left; reflexivity|].
    right. inversion E; subst. repeat split; assumption. }
  destruct (q_kind x) eqn:K.
  - destruct (deref s ob) as [[ib y]|] eqn:D; [|intros H; inversion H; left; eauto].
    destruct (negb (is_measured y)) eqn:My; [intros H; inversion H; left; eauto|].
    intros H. eapply Fin; eauto. unfold is_measured. now rewrite K.
  - destruct (deref s ob) as [[ib y]|] eqn:D; [|intros H; inversion H; left; eauto].
    destruct (negb (is_measured y)) eqn:My; [intros H; inversion H; left; eauto|].
    assert (Mx : is_measured x = true) by (unfold is_measured; now rewrite K).
    assert (Rx : is_repeated x = true) by (unfold is_repeated; now rewrite K).
    destruct r as [|cov|];
      [|intros H; eapply Fin; eauto; destruct (is_repeated y); exact H
       |intros H; eapply Fin; eauto; destruct (is_repeated y); exact H].
    destruct (is_repeated y) eqn:Ry; [|intros H; eapply Fin; eauto].
    destruct (infer x y) as [| |cov] eqn:I.
    + intros H; eapply Fin; eauto.
    + intros H; inversion H; left; eauto.
    + intros H. eapply (Fin ib y (ANum cov)); [reflexivity|exact Mx|exact My| |exact H].
      right. repeat split; auto. exists cov. auto.
  - intros H; inversion H; left; eauto.
  - intros H; inversion H; left; eauto.
Qed.

(** ---- one statement for both setters ------------------------------------------------------------ *)
Definition set_parts (o : op) : option (bool * operand * operand * arg) :=
  match o with
  | SetCorr _ a b r => Some (false, a, b, r)
  | SetCov _ a b c => Some (true, a, b, c)
  | _ => None
  end.

Definition write_of (s : state) (is_cov : bool) (oa ob : operand) (r : arg) (s' : state) : Prop :=
  exists a b x y corr cov,
    oa = Ref a /\ ob = Ref b /\ nthq s a = Some x /\ nthq s b = Some y /\
    is_measured x = true /\ is_measured y = true /\ ~ q_std x == 0 /\ ~ q_std y == 0 /\
    -1 <= corr <= 1 /\
    (if is_cov then resolved_cov x y r cov /\ corr = cov / (q_std x * q_std y)
     else resolved_corr x y r corr /\ cov = corr * (q_std x * q_std y)) /\
    s' = put s a b (corr, cov).

Lemma step_set_shape s o is_cov oa ob r :
  set_parts o = Some (is_cov, oa, ob, r) ->
  (fst (step s o) = s /\ exists e, snd (step s o) = Raised e) \/
  (snd (step s o) = Done /\ write_of s is_cov oa ob r (fst (step s o))).
Proof.
  destruct o as [f a b r0|f a b c0| | | | |]; simpl; try discriminate; intros H; inversion H; subst; clear H.
  - destruct f; destruct (deref s oa) as [[ia x]|] eqn:Da; try (left; simpl; eauto; fail).
    + destruct (deref s ob) as [[ib y]|] eqn:Db; [|left; simpl; eauto].
      apply deref_ref in Da. destruct Da as [-> Hx].
      destruct (meth_set_corr s ia x ob r) as [s' o'] eqn:E.
      apply (meth_set_corr_shape s ia x ob r s' o' Hx) in E. simpl.
      destruct E as [[-> He]|(-> & b & y' & corr & -> & Hy & Mx & My & Sx & Sy & Hc & Hr & ->)]; [left; auto|].
      right. split; [reflexivity|]. exists ia, b, x, y', corr, (corr * (q_std x * q_std y')). repeat split; auto; tauto.
    + apply deref_ref in Da. destruct Da as [-> Hx].
      destruct (meth_set_corr s ia x ob r) as [s' o'] eqn:E.
      apply (meth_set_corr_shape s ia x ob r s' o' Hx) in E. simpl.
      destruct E as [[-> He]|(-> & b & y' & corr & -> & Hy & Mx & My & Sx & Sy & Hc & Hr & ->)]; [left; auto|].
      right. split; [reflexivity|]. exists ia, b, x, y', corr, (corr * (q_std x * q_std y')). repeat split; auto; tauto.
  - destruct f; destruct (deref s oa) as [[ia x]|] eqn:Da; try (left; simpl; eauto; fail).
    + destruct (deref s ob) as [[ib y]|] eqn:Db; [|left; simpl; eauto].
      apply deref_ref in Da. destruct Da as [-> Hx].
      destruct (meth_set_cov s ia x ob r) as [s' o'] eqn:E.
      apply (meth_set_cov_shape s ia x ob r s' o' Hx) in E. simpl.
      destruct E as [[-> He]|(-> & b & y' & cov & -> & Hy & Mx & My & Sx & Sy & Hc & Hr & ->)]; [left; auto|].
      right. split; [reflexivity|]. exists ia, b, x, y', (cov / (q_std x * q_std y')), cov. repeat split; auto; tauto.
    + apply deref_ref in Da. destruct Da as [-> Hx].
      destruct (meth_set_cov s ia x ob r) as [s' o'] eqn:E.
      apply (meth_set_cov_shape s ia x ob r s' o' Hx) in E. simpl.
      destruct E as [[-> He]|(-> & b & y' & cov & -> & Hy & Mx & My & Sx & Sy & Hc & Hr & ->)]; [left; auto|].
      right. split; [reflexivity|]. exists ia, b, x, y', (cov / (q_std x * q_std y')), cov. repeat split; auto; tauto.
Qed.

(** ---- reads ------------------------------------------------------------------------------------------ *)
Lemma get_sym cv s a b : get cv s a b = get cv s b a.
Proof.
  unfold get. destruct (nthq s a) as [x|] eqn:Ha, (nthq s b) as [y|] eqn:Hb; try reflexivity.
  rewrite (andb_comm (is_measured y)).
  destruct (is_measured x && is_measured y); [|reflexivity].
  unfold measured_get. rewrite (orb_comm (Qeq_bool (q_std y) 0)).
  destruct (Qeq_bool (q_std x) 0 || Qeq_bool (q_std y) 0); [reflexivity|].
  rewrite (Nat.eqb_sym b a). destruct (Nat.eqb_spec a b) as [->|Hne].
  - rewrite Ha in Hb. inversion Hb. reflexivity.
  - now rewrite (mkkey_comm b a).
Qed.

Lemma get_put_same cv s a b x y corr cov :
  nthq s a = Some x -> nthq s b = Some y -> is_measured x = true -> is_measured y = true ->
  ~ q_std x == 0 -> ~ q_std y == 0 -> a <> b ->
  get cv (put s a b (corr, cov)) a b = if cv then cov else corr.
Proof.
  intros Ha Hb Mx My Sx Sy Hne. unfold get. rewrite !nthq_put, Ha, Hb, Mx, My. simpl.
  unfold measured_get. rewrite (proj2 (std_guard_false x y) (conj Sx Sy)).
  destruct (Nat.eqb_spec a b); [contradiction|]. simpl. now rewrite key_eqb_refl.
Qed.

Lemma get_put_other cv s a b r c d :
  mkkey a b <> mkkey c d -> get cv (put s a b r) c d = get cv s c d.
Proof.
  intros Hk. unfold get. rewrite !nthq_put.
  destruct (nthq s c) as [x|], (nthq s d) as [y|]; try reflexivity.
  destruct (is_measured x && is_measured y); [|reflexivity].
  unfold measured_get. simpl. rewrite key_eqb_neq by congruence. reflexivity.
Qed.

Lemma get_self s a x :
  nthq s a = Some x -> is_measured x = true -> ~ q_std x == 0 ->
  get_corr s a a = 1 /\ get_cov s a a = q_std x * q_std x.
Proof.
  intros Ha Mx Sx. unfold get_corr, get_cov, get. rewrite Ha, Mx. simpl. unfold measured_get.
  rewrite (proj2 (std_guard_false x x) (conj Sx Sx)). now rewrite Nat.eqb_refl.
Qed.

Lemma get_no_record cv s a b : a <> b -> lookup (mkkey a b) (recs s) = None -> get cv s a b = 0.
Proof.
  intros Hne Hl. unfold get.
  destruct (nthq s a) as [x|], (nthq s b) as [y|]; try reflexivity.
  destruct (is_measured x && is_measured y); [|reflexivity].
  unfold measured_get. destruct (Qeq_bool (q_std x) 0 || Qeq_bool (q_std y) 0); [reflexivity|].
  destruct (Nat.eqb_spec a b); [contradiction|]. now rewrite Hl.
Qed.

(** the two call forms of a getter return the value [get] for registered quantities *)
Lemma step_get_fn s a b x y :
  nthq s a = Some x -> nthq s b = Some y ->
  step s (GetCorr Fn (Ref a) (Ref b)) = (s, Ret (get_corr s a b)) /\
  step s (GetCov Fn (Ref a) (Ref b)) = (s, Ret (get_cov s a b)).
Proof.
  intros Ha Hb. unfold get_corr, get_cov, get. simpl. rewrite Ha, Hb.
  destruct (is_measured x && is_measured y); auto.
Qed.

Lemma step_get_meth s a b x y :
  nthq s a = Some x -> nthq s b = Some y ->
  step s (GetCorr Meth (Ref a) (Ref b)) = (s, Ret (get_corr s a b)) /\
  step s (GetCov Meth (Ref a) (Ref b)) = (s, Ret (get_cov s a b)).
Proof.
  intros Ha Hb. unfold get_corr, get_cov, get. simpl. rewrite Ha. unfold meth_get. simpl. rewrite Hb.
  unfold is_measured. destruct (q_kind x), (q_kind y); simpl; auto.
Qed.

(** ---- what a call can do to the state ------------------------------------------------------------------- *)
Lemma step_reject_untouched s o e : snd (step s o) = Raised e -> fst (step s o) = s.
Proof.
  destruct (set_parts o) as [[[[cv oa] ob] r]|] eqn:P.
  - destruct (step_set_shape s o cv oa ob r P) as [[H _]|[H _]]; [auto|congruence].
  - destruct o; simpl in P; try discriminate; simpl.
    + destruct f, (deref s a) as [[? ?]|], (deref s b) as [[? ?]|]; reflexivity.
    + destruct f, (deref s a) as [[? ?]|], (deref s b) as [[? ?]|]; reflexivity.
    + destruct (nthq s a) as [x|]; [|reflexivity]. destruct (is_measured x); [|reflexivity].
      destruct (negb (Qle_bool 0 e0)); [reflexivity|intros H; discriminate H].
    + destruct (nthq s a) as [x|]; [|reflexivity]. destruct (is_measured x); [intros H; discriminate H|reflexivity].
Qed.

Lemma step_recs_other s o : set_parts o = None -> o <> Reset -> recs (fst (step s o)) = recs s.
Proof.
  intros P NR. destruct o; simpl in P; try discriminate; simpl.
  - destruct f, (deref s a) as [[? ?]|], (deref s b) as [[? ?]|]; reflexivity.
  - destruct f, (deref s a) as [[? ?]|], (deref s b) as [[? ?]|]; reflexivity.
  - contradiction.
  - destruct (nthq s a) as [x|]; [|reflexivity]. destruct (is_measured x); [|reflexivity].
    destruct (negb (Qle_bool 0 e)); reflexivity.
  - destruct (nthq s a) as [x|]; [|reflexivity]. destruct (is_measured x); reflexivity.
Qed.

(** ---- bounded: every recorded correlation lies in [-1, 1], in every reachable state ---------------------- *)
Definition recs_bounded (st : store) : Prop := Forall (fun kr => -1 <= fst (snd kr) <= 1) st.

Lemma lookup_in k st r : lookup k st = Some r -> exists k', In (k', r) st.
Proof.
  induction st as [|[k' r'] st IH]; simpl; [discriminate|].
  destruct (key_eqb k k'); [intros H; inversion H; subst; eauto|].
  intros H. destruct (IH H) as [k'' Hin]. eauto.
Qed.

Lemma step_bounded s o : recs_bounded (recs s) -> recs_bounded (recs (fst (step s o))).
Proof.
  intros Hb. destruct (set_parts o) as [[[[cv oa] ob] r]|] eqn:P.
  - destruct (step_set_shape s o cv oa ob r P) as [[-> _]|[_ W]]; [exact Hb|].
    destruct W as (a & b & x & y & corr & cov & _ & _ & _ & _ & _ & _ & _ & _ & Hc & _ & ->).
    simpl. constructor; [exact Hc|exact Hb].
  - destruct o; try (rewrite step_recs_other by (auto; discriminate); exact Hb).
    simpl. constructor.
Qed.

Lemma run_bounded ops s : recs_bounded (recs s) -> recs_bounded (recs (run ops s)).
Proof.
  revert s. induction ops as [|o ops IH]; intros s Hb; simpl; [exact Hb|].
  apply IH. now apply step_bounded.
Qed.

Lemma get_corr_bounded s a b : recs_bounded (recs s) -> -1 <= get_corr s a b <= 1.
Proof.
  intros Hb. unfold get_corr, get.
  destruct (nthq s a) as [x|], (nthq s b) as [y|]; try lra.
  destruct (is_measured x && is_measured y); [|lra].
  unfold measured_get. destruct (Qeq_bool (q_std x) 0 || Qeq_bool (q_std y) 0); [lra|].
  destruct (Nat.eqb a b); [lra|].
  destruct (lookup (mkkey a b) (recs s)) as [[corr cov]|] eqn:L; [|lra].
  destruct (lookup_in _ _ _ L) as [k' Hin].
  unfold recs_bounded in Hb. rewrite Forall_forall in Hb. exact (Hb _ Hin).
Qed.

(** ---- isolation ------------------------------------------------------------------------------------------ *)
Lemma step_set_isolated s o cv c d :
  set_parts o <> None -> targets o c d = false ->
  get cv (fst (step s o)) c d = get cv s c d.
Proof.
  intros P T. destruct (set_parts o) as [[[[cv' oa] ob] r]|] eqn:P'; [|contradiction].
  destruct (step_set_shape s o cv' oa ob r P') as [[-> _]|[_ W]]; [reflexivity|].
  destruct W as (a & b & x & y & corr & cov & -> & -> & _ & _ & _ & _ & _ & _ & _ & _ & ->).
  apply get_put_other. intros E.
  destruct o; simpl in P'; inversion P'; subst; simpl in T; rewrite E, key_eqb_refl in T; discriminate.
Qed.

(** ---- never recorded / reset ------------------------------------------------------------------------------ *)
Lemma step_keeps_none s o a b :
  targets o a b = false -> lookup (mkkey a b) (recs s) = None ->
  lookup (mkkey a b) (recs (fst (step s o))) = None.
Proof.
  intros T L. destruct (set_parts o) as [[[[cv oa] ob] r]|] eqn:P.
  - destruct (step_set_shape s o cv oa ob r P) as [[-> _]|[_ W]]; [exact L|].
    destruct W as (c & d & x & y & corr & cov & -> & -> & _ & _ & _ & _ & _ & _ & _ & _ & ->).
    simpl. assert (K : key_eqb (mkkey a b) (mkkey c d) = false).
    { rewrite key_eqb_sym. destruct o; simpl in P; inversion P; subst; exact T. }
    rewrite K. exact L.
  - destruct o; try (rewrite step_recs_other by (auto; discriminate); exact L).
    reflexivity.
Qed.

Lemma run_keeps_none ops s a b :
  (forall o, In o ops -> targets o a b = false) -> lookup (mkkey a b) (recs s) = None ->
  lookup (mkkey a b) (recs (run ops s)) = None.
Proof.
  revert s. induction ops as [|o ops IH]; intros s T L; simpl; [exact L|].
  apply IH; [intros o' Hin; apply T; now right|].
  apply step_keeps_none; [apply T; now left|exact L].
Qed.

(** ---- acceptance ------------------------------------------------------------------------------------------ *)
Lemma measured_set_corr_accepts s a x b y r :
  ~ q_std x == 0 -> ~ q_std y == 0 -> -1 <= r <= 1 ->
  measured_set_corr s a x b y (ANum r) = (put s a b (r, r * (q_std x * q_std y)), Done).
Proof.
  intros Sx Sy Hr. unfold measured_set_corr.
  rewrite (proj2 (std_guard_false x y) (conj Sx Sy)). now rewrite (proj2 (in_range_iff r) Hr).
Qed.

Lemma measured_set_cov_accepts s a x b y c :
  ~ q_std x == 0 -> ~ q_std y == 0 -> -1 <= c / (q_std x * q_std y) <= 1 ->
  measured_set_cov s a x b y (ANum c) = (put s a b (c / (q_std x * q_std y), c), Done).
Proof.
  intros Sx Sy Hr. unfold measured_set_cov.
  rewrite (proj2 (std_guard_false x y) (conj Sx Sy)). cbv zeta. now rewrite (proj2 (in_range_iff _) Hr).
Qed.

Lemma set_corr_accepts s f a b r x y :
  nthq s a = Some x -> nthq s b = Some y -> is_measured x = true -> is_measured y = true ->
  ~ q_std x == 0 -> ~ q_std y == 0 -> -1 <= r <= 1 ->
  step s (SetCorr f (Ref a) (Ref b) (ANum r)) = (put s a b (r, r * (q_std x * q_std y)), Done).
Proof.
  intros Ha Hb Mx My Sx Sy Hr.
  assert (M : meth_set_corr s a x (Ref b) (ANum r) = (put s a b (r, r * (q_std x * q_std y)), Done)).
  { unfold meth_set_corr. simpl. rewrite Hb, My. simpl.
    unfold is_measured in Mx. destruct (q_kind x); try discriminate;
      [|destruct (is_repeated y)]; now apply measured_set_corr_accepts. }
  simpl. rewrite Ha, Hb. destruct f; exact M.
Qed.

Lemma set_cov_accepts s f a b c x y :
  nthq s a = Some x -> nthq s b = Some y -> is_measured x = true -> is_measured y = true ->
  ~ q_std x == 0 -> ~ q_std y == 0 -> -1 <= c / (q_std x * q_std y) <= 1 ->
  step s (SetCov f (Ref a) (Ref b) (ANum c)) = (put s a b (c / (q_std x * q_std y), c), Done).
Proof.
  intros Ha Hb Mx My Sx Sy Hr.
  assert (M : meth_set_cov s a x (Ref b) (ANum c) = (put s a b (c / (q_std x * q_std y), c), Done)).
  { unfold meth_set_cov. simpl. rewrite Hb, My. simpl.
    unfold is_measured in Mx. destruct (q_kind x); try discriminate;
      [|destruct (is_repeated y)]; now apply measured_set_cov_accepts. }
  simpl. rewrite Ha, Hb. destruct f; exact M.
Qed.

(** inferred requests between two plain repeated measurements of equal length and non-zero spread
    are always accepted (this is what the clamp in __infer_covariance guarantees) *)
Lemma set_cov_inferred_accepts s f a b x y c :
  nthq s a = Some x -> nthq s b = Some y -> is_repeated x = true -> is_repeated y = true ->
  q_plain x = true -> q_plain y = true -> c_cov (q_data x) (q_data y) = Some c ->
  ~ q_std x == 0 -> ~ q_std y == 0 ->
  let cov := qclamp (q_std x * q_std y) c in
  step s (SetCov f (Ref a) (Ref b) ANone) = (put s a b (cov / (q_std x * q_std y), cov), Done).
Proof.
  intros Ha Hb Rx Ry Px Py Hc Sx Sy cov.
  assert (L : ~ q_std x * q_std y == 0).
  { intros E. apply Qmult_integral in E. tauto. }
  assert (Mx : is_measured x = true) by (unfold is_repeated in Rx; unfold is_measured; destruct (q_kind x); auto).
  assert (My : is_measured y = true) by (unfold is_repeated in Ry; unfold is_measured; destruct (q_kind y); auto).
  assert (M : meth_set_cov s a x (Ref b) ANone = (put s a b (cov / (q_std x * q_std y), cov), Done)).
  { unfold meth_set_cov. simpl. rewrite Hb, My, Ry. simpl.
    unfold is_repeated in Rx. destruct (q_kind x); try discriminate.
    unfold infer. rewrite Hc, Px, Py. simpl.
    apply measured_set_cov_accepts; auto. apply qclamp_ratio_bounded; exact L. }
  simpl. rewrite Ha, Hb. destruct f; exact M.
Qed.

Lemma set_corr_inferred_accepts s f a b x y c :
  nthq s a = Some x -> nthq s b = Some y -> is_repeated x = true -> is_repeated y = true ->
  q_plain x = true -> q_plain y = true -> c_cov (q_data x) (q_data y) = Some c ->
  ~ q_std x == 0 -> ~ q_std y == 0 ->
  let corr := qclamp (q_std x * q_std y) c / (q_std x * q_std y) in
  step s (SetCorr f (Ref a) (Ref b) ANone) = (put s a b (corr, corr * (q_std x * q_std y)), Done).
Proof.
  intros Ha Hb Rx Ry Px Py Hc Sx Sy corr.
  assert (L : ~ q_std x * q_std y == 0).
  { intros E. apply Qmult_integral in E. tauto. }
  assert (Mx : is_measured x = true) by (unfold is_repeated in Rx; unfold is_measured; destruct (q_kind x); auto).
  assert (My : is_measured y = true) by (unfold is_repeated in Ry; unfold is_measured; destruct (q_kind y); auto).
  assert (M : meth_set_corr s a x (Ref b) ANone = (put s a b (corr, corr * (q_std x * q_std y)), Done)).
  { unfold meth_set_corr. simpl. rewrite Hb, My, Ry. simpl.
    unfold is_repeated in Rx. destruct (q_kind x); try discriminate.
    unfold infer. rewrite Hc, Px, Py. simpl.
    rewrite (proj2 (Qeq_bool_false_neq _ _) L).
    apply measured_set_corr_accepts; auto. apply qclamp_ratio_bounded; exact L. }
  simpl. rewrite Ha, Hb. destruct f; exact M.
Qed.

(** ---- the statements used by Props/C04.v ---------------------------------------------------------------------- *)
Lemma std_of_nth s a x : nthq s a = Some x -> std_of s a = q_std x.
Proof. unfold std_of. now intros ->. Qed.

Lemma measured_id_nth s a : measured_id s a = true <-> exists x, nthq s a = Some x /\ is_measured x = true.
Proof.
  unfold measured_id. destruct (nthq s a) as [x|]; split.
  - intros H; eauto.
  - intros [x' [E H]]; inversion E; subst; exact H.
  - discriminate.
  - intros [x' [E _]]; discriminate.
Qed.

Lemma symmetric_lemma s a b : get_corr s a b = get_corr s b a /\ get_cov s a b = get_cov s b a.
Proof. split; apply get_sym. Qed.

Lemma accept_iff_corr s f a b r :
  snd (step s (SetCorr f (Ref a) (Ref b) (ANum r))) = Done <->
  measured_id s a = true /\ measured_id s b = true /\ ~ std_of s a == 0 /\ ~ std_of s b == 0 /\ -1 <= r <= 1.
Proof.
  split.
  - intros H.
    destruct (step_set_shape s (SetCorr f (Ref a) (Ref b) (ANum r)) false (Ref a) (Ref b) (ANum r) eq_refl)
      as [[_ [e He]]|[_ W]]; [congruence|].
    destruct W as (a' & b' & x & y & corr & cov & Ea & Eb & Ha & Hb & Mx & My & Sx & Sy & Hc & [Hr _] & _).
    inversion Ea; inversion Eb; subst a' b'.
    destruct Hr as [Hr|[Hr _]]; [inversion Hr; subst corr|discriminate].
    rewrite (std_of_nth _ _ _ Ha), (std_of_nth _ _ _ Hb).
    repeat split; try tauto; apply measured_id_nth; eauto.
  - intros (Ma & Mb & Sa & Sb & Hr).
    apply measured_id_nth in Ma, Mb. destruct Ma as [x [Ha Mx]], Mb as [y [Hb My]].
    rewrite (std_of_nth _ _ _ Ha) in Sa. rewrite (std_of_nth _ _ _ Hb) in Sb.
    now rewrite (set_corr_accepts s f a b r x y Ha Hb Mx My Sa Sb Hr).
Qed.

Lemma accept_iff_cov s f a b c :
  snd (step s (SetCov f (Ref a) (Ref b) (ANum c))) = Done <->
  measured_id s a = true /\ measured_id s b = true /\ ~ std_of s a == 0 /\ ~ std_of s b == 0 /\
  -1 <= c / (std_of s a * std_of s b) <= 1.
Proof.
  split.
  - intros H.
    destruct (step_set_shape s (SetCov f (Ref a) (Ref b) (ANum c)) true (Ref a) (Ref b) (ANum c) eq_refl)
      as [[_ [e He]]|[_ W]]; [congruence|].
    destruct W as (a' & b' & x & y & corr & cov & Ea & Eb & Ha & Hb & Mx & My & Sx & Sy & Hc & [Hr Ec] & _).
    inversion Ea; inversion Eb; subst a' b'.
    destruct Hr as [Hr|[Hr _]]; [inversion Hr; subst cov|discriminate].
    rewrite (std_of_nth _ _ _ Ha), (std_of_nth _ _ _ Hb). subst corr.
    repeat split; try tauto; apply measured_id_nth; eauto.
  - intros (Ma & Mb & Sa & Sb & Hr).
    apply measured_id_nth in Ma, Mb. destruct Ma as [x [Ha Mx]], Mb as [y [Hb My]].
    rewrite (std_of_nth _ _ _ Ha) in *. rewrite (std_of_nth _ _ _ Hb) in *.
    now rewrite (set_cov_accepts s f a b c x y Ha Hb Mx My Sa Sb Hr).
Qed.

(** any accepted request, explicit or inferred, in either form: both operands are measurements with
    non-zero standard deviation, and afterwards the pair reads a correlation in [-1, 1] and the
    covariance = correlation x the two standard deviations at the time of recording *)
Lemma accepted_consistent s o cv oa ob r :
  set_parts o = Some (cv, oa, ob, r) -> snd (step s o) = Done ->
  exists a b, oa = Ref a /\ ob = Ref b /\
    measured_id s a = true /\ measured_id s b = true /\ ~ std_of s a == 0 /\ ~ std_of s b == 0 /\
    (a <> b ->
     let s' := fst (step s o) in
     -1 <= get_corr s' a b <= 1 /\
     get_cov s' a b == get_corr s' a b * (std_of s a * std_of s b) /\
     match r with
     | ANum v => if cv then get_cov s' a b = v else get_corr s' a b = v
     | _ => True
     end).
Proof.
  intros P H.
  destruct (step_set_shape s o cv oa ob r P) as [[_ [e He]]|[_ W]]; [congruence|].
  destruct W as (a & b & x & y & corr & cov & -> & -> & Ha & Hb & Mx & My & Sx & Sy & Hc & Hr & ->).
  exists a, b. rewrite (std_of_nth _ _ _ Ha), (std_of_nth _ _ _ Hb).
  split; [reflexivity|]. split; [reflexivity|].
  split; [apply measured_id_nth; eauto|]. split; [apply measured_id_nth; eauto|].
  split; [exact Sx|]. split; [exact Sy|].
  intros Hne. cbv zeta. unfold get_corr, get_cov.
  rewrite !(get_put_same _ s a b x y corr cov Ha Hb Mx My Sx Sy Hne).
  assert (L : ~ q_std x * q_std y == 0) by (intros E; apply Qmult_integral in E; tauto).
  split; [exact Hc|]. split.
  - destruct cv; destruct Hr as [_ ->]; [field; tauto|reflexivity].
  - destruct r as [|v|]; auto.
    destruct cv; destruct Hr as [[Hr|[Hr _]] _]; try discriminate; now inversion Hr.
Qed.

Lemma set_corr_ok_lemma s f a b r :
  a <> b -> snd (step s (SetCorr f (Ref a) (Ref b) (ANum r))) = Done ->
  let s' := fst (step s (SetCorr f (Ref a) (Ref b) (ANum r))) in
  get_corr s' a b = r /\ get_cov s' a b = r * (std_of s a * std_of s b).
Proof.
  intros Hne H. apply accept_iff_corr in H. destruct H as (Ma & Mb & Sa & Sb & Hr).
  apply measured_id_nth in Ma, Mb. destruct Ma as [x [Ha Mx]], Mb as [y [Hb My]].
  rewrite (std_of_nth _ _ _ Ha) in *. rewrite (std_of_nth _ _ _ Hb) in *.
  cbv zeta. rewrite (set_corr_accepts s f a b r x y Ha Hb Mx My Sa Sb Hr). simpl.
  unfold get_corr, get_cov. now rewrite !(get_put_same _ s a b x y _ _ Ha Hb Mx My Sa Sb Hne).
Qed.

Lemma set_cov_ok_lemma s f a b c :
  a <> b -> snd (step s (SetCov f (Ref a) (Ref b) (ANum c))) = Done ->
  let s' := fst (step s (SetCov f (Ref a) (Ref b) (ANum c))) in
  get_cov s' a b = c /\ get_corr s' a b = c / (std_of s a * std_of s b).
Proof.
  intros Hne H. apply accept_iff_cov in H. destruct H as (Ma & Mb & Sa & Sb & Hr).
  apply measured_id_nth in Ma, Mb. destruct Ma as [x [Ha Mx]], Mb as [y [Hb My]].
  rewrite (std_of_nth _ _ _ Ha) in *. rewrite (std_of_nth _ _ _ Hb) in *.
  cbv zeta. rewrite (set_cov_accepts s f a b c x y Ha Hb Mx My Sa Sb Hr). simpl.
  unfold get_corr, get_cov. now rewrite !(get_put_same _ s a b x y _ _ Ha Hb Mx My Sa Sb Hne).
Qed.

Lemma bounded_lemma t ops a b : -1 <= get_corr (run ops (init t)) a b <= 1.
Proof. apply get_corr_bounded, run_bounded. constructor. Qed.

Lemma default_lemma t ops a b :
  a <> b -> (forall o, In o ops -> targets o a b = false) ->
  get_corr (run ops (init t)) a b = 0 /\ get_cov (run ops (init t)) a b = 0.
Proof.
  intros Hne T. split; apply get_no_record; auto; apply run_keeps_none; auto.
Qed.

Lemma run_app ops1 ops2 s : run (ops1 ++ ops2) s = run ops2 (run ops1 s).
Proof. unfold run. apply fold_left_app. Qed.

Lemma since_reset_lemma s pre post a b :
  a <> b -> (forall o, In o post -> targets o a b = false) ->
  get_corr (run (pre ++ Reset :: post) s) a b = 0 /\ get_cov (run (pre ++ Reset :: post) s) a b = 0.
Proof.
  intros Hne T. rewrite run_app. simpl.
  split; apply get_no_record; auto; apply run_keeps_none; auto.
Qed.

Lemma reset_lemma s a b :
  a <> b -> snd (step s Reset) = Done /\
  get_corr (fst (step s Reset)) a b = 0 /\ get_cov (fst (step s Reset)) a b = 0.
Proof. intros Hne. split; [reflexivity|]. split; apply get_no_record; auto. Qed.

Lemma self_lemma s a :
  measured_id s a = true -> ~ std_of s a == 0 ->
  get_corr s a a = 1 /\ get_cov s a a = std_of s a * std_of s a.
Proof.
  intros M S. apply measured_id_nth in M. destruct M as [x [Ha Mx]].
  rewrite (std_of_nth _ _ _ Ha) in *. now apply get_self.
Qed.

(** a request on another pair, a read, or a rejected request never changes what a pair reads *)
Lemma isolated_lemma s o cv c d :
  set_parts o <> None -> targets o c d = false -> get cv (fst (step s o)) c d = get cv s c d.
Proof. apply step_set_isolated. Qed.

Lemma getters_lemma s f a b :
  nthq s a <> None -> nthq s b <> None ->
  step s (GetCorr f (Ref a) (Ref b)) = (s, Ret (get_corr s a b)) /\
  step s (GetCov f (Ref a) (Ref b)) = (s, Ret (get_cov s a b)).
Proof.
  intros Ha Hb. destruct (nthq s a) as [x|] eqn:Ea; [|contradiction].
  destruct (nthq s b) as [y|] eqn:Eb; [|contradiction].
  destruct f; [eapply step_get_fn|eapply step_get_meth]; eauto.
Qed.

(** a set request that is not accepted raises and leaves the state untouched *)
Lemma set_not_done_rejected s o :
  set_parts o <> None -> snd (step s o) <> Done -> exists e, step s o = (s, Raised e).
Proof.
  intros P H. destruct (set_parts o) as [[[[cv oa] ob] r]|] eqn:P'; [|contradiction].
  destruct (step_set_shape s o cv oa ob r P') as [[E [e He]]|[D _]]; [|contradiction].
  exists e. rewrite (surjective_pairing (step s o)). now rewrite E, He.
Qed.

Lemma reject_corr_lemma s f a b r :
  (measured_id s a = false \/ measured_id s b = false \/ std_of s a == 0 \/ std_of s b == 0 \/ r < -1 \/ 1 < r) ->
  exists e, step s (SetCorr f (Ref a) (Ref b) (ANum r)) = (s, Raised e).
Proof.
  intros H. apply set_not_done_rejected; [discriminate|].
  intros D. apply accept_iff_corr in D. destruct D as (Ma & Mb & Sa & Sb & Hr).
  destruct H as [H|[H|[H|[H|[H|H]]]]]; try congruence; try contradiction; lra.
Qed.

Lemma reject_cov_lemma s f a b c :
  (measured_id s a = false \/ measured_id s b = false \/ std_of s a == 0 \/ std_of s b == 0 \/
   c / (std_of s a * std_of s b) < -1 \/ 1 < c / (std_of s a * std_of s b)) ->
  exists e, step s (SetCov f (Ref a) (Ref b) (ANum c)) = (s, Raised e).
Proof.
  intros H. apply set_not_done_rejected; [discriminate|].
  intros D. apply accept_iff_cov in D. destruct D as (Ma & Mb & Sa & Sb & Hr).
  destruct H as [H|[H|[H|[H|[H|H]]]]]; try congruence; try contradiction; lra.
Qed.

(** anything that is not a registered quantity (a number, a string) in either position is rejected *)
Lemma reject_notq_lemma s o cv oa ob r :
  set_parts o = Some (cv, oa, ob, r) -> (oa = NotQ \/ ob = NotQ) -> exists e, step s o = (s, Raised e).
Proof.
  intros P H. apply set_not_done_rejected; [congruence|].
  intros D. destruct (accepted_consistent s o cv oa ob r P D) as (a & b & -> & -> & _).
  destruct H; discriminate.
Qed.

(** ---- a record is the covariance at the time of recording: later writes of .error / .value do not touch it ---- *)
Lemma nth_error_set_nth {A} (l : list A) n x m :
  nth_error (set_nth l n x) m =
  if Nat.eqb m n then (match nth_error l n with Some _ => Some x | None => None end) else nth_error l m.
Proof.
  unfold set_nth. revert n m. induction l as [|y l IH]; intros n m.
  - destruct n, m; simpl; try reflexivity. destruct (Nat.eqb m n); reflexivity.
  - destruct n as [|n].
    + destruct m; reflexivity.
    + destruct m as [|m]; [reflexivity|]. simpl. apply IH.
Qed.

Lemma get_offdiag cv s c d :
  c <> d ->
  get cv s c d =
  if measured_id s c && measured_id s d && negb (Qeq_bool (std_of s c) 0 || Qeq_bool (std_of s d) 0)
  then match lookup (mkkey c d) (recs s) with Some (corr, cov) => if cv then cov else corr | None => 0 end
  else 0.
Proof.
  intros Hne. unfold get, measured_id, std_of.
  destruct (nthq s c) as [x|], (nthq s d) as [y|]; simpl; try reflexivity;
    try (destruct (is_measured x); reflexivity).
  destruct (is_measured x && is_measured y); [|reflexivity]. simpl.
  unfold measured_get. destruct (Qeq_bool (q_std x) 0 || Qeq_bool (q_std y) 0); [reflexivity|]. simpl.
  destruct (Nat.eqb_spec c d); [contradiction|reflexivity].
Qed.

Definition is_attr_write (o : op) : bool := match o with SetErr _ _ | SetValue _ => true | _ => false end.

Lemma attr_write_measured s o m :
  is_attr_write o = true -> measured_id (fst (step s o)) m = measured_id s m.
Proof.
  destruct o; try discriminate; intros _; simpl.
  - destruct (nthq s a) as [x|] eqn:Ha; [|reflexivity]. destruct (is_measured x) eqn:Mx; [|reflexivity].
    destruct (negb (Qle_bool 0 e)); [reflexivity|]. unfold measured_id, nthq. simpl.
    rewrite nth_error_set_nth. destruct (Nat.eqb_spec m a) as [->|]; [|reflexivity].
    unfold nthq in Ha. rewrite Ha. simpl. unfold is_measured in *. simpl. now rewrite Mx.
  - destruct (nthq s a) as [x|] eqn:Ha; [|reflexivity]. destruct (is_measured x) eqn:Mx; [|reflexivity].
    unfold measured_id, nthq. simpl.
    rewrite nth_error_set_nth. destruct (Nat.eqb_spec m a) as [->|]; [|reflexivity].
    unfold nthq in Ha. rewrite Ha. simpl. now rewrite Mx.
Qed.

Lemma record_persists_lemma s o cv c d :
  is_attr_write o = true -> c <> d ->
  ~ std_of s c == 0 -> ~ std_of s d == 0 ->
  ~ std_of (fst (step s o)) c == 0 -> ~ std_of (fst (step s o)) d == 0 ->
  get cv (fst (step s o)) c d = get cv s c d.
Proof.
  intros W Hne S1 S2 S3 S4. rewrite !(get_offdiag _ _ c d Hne).
  rewrite !(attr_write_measured s o _ W).
  assert (R : recs (fst (step s o)) = recs s).
  { apply step_recs_other; destruct o; try discriminate; reflexivity. }
  rewrite R.
  rewrite (proj2 (Qeq_bool_false_neq _ _) S1), (proj2 (Qeq_bool_false_neq _ _) S2),
          (proj2 (Qeq_bool_false_neq _ _) S3), (proj2 (Qeq_bool_false_neq _ _) S4). reflexivity.
Qed.
