(** Lemmas about the executable model (over Q) of the fit pipeline and its relation to the
    specification level over R (C06, C07). *)
From Coq Require Import List Reals QArith Qreals Qabs Bool Arith Lia Lra.
From QV Require Import Gen.Fitters Gen.FitGlue Model.Fit Proofs.FitR.
Import ListNotations.

(* ------------------------------------------------------------------ Q -> R homomorphism *)
Definition ptR (t : FQ.pt) : FR.pt := (Q2R (FQ.px t), Q2R (FQ.py t), Q2R (FQ.pw t)).

Lemma Q2R_0 : Q2R 0 = 0%R.
Proof. unfold Q2R; simpl. lra. Qed.

Lemma Q2R_1 : Q2R 1 = 1%R.
Proof. unfold Q2R; simpl. lra. Qed.

Lemma Q2R_qpow : forall x n, Q2R (FQ.qpow x n) = (Q2R x ^ n)%R.
Proof.
  induction n as [|n IH]; simpl.
  - apply Q2R_1.
  - rewrite Q2R_mult, IH. reflexivity.
Qed.

Lemma Q2R_peval : forall cs x, Q2R (FQ.peval cs x) = FR.peval (map Q2R cs) (Q2R x).
Proof.
  induction cs as [|c cs IH]; intros x; simpl.
  - apply Q2R_0.
  - rewrite Q2R_plus, Q2R_mult, Q2R_qpow, IH, map_length. reflexivity.
Qed.

Lemma Q2R_gsum : forall {A} (f : A -> Q) l, Q2R (FQ.gsum f l) = FR.gsum (fun a => Q2R (f a)) l.
Proof.
  induction l as [|a l IH]; simpl.
  - apply Q2R_0.
  - rewrite Q2R_plus, IH. reflexivity.
Qed.

Lemma Q2R_resid : forall p t, Q2R (FQ.resid p t) = FR.resid (map Q2R p) (ptR t).
Proof. intros. unfold FQ.resid, FR.resid. rewrite Q2R_minus, Q2R_peval. reflexivity. Qed.

Lemma Q2R_moment : forall pts p j,
  Q2R (FQ.moment pts p j) = FR.moment (map ptR pts) (map Q2R p) j.
Proof.
  intros. unfold FQ.moment, FR.moment. rewrite Q2R_gsum, gsum_map. apply gsum_ext. intros t.
  rewrite !Q2R_mult, !Q2R_qpow, Q2R_resid. reflexivity.
Qed.

Lemma Q2R_chi2 : forall pts p, Q2R (FQ.chi2 pts p) = FR.chi2 (map ptR pts) (map Q2R p).
Proof.
  intros. unfold FQ.chi2, FR.chi2. rewrite Q2R_gsum, gsum_map. apply gsum_ext. intros t.
  rewrite Q2R_qpow, Q2R_mult, Q2R_resid. reflexivity.
Qed.

(** the boolean certificate implies the real normal equations *)
Lemma normal_eqs_b_sound : forall pts p,
  FQ.normal_eqs_b pts p = true -> FR.normal_eqs (map ptR pts) (map Q2R p).
Proof.
  intros pts p H j Hj. rewrite map_length in Hj.
  unfold FQ.normal_eqs_b in H. rewrite forallb_forall in H.
  specialize (H j). rewrite in_seq in H. specialize (H ltac:(lia)).
  apply Qeq_bool_eq in H. apply Qeq_eqR in H. rewrite Q2R_moment, Q2R_0 in H. exact H.
Qed.

(* ------------------------------------------------------------------ the certified solver *)
Lemma solve_certificate : forall pts np p inv,
  FQ.solve pts np = Some (p, inv) ->
  length p = np /\ FQ.normal_eqs_b pts p = true /\ FQ.inverse_b np (FQ.normal_matrix pts np) inv = true.
Proof.
  intros pts np p inv. unfold FQ.solve.
  destruct (FQ.gauss_jordan _ _ _ _) as [rows|]; [|discriminate].
  match goal with |- (if ?c then _ else _) = _ -> _ => destruct c eqn:Hc end; [|discriminate].
  intros H. injection H as <- <-.
  apply andb_true_iff in Hc. destruct Hc as [Hc H3]. apply andb_true_iff in Hc. destruct Hc as [H1 H2].
  apply Nat.eqb_eq in H1. auto.
Qed.

(** whatever the solver returns is a weighted least-squares optimum among ALL real
    coefficient vectors of that length *)
Lemma solve_optimal : forall pts np p inv,
  FQ.solve pts np = Some (p, inv) ->
  length p = np /\
  forall q : list R, length q = np ->
    (FR.chi2 (map ptR pts) (map Q2R p) <= FR.chi2 (map ptR pts) q)%R.
Proof.
  intros pts np p inv H. apply solve_certificate in H. destruct H as [Hl [Hn _]].
  split; [assumption|]. intros q Hq. apply normal_eqs_optimal.
  - apply normal_eqs_b_sound. assumption.
  - rewrite map_length. congruence.
Qed.

Lemma polyfit_inv : forall pts deg p cov,
  FQ.polyfit pts deg = FQ.FOk (p, cov) ->
  (S deg < length pts)%nat /\
  exists inv, FQ.solve pts (S deg) = Some (p, inv) /\
    cov = map (map (fun a => Qred (Qred (FQ.chi2 pts p / inject_Z (Z.of_nat (length pts - S deg))) * a))) inv.
Proof.
  intros pts deg p cov. unfold FQ.polyfit.
  destruct (Nat.leb (length pts) (S deg)) eqn:Hle; [discriminate|].
  apply Nat.leb_gt in Hle.
  destruct (FQ.solve pts (S deg)) as [[p' inv]|] eqn:Hs; [|discriminate].
  intros H. injection H as <- <-. split; [assumption|]. exists inv. split; reflexivity.
Qed.

Lemma polyfit_optimal : forall pts deg p cov,
  FQ.polyfit pts deg = FQ.FOk (p, cov) ->
  length p = S deg /\ (S deg < length pts)%nat /\
  forall q : list R, length q = S deg ->
    (FR.chi2 (map ptR pts) (map Q2R p) <= FR.chi2 (map ptR pts) q)%R.
Proof.
  intros pts deg p cov H. apply polyfit_inv in H. destruct H as [Hn [inv [Hs _]]].
  apply solve_optimal in Hs. destruct Hs as [Hl Ho]. auto.
Qed.

(* ------------------------------------------------------------------ covariance convention *)
Lemma nth_map_Qeq : forall (f : Q -> Q) l j, f 0 == 0 -> nth j (map f l) 0 == f (nth j l 0).
Proof.
  intros f l. induction l as [|a l IH]; intros [|j] H0; simpl; try (symmetry; exact H0); try reflexivity.
  apply IH. exact H0.
Qed.

Lemma mat_entry_map : forall (f : Q -> Q) m i j, f 0 == 0 ->
  FQ.mat_entry (map (map f) m) i j == f (FQ.mat_entry m i j).
Proof.
  intros f m i j H0. unfold FQ.mat_entry.
  replace (nth i (map (map f) m) []) with (map f (nth i m [])).
  - apply nth_map_Qeq. exact H0.
  - change (@nil Q) with (map f []) at 2. rewrite map_nth. reflexivity.
Qed.

Lemma gsumQ_ext_in : forall {A} (f g : A -> Q) l, (forall a, In a l -> f a == g a) -> FQ.gsum f l == FQ.gsum g l.
Proof.
  induction l as [|a l IH]; simpl; intros H; [reflexivity|].
  rewrite (H a (or_introl eq_refl)), IH; [reflexivity|]. intros; apply H; right; assumption.
Qed.

Lemma gsumQ_scal : forall {A} c (f : A -> Q) l, FQ.gsum (fun a => c * f a) l == c * FQ.gsum f l.
Proof. induction l as [|a l IH]; simpl; [ring|rewrite IH; ring]. Qed.

Lemma normal_matrix_entry : forall pts np i k, (i < np)%nat -> (k < np)%nat ->
  FQ.mat_entry (FQ.normal_matrix pts np) i k == FQ.normal_entry pts np i k.
Proof.
  intros pts np i k Hi Hk. unfold FQ.mat_entry, FQ.normal_matrix.
  rewrite (nth_indep _ [] (map (fun l => Qred (FQ.normal_entry pts np 0 l)) (seq 0 np)))
    by (rewrite map_length, seq_length; assumption).
  rewrite (map_nth (fun k0 => map (fun l => Qred (FQ.normal_entry pts np k0 l)) (seq 0 np)) (seq 0 np) 0%nat i).
  rewrite seq_nth by assumption. simpl.
  rewrite (nth_indep _ 0 (Qred (FQ.normal_entry pts np i 0))) by (rewrite map_length, seq_length; assumption).
  rewrite (map_nth (fun l => Qred (FQ.normal_entry pts np i l)) (seq 0 np) 0%nat k).
  rewrite seq_nth by assumption. simpl. apply Qred_correct.
Qed.

(** polynomial covariance = chi2_min / (n - (deg + 1)) * inverse (A^T W A) *)
Lemma polyfit_cov : forall pts deg p cov,
  FQ.polyfit pts deg = FQ.FOk (p, cov) ->
  forall i j, (i < S deg)%nat -> (j < S deg)%nat ->
  FQ.gsum (fun k => FQ.normal_entry pts (S deg) i k * FQ.mat_entry cov k j) (seq 0 (S deg))
  == (if Nat.eqb i j then FQ.chi2 pts p / inject_Z (Z.of_nat (length pts - S deg)) else 0).
Proof.
  intros pts deg p cov H i j Hi Hj.
  apply polyfit_inv in H. destruct H as [Hn [inv [Hs Hc]]].
  apply solve_certificate in Hs. destruct Hs as [_ [_ Hinv]].
  unfold FQ.inverse_b in Hinv. rewrite forallb_forall in Hinv.
  specialize (Hinv i). rewrite in_seq in Hinv. specialize (Hinv ltac:(lia)).
  rewrite forallb_forall in Hinv. specialize (Hinv j). rewrite in_seq in Hinv. specialize (Hinv ltac:(lia)).
  apply Qeq_bool_eq in Hinv.
  set (fac := FQ.chi2 pts p / inject_Z (Z.of_nat (length pts - S deg))) in *.
  rewrite (gsumQ_ext_in _ (fun k => fac * (FQ.mat_entry (FQ.normal_matrix pts (S deg)) i k * FQ.mat_entry inv k j))).
  - rewrite gsumQ_scal, Hinv. destruct (Nat.eqb i j); ring.
  - intros k Hk. rewrite in_seq in Hk. subst cov.
    rewrite (mat_entry_map (fun a => Qred (Qred fac * a))) by (rewrite !Qred_correct; ring).
    rewrite !Qred_correct. rewrite normal_matrix_entry by lia. ring.
Qed.

(* ------------------------------------------------------------------ x-range selection *)
Lemma in_range_spec : forall lo hi x, FitGlueQ.in_range lo hi x = true <-> lo <= x /\ x < hi.
Proof.
  intros. unfold FitGlueQ.in_range. rewrite andb_true_iff, negb_true_iff, Qle_bool_iff.
  split; intros [H1 H2]; (split; [assumption|]).
  - apply Qnot_le_lt. intros H. apply Qle_bool_iff in H. congruence.
  - destruct (Qle_bool hi x) eqn:E; [|reflexivity]. apply Qle_bool_iff in E. exfalso. apply (Qlt_not_le _ _ H2 E).
Qed.

Lemma select_in : forall lo hi l t,
  In t (FQ.select lo hi l) <-> In t l /\ lo <= FQ.dx t /\ FQ.dx t < hi.
Proof. intros. unfold FQ.select. rewrite filter_In, in_range_spec. reflexivity. Qed.

Lemma select_app : forall lo hi l m, FQ.select lo hi (l ++ m) = FQ.select lo hi l ++ FQ.select lo hi m.
Proof. intros. unfold FQ.select. apply filter_app. Qed.

Lemma select_one : forall lo hi t,
  (lo <= FQ.dx t /\ FQ.dx t < hi -> FQ.select lo hi [t] = [t]) /\
  (~ (lo <= FQ.dx t /\ FQ.dx t < hi) -> FQ.select lo hi [t] = []).
Proof.
  intros. unfold FQ.select; simpl. destruct (FitGlueQ.in_range lo hi (FQ.dx t)) eqn:E.
  - split; [reflexivity|]. intros H. exfalso. apply H. apply in_range_spec. assumption.
  - split; [|reflexivity]. intros H. apply in_range_spec in H. congruence.
Qed.

(** every accepted x-range argument: what enters the fit *)
Lemma select_arg_spec : forall xr data sel, FQ.select_arg xr data = FQ.FOk sel ->
  match xr with
  | FQ.XPair lo hi => lo <= hi /\ sel = FQ.select lo hi data
  | FQ.XNone | FQ.XEmpty => sel = data
  | _ => False
  end.
Proof.
  intros [| |lo hi| |] data sel; simpl; intros H; try discriminate; try (injection H; auto).
  destruct (Qle_bool lo hi) eqn:E; [|discriminate]. injection H as <-.
  split; [apply Qle_bool_iff; assumption|reflexivity].
Qed.

(* ------------------------------------------------------------------ the pipeline *)
Lemma mk_pts_weights : forall sel ws, length ws = length sel ->
  map FQ.px (FQ.mk_pts sel ws) = map FQ.dx sel /\ map FQ.py (FQ.mk_pts sel ws) = map FQ.dy sel
  /\ map FQ.pw (FQ.mk_pts sel ws) = ws.
Proof.
  induction sel as [|t sel IH]; intros [|w ws] H; simpl in *; try discriminate; auto.
  injection H as H. destruct (IH ws H) as [H1 [H2 H3]]. unfold FQ.px, FQ.py, FQ.pw in *; simpl.
  rewrite H1, H2, H3. auto.
Qed.

Lemma lsq_points_spec : forall sel,
  map FQ.px (FQ.lsq_points sel) = map FQ.dx sel /\ map FQ.py (FQ.lsq_points sel) = map FQ.dy sel /\
  map FQ.pw (FQ.lsq_points sel)
   = (if FQ.any_pos (map FQ.dye sel) then map (fun t => 1 / FQ.dye t) sel else repeat 1 (length sel)).
Proof.
  intros sel. unfold FQ.lsq_points, FQ.yerr_used.
  destruct (FQ.any_pos (map FQ.dye sel)) eqn:E; simpl.
  - replace (map (fun t => 1 / FQ.dye t) sel) with (map FitGlueQ.polyfit_weight (map FQ.dye sel))
      by (rewrite map_map; reflexivity).
    apply mk_pts_weights. rewrite !map_length. reflexivity.
  - apply mk_pts_weights. rewrite repeat_length. reflexivity.
Qed.

Lemma fit_poly_raw_optimal : forall data xr deg p cov,
  FQ.fit_poly_raw data xr deg = FQ.FOk (p, cov) ->
  exists sel, FQ.select_arg xr data = FQ.FOk sel /\ length p = S deg /\ (S deg < length sel)%nat /\
    forall q : list R, length q = S deg ->
      (FR.chi2 (map ptR (FQ.lsq_points sel)) (map Q2R p) <= FR.chi2 (map ptR (FQ.lsq_points sel)) q)%R.
Proof.
  intros data xr deg p cov. unfold FQ.fit_poly_raw.
  destruct (FQ.select_arg xr data) as [sel|e]; [|discriminate].
  destruct sel as [|t sel]; [discriminate|]. intros H. exists (t :: sel). split; [reflexivity|].
  apply polyfit_optimal in H. destruct H as [Hl [Hn Ho]]. split; [assumption|]. split; [|assumption].
  assert (Hlen : length (FQ.lsq_points (t :: sel)) = length (t :: sel)).
  { destruct (lsq_points_spec (t :: sel)) as [H1 _]. rewrite <- (map_length FQ.px), H1, map_length. reflexivity. }
  rewrite <- Hlen. assumption.
Qed.

(* ------------------------------------------------------------------ curve_fit glue *)
Lemma second_pass_lemma : forall (P : Type) (optimise : option (list Q) -> P) (slope : P -> Q -> Q) sel,
  FQ.any_pos (map FQ.dxe sel) = true ->
  FQ.curve_fit_sigmas P optimise slope sel =
   (FQ.yerr_used sel,
    Some (map (fun ts => (snd ts) ^ 2 + (FQ.dxe (fst ts) * slope (optimise (FQ.yerr_used sel)) (FQ.dx (fst ts))) ^ 2)
              (combine sel (match FQ.yerr_used sel with Some l => l | None => repeat 0 (length sel) end)))).
Proof.
  intros P optimise slope sel H. unfold FQ.curve_fit_sigmas, FQ.sigma2_second_pass. rewrite H.
  f_equal. f_equal. apply map_ext. intros [t sy]. reflexivity.
Qed.

Lemma single_pass_lemma : forall (P : Type) (optimise : option (list Q) -> P) (slope : P -> Q -> Q) sel,
  FQ.any_pos (map FQ.dxe sel) = false ->
  FQ.curve_fit_sigmas P optimise slope sel = (FQ.yerr_used sel, None).
Proof. intros P optimise slope sel H. unfold FQ.curve_fit_sigmas. rewrite H. reflexivity. Qed.

Lemma any_pos_false : forall l, (forall e, In e l -> e <= 0) -> FQ.any_pos l = false.
Proof.
  induction l as [|a l IH]; intros H; simpl; [reflexivity|].
  rewrite IH by (intros; apply H; right; assumption).
  assert (Ha : Qle_bool a 0 = true) by (apply Qle_bool_iff; apply H; left; reflexivity).
  rewrite Ha. reflexivity.
Qed.

(* ------------------------------------------------------------------ residuals, chi-squared *)
Lemma residuals_nth : forall f data i,
  nth_error (FQ.residuals f data) i
  = option_map (fun t => FQ.dy t - f (FQ.dx t)) (nth_error data i).
Proof.
  intros f data. unfold FQ.residuals. induction data as [|t data IH]; intros [|i]; simpl; auto.
Qed.

Lemma residuals_length : forall f data, length (FQ.residuals f data) = length data.
Proof. intros. unfold FQ.residuals. apply map_length. Qed.

Lemma chi2_guard_spec : forall e, 0 <= e -> FitGlueQ.chi2_guard e = negb (Qle_bool e 0).
Proof.
  intros e He. unfold FitGlueQ.chi2_guard. f_equal.
  destruct (Qeq_bool e (0 # 1)) eqn:E1, (Qle_bool e 0) eqn:E2; try reflexivity.
  - apply Qeq_bool_eq in E1. assert (H : e <= 0) by (rewrite E1; apply Qle_refl).
    apply Qle_bool_iff in H. congruence.
  - apply Qle_bool_iff in E2. assert (H : e == 0) by (apply Qle_antisym; assumption).
    apply Qeq_eq_bool in H. change (0 # 1) with 0 in E1. congruence.
Qed.

(** chi-squared is the sum of (residual / sigma_y)^2 over exactly the points with sigma_y > 0 *)
Lemma chi2_lemma : forall f data,
  (forall t, In t data -> 0 <= FQ.dye t) ->
  FQ.chi2_of f data
  == FQ.gsum (fun t => ((FQ.dy t - f (FQ.dx t)) / FQ.dye t) ^ 2)
             (filter (fun t => negb (Qle_bool (FQ.dye t) 0)) data).
Proof.
  intros f data. unfold FQ.chi2_of, FQ.residuals.
  induction data as [|t data IH]; intros H; simpl; [reflexivity|].
  rewrite chi2_guard_spec by (apply H; left; reflexivity).
  rewrite IH by (intros; apply H; right; assumption).
  destruct (Qle_bool (FQ.dye t) 0) eqn:E; simpl; [ring|].
  assert (Hne : ~ FQ.dye t == 0).
  { intros Hz. assert (Hle : FQ.dye t <= 0) by (rewrite Hz; apply Qle_refl).
    apply Qle_bool_iff in Hle. congruence. }
  apply Qplus_comp; [|reflexivity].
  unfold FitGlueQ.chi2_term. simpl. field. exact Hne.
Qed.

(* ------------------------------------------------------------------ registration loop *)
Lemma correlate_pairs_in : forall n i j e,
  In (i, j, e) (FQ.correlate_pairs n) <-> (i < j)%nat /\ (j < n)%nat /\ e = (i, j).
Proof.
  intros n i j e. unfold FQ.correlate_pairs. rewrite in_flat_map. split.
  - intros [i1 [H1 H2]]. rewrite in_seq in H1. rewrite in_map_iff in H2. destruct H2 as [i2 [H2 H3]].
    rewrite in_seq in H3. unfold FitGlueQ.corr_row, FitGlueQ.corr_col in H2.
    injection H2 as <- <- <-. repeat split; try lia; try (f_equal; lia).
  - intros [Hij [Hjn ->]]. exists i. split; [rewrite in_seq; lia|].
    rewrite in_map_iff. exists (j - i - 1)%nat. split.
    + unfold FitGlueQ.corr_row, FitGlueQ.corr_col. repeat f_equal; lia.
    + rewrite in_seq. lia.
Qed.

Lemma lookup_pair_some : forall k l e, FQ.lookup_pair k l = Some e ->
  exists i j, In (i, j, e) l /\ FQ.pair_eqb k (i, j) = true.
Proof.
  intros k l. induction l as [|[[i j] e0] l IH]; intros e H; simpl in H; [discriminate|].
  destruct (FQ.lookup_pair k l) as [e'|] eqn:E.
  - injection H as <-. destruct (IH _ eq_refl) as [i' [j' [Hin Hp]]]. exists i', j'. split; [right|]; assumption.
  - destruct (FQ.pair_eqb k (i, j)) eqn:Ep; [|discriminate]. injection H as <-.
    exists i, j. split; [left; reflexivity|assumption].
Qed.

Lemma lookup_pair_none : forall k l, FQ.lookup_pair k l = None ->
  forall i j e, In (i, j, e) l -> FQ.pair_eqb k (i, j) = false.
Proof.
  intros k l. induction l as [|[[i0 j0] e0] l IH]; intros H i j e Hin; simpl in *; [contradiction|].
  destruct (FQ.lookup_pair k l) as [e'|] eqn:E; [discriminate|].
  destruct (FQ.pair_eqb k (i0, j0)) eqn:Ep; [discriminate|].
  destruct Hin as [Hin|Hin]; [injection Hin as <- <- <-; assumption|]. eapply IH; eauto.
Qed.

(** after the loop every pair of distinct parameters carries the covariance entry of that pair *)
Lemma registered_lemma : forall cov i j, (i < length cov)%nat -> (j < length cov)%nat -> i <> j ->
  FQ.registered_cov cov i j = FQ.mat_entry cov (Nat.min i j) (Nat.max i j).
Proof.
  intros cov i j Hi Hj Hne. unfold FQ.registered_cov.
  destruct (FQ.lookup_pair (i, j) (FQ.correlate_pairs (length cov))) as [[r c]|] eqn:E.
  - apply lookup_pair_some in E. destruct E as [i' [j' [Hin Hp]]].
    apply correlate_pairs_in in Hin. destruct Hin as [Hlt [Hn He]]. injection He as -> ->.
    unfold FQ.pair_eqb in Hp; simpl in Hp.
    apply orb_true_iff in Hp. destruct Hp as [Hp|Hp]; apply andb_true_iff in Hp; destruct Hp as [Ha Hb];
      apply Nat.eqb_eq in Ha, Hb; subst.
    + rewrite Nat.min_l, Nat.max_r by lia. reflexivity.
    + rewrite Nat.min_r, Nat.max_l by lia. reflexivity.
  - exfalso. pose proof (lookup_pair_none _ _ E (Nat.min i j) (Nat.max i j) (Nat.min i j, Nat.max i j)) as H.
    assert (Hin : In (Nat.min i j, Nat.max i j, (Nat.min i j, Nat.max i j)) (FQ.correlate_pairs (length cov))).
    { apply correlate_pairs_in. repeat split; lia. }
    specialize (H Hin). unfold FQ.pair_eqb in H; simpl in H.
    apply orb_false_iff in H. destruct H as [H1 H2].
    destruct (Nat.lt_ge_cases i j) as [Hlt|Hge].
    + rewrite Nat.min_l, Nat.max_r, !Nat.eqb_refl in H1 by lia. discriminate.
    + rewrite Nat.min_r, Nat.max_l, !Nat.eqb_refl in H2 by lia. discriminate.
Qed.

(* ------------------------------------------------------------------ the executed model functions *)
Lemma hornerQ_fold : forall cs acc x,
  fold_left (fun a b => a * x + b) cs acc == acc * FQ.qpow x (length cs) + FQ.peval cs x.
Proof.
  induction cs as [|c cs IH]; intros acc x; simpl.
  - ring.
  - rewrite IH. ring.
Qed.

Lemma fold_left_extQ : forall (f g : Q -> Q -> Q) l a a',
  (forall u u' v, u == u' -> f u v == g u' v) -> a == a' -> fold_left f l a == fold_left g l a'.
Proof.
  induction l as [|b l IH]; intros a a' H Ha; simpl; [assumption|]. apply IH; [assumption|]. apply H. assumption.
Qed.

Lemma model_fn_Q_peval : forall x,
  (forall a b, FQ.model_fn FQ.MLin [a; b] x == FQ.peval [a; b] x) /\
  (forall a b c, FQ.model_fn FQ.MQuad [a; b; c] x == FQ.peval [a; b; c] x) /\
  (forall cs, FQ.model_fn FQ.MPoly cs x == FQ.peval cs x).
Proof.
  intros x. split; [|split]; intros.
  - unfold FQ.model_fn, FitQ.fit_lin. simpl. ring.
  - unfold FQ.model_fn, FitQ.fit_quad. simpl. ring.
  - unfold FQ.model_fn, FitQ.fit_poly, fold_left1. destruct cs as [|c cs]; simpl; [reflexivity|].
    transitivity (fold_left (fun a b => a * x + b) cs c).
    + apply fold_left_extQ; [|reflexivity]. intros u u' v Hu. rewrite Hu. ring.
    + apply hornerQ_fold.
Qed.

(** ... and their real-valued reading *)
Lemma model_fn_Q_R : forall cs x, Q2R (FQ.model_fn FQ.MPoly cs x) = FR.peval (map Q2R cs) (Q2R x).
Proof.
  intros. rewrite <- Q2R_peval. apply Qeq_eqR. apply model_fn_Q_peval.
Qed.
