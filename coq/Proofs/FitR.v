(** Lemmas over the reals about the specification level of the fit model (C06, C07):
    Horner, optimality from the normal equations, weights, the quadratic-form identity. *)
From Coq Require Import List Reals Bool Arith Lia Lra.
From QV Require Import Gen.Fitters Gen.FitGlue Model.Fit.
Import ListNotations.
Import FR.
Local Open Scope R_scope.

(* ---------------------------------------------------------------- sums over lists *)
Lemma gsum_ext_in : forall {A} (f g : A -> R) l, (forall a, In a l -> f a = g a) -> gsum f l = gsum g l.
Proof.
  induction l as [|a l IH]; simpl; intros H; [reflexivity|].
  rewrite (H a (or_introl eq_refl)), IH; [reflexivity|]. intros; apply H; right; assumption.
Qed.

Lemma gsum_ext : forall {A} (f g : A -> R) l, (forall a, f a = g a) -> gsum f l = gsum g l.
Proof. intros; apply gsum_ext_in; auto. Qed.

Lemma gsum_plus : forall {A} (f g : A -> R) l, gsum (fun a => f a + g a) l = gsum f l + gsum g l.
Proof. induction l as [|a l IH]; simpl; [lra|rewrite IH; lra]. Qed.

Lemma gsum_scal : forall {A} c (f : A -> R) l, gsum (fun a => c * f a) l = c * gsum f l.
Proof. induction l as [|a l IH]; simpl; [lra|rewrite IH; lra]. Qed.

Lemma gsum_zero : forall {A} (l : list A), gsum (fun _ => 0) l = 0.
Proof. induction l as [|a l IH]; simpl; [reflexivity|rewrite IH; lra]. Qed.

Lemma gsum_nonneg : forall {A} (f : A -> R) l, (forall a, 0 <= f a) -> 0 <= gsum f l.
Proof. induction l as [|a l IH]; simpl; intros H; [lra|]. specialize (H a) as Ha. specialize (IH H). lra. Qed.

Lemma gsum_map : forall {A B} (h : A -> B) (f : B -> R) l, gsum f (map h l) = gsum (fun a => f (h a)) l.
Proof. induction l as [|a l IH]; simpl; [reflexivity|rewrite IH; reflexivity]. Qed.

Lemma gsum_app : forall {A} (f : A -> R) l m, gsum f (l ++ m) = gsum f l + gsum f m.
Proof. induction l as [|a l IH]; simpl; intros; [lra|rewrite IH; lra]. Qed.

(* ---------------------------------------------------------------- Horner *)
Lemma horner_fold : forall cs acc x,
  fold_left (fun a b => a * x + b) cs acc = acc * x ^ length cs + peval cs x.
Proof.
  induction cs as [|c cs IH]; intros acc x; simpl.
  - lra.
  - rewrite IH. ring.
Qed.

Lemma fold_left_ext2 : forall (f g : R -> R -> R) l a,
  (forall u v, f u v = g u v) -> fold_left f l a = fold_left g l a.
Proof. induction l as [|b l IH]; intros a H; simpl; [reflexivity|]. rewrite H. apply IH. assumption. Qed.

(** FITTERS[polynomial] (as generated from the source) is sum_i c_i x^(d-i);
    the step function is only required to be extensionally a * x + b *)
Lemma fit_poly_peval : forall x cs, FitR.fit_poly x cs = peval cs x.
Proof.
  intros x [|c cs]; unfold FitR.fit_poly, fold_left1; simpl; [reflexivity|].
  transitivity (fold_left (fun a b => a * x + b) cs c); [apply fold_left_ext2; intros; ring|].
  apply horner_fold.
Qed.

Lemma fit_lin_peval : forall x a b, FitR.fit_lin x a b = peval [a; b] x.
Proof. intros. unfold FitR.fit_lin. simpl. ring. Qed.

Lemma fit_quad_peval : forall x a b c, FitR.fit_quad x a b c = peval [a; b; c] x.
Proof. intros. unfold FitR.fit_quad. simpl. ring. Qed.

Lemma order_lemma : forall x,
  (forall a b, FitR.fit_lin x a b = a * x + b) /\
  (forall a b c, FitR.fit_quad x a b c = a * x ^ 2 + b * x + c) /\
  (forall cs, FitR.fit_poly x cs = peval cs x) /\
  arity_lin = 2%nat /\ arity_quad = 3%nat.
Proof.
  intros x. split; [|split; [|split; [|split; reflexivity]]]; intros.
  - unfold FitR.fit_lin. ring.
  - unfold FitR.fit_quad. ring.
  - apply fit_poly_peval.
Qed.

(** the two transcendental pre-set models, as written in the source today *)
Lemma fit_expo_spec : forall x c a, FitR.fit_expo x c a = c * exp (- (a * x)).
Proof. intros. unfold FitR.fit_expo. f_equal. f_equal. ring. Qed.

Lemma fit_gauss_spec : forall x n m s, 0 < s ->
  FitR.fit_gauss x n m s = n / (s * sqrt (2 * PI)) * exp (- ((x - m) ^ 2 / (2 * s ^ 2))).
Proof.
  intros x n m s Hs. unfold FitR.fit_gauss.
  assert (Hpi : 0 < 2 * PI) by (generalize PI_RGT_0; lra).
  assert (Hsq : sqrt (2 * PI * s ^ 2) = s * sqrt (2 * PI)).
  { rewrite sqrt_mult; [|lra|apply pow2_ge_0].
    replace (s ^ 2) with (s * s) by ring. rewrite sqrt_square; lra. }
  rewrite Hsq. f_equal. f_equal. field. lra.
Qed.

(* ---------------------------------------------------------------- optimality *)
Definition lsub (q p : list R) : list R := map (fun ab => fst ab - snd ab) (combine q p).

Lemma lsub_length : forall q p, length q = length p -> length (lsub q p) = length p.
Proof. intros q p H. unfold lsub. rewrite map_length, combine_length, H. apply Nat.min_id. Qed.

Lemma peval_lsub : forall q p x, length q = length p -> peval (lsub q p) x = peval q x - peval p x.
Proof.
  induction q as [|a q IH]; intros [|b p] x H; simpl in *; try discriminate; [lra|].
  injection H as H. fold (lsub q p). rewrite IH by assumption.
  rewrite lsub_length by assumption. rewrite H. ring.
Qed.

Definition cross (pts : list pt) (p e : list R) : R :=
  gsum (fun t => (pw t) ^ 2 * resid p t * peval e (px t)) pts.

Lemma cross_zero : forall pts p e,
  (forall j, (j < length e)%nat -> moment pts p j = 0) -> cross pts p e = 0.
Proof.
  intros pts p. induction e as [|c e IH]; intros H; unfold cross; simpl.
  - rewrite (gsum_ext _ (fun _ => 0)); [apply gsum_zero|]. intros; ring.
  - rewrite (gsum_ext _ (fun t => c * ((pw t) ^ 2 * resid p t * (px t) ^ length e)
                                   + (pw t) ^ 2 * resid p t * peval e (px t))) by (intros; ring).
    rewrite gsum_plus, gsum_scal.
    fold (moment pts p (length e)). fold (cross pts p e).
    rewrite H by (simpl; lia). rewrite IH; [ring|]. intros j Hj. apply H. simpl. lia.
Qed.

Lemma chi2_expand : forall pts p q, length q = length p ->
  chi2 pts q = chi2 pts p + ((-2) * cross pts p (lsub q p)
                             + gsum (fun t => (pw t * peval (lsub q p) (px t)) ^ 2) pts).
Proof.
  intros pts p q H. unfold chi2, cross.
  rewrite <- gsum_scal, <- gsum_plus, <- gsum_plus.
  apply gsum_ext. intros t. unfold resid. rewrite peval_lsub by assumption. ring.
Qed.

(** if p satisfies the weighted normal equations, no polynomial of the same number of
    coefficients has a smaller chi-squared: any degree, any number of points *)
Lemma normal_eqs_optimal : forall pts p, normal_eqs pts p ->
  forall q, length q = length p -> chi2 pts p <= chi2 pts q.
Proof.
  intros pts p Hn q Hq. rewrite (chi2_expand pts p q Hq).
  rewrite cross_zero.
  - assert (0 <= gsum (fun t => (pw t * peval (lsub q p) (px t)) ^ 2) pts).
    { apply gsum_nonneg. intros. apply pow2_ge_0. }
    lra.
  - intros j Hj. apply Hn. rewrite lsub_length in Hj; assumption.
Qed.

(** conversely the excess of any other polynomial is exactly the weighted square of the difference *)
Lemma normal_eqs_excess : forall pts p, normal_eqs pts p ->
  forall q, length q = length p ->
  chi2 pts q - chi2 pts p = gsum (fun t => (pw t * (peval q (px t) - peval p (px t))) ^ 2) pts.
Proof.
  intros pts p Hn q Hq. rewrite (chi2_expand pts p q Hq).
  rewrite cross_zero.
  - rewrite (gsum_ext _ (fun t => (pw t * (peval q (px t) - peval p (px t))) ^ 2)); [ring|].
    intros t. rewrite peval_lsub by assumption. reflexivity.
  - intros j Hj. apply Hn. rewrite lsub_length in Hj; assumption.
Qed.

(* ---------------------------------------------------------------- weights *)
(** data with uncertainties: (x, y, sigma) *)
Definition with_weights (data : list (R * R * R)) : list pt :=
  map (fun t => (fst (fst t), snd (fst t), FitGlueR.polyfit_weight (snd t))) data.

Lemma weights_lemma : forall data p,
  (forall t, In t data -> snd t <> 0) ->
  (forall s, FitGlueR.polyfit_weight s = 1 / s) /\
  chi2 (with_weights data) p
    = gsum (fun t => ((snd (fst t) - peval p (fst (fst t))) / snd t) ^ 2) data /\
  (forall j, moment (with_weights data) p j
    = gsum (fun t => (1 / (snd t) ^ 2) * (snd (fst t) - peval p (fst (fst t))) * (fst (fst t)) ^ j) data).
Proof.
  intros data p Hs. split; [intros; reflexivity|]. split.
  - unfold chi2, with_weights. rewrite gsum_map. apply gsum_ext_in. intros [[x y] s] Hin.
    unfold FitGlueR.polyfit_weight, resid, pw, px, py; simpl. specialize (Hs _ Hin); simpl in Hs.
    field. assumption.
  - intros j. unfold moment, with_weights. rewrite gsum_map. apply gsum_ext_in. intros [[x y] s] Hin.
    unfold FitGlueR.polyfit_weight, resid, pw, px, py; simpl. specialize (Hs _ Hin); simpl in Hs.
    field. assumption.
Qed.

(** without y-uncertainties polyfit weights every point by 1 *)
Lemma unweighted_lemma : forall (data : list (R * R)) p,
  chi2 (map (fun t => (fst t, snd t, 1)) data) p = gsum (fun t => (snd t - peval p (fst t)) ^ 2) data.
Proof.
  intros. unfold chi2. rewrite gsum_map. apply gsum_ext. intros [x y]. unfold resid, pw, px, py; simpl. ring.
Qed.

(* ---------------------------------------------------------------- effective variance, slope *)
Lemma eff_variance_lemma : forall sy sx slope,
  slope_at_values = true /\
  sqrt (FitGlueR.eff_variance sy sx slope) = sqrt (sy ^ 2 + (slope * sx) ^ 2).
Proof. intros. split; [reflexivity|]. unfold FitGlueR.eff_variance. f_equal. ring. Qed.

(** the central difference used by numerical_derivative is exact on quadratics *)
Lemma central_diff_quadratic : forall a b c x0 dx, dx <> 0 ->
  central_diff (fun x => a * x ^ 2 + b * x + c) x0 dx = 2 * a * x0 + b.
Proof. intros. unfold central_diff, FitGlueR.num_derivative. field. assumption. Qed.

(* ---------------------------------------------------------------- one covariance matrix *)
Lemma one_covariance_lemma : forall (C : nat -> nat -> R) i j,
  (forall a b, C a b = C b a) -> 0 < C i i -> 0 < C j j ->
  perr C i = sqrt (C i i) /\
  pcorr C i j = C i j / (sqrt (C i i) * sqrt (C j j)) /\
  stored_corr (C i j) (perr C i) (perr C j) = pcorr C i j /\
  pcorr C j i = pcorr C i j /\
  pcorr C i i = 1 /\
  pcorr C i j * perr C i * perr C j = C i j /\
  (perr C i) ^ 2 = C i i.
Proof.
  intros C i j Hsym Hi Hj.
  assert (Hsi : 0 < sqrt (C i i)) by (apply sqrt_lt_R0; assumption).
  assert (Hsj : 0 < sqrt (C j j)) by (apply sqrt_lt_R0; assumption).
  unfold pcorr, stored_corr, FitGlueR.cov2corr_entry, perr.
  assert (Hii : sqrt (C i i) * sqrt (C i i) = C i i) by (apply sqrt_sqrt; lra).
  split; [reflexivity|]. split; [reflexivity|]. split; [reflexivity|].
  split; [rewrite (Hsym j i); f_equal; ring|].
  split; [rewrite Hii; unfold Rdiv; apply Rinv_r; lra|].
  split; [field; lra|].
  replace (sqrt (C i i) ^ 2) with (sqrt (C i i) * sqrt (C i i)) by ring. exact Hii.
Qed.

(* ---------------------------------------------------------------- the band: g^T C g *)
Lemma rsum_ext : forall n f g, (forall i, (i < n)%nat -> f i = g i) -> rsum n f = rsum n g.
Proof.
  induction n as [|n IH]; intros f g H; simpl; [reflexivity|].
  rewrite (IH f g), (H n) by (intros; try apply H; lia). reflexivity.
Qed.

Lemma rsum_plus : forall n f g, rsum n (fun i => f i + g i) = rsum n f + rsum n g.
Proof. induction n as [|n IH]; intros; simpl; [lra|rewrite IH; lra]. Qed.

Lemma rsum_scal : forall n c f, rsum n (fun i => c * f i) = c * rsum n f.
Proof. induction n as [|n IH]; intros; simpl; [lra|rewrite IH; lra]. Qed.

Lemma band_lemma : forall n (g sigma : nat -> R) (cov C : nat -> nat -> R),
  (forall i j, C i j = C j i) ->
  (forall i, (i < n)%nat -> (sigma i) ^ 2 = C i i) ->
  (forall i j, (i < j)%nat -> (j < n)%nat -> cov i j = C i j) ->
  propagated_var n g sigma cov = quad_form n g C.
Proof.
  intros n g sigma cov C Hsym. unfold propagated_var, quad_form.
  induction n as [|n IH]; intros Hs Hc; cbn [rsum psum]; [lra|].
  rewrite rsum_plus.
  rewrite (rsum_ext n (fun j => g n * C n j * g j) (fun i => g i * C i n * g n))
    by (intros; rewrite (Hsym n i); ring).
  rewrite (rsum_ext n (fun i => 2 * cov i n * g i * g n) (fun i => 2 * (g i * C i n * g n)))
    by (intros; rewrite Hc by lia; ring).
  rewrite rsum_scal.
  replace ((g n * sigma n) ^ 2) with (g n * (sigma n) ^ 2 * g n) by ring.
  rewrite (Hs n) by lia.
  assert (IH' := IH (fun i Hi => Hs i (Nat.lt_lt_succ_r _ _ Hi))
                    (fun i j Hij Hj => Hc i j Hij (Nat.lt_lt_succ_r _ _ Hj))).
  lra.
Qed.

(** the same with correlation factors: cov_ij = rho_ij sigma_i sigma_j *)
Lemma band_rho_lemma : forall n (g sigma : nat -> R) (rho C : nat -> nat -> R),
  (forall i j, C i j = C j i) ->
  (forall i, (i < n)%nat -> (sigma i) ^ 2 = C i i) ->
  (forall i j, (i < j)%nat -> (j < n)%nat -> rho i j * sigma i * sigma j = C i j) ->
  rsum n (fun i => (g i * sigma i) ^ 2)
    + 2 * psum n (fun i j => g i * g j * rho i j * sigma i * sigma j)
  = quad_form n g C.
Proof.
  intros n g sigma rho C Hsym Hs Hr.
  rewrite <- (band_lemma n g sigma (fun i j => rho i j * sigma i * sigma j) C Hsym Hs Hr).
  unfold propagated_var. f_equal.
  clear. induction n as [|n IH]; cbn [rsum psum]; [lra|].
  rewrite <- IH. rewrite Rmult_plus_distr_l. f_equal.
  rewrite <- rsum_scal. apply rsum_ext. intros. ring.
Qed.

(* ---------------------------------------------------------------- the function of a result *)
Lemma function_bound_lemma : forall x,
  (forall a b, model_fn MLin [a; b] x = peval [a; b] x) /\
  (forall a b c, model_fn MQuad [a; b; c] x = peval [a; b; c] x) /\
  (forall cs, model_fn MPoly cs x = peval cs x) /\
  (forall c a, model_fn MExpo [c; a] x = c * exp (- (a * x))) /\
  (forall n m s, 0 < s ->
     model_fn MGauss [n; m; s] x = n / (s * sqrt (2 * PI)) * exp (- ((x - m) ^ 2 / (2 * s ^ 2)))).
Proof.
  intros x. split; [|split; [|split; [|split]]]; intros.
  - apply fit_lin_peval.
  - apply fit_quad_peval.
  - apply fit_poly_peval.
  - apply fit_expo_spec.
  - apply fit_gauss_spec. assumption.
Qed.

(* ---------------------------------------------------------------- uniqueness on the data *)
Lemma gsum_nonneg_zero : forall {A} (f : A -> R) l,
  (forall a, 0 <= f a) -> gsum f l = 0 -> forall a, In a l -> f a = 0.
Proof.
  induction l as [|b l IH]; intros Hf Hs a Hin; simpl in *; [contradiction|].
  assert (H0 : 0 <= gsum f l) by (apply gsum_nonneg; assumption).
  specialize (Hf b) as Hb.
  destruct Hin as [<-|Hin]; [lra|]. apply IH; try assumption. lra.
Qed.

(** two solutions of the normal equations take the same value at every data point of non-zero
    weight: the least-squares polynomial is unique as a function on the data *)
Lemma normal_eqs_agree : forall pts p q, normal_eqs pts p -> normal_eqs pts q -> length q = length p ->
  forall t, In t pts -> pw t * (peval q (px t) - peval p (px t)) = 0.
Proof.
  intros pts p q Hp Hq Hl t Hin.
  pose proof (normal_eqs_excess pts p Hp q Hl) as E1.
  pose proof (normal_eqs_excess pts q Hq p (eq_sym Hl)) as E2.
  rewrite (gsum_ext _ (fun t => (pw t * (peval q (px t) - peval p (px t))) ^ 2)) in E2 by (intros; ring).
  assert (Hz : gsum (fun t => (pw t * (peval q (px t) - peval p (px t))) ^ 2) pts = 0) by lra.
  pose proof (gsum_nonneg_zero _ pts (fun a => pow2_ge_0 _) Hz t Hin) as H. simpl in H.
  apply Rmult_integral in H. destruct H as [H|H]; [exact H|].
  rewrite Rmult_1_r in H. exact H.
Qed.
