(** The exact model of numpy.histogram(samples, bins=nb): nb non-negative counts that add up to the
    number of samples (every sample falls in exactly one bin). *)
From Coq Require Import List ZArith QArith Qround Bool Lia.
From QV Require Import Base.Py Model.MC Proofs.MCMode.
Import ListNotations.
Open Scope Z_scope.

Lemma count_bin_cons : forall b bs i,
  count_bin (b :: bs) i = if (b =? i)%nat then count_bin bs i + 1 else count_bin bs i.
Proof. reflexivity. Qed.

Lemma count_bin_nonneg : forall bs i, 0 <= count_bin bs i.
Proof.
  induction bs as [|b bs IH]; intros i; [simpl; lia|].
  rewrite count_bin_cons. specialize (IH i). destruct (b =? i)%nat; lia.
Qed.

Lemma hist_length : forall xs nb, length (hist xs nb) = nb.
Proof. intros. unfold hist. destruct (outer_edges xs). rewrite map_length, seq_length. reflexivity. Qed.

Lemma hist_nonneg : forall xs nb, nonneg (hist xs nb).
Proof.
  intros. unfold hist, nonneg. destruct (outer_edges xs). apply Forall_forall.
  intros z Hin. apply in_map_iff in Hin. destruct Hin as [i [<- _]]. apply count_bin_nonneg.
Qed.

Lemma total_app : forall l m, total (l ++ m) = total l + total m.
Proof. induction l as [|x l IH]; intros m; simpl; [reflexivity|]. rewrite IH. lia. Qed.

Lemma total_map_seq : forall (g : nat -> Z) n, total (map g (seq 0 n)) = sumf g n.
Proof.
  induction n as [|n IH]; [reflexivity|].
  rewrite seq_S, map_app, total_app, IH. simpl. lia.
Qed.

Lemma bin_of_lt : forall lo hi nb x, (0 < nb)%nat -> (bin_of lo hi nb x < nb)%nat.
Proof.
  intros lo hi nb x Hnb. unfold bin_of.
  destruct (Z.leb_spec (Z.of_nat nb) (Qfloor ((x - lo) * inject_Z (Z.of_nat nb) / (hi - lo)))); lia.
Qed.

Lemma sum_count_bin : forall bs nb, Forall (fun b => (b < nb)%nat) bs ->
  sumf (count_bin bs) nb = Z.of_nat (length bs).
Proof.
  induction bs as [|b bs IH]; intros nb Hall.
  - simpl. apply sumf_zero.
  - inversion Hall as [|? ? Hb Hrest]; subst.
    rewrite sumf_ext with (g := fun i => count_bin bs i + (if (i =? b)%nat then 1 else 0)).
    + rewrite sumf_add, IH by assumption. rewrite (sumf_single (fun _ => 1)).
      replace (b <? nb)%nat with true by (symmetry; apply Nat.ltb_lt; assumption).
      simpl length. lia.
    + intros i _. rewrite count_bin_cons. rewrite (Nat.eqb_sym i b). destruct (b =? i)%nat; lia.
Qed.

(** every sample is counted exactly once *)
Lemma hist_total : forall xs nb, (0 < nb)%nat -> total (hist xs nb) = Z.of_nat (length xs).
Proof.
  intros xs nb Hnb. unfold hist. destruct (outer_edges xs) as [lo hi].
  rewrite total_map_seq, sum_count_bin.
  - rewrite map_length. reflexivity.
  - apply Forall_forall. intros b Hin. apply in_map_iff in Hin. destruct Hin as [x [<- _]].
    apply bin_of_lt. assumption.
Qed.

Lemma hist_nonempty : forall xs, hist xs NBINS <> [].
Proof.
  intros xs E. pose proof (hist_length xs NBINS) as H. rewrite E in H. unfold NBINS in H. simpl in H. lia.
Qed.

(** the mode strategy on a sample set: centre of the fullest bin, smallest covering k *)
Lemma mode_rep_spec : forall xs conf, (conf <= 1)%Q ->
  exists v e, mode_rep xs conf = mkrep (Some v) (EExact e) /\
              is_mode_result (hist xs NBINS) (hist_edges xs NBINS) conf v e.
Proof.
  intros xs conf Hc.
  destruct (find_mode_spec (hist xs NBINS) (hist_edges xs NBINS) conf (hist_nonempty xs) (hist_nonneg xs NBINS) Hc)
    as [v [e [Hf Hr]]].
  exists v, e. split; [|exact Hr]. unfold mode_rep. rewrite Hf. reflexivity.
Qed.

(** |i - m| <= k *)
Lemma within_iff : forall m k i, within m k i = true <-> (i <= m + k /\ m <= i + k)%nat.
Proof.
  intros. unfold within. rewrite andb_true_iff, !Nat.leb_le. reflexivity.
Qed.
