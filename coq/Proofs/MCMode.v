(** Lemmas about find_mode_and_uncertainty (Model/MC.v part i): the outward walk returns the
    smallest k whose window holds the requested fraction, and it terminates within len-1 steps. *)
From Coq Require Import List ZArith QArith Qabs Qround Bool Lia.
From QV Require Import Base.Py Model.MC.
Import ListNotations.
Open Scope Z_scope.

(** ** finite sums *)
Lemma sumf_ext : forall f g len, (forall i, (i < len)%nat -> f i = g i) -> sumf f len = sumf g len.
Proof.
  induction len as [|l IH]; intros H; simpl; [reflexivity|].
  rewrite IH by (intros; apply H; lia). rewrite H by lia. reflexivity.
Qed.

Lemma sumf_add : forall f g len, sumf (fun i => f i + g i) len = sumf f len + sumf g len.
Proof. induction len as [|l IH]; simpl; [reflexivity|]. rewrite IH. lia. Qed.

Lemma sumf_zero : forall len, sumf (fun _ => 0) len = 0.
Proof. induction len as [|l IH]; simpl; [reflexivity|]. rewrite IH. reflexivity. Qed.

Lemma sumf_single : forall (g : nat -> Z) a len,
  sumf (fun i => if (i =? a)%nat then g i else 0) len = if (a <? len)%nat then g a else 0.
Proof.
  induction len as [|l IH]; simpl; [reflexivity|].
  rewrite IH. destruct (Nat.eqb_spec l a) as [->|Hne].
  - rewrite Nat.ltb_irrefl. replace (a <? S a)%nat with true by (symmetry; apply Nat.ltb_lt; lia). lia.
  - destruct (Nat.ltb_spec a l); destruct (Nat.ltb_spec a (S l)); try lia.
Qed.

Lemma sumf_nonneg : forall f len, (forall i, (i < len)%nat -> 0 <= f i) -> 0 <= sumf f len.
Proof.
  induction len as [|l IH]; intros H; simpl; [lia|].
  assert (0 <= sumf f l) by (apply IH; intros; apply H; lia). assert (0 <= f l) by (apply H; lia). lia.
Qed.

Lemma sumf_shift : forall (x : Z) t len,
  sumf (getz (x :: t)) (S len) = x + sumf (getz t) len.
Proof.
  induction len as [|l IH].
  - simpl. unfold getz. simpl. lia.
  - change (sumf (getz (x :: t)) (S (S l))) with (sumf (getz (x :: t)) (S l) + getz (x :: t) (S l)).
    rewrite IH. simpl. unfold getz. simpl. lia.
Qed.

Lemma sumf_total : forall n, sumf (getz n) (length n) = total n.
Proof.
  induction n as [|x t IH]; [reflexivity|].
  simpl length. rewrite sumf_shift, IH. reflexivity.
Qed.

(** ** the window *)
Lemma getz_beyond : forall n i, (length n <= i)%nat -> getz n i = 0.
Proof. intros. unfold getz. apply nth_overflow. assumption. Qed.

Lemma getz_guard : forall n a, (if (a <? length n)%nat then getz n a else 0) = getz n a.
Proof. intros. destruct (Nat.ltb_spec a (length n)); [reflexivity|]. symmetry. apply getz_beyond. assumption. Qed.

Lemma window_0 : forall n m, window n m 0 = getz n m.
Proof.
  intros n m. unfold window.
  rewrite sumf_ext with (g := fun i => if (i =? m)%nat then getz n i else 0).
  - rewrite sumf_single. destruct (Nat.ltb_spec m (length n)); [reflexivity|].
    symmetry. apply getz_beyond. assumption.
  - intros i _. unfold within.
    destruct (Nat.eqb_spec i m); destruct (Nat.leb_spec i (m + 0)); destruct (Nat.leb_spec m (i + 0));
      simpl; try reflexivity; lia.
Qed.

Lemma window_S : forall n m k, window n m (S k) = window n m k + ring_add n m (S k).
Proof.
  intros n m k. unfold window, ring_add.
  rewrite sumf_ext with
    (g := fun i => (if within m k i then getz n i else 0) +
                   ((if (i =? m + S k)%nat then getz n i else 0) +
                    (if (i =? m - S k)%nat then (if (S k <=? m)%nat then getz n i else 0) else 0))).
  - rewrite !sumf_add. rewrite (sumf_single (getz n)).
    rewrite (sumf_single (fun i => if (S k <=? m)%nat then getz n i else 0)).
    destruct (S k <=? m)%nat.
    + rewrite (getz_guard n (m - S k)). lia.
    + destruct (m - S k <? length n)%nat; lia.
  - intros i _. unfold within.
    destruct (Nat.leb_spec i (m + S k)); destruct (Nat.leb_spec m (i + S k));
      destruct (Nat.leb_spec i (m + k)); destruct (Nat.leb_spec m (i + k));
      destruct (Nat.eqb_spec i (m + S k)); destruct (Nat.eqb_spec i (m - S k));
      destruct (Nat.leb_spec (S k) m); simpl; try lia.
Qed.

Lemma window_full : forall n m k, (m <= k)%nat -> (length n <= S (m + k))%nat -> window n m k = total n.
Proof.
  intros n m k H1 H2. unfold window. rewrite <- sumf_total. apply sumf_ext.
  intros i Hi. unfold within.
  destruct (Nat.leb_spec i (m + k)); destruct (Nat.leb_spec m (i + k)); simpl; try reflexivity; lia.
Qed.

Definition nonneg (n : list Z) : Prop := Forall (fun x => 0 <= x) n.

Lemma getz_nonneg : forall n i, nonneg n -> 0 <= getz n i.
Proof.
  intros n i H. unfold getz. destruct (Nat.ltb_spec i (length n)).
  - unfold nonneg in H. rewrite Forall_forall in H. apply H. apply nth_In. assumption.
  - rewrite nth_overflow by assumption. lia.
Qed.

Lemma total_nonneg : forall n, nonneg n -> 0 <= total n.
Proof. intros n H. rewrite <- sumf_total. apply sumf_nonneg. intros. apply getz_nonneg. assumption. Qed.

(** the window grows with k (for counts that are not negative) *)
Lemma window_mono : forall n m k, nonneg n -> window n m k <= window n m (S k).
Proof.
  intros n m k H. rewrite window_S. unfold ring_add.
  pose proof (getz_nonneg n (m - S k) H). pose proof (getz_nonneg n (m + S k) H).
  destruct (S k <=? m)%nat; destruct (m + S k <? length n)%nat; lia.
Qed.

(** ** the loop *)
Lemma below_false_iff : forall count conf tot,
  below count conf tot = false <-> (conf * inject_Z tot <= inject_Z count)%Q.
Proof.
  intros. unfold below. rewrite negb_false_iff. apply Qle_bool_iff.
Qed.

Lemma below_true_iff : forall count conf tot,
  below count conf tot = true <-> ~ (conf * inject_Z tot <= inject_Z count)%Q.
Proof.
  intros. rewrite <- below_false_iff. destruct (below count conf tot); split; intros; congruence.
Qed.

Lemma walk_spec : forall n m conf fuel k,
  (exists K, (k <= K)%nat /\ (K <= k + fuel)%nat /\ covers n m conf K) ->
  exists r, walk fuel n m conf (total n) k (window n m k) = Some r /\ (k <= r)%nat /\ (r <= k + fuel)%nat /\
            covers n m conf r /\ (forall j, (k <= j)%nat -> (j < r)%nat -> ~ covers n m conf j).
Proof.
  intros n m conf. induction fuel as [|f IH]; intros k [K (HkK & HKf & Hc)].
  - assert (K = k) by lia. subst K. exists k. simpl.
    replace (below (window n m k) conf (total n)) with false
      by (symmetry; apply below_false_iff; exact Hc).
    repeat split; try lia. exact Hc.
  - simpl. destruct (below (window n m k) conf (total n)) eqn:Hb.
    + apply below_true_iff in Hb.
      assert (K <> k) by (intros ->; apply Hb; exact Hc).
      destruct (IH (S k)) as [r (Hw & Hr1 & Hr2 & Hcr & Hmin)].
      { exists K. repeat split; try lia. exact Hc. }
      exists r. rewrite <- window_S. rewrite Hw. repeat split; try lia; try assumption.
      intros j Hj1 Hj2. destruct (Nat.eq_dec j k) as [->|Hne]; [exact Hb|]. apply Hmin; lia.
    + apply below_false_iff in Hb. exists k. repeat split; try lia. exact Hb.
Qed.

Lemma covers_full : forall n m conf k,
  nonneg n -> (conf <= 1)%Q -> (m <= k)%nat -> (length n <= S (m + k))%nat -> covers n m conf k.
Proof.
  intros n m conf k Hn Hc H1 H2. unfold covers. rewrite window_full by assumption.
  pose proof (total_nonneg n Hn) as Ht.
  assert (0 <= inject_Z (total n))%Q by (unfold Qle; simpl; lia).
  setoid_replace (inject_Z (total n)) with (1 * inject_Z (total n))%Q at 2 by ring.
  apply Qmult_le_compat_r; assumption.
Qed.

(** termination for EVERY start bin m (first and last included), any histogram, conf <= 1:
    fuel len suffices and the result is at most len - 1 *)
Lemma walk_total : forall n m conf,
  nonneg n -> (m < length n)%nat -> (conf <= 1)%Q ->
  exists k, walk (length n) n m conf (total n) 0 (getz n m) = Some k /\ (k <= length n - 1)%nat /\
            covers n m conf k /\ (forall j, (j < k)%nat -> ~ covers n m conf j).
Proof.
  intros n m conf Hn Hm Hc.
  destruct (walk_spec n m conf (length n - 1) 0) as [r (Hw & _ & Hr & Hcr & Hmin)].
  { exists (length n - 1)%nat. repeat split; try lia. apply covers_full; try assumption; lia. }
  exists r. rewrite window_0 in Hw.
  assert (Hfuel : forall f1 f2 k c r', (f1 <= f2)%nat ->
            walk f1 n m conf (total n) k c = Some r' -> walk f2 n m conf (total n) k c = Some r').
  { induction f1 as [|f1 IHf]; intros f2 k c r' Hle Hw1.
    - simpl in Hw1. destruct (below c conf (total n)) eqn:Hb; [discriminate|].
      destruct f2; simpl; rewrite Hb; exact Hw1.
    - destruct f2 as [|f2]; [lia|]. simpl in *. destruct (below c conf (total n)); [|exact Hw1].
      apply IHf; [lia|exact Hw1]. }
  repeat split.
  - apply Hfuel with (f1 := (length n - 1)%nat); [lia|exact Hw].
  - lia.
  - exact Hcr.
  - intros j Hj. apply Hmin; lia.
Qed.

(** ** argmax = index of the first maximum *)
Ltac fin_get Hs :=
  repeat split; try (simpl; lia); try (unfold getz in *; simpl in *; lia);
  try (let j' := fresh "j" in let Hj' := fresh "Hj" in
       intros j' Hj'; destruct j' as [|j']; unfold getz in *; simpl in *; try lia; Hs; lia).

Lemma argmax_aux_spec : forall t i best bv,
  (best < i)%nat ->
  ((argmax_aux t i best bv = best /\ (forall j, (j < length t)%nat -> getz t j <= bv)) \/
   (exists j, (j < length t)%nat /\ argmax_aux t i best bv = (i + j)%nat /\ bv < getz t j /\
              (forall j', (j' < length t)%nat -> getz t j' <= getz t j) /\
              (forall j', (j' < j)%nat -> getz t j' < getz t j))).
Proof.
  induction t as [|x t IH]; intros i best bv Hlt; simpl.
  - left. split; [reflexivity|]. intros j Hj. inversion Hj.
  - destruct (Z.ltb_spec bv x) as [Hbx|Hbx].
    + destruct (IH (S i) i x) as [[Hr Hall]|[j (Hj & Hr & Hgt & Hmax & Hfirst)]]; [lia| |].
      * right. exists 0%nat. rewrite Hr. fin_get ltac:(apply Hall).
      * right. exists (S j). rewrite Hr. fin_get ltac:(first [apply Hmax|apply Hfirst]).
    + destruct (IH (S i) best bv) as [[Hr Hall]|[j (Hj & Hr & Hgt & Hmax & Hfirst)]]; [lia| |].
      * left. rewrite Hr. fin_get ltac:(apply Hall).
      * right. exists (S j). rewrite Hr. fin_get ltac:(first [apply Hmax|apply Hfirst]).
Qed.

Lemma argmax_spec : forall n, n <> [] ->
  (argmax n < length n)%nat /\
  (forall i, (i < length n)%nat -> getz n i <= getz n (argmax n)) /\
  (forall i, (i < argmax n)%nat -> getz n i < getz n (argmax n)).
Proof.
  intros [|x t] Hne; [congruence|]. unfold argmax.
  destruct (argmax_aux_spec t 1 0 x) as [[Hr Hall]|[j (Hj & Hr & Hgt & Hmax & Hfirst)]]; [lia| |].
  - rewrite Hr. fin_get ltac:(apply Hall).
  - rewrite Hr. fin_get ltac:(first [apply Hmax|apply Hfirst]).
Qed.

(** ** the window is the sum the property talks about *)
Lemma window_is_sum : forall n m k,
  window n m k = sumf (fun i => if ((i <=? m + k)%nat && (m <=? i + k)%nat)%bool then getz n i else 0) (length n).
Proof. reflexivity. Qed.

(** ** find_mode *)
Definition is_mode_result (n : list Z) (bins : list Q) (conf : Q) (v e : Q) : Prop :=
  let m := argmax n in
  v = ((qnth bins m + qnth bins (S m)) / 2)%Q /\
  exists k : nat, (k <= length n - 1)%nat /\
    e = (inject_Z (Z.of_nat k) * (qnth bins (S m) - qnth bins m))%Q /\
    covers n m conf k /\ (forall j, (j < k)%nat -> ~ covers n m conf j).

Lemma find_mode_spec : forall n bins conf,
  n <> [] -> nonneg n -> (conf <= 1)%Q ->
  exists v e, find_mode n bins conf = Some (v, e) /\ is_mode_result n bins conf v e.
Proof.
  intros n bins conf Hne Hn Hc.
  destruct (argmax_spec n Hne) as (Hm & _ & _).
  destruct (walk_total n (argmax n) conf Hn Hm Hc) as [k (Hw & Hk & Hcov & Hmin)].
  unfold find_mode, find_mode_k. rewrite Hw.
  eexists. eexists. split; [reflexivity|]. split; [reflexivity|].
  exists k. repeat split; assumption.
Qed.
