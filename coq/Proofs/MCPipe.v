(** Lemmas about the Monte Carlo pipeline (C02): exact square roots, the closed-form Cholesky factor
    for up to three sources, pushing second moments through a linear map, scaling and shifting,
    mean and sample variance. *)
From Coq Require Import List ZArith QArith Qabs Qround Bool Lia Lqa.
From QV Require Import Base.Py Model.MC Proofs.MCState.
Import ListNotations.
Open Scope Q_scope.

(** ** plain sums (the model keeps its sums in lowest terms; they are equal as rationals) *)
Definition psum (l : list Q) : Q := fold_right Qplus 0 l.

Lemma qsum_psum : forall l, qsum l == psum l.
Proof.
  induction l as [|x l IH]; [reflexivity|].
  change (qsum (x :: l)) with (Qred (x + qsum l)). change (psum (x :: l)) with (x + psum l).
  rewrite (Qred_correct (x + qsum l)), IH. reflexivity.
Qed.

Lemma psum_app : forall l m, psum (l ++ m) == psum l + psum m.
Proof. induction l as [|x l IH]; intros m; simpl; [ring|]. rewrite IH. ring. Qed.

Lemma psum_map_ext : forall A (g h : A -> Q) l, (forall x, g x == h x) -> psum (map g l) == psum (map h l).
Proof. intros A g h l H. induction l as [|x l IH]; simpl; [reflexivity|]. rewrite H, IH. reflexivity. Qed.

Lemma psum_map_add : forall A (g h : A -> Q) l, psum (map (fun x => g x + h x) l) == psum (map g l) + psum (map h l).
Proof. intros A g h l. induction l as [|x l IH]; simpl; [ring|]. rewrite IH. ring. Qed.

Lemma psum_map_scale : forall A (g : A -> Q) k l, psum (map (fun x => k * g x) l) == k * psum (map g l).
Proof. intros A g k l. induction l as [|x l IH]; simpl; [ring|]. rewrite IH. ring. Qed.

Lemma psum_map_const : forall A (c : Q) (l : list A), psum (map (fun _ => c) l) == inject_Z (Z.of_nat (length l)) * c.
Proof.
  intros A c l. induction l as [|x l IH]; [simpl; ring|].
  change (psum (map (fun _ => c) (x :: l))) with (c + psum (map (fun _ => c) l)). rewrite IH.
  change (length (x :: l)) with (S (length l)). rewrite Nat2Z.inj_succ. unfold Z.succ. rewrite inject_Z_plus. ring.
Qed.

(** mean and sample variance of the model, in terms of plain sums *)
Definition pmean (l : list Q) : Q := psum l / qlen l.
Definition pvar (l : list Q) : Q := psum (map (fun x => (x - pmean l) * (x - pmean l)) l) / (qlen l - 1).

Lemma mean_pmean : forall l, mean l == pmean l.
Proof. intros. unfold mean, pmean. rewrite (Qred_correct (qsum l / qlen l)), qsum_psum. reflexivity. Qed.

Lemma svar_pvar : forall l, svar l == pvar l.
Proof.
  intros. unfold svar, pvar, sumsq. rewrite (Qred_correct (_ / _)), qsum_psum.
  apply Qdiv_comp; [|reflexivity]. apply psum_map_ext.
  intros x. rewrite (Qred_correct (_ * _)), mean_pmean. reflexivity.
Qed.

Lemma mean_std_two : forall x y l,
  mean_std (x :: y :: l) = mkrep (Some (mean (x :: y :: l))) (ESqrt (svar (x :: y :: l))).
Proof. reflexivity. Qed.

(** ** scaling and shifting *)
Lemma qlen_pos : forall (l : list Q), l <> [] -> 0 < qlen l.
Proof.
  intros l H. unfold qlen. destruct l; [congruence|]. simpl length.
  rewrite Nat2Z.inj_succ. unfold Qlt. simpl. lia.
Qed.

Lemma pmean_affine : forall v s l, l <> [] -> pmean (map (fun o => v + s * o) l) == v + s * pmean l.
Proof.
  intros v s l H. unfold pmean, qlen. rewrite map_length.
  rewrite (psum_map_add Q (fun _ => v) (fun o => s * o)).
  rewrite psum_map_const, (psum_map_scale Q (fun o => o)), map_id.
  pose proof (qlen_pos l H) as Hp. unfold qlen in Hp. field. intros E. rewrite E in Hp. apply (Qlt_irrefl 0). exact Hp.
Qed.

Lemma pvar_affine : forall v s l, l <> [] -> pvar (map (fun o => v + s * o) l) == s * s * pvar l.
Proof.
  intros v s l H. unfold pvar. unfold qlen. rewrite map_length. fold (qlen l).
  rewrite map_map.
  rewrite psum_map_ext with (h := fun o => (s * s) * ((o - pmean l) * (o - pmean l))).
  - rewrite (psum_map_scale Q (fun o => (o - pmean l) * (o - pmean l))).
    unfold Qdiv. ring.
  - intros o. rewrite (pmean_affine v s l H). ring.
Qed.

(** ** weighted sums and dot products *)
Fixpoint wsum (u : list Q) (g : nat -> Q) (off : nat) : Q :=
  match u with
  | [] => 0
  | x :: t => x * g off + wsum t g (S off)
  end.

Lemma wsum_ext : forall u g h off, (forall a, g a == h a) -> wsum u g off == wsum u h off.
Proof. induction u as [|x u IH]; intros g h off H; simpl; [reflexivity|]. rewrite H, (IH g h (S off) H). reflexivity. Qed.

Lemma wsum_add : forall u g h off, wsum u (fun a => g a + h a) off == wsum u g off + wsum u h off.
Proof. induction u as [|x u IH]; intros g h off; simpl; [ring|]. rewrite IH. ring. Qed.

Lemma wsum_scale : forall u g k off, wsum u (fun a => k * g a) off == k * wsum u g off.
Proof. induction u as [|x u IH]; intros g k off; simpl; [ring|]. rewrite IH. ring. Qed.

Lemma wsum_zero : forall u off, wsum u (fun _ => 0) off == 0.
Proof. induction u as [|x u IH]; intros off; simpl; [reflexivity|]. rewrite IH. ring. Qed.

Lemma wsum_shift : forall u g off, wsum u (fun a => g (S a)) off = wsum u g (S off).
Proof. induction u as [|x u IH]; intros g off; simpl; [reflexivity|]. rewrite IH. reflexivity. Qed.

Lemma dot_wsum : forall u c, dot u c == wsum u (qnth c) 0.
Proof.
  induction u as [|x u IH]; intros c; [destruct c; reflexivity|].
  destruct c as [|y c].
  - change (dot (x :: u) []) with 0. change (wsum (x :: u) (qnth []) 0) with (x * qnth [] 0 + wsum u (qnth []) 1).
    rewrite wsum_ext with (h := fun _ => 0) by (intros [|a]; reflexivity). rewrite wsum_zero. unfold qnth. simpl. ring.
  - change (dot (x :: u) (y :: c)) with (Qred (x * y + dot u c)).
    change (wsum (x :: u) (qnth (y :: c)) 0) with (x * y + wsum u (qnth (y :: c)) 1).
    rewrite (Qred_correct (x * y + dot u c)), IH. rewrite <- wsum_shift. reflexivity.
Qed.

Lemma psum_wsum : forall (cols : list (list Q)) u (G : list Q -> nat -> Q) off,
  psum (map (fun c => wsum u (G c) off) cols) == wsum u (fun a => psum (map (fun c => G c a) cols)) off.
Proof.
  induction cols as [|c cols IH]; intros u G off; simpl.
  - rewrite wsum_zero. reflexivity.
  - rewrite IH. rewrite <- wsum_add. reflexivity.
Qed.

(** second moments (times N) of a list of columns *)
Definition mom (cols : list (list Q)) (a b : nat) : Q := psum (map (fun c => qnth c a * qnth c b) cols).

Lemma qnth_matvec : forall L c i, qnth (matvec L c) i = dot (nth i L []) c.
Proof.
  intros L c i. unfold qnth, matvec.
  change 0 with ((fun row => dot row c) []) at 1. apply map_nth.
Qed.

(** second moments of L.Z are L (second moments of Z) L^T -- any matrix, any number of draws *)
Lemma cov_push : forall L cols i j,
  mom (map (matvec L) cols) i j ==
  wsum (nth i L []) (fun a => wsum (nth j L []) (fun b => mom cols a b) 0) 0.
Proof.
  intros L cols i j. unfold mom. rewrite map_map.
  rewrite psum_map_ext with
    (h := fun c => wsum (nth i L []) (fun a => wsum (nth j L []) (fun b => qnth c a * qnth c b) 0) 0).
  - rewrite (psum_wsum cols (nth i L []) (fun c a => wsum (nth j L []) (fun b => qnth c a * qnth c b) 0)).
    apply wsum_ext. intros a.
    apply (psum_wsum cols (nth j L []) (fun c b => qnth c a * qnth c b)).
  - intros c. rewrite !qnth_matvec, !dot_wsum.
    set (W := wsum (nth j L []) (qnth c) 0).
    transitivity (wsum (nth i L []) (fun a => W * qnth c a) 0).
    + rewrite (wsum_scale (nth i L []) (qnth c) W 0). ring.
    + apply wsum_ext. intros a. rewrite (wsum_scale (nth j L []) (qnth c) (qnth c a) 0). unfold W. ring.
Qed.

(** ** exact square roots *)
Lemma qsqrt_spec : forall x r, 0 < x -> qsqrt x = Some r -> r * r == x /\ 0 < r.
Proof.
  intros x r Hx. unfold qsqrt.
  pose proof (Qred_correct x) as Hred. set (y := Qred x) in *.
  destruct (Z.eqb_spec (Z.sqrt (Qnum y) * Z.sqrt (Qnum y)) (Qnum y)) as [Hn|]; cbn [andb]; [|intros; discriminate].
  destruct (Z.eqb_spec (Z.sqrt (Z.pos (Qden y)) * Z.sqrt (Z.pos (Qden y))) (Z.pos (Qden y))) as [Hd|]; cbn [andb]; [|intros; discriminate].
  destruct (Z.ltb_spec 0 (Z.sqrt (Z.pos (Qden y)))) as [Hpos|]; cbn [andb]; [|intros; discriminate].
  intros E. inversion E; subst r; clear E.
  assert (Hy : 0 < y) by (rewrite Hred; exact Hx).
  assert (Hnum : (0 < Qnum y)%Z) by (unfold Qlt in Hy; simpl in Hy; lia).
  split.
  - rewrite <- Hred. unfold Qeq, Qmult. simpl. simpl in Hd. rewrite Hn, Hd. reflexivity.
  - unfold Qlt. simpl. pose proof (Z.sqrt_nonneg (Qnum y)).
    assert (Z.sqrt (Qnum y) <> 0%Z) by (intros E0; rewrite E0 in Hn; simpl in Hn; lia). lia.
Qed.

Lemma positive_iff : forall x, positive x = true <-> 0 < x.
Proof.
  intros x. unfold positive. rewrite negb_true_iff. split.
  - intros H. apply Qnot_le_lt. intros Hle. apply Qle_bool_iff in Hle. congruence.
  - intros H. destruct (Qle_bool x 0) eqn:E; [|reflexivity]. apply Qle_bool_iff in E. exfalso.
    apply (Qlt_irrefl 0). eapply Qlt_le_trans; eassumption.
Qed.

(** ** the closed-form factor *)
Definition pdot (a b : list Q) : Q := wsum a (qnth b) 0.

(** L L^T = C on and below the diagonal (C is symmetric) *)
Definition LLt_eq (k : nat) (L C : matrix) : Prop :=
  forall i j, (j <= i)%nat -> (i < k)%nat -> pdot (nth i L []) (nth j L []) == mget C i j.

Lemma nz_of_pos : forall x, 0 < x -> ~ x == 0.
Proof. intros x H E. rewrite E in H. exact (Qlt_irrefl 0 H). Qed.

Lemma chol2_alg : forall c11 c21 c22 l11 l22 : Q,
  0 < l11 -> 0 < c11 ->
  l11 * l11 == c11 ->
  l22 * l22 == c22 - c21 * c21 / c11 ->
  c21 / l11 * l11 == c21 /\
  c21 / l11 * (c21 / l11) + l22 * l22 == c22.
Proof.
  intros c11 c21 c22 l11 l22 P1 Pc H1 H2.
  pose proof (nz_of_pos _ P1) as N1. pose proof (nz_of_pos _ Pc) as Nc.
  assert (E1 : c21 / l11 * (c21 / l11) == c21 * c21 / c11) by (rewrite <- H1; field; assumption).
  split; [field; assumption|]. rewrite E1, H2. ring.
Qed.

Lemma chol3_alg : forall c11 c21 c22 c31 c32 c33 l11 l22 l33 : Q,
  0 < l11 -> 0 < l22 -> 0 < c11 -> 0 < c22 - c21 * c21 / c11 ->
  l11 * l11 == c11 ->
  l22 * l22 == c22 - c21 * c21 / c11 ->
  l33 * l33 == c33 - c31 * c31 / c11 -
               (c32 - c31 * c21 / c11) * (c32 - c31 * c21 / c11) / (c22 - c21 * c21 / c11) ->
  c21 / l11 * l11 == c21 /\
  c21 / l11 * (c21 / l11) + l22 * l22 == c22 /\
  c31 / l11 * l11 == c31 /\
  c31 / l11 * (c21 / l11) + (c32 - c31 * c21 / c11) / l22 * l22 == c32 /\
  c31 / l11 * (c31 / l11) + (c32 - c31 * c21 / c11) / l22 * ((c32 - c31 * c21 / c11) / l22) + l33 * l33 == c33.
Proof.
  intros c11 c21 c22 c31 c32 c33 l11 l22 l33 P1 P2 Pc Pr H1 H2 H3.
  pose proof (nz_of_pos _ P1) as N1. pose proof (nz_of_pos _ P2) as N2.
  pose proof (nz_of_pos _ Pc) as Nc. pose proof (nz_of_pos _ Pr) as Nr.
  assert (E1 : c21 / l11 * (c21 / l11) == c21 * c21 / c11) by (rewrite <- H1; field; assumption).
  assert (E2 : c31 / l11 * (c21 / l11) == c31 * c21 / c11) by (rewrite <- H1; field; assumption).
  assert (E3 : c31 / l11 * (c31 / l11) == c31 * c31 / c11) by (rewrite <- H1; field; assumption).
  assert (E4 : forall t, t / l22 * (t / l22) == t * t / (c22 - c21 * c21 / c11)).
  { intros t. rewrite <- H2. field. assumption. }
  repeat split.
  - field; assumption.
  - rewrite E1, H2. ring.
  - field; assumption.
  - rewrite E2. field; repeat split; assumption.
  - rewrite E3, E4, H3. ring.
Qed.

Lemma chol_ok : forall k C L, chol k C = CholOk L -> LLt_eq k L C.
Proof.
  intros k C L. destruct k as [|[|[|[|k]]]]; simpl; try discriminate.
  - (* k = 1 *)
    destruct (positive (rad1 C)) eqn:P1; simpl; [|discriminate]. apply positive_iff in P1.
    destruct (qsqrt (rad1 C)) as [l11|] eqn:S1; [|discriminate]. intros E; inversion E; subst L; clear E.
    destruct (qsqrt_spec _ _ P1 S1) as [H1 _].
    intros i j Hji Hi. assert (i = 0%nat) by lia. assert (j = 0%nat) by lia. subst.
    unfold pdot, qnth. simpl. rewrite H1. unfold rad1. ring.
  - (* k = 2 *)
    destruct (positive (rad1 C)) eqn:P1; simpl; [|discriminate]. apply positive_iff in P1.
    destruct (positive (rad2 C)) eqn:P2; simpl; [|discriminate]. apply positive_iff in P2.
    destruct (qsqrt (rad1 C)) as [l11|] eqn:S1; [|discriminate].
    destruct (qsqrt (rad2 C)) as [l22|] eqn:S2; [|discriminate]. intros E; inversion E; subst L; clear E.
    destruct (qsqrt_spec _ _ P1 S1) as [H1 Q1]. destruct (qsqrt_spec _ _ P2 S2) as [H2 Q2].
    unfold rad2, rad1 in *.
    destruct (chol2_alg (mget C 0 0) (mget C 1 0) (mget C 1 1) l11 l22 Q1 P1 H1 H2) as (A1 & A2).
    intros i j Hji Hi.
    destruct i as [|[|i]]; destruct j as [|[|j]]; try lia; unfold pdot, qnth; simpl.
    + rewrite H1. ring.
    + eapply Qeq_trans; [|exact A1]; ring.
    + eapply Qeq_trans; [|exact A2]; ring.
  - (* k = 3 *)
    destruct (positive (rad1 C)) eqn:P1; simpl; [|discriminate]. apply positive_iff in P1.
    destruct (positive (rad2 C)) eqn:P2; simpl; [|discriminate]. apply positive_iff in P2.
    destruct (positive (rad3 C)) eqn:P3; simpl; [|discriminate]. apply positive_iff in P3.
    destruct (qsqrt (rad1 C)) as [l11|] eqn:S1; [|discriminate].
    destruct (qsqrt (rad2 C)) as [l22|] eqn:S2; [|discriminate].
    destruct (qsqrt (rad3 C)) as [l33|] eqn:S3; [|discriminate]. intros E; inversion E; subst L; clear E.
    destruct (qsqrt_spec _ _ P1 S1) as [H1 Q1]. destruct (qsqrt_spec _ _ P2 S2) as [H2 Q2].
    destruct (qsqrt_spec _ _ P3 S3) as [H3 Q3].
    unfold rad3, t32, rad2, rad1 in *.
    destruct (chol3_alg _ _ _ _ _ _ l11 l22 l33 Q1 Q2 P1 P2 H1 H2 H3) as (A1 & A2 & A3 & A4 & A5).
    intros i j Hji Hi.
    destruct i as [|[|[|i]]]; destruct j as [|[|[|j]]]; try lia; unfold pdot, qnth; simpl.
    + rewrite H1. ring.
    + eapply Qeq_trans; [|exact A1]; ring.
    + eapply Qeq_trans; [|exact A2]; ring.
    + eapply Qeq_trans; [|exact A3]; ring.
    + eapply Qeq_trans; [|exact A4]; ring.
    + eapply Qeq_trans; [|exact A5]; ring.
Qed.

(** ** positive definiteness by leading principal minors (Sylvester), symmetric matrix given by its lower part *)
Definition minor1 (C : matrix) : Q := mget C 0 0.
Definition minor2 (C : matrix) : Q := mget C 0 0 * mget C 1 1 - mget C 1 0 * mget C 1 0.
Definition minor3 (C : matrix) : Q :=
  mget C 0 0 * (mget C 1 1 * mget C 2 2 - mget C 2 1 * mget C 2 1)
  - mget C 1 0 * (mget C 1 0 * mget C 2 2 - mget C 2 1 * mget C 2 0)
  + mget C 2 0 * (mget C 1 0 * mget C 2 1 - mget C 1 1 * mget C 2 0).

Definition pd_minors (k : nat) (C : matrix) : Prop :=
  match k with
  | 1%nat => 0 < minor1 C
  | 2%nat => 0 < minor1 C /\ 0 < minor2 C
  | 3%nat => 0 < minor1 C /\ 0 < minor2 C /\ 0 < minor3 C
  | _ => False
  end.

Lemma pos_mult_iff : forall a b, 0 < a -> (0 < a * b <-> 0 < b).
Proof.
  intros a b Ha. split; intros H.
  - destruct (Qlt_le_dec 0 b) as [|Hle]; [assumption|]. exfalso.
    assert (a * b <= 0).
    { setoid_replace 0 with (a * 0) by ring. apply Qmult_le_l; assumption. }
    apply (Qlt_irrefl 0). eapply Qlt_le_trans; eassumption.
  - setoid_replace 0 with (a * 0) by ring. apply Qmult_lt_l; assumption.
Qed.

Lemma minor2_rad : forall C, 0 < rad1 C -> minor2 C == rad1 C * rad2 C.
Proof. intros C H. unfold minor2, rad2, rad1 in *. field. apply nz_of_pos. assumption. Qed.

Lemma minor3_rad : forall C, 0 < rad1 C -> 0 < rad2 C -> minor3 C == rad1 C * rad2 C * rad3 C.
Proof.
  intros C H1 H2. unfold minor3, rad3, t32, rad2, rad1 in *. field.
  split; [apply nz_of_pos; assumption|]. apply nz_of_pos.
  setoid_replace (mget C 1 1 * mget C 0 0 - mget C 1 0 * mget C 1 0)
    with (mget C 0 0 * (mget C 1 1 - mget C 1 0 * mget C 1 0 / mget C 0 0))
    by (field; apply nz_of_pos; assumption).
  apply (proj2 (pos_mult_iff _ _ H1)). assumption.
Qed.

Lemma pd_minors_rads : forall k C, (1 <= k <= 3)%nat ->
  (pd_minors k C <->
   0 < rad1 C /\ ((2 <= k)%nat -> 0 < rad2 C) /\ ((3 <= k)%nat -> 0 < rad3 C)).
Proof.
  intros k C Hk. destruct k as [|[|[|[|k]]]]; try lia; simpl.
  - unfold minor1, rad1. split; [intros H; repeat split; intros; try assumption; try lia|intros [H _]; exact H].
  - split.
    + intros [H1 H2]. change (minor1 C) with (rad1 C) in H1. rewrite (minor2_rad C H1) in H2.
      apply (proj1 (pos_mult_iff (rad1 C) (rad2 C) H1)) in H2. repeat split; intros; try assumption; try lia.
    + intros (H1 & H2 & _). change (minor1 C) with (rad1 C). split; [assumption|].
      rewrite (minor2_rad C H1). apply (proj2 (pos_mult_iff (rad1 C) (rad2 C) H1)). apply H2. lia.
  - split.
    + intros (H1 & H2 & H3). change (minor1 C) with (rad1 C) in H1. rewrite (minor2_rad C H1) in H2.
      pose proof H2 as H2'. apply (proj1 (pos_mult_iff (rad1 C) (rad2 C) H1)) in H2.
      rewrite (minor3_rad C H1 H2) in H3. apply (proj1 (pos_mult_iff (rad1 C * rad2 C) (rad3 C) H2')) in H3.
      repeat split; intros; assumption.
    + intros (H1 & H2 & H3). change (minor1 C) with (rad1 C).
      assert (R2 : 0 < rad2 C) by (apply H2; lia). assert (R3 : 0 < rad3 C) by (apply H3; lia).
      assert (M2 : 0 < rad1 C * rad2 C) by (apply (proj2 (pos_mult_iff (rad1 C) (rad2 C) H1)); assumption).
      split; [assumption|]. split; [rewrite (minor2_rad C H1); assumption|].
      rewrite (minor3_rad C H1 R2). apply (proj2 (pos_mult_iff (rad1 C * rad2 C) (rad3 C) M2)). assumption.
Qed.

(** the factorisation fails exactly when the matrix is not positive definite *)
Lemma chol_notpd_iff : forall k C, (1 <= k <= 3)%nat -> (chol k C = CholNotPD <-> ~ pd_minors k C).
Proof.
  intros k C Hk. rewrite (pd_minors_rads k C Hk).
  destruct k as [|[|[|[|k]]]]; try lia; simpl.
  - destruct (positive (rad1 C)) eqn:P1; simpl.
    + apply positive_iff in P1. split.
      * destruct (qsqrt (rad1 C)); discriminate.
      * intros H. exfalso. apply H. repeat split; intros; try assumption; try lia.
    + split; [|reflexivity]. intros _ (H & _). apply positive_iff in H. congruence.
  - destruct (positive (rad1 C)) eqn:P1; simpl.
    + destruct (positive (rad2 C)) eqn:P2; simpl.
      * apply positive_iff in P1. apply positive_iff in P2. split.
        -- destruct (qsqrt (rad1 C)); destruct (qsqrt (rad2 C)); discriminate.
        -- intros H. exfalso. apply H. repeat split; intros; try assumption; try lia.
      * split; [|reflexivity]. intros _ (_ & H & _). assert (Hp : 0 < rad2 C) by (apply H; lia).
        apply positive_iff in Hp. congruence.
    + split; [|reflexivity]. intros _ (H & _). apply positive_iff in H. congruence.
  - destruct (positive (rad1 C)) eqn:P1; simpl.
    + destruct (positive (rad2 C)) eqn:P2; simpl.
      * destruct (positive (rad3 C)) eqn:P3; simpl.
        -- apply positive_iff in P1. apply positive_iff in P2. apply positive_iff in P3. split.
           ++ destruct (qsqrt (rad1 C)); destruct (qsqrt (rad2 C)); destruct (qsqrt (rad3 C)); discriminate.
           ++ intros H. exfalso. apply H. repeat split; intros; assumption.
        -- split; [|reflexivity]. intros _ (_ & _ & H). assert (Hp : 0 < rad3 C) by (apply H; lia).
           apply positive_iff in Hp. congruence.
      * split; [|reflexivity]. intros _ (_ & H & _). assert (Hp : 0 < rad2 C) by (apply H; lia).
        apply positive_iff in Hp. congruence.
    + split; [|reflexivity]. intros _ (H & _). apply positive_iff in H. congruence.
Qed.

(** ** the pipeline *)
(** the columns the formula is applied to, spelled out *)
Definition offsets_used (C : matrix) (k : nat) (cols : list (list Q)) : list (list Q) :=
  if offdiag_zero C k then cols
  else match chol k C with CholOk L => map (matvec L) cols | _ => cols end.

Lemma compute_samples_spec : forall f C srcs rows N,
  d_samples (compute_samples f C srcs rows N) =
  keep_finite (map (fun c => f (scale_shift srcs c)) (offsets_used C (length srcs) (columns rows N))).
Proof.
  intros. unfold compute_samples, offsets_used, correlate.
  destruct (offdiag_zero C (length srcs)); [reflexivity|].
  destruct (chol (length srcs) C); reflexivity.
Qed.

Lemma compute_samples_fallback : forall f C srcs rows N,
  offdiag_zero C (length srcs) = false -> chol (length srcs) C = CholNotPD ->
  d_warn_pd (compute_samples f C srcs rows N) = true /\
  d_unsup (compute_samples f C srcs rows N) = false /\
  offsets_used C (length srcs) (columns rows N) = columns rows N.
Proof.
  intros f C srcs rows N Ho Hc. unfold compute_samples, offsets_used, correlate. rewrite Ho, Hc. repeat split.
Qed.

Lemma compute_samples_warn_only_notpd : forall f C srcs rows N,
  d_warn_pd (compute_samples f C srcs rows N) = true ->
  offdiag_zero C (length srcs) = false /\ chol (length srcs) C = CholNotPD.
Proof.
  intros f C srcs rows N. unfold compute_samples, correlate.
  destruct (offdiag_zero C (length srcs)); simpl; [discriminate|].
  destruct (chol (length srcs) C); simpl; try discriminate. intros _. split; reflexivity.
Qed.

(** the scale is the uncertainty, never the spread of the readings *)
Lemma scale_shift_ext : forall srcs srcs' c,
  map (fun s => (s_value s, s_error s)) srcs = map (fun s => (s_value s, s_error s)) srcs' ->
  scale_shift srcs c = scale_shift srcs' c.
Proof.
  induction srcs as [|s srcs IH]; intros [|s' srcs'] c H; simpl in H; try discriminate; [reflexivity|].
  inversion H as [[Hv He Hrest]]. destruct c as [|x c]; simpl; [reflexivity|].
  rewrite Hv, He. f_equal. apply IH. exact Hrest.
Qed.

Lemma compute_samples_ignores_std : forall f C srcs srcs' rows N,
  map (fun s => (s_value s, s_error s)) srcs = map (fun s => (s_value s, s_error s)) srcs' ->
  compute_samples f C srcs rows N = compute_samples f C srcs' rows N.
Proof.
  intros f C srcs srcs' rows N H. unfold compute_samples.
  assert (Hl : length srcs = length srcs').
  { rewrite <- (map_length (fun s => (s_value s, s_error s)) srcs), H, map_length. reflexivity. }
  rewrite Hl. destruct (correlate C (length srcs') (columns rows N)) as [[cols w] u].
  f_equal. f_equal. apply map_ext. intros c. f_equal. apply scale_shift_ext. exact H.
Qed.

Lemma qnth_scale_shift : forall srcs c i, (i < length srcs)%nat -> (i < length c)%nat ->
  qnth (scale_shift srcs c) i ==
  s_value (nth i srcs (mksrc 0 0 0)) + s_error (nth i srcs (mksrc 0 0 0)) * qnth c i.
Proof.
  induction srcs as [|s srcs IH]; intros c i Hs Hc; simpl in Hs; [lia|].
  destruct c as [|x c]; simpl in Hc; [lia|]. destruct i as [|i].
  - change (qnth (scale_shift (s :: srcs) (x :: c)) 0) with (Qred (s_value s + s_error s * x)).
    change (nth 0 (s :: srcs) (mksrc 0 0 0)) with s. change (qnth (x :: c) 0) with x. apply Qred_correct.
  - change (qnth (scale_shift (s :: srcs) (x :: c)) (S i)) with (qnth (scale_shift srcs c) i).
    change (nth (S i) (s :: srcs) (mksrc 0 0 0)) with (nth i srcs (mksrc 0 0 0)).
    change (qnth (x :: c) (S i)) with (qnth c i). apply IH; lia.
Qed.

(** a first read with the default strategy and no range: mean and ddof-1 deviation of the finite outcomes *)
Lemma read_fresh_meanstd : forall f C normal s,
  raw s = [] -> strat s = MeanStd -> xr s = None ->
  let N := Z.to_nat (eff_size s) in
  let k := length (srcs s) in
  let Y := d_samples (compute_samples f C (srcs s) (rows_at normal (ncalls s) k N) N) in
  snd (read f C normal s) = mean_std Y /\ raw (fst (read f C normal s)) = Y /\
  ncalls (fst (read f C normal s)) = (ncalls s + k)%nat.
Proof.
  intros f C normal s He Hs Hx. cbv zeta.
  destruct (read_after_empty f C normal s He) as [Hr Hc].
  split; [|split; assumption].
  unfold read. rewrite evaluate_unfold. simpl. rewrite regen_empty by assumption. simpl fst.
  set (Y := d_samples _).
  destruct s as [ar rh hd cm cmo cc stt cf x ow g nc sr un]. simpl in *. subst stt x.
  unfold eval_core, set_caches, set_raw_new, raw. simpl.
  rewrite app_nth2 by lia. rewrite Nat.sub_diag. simpl. reflexivity.
Qed.

Lemma chol_ok_pd : forall k C L, (1 <= k <= 3)%nat -> chol k C = CholOk L -> pd_minors k C.
Proof.
  intros k C L Hk H. destruct (chol_notpd_iff k C Hk) as [_ Hn].
  (* decidable: minors are rationals *)
  rewrite (pd_minors_rads k C Hk).
  destruct k as [|[|[|[|k]]]]; try lia; simpl in H.
  - destruct (positive (rad1 C)) eqn:P1; simpl in H; [|discriminate]. apply positive_iff in P1.
    repeat split; intros; try assumption; lia.
  - destruct (positive (rad1 C)) eqn:P1; simpl in H; [|discriminate]. apply positive_iff in P1.
    destruct (positive (rad2 C)) eqn:P2; simpl in H; [|discriminate]. apply positive_iff in P2.
    repeat split; intros; try assumption; lia.
  - destruct (positive (rad1 C)) eqn:P1; simpl in H; [|discriminate]. apply positive_iff in P1.
    destruct (positive (rad2 C)) eqn:P2; simpl in H; [|discriminate]. apply positive_iff in P2.
    destruct (positive (rad3 C)) eqn:P3; simpl in H; [|discriminate]. apply positive_iff in P3.
    repeat split; intros; assumption.
Qed.

(** ** offsets with identity second moments give draws whose second moments are C *)
Lemma wsum_delta : forall u a n off,
  wsum u (fun b => if (a =? b)%nat then n else 0) off ==
  n * (if (off <=? a)%nat then qnth u (a - off) else 0).
Proof.
  induction u as [|x u IH]; intros a n off.
  - simpl. destruct (off <=? a)%nat; unfold qnth; destruct (a - off)%nat; simpl; ring.
  - change (wsum (x :: u) (fun b => if (a =? b)%nat then n else 0) off)
      with (x * (if (a =? off)%nat then n else 0) + wsum u (fun b => if (a =? b)%nat then n else 0) (S off)).
    rewrite IH.
    destruct (Nat.eqb_spec a off) as [->|Hne].
    + rewrite Nat.leb_refl, Nat.sub_diag.
      replace (S off <=? off)%nat with false by (symmetry; apply Nat.leb_gt; lia).
      unfold qnth. simpl. ring.
    + destruct (Nat.leb_spec off a); destruct (Nat.leb_spec (S off) a); try lia.
      * replace (a - off)%nat with (S (a - S off)) by lia. unfold qnth. simpl. ring.
      * ring.
Qed.

Lemma wsum_ext_lt : forall u g h off,
  (forall a, (off <= a)%nat -> (a < off + length u)%nat -> g a == h a) -> wsum u g off == wsum u h off.
Proof.
  induction u as [|x u IH]; intros g h off H; simpl; [reflexivity|].
  rewrite (H off) by (simpl; lia). rewrite (IH g h (S off)); [reflexivity|].
  intros a Ha1 Ha2. apply H; simpl; lia.
Qed.

(** [d] = number of sources; the rows of L have at most d entries *)
Lemma identity_moments_push : forall L cols n d i j,
  (length (nth i L []) <= d)%nat -> (length (nth j L []) <= d)%nat ->
  (forall a b, (a < d)%nat -> (b < d)%nat -> mom cols a b == if (a =? b)%nat then n else 0) ->
  mom (map (matvec L) cols) i j == n * pdot (nth i L []) (nth j L []).
Proof.
  intros L cols n d i j Hli Hlj Hid. rewrite cov_push.
  rewrite wsum_ext_lt with (h := fun a => n * qnth (nth j L []) a).
  - rewrite wsum_scale. reflexivity.
  - intros a _ Ha.
    rewrite wsum_ext_lt with (h := fun b => if (a =? b)%nat then n else 0).
    + rewrite wsum_delta. simpl. rewrite Nat.sub_0_r. reflexivity.
    + intros b _ Hb. apply Hid; lia.
Qed.

Lemma chol_rows_length : forall k C L i, chol k C = CholOk L -> (length (nth i L []) <= k)%nat.
Proof.
  intros k C L i. destruct k as [|[|[|[|k]]]]; simpl; try discriminate.
  - destruct (positive (rad1 C)); simpl; [|discriminate].
    destruct (qsqrt (rad1 C)); [|discriminate]. intros E; inversion E; subst.
    destruct i as [|[|i]]; simpl; lia.
  - destruct (positive (rad1 C)); simpl; [|discriminate]. destruct (positive (rad2 C)); simpl; [|discriminate].
    destruct (qsqrt (rad1 C)); [|discriminate]. destruct (qsqrt (rad2 C)); [|discriminate].
    intros E; inversion E; subst. destruct i as [|[|[|i]]]; simpl; lia.
  - destruct (positive (rad1 C)); simpl; [|discriminate]. destruct (positive (rad2 C)); simpl; [|discriminate].
    destruct (positive (rad3 C)); simpl; [|discriminate].
    destruct (qsqrt (rad1 C)); [|discriminate]. destruct (qsqrt (rad2 C)); [|discriminate].
    destruct (qsqrt (rad3 C)); [|discriminate].
    intros E; inversion E; subst. destruct i as [|[|[|[|i]]]]; simpl; lia.
Qed.
