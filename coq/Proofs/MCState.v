(** Invariants of the Monte Carlo evaluator / settings state machine (Model/MC.v), proved for
    every finite history of operations; numpy.random.normal is an arbitrary oracle stream. *)
From Coq Require Import List ZArith QArith Qabs Qround Bool Lia.
From QV Require Import Base.Py Model.MC Proofs.MCMode.
Import ListNotations.
Open Scope Q_scope.

(** ** list helpers *)
Lemma upd_length : forall A (l : list A) i x, length (upd l i x) = length l.
Proof. induction l as [|y l IH]; intros [|i] x; simpl; try reflexivity. rewrite IH. reflexivity. Qed.

Lemma nth_upd_other : forall A (l : list A) i j x d, i <> j -> nth j (upd l i x) d = nth j l d.
Proof.
  induction l as [|y l IH]; intros i j x d Hne; [destruct i; reflexivity|].
  destruct i as [|i]; destruct j as [|j]; simpl; try reflexivity; try congruence.
  apply IH. congruence.
Qed.

Lemma nth_upd_same : forall A (l : list A) i x d, (i < length l)%nat -> nth i (upd l i x) d = x.
Proof.
  induction l as [|y l IH]; intros [|i] x d Hlt; simpl in *; try lia; try reflexivity.
  apply IH. lia.
Qed.

Lemma keep_finite_all : forall (g : list Q -> option Q) (cols : list (list Q)),
  (forall c, g c <> None) -> length (keep_finite (map g cols)) = length cols.
Proof.
  intros g cols Htot. induction cols as [|c cols IH]; [reflexivity|].
  simpl. destruct (g c) eqn:E; [simpl; rewrite IH; reflexivity|]. exfalso. exact (Htot c E).
Qed.

Lemma columns_length : forall rows N, length (columns rows N) = N.
Proof. intros. unfold columns. rewrite map_length, seq_length. reflexivity. Qed.

Lemma correlate_length : forall C k cols, length (fst (fst (correlate C k cols))) = length cols.
Proof.
  intros C k cols. unfold correlate. destruct (offdiag_zero C k); [reflexivity|].
  destruct (chol k C); simpl; try reflexivity. apply map_length.
Qed.

(** a formula defined on every draw keeps all N outcomes *)
Lemma compute_samples_total : forall f C srcs rows N,
  (forall x, f x <> None) -> length (d_samples (compute_samples f C srcs rows N)) = N.
Proof.
  intros f C srcs rows N Htot. unfold compute_samples.
  pose proof (correlate_length C (length srcs) (columns rows N)) as Hl.
  destruct (correlate C (length srcs) (columns rows N)) as [[cols wpd] unsup]. simpl in *.
  rewrite keep_finite_all with (g := fun c => f (scale_shift srcs c)).
  - rewrite Hl. apply columns_length.
  - intros c. apply Htot.
Qed.

Section Machine.
  Variable f : list Q -> option Q.
  Variable C : matrix.
  Variable normal : nat -> nat -> list Q.

  (** the offset rows requested by a draw that starts at call index i *)
  Definition rows_at (i k N : nat) : list (list Q) := map (fun j => normal (i + j) N) (seq 0 k).

  (** every simulation yields at least one finite outcome *)
  Definition productive : Prop :=
    forall srcs0 i N, (0 < N)%nat ->
      d_samples (compute_samples f C srcs0 (rows_at i (length srcs0) N) N) <> [].

  Lemma total_productive : (forall x, f x <> None) -> productive.
  Proof.
    intros Htot srcs0 i N HN E.
    pose proof (compute_samples_total f C srcs0 (rows_at i (length srcs0) N) N Htot) as Hl.
    rewrite E in Hl. simpl in Hl. lia.
  Qed.

  Record Inv (s : st) : Prop := mkInv {
    I_raw : (raw_h s < length (arrays s))%nat;
    I_handed : Forall (fun h => (h < length (arrays s))%nat /\ h <> raw_h s) (handed s);
    I_mean : forall r, c_mean s = Some r -> r = mean_std (restrict (xr s) (raw s));
    I_mode : forall r, c_mode s = Some r -> r = mode_rep (raw s) (conf s);
    I_conf : 0 <= conf s /\ conf s <= 1;
    I_size : (0 < gsz s)%Z /\ (0 <= own s)%Z
  }.

  Lemma init_inv : forall srcs0 g, (0 < g)%Z -> Inv (init srcs0 g).
  Proof.
    intros srcs0 g Hg. constructor; simpl; try (intros; discriminate); try lia; auto.
    split; unfold Qle; simpl; lia.
  Qed.

  Lemma eff_size_pos : forall s, Inv s -> (0 < eff_size s)%Z.
  Proof.
    intros s H. destruct (I_size s H) as [Hg Ho]. unfold eff_size.
    destruct (Z.eqb_spec (own s) 0); lia.
  Qed.

  (** *** regenerate_samples *)
  Lemma regen_nonempty : forall s, raw s <> [] -> regen f C normal s = (s, nowarn).
  Proof. intros s H. unfold regen. destruct (raw s); [congruence|reflexivity]. Qed.

  Lemma raw_set_raw_new : forall s a c u, raw (set_raw_new s a c u) = a.
  Proof.
    intros. unfold raw, set_raw_new. simpl. rewrite app_nth2 by lia. rewrite Nat.sub_diag. reflexivity.
  Qed.

  Lemma regen_empty : forall s, raw s = [] ->
    let N := Z.to_nat (eff_size s) in
    let d := compute_samples f C (srcs s) (rows_at (ncalls s) (length (srcs s)) N) N in
    regen f C normal s =
      (set_caches (set_raw_new s (d_samples d) (ncalls s + length (srcs s)) (d_unsup d)) None None (c_custom s),
       (d_warn_pd d, warn10 (length (d_samples d)) (gsz s))).
  Proof. intros s H. unfold regen. rewrite H. reflexivity. Qed.

  Lemma Forall_handed_app : forall s a,
    Inv s ->
    Forall (fun h => (h < length (arrays s ++ [a]))%nat /\ h <> length (arrays s)) (handed s).
  Proof.
    intros s a H. pose proof (I_handed s H) as Hh. rewrite Forall_forall in *.
    intros h Hin. destruct (Hh h Hin) as [Hlt _]. rewrite app_length. simpl. lia.
  Qed.

  Lemma raw_set_caches : forall s a b c, raw (set_caches s a b c) = raw s.
  Proof. reflexivity. Qed.

  Lemma regen_inv : forall s, Inv s -> Inv (fst (regen f C normal s)).
  Proof.
    intros s H. destruct (raw s) eqn:E.
    - rewrite regen_empty by exact E. simpl fst.
      constructor; try rewrite raw_set_caches; try rewrite raw_set_raw_new; simpl.
      + rewrite app_length. simpl. lia.
      + apply Forall_handed_app. exact H.
      + intros r Hr. discriminate.
      + intros r Hr. discriminate.
      + exact (I_conf s H).
      + exact (I_size s H).
    - rewrite regen_nonempty by (rewrite E; discriminate). exact H.
  Qed.

  (** a productive simulation leaves a non-empty sample set *)
  Lemma regen_productive : forall s, productive -> Inv s -> raw (fst (regen f C normal s)) <> [].
  Proof.
    intros s Hprod H. destruct (raw s) eqn:E.
    - rewrite regen_empty by exact E. simpl fst. rewrite raw_set_caches, raw_set_raw_new.
      apply Hprod. pose proof (eff_size_pos s H). lia.
    - rewrite regen_nonempty by (rewrite E; discriminate). simpl. rewrite E. discriminate.
  Qed.

  (** *** primitive updates keep the invariant *)
  Lemma inv_set_strat : forall s x, Inv s -> Inv (set_strat s x).
  Proof. intros s x H. destruct H. constructor; assumption. Qed.

  Lemma inv_set_own : forall s z, (0 <= z)%Z -> Inv s -> Inv (set_own s z).
  Proof. intros s z Hz H. destruct H. constructor; try assumption. simpl. lia. Qed.

  Lemma inv_set_gsz : forall s z, (0 < z)%Z -> Inv s -> Inv (set_gsz s z).
  Proof. intros s z Hz H. destruct H. constructor; try assumption. simpl. lia. Qed.

  Lemma inv_set_srcs : forall s l, Inv s -> Inv (set_srcs s l).
  Proof. intros s l H. destruct H. constructor; assumption. Qed.

  Lemma inv_set_custom : forall s c, Inv s -> Inv (set_caches s (c_mean s) (c_mode s) c).
  Proof. intros s c H. destruct H. constructor; assumption. Qed.

  Lemma inv_drop_caches : forall s, Inv s -> Inv (set_caches s None None None).
  Proof.
    intros s H. destruct H. constructor; try assumption; simpl; try (intros; discriminate).
  Qed.

  Lemma inv_set_xr_clear : forall s r, Inv s -> Inv (set_caches (set_xr s r) None None None).
  Proof.
    intros s r H. destruct H. constructor; try assumption; simpl; try (intros; discriminate).
  Qed.

  Lemma inv_set_conf_pop : forall s x, 0 <= x -> x <= 1 -> Inv s ->
    Inv (set_caches (set_conf s x) (c_mean s) None (c_custom s)).
  Proof.
    intros s x H0 H1 H. destruct H as [A B Cm D F G]. constructor; try assumption; simpl.
    - intros; discriminate.
    - auto.
  Qed.

  Lemma raw_clear : forall s, raw (clear s) = [].
  Proof. intros. unfold clear. change (raw (set_raw_new s [] (ncalls s) false) = []). apply raw_set_raw_new. Qed.

  Lemma inv_clear : forall s, Inv s -> Inv (clear s).
  Proof.
    intros s H. constructor; try rewrite raw_clear; simpl; try (intros; discriminate).
    - rewrite app_length. simpl. lia.
    - apply Forall_handed_app. exact H.
    - exact (I_conf s H).
    - exact (I_size s H).
  Qed.

  Lemma raw_hand_out : forall s a, Inv s -> raw (hand_out s a) = raw s.
  Proof. intros s a H. unfold raw, hand_out. simpl. apply app_nth1. exact (I_raw s H). Qed.

  Lemma inv_hand_out : forall s a, Inv s -> Inv (hand_out s a).
  Proof.
    intros s a H. pose proof (raw_hand_out s a H) as Hr.
    constructor; try rewrite Hr; try (destruct H; assumption).
    - simpl. rewrite app_length. simpl. pose proof (I_raw s H). lia.
    - simpl. apply Forall_app. split.
      + pose proof (I_handed s H) as Hh. rewrite Forall_forall in *. intros h Hin.
        destruct (Hh h Hin). rewrite app_length. simpl. split; [lia|assumption].
      + constructor; [|constructor]. rewrite app_length. simpl. pose proof (I_raw s H). lia.
  Qed.

  Lemma raw_mutate : forall s h a, Inv s -> In h (handed s) ->
    raw (set_arrays s (upd (arrays s) h a)) = raw s.
  Proof.
    intros s h a H Hin. unfold raw. simpl. apply nth_upd_other.
    pose proof (I_handed s H) as Hh. rewrite Forall_forall in Hh. destruct (Hh h Hin). assumption.
  Qed.

  Lemma inv_mutate : forall s h a, Inv s -> In h (handed s) -> Inv (set_arrays s (upd (arrays s) h a)).
  Proof.
    intros s h a H Hin. pose proof (raw_mutate s h a H Hin) as Hr.
    constructor; try rewrite Hr; try (destruct H; assumption); simpl.
    - rewrite upd_length. exact (I_raw s H).
    - rewrite upd_length. exact (I_handed s H).
  Qed.

  (** *** the confidence setter *)
  Lemma do_set_conf_inv : forall s c, Inv s -> Inv (fst (do_set_conf s c)).
  Proof.
    intros s c H. unfold do_set_conf.
    destruct (isinstance1 c T_real); simpl; [|exact H].
    destruct (num_of c) as [x|]; simpl; [|exact H].
    destruct (Qle_bool x 1) eqn:E1; simpl; [|exact H].
    destruct (Qle_bool 0 x) eqn:E0; simpl; [|exact H].
    apply inv_set_conf_pop; [apply Qle_bool_iff; exact E0|apply Qle_bool_iff; exact E1|exact H].
  Qed.

  Lemma do_set_conf_error : forall s c e, snd (do_set_conf s c) = Some e -> fst (do_set_conf s c) = s.
  Proof.
    intros s c e. unfold do_set_conf.
    destruct (isinstance1 c T_real); simpl; [|reflexivity].
    destruct (num_of c) as [x|]; simpl; [|reflexivity].
    destruct (negb (Qle_bool x 1) || negb (Qle_bool 0 x)); simpl; [reflexivity|discriminate].
  Qed.

  Lemma do_set_conf_raw : forall s c, raw (fst (do_set_conf s c)) = raw s.
  Proof.
    intros s c. unfold do_set_conf.
    destruct (isinstance1 c T_real); simpl; [|reflexivity].
    destruct (num_of c) as [x|]; simpl; [|reflexivity].
    destruct (negb (Qle_bool x 1) || negb (Qle_bool 0 x)); reflexivity.
  Qed.

  Lemma do_set_conf_calls : forall s c, ncalls (fst (do_set_conf s c)) = ncalls s.
  Proof.
    intros s c. unfold do_set_conf.
    destruct (isinstance1 c T_real); simpl; [|reflexivity].
    destruct (num_of c) as [x|]; simpl; [|reflexivity].
    destruct (negb (Qle_bool x 1) || negb (Qle_bool 0 x)); reflexivity.
  Qed.

  (** *** evaluate *)
  Definition eval_core (s1 : st) : st :=
    let s2 := match strat s1, c_custom s1 with
              | Custom, None => set_strat s1 MeanStd
              | _, _ => s1 end in
    let s3 := match strat s2, c_mean s2 with
              | MeanStd, None => set_caches s2 (Some (mean_std (restrict (xr s2) (raw s2)))) (c_mode s2) (c_custom s2)
              | _, _ => s2 end in
    match strat s3, c_mode s3 with
    | Mode, None => set_caches s3 (c_mean s3) (Some (mode_rep (raw s3) (conf s3))) (c_custom s3)
    | _, _ => s3 end.

  Lemma evaluate_unfold : forall s,
    evaluate f C normal s =
      (eval_core (fst (regen f C normal s)),
       match cache_of (eval_core (fst (regen f C normal s))) (strat (eval_core (fst (regen f C normal s)))) with
       | Some r => r | None => mkrep None EUndef end,
       snd (regen f C normal s)).
  Proof. intros s. unfold evaluate, eval_core. destruct (regen f C normal s) as [s1 w]. reflexivity. Qed.

  Ltac destr_st s :=
    destruct s as [ar rh hd cm cmo cc stt cf x ow g nc sr un].

  Lemma eval_core_raw : forall s, raw (eval_core s) = raw s.
  Proof. intros s. destr_st s. unfold eval_core, raw. simpl. destruct stt, cc, cm, cmo; reflexivity. Qed.

  Lemma eval_core_fields : forall s,
    ncalls (eval_core s) = ncalls s /\ xr (eval_core s) = xr s /\ conf (eval_core s) = conf s /\
    own (eval_core s) = own s /\ gsz (eval_core s) = gsz s /\ srcs (eval_core s) = srcs s /\
    arrays (eval_core s) = arrays s /\ raw_h (eval_core s) = raw_h s /\ handed (eval_core s) = handed s /\
    c_custom (eval_core s) = c_custom s.
  Proof.
    intros s. destr_st s. unfold eval_core. simpl. destruct stt, cc, cm, cmo; simpl; repeat split; reflexivity.
  Qed.

  Lemma eval_core_inv : forall s, Inv s -> Inv (eval_core s).
  Proof.
    intros s H. destr_st s. destruct H as [A B Cm D F G]. unfold eval_core, raw in *. simpl in *.
    destruct stt, cc, cm, cmo; simpl; constructor; unfold raw; simpl; try assumption;
      try (let rr := fresh "rr" in intros rr Hr; try discriminate;
           try (injection Hr as <-; first [reflexivity | apply Cm; reflexivity | apply D; reflexivity])).
  Qed.

  (** what a read reports, by the strategy in force after the read *)
  Lemma eval_core_reports : forall s, Inv s ->
    let s' := eval_core s in
    let r := match cache_of s' (strat s') with Some r => r | None => mkrep None EUndef end in
    match strat s' with
    | MeanStd => r = mean_std (restrict (xr s') (raw s'))
    | Mode => r = mode_rep (raw s') (conf s')
    | Custom => c_custom s = Some r
    end.
  Proof.
    intros s H. destr_st s. destruct H as [A B Cm D F G]. unfold eval_core, raw in *. simpl in *.
    destruct stt, cc, cm, cmo; simpl; try reflexivity;
      first [apply Cm; reflexivity | apply D; reflexivity].
  Qed.

  (** *** one operation *)
  Definition step_st (s : st) (x : op) : st := fst (fst (step f C normal s x)).

  Lemma nth_error_In' : forall A (l : list A) n x, nth_error l n = Some x -> In x l.
  Proof. intros. eapply nth_error_In. eassumption. Qed.

  Lemma step_inv : forall s x, Inv s -> Inv (step_st s x).
  Proof.
    intros s x H. unfold step_st.
    pose proof (regen_inv s H) as H1.
    destruct x; simpl.
    - (* ReadValue *) rewrite evaluate_unfold. simpl. apply eval_core_inv; assumption.
    - rewrite evaluate_unfold. simpl. apply eval_core_inv; assumption.
    - (* SetConfidence *)
      destruct (regen f C normal s) as [s1 w]. simpl in *.
      pose proof (do_set_conf_inv s1 c H1). destruct (do_set_conf s1 c). simpl in *. assumption.
    - (* SetRange *)
      destruct (regen f C normal s) as [s1 w]. simpl in *.
      destruct args as [|a [|b rest]]; simpl; [apply inv_set_xr_clear; assumption|assumption|].
      destruct (is_real a && is_real b); simpl; [|assumption].
      destruct (Qle_bool (numq a) (numq b)); simpl; [|assumption].
      apply inv_set_xr_clear; assumption.
    - (* UseMode *)
      destruct (regen f C normal s) as [s1 w]. simpl in *.
      destruct (truthy c); simpl; [|apply inv_set_strat; assumption].
      pose proof (do_set_conf_inv s1 c H1).
      destruct (do_set_conf s1 c) as [s2 [e|]]; simpl in *; [assumption|apply inv_set_strat; assumption].
    - (* UseMeanStd *)
      destruct (regen f C normal s) as [s1 w]. simpl in *. apply inv_set_strat; assumption.
    - (* UseCustom *)
      destruct (regen f C normal s) as [s1 w]. simpl in *.
      destruct (is_real v); simpl; [|assumption].
      destruct (is_real e); simpl; [|assumption].
      destruct (Qle_bool 0 (numq e)); simpl; [|assumption].
      apply (inv_set_custom (set_strat s1 Custom)). apply inv_set_strat; assumption.
    - (* SetSampleSize *)
      destruct (regen f C normal s) as [s1 w]. simpl in *.
      destruct k; simpl; try assumption.
      + apply inv_clear. apply inv_set_own; [destruct b; lia|assumption].
      + destruct (Z.ltb_spec z 0); simpl; [assumption|]. apply inv_clear. apply inv_set_own; assumption.
    - (* ResetSampleSize *)
      destruct (regen f C normal s) as [s1 w]. simpl in *. apply inv_clear. apply inv_set_own; [lia|assumption].
    - (* Recalc *) apply inv_clear; assumption.
    - (* Samples *)
      destruct (regen f C normal s) as [s1 w]. simpl in *. apply inv_hand_out; assumption.
    - (* Inspect *)
      destruct (regen f C normal s) as [s1 w]. simpl in *. assumption.
    - (* Mutate *)
      destruct (nth_error (handed s) j) as [h|] eqn:E; [|assumption].
      apply inv_mutate; [assumption|]. eapply nth_error_In'. eassumption.
    - (* SetGlobalSize *)
      destruct (Z.ltb_spec 0 g); simpl; [apply inv_set_gsz; assumption|assumption].
    - (* SetSrc *) apply inv_set_srcs; assumption.
  Qed.

  Lemma run_inv : forall ops s, Inv s -> Inv (run f C normal ops s).
  Proof.
    induction ops as [|x ops IH]; intros s H; simpl; [exact H|].
    apply IH. apply (step_inv s x H).
  Qed.

  (** ** C16_mean_std / mode / custom: what a read reports *)
  Definition read (s : st) : st * rep := fst (evaluate f C normal s).

  Lemma read_reports : forall s, Inv s ->
    let '(s', r) := read s in
    Inv s' /\ (raw s <> [] -> raw s' = raw s) /\
    match strat s' with
    | MeanStd => r = mean_std (restrict (xr s') (raw s'))
    | Mode => r = mode_rep (raw s') (conf s')
    | Custom => c_custom s' = Some r
    end.
  Proof.
    intros s H. unfold read. rewrite evaluate_unfold. simpl.
    pose proof (regen_inv s H) as H1.
    set (s1 := fst (regen f C normal s)) in *.
    split; [apply eval_core_inv; assumption|].
    split.
    - intros Hs. rewrite eval_core_raw. unfold s1. rewrite regen_nonempty by assumption. reflexivity.
    - pose proof (eval_core_reports s1 H1) as Hr. simpl in Hr.
      destruct (strat (eval_core s1)); try assumption.
      destruct (eval_core_fields s1) as (_ & _ & _ & _ & _ & _ & _ & _ & _ & Hc). rewrite Hc. assumption.
  Qed.

  (** a second read changes nothing: same state, same numbers *)
  Lemma read_stable : forall s, Inv s -> raw (fst (read s)) <> [] ->
    read (fst (read s)) = (fst (read s), snd (read s)).
  Proof.
    intros s H Hne. unfold read in *. rewrite (evaluate_unfold (fst (fst (evaluate f C normal s)))).
    rewrite evaluate_unfold in *. simpl in *.
    set (s1 := fst (regen f C normal s)) in *.
    rewrite regen_nonempty by assumption. simpl.
    assert (Hidem : eval_core (eval_core s1) = eval_core s1).
    { clear. destr_st s1. unfold eval_core. simpl. destruct stt, cc, cm, cmo; reflexivity. }
    rewrite Hidem. reflexivity.
  Qed.

  (** ** C16_same_samples *)
  Definition preserving (x : op) : bool :=
    match x with
    | Recalc | ResetSampleSize => false
    | SetSampleSize (PInt z) => (z <? 0)%Z
    | SetSampleSize (PBool _) => false
    | _ => true
    end.

  Lemma step_preserves_samples : forall s x, Inv s -> raw s <> [] -> preserving x = true ->
    raw (step_st s x) = raw s /\ ncalls (step_st s x) = ncalls s.
  Proof.
    intros s x H Hne Hp. unfold step_st.
    destruct x; simpl in *; try discriminate;
      try (rewrite evaluate_unfold; simpl; rewrite regen_nonempty by assumption; simpl;
           rewrite eval_core_raw; destruct (eval_core_fields s) as (Hc & _); rewrite Hc; split; reflexivity);
      try rewrite regen_nonempty by assumption; simpl.
    - pose proof (do_set_conf_raw s c). pose proof (do_set_conf_calls s c).
      destruct (do_set_conf s c). simpl in *. split; assumption.
    - destruct args as [|a [|b rest]]; simpl; try (split; reflexivity).
      destruct (is_real a && is_real b); simpl; [|split; reflexivity].
      destruct (Qle_bool (numq a) (numq b)); simpl; split; reflexivity.
    - destruct (truthy c); simpl; [|split; reflexivity].
      pose proof (do_set_conf_raw s c). pose proof (do_set_conf_calls s c).
      destruct (do_set_conf s c) as [s2 [e|]]; simpl in *; split; assumption.
    - split; reflexivity.
    - destruct (is_real v); simpl; [|split; reflexivity].
      destruct (is_real e); simpl; [|split; reflexivity].
      destruct (Qle_bool 0 (numq e)); simpl; split; reflexivity.
    - destruct k; simpl; try discriminate; try (split; reflexivity).
      rewrite Hp. simpl. split; reflexivity.
    - split; [apply raw_hand_out; assumption|reflexivity].
    - split; reflexivity.
    - destruct (nth_error (handed s) j) as [h|] eqn:E; [|split; reflexivity].
      split; [|reflexivity]. apply raw_mutate; [assumption|]. eapply nth_error_In'. eassumption.
    - destruct (0 <? g)%Z; split; reflexivity.
    - split; reflexivity.
  Qed.

  (** the oracle stream is consumed forwards only: no call index is ever used twice *)
  Lemma regen_calls_mono : forall s, (ncalls s <= ncalls (fst (regen f C normal s)))%nat.
  Proof.
    intros s. unfold regen. destruct (raw s); simpl; lia.
  Qed.

  Lemma clear_calls : forall s, ncalls (clear s) = ncalls s.
  Proof. reflexivity. Qed.

  Lemma step_calls_mono : forall s x, (ncalls s <= ncalls (step_st s x))%nat.
  Proof.
    intros s x. unfold step_st. pose proof (regen_calls_mono s) as Hm.
    destruct x; simpl;
      try (rewrite evaluate_unfold; simpl; destruct (eval_core_fields (fst (regen f C normal s))) as (Hc & _);
           rewrite Hc; exact Hm);
      try (destruct (regen f C normal s) as [s1 w]; simpl in * ).
    - pose proof (do_set_conf_calls s1 c). destruct (do_set_conf s1 c). simpl in *. lia.
    - destruct args as [|a [|b rest]]; simpl; try lia.
      destruct (is_real a && is_real b); simpl; [|lia].
      destruct (Qle_bool (numq a) (numq b)); simpl; lia.
    - destruct (truthy c); simpl; [|lia].
      pose proof (do_set_conf_calls s1 c). destruct (do_set_conf s1 c) as [s2 [e|]]; simpl in *; lia.
    - lia.
    - destruct (is_real v); simpl; [|lia]. destruct (is_real e); simpl; [|lia].
      destruct (Qle_bool 0 (numq e)); simpl; lia.
    - destruct k; simpl; try lia. destruct (z <? 0)%Z; simpl; lia.
    - lia.
    - lia.
    - lia.
    - lia.
    - destruct (nth_error (handed s) j); simpl; lia.
    - destruct (0 <? g)%Z; simpl; lia.
    - lia.
  Qed.

  (** Recalc and an accepted sample-size assignment empty the store; the next read draws anew *)
  Definition redrawing (x : op) : bool :=
    match x with
    | Recalc | ResetSampleSize => true
    | SetSampleSize (PInt z) => (0 <=? z)%Z
    | _ => false
    end.

  Lemma regen_fields : forall s,
    gsz (fst (regen f C normal s)) = gsz s /\ srcs (fst (regen f C normal s)) = srcs s /\
    own (fst (regen f C normal s)) = own s /\ strat (fst (regen f C normal s)) = strat s /\
    conf (fst (regen f C normal s)) = conf s /\ xr (fst (regen f C normal s)) = xr s.
  Proof. intros s. unfold regen. destruct (raw s); simpl; repeat split; reflexivity. Qed.

  Lemma step_redraw_empties : forall s x, redrawing x = true ->
    raw (step_st s x) = [] /\
    own (step_st s x) = match x with SetSampleSize (PInt z) => z | ResetSampleSize => 0%Z | _ => own s end /\
    gsz (step_st s x) = gsz s /\ srcs (step_st s x) = srcs s /\ (ncalls s <= ncalls (step_st s x))%nat.
  Proof.
    intros s x Hr. pose proof (step_calls_mono s x) as Hm.
    destruct (regen_fields s) as (Hg & Hs & Ho & _).
    unfold step_st in *.
    destruct x; simpl in *; try discriminate.
    - destruct k; try discriminate.
      destruct (regen f C normal s) as [s1 w]. simpl in *.
      replace (z <? 0)%Z with false in * by (symmetry; apply Z.ltb_ge; apply Z.leb_le; exact Hr).
      simpl in *. rewrite raw_clear. repeat split; try reflexivity; try assumption.
    - destruct (regen f C normal s) as [s1 w]. simpl in *.
      rewrite raw_clear. repeat split; try reflexivity; try assumption.
    - rewrite raw_clear. repeat split; try reflexivity; try lia.
  Qed.

  Lemma read_after_empty : forall s, raw s = [] ->
    let N := Z.to_nat (eff_size s) in
    let k := length (srcs s) in
    let s' := fst (read s) in
    raw s' = d_samples (compute_samples f C (srcs s) (rows_at (ncalls s) k N) N) /\
    ncalls s' = (ncalls s + k)%nat.
  Proof.
    intros s He. unfold read. rewrite evaluate_unfold. simpl.
    rewrite eval_core_raw. destruct (eval_core_fields (fst (regen f C normal s))) as (Hc & _). rewrite Hc.
    rewrite regen_empty by assumption. simpl. rewrite raw_set_caches, raw_set_raw_new. split; reflexivity.
  Qed.

  (** |S| = effective sample size when the formula is defined on every draw *)
  Lemma read_after_empty_size : forall s, (forall x, f x <> None) -> raw s = [] ->
    length (raw (fst (read s))) = Z.to_nat (eff_size s).
  Proof.
    intros s Htot He. destruct (read_after_empty s He) as [Hr _]. rewrite Hr.
    apply compute_samples_total. exact Htot.
  Qed.

  (** ** C16_custom *)
  Definition keeps_custom (x : op) : bool :=
    match x with
    | ReadValue | ReadError | SetConfidence _ | Samples | Inspect | Mutate _ _ _
    | SetGlobalSize _ | SetSrc _ _ _ => true
    | _ => false
    end.

  Definition custom_in_force (s : st) (r : rep) : Prop := strat s = Custom /\ c_custom s = Some r.

  Lemma do_set_conf_custom : forall s c r, custom_in_force s r -> custom_in_force (fst (do_set_conf s c)) r.
  Proof.
    intros s c r [Hs Hc]. unfold do_set_conf.
    destruct (isinstance1 c T_real); simpl; [|split; assumption].
    destruct (num_of c) as [x|]; simpl; [|split; assumption].
    destruct (negb (Qle_bool x 1) || negb (Qle_bool 0 x)); simpl; split; assumption.
  Qed.

  Lemma regen_custom : forall s r, custom_in_force s r -> custom_in_force (fst (regen f C normal s)) r.
  Proof. intros s r [Hs Hc]. unfold regen. destruct (raw s); simpl; split; assumption. Qed.

  Lemma eval_core_custom : forall s r, custom_in_force s r ->
    custom_in_force (eval_core s) r /\ cache_of (eval_core s) (strat (eval_core s)) = Some r.
  Proof.
    intros s r [Hs Hc]. destr_st s. unfold eval_core, custom_in_force. simpl in *. subst stt cc. simpl.
    repeat split; reflexivity.
  Qed.

  Lemma step_keeps_custom : forall s x r, keeps_custom x = true -> custom_in_force s r ->
    custom_in_force (step_st s x) r.
  Proof.
    intros s x r Hk Hc. unfold step_st. pose proof (regen_custom s r Hc) as H1.
    destruct x; simpl in *; try discriminate;
      try (rewrite evaluate_unfold; simpl; apply eval_core_custom; assumption);
      try (destruct (regen f C normal s) as [s1 w]; simpl in * ).
    - pose proof (do_set_conf_custom s1 c r H1). destruct (do_set_conf s1 c). simpl in *. assumption.
    - destruct H1. split; assumption.
    - assumption.
    - destruct Hc. destruct (nth_error (handed s) j); simpl; split; assumption.
    - destruct Hc. destruct (0 <? g)%Z; simpl; split; assumption.
    - destruct Hc. split; assumption.
  Qed.

  Lemma run_keeps_custom : forall ops s r, forallb keeps_custom ops = true -> custom_in_force s r ->
    custom_in_force (run f C normal ops s) r.
  Proof.
    induction ops as [|x ops IH]; intros s r Hk Hc; simpl; [exact Hc|].
    simpl in Hk. apply andb_true_iff in Hk. destruct Hk as [Hx Hops].
    apply IH; [exact Hops|]. apply (step_keeps_custom s x r Hx Hc).
  Qed.

  Lemma use_custom_accepts : forall s v e,
    is_real v = true -> is_real e = true -> 0 <= numq e ->
    snd (fst (step f C normal s (UseCustom v e))) = ONone /\
    custom_in_force (step_st s (UseCustom v e)) (mkrep (Some (numq v)) (EExact (numq e))).
  Proof.
    intros s v e Hv He Hpos. unfold step_st. simpl.
    destruct (regen f C normal s) as [s1 w]. simpl.
    rewrite Hv, He. simpl. replace (Qle_bool 0 (numq e)) with true by (symmetry; apply Qle_bool_iff; exact Hpos).
    simpl. repeat split; reflexivity.
  Qed.

  Lemma read_custom : forall s r, custom_in_force s r -> snd (read s) = r.
  Proof.
    intros s r Hc. unfold read. rewrite evaluate_unfold. simpl.
    destruct (eval_core_custom _ r (regen_custom s r Hc)) as [_ Hcache]. rewrite Hcache. reflexivity.
  Qed.

  (** ** C16_copy *)
  Lemma samples_returns_copy : forall s, Inv s ->
    let '(s', o, _) := step f C normal s Samples in
    exists h, o = OSamples h (raw s') /\ In h (handed s') /\ h <> raw_h s' /\ ~ In h (handed s) /\
              nth h (arrays s') [] = raw s'.
  Proof.
    intros s H. simpl. pose proof (regen_inv s H) as H1.
    assert (Hsub : forall h, In h (handed s) -> In h (handed (fst (regen f C normal s)))).
    { intros h. unfold regen. destruct (raw s); simpl; auto. }
    destruct (regen f C normal s) as [s1 w]. simpl in *.
    exists (length (arrays s1)). rewrite raw_hand_out by assumption.
    split; [reflexivity|]. split; [apply in_or_app; right; left; reflexivity|].
    split; [pose proof (I_raw s1 H1); lia|]. split.
    - intros Hin. apply Hsub in Hin. pose proof (I_handed s1 H1) as Hh. rewrite Forall_forall in Hh.
      destruct (Hh _ Hin). lia.
    - rewrite app_nth2 by lia. rewrite Nat.sub_diag. reflexivity.
  Qed.

  Lemma mutate_keeps_samples : forall s j i x, Inv s -> raw (step_st s (Mutate j i x)) = raw s.
  Proof.
    intros s j i x H. unfold step_st. simpl.
    destruct (nth_error (handed s) j) as [h|] eqn:E; [|reflexivity].
    apply raw_mutate; [assumption|]. eapply nth_error_In'. eassumption.
  Qed.
End Machine.
