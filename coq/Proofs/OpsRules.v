(** Every GENERATED derivative rule (Gen/OpsTable.v: d_u, d_b) is the derivative of the
    GENERATED operation (sem_u, sem_b) inside the operator's domain. *)
From Coq Require Import Reals Lra.
From Coquelicot Require Import Coquelicot.
From QV Require Import Base.RealOps Gen.OpsTable.
Local Open Scope R_scope.

(** the operators' open domains (the property's quantifier; note COT is computed as 1 / tan) *)
Definition DomU (o : uop) (y : R) : Prop :=
  match o with
  | NEG | EXP | SIN | COS | ATAN => True
  | SQRT | LN | LOG10 => 0 < y
  | TAN | SEC => cos y <> 0
  | CSC => sin y <> 0
  | COT => sin y <> 0 /\ cos y <> 0
  | ASIN | ACOS => -1 < y < 1
  end.

Lemma d_u_linear o v d : d_u o v d = d * d_u o v 1.
Proof. destruct o; unfold d_u, Rdiv; ring. Qed.

Lemma ln10_neq_0 : ln 10 <> 0.
Proof.
  apply Rgt_not_eq. rewrite <- ln_1. apply ln_increasing; lra.
Qed.

Lemma sqrt_1_minus_sq_pos y : -1 < y < 1 -> 0 < sqrt (1 - y ^ 2).
Proof. intros H. apply sqrt_lt_R0. nra. Qed.

Lemma is_derive_asin y : -1 < y < 1 -> is_derive asin y (1 / sqrt (1 - y ^ 2)).
Proof.
  intros H. apply is_derive_Reals.
  replace (y ^ 2) with (y²) by (unfold Rsqr; ring).
  apply (derive_pt_eq_1 _ _ _ (derivable_pt_asin y H)), derive_pt_asin.
Qed.

Lemma is_derive_acos y : -1 < y < 1 -> is_derive acos y (-1 / sqrt (1 - y ^ 2)).
Proof.
  intros H. apply is_derive_Reals.
  replace (y ^ 2) with (y²) by (unfold Rsqr; ring).
  apply (derive_pt_eq_1 _ _ _ (derivable_pt_acos y H)), derive_pt_acos.
Qed.

Lemma rule_u o y : DomU o y -> is_derive (sem_u o) y (d_u o y 1).
Proof.
  destruct o; unfold sem_u, d_u, DomU; intros H.
  - (* NEG *) auto_derive; [exact I|ring].
  - (* SQRT *) auto_derive; [exact H|]. field. apply Rgt_not_eq, sqrt_lt_R0, H.
  - (* EXP *) auto_derive; [exact I|ring].
  - (* LN *) auto_derive; [exact H|]. field. lra.
  - (* LOG10 *) unfold Rlog10. auto_derive; [exact H|]. field. split; [lra|apply ln10_neq_0].
  - (* SIN *) auto_derive; [exact I|ring].
  - (* COS *) auto_derive; [exact I|ring].
  - (* TAN *) unfold tan. auto_derive; [exact H|]. field_simplify; [|exact H|exact H].
    replace (cos y ^ 2 + sin y ^ 2) with 1; [reflexivity|].
    generalize (sin2_cos2 y). unfold Rsqr. intros E. lra.
  - (* SEC *) unfold tan. auto_derive; [exact H|]. field. exact H.
  - (* CSC *) unfold tan. auto_derive; [exact H|].
    (* the rule is written with tan y in the denominator *)
    destruct (Req_dec (cos y) 0) as [Hc|Hc].
    + rewrite Hc. unfold Rdiv. rewrite Rinv_0. rewrite !Rmult_0_r, !Rmult_0_l, Rinv_0. ring.
    + field. split; assumption.
  - (* COT *) destruct H as [Hs Hc]. unfold tan. auto_derive.
    { split; [exact Hc|]. split; [|exact I].
      apply Rmult_integral_contrapositive_currified; [exact Hs|apply Rinv_neq_0_compat, Hc]. }
    assert (E : sin y ^ 2 + cos y ^ 2 = 1).
    { generalize (sin2_cos2 y). unfold Rsqr. intros E. lra. }
    replace (-1 / sin y ^ 2 * 1) with (- (sin y ^ 2 + cos y ^ 2) / sin y ^ 2) by (rewrite E; field; exact Hs).
    field. split; assumption.
  - (* ASIN *) replace (1 / sqrt (1 - y ^ 2) * 1) with (1 / sqrt (1 - y ^ 2)) by ring.
    apply (is_derive_asin y H).
  - (* ACOS *) replace (-1 / sqrt (1 - y ^ 2) * 1) with (-1 / sqrt (1 - y ^ 2)) by ring.
    apply (is_derive_acos y H).
  - (* ATAN *) auto_derive; [exact I|]. field. nra.
Qed.

(** ---- binary operators: both operands vary ---- *)
Definition DomB (o : bop) (a b : R) : Prop :=
  match o with
  | ADD | SUB | MUL => True
  | DIV => b <> 0
  | LOG => 0 < a /\ a <> 1 /\ 0 < b
  | POW => 0 < a                 (* the integer-constant-exponent case is [rule_pow_int] *)
  end.

Lemma locally_pos (f : R -> R) x df : is_derive f x df -> 0 < f x -> locally x (fun t => 0 < f t).
Proof.
  intros Hf Hpos.
  assert (C : continuous f x) by (apply (ex_derive_continuous f x); eexists; exact Hf).
  apply (C (fun y => 0 < y)). apply (open_gt 0 (f x) Hpos).
Qed.

Lemma Rpow_pos_base b a : 0 < b -> Rpow b a = Rpower b a.
Proof. intros H. unfold Rpow. destruct (Rlt_dec 0 b); [reflexivity|contradiction]. Qed.

Lemma rule_b o f g x df dg :
  is_derive f x df -> is_derive g x dg -> DomB o (f x) (g x) ->
  is_derive (fun t => sem_b o (f t) (g t)) x (d_b o (f x) df (g x) dg).
Proof.
  intros Hf Hg.
  assert (Ef := is_derive_unique _ _ _ Hf). assert (Eg := is_derive_unique _ _ _ Hg).
  change (Derive f x) with (Derive (fun x0 : R => f x0) x) in Ef.
  change (Derive g x) with (Derive (fun x0 : R => g x0) x) in Eg.
  assert (exf : ex_derive f x) by (eexists; exact Hf).
  assert (exg : ex_derive g x) by (eexists; exact Hg).
  destruct o; unfold sem_b, d_b, DomB; intros H.
  - auto_derive; [tauto|]. rewrite Ef, Eg. ring.
  - auto_derive; [tauto|]. rewrite Ef, Eg. ring.
  - auto_derive; [tauto|]. rewrite Ef, Eg. ring.
  - auto_derive; [tauto|]. rewrite Ef, Eg. field. exact H.
  - (* POW, positive base *)
    apply (is_derive_ext_loc (fun t => exp (g t * ln (f t)))).
    { generalize (locally_pos f x df Hf H). apply filter_imp. intros t Ht.
      rewrite (Rpow_pos_base _ _ Ht). reflexivity. }
    auto_derive; [tauto|]. rewrite Ef, Eg.
    rewrite (Rpow_pos_base _ _ H). unfold Rpower.
    replace ((g x - 1) * ln (f x)) with (g x * ln (f x) + - ln (f x)) by ring.
    rewrite exp_plus, exp_Ropp, exp_ln by exact H.
    destruct (Req_EM_T dg 0) as [->|Hne]; field; lra.
  - (* LOG *) destruct H as [Ha [Ha1 Hb]].
    assert (Hl : ln (f x) <> 0).
    { intros E. apply Ha1. rewrite <- (exp_ln (f x) Ha), E. apply exp_0. }
    auto_derive; [tauto|]. rewrite Ef, Eg. field. repeat split; try lra; assumption.
Qed.

(** an operand that is a numeric constant: its value does not move, its derivative is 0 *)
Lemma Int_part_IZR k : Int_part (IZR k) = k.
Proof.
  unfold Int_part. generalize (tech_up (IZR k) (k + 1)). intros T.
  rewrite <- T; [ring| rewrite plus_IZR; lra | rewrite plus_IZR; lra].
Qed.

Lemma Rpow_int b k : Rpow b (IZR k) = powerRZ b k.
Proof.
  unfold Rpow. destruct (Rlt_dec 0 b) as [Hb|Hb].
  - symmetry. apply powerRZ_Rpower, Hb.
  - rewrite Int_part_IZR. destruct (Req_EM_T (IZR k) (IZR k)); [reflexivity|contradiction].
Qed.

Lemma d_b_pow_const v d k :
  d_b POW v d (IZR k) 0 = powerRZ v (k - 1) * (IZR k * d).
Proof.
  unfold d_b. destruct (Req_EM_T 0 0) as [_|N]; [|contradiction N; reflexivity].
  replace (IZR k - 1) with (IZR (k - 1)) by (rewrite minus_IZR; reflexivity).
  rewrite Rpow_int. ring.
Qed.

Lemma rule_pow_int f x df k :
  is_derive f x df -> (f x <> 0 \/ (0 <= k)%Z) ->
  is_derive (fun t => sem_b POW (f t) (IZR k)) x (d_b POW (f x) df (IZR k) 0).
Proof.
  intros Hf Hdom. rewrite d_b_pow_const. unfold sem_b.
  apply (is_derive_ext (fun t => powerRZ (f t) k)); [intros t; symmetry; apply Rpow_int|].
  assert (Ef := is_derive_unique _ _ _ Hf).
  change (Derive f x) with (Derive (fun x0 : R => f x0) x) in Ef.
  assert (exf : ex_derive f x) by (eexists; exact Hf).
  destruct k as [|p|p].
  - (* k = 0 *) simpl powerRZ. auto_derive; [exact I|]. ring.
  - (* k > 0 *)
    apply (is_derive_ext (fun t => f t ^ Pos.to_nat p)); [intros t; reflexivity|].
    auto_derive; [tauto|]. rewrite Ef.
    replace (Z.pos p - 1)%Z with (Z.of_nat (pred (Pos.to_nat p))).
    + rewrite <- pow_powerRZ.
      replace (IZR (Z.pos p)) with (INR (Pos.to_nat p)) by (rewrite INR_IZR_INZ, positive_nat_Z; reflexivity).
      ring.
    + rewrite Nat2Z.inj_pred by apply Pos2Nat.is_pos. rewrite positive_nat_Z. reflexivity.
  - (* k < 0 *)
    destruct Hdom as [Hne|Hk]; [|exfalso; apply Hk; reflexivity].
    apply (is_derive_ext (fun t => / f t ^ Pos.to_nat p)); [intros t; reflexivity|].
    auto_derive.
    { split; [tauto|]. split; [apply pow_nonzero, Hne|exact I]. }
    rewrite Ef.
    replace (Z.neg p - 1)%Z with (Z.neg (p + 1)) by (rewrite <- Pos2Z.add_neg_neg; reflexivity).
    simpl powerRZ. rewrite Pos2Nat.inj_add, pow_add. simpl (f x ^ Pos.to_nat 1).
    replace (IZR (Z.neg p)) with (- INR (Pos.to_nat p)).
    + destruct (Pos2Nat.is_succ p) as [n En]. rewrite En. simpl pred.
      rewrite <- tech_pow_Rmult. field. split; [exact Hne|apply pow_nonzero, Hne].
    + rewrite INR_IZR_INZ, positive_nat_Z. reflexivity.
Qed.
