(** Lemmas about the plot pipeline model (C19). *)
From Coq Require Import List ZArith QArith Qabs Bool String Permutation Lia.
From QV Require Import Model.PlotBase Gen.PlotGen Model.Plot.
Import ListNotations.
Open Scope Q_scope.

Lemma linspace_length : forall n lo hi, List.length (linspace n lo hi) = n.
Proof. intros. unfold linspace. now rewrite map_length, seq_length. Qed.
