(** Lemmas about the plot pipeline model (C19). *)
From Coq Require Import List ZArith QArith Qabs Qreduction Bool String Permutation Lia Lqa.
From QV Require Import Model.PlotBase Gen.PlotGen Model.Plot.
Import ListNotations.
Open Scope Q_scope.

(** * Booleans on Q *)
Lemma Qltb_lt : forall a b, Qltb a b = true <-> a < b.
Proof.
  intros a b. unfold Qltb. rewrite negb_true_iff. split; intro H.
  - apply Qnot_le_lt. intro Hle. apply Qle_bool_iff in Hle. congruence.
  - destruct (Qle_bool b a) eqn:E; [|reflexivity].
    apply Qle_bool_iff in E. exfalso. exact (Qlt_not_le _ _ H E).
Qed.

Lemma Qltb_false_le : forall a b, Qltb a b = false <-> b <= a.
Proof.
  intros a b. unfold Qltb. rewrite negb_false_iff. apply Qle_bool_iff.
Qed.

(** * The x-range mask (C19_select) *)

(** a data point with its uncertainties: (x, y, xerr, yerr) *)
Definition pt := (Q * Q * Q * Q)%type.
Definition px (p : pt) : Q := let '(x, _, _, _) := p in x.
Definition py (p : pt) : Q := let '(_, y, _, _) := p in y.
Definition pxe (p : pt) : Q := let '(_, _, e, _) := p in e.
Definition pye (p : pt) : Q := let '(_, _, _, e) := p in e.
Fixpoint zip4 (a b c d : list Q) : list pt :=
  match a, b, c, d with
  | x :: a', y :: b', u :: c', v :: d' => (x, y, u, v) :: zip4 a' b' c' d'
  | _, _, _, _ => []
  end.
Definition points_of (d : dataset) : list pt := zip4 (ds_x d) (ds_y d) (ds_xe d) (ds_ye d).
Definition wf_dataset (d : dataset) : Prop :=
  List.length (ds_y d) = List.length (ds_x d) /\ List.length (ds_xe d) = List.length (ds_x d) /\
  List.length (ds_ye d) = List.length (ds_x d).

(** the property's rule: low <= x < high when an x-range was given *)
Definition kept (r : option range) (p : pt) : bool :=
  match r with
  | Some (lo, hi) => Qle_bool lo (px p) && Qltb (px p) hi
  | None => true
  end.
Definition xbar4 (p : pt) : seg := (px p - pxe p, py p, px p + pxe p, py p).
Definition ybar4 (p : pt) : seg := (px p, py p - pye p, px p, py p + pye p).

Lemma zip4_projections : forall a b c d,
  List.length b = List.length a -> List.length c = List.length a -> List.length d = List.length a ->
  map px (zip4 a b c d) = a /\ map py (zip4 a b c d) = b /\ map pxe (zip4 a b c d) = c /\ map pye (zip4 a b c d) = d.
Proof.
  induction a as [|x a IH]; intros [|y b] [|u c] [|v d] Hb Hc Hd; simpl in *; try discriminate; auto.
  destruct (IH b c d) as (H1 & H2 & H3 & H4); try lia.
  simpl. rewrite H1, H2, H3, H4. auto.
Qed.

Lemma masked_arrays : forall (p : Q -> bool) a b c d,
  List.length b = List.length a -> List.length c = List.length a -> List.length d = List.length a ->
  let sel := filter (fun t => p (px t)) (zip4 a b c d) in
  pick (map p a) a = map px sel /\ pick (map p a) b = map py sel /\
  pick (map p a) c = map pxe sel /\ pick (map p a) d = map pye sel.
Proof.
  induction a as [|x a IH]; intros [|y b] [|u c] [|v d] Hb Hc Hd; simpl in *; try discriminate; auto.
  destruct (IH b c d) as (H1 & H2 & H3 & H4); try lia.
  destruct (p x); simpl; rewrite H1, H2, H3, H4; auto.
Qed.

Lemma combine3_map : forall (s : list pt) (f g h : pt -> Q),
  combine (combine (map f s) (map g s)) (map h s) = map (fun t => (f t, g t, h t)) s.
Proof. induction s as [|t s IH]; intros; simpl; [reflexivity|]. now rewrite IH. Qed.

Lemma select_lemma : forall o eb, wf_dataset (do_ds o) ->
  let sel := filter (kept (do_range o)) (points_of (do_ds o)) in
  do_xvalues o = map px sel /\ do_yvalues o = map py sel /\
  do_xerr o = map pxe sel /\ do_yerr o = map pye sel /\
  p_x (draw_data eb o) = map px sel /\ p_y (draw_data eb o) = map py sel /\
  p_bars (draw_data eb o) = if eb then Some (map xbar4 sel, map ybar4 sel) else None.
Proof.
  intros o eb (Hy & Hxe & Hye). cbv zeta.
  assert (H : do_xvalues o = map px (filter (kept (do_range o)) (points_of (do_ds o))) /\
              do_yvalues o = map py (filter (kept (do_range o)) (points_of (do_ds o))) /\
              do_xerr o = map pxe (filter (kept (do_range o)) (points_of (do_ds o))) /\
              do_yerr o = map pye (filter (kept (do_range o)) (points_of (do_ds o)))).
  { unfold do_xvalues, do_yvalues, do_xerr, do_yerr, do_mask, points_of, kept.
    destruct (do_range o) as [[lo hi]|]; simpl.
    - pose proof (masked_arrays (gen_mask lo hi) _ _ _ _ Hy Hxe Hye) as M. cbv zeta in M.
      unfold gen_mask in *. exact M.
    - assert (F : forall l : list pt, filter (fun _ => true) l = l).
      { induction l as [|t l IH]; simpl; [reflexivity|now rewrite IH]. }
      rewrite F. destruct (zip4_projections _ _ _ _ Hy Hxe Hye) as (H1 & H2 & H3 & H4).
      rewrite H1, H2, H3, H4. auto. }
  destruct H as (H1 & H2 & H3 & H4).
  split; [exact H1|]. split; [exact H2|]. split; [exact H3|]. split; [exact H4|].
  split; [unfold draw_data; simpl; exact H1|]. split; [unfold draw_data; simpl; exact H2|].
  unfold draw_data; simpl. destruct eb; [|reflexivity].
  rewrite H1, H2, H3, H4. rewrite !combine3_map, !map_map. reflexivity.
Qed.

(** * Curves (C19_linspace) *)
Lemma linspace_length : forall n lo hi, List.length (linspace n lo hi) = n.
Proof. intros. unfold linspace. now rewrite map_length, seq_length. Qed.

Lemma linspace_nth : forall n lo hi i, (i < n)%nat ->
  nth i (linspace n lo hi) 0 = lo + Qn i * (hi - lo) / Qn (n - 1).
Proof.
  intros n lo hi i Hi. unfold linspace.
  set (F := fun i : nat => lo + Qn i * (hi - lo) / Qn (n - 1)).
  rewrite nth_indep with (d' := F 0%nat) by (rewrite map_length, seq_length; exact Hi).
  rewrite (map_nth F). rewrite seq_nth by exact Hi. reflexivity.
Qed.

Lemma Qn_S : forall i, Qn (S i) == Qn i + 1.
Proof.
  intro i. unfold Qn. rewrite Nat2Z.inj_succ. unfold Z.succ. rewrite inject_Z_plus. reflexivity.
Qed.

Lemma Qn_pos : forall n, (0 < n)%nat -> 0 < Qn n.
Proof. intros n H. unfold Qn. change 0 with (inject_Z 0). rewrite <- Zlt_Qlt. lia. Qed.

Lemma linspace_first : forall n lo hi, (2 <= n)%nat -> nth 0 (linspace n lo hi) 0 == lo.
Proof.
  intros. rewrite linspace_nth by lia. unfold Qn at 1. simpl. unfold Qdiv. ring.
Qed.

Lemma linspace_last : forall n lo hi, (2 <= n)%nat -> nth (n - 1) (linspace n lo hi) 0 == hi.
Proof.
  intros n lo hi H. rewrite linspace_nth by lia.
  assert (P : ~ Qn (n - 1) == 0). { intro E. pose proof (Qn_pos (n - 1)) as Q. rewrite E in Q. apply (Qlt_irrefl 0). apply Q. lia. }
  field. exact P.
Qed.

Lemma linspace_step : forall n lo hi i, (2 <= n)%nat -> (S i < n)%nat ->
  nth (S i) (linspace n lo hi) 0 - nth i (linspace n lo hi) 0 == (hi - lo) / Qn (n - 1).
Proof.
  intros n lo hi i H Hi. rewrite !linspace_nth by lia. rewrite Qn_S.
  assert (P : ~ Qn (n - 1) == 0). { intro E. pose proof (Qn_pos (n - 1)) as Q. rewrite E in Q. apply (Qlt_irrefl 0). apply Q. lia. }
  field. exact P.
Qed.

Lemma map2_map : forall (A : Type) (f g : A -> Q) (op : Q -> Q -> Q) (l : list A),
  map2 op (map f l) (map g l) = map (fun x => op (f x) (g x)) l.
Proof. induction l as [|a l IH]; simpl; [reflexivity|now rewrite IH]. Qed.

Lemma curve_lemma : forall eb (f : Q -> Q * Q) lo hi,
  let c := draw_curve eb f (lo, hi) in
  c_x c = linspace100 lo hi /\
  List.length (c_x c) = 100%nat /\ List.length (c_y c) = 100%nat /\
  nth 0 (c_x c) 0 == lo /\ nth 99 (c_x c) 0 == hi /\
  (forall i, (i < 99)%nat -> nth (S i) (c_x c) 0 - nth i (c_x c) 0 == (hi - lo) / 99) /\
  c_y c = map (fun x => fst (f x)) (c_x c) /\
  c_band c = (if eb then Some (map (fun x => fst (f x) - snd (f x)) (c_x c),
                               map (fun x => fst (f x) + snd (f x)) (c_x c)) else None).
Proof.
  intros eb f lo hi. cbv zeta. unfold draw_curve, linspace100. simpl fst; simpl snd.
  assert (E : gen_linspace_num = 100%nat) by reflexivity. rewrite E. cbn [c_x c_y c_band].
  split; [reflexivity|].
  split; [apply linspace_length|].
  split; [rewrite map_length; apply linspace_length|].
  split; [apply linspace_first; lia|].
  split; [change 99%nat with (100 - 1)%nat; apply linspace_last; lia|].
  split; [intros i Hi; rewrite linspace_step by lia; reflexivity|].
  split; [reflexivity|].
  destruct eb; [|reflexivity]. rewrite !map2_map. reflexivity.
Qed.

(** * The plot's x-domain (C19_domain, C19_order) *)
Definition le_agg (a : agg) (x y : Q) : Prop := match a with AggMin => x <= y | AggMax => y <= x end.

Lemma le_agg_refl : forall a x, le_agg a x x.
Proof. destruct a; simpl; intros; apply Qle_refl. Qed.
Lemma le_agg_trans : forall a x y z, le_agg a x y -> le_agg a y z -> le_agg a x z.
Proof. destruct a; simpl; intros x y z H1 H2; eapply Qle_trans; eauto. Qed.

Definition agg_step (a : agg) := match a with AggMin => qmin | AggMax => qmax end.

Lemma agg_step_spec : forall a cur new,
  (agg_step a cur new = cur \/ agg_step a cur new = new) /\
  le_agg a (agg_step a cur new) cur /\ le_agg a (agg_step a cur new) new.
Proof.
  intros [] cur new; simpl; unfold qmin, qmax.
  - destruct (Qltb new cur) eqn:E.
    + apply Qltb_lt in E. split; [right; reflexivity|]. split; [apply Qlt_le_weak; exact E|apply Qle_refl].
    + apply Qltb_false_le in E. split; [left; reflexivity|]. split; [apply Qle_refl|exact E].
  - destruct (Qltb cur new) eqn:E.
    + apply Qltb_lt in E. split; [right; reflexivity|]. split; [apply Qlt_le_weak; exact E|apply Qle_refl].
    + apply Qltb_false_le in E. split; [left; reflexivity|]. split; [apply Qle_refl|exact E].
Qed.

Lemma aggregate_spec : forall a rest first,
  In (aggregate a first rest) (first :: rest) /\
  forall x, In x (first :: rest) -> le_agg a (aggregate a first rest) x.
Proof.
  intros a rest. unfold aggregate. fold (agg_step a).
  induction rest as [|y rest IH]; intros first; simpl.
  - split; [auto|]. intros x [<-|[]]. apply le_agg_refl.
  - destruct (IH (agg_step a first y)) as [Hin Hle].
    destruct (agg_step_spec a first y) as (Hc & L1 & L2).
    split.
    + destruct Hin as [Hin|Hin]; [|auto].
      destruct Hc as [Hc|Hc]; [left|right; left]; congruence.
    + intros x [<-|[<-|Hx]].
      * eapply le_agg_trans; [apply Hle; left; reflexivity|exact L1].
      * eapply le_agg_trans; [apply Hle; left; reflexivity|exact L2].
      * apply Hle. right. exact Hx.
Qed.

Lemma list_agg_spec : forall a l m, list_agg a l = Some m ->
  In m l /\ forall x, In x l -> le_agg a m x.
Proof.
  intros a [|x r] m H; simpl in H; [discriminate|]. injection H as <-. apply aggregate_spec.
Qed.

Lemma list_agg_none : forall a l, list_agg a l = None <-> l = [].
Proof. intros a [|x r]; simpl; split; intro H; congruence. Qed.

Lemma le_agg_antisym : forall a x y, le_agg a x y -> le_agg a y x -> x == y.
Proof. destruct a; simpl; intros x y H1 H2; apply Qle_antisym; assumption. Qed.

Lemma list_agg_perm : forall a l l', Permutation l l' ->
  match list_agg a l, list_agg a l' with
  | Some m, Some m' => m == m'
  | None, None => True
  | _, _ => False
  end.
Proof.
  intros a l l' P.
  destruct (list_agg a l) as [m|] eqn:E; destruct (list_agg a l') as [m'|] eqn:E'.
  - destruct (list_agg_spec _ _ _ E) as [I1 L1]. destruct (list_agg_spec _ _ _ E') as [I2 L2].
    apply (le_agg_antisym a).
    + apply L1. eapply Permutation_in; [apply Permutation_sym; exact P|exact I2].
    + apply L2. eapply Permutation_in; [exact P|exact I1].
  - apply list_agg_none in E'. subst l'. apply Permutation_sym, Permutation_nil in P. subst l. discriminate.
  - apply list_agg_none in E. subst l. apply Permutation_nil in P. subst l'. discriminate.
  - exact I.
Qed.

Lemma ranges_of_perm : forall objs objs', Permutation objs objs' -> Permutation (ranges_of objs) (ranges_of objs').
Proof. intros. unfold ranges_of. apply Permutation_flat_map. assumption. Qed.

Lemma bound_perm : forall spec rs rs', Permutation rs rs' ->
  match bound spec rs, bound spec rs' with
  | Some m, Some m' => Qred m = Qred m'
  | None, None => True
  | _, _ => False
  end.
Proof.
  intros spec rs rs' P. unfold bound.
  pose proof (list_agg_perm (fst spec) _ _ (Permutation_map (component (snd spec)) P)) as H.
  destruct (list_agg (fst spec) (map (component (snd spec)) rs));
    destruct (list_agg (fst spec) (map (component (snd spec)) rs')); auto.
  apply Qred_complete. exact H.
Qed.

Lemma plot_domain_perm : forall cfg objs objs', Permutation objs objs' ->
  plot_domain cfg objs = plot_domain cfg objs'.
Proof.
  intros cfg objs objs' P. unfold plot_domain.
  destruct (s_xrange cfg); [reflexivity|].
  pose proof (bound_perm gen_dom_low _ _ (ranges_of_perm _ _ P)) as HL.
  pose proof (bound_perm gen_dom_high _ _ (ranges_of_perm _ _ P)) as HH.
  destruct (bound gen_dom_low (ranges_of objs)); destruct (bound gen_dom_low (ranges_of objs')); try contradiction;
    destruct (bound gen_dom_high (ranges_of objs)); destruct (bound gen_dom_high (ranges_of objs')); try contradiction;
    try reflexivity.
  rewrite HL, HH. reflexivity.
Qed.

(** the plot's x-domain is (min of the lows, max of the highs) over the objects that have an x-range *)
Lemma plot_domain_spec : forall cfg objs,
  match s_xrange cfg with
  | Some r => plot_domain cfg objs = Some r
  | None =>
      match ranges_of objs with
      | [] => plot_domain cfg objs = None
      | _ :: _ =>
          exists lo hi, plot_domain cfg objs = Some (Qred lo, Qred hi) /\
            In lo (map fst (ranges_of objs)) /\ (forall r, In r (ranges_of objs) -> lo <= fst r) /\
            In hi (map snd (ranges_of objs)) /\ (forall r, In r (ranges_of objs) -> snd r <= hi)
      end
  end.
Proof.
  intros cfg objs. unfold plot_domain. destruct (s_xrange cfg) as [r|]; [reflexivity|].
  destruct (ranges_of objs) as [|r0 rs] eqn:E; [reflexivity|].
  assert (GL : gen_dom_low = (AggMin, Comp0)) by reflexivity.
  assert (GH : gen_dom_high = (AggMax, Comp1)) by reflexivity.
  rewrite GL, GH. unfold bound. simpl fst; simpl snd.
  destruct (list_agg AggMin (map (component Comp0) (r0 :: rs))) as [lo|] eqn:EL; [|simpl in EL; discriminate].
  destruct (list_agg AggMax (map (component Comp1) (r0 :: rs))) as [hi|] eqn:EH; [|simpl in EH; discriminate].
  exists lo, hi. split; [reflexivity|].
  destruct (list_agg_spec _ _ _ EL) as [IL LL]. destruct (list_agg_spec _ _ _ EH) as [IH LH].
  repeat split.
  - exact IL.
  - intros r Hr. apply (LL (fst r)). change (fst r) with (component Comp0 r). apply in_map. exact Hr.
  - exact IH.
  - intros r Hr. apply (LH (snd r)). change (snd r) with (component Comp1 r). apply in_map. exact Hr.
Qed.

Lemma fn_domain_spec : forall dom f,
  (fo_spec f = true -> fn_domain dom f = fo_range f) /\ (fo_spec f = false -> fn_domain dom f = Some dom).
Proof. intros dom f. unfold fn_domain. split; intros ->; reflexivity. Qed.

Lemma render_no_domain : forall cfg objs, s_xrange cfg = None -> ranges_of objs = [] -> render cfg objs = ErrNoDomain.
Proof.
  intros cfg objs H1 H2. unfold render, plot_domain. rewrite H1, H2.
  assert (GL : gen_dom_low = (AggMin, Comp0)) by reflexivity. rewrite GL. reflexivity.
Qed.

(** * Order of adding (C19_order) *)
Lemma sequence_rendered : forall A (l : list (outcome A)) ds, sequence l = Rendered ds <-> l = map Rendered ds.
Proof.
  intros A. induction l as [|o l IH]; intros ds; simpl.
  - split; intro H.
    + injection H as <-. reflexivity.
    + destruct ds; [reflexivity|discriminate].
  - destruct o as [a| | |]; try (split; intro H; [discriminate|destruct ds; discriminate]).
    destruct (sequence l) as [r| | |] eqn:E.
    + split; intro H.
      * injection H as <-. simpl. f_equal. apply IH. reflexivity.
      * destruct ds as [|d ds]; [discriminate|]. simpl in H. injection H as -> H.
        apply IH in H. injection H as ->. reflexivity.
    + split; intro H; [discriminate|]. destruct ds as [|d ds]; [discriminate|]. simpl in H. injection H as _ H.
      apply IH in H. discriminate.
    + split; intro H; [discriminate|]. destruct ds as [|d ds]; [discriminate|]. simpl in H. injection H as _ H.
      apply IH in H. discriminate.
    + split; intro H; [discriminate|]. destruct ds as [|d ds]; [discriminate|]. simpl in H. injection H as _ H.
      apply IH in H. discriminate.
Qed.

Lemma order_lemma : forall cfg objs objs', Permutation objs objs' ->
  (forall o, drawn_for cfg objs o = drawn_for cfg objs' o) /\
  (forall ds, render cfg objs = Rendered ds ->
     exists ds', render cfg objs' = Rendered ds' /\ Permutation ds ds') /\
  (render cfg objs = ErrNoDomain <-> render cfg objs' = ErrNoDomain).
Proof.
  intros cfg objs objs' P. pose proof (plot_domain_perm cfg _ _ P) as D.
  split; [|split].
  - intro o. unfold drawn_for. rewrite D. reflexivity.
  - intros ds H. unfold render in *. rewrite <- D. destruct (plot_domain cfg objs) as [dom|]; [|discriminate].
    apply sequence_rendered in H.
    pose proof (Permutation_map (draw_obj cfg dom) P) as PM. rewrite H in PM.
    apply Permutation_sym in PM. apply Permutation_map_inv in PM. destruct PM as (ds' & E & P').
    exists ds'. split; [|exact P']. apply sequence_rendered. exact E.
  - unfold render. rewrite <- D. destruct (plot_domain cfg objs) as [dom|]; [|tauto].
    assert (N : forall l : list obj, sequence (map (draw_obj cfg dom) l) <> ErrNoDomain).
    { induction l as [|o l IH]; simpl; [discriminate|].
      assert (Q : draw_obj cfg dom o <> ErrNoDomain).
      { destruct o; simpl; try discriminate.
        - destruct (fn_domain dom o); discriminate.
        - destruct (fn_domain dom (fi_func_obj o)); discriminate.
        - destruct (hist_bars o); discriminate. }
      destruct (draw_obj cfg dom o); try discriminate; [|contradiction].
      destruct (sequence (map (draw_obj cfg dom) l)); try discriminate. contradiction. }
    split; intro H; exfalso; eapply N; eauto.
Qed.

(** * Residuals and fit curve (C19_residuals, C19_fit_curve) *)
Lemma map2_length : forall (A B C : Type) (f : A -> B -> C) (l : list A) (m : list B),
  List.length l = List.length m -> List.length (map2 f l m) = List.length m.
Proof.
  induction l as [|a l IH]; intros [|b m] H; simpl in *; try discriminate; [reflexivity|].
  f_equal. apply IH. lia.
Qed.

Lemma residuals_lemma : forall cfg dom f r, fi_range f = Some r ->
  wf_dataset (fi_ds f) -> List.length (fi_res_err f) = List.length (ds_x (fi_ds f)) ->
  exists c res, draw_obj cfg dom (OFit f) = Rendered (DrFit c res) /\
    c = draw_curve (s_errorbar cfg) (fi_mc f) r /\
    res = (if s_residuals cfg then Some (draw_data (s_errorbar cfg) (fi_residual_obj f)) else None) /\
    fit_residuals f = map2 (fun y fx => y - fx) (ds_y (fi_ds f)) (map (fi_fn f) (ds_x (fi_ds f))) /\
    let pts := zip4 (ds_x (fi_ds f)) (fit_residuals f) (ds_xe (fi_ds f)) (fi_res_err f) in
    let rp := draw_data (s_errorbar cfg) (fi_residual_obj f) in
    p_x rp = ds_x (fi_ds f) /\ p_y rp = fit_residuals f /\
    p_bars rp = if s_errorbar cfg then Some (map xbar4 pts, map ybar4 pts) else None.
Proof.
  intros cfg dom f r Hr (Hy & Hxe & Hye) Hre.
  exists (draw_curve (s_errorbar cfg) (fi_mc f) r).
  exists (if s_residuals cfg then Some (draw_data (s_errorbar cfg) (fi_residual_obj f)) else None).
  split.
  { simpl. unfold fn_domain. simpl. rewrite Hr. reflexivity. }
  split; [reflexivity|]. split; [reflexivity|]. split; [reflexivity|].
  assert (Lres : List.length (fit_residuals f) = List.length (ds_x (fi_ds f))).
  { unfold fit_residuals. rewrite map2_length; rewrite map_length; [reflexivity|exact Hy]. }
  assert (W : wf_dataset (do_ds (fi_residual_obj f))).
  { unfold wf_dataset, fi_residual_obj. simpl. auto. }
  pose proof (select_lemma (fi_residual_obj f) (s_errorbar cfg) W) as S. cbv zeta in S.
  destruct S as (_ & _ & _ & _ & S1 & S2 & S3).
  assert (F : forall l : list pt, filter (fun _ => true) l = l).
  { induction l as [|t l IH]; simpl; [reflexivity|now rewrite IH]. }
  unfold kept in *. simpl do_range in *. rewrite F in *. unfold points_of in *. simpl do_ds in *. simpl ds_x in *.
  simpl ds_y in *. simpl ds_xe in *. simpl ds_ye in *.
  destruct (zip4_projections (ds_x (fi_ds f)) (fit_residuals f) (ds_xe (fi_ds f)) (fi_res_err f) Lres Hxe Hre)
    as (P1 & P2 & _ & _).
  cbv zeta. rewrite S1, S2, S3, P1, P2. auto.
Qed.

(** the curve of a fit: the Monte Carlo oracle evaluated on 100 points of the fit's range; whatever bound
    [eps] holds between the oracle's mean and the fit function holds for every drawn point *)
Lemma fit_curve_lemma : forall eb f r (eps : Q -> Q),
  fi_range f = Some r ->
  (forall x, Qabs (fst (fi_mc f x) - fi_fn f x) <= eps (snd (fi_mc f x))) ->
  let c := draw_curve eb (fi_mc f) r in
  c_x c = linspace100 (fst r) (snd r) /\
  forall i, (i < 100)%nat ->
    Qabs (nth i (c_y c) 0 - fi_fn f (nth i (c_x c) 0)) <= eps (snd (fi_mc f (nth i (c_x c) 0))).
Proof.
  intros eb f [lo hi] eps Hr H. cbv zeta.
  destruct (curve_lemma eb (fi_mc f) lo hi) as (Hx & Lx & _ & _ & _ & _ & Hy & _).
  split; [exact Hx|]. intros i Hi. rewrite Hy.
  set (F := fun x : Q => fst (fi_mc f x)).
  rewrite nth_indep with (d' := F 0) by (rewrite map_length; lia).
  rewrite (map_nth F). apply H.
Qed.

(** * Histograms (C19_hist) *)
Lemma hist_kwargs_pass :
  kw_in "bins" NP_HIST_VALID_KWARGS = true /\ kw_in "range" NP_HIST_VALID_KWARGS = true /\
  kw_in "density" NP_HIST_VALID_KWARGS = true /\ kw_in "weights" NP_HIST_VALID_KWARGS = true /\
  kw_in "cumulative" NP_HIST_VALID_KWARGS = false /\
  kw_in "bins" HIST_VALID_KWARGS = true /\ kw_in "range" HIST_VALID_KWARGS = true /\
  kw_in "density" HIST_VALID_KWARGS = true /\ kw_in "weights" HIST_VALID_KWARGS = true /\
  kw_in "cumulative" HIST_VALID_KWARGS = true /\ kw_in "label" HIST_VALID_KWARGS = true.
Proof. repeat split; reflexivity. Qed.

(** every modelled keyword reaches ax.hist; numpy.histogram gets all but label and cumulative,
    neither of which it reads *)
Lemma restrict_hist_id : forall kw, restrict HIST_VALID_KWARGS kw = kw.
Proof.
  intros [b r l d w c]. destruct hist_kwargs_pass as (_ & _ & _ & _ & _ & H1 & H2 & H3 & H4 & H5 & H6).
  unfold restrict. cbn [kw_bins kw_range kw_label kw_density kw_weights kw_cumulative].
  rewrite H1, H2, H3, H4, H5, H6. reflexivity.
Qed.

Lemma restrict_np_same : forall samples kw,
  np_histogram samples (restrict NP_HIST_VALID_KWARGS kw) = np_histogram samples kw.
Proof.
  intros samples [b r l d w c]. destruct hist_kwargs_pass as (H1 & H2 & H3 & H4 & _).
  unfold np_histogram, hist_edges, weighted, restrict.
  cbn [kw_bins kw_range kw_label kw_density kw_weights kw_cumulative].
  rewrite H1, H2, H3, H4. reflexivity.
Qed.

Fixpoint sum_nat (l : list nat) : nat := match l with [] => 0%nat | x :: r => (x + sum_nat r)%nat end.

(** edges in non-decreasing order *)
Fixpoint ascending_from (e0 : Q) (rest : list Q) : Prop :=
  match rest with [] => True | e1 :: r => e0 <= e1 /\ ascending_from e1 r end.
Definition ascending (e : list Q) : Prop := match e with [] => True | e0 :: r => ascending_from e0 r end.

Lemma last_default : forall (l : list Q) a b c, last (a :: l) b = last (a :: l) c.
Proof.
  induction l as [|z l IHl]; intros; [reflexivity|].
  change (last (a :: z :: l) b) with (last (z :: l) b). change (last (a :: z :: l) c) with (last (z :: l) c).
  apply IHl.
Qed.

Lemma ascending_last : forall rest e0, ascending_from e0 rest -> e0 <= last rest e0.
Proof.
  induction rest as [|e1 r IH]; intros e0 H.
  - simpl. apply Qle_refl.
  - destruct H as [H1 H2]. destruct r as [|e2 r'].
    + simpl. exact H1.
    + change (last (e1 :: e2 :: r') e0) with (last (e2 :: r') e0).
      rewrite (last_default r' e2 e0 e1).
      eapply Qle_trans; [exact H1|apply (IH e1 H2)].
Qed.

Lemma Qle_bool_false_lt : forall x y, Qle_bool x y = false -> y < x.
Proof. intros x y H. apply Qnot_le_lt. intro K. apply Qle_bool_iff in K. congruence. Qed.

Lemma count_split : forall (samples : list Q) a b c, a <= b -> b <= c ->
  (count_if (half_open a b) samples + count_if (closed b c) samples)%nat = count_if (closed a c) samples.
Proof.
  intros samples a b c Hab Hbc. unfold count_if.
  induction samples as [|s l IH]; simpl; [reflexivity|].
  unfold half_open, closed in *.
  destruct (Qle_bool a s) eqn:E1; destruct (Qltb s b) eqn:E2; destruct (Qle_bool b s) eqn:E3;
    destruct (Qle_bool s c) eqn:E4; simpl;
    repeat match goal with
    | H : Qle_bool _ _ = true |- _ => apply Qle_bool_iff in H
    | H : Qle_bool _ _ = false |- _ => apply Qle_bool_false_lt in H
    | H : Qltb _ _ = true |- _ => apply Qltb_lt in H
    | H : Qltb _ _ = false |- _ => apply Qltb_false_le in H
    end; first [lia | exfalso; lra].
Qed.

Lemma hist_sum_from : forall samples rest e0, rest <> [] -> ascending_from e0 rest ->
  sum_nat (hist_counts_from samples e0 rest) = count_if (closed e0 (last rest e0)) samples.
Proof.
  intros samples. induction rest as [|e1 r IH]; intros e0 Hne Hasc; [congruence|].
  destruct r as [|e2 r'].
  - simpl. lia.
  - destruct Hasc as [H01 Hasc].
    change (hist_counts_from samples e0 (e1 :: e2 :: r'))
      with (count_if (half_open e0 e1) samples :: hist_counts_from samples e1 (e2 :: r')).
    cbn [sum_nat]. rewrite (IH e1); [|congruence|exact Hasc].
    assert (L : last (e1 :: e2 :: r') e0 = last (e2 :: r') e1).
    { change (last (e1 :: e2 :: r') e0) with (last (e2 :: r') e0). apply last_default. }
    rewrite L. apply count_split; [exact H01|]. apply ascending_last. exact Hasc.
Qed.

Lemma hist_counts_length : forall samples rest e0, List.length (hist_counts_from samples e0 rest) = List.length rest.
Proof.
  intros samples. induction rest as [|e1 r IH]; intros e0; [reflexivity|].
  destruct r as [|e2 r']; [reflexivity|].
  change (hist_counts_from samples e0 (e1 :: e2 :: r'))
    with (count_if (half_open e0 e1) samples :: hist_counts_from samples e1 (e2 :: r')).
  cbn [List.length]. rewrite (IH e1). reflexivity.
Qed.

Lemma hist_sums_length : forall ws rest e0, List.length (hist_sums_from ws e0 rest) = List.length rest.
Proof.
  intros ws. induction rest as [|e1 r IH]; intros e0; [reflexivity|].
  destruct r as [|e2 r']; [reflexivity|].
  change (hist_sums_from ws e0 (e1 :: e2 :: r'))
    with (bin_sum (half_open e0 e1) ws :: hist_sums_from ws e1 (e2 :: r')).
  cbn [List.length]. rewrite (IH e1). reflexivity.
Qed.

Lemma widths_length : forall rest e0, List.length (widths (e0 :: rest)) = List.length rest.
Proof.
  induction rest as [|e1 r IH]; intros e0; [reflexivity|].
  change (widths (e0 :: e1 :: r)) with ((e1 - e0) :: widths (e1 :: r)). cbn [List.length]. now rewrite IH.
Qed.

Lemma bars_heights : forall edges heights, List.length edges = S (List.length heights) ->
  map (fun b => snd b) (bars_of edges heights) = heights /\
  map (fun b => fst (fst b)) (bars_of edges heights) = removelast edges /\
  map (fun b => snd (fst b)) (bars_of edges heights) = widths edges.
Proof.
  induction edges as [|e0 rest IH]; intros counts H; [discriminate|].
  destruct rest as [|e1 r].
  - destruct counts; [|discriminate]. simpl. auto.
  - destruct counts as [|c cs]; [discriminate|].
    simpl in H. injection H as H.
    destruct (IH cs) as (I1 & I2 & I3); [simpl; f_equal; exact H|].
    change (bars_of (e0 :: e1 :: r) (c :: cs)) with ((e0, e1 - e0, c) :: bars_of (e1 :: r) cs).
    cbn [map]. rewrite I1, I3. split; [reflexivity|]. split; [|reflexivity].
    change (removelast (e0 :: e1 :: r)) with (e0 :: removelast (e1 :: r)). rewrite <- I2. reflexivity.
Qed.

(** without weights the bin contents are the plain counts *)
Lemma bin_sum_count : forall (p : Q -> bool) s,
  bin_sum p (combine s (repeat 1 (List.length s))) == Qn (count_if p s).
Proof.
  intros p. induction s as [|a s IH]; [reflexivity|].
  cbn [List.length repeat combine]. unfold bin_sum in *. cbn [fold_right fst snd]. unfold count_if in *. cbn [filter].
  destruct (p a).
  - cbn [List.length]. rewrite Qn_S, IH. ring.
  - exact IH.
Qed.

Lemma hist_sums_counts : forall samples kw e, kw_weights kw = None ->
  Forall2 Qeq (hist_sums (weighted samples kw) e) (map Qn (hist_counts samples e)).
Proof.
  intros samples kw e H. unfold weighted. rewrite H. destruct e as [|e0 rest]; [constructor|]. simpl hist_sums. simpl hist_counts.
  revert e0. induction rest as [|e1 r IH]; intros e0; [constructor|].
  destruct r as [|e2 r'].
  - simpl. constructor; [apply bin_sum_count|constructor].
  - change (hist_sums_from (combine samples (repeat 1 (List.length samples))) e0 (e1 :: e2 :: r'))
      with (bin_sum (half_open e0 e1) (combine samples (repeat 1 (List.length samples)))
            :: hist_sums_from (combine samples (repeat 1 (List.length samples))) e1 (e2 :: r')).
    change (hist_counts_from samples e0 (e1 :: e2 :: r'))
      with (count_if (half_open e0 e1) samples :: hist_counts_from samples e1 (e2 :: r')).
    cbn [map]. constructor; [apply bin_sum_count|apply IH].
Qed.

(** density=True: the bars integrate to one *)
Lemma density_integral : forall (T : Q) raw ws, ~ T == 0 -> Forall (fun w => ~ w == 0) ws ->
  List.length raw = List.length ws ->
  qsum (map2 Qmult (map2 (fun r w => r / w / T) raw ws) ws) == qsum raw / T.
Proof.
  intros T raw. induction raw as [|r raw IH]; intros [|w ws] HT F L; simpl in *; try discriminate.
  - field. exact HT.
  - inversion F; subst. rewrite IH; [|exact HT|assumption|lia]. field. split; assumption.
Qed.

Lemma densities_integrate : forall raw e0 rest, ~ qsum raw == 0 ->
  Forall (fun w => ~ w == 0) (widths (e0 :: rest)) -> List.length raw = List.length rest ->
  qsum (map2 Qmult (densities raw (e0 :: rest)) (widths (e0 :: rest))) == 1.
Proof.
  intros raw e0 rest HT F L. unfold densities.
  rewrite density_integral; [field; exact HT|exact HT|exact F|rewrite widths_length; exact L].
Qed.

(** cumulative=True: the last bar is the total *)
Lemma cumsum_last : forall l a d, l <> [] -> last (cumsum_from a l) d == a + qsum l.
Proof.
  induction l as [|x l IH]; intros a d H; [congruence|].
  destruct l as [|y l'].
  - simpl. ring.
  - change (cumsum_from a (x :: y :: l')) with ((a + x) :: cumsum_from (a + x) (y :: l')).
    change (last ((a + x) :: cumsum_from (a + x) (y :: l')) d) with (last (cumsum_from (a + x) (y :: l')) d).
    rewrite IH by congruence. simpl. ring.
Qed.

Lemma hist_lemma : forall h,
  (hist_returned h = None -> hist_bars h = None) /\
  forall n e, hist_returned h = Some (n, e) ->
    (* what is drawn is computed from the same binning of the same samples as what is returned *)
    hist_bars h = Some (bars_of e (mpl_heights (hi_kw h) n e)) /\
    (kw_cumulative (hi_kw h) = false -> mpl_heights (hi_kw h) n e = n) /\
    (kw_cumulative (hi_kw h) = true ->
       mpl_heights (hi_kw h) n e = cumsum_from 0 (if kw_density (hi_kw h) then map2 Qmult n (widths e) else n)) /\
    (* the returned values are the (weighted) bin contents, or their densities *)
    hist_edges (hi_samples h) (hi_kw h) = Some e /\
    (let raw := hist_sums (weighted (hi_samples h) (hi_kw h)) e in
     n = if kw_density (hi_kw h) then densities raw e else raw) /\
    (kw_weights (hi_kw h) = None ->
       Forall2 Qeq (hist_sums (weighted (hi_samples h) (hi_kw h)) e) (map Qn (hist_counts (hi_samples h) e))) /\
    (forall e0 rest, e = e0 :: rest -> rest <> [] ->
       List.length n = List.length rest /\
       map (fun b => snd b) (bars_of e (mpl_heights (hi_kw h) n e)) = mpl_heights (hi_kw h) n e /\
       map (fun b => fst (fst b)) (bars_of e (mpl_heights (hi_kw h) n e)) = removelast e /\
       (ascending e ->
          sum_nat (hist_counts (hi_samples h) e) = count_if (closed e0 (last rest e0)) (hi_samples h))).
Proof.
  intros h. unfold hist_returned, hist_bars. rewrite restrict_np_same, restrict_hist_id.
  unfold np_histogram.
  destruct (hist_edges (hi_samples h) (hi_kw h)) as [e|]; [|split; [reflexivity|intros n e H; discriminate]].
  split; [intro H; discriminate|].
  intros n e' H. injection H as Hn <-. 
  split; [rewrite Hn; reflexivity|].
  split; [intro C; unfold mpl_heights; rewrite C; reflexivity|].
  split; [intro C; unfold mpl_heights; rewrite C; reflexivity|].
  split; [reflexivity|]. split; [cbv zeta; symmetry; exact Hn|].
  split; [intro W; apply hist_sums_counts; exact W|].
  intros e0 rest -> Hne.
  assert (Ln : List.length n = List.length rest).
  { rewrite <- Hn. destruct (kw_density (hi_kw h)).
    - unfold densities. rewrite map2_length; rewrite widths_length; [reflexivity|].
      simpl. apply hist_sums_length.
    - simpl. apply hist_sums_length. }
  assert (Lm : List.length (mpl_heights (hi_kw h) n (e0 :: rest)) = List.length rest).
  { unfold mpl_heights. destruct (kw_cumulative (hi_kw h)); [|exact Ln].
    assert (C : forall l a, List.length (cumsum_from a l) = List.length l).
    { induction l as [|x l IH]; intros a; simpl; [reflexivity|now rewrite IH]. }
    rewrite C. destruct (kw_density (hi_kw h)); [|exact Ln].
    rewrite map2_length; rewrite widths_length; [reflexivity|exact Ln]. }
  split; [exact Ln|].
  destruct (bars_heights (e0 :: rest) (mpl_heights (hi_kw h) n (e0 :: rest))) as (B1 & B2 & _);
    [simpl; f_equal; symmetry; exact Lm|].
  split; [exact B1|]. split; [exact B2|].
  intro A. simpl. apply hist_sum_from; assumption.
Qed.

(** equal-width bins over lo <= hi are in ascending order *)
Lemma ascending_map_seq : forall (f : nat -> Q) n s, (forall i, f i <= f (S i)) ->
  ascending_from (f s) (map f (seq (S s) n)).
Proof.
  intros f n. induction n as [|n IH]; intros s H; simpl; [exact I|].
  split; [apply H|]. apply IH. exact H.
Qed.

Lemma linspace_ascending : forall n lo hi, lo <= hi -> ascending (linspace n lo hi).
Proof.
  intros n lo hi H. unfold linspace. destruct n as [|n]; simpl; [exact I|].
  apply (ascending_map_seq (fun i => lo + Qn i * (hi - lo) / Qn (S n - 1))).
  intro i. rewrite Qn_S.
  destruct n as [|n].
  - simpl. unfold Qdiv. change (/ Qn 0) with 0. rewrite !Qmult_0_r. apply Qle_refl.
  - assert (P : 0 < Qn (S (S n) - 1)) by (apply Qn_pos; lia).
    setoid_replace (lo + (Qn i + 1) * (hi - lo) / Qn (S (S n) - 1))
      with (lo + Qn i * (hi - lo) / Qn (S (S n) - 1) + (hi - lo) / Qn (S (S n) - 1))
      by (field; intro E; rewrite E in P; exact (Qlt_irrefl 0 P)).
    rewrite <- (Qplus_0_r (lo + Qn i * (hi - lo) / Qn (S (S n) - 1))) at 1.
    apply Qplus_le_compat; [apply Qle_refl|].
    apply Qle_shift_div_l; [exact P|]. rewrite Qmult_0_l.
    setoid_replace 0 with (lo - lo) by ring. apply Qplus_le_compat; [exact H|apply Qle_refl].
Qed.

(** * Labels (C19_labels) *)
Definition xname_of (o : obj) : list text :=
  match o with OData d => [ds_xname (do_ds d)] | OFunc f => [fo_xname f] | _ => [] end.
Definition yname_of (o : obj) : list text :=
  match o with OData d => [ds_yname (do_ds d)] | OFunc f => [fo_yname f] | _ => [] end.
Definition xunit_of (o : obj) : list text :=
  match o with OData d => [ds_xunit (do_ds d)] | OFunc f => [fo_xunit f] | _ => [] end.
Definition yunit_of (o : obj) : list text :=
  match o with OData d => [ds_yunit (do_ds d)] | OFunc f => [fo_yunit f] | _ => [] end.

(** explicit override first; otherwise the first data set or function with a non-empty value *)
Definition chosen (override : text) (candidates : list text) : text :=
  if nonempty override then override else first_nonempty candidates.

Lemma flat_map_ext_eq : forall (A B : Type) (f g : A -> list B) l, (forall a, f a = g a) -> flat_map f l = flat_map g l.
Proof. intros A B f g l H. induction l as [|a l IH]; simpl; [reflexivity|]. now rewrite H, IH. Qed.

Lemma labels_lemma : forall cfg objs,
  plot_xname cfg objs = chosen (s_xname cfg) (flat_map xname_of objs) /\
  plot_yname cfg objs = chosen (s_yname cfg) (flat_map yname_of objs) /\
  plot_xunit cfg objs = chosen (s_xunit cfg) (flat_map xunit_of objs) /\
  plot_yunit cfg objs = chosen (s_yunit cfg) (flat_map yunit_of objs) /\
  xlabel cfg objs = label (plot_xname cfg objs) (plot_xunit cfg objs) /\
  ylabel cfg objs = label (plot_yname cfg objs) (plot_yunit cfg objs).
Proof.
  intros cfg objs.
  assert (Sx : gen_src_xname = ("xname", "xname")%string) by reflexivity.
  assert (Sy : gen_src_yname = ("yname", "yname")%string) by reflexivity.
  assert (Ux : gen_src_xunit = ("xunit", "xunit")%string) by reflexivity.
  assert (Uy : gen_src_yunit = ("yunit", "yunit")%string) by reflexivity.
  assert (X : plot_xname cfg objs = chosen (s_xname cfg) (flat_map xname_of objs)).
  { unfold plot_xname, resolve, chosen. rewrite Sx. cbn [fst snd]. change (plot_info cfg "xname") with (s_xname cfg).
    rewrite (flat_map_ext_eq _ _ (xy_attr "xname") xname_of); [reflexivity|]. intros []; reflexivity. }
  assert (Y : plot_yname cfg objs = chosen (s_yname cfg) (flat_map yname_of objs)).
  { unfold plot_yname, resolve, chosen. rewrite Sy. cbn [fst snd]. change (plot_info cfg "yname") with (s_yname cfg).
    rewrite (flat_map_ext_eq _ _ (xy_attr "yname") yname_of); [reflexivity|]. intros []; reflexivity. }
  assert (XU : plot_xunit cfg objs = chosen (s_xunit cfg) (flat_map xunit_of objs)).
  { unfold plot_xunit, resolve, chosen. rewrite Ux. cbn [fst snd]. change (plot_info cfg "xunit") with (s_xunit cfg).
    rewrite (flat_map_ext_eq _ _ (xy_attr "xunit") xunit_of); [reflexivity|]. intros []; reflexivity. }
  assert (YU : plot_yunit cfg objs = chosen (s_yunit cfg) (flat_map yunit_of objs)).
  { unfold plot_yunit, resolve, chosen. rewrite Uy. cbn [fst snd]. change (plot_info cfg "yunit") with (s_yunit cfg).
    rewrite (flat_map_ext_eq _ _ (xy_attr "yunit") yunit_of); [reflexivity|]. intros []; reflexivity. }
  split; [exact X|]. split; [exact Y|]. split; [exact XU|]. split; [exact YU|].
  (* whatever way the generated expressions are written (name ++ (if unit then [unit] else ""), or
     if unit then name[unit] else name), they are the rule [label] *)
  assert (L : forall xn yn xu yu, gen_xlabel xn yn xu yu = label xn xu /\ gen_ylabel xn yn xu yu = label yn yu).
  { intros xn yn xu yu. unfold gen_xlabel, gen_ylabel, label, format1.
    destruct xu, yu; simpl; rewrite ?app_nil_r; split; reflexivity. }
  split; [unfold xlabel; apply L|unfold ylabel; apply L].
Qed.

(** a plot of one named data set, nothing overridden: the label is that data set's name and unit *)
Lemma single_dataset_labels : forall cfg d,
  s_xname cfg = [] -> s_xunit cfg = [] -> s_yname cfg = [] -> s_yunit cfg = [] ->
  xlabel cfg [OData d] = label (ds_xname (do_ds d)) (ds_xunit (do_ds d)) /\
  ylabel cfg [OData d] = label (ds_yname (do_ds d)) (ds_yunit (do_ds d)).
Proof.
  intros cfg d H1 H2 H3 H4.
  destruct (labels_lemma cfg [OData d]) as (A & B & C & D & E & F).
  rewrite E, F, A, B, C, D. unfold chosen. rewrite H1, H2, H3, H4. simpl.
  unfold first_nonempty. simpl.
  destruct (ds_xname (do_ds d)); destruct (ds_xunit (do_ds d)); destruct (ds_yname (do_ds d));
    destruct (ds_yunit (do_ds d)); simpl; auto.
Qed.

(** * Legend: the entries are the listed labels of the objects, whatever the order *)
Lemma legend_perm : forall cfg objs, s_legend cfg = true ->
  exists l, legend cfg objs = Some l /\ Permutation l (filter listed (map obj_label objs)).
Proof.
  intros cfg objs H. unfold legend. rewrite H. eexists. split; [reflexivity|].
  induction objs as [|o objs IH]; simpl; [constructor|].
  destruct (is_container cfg o) eqn:E; simpl.
  - rewrite filter_app in *. simpl. destruct (listed (obj_label o)).
    + eapply Permutation_trans; [apply Permutation_sym, Permutation_middle|]. constructor. exact IH.
    + exact IH.
  - destruct (listed (obj_label o)); [constructor|]; exact IH.
Qed.
