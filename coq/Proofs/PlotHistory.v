(** C19 over histories: the x-range that a rendering leaves behind in a function without its own
    range never influences a later rendering -- after any sequence of plot / hist / fit calls,
    switch and x-range changes and renderings, a rendering shows exactly [Model.Plot.savefig] of the
    objects and settings as they are then. *)
From Coq Require Import List ZArith QArith Qabs Qreduction Bool String Permutation Lia Lqa.
From QV Require Import Model.PlotBase Gen.PlotGen Model.Plot Proofs.Plot Model.PlotHistory.
Import ListNotations.
Open Scope Q_scope.

Definition objs_of (slots : list slot) : list obj := map sl_obj slots.

(** a range left behind lies within the hull of the real ranges (only needed while the plot has no
    x-range of its own; once set it can never be unset) *)
Definition left_ok (cfg : settings) (slots : list slot) (s : slot) : Prop :=
  forall f r, sl_obj s = OFunc f -> fo_spec f = false -> sl_left s = Some r -> s_xrange cfg = None ->
    (exists p, In p (ranges_of (objs_of slots)) /\ fst p <= fst r) /\
    (exists p, In p (ranges_of (objs_of slots)) /\ snd r <= snd p).

Definition inv (st : pstate) : Prop :=
  (forall s, In s (ps_slots st) -> wf_obj (sl_obj s)) /\
  (forall s, In s (ps_slots st) -> left_ok (ps_cfg st) (ps_slots st) s).

Lemma slot_range_cases : forall s r, wf_obj (sl_obj s) -> slot_xrange s = Some r ->
  obj_xrange (sl_obj s) = Some r \/
  (exists f, sl_obj s = OFunc f /\ fo_spec f = false /\ sl_left s = Some r /\ obj_xrange (sl_obj s) = None).
Proof.
  intros s r W H. unfold slot_xrange in H. destruct (sl_obj s) as [d|f|f|h] eqn:E; try (left; exact H).
  destruct (fo_spec f) eqn:S.
  - left. exact H.
  - right. exists f. simpl in W. repeat split; auto.
Qed.

Lemma real_range_kept : forall s r, wf_obj (sl_obj s) -> obj_xrange (sl_obj s) = Some r -> slot_xrange s = Some r.
Proof.
  intros s r W H. unfold slot_xrange. destruct (sl_obj s) as [d|f|f|h] eqn:E; try exact H.
  destruct (fo_spec f) eqn:S; [exact H|]. simpl in W, H. rewrite (W S) in H. discriminate.
Qed.

Lemma in_ranges_of : forall objs r, In r (ranges_of objs) <-> exists o, In o objs /\ obj_xrange o = Some r.
Proof.
  intros objs r. unfold ranges_of. rewrite in_flat_map. split.
  - intros (o & Ho & Hr). exists o. split; [exact Ho|]. destruct (obj_xrange o); simpl in Hr; [|contradiction].
    destruct Hr as [->|[]]. reflexivity.
  - intros (o & Ho & Hr). exists o. split; [exact Ho|]. rewrite Hr. left. reflexivity.
Qed.

Lemma in_slot_ranges : forall slots r, In r (slot_ranges slots) <-> exists s, In s slots /\ slot_xrange s = Some r.
Proof.
  intros slots r. unfold slot_ranges. rewrite in_flat_map. split.
  - intros (o & Ho & Hr). exists o. split; [exact Ho|]. destruct (slot_xrange o); simpl in Hr; [|contradiction].
    destruct Hr as [->|[]]. reflexivity.
  - intros (o & Ho & Hr). exists o. split; [exact Ho|]. rewrite Hr. left. reflexivity.
Qed.

Lemma real_in_slot_ranges : forall slots r, (forall s, In s slots -> wf_obj (sl_obj s)) ->
  In r (ranges_of (objs_of slots)) -> In r (slot_ranges slots).
Proof.
  intros slots r W H. apply in_ranges_of in H. destruct H as (o & Ho & Hr).
  unfold objs_of in Ho. apply in_map_iff in Ho. destruct Ho as (s & <- & Hs).
  apply in_slot_ranges. exists s. split; [exact Hs|]. apply real_range_kept; auto.
Qed.

(** agreement of an aggregate over two lists when each list is dominated by the other *)
Lemma list_agg_same : forall a l l',
  (forall x, In x l -> exists y, In y l' /\ le_agg a y x) ->
  (forall y, In y l' -> exists x, In x l /\ le_agg a x y) ->
  match list_agg a l, list_agg a l' with
  | Some m, Some m' => Qred m = Qred m'
  | None, None => True
  | _, _ => False
  end.
Proof.
  intros a l l' H1 H2.
  destruct (list_agg a l) as [m|] eqn:E; destruct (list_agg a l') as [m'|] eqn:E'.
  - destruct (list_agg_spec _ _ _ E) as [I1 L1]. destruct (list_agg_spec _ _ _ E') as [I2 L2].
    apply Qred_complete. apply (le_agg_antisym a).
    + destruct (H2 _ I2) as (x & Hx & Hle). eapply le_agg_trans; [apply L1; exact Hx|exact Hle].
    + destruct (H1 _ I1) as (y & Hy & Hle). eapply le_agg_trans; [apply L2; exact Hy|exact Hle].
  - apply list_agg_none in E'. subst l'. destruct (list_agg_spec _ _ _ E) as [I1 _].
    destruct (H1 _ I1) as (y & [] & _).
  - apply list_agg_none in E. subst l. destruct (list_agg_spec _ _ _ E') as [I2 _].
    destruct (H2 _ I2) as (x & [] & _).
  - exact I.
Qed.

Lemma impl_domain_pure : forall st, inv st ->
  impl_domain (ps_cfg st) (ps_slots st) = plot_domain (ps_cfg st) (objs_of (ps_slots st)).
Proof.
  intros st [W L]. unfold impl_domain, plot_domain.
  destruct (s_xrange (ps_cfg st)) eqn:X; [reflexivity|].
  assert (GL : gen_dom_low = (AggMin, Comp0)) by reflexivity.
  assert (GH : gen_dom_high = (AggMax, Comp1)) by reflexivity.
  rewrite GL, GH. unfold bound. cbn [fst snd].
  set (S := slot_ranges (ps_slots st)). set (P := ranges_of (objs_of (ps_slots st))).
  assert (HP : forall r, In r P -> In r S) by (intros r; apply real_in_slot_ranges; exact W).
  assert (HS : forall r, In r S -> In r P \/
            ((exists p, In p P /\ fst p <= fst r) /\ (exists p, In p P /\ snd r <= snd p))).
  { intros r Hr. apply in_slot_ranges in Hr. destruct Hr as (s & Hs & Hr).
    destruct (slot_range_cases s r (W s Hs) Hr) as [H|(f & Ef & Sf & Lf & _)].
    - left. apply in_ranges_of. exists (sl_obj s). split; [apply in_map; exact Hs|exact H].
    - right. exact (L s Hs f r Ef Sf Lf X). }
  pose proof (list_agg_same AggMin (map (component Comp0) S) (map (component Comp0) P)) as A.
  pose proof (list_agg_same AggMax (map (component Comp1) S) (map (component Comp1) P)) as B.
  assert (A' : match list_agg AggMin (map (component Comp0) S), list_agg AggMin (map (component Comp0) P) with
               | Some m, Some m' => Qred m = Qred m' | None, None => True | _, _ => False end).
  { apply A.
    - intros x Hx. apply in_map_iff in Hx. destruct Hx as (r & <- & Hr). destruct (HS r Hr) as [H|[(p & Hp & Hle) _]].
      + exists (component Comp0 r). split; [apply in_map; exact H|apply Qle_refl].
      + exists (component Comp0 p). split; [apply in_map; exact Hp|exact Hle].
    - intros y Hy. apply in_map_iff in Hy. destruct Hy as (r & <- & Hr).
      exists (component Comp0 r). split; [apply in_map; apply HP; exact Hr|apply Qle_refl]. }
  assert (B' : match list_agg AggMax (map (component Comp1) S), list_agg AggMax (map (component Comp1) P) with
               | Some m, Some m' => Qred m = Qred m' | None, None => True | _, _ => False end).
  { apply B.
    - intros x Hx. apply in_map_iff in Hx. destruct Hx as (r & <- & Hr). destruct (HS r Hr) as [H|[_ (p & Hp & Hle)]].
      + exists (component Comp1 r). split; [apply in_map; exact H|apply Qle_refl].
      + exists (component Comp1 p). split; [apply in_map; exact Hp|exact Hle].
    - intros y Hy. apply in_map_iff in Hy. destruct Hy as (r & <- & Hr).
      exists (component Comp1 r). split; [apply in_map; apply HP; exact Hr|apply Qle_refl]. }
  destruct (list_agg AggMin (map (component Comp0) S)); destruct (list_agg AggMin (map (component Comp0) P));
    try contradiction;
    destruct (list_agg AggMax (map (component Comp1) S)); destruct (list_agg AggMax (map (component Comp1) P));
    try contradiction; try reflexivity.
  rewrite A', B'. reflexivity.
Qed.

Lemma assign_obj : forall dom s, sl_obj (assign dom s) = sl_obj s.
Proof. intros dom s. unfold assign. destruct (sl_obj s) as [d|f|f|h] eqn:E; try exact E. destruct (fo_spec f); [exact E|reflexivity]. Qed.

Lemma objs_of_assign : forall dom slots, objs_of (map (assign dom) slots) = objs_of slots.
Proof.
  intros dom slots. unfold objs_of. rewrite map_map. apply map_ext. intro s. apply assign_obj.
Qed.

Lemma draw_assigned : forall cfg dom s, draw_slot cfg (assign dom s) = draw_obj cfg dom (sl_obj s).
Proof.
  intros cfg dom s. unfold draw_slot, assign, slot_xrange.
  destruct (sl_obj s) as [d|f|f|h] eqn:E.
  - rewrite E. reflexivity.
  - destruct (fo_spec f) eqn:S.
    + rewrite E, S. simpl. unfold fn_domain. rewrite S. reflexivity.
    + cbn [sl_obj sl_left]. rewrite S. simpl. unfold fn_domain. rewrite S. reflexivity.
  - rewrite E. reflexivity.
  - rewrite E. reflexivity.
Qed.

Lemma savefig_figure_of : forall cfg objs, savefig cfg objs = figure_of cfg objs (render cfg objs).
Proof. intros. unfold savefig, figure_of. destruct (render cfg objs); reflexivity. Qed.

(** one rendering shows the pure figure of the current objects and settings *)
Lemma render_step_pure : forall st, inv st ->
  ps_last (pstep st Render) = Some (savefig (ps_cfg st) (objs_of (ps_slots st))) /\
  objs_of (ps_slots (pstep st Render)) = objs_of (ps_slots st) /\
  ps_cfg (pstep st Render) = ps_cfg st.
Proof.
  intros st I. pose proof (impl_domain_pure st I) as D. simpl.
  rewrite savefig_figure_of. unfold render. rewrite <- D.
  destruct (impl_domain (ps_cfg st) (ps_slots st)) as [dom|]; simpl.
  - fold (objs_of (map (assign dom) (ps_slots st))). rewrite objs_of_assign. repeat split.
    do 2 f_equal. rewrite map_map. unfold objs_of. rewrite map_map. f_equal. apply map_ext. intro s. apply draw_assigned.
  - repeat split.
Qed.

Lemma ranges_of_app : forall a b, ranges_of (a ++ b) = (ranges_of a ++ ranges_of b)%list.
Proof. intros. unfold ranges_of. apply flat_map_app. Qed.

Lemma inv_step : forall st x, wf_op x -> inv st -> inv (pstep st x).
Proof.
  intros st x Wx [W L]. destruct x as [o|r|eb res lg|t xn yn xu yu|].
  - (* Add *) split; simpl.
    + intros s Hs. apply in_app_or in Hs. destruct Hs as [Hs|[<-|[]]]; [apply W; exact Hs|exact Wx].
    + intros s Hs f r Ef Sf Lf X. apply in_app_or in Hs. destruct Hs as [Hs|[<-|[]]]; [|simpl in Lf; discriminate].
      destruct (L s Hs f r Ef Sf Lf X) as [(p & Hp & H1) (p' & Hp' & H2)].
      unfold objs_of. rewrite map_app, ranges_of_app. split.
      * exists p. split; [apply in_or_app; left; exact Hp|exact H1].
      * exists p'. split; [apply in_or_app; left; exact Hp'|exact H2].
  - (* SetXrange *) split; simpl; [exact W|]. intros s Hs f r' Ef Sf Lf X. simpl in X. discriminate.
  - (* Switch *) split; simpl; [exact W|]. intros s Hs f r Ef Sf Lf X. simpl in X. exact (L s Hs f r Ef Sf Lf X).
  - (* SetInfo *) split; simpl; [exact W|]. intros s Hs f r Ef Sf Lf X. simpl in X. exact (L s Hs f r Ef Sf Lf X).
  - (* Render *)
    pose proof (impl_domain_pure st (conj W L)) as D. simpl.
    destruct (impl_domain (ps_cfg st) (ps_slots st)) as [dom|] eqn:E; [|split; assumption].
    split; simpl.
    + intros s Hs. apply in_map_iff in Hs. destruct Hs as (s0 & <- & Hs0). rewrite assign_obj. apply W. exact Hs0.
    + intros s Hs f r Ef Sf Lf X. rewrite objs_of_assign.
      apply in_map_iff in Hs. destruct Hs as (s0 & <- & Hs0).
      rewrite assign_obj in Ef. unfold assign in Lf. rewrite Ef, Sf in Lf. simpl in Lf. injection Lf as <-.
      pose proof (plot_domain_spec (ps_cfg st) (objs_of (ps_slots st))) as Sp. rewrite X in Sp.
      destruct (ranges_of (objs_of (ps_slots st))) as [|r0 rs] eqn:ER.
      * rewrite <- D in Sp. discriminate.
      * destruct Sp as (lo & hi & Hd & Ilo & Hlo & Ihi & Hhi). rewrite <- D in Hd. injection Hd as ->.
        apply in_map_iff in Ilo. destruct Ilo as (p & <- & Hp). apply in_map_iff in Ihi. destruct Ihi as (p' & <- & Hp').
        split.
        -- exists p. split; [exact Hp|]. simpl. rewrite Qred_correct. apply Qle_refl.
        -- exists p'. split; [exact Hp'|]. simpl. rewrite Qred_correct. apply Qle_refl.
Qed.

Lemma inv_new : inv new_plot.
Proof. split; simpl; intros s []. Qed.

Lemma inv_run : forall ops st, Forall wf_op ops -> inv st -> inv (prun ops st).
Proof.
  induction ops as [|x ops IH]; intros st F I; simpl; [exact I|].
  inversion F; subst. apply IH; [assumption|]. apply inv_step; assumption.
Qed.

(** the objects and settings after a history are the ones the calls say (renderings change neither) *)
Definition added (ops : list op) : list obj :=
  flat_map (fun x => match x with Add o => [o] | _ => [] end) ops.

Lemma objs_step : forall st x, objs_of (ps_slots (pstep st x)) = (objs_of (ps_slots st) ++ added [x])%list.
Proof.
  intros st [o|r|eb res lg|t xn yn xu yu|]; simpl; try (rewrite app_nil_r; reflexivity).
  - unfold objs_of. rewrite map_app. reflexivity.
  - destruct (impl_domain (ps_cfg st) (ps_slots st)); simpl; rewrite app_nil_r; [|reflexivity].
    apply objs_of_assign.
Qed.

Lemma objs_run : forall ops st, objs_of (ps_slots (prun ops st)) = (objs_of (ps_slots st) ++ added ops)%list.
Proof.
  induction ops as [|x ops IH]; intros st; simpl; [now rewrite app_nil_r|].
  rewrite IH, objs_step. simpl. rewrite app_nil_r. rewrite <- app_assoc. reflexivity.
Qed.

Theorem history_lemma : forall ops, Forall wf_op ops ->
  let st := prun ops new_plot in
  ps_last (pstep st Render) = Some (savefig (ps_cfg st) (added ops)) /\
  objs_of (ps_slots st) = added ops.
Proof.
  intros ops F. cbv zeta.
  pose proof (inv_run ops new_plot F inv_new) as I.
  destruct (render_step_pure _ I) as (R & _ & _).
  pose proof (objs_run ops new_plot) as O. simpl in O.
  rewrite R, O. split; reflexivity.
Qed.

(** * Independence of plots *)
Lemma update_length : forall A i (f : A -> A) l, List.length (update i f l) = List.length l.
Proof. intros A i f l. revert i. induction l as [|x r IH]; intros [|j]; simpl; auto. Qed.

Lemma nth_update_same : forall A i (f : A -> A) l d, (i < List.length l)%nat -> nth i (update i f l) d = f (nth i l d).
Proof.
  intros A i f l. revert i. induction l as [|x r IH]; intros [|j] d H; simpl in *; try lia; auto.
  apply IH. lia.
Qed.

Lemma nth_update_other : forall A i j (f : A -> A) l d, i <> j -> nth i (update j f l) d = nth i l d.
Proof.
  intros A i j f l. revert i j. induction l as [|x r IH]; intros [|i] [|j] d H; simpl; auto; try congruence.
Qed.

Lemma srun_length : forall steps sts, List.length (srun steps sts) = List.length sts.
Proof.
  induction steps as [|s steps IH]; intros sts; simpl; [reflexivity|].
  rewrite IH. apply update_length.
Qed.

(** the state of plot i after a session is the state a lone plot reaches by the calls made on i *)
Lemma session_projection : forall steps sts i d, (i < List.length sts)%nat ->
  nth i (srun steps sts) d = prun (calls_on i steps) (nth i sts d).
Proof.
  induction steps as [|[j x] steps IH]; intros sts i d H; simpl; [reflexivity|].
  rewrite IH by (unfold sstep; rewrite update_length; exact H).
  unfold calls_on. simpl. destruct (Nat.eqb j i) eqn:E.
  - apply Nat.eqb_eq in E. subst j. simpl. unfold sstep. simpl. rewrite nth_update_same by exact H. reflexivity.
  - apply Nat.eqb_neq in E. unfold sstep. simpl. rewrite nth_update_other by congruence. reflexivity.
Qed.

Lemma calls_on_wf : forall i steps, Forall (fun s => wf_op (snd s)) steps -> Forall wf_op (calls_on i steps).
Proof.
  intros i steps F. unfold calls_on. induction F as [|s steps Hs F IH]; simpl; [constructor|].
  destruct (Nat.eqb (fst s) i); simpl; [constructor; assumption|assumption].
Qed.

Theorem sessions_lemma : forall k steps i, (i < k)%nat -> Forall (fun s => wf_op (snd s)) steps ->
  let st := nth i (srun steps (repeat new_plot k)) new_plot in
  st = prun (calls_on i steps) new_plot /\
  ps_last (pstep st Render) = Some (savefig (ps_cfg st) (added (calls_on i steps))) /\
  objs_of (ps_slots st) = added (calls_on i steps).
Proof.
  intros k steps i H F. cbv zeta.
  assert (P : nth i (srun steps (repeat new_plot k)) new_plot = prun (calls_on i steps) new_plot).
  { rewrite session_projection by (rewrite repeat_length; exact H).
    f_equal. apply nth_repeat. }
  rewrite P. split; [reflexivity|]. apply history_lemma. apply calls_on_wf. exact F.
Qed.
