(** C09 -- what the model of printing.py prints, for every rounding function that lands within
    half a unit and every order-of-magnitude function with 10^ord x <= |x| < 10^(ord x + 1). *)
From Coq Require Import ZArith QArith Qabs Qround Qpower Bool Lia Lqa Psatz.
From QV Require Import Model.Printing Proofs.PrintingAux Proofs.PrintingArith.
Open Scope Q_scope.

Definition ord_spec (ord : Q -> Z) : Prop :=
  forall x, ~ x == 0 -> pow10 (ord x) <= Qabs x /\ Qabs x < pow10 (ord x + 1).

Definition rounders_ok (rd : rounders) : Prop :=
  rounds (r_val rd) /\ rounds (r_err rd) /\ rounds (f_val rd) /\ rounds (f_err rd).

Lemma is_zero_true x : is_zero x = true <-> x == 0.
Proof. unfold is_zero. apply Qeq_bool_iff. Qed.
Lemma is_zero_false x : is_zero x = false <-> ~ x == 0.
Proof.
  unfold is_zero. split.
  - intros H E. apply Qeq_bool_iff in E. congruence.
  - intro H. destruct (Qeq_bool x 0) eqn:E; [|reflexivity]. apply Qeq_bool_iff in E. contradiction.
Qed.

Lemma snap_lt1 : snap_factor < 1. Proof. apply gen_snap_factor_ok. Qed.
Lemma snap_pos : 0 < snap_factor. Proof. destruct gen_snap_factor_ok as [L _]. lra. Qed.

Lemma Qabs_nz x : ~ x == 0 -> 0 < Qabs x.
Proof.
  intro H. destruct (Qlt_le_dec 0 (Qabs x)) as [L|L]; [exact L|].
  exfalso. apply H. pose proof (Qabs_nonneg x) as N.
  assert (E : Qabs x == 0) by lra. revert E. apply Qabs_case; intros; lra.
Qed.

Lemma nz_of_lower x t : 0 < t -> t <= Qabs x -> ~ x == 0.
Proof. intros Ht H E. rewrite E in H. change (Qabs 0) with 0 in H. lra. Qed.

Section WithOrd.
Variable ord : Q -> Z.
Hypothesis Hord : ord_spec ord.

Lemma ord_unique x k : pow10 k <= Qabs x -> Qabs x < pow10 (k + 1) -> ord x = k.
Proof.
  intros L U. assert (Hx : ~ x == 0) by (eapply nz_of_lower; [apply (pow10_pos k)|exact L]).
  destruct (Hord x Hx) as [L' U'].
  assert (A : (k < ord x + 1)%Z) by (apply pow10_lt_inv; lra).
  assert (C : (ord x < k + 1)%Z) by (apply pow10_lt_inv; lra).
  lia.
Qed.

Lemma ord_scale x k : ~ x == 0 -> ord (x / pow10 k) = (ord x - k)%Z.
Proof.
  intro Hx. destruct (Hord x Hx) as [L U]. pose proof (pow10_pos k) as Pk.
  apply ord_unique; rewrite Qabs_div_pos by exact Pk.
  - rewrite pow10_sub. apply Qle_shift_div_l; [exact Pk|].
    unfold Qdiv. rewrite <- Qmult_assoc, (Qmult_comm (/ _)), Qmult_inv_r, Qmult_1_r by (apply pow10_nz). exact L.
  - replace (ord x - k + 1)%Z with (ord x + 1 - k)%Z by lia.
    rewrite pow10_sub. apply Qlt_shift_div_r; [exact Pk|].
    unfold Qdiv. rewrite <- Qmult_assoc, (Qmult_comm (/ _)), Qmult_inv_r, Qmult_1_r by (apply pow10_nz). exact U.
Qed.

(** the helper [order_of] of __find_number_of_decimals *)
Lemma order_of_eq x k : pow10 k <= Qabs x -> Qabs x < pow10 (k + 1) * snap_factor -> order_of ord x = k.
Proof.
  intros L U. pose proof (pow10_pos (k + 1)) as P. pose proof snap_lt1.
  assert (U' : Qabs x < pow10 (k + 1)) by nra.
  unfold order_of. cbv zeta. rewrite ?gen_snap_next_eq, ?gen_snap_bump_eq, (ord_unique x k L U').
  destruct (Qle_bool (pow10 (k + 1) * snap_factor) (Qabs x)) eqn:E; [|reflexivity].
  apply Qle_bool_iff in E. lra.
Qed.

Lemma order_of_cases x : order_of ord x = ord x \/ order_of ord x = (ord x + 1)%Z.
Proof. unfold order_of. cbv zeta. rewrite ?gen_snap_bump_eq. destruct (Qle_bool _ _); auto. Qed.

Lemma order_of_exact x : ~ x == 0 -> Qabs x < pow10 (ord x + 1) * snap_factor -> order_of ord x = ord x.
Proof. intros Hx U. destruct (Hord x Hx) as [L _]. apply order_of_eq; assumption. Qed.

Section WithRounders.
Variable rd : rounders.
Hypothesis Hrd : rounders_ok rd.

Lemma conv_eq ex x : conv ex x == x / pow10 (expo ex).
Proof. destruct ex; unfold conv, expo; [reflexivity|]. change (pow10 0) with 1. unfold Qdiv. change (/ 1) with 1. ring. Qed.

(** *** automatic / error mode, non-zero uncertainty *)
Definition good_pair (n : Z) (ref_is_error : bool) (v e : Q) (o : output) : Prop :=
  let ref := if ref_is_error then out_error o else out_value o in
  let p := (ord ref - n + 1)%Z in
  ~ ref == 0 /\
  o_dec o = Z.max 0 (o_exp o - p) /\
  (exists j : Z, ref == inject_Z j * pow10 p) /\
  Qabs (out_value o - v) <= ((1 # 2) + (1 # 20)) * pow10 p /\
  Qabs (out_error o - e) <= ((1 # 2) + (1 # 20)) * pow10 p.

(** nothing is printed below the place of the n-th figure of the reference number as given, and
    the printed reference number is in the same decade or (carry) the next one *)
Definition fine_place (n : Z) (ref_in ref_out : Q) (o : output) : Prop :=
  (ord ref_out = ord ref_in \/ ord ref_out = (ord ref_in + 1)%Z) /\
  (exists j : Z, out_value o == inject_Z j * pow10 (ord ref_in - n + 1)) /\
  (exists j : Z, out_error o == inject_Z j * pow10 (ord ref_in - n + 1)).

Lemma core_auto_error latex ex c v e :
  (1 <= c_n c <= 13)%Z -> uses_error (c_mode c) = true -> 0 < e ->
  exists o, core ord rd latex ex c v e = Some o /\
            o_bare o = false /\ o_exp o = expo ex /\ o_latex o = latex /\
            good_pair (c_n c) true v e o /\
            Qabs (out_error o - e) <= (1 # 2) * pow10 (ord e - c_n c + 1) /\
            fine_place (c_n c) e (out_error o) o.
Proof.
  intros [Hn Hn13] Hm He. destruct Hrd as (Hrv & Hre & Hfv & Hfe).
  assert (Hez : ~ e == 0) by (intro E; rewrite E in He; discriminate He).
  destruct (Hord e Hez) as [Lo Hi].
  set (n := c_n c) in *. set (oe := ord e) in *. set (k := expo ex).
  set (cb := carry (r_err rd) e oe n).
  set (B := pow10 (oe - n + 1)).
  set (Re := inject_Z (r_err rd (e / B)) * B).
  set (Rv := inject_Z (r_val rd (v / B)) * B).
  set (p := (oe + cb - n + 1)%Z). set (d := Z.max 0 (k - p)).
  assert (Ece : conv ex Re == Re / pow10 k) by apply conv_eq.
  assert (Ecv : conv ex Rv == Rv / pow10 k) by apply conv_eq.
  destruct (scaled_bounds (r_err rd) Hre e oe n Hn Lo Hi k (conv ex Re) Ece) as [SL SU].
  pose proof (scaled_far (r_err rd) Hre e oe n Hn Lo Hi k (conv ex Re) Hn13 Ece) as SF.
  fold cb in SL, SU, SF.
  assert (Hcez : ~ conv ex Re == 0) by (eapply nz_of_lower; [apply pow10_pos|exact SL]).
  assert (Hoo : order_of ord (conv ex Re) = (oe + cb - k)%Z) by (apply order_of_eq; assumption).
  (* compute the model *)
  unfold core, round_values. rewrite Hm.
  assert (Z1 : is_zero e = false) by (apply is_zero_false; exact Hez). rewrite Z1.
  rewrite gen_back_off_err_eq. fold n oe B Re Rv.
  unfold find_decimals. rewrite Hm, gen_decimals_eq. fold n.
  assert (Z2 : is_zero (conv ex Re) = false) by (apply is_zero_false; exact Hcez). rewrite Z2, Z2, Hoo.
  replace (Z.max 0 (- (oe + cb - k) + n - 1)) with d by (unfold d, p; lia).
  eexists. split; [reflexivity|].
  cbn [o_bare o_exp o_latex]. split; [reflexivity|]. split; [reflexivity|]. split; [reflexivity|].
  cut (good_pair n true v e
         {| o_sci := match ex with None => false | Some _ => true end; o_latex := latex;
            o_val := f_val rd (conv ex Rv * pow10 d); o_err := f_err rd (conv ex Re * pow10 d);
            o_bare := false; o_dec := d; o_exp := expo ex |} /\
       inject_Z (f_err rd (conv ex Re * pow10 d)) / pow10 d * pow10 (expo ex) == Re /\
       ord (inject_Z (f_err rd (conv ex Re * pow10 d)) / pow10 d * pow10 (expo ex)) = (oe + cb)%Z /\
       (exists j : Z, inject_Z (f_val rd (conv ex Rv * pow10 d)) / pow10 d * pow10 (expo ex) == inject_Z j * B)).
  { intros (G & Ee & Eo & Em). split; [exact G|]. split.
    - unfold out_error. cbn [o_err o_dec o_exp]. rewrite Ee.
      pose proof (ref_close (r_err rd) Hre e oe n k) as RC. fold B Re cb p in RC.
      replace (p - cb)%Z with (oe - n + 1)%Z in RC by (unfold p; lia). exact RC.
    - unfold fine_place, out_error, out_value. cbn [o_val o_err o_dec o_exp]. fold oe B. split.
      + rewrite Eo. destruct (carry_01 (r_err rd) Hre e oe n Hn Lo Hi) as [C|C]; fold cb in C; rewrite C; [left|right]; lia.
      + split; [exact Em|]. exists (r_err rd (e / B)). rewrite Ee. reflexivity. }
  (* what is printed *)
  assert (Eerr : inject_Z (f_err rd (conv ex Re * pow10 d)) / pow10 d * pow10 k == Re).
  { apply (ref_printed (r_err rd) (f_err rd) Hre Hfe e oe n Hn Lo Hi k). fold B Re cb p d. rewrite Ece. reflexivity. }
  destruct (Rref_bounds (r_err rd) Hre e oe n Hn Lo Hi) as [RL RU]. fold B Re cb in RL, RU.
  split; [|split; [exact Eerr|split]].
  2:{ apply ord_unique; fold k; rewrite Eerr; assumption. }
  2:{ apply (other_multiple (r_err rd) (r_val rd) (f_val rd) Hre Hfv e oe n Hn Lo Hi k v).
      fold B Rv cb p d. rewrite Ecv. reflexivity. }
  unfold good_pair, out_error, out_value. cbn [o_val o_err o_dec o_exp]. fold k.
  set (E := inject_Z (f_err rd (conv ex Re * pow10 d)) / pow10 d * pow10 k) in *.
  assert (Eord : ord E = (oe + cb)%Z) by (apply ord_unique; rewrite Eerr; assumption).
  rewrite Eord. fold p. rewrite Eerr.
  split; [eapply nz_of_lower; [apply pow10_pos|exact RL]|].
  split; [reflexivity|].
  split.
  { destruct (Rref_multiple (r_err rd) Hre e oe n Hn Lo Hi k) as [j Hj]. exists j. rewrite Eerr. exact Hj. }
  split.
  - apply (other_printed (r_err rd) (r_val rd) (f_val rd) Hre Hrv Hfv e oe n Hn Lo Hi k v).
    fold B Rv cb p d. rewrite Ecv. reflexivity.
  - pose proof (ref_close (r_err rd) Hre e oe n k) as RC. fold B Re cb p in RC.
    pose proof (place_mono (r_err rd) Hre e oe n Hn Lo Hi k) as PM. fold cb p in PM.
    pose proof (pow10_pos p). apply Qabs_le_iff in RC. apply Qabs_le_iff. lra.
Qed.

(** *** value mode, non-zero value (the uncertainty may be zero) *)
Lemma core_value latex ex c v e :
  (1 <= c_n c <= 13)%Z -> uses_error (c_mode c) = false -> ~ v == 0 -> 0 <= e ->
  exists o, core ord rd latex ex c v e = Some o /\
            o_bare o = is_zero e /\ (is_zero e = true -> o_err o = 0%Z) /\
            o_exp o = expo ex /\ o_latex o = latex /\
            good_pair (c_n c) false v e o /\
            Qabs (out_value o - v) <= (1 # 2) * pow10 (ord v - c_n c + 1) /\
            fine_place (c_n c) v (out_value o) o.
Proof.
  intros [Hn Hn13] Hm Hvz He. destruct Hrd as (Hrv & Hre & Hfv & Hfe).
  destruct (Hord v Hvz) as [Lo Hi].
  set (n := c_n c) in *. set (ov := ord v) in *. set (k := expo ex).
  set (cb := carry (r_val rd) v ov n).
  set (B := pow10 (ov - n + 1)).
  set (Re := inject_Z (r_err rd (e / B)) * B).
  set (Rv := inject_Z (r_val rd (v / B)) * B).
  set (p := (ov + cb - n + 1)%Z). set (d := Z.max 0 (k - p)).
  assert (Ece : conv ex Re == Re / pow10 k) by apply conv_eq.
  assert (Ecv : conv ex Rv == Rv / pow10 k) by apply conv_eq.
  destruct (scaled_bounds (r_val rd) Hrv v ov n Hn Lo Hi k (conv ex Rv) Ecv) as [SL SU].
  pose proof (scaled_far (r_val rd) Hrv v ov n Hn Lo Hi k (conv ex Rv) Hn13 Ecv) as SF.
  fold cb in SL, SU, SF.
  assert (Hcvz : ~ conv ex Rv == 0) by (eapply nz_of_lower; [apply pow10_pos|exact SL]).
  assert (Hoo : order_of ord (conv ex Rv) = (ov + cb - k)%Z) by (apply order_of_eq; assumption).
  unfold core, round_values. rewrite Hm.
  assert (Z1 : is_zero v = false) by (apply is_zero_false; exact Hvz). rewrite Z1.
  rewrite gen_back_off_val_eq. fold n ov B Re Rv.
  unfold find_decimals. rewrite Hm, gen_decimals_eq. fold n.
  assert (Z2 : is_zero (conv ex Rv) = false) by (apply is_zero_false; exact Hcvz). rewrite Z2, Z2, Hoo.
  replace (Z.max 0 (- (ov + cb - k) + n - 1)) with d by (unfold d, p; lia).
  eexists. split; [reflexivity|].
  cbn [o_bare o_exp o_latex o_err]. split; [reflexivity|].
  split; [intros ->; reflexivity|]. split; [reflexivity|]. split; [reflexivity|].
  cut (good_pair n false v e
         {| o_sci := match ex with None => false | Some _ => true end; o_latex := latex;
            o_val := f_val rd (conv ex Rv * pow10 d);
            o_err := if is_zero e then 0%Z else f_err rd (conv ex Re * pow10 d);
            o_bare := is_zero e; o_dec := d; o_exp := expo ex |} /\
       inject_Z (f_val rd (conv ex Rv * pow10 d)) / pow10 d * pow10 (expo ex) == Rv /\
       ord (inject_Z (f_val rd (conv ex Rv * pow10 d)) / pow10 d * pow10 (expo ex)) = (ov + cb)%Z /\
       (exists j : Z, inject_Z (if is_zero e then 0%Z else f_err rd (conv ex Re * pow10 d)) / pow10 d * pow10 (expo ex)
                      == inject_Z j * B)).
  { intros (G & Ee & Eo & Em). split; [exact G|]. split.
    - unfold out_value. cbn [o_val o_dec o_exp]. rewrite Ee.
      pose proof (ref_close (r_val rd) Hrv v ov n k) as RC. fold B Rv cb p in RC.
      replace (p - cb)%Z with (ov - n + 1)%Z in RC by (unfold p; lia). exact RC.
    - unfold fine_place, out_error, out_value. cbn [o_val o_err o_dec o_exp]. fold ov B. split.
      + rewrite Eo. destruct (carry_01 (r_val rd) Hrv v ov n Hn Lo Hi) as [C|C]; fold cb in C; rewrite C; [left|right]; lia.
      + split; [|exact Em]. exists (r_val rd (v / B)). rewrite Ee. reflexivity. }
  assert (Eval : inject_Z (f_val rd (conv ex Rv * pow10 d)) / pow10 d * pow10 k == Rv).
  { apply (ref_printed (r_val rd) (f_val rd) Hrv Hfv v ov n Hn Lo Hi k). fold B Rv cb p d. rewrite Ecv. reflexivity. }
  destruct (Rref_bounds (r_val rd) Hrv v ov n Hn Lo Hi) as [RL RU]. fold B Rv cb in RL, RU.
  split; [|split; [exact Eval|split]].
  2:{ apply ord_unique; fold k; rewrite Eval; assumption. }
  2:{ destruct (is_zero e).
      - exists 0%Z. pose proof (pow10_pos d). pose proof (pow10_pos (expo ex)). unfold inject_Z. field. lra.
      - apply (other_multiple (r_val rd) (r_err rd) (f_err rd) Hrv Hfe v ov n Hn Lo Hi k e).
        fold B Re cb p d. rewrite Ece. reflexivity. }
  unfold good_pair, out_error, out_value. cbn [o_val o_err o_dec o_exp]. fold k.
  set (V := inject_Z (f_val rd (conv ex Rv * pow10 d)) / pow10 d * pow10 k) in *.
  assert (Eord : ord V = (ov + cb)%Z) by (apply ord_unique; rewrite Eval; assumption).
  rewrite Eord. fold p. rewrite Eval.
  split; [eapply nz_of_lower; [apply pow10_pos|exact RL]|].
  split; [reflexivity|].
  split.
  { destruct (Rref_multiple (r_val rd) Hrv v ov n Hn Lo Hi k) as [j Hj]. exists j. rewrite Eval. exact Hj. }
  split.
  - pose proof (ref_close (r_val rd) Hrv v ov n k) as RC. fold B Rv cb p in RC.
    pose proof (place_mono (r_val rd) Hrv v ov n Hn Lo Hi k) as PM. fold cb p in PM.
    pose proof (pow10_pos p). apply Qabs_le_iff in RC. apply Qabs_le_iff. lra.
  - destruct (is_zero e) eqn:Ze.
    + apply is_zero_true in Ze. pose proof (pow10_pos p) as Pp. pose proof (pow10_pos d). pose proof (pow10_pos k).
      assert (E0 : inject_Z 0 / pow10 d * pow10 k - e == 0) by (rewrite Ze; unfold inject_Z; field; lra).
      rewrite E0. change (Qabs 0) with 0. lra.
    + apply (other_printed (r_val rd) (r_err rd) (f_err rd) Hrv Hre Hfe v ov n Hn Lo Hi k e).
      fold B Re cb p d. rewrite Ece. reflexivity.
Qed.

(** [order_of] commutes with the division of the scientific printer *)
Lemma order_of_conv ex x : ~ x == 0 -> order_of ord (conv ex x) = (order_of ord x - expo ex)%Z.
Proof.
  intro Hx. destruct ex as [k|]; unfold conv, expo; [|lia].
  unfold order_of. cbv zeta. rewrite ?gen_snap_next_eq, ?gen_snap_bump_eq, (ord_scale x k Hx). pose proof (pow10_pos k) as Pk.
  rewrite Qabs_div_pos by exact Pk.
  replace (ord x - k + 1)%Z with (ord x + 1 - k)%Z by lia.
  destruct (Qle_bool (pow10 (ord x + 1) * snap_factor) (Qabs x)) eqn:E1;
    destruct (Qle_bool (pow10 (ord x + 1 - k) * snap_factor) (Qabs x / pow10 k)) eqn:E2; try lia; exfalso.
  - apply Qle_bool_iff in E1. assert (N : ~ pow10 (ord x + 1 - k) * snap_factor <= Qabs x / pow10 k)
      by (intro A; apply Qle_bool_iff in A; congruence).
    apply N. rewrite pow10_sub. apply Qle_shift_div_l; [exact Pk|].
    assert (E3 : pow10 (ord x + 1) / pow10 k * snap_factor * pow10 k == pow10 (ord x + 1) * snap_factor)
      by (field; apply pow10_nz).
    rewrite E3. exact E1.
  - apply Qle_bool_iff in E2. assert (N : ~ pow10 (ord x + 1) * snap_factor <= Qabs x)
      by (intro A; apply Qle_bool_iff in A; congruence).
    apply N. rewrite pow10_sub in E2.
    assert (E3 : pow10 (ord x + 1) * snap_factor == pow10 (ord x + 1) / pow10 k * snap_factor * pow10 k)
      by (field; apply pow10_nz).
    rewrite E3. assert (E4 : Qabs x == Qabs x / pow10 k * pow10 k) by (field; apply pow10_nz).
    rewrite E4. apply Qmult_le_compat_r; [exact E2|lra].
Qed.

Lemma conv_zero ex x : x == 0 -> is_zero (conv ex x) = true.
Proof.
  intro H. apply is_zero_true. rewrite conv_eq, H. pose proof (pow10_pos (expo ex)). field. lra.
Qed.

Lemma conv_nz ex x : ~ x == 0 -> is_zero (conv ex x) = false.
Proof.
  intro H. apply is_zero_false. rewrite conv_eq. intro E. apply H.
  pose proof (pow10_pos (expo ex)) as P.
  assert (E2 : x == x / pow10 (expo ex) * pow10 (expo ex)) by (field; lra).
  rewrite E2, E. ring.
Qed.

(** *** zero uncertainty in automatic / error mode: the value is formatted directly *)
Lemma core_zero_error latex ex c v e :
  (1 <= c_n c)%Z -> uses_error (c_mode c) = true -> ~ v == 0 -> e == 0 ->
  exists o, core ord rd latex ex c v e = Some o /\
            o_bare o = true /\ o_err o = 0%Z /\ o_exp o = expo ex /\ o_latex o = latex /\
            o_dec o = Z.max 0 (o_exp o - (order_of ord v - c_n c + 1)) /\
            Qabs (out_value o - v) <= (1 # 2) * out_unit o.
Proof.
  intros Hn Hm Hvz He. destruct Hrd as (Hrv & Hre & Hfv & Hfe).
  unfold core, round_values. rewrite Hm.
  assert (Z1 : is_zero e = true) by (apply is_zero_true; exact He). rewrite Z1.
  unfold find_decimals. rewrite Hm, gen_decimals_eq, (conv_zero ex e He), (conv_nz ex v Hvz), (order_of_conv ex v Hvz).
  eexists. split; [reflexivity|]. cbn [o_bare o_err o_exp o_latex o_dec].
  repeat (split; [reflexivity|]).
  split; [f_equal; lia|].
  unfold out_value, out_unit. cbn [o_val o_dec o_exp].
  apply fmt_bound; [exact Hfv|]. rewrite conv_eq. reflexivity.
Qed.

(** *** value mode with a zero value: the uncertainty is formatted directly *)
Lemma core_zero_value latex ex c v e :
  (1 <= c_n c)%Z -> uses_error (c_mode c) = false -> v == 0 -> 0 < e ->
  exists o, core ord rd latex ex c v e = Some o /\
            o_bare o = false /\ o_val o = 0%Z /\ o_exp o = expo ex /\ o_latex o = latex /\
            o_dec o = Z.max 0 (o_exp o - (order_of ord e - c_n c + 1)) /\
            Qabs (out_error o - e) <= (1 # 2) * out_unit o.
Proof.
  intros Hn Hm Hv He. destruct Hrd as (Hrv & Hre & Hfv & Hfe).
  assert (Hez : ~ e == 0) by (intro E; rewrite E in He; discriminate He).
  unfold core, round_values. rewrite Hm.
  assert (Z1 : is_zero v = true) by (apply is_zero_true; exact Hv). rewrite Z1.
  assert (Z2 : is_zero e = false) by (apply is_zero_false; exact Hez).
  unfold find_decimals. rewrite Hm, gen_decimals_eq, (conv_zero ex v Hv), (conv_nz ex e Hez), (order_of_conv ex e Hez), Z2.
  eexists. split; [reflexivity|]. cbn [o_bare o_err o_val o_exp o_latex o_dec].
  split; [reflexivity|].
  split.
  { apply (rounds_int _ _ 0%Z Hfv). rewrite conv_eq, Hv. pose proof (pow10_pos (expo ex)). unfold inject_Z. field. lra. }
  repeat (split; [reflexivity|]).
  split; [f_equal; lia|].
  unfold out_error, out_unit. cbn [o_err o_dec o_exp].
  apply fmt_bound; [exact Hfe|]. rewrite conv_eq. reflexivity.
Qed.

(** *** style dispatch *)
Definition style_latex (s : style) : bool := match s with Latex => true | _ => false end.

Lemma printer_core s c v e : is_zero v && is_zero e = false ->
  exists ex, printer ord rd s c v e = core ord rd (style_latex s) ex c v e /\
             (s = Default -> ex = None) /\
             (forall k, ex = Some k -> k <> 0%Z /\ k = ord (if is_zero v then e else v)).
Proof.
  intro Hz. destruct s; unfold printer, sci_printer, default_printer; rewrite Hz; cbn [style_latex].
  - exists None. split; [reflexivity|]. split; [reflexivity|discriminate].
  - destruct (Z.eqb_spec (ord (if is_zero v then e else v)) 0) as [E|E].
    + exists None. split; [reflexivity|]. split; [discriminate|discriminate].
    + eexists. split; [reflexivity|]. split; [discriminate|]. intros k [= <-]. split; [exact E|reflexivity].
  - destruct (Z.eqb_spec (ord (if is_zero v then e else v)) 0) as [E|E].
    + exists None. split; [reflexivity|]. split; [discriminate|discriminate].
    + eexists. split; [reflexivity|]. split; [discriminate|]. intros k [= <-]. split; [exact E|reflexivity].
Qed.

Lemma nz_pair_l v e : ~ v == 0 -> is_zero v && is_zero e = false.
Proof. intro H. apply is_zero_false in H. rewrite H. reflexivity. Qed.
Lemma nz_pair_r v e : ~ e == 0 -> is_zero v && is_zero e = false.
Proof. intro H. apply is_zero_false in H. rewrite H. apply andb_false_r. Qed.

(** the shape facts shared by all theorems *)
Definition shape (s : style) (v e : Q) (o : output) : Prop :=
  o_latex o = style_latex s /\
  (s = Default -> o_sci o = false /\ o_exp o = 0%Z) /\
  (o_sci o = false -> o_exp o = 0%Z) /\
  (o_sci o = true -> o_exp o <> 0%Z /\ o_exp o = ord (if is_zero v then e else v)).

Lemma core_shape latex ex c v e o : core ord rd latex ex c v e = Some o ->
  o_latex o = latex /\ o_exp o = expo ex /\ o_sci o = match ex with None => false | Some _ => true end.
Proof.
  unfold core. destruct (round_values ord rd c v e) as [rv re].
  destruct (find_decimals _ _ _ _); [|discriminate]. intros [= <-]. cbn. auto.
Qed.

Lemma printer_shape s c v e o : is_zero v && is_zero e = false ->
  printer ord rd s c v e = Some o -> shape s v e o.
Proof.
  intros Hz Hp. destruct (printer_core s c v e Hz) as (ex & Ep & Hd & Hs).
  rewrite Ep in Hp. destruct (core_shape _ _ _ _ _ _ Hp) as (L & X & S).
  unfold shape. split; [exact L|]. split.
  - intro D. rewrite (Hd D) in *. cbn in *. auto.
  - rewrite S, X. destruct ex as [k|]; cbn [expo]; split.
    + discriminate.
    + intros _. apply Hs. reflexivity.
    + reflexivity.
    + discriminate.
Qed.

(** *** the theorems, at the level of [printer] *)
Theorem auto_error_lemma s c v e :
  (1 <= c_n c <= 13)%Z -> c_mode c <> ValueMode -> 0 < e ->
  exists o, printer ord rd s c v e = Some o /\ shape s v e o /\ o_bare o = false /\
    let E := out_error o in
    let p := (ord E - c_n c + 1)%Z in
    ~ E == 0 /\
    o_dec o = Z.max 0 (o_exp o - p) /\
    (exists j : Z, E == inject_Z j * pow10 p) /\
    Qabs (out_value o - v) <= ((1 # 2) + (1 # 20)) * pow10 p /\
    Qabs (out_error o - e) <= ((1 # 2) + (1 # 20)) * pow10 p /\
    Qabs (out_error o - e) <= (1 # 2) * pow10 (ord e - c_n c + 1) /\
    (ord (out_error o) = ord e \/ ord (out_error o) = (ord e + 1)%Z) /\
    (exists j : Z, out_value o == inject_Z j * pow10 (ord e - c_n c + 1)) /\
    (exists j : Z, out_error o == inject_Z j * pow10 (ord e - c_n c + 1)).
Proof.
  intros Hn Hm He.
  assert (Hez : ~ e == 0) by (intro E; rewrite E in He; discriminate He).
  assert (Hu : uses_error (c_mode c) = true) by (destruct (c_mode c); [reflexivity|contradiction|reflexivity]).
  pose proof (nz_pair_r v e Hez) as Hz.
  destruct (printer_core s c v e Hz) as (ex & Ep & _).
  destruct (core_auto_error (style_latex s) ex c v e Hn Hu He) as (o & Ho & Hb & _ & _ & G & G1 & (F1 & F2 & F3)).
  exists o. rewrite Ep. split; [exact Ho|]. split; [apply (printer_shape s c v e o Hz); rewrite Ep; exact Ho|].
  split; [exact Hb|]. destruct G as (g1 & g2 & g3 & g4 & g5). repeat split; assumption.
Qed.

Theorem value_mode_lemma s c v e :
  (1 <= c_n c <= 13)%Z -> c_mode c = ValueMode -> ~ v == 0 -> 0 <= e ->
  exists o, printer ord rd s c v e = Some o /\ shape s v e o /\
    (e == 0 -> o_bare o = true /\ o_err o = 0%Z) /\ (0 < e -> o_bare o = false) /\
    let V := out_value o in
    let p := (ord V - c_n c + 1)%Z in
    ~ V == 0 /\
    o_dec o = Z.max 0 (o_exp o - p) /\
    (exists j : Z, V == inject_Z j * pow10 p) /\
    Qabs (out_value o - v) <= ((1 # 2) + (1 # 20)) * pow10 p /\
    Qabs (out_error o - e) <= ((1 # 2) + (1 # 20)) * pow10 p /\
    Qabs (out_value o - v) <= (1 # 2) * pow10 (ord v - c_n c + 1) /\
    (ord (out_value o) = ord v \/ ord (out_value o) = (ord v + 1)%Z) /\
    (exists j : Z, out_value o == inject_Z j * pow10 (ord v - c_n c + 1)) /\
    (exists j : Z, out_error o == inject_Z j * pow10 (ord v - c_n c + 1)).
Proof.
  intros Hn Hm Hv He.
  assert (Hu : uses_error (c_mode c) = false) by (rewrite Hm; reflexivity).
  pose proof (nz_pair_l v e Hv) as Hz.
  destruct (printer_core s c v e Hz) as (ex & Ep & _).
  destruct (core_value (style_latex s) ex c v e Hn Hu Hv He) as (o & Ho & Hb & Hb0 & _ & _ & G & G1 & (F1 & F2 & F3)).
  exists o. rewrite Ep. split; [exact Ho|]. split; [apply (printer_shape s c v e o Hz); rewrite Ep; exact Ho|].
  split.
  { intro E0. apply is_zero_true in E0. rewrite Hb. split; [exact E0|apply Hb0; exact E0]. }
  split.
  { intro Hp. rewrite Hb. apply is_zero_false. intro E0. rewrite E0 in Hp. discriminate Hp. }
  destruct G as (g1 & g2 & g3 & g4 & g5). repeat split; assumption.
Qed.

Theorem zero_error_lemma s c v e :
  (1 <= c_n c <= 13)%Z -> e == 0 ->
  exists o, printer ord rd s c v e = Some o /\ o_bare o = true /\ o_err o = 0%Z /\
    (v == 0 -> o_val o = 0%Z /\ o_dec o = 0%Z /\ o_sci o = false) /\
    (~ v == 0 -> shape s v e o /\
       (c_mode c <> ValueMode ->
          o_dec o = Z.max 0 (o_exp o - (order_of ord v - c_n c + 1)) /\
          Qabs (out_value o - v) <= (1 # 2) * out_unit o) /\
       (c_mode c = ValueMode ->
          let p := (ord (out_value o) - c_n c + 1)%Z in
          o_dec o = Z.max 0 (o_exp o - p) /\ (exists j : Z, out_value o == inject_Z j * pow10 p) /\
          Qabs (out_value o - v) <= (1 # 2) * pow10 (ord v - c_n c + 1))).
Proof.
  intros Hn He. destruct (is_zero v) eqn:Zv.
  - (* 0 +/- 0 *)
    assert (Ze : is_zero e = true) by (apply is_zero_true; exact He).
    exists (zero_output (style_latex s)). split.
    { destruct s; unfold printer, sci_printer, default_printer; rewrite Zv, Ze; reflexivity. }
    cbn. split; [reflexivity|]. split; [reflexivity|]. split; [auto|].
    intro N. apply is_zero_true in Zv. contradiction.
  - apply is_zero_false in Zv. pose proof (nz_pair_l v e Zv) as Hz.
    destruct (printer_core s c v e Hz) as (ex & Ep & _).
    destruct (uses_error (c_mode c)) eqn:Hu.
    + destruct (core_zero_error (style_latex s) ex c v e (proj1 Hn) Hu Zv He) as (o & Ho & Hb & Hb0 & Hx & _ & Hd & G).
      exists o. rewrite Ep. split; [exact Ho|]. split; [exact Hb|]. split; [exact Hb0|].
      split; [intro; contradiction|]. intros _.
      split; [apply (printer_shape s c v e o Hz); rewrite Ep; exact Ho|].
      split; [intros _; split; assumption|].
      intro M. rewrite M in Hu. discriminate Hu.
    + assert (He0 : 0 <= e) by (rewrite He; apply Qle_refl).
      destruct (core_value (style_latex s) ex c v e Hn Hu Zv He0) as (o & Ho & Hb & Hb0 & _ & _ & G & G1 & _).
      assert (Ze : is_zero e = true) by (apply is_zero_true; exact He).
      exists o. rewrite Ep. split; [exact Ho|]. split; [rewrite Hb; exact Ze|]. split; [apply Hb0; exact Ze|].
      split; [intro; contradiction|]. intros _.
      split; [apply (printer_shape s c v e o Hz); rewrite Ep; exact Ho|].
      split.
      * intro M. destruct (c_mode c); try contradiction; discriminate Hu.
      * intros _. destruct G as (_ & Gd & Gm & _ & _). split; [exact Gd|]. split; [exact Gm|exact G1].
Qed.

Theorem zero_value_lemma s c v e :
  (1 <= c_n c <= 13)%Z -> c_mode c = ValueMode -> v == 0 -> 0 < e ->
  exists o, printer ord rd s c v e = Some o /\ shape s v e o /\ o_bare o = false /\ o_val o = 0%Z /\
    o_dec o = Z.max 0 (o_exp o - (order_of ord e - c_n c + 1)) /\
    Qabs (out_error o - e) <= (1 # 2) * out_unit o.
Proof.
  intros Hn Hm Hv He.
  assert (Hez : ~ e == 0) by (intro E; rewrite E in He; discriminate He).
  assert (Hu : uses_error (c_mode c) = false) by (rewrite Hm; reflexivity).
  pose proof (nz_pair_r v e Hez) as Hz.
  destruct (printer_core s c v e Hz) as (ex & Ep & _).
  destruct (core_zero_value (style_latex s) ex c v e (proj1 Hn) Hu Hv He) as (o & Ho & Hb & Hv0 & _ & _ & Hd & G).
  exists o. rewrite Ep. split; [exact Ho|]. split; [apply (printer_shape s c v e o Hz); rewrite Ep; exact Ho|].
  auto.
Qed.

End WithRounders.
End WithOrd.
