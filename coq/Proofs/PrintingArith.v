(** The arithmetic of one value/uncertainty pair (C09), independent of the model:
    a reference number [ref] with order of magnitude [oref] is rounded at
    B = 10^(oref - n + 1); the result either keeps its order of magnitude or is exactly
    10^(oref+1) (carry, [cb = 1]); formatting with the decimals derived from the ROUNDED
    reference number reproduces it exactly, and a second number rounded at B and then
    formatted with the same decimals is within (1/2 + 1/20) units of the printed place. *)
From Coq Require Import ZArith QArith Qabs Qround Qpower Bool Lia Lqa Psatz.
From QV Require Import Model.Printing Proofs.PrintingAux.
Open Scope Q_scope.

Lemma Qabs_div_pos x b : 0 < b -> Qabs (x / b) == Qabs x / b.
Proof.
  intro Hb. unfold Qdiv. rewrite Qabs_Qmult, Qabs_Qinv, (Qabs_pos b) by lra. reflexivity.
Qed.

Lemma Qabs_mul_pos x b : 0 < b -> Qabs (x * b) == Qabs x * b.
Proof. intro Hb. rewrite Qabs_Qmult, (Qabs_pos b) by lra. reflexivity. Qed.

Lemma Qabs_inject m : Qabs (inject_Z m) == inject_Z (Z.abs m).
Proof. unfold Qabs, inject_Z. simpl. reflexivity. Qed.

Lemma inject_le a b : (a <= b)%Z <-> inject_Z a <= inject_Z b.
Proof. rewrite Zle_Qle. tauto. Qed.
Lemma inject_lt a b : (a < b)%Z <-> inject_Z a < inject_Z b.
Proof. rewrite Zlt_Qlt. tauto. Qed.

(** integer bounds from half-unit rational bounds *)
Lemma int_ge_of_half m t : inject_Z t - (1 # 2) <= inject_Z m -> (t <= m)%Z.
Proof.
  intro H. assert (A : inject_Z (t - 1) < inject_Z m).
  { unfold Zminus. rewrite inject_Z_plus, inject_Z_opp. change (inject_Z 1) with 1. lra. }
  apply inject_lt in A. lia.
Qed.
Lemma int_le_of_half m t : inject_Z m < inject_Z t + (1 # 2) -> (m <= t)%Z.
Proof.
  intro H. assert (A : inject_Z m < inject_Z (t + 1)).
  { rewrite inject_Z_plus. change (inject_Z 1) with 1. lra. }
  apply inject_lt in A. lia.
Qed.

Section RefArith.
Variables r1 r2 f1 f2 : Q -> Z.
Hypothesis Hr1 : rounds r1.
Hypothesis Hr2 : rounds r2.
Hypothesis Hf1 : rounds f1.
Hypothesis Hf2 : rounds f2.
Variables (ref : Q) (oref n : Z).
Hypothesis Hn : (1 <= n)%Z.
Hypothesis Hlo : pow10 oref <= Qabs ref.
Hypothesis Hhi : Qabs ref < pow10 (oref + 1).

Let B := pow10 (oref - n + 1).
Let m := r1 (ref / B).
Let Rref := inject_Z m * B.
Let T1 := (10 ^ (n - 1))%Z.
Let T2 := (10 ^ n)%Z.
Definition carry : Z := if (Z.abs m =? T2)%Z then 1%Z else 0%Z.

Lemma B_pos : 0 < B. Proof. apply pow10_pos. Qed.

Lemma T2_T1 : T2 = (10 * T1)%Z.
Proof. unfold T1, T2. replace n with (1 + (n - 1))%Z at 1 by lia. rewrite Z.pow_add_r by lia. reflexivity. Qed.

Lemma T1_pos : (1 <= T1)%Z.
Proof. unfold T1. assert (0 < 10 ^ (n - 1))%Z by (apply Z.pow_pos_nonneg; lia). lia. Qed.

Lemma x_bounds : inject_Z T1 <= Qabs (ref / B) /\ Qabs (ref / B) < inject_Z T2.
Proof.
  pose proof B_pos as HB. rewrite Qabs_div_pos by exact HB.
  unfold T1, T2. rewrite <- !pow10_Z by lia.
  assert (E1 : pow10 oref == pow10 (n - 1) * B).
  { unfold B. rewrite <- pow10_add. replace (n - 1 + (oref - n + 1))%Z with oref by lia. reflexivity. }
  assert (E2 : pow10 (oref + 1) == pow10 n * B).
  { unfold B. rewrite <- pow10_add. replace (n + (oref - n + 1))%Z with (oref + 1)%Z by lia. reflexivity. }
  rewrite E1 in Hlo. rewrite E2 in Hhi. split.
  - apply Qle_shift_div_l; [exact HB|exact Hlo].
  - apply Qlt_shift_div_r; [exact HB|exact Hhi].
Qed.

Lemma m_bounds : (T1 <= Z.abs m <= T2)%Z.
Proof.
  destruct x_bounds as [L U]. pose proof (Hr1 (ref / B)) as H. fold m in H.
  apply Qabs_le_iff in H. destruct H as [H1 H2].
  pose proof T1_pos as HT. apply inject_le in HT. change (inject_Z 1) with 1 in HT.
  revert L U. apply Qabs_case; intros Hs L U.
  - (* ref / B >= 0 *)
    assert (A : (T1 <= m)%Z) by (apply int_ge_of_half; lra).
    assert (C : (m <= T2)%Z) by (apply int_le_of_half; lra).
    pose proof T1_pos. lia.
  - assert (A : (T1 <= - m)%Z) by (apply int_ge_of_half; rewrite inject_Z_opp; lra).
    assert (C : (- m <= T2)%Z) by (apply int_le_of_half; rewrite inject_Z_opp; lra).
    pose proof T1_pos. lia.
Qed.

Lemma carry_cases : (carry = 0 /\ Z.abs m < T2)%Z \/ (carry = 1 /\ Z.abs m = T2)%Z.
Proof.
  unfold carry. destruct (Z.eqb_spec (Z.abs m) T2) as [E|E]; [right; auto|left].
  pose proof m_bounds. split; [reflexivity|lia].
Qed.

Lemma carry_01 : (carry = 0 \/ carry = 1)%Z.
Proof. destruct carry_cases as [[? _]|[? _]]; auto. Qed.

Lemma Rref_abs : Qabs Rref == inject_Z (Z.abs m) * B.
Proof. unfold Rref. rewrite Qabs_mul_pos by apply B_pos. rewrite Qabs_inject. reflexivity. Qed.

Lemma B_T1 : inject_Z T1 * B == pow10 oref.
Proof.
  unfold T1, B. rewrite <- pow10_Z by lia. rewrite <- pow10_add.
  replace (n - 1 + (oref - n + 1))%Z with oref by lia. reflexivity.
Qed.
Lemma B_T2 : inject_Z T2 * B == pow10 (oref + 1).
Proof.
  unfold T2, B. rewrite <- pow10_Z by lia. rewrite <- pow10_add.
  replace (n + (oref - n + 1))%Z with (oref + 1)%Z by lia. reflexivity.
Qed.

(** the rounded reference number keeps its order of magnitude or carries into the next *)
Lemma Rref_bounds : pow10 (oref + carry) <= Qabs Rref /\ Qabs Rref < pow10 (oref + carry + 1).
Proof.
  rewrite Rref_abs. pose proof B_pos as HB. pose proof m_bounds as [ML MU].
  destruct carry_cases as [[-> Hc]|[-> Hc]].
  - replace (oref + 0)%Z with oref by lia. rewrite <- B_T1, <- B_T2.
    apply inject_le in ML. apply inject_lt in Hc. split; nra.
  - rewrite Hc, B_T2. split; [apply Qle_refl|apply pow10_lt; lia].
Qed.

Lemma Rref_nz : ~ Rref == 0.
Proof.
  intro H. destruct Rref_bounds as [L _]. rewrite H in L.
  pose proof (pow10_pos (oref + carry)). change (Qabs 0) with 0 in L. lra.
Qed.

(** a sharper upper bound when there is no carry: the next power of ten is at least one unit
    of the n-th figure away (used for the 1e-14 snap of order_of) *)
Lemma Rref_far : (n <= 13)%Z -> Qabs Rref < pow10 (oref + carry + 1) * snap_factor.
Proof.
  intro Hn13. rewrite Rref_abs. pose proof B_pos as HB.
  destruct carry_cases as [[-> Hc]|[-> Hc]].
  - replace (oref + 0 + 1)%Z with (oref + 1)%Z by lia. rewrite <- B_T2.
    assert (Hm : (Z.abs m <= T2 - 1)%Z) by lia. apply inject_le in Hm.
    unfold Zminus in Hm. rewrite inject_Z_plus, inject_Z_opp in Hm. change (inject_Z 1) with 1 in Hm.
    assert (HT : (T2 <= 10 ^ 13)%Z) by (unfold T2; apply Z.pow_le_mono_r; lia).
    apply inject_le in HT. change (inject_Z (10 ^ 13)) with (10000000000000 # 1) in HT.
    destruct gen_snap_factor_ok as [SL _].
    assert (K : inject_Z (Z.abs m) <= inject_Z T2 * (1 - (1 # 10000000000000))) by lra.
    assert (HT2 : 0 < inject_Z T2) by (pose proof T1_pos as T1p; pose proof T2_T1; change 0 with (inject_Z 0); rewrite <- Zlt_Qlt; lia).
    assert (TB : 0 < inject_Z T2 * B) by nra.
    assert (S1 : inject_Z (Z.abs m) * B <= inject_Z T2 * B * (1 - (1 # 10000000000000))) by nra.
    assert (S2 : inject_Z T2 * B * (1 - (1 # 10000000000000)) < inject_Z T2 * B * snap_factor) by nra.
    lra.
  - rewrite Hc, B_T2. rewrite (pow10_succ (oref + 1)). pose proof (pow10_pos (oref + 1)).
    destruct gen_snap_factor_ok as [SL _]. nra.
Qed.

Section Scaled.
Variable k : Z.                       (* printed exponent *)
Let p := (oref + carry - n + 1)%Z.    (* exponent of the place of the n-th figure of Rref *)
Let d := Z.max 0 (k - p).             (* decimals *)

Lemma scaled_bounds cref : cref == Rref / pow10 k ->
  pow10 (oref + carry - k) <= Qabs cref /\ Qabs cref < pow10 (oref + carry - k + 1).
Proof.
  intro E. rewrite E. pose proof (pow10_pos k) as Pk. rewrite Qabs_div_pos by exact Pk.
  destruct Rref_bounds as [L U].
  replace (oref + carry - k + 1)%Z with (oref + carry + 1 - k)%Z by lia.
  rewrite !pow10_sub. split.
  - apply Qle_shift_div_l; [exact Pk|]. unfold Qdiv. rewrite <- Qmult_assoc, (Qmult_comm (/ _)), Qmult_inv_r, Qmult_1_r by (apply pow10_nz). exact L.
  - apply Qlt_shift_div_r; [exact Pk|]. unfold Qdiv. rewrite <- Qmult_assoc, (Qmult_comm (/ _)), Qmult_inv_r, Qmult_1_r by (apply pow10_nz). exact U.
Qed.

Lemma scaled_far cref : (n <= 13)%Z -> cref == Rref / pow10 k ->
  Qabs cref < pow10 (oref + carry - k + 1) * snap_factor.
Proof.
  intros Hn13 E. rewrite E. pose proof (pow10_pos k) as Pk. rewrite Qabs_div_pos by exact Pk.
  pose proof (Rref_far Hn13) as U.
  replace (oref + carry - k + 1)%Z with (oref + carry + 1 - k)%Z by lia.
  rewrite pow10_sub. apply Qlt_shift_div_r; [exact Pk|].
  assert (E2 : pow10 (oref + carry + 1) / pow10 k * snap_factor * pow10 k == pow10 (oref + carry + 1) * snap_factor)
    by (field; apply pow10_nz).
  rewrite E2. exact U.
Qed.

(** any multiple of B, scaled to the mantissa and shifted by the decimals, is an integer when
    there is no carry *)
Lemma multiple_int_nocarry (j : Z) y : carry = 0%Z ->
  y == inject_Z j * B / pow10 k * pow10 d -> is_int y.
Proof.
  intros Hc E. assert (E2 : y == inject_Z j * pow10 (oref - n + 1 - k + d)).
  { rewrite E. unfold B. rewrite (pow10_add (oref - n + 1 - k) d), (pow10_sub (oref - n + 1) k). field. apply pow10_nz. }
  destruct (is_int_pow10 j (oref - n + 1 - k + d)) as [z Hz]; [unfold d, p; lia|].
  exists z. rewrite E2. exact Hz.
Qed.

Lemma Rref_int y : y == Rref / pow10 k * pow10 d -> is_int y.
Proof.
  intro E. destruct carry_cases as [[Hc Hm]|[Hc Hm]].
  - apply (multiple_int_nocarry m y Hc). exact E.
  - (* m = +-10^n = (+-10^(n-1)) * 10 *)
    assert (Em : exists m', m = (m' * 10)%Z).
    { pose proof T2_T1. destruct (Z.abs_spec m) as [[_ A]|[_ A]].
      - exists T1. lia.
      - exists (- T1)%Z. lia. }
    destruct Em as [m' Em].
    assert (E2 : y == inject_Z m' * pow10 (1 + (oref - n + 1) - k + d)).
    { rewrite E. unfold Rref, B. rewrite Em, inject_Z_mult. change (inject_Z 10) with (10 # 1).
      rewrite (pow10_add (1 + (oref - n + 1) - k) d), (pow10_sub (1 + (oref - n + 1)) k),
        (pow10_add 1 (oref - n + 1)), pow10_1. field. apply pow10_nz. }
    destruct (is_int_pow10 m' (1 + (oref - n + 1) - k + d)) as [z Hz]; [unfold d, p; lia|].
    exists z. rewrite E2. exact Hz.
Qed.

(** the reference number is printed exactly as it was rounded *)
Lemma ref_printed y : y == Rref / pow10 k * pow10 d ->
  inject_Z (f1 y) / pow10 d * pow10 k == Rref.
Proof. intro E. apply fmt_exact; [exact Hf1|exact E|apply Rref_int; exact E]. Qed.

(** ... it has no digit beyond the place p ... *)
Lemma Rref_multiple : exists j : Z, Rref == inject_Z j * pow10 p.
Proof.
  destruct carry_cases as [[Hc Hm]|[Hc Hm]].
  - exists m. unfold Rref, B, p. rewrite Hc. replace (oref + 0 - n + 1)%Z with (oref - n + 1)%Z by lia. reflexivity.
  - assert (Em : exists m', m = (m' * 10)%Z).
    { pose proof T2_T1. destruct (Z.abs_spec m) as [[_ A]|[_ A]].
      - exists T1. lia.
      - exists (- T1)%Z. lia. }
    destruct Em as [m' Em]. exists m'. unfold Rref, B, p. rewrite Hc, Em, inject_Z_mult.
    change (inject_Z 10) with (10 # 1).
    replace (oref + 1 - n + 1)%Z with ((oref - n + 1) + 1)%Z by lia. rewrite (pow10_succ (oref - n + 1)). ring.
Qed.

(** ... and is within half a unit of that place of the exact number *)
Lemma B_le_place : B == pow10 (p - carry).
Proof. unfold B, p. replace (oref + carry - n + 1 - carry)%Z with (oref - n + 1)%Z by lia. reflexivity. Qed.

Lemma ref_close : Qabs (Rref - ref) <= (1 # 2) * pow10 (p - carry).
Proof. rewrite <- B_le_place. unfold Rref, m. apply stage1_bound; [exact Hr1|apply B_pos]. Qed.

Lemma place_mono : pow10 (p - carry) <= pow10 p.
Proof. apply pow10_le. destruct carry_01 as [-> | ->]; lia. Qed.

(** the other number: rounded at B, then formatted with the same decimals *)
Lemma other_printed oth y : y == inject_Z (r2 (oth / B)) * B / pow10 k * pow10 d ->
  Qabs (inject_Z (f2 y) / pow10 d * pow10 k - oth) <= ((1 # 2) + (1 # 20)) * pow10 p.
Proof.
  intro E. set (Roth := inject_Z (r2 (oth / B)) * B) in *.
  assert (S1 : Qabs (Roth - oth) <= (1 # 2) * B) by (apply stage1_bound; [exact Hr2|apply B_pos]).
  pose proof (pow10_pos p) as Pp.
  destruct carry_cases as [[Hc Hm]|[Hc Hm]].
  - assert (X : inject_Z (f2 y) / pow10 d * pow10 k == Roth).
    { apply fmt_exact; [exact Hf2|exact E|]. apply (multiple_int_nocarry (r2 (oth / B)) y Hc). exact E. }
    rewrite X. rewrite B_le_place, Hc in S1. replace (p - 0)%Z with p in S1 by lia.
    apply Qabs_le_iff in S1. apply Qabs_le_iff. lra.
  - pose proof (fmt_bound f2 Roth y k d Hf2 E) as S2.
    assert (U : pow10 (k - d) <= pow10 p) by (apply pow10_le; unfold d; lia).
    assert (V : B * (10 # 1) == pow10 p).
    { rewrite B_le_place, Hc. replace p with ((p - 1) + 1)%Z at 2 by lia. rewrite (pow10_succ (p - 1)). ring. }
    apply Qabs_le_iff in S1. apply Qabs_le_iff in S2. apply Qabs_le_iff. lra.
Qed.

(** ... and has no digit below the place of the n-th figure of the reference number AS GIVEN (B):
    a carry moves the printed place up, never down *)
Lemma other_multiple oth y : y == inject_Z (r2 (oth / B)) * B / pow10 k * pow10 d ->
  exists j : Z, inject_Z (f2 y) / pow10 d * pow10 k == inject_Z j * B.
Proof.
  intro E. set (m2 := r2 (oth / B)) in *. set (Roth := inject_Z m2 * B) in *.
  pose proof (pow10_pos k) as Pk. pose proof (pow10_pos d) as Pd.
  destruct carry_cases as [[Hc Hm]|[Hc Hm]].
  - exists m2. apply fmt_exact; [exact Hf2|exact E|]. apply (multiple_int_nocarry m2 y Hc). exact E.
  - (* carry: p = (oref - n + 1) + 1 *)
    destruct (Z_lt_le_dec (k - p) 0) as [Hk|Hk].
    + assert (Hd : d = 0%Z) by (unfold d; lia).
      destruct (Z.eq_dec k (oref - n + 1)) as [Hk0|Hk0].
      * exists (f2 y). rewrite Hd. unfold B. rewrite <- Hk0. change (pow10 0) with 1. field.
      * exists m2. apply fmt_exact; [exact Hf2|exact E|].
        assert (E2 : y == inject_Z m2 * pow10 (oref - n + 1 - k + d)).
        { rewrite E. unfold Roth, B. rewrite (pow10_add (oref - n + 1 - k) d), (pow10_sub (oref - n + 1) k). field. apply pow10_nz. }
        destruct (is_int_pow10 m2 (oref - n + 1 - k + d)) as [z Hz]; [unfold p in Hk; rewrite Hc in Hk; lia|].
        exists z. rewrite E2. exact Hz.
    + assert (Hd : d = (k - p)%Z) by (unfold d; lia).
      exists (f2 y * 10)%Z. rewrite inject_Z_mult. change (inject_Z 10) with (10 # 1).
      assert (Ek : pow10 k == pow10 d * (pow10 (oref - n + 1) * (10 # 1))).
      { rewrite <- (pow10_1), <- !pow10_add. rewrite Hd. unfold p. rewrite Hc.
        replace (k - (oref + 1 - n + 1) + (oref - n + 1 + 1))%Z with k by lia. reflexivity. }
      unfold B. rewrite Ek. field. lra.
Qed.

End Scaled.
End RefArith.
