(** Powers of ten in Q, integrality, and the arithmetic of one rounding step (C09). *)
From Coq Require Import ZArith QArith Qabs Qround Qpower Bool Lia Lqa Psatz.
From QV Require Import Gen.PrintingGen Model.Printing.
Open Scope Q_scope.

Lemma pow10_pos k : 0 < pow10 k.
Proof. unfold pow10. apply Qpower_0_lt. reflexivity. Qed.

Lemma pow10_nz k : ~ pow10 k == 0.
Proof. intro H. pose proof (pow10_pos k) as P. rewrite H in P. discriminate P. Qed.

Lemma pow10_add a b : pow10 (a + b) == pow10 a * pow10 b.
Proof. unfold pow10. apply Qpower_plus. discriminate. Qed.

Lemma pow10_0 : pow10 0 == 1.
Proof. reflexivity. Qed.

Lemma pow10_1 : pow10 1 == 10 # 1.
Proof. reflexivity. Qed.

Lemma pow10_succ a : pow10 (a + 1) == (10 # 1) * pow10 a.
Proof. rewrite pow10_add, pow10_1. ring. Qed.

Lemma pow10_opp a : pow10 (- a) == / pow10 a.
Proof. unfold pow10. apply Qpower_opp. Qed.

Lemma pow10_sub a b : pow10 (a - b) == pow10 a / pow10 b.
Proof. unfold Zminus. rewrite pow10_add, pow10_opp. reflexivity. Qed.

Lemma pow10_le a b : (a <= b)%Z -> pow10 a <= pow10 b.
Proof. intro H. unfold pow10. apply Qpower_le_compat_l; [exact H|discriminate]. Qed.

Lemma pow10_lt a b : (a < b)%Z -> pow10 a < pow10 b.
Proof. intro H. unfold pow10. apply Qpower_lt_compat_l; [exact H|reflexivity]. Qed.

Lemma pow10_lt_inv a b : pow10 a < pow10 b -> (a < b)%Z.
Proof. intro H. unfold pow10 in H. eapply Qpower_lt_compat_l_inv; [exact H|reflexivity]. Qed.

Lemma pow10_Z k : (0 <= k)%Z -> pow10 k == inject_Z (10 ^ k).
Proof. intro H. unfold pow10. rewrite Zpower_Qpower by exact H. reflexivity. Qed.

Lemma pow10_ge1 k : (0 <= k)%Z -> 1 <= pow10 k.
Proof. intro H. rewrite <- pow10_0. apply pow10_le. exact H. Qed.

(** integrality *)
Definition is_int (q : Q) : Prop := exists z : Z, q == inject_Z z.

Lemma is_int_pow10 m j : (0 <= j)%Z -> is_int (inject_Z m * pow10 j).
Proof.
  intro H. exists (m * 10 ^ j)%Z. rewrite pow10_Z by exact H. rewrite inject_Z_mult. reflexivity.
Qed.

(** a rounding function: any function that lands within half a unit *)
Definition rounds (r : Q -> Z) : Prop := forall x, Qabs (inject_Z (r x) - x) <= 1 # 2.

Lemma Qabs_le_iff x t : Qabs x <= t <-> - t <= x /\ x <= t.
Proof. apply Qabs_Qle_condition. Qed.

Lemma rounds_int r x z : rounds r -> x == inject_Z z -> r x = z.
Proof.
  intros Hr Hx. pose proof (Hr x) as H. apply Qabs_le_iff in H. destruct H as [H1 H2].
  assert (A : inject_Z z - 1 < inject_Z (r x)) by lra.
  assert (B : inject_Z (r x) < inject_Z z + 1) by lra.
  change 1 with (inject_Z 1) in A, B. rewrite <- inject_Z_plus in B.
  unfold Qminus in A. rewrite <- inject_Z_opp, <- inject_Z_plus in A.
  rewrite <- Zlt_Qlt in A, B. lia.
Qed.

Lemma rounds_is_int r x : rounds r -> is_int x -> inject_Z (r x) == x.
Proof. intros Hr [z Hz]. rewrite (rounds_int r x z Hr Hz). symmetry. exact Hz. Qed.

(** stage 1: round(x / B) * B is within B/2 of x *)
Lemma stage1_bound r x B : rounds r -> 0 < B -> Qabs (inject_Z (r (x / B)) * B - x) <= (1 # 2) * B.
Proof.
  intros Hr HB. pose proof (Hr (x / B)) as H. apply Qabs_le_iff in H. destruct H as [H1 H2].
  apply Qabs_le_iff.
  assert (E : x == x / B * B) by (field; lra).
  set (m := inject_Z (r (x / B))) in *. set (q := x / B) in *.
  split; rewrite E; nra.
Qed.

(** stage 2: formatting y = x / 10^k * 10^d to an integer mantissa, read back *)
Lemma fmt_bound f x y k d : rounds f -> y == x / pow10 k * pow10 d ->
  Qabs (inject_Z (f y) / pow10 d * pow10 k - x) <= (1 # 2) * pow10 (k - d).
Proof.
  intros Hf Hy. pose proof (Hf y) as H. apply Qabs_le_iff in H. destruct H as [H1 H2].
  pose proof (pow10_pos k) as Pk. pose proof (pow10_pos d) as Pd.
  rewrite pow10_sub. set (a := pow10 k) in *. set (b := pow10 d) in *.
  assert (E : x == y / b * a) by (rewrite Hy; field; split; lra).
  assert (U : 0 < a / b) by (apply Qlt_shift_div_l; lra).
  assert (E2 : forall t, t / b * a == t * (a / b)) by (intro t; field; lra).
  apply Qabs_le_iff. rewrite E, !E2. set (u := a / b) in *. set (m := inject_Z (f y)) in *.
  split; nra.
Qed.

Lemma fmt_exact f x y k d : rounds f -> y == x / pow10 k * pow10 d -> is_int y ->
  inject_Z (f y) / pow10 d * pow10 k == x.
Proof.
  intros Hf Hy Hi. rewrite (rounds_is_int f y Hf Hi), Hy.
  pose proof (pow10_pos k). pose proof (pow10_pos d). field. split; lra.
Qed.

(** ** What the generated arithmetic of printing.py must say for the theorems to hold
    (these are the lemmas that break when the source changes an exponent or a constant) *)
Lemma gen_back_off_err_eq o n : gen_back_off_exp_err o n = (o - n + 1)%Z.
Proof. unfold gen_back_off_exp_err. ring. Qed.
Lemma gen_back_off_val_eq o n : gen_back_off_exp_val o n = (o - n + 1)%Z.
Proof. unfold gen_back_off_exp_val. ring. Qed.
Lemma gen_decimals_eq o n : gen_clamp (gen_decimals_exp o n) = Z.max 0 (- o + n - 1).
Proof.
  unfold gen_clamp, gen_decimals_exp.
  repeat match goal with |- context [if ?b then _ else _] => destruct b eqn:? end; lia.
Qed.
Lemma gen_snap_next_eq r : gen_snap_next r = (r + 1)%Z.
Proof. unfold gen_snap_next. ring. Qed.
Lemma gen_snap_bump_eq r : gen_snap_bump r = (r + 1)%Z.
Proof. unfold gen_snap_bump. ring. Qed.
(** the tolerance is below 1 and leaves room for 13 significant figures *)
Lemma gen_snap_factor_ok : 1 - (1 # 10000000000000) < snap_factor /\ snap_factor < 1.
Proof. split; reflexivity. Qed.
