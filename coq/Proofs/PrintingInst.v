(** The executable instance used by the correspondence ([order], round-half-even) meets the
    hypotheses of the C09 theorems. *)
From Coq Require Import ZArith QArith Qabs Qround Qpower Bool Lia Lqa Psatz.
From QV Require Import Model.Printing Proofs.PrintingAux Proofs.PrintingArith Proofs.Printing.
Open Scope Q_scope.

(** round half to even lands within half a unit *)
Lemma round_half_even_rounds : rounds round_half_even.
Proof.
  intro x. unfold round_half_even.
  pose proof (Qfloor_le x) as L. pose proof (Qlt_floor x) as U.
  rewrite inject_Z_plus in U. change (inject_Z 1) with 1 in U.
  set (f := Qfloor x) in *.
  destruct (Qcompare_spec (x - inject_Z f) (1 # 2)) as [E|E|E].
  - destruct (Z.even f); [|rewrite inject_Z_plus; change (inject_Z 1) with 1];
      apply Qabs_le_iff; lra.
  - apply Qabs_le_iff; lra.
  - rewrite inject_Z_plus; change (inject_Z 1) with 1. apply Qabs_le_iff; lra.
Qed.

Lemma rhe_ok : rounders_ok rhe.
Proof. repeat split; apply round_half_even_rounds. Qed.

(** the integer logarithm *)
Open Scope Z_scope.

Lemma ord_up_spec fuel : forall a b k, 0 < b -> b <= a -> a < b * 10 ^ Z.of_nat fuel ->
  let k' := ord_up fuel a b k in
  k <= k' /\ b * 10 ^ (k' - k) <= a /\ a < b * 10 ^ (k' - k + 1).
Proof.
  induction fuel as [|f IH]; intros a b k Hb Hba Hf; cbn [ord_up].
  - cbn in Hf. lia.
  - destruct (Z.leb_spec (b * 10) a) as [H|H].
    + assert (Hf' : a < b * 10 * 10 ^ Z.of_nat f).
      { rewrite Nat2Z.inj_succ, Z.pow_succ_r in Hf by lia. lia. }
      destruct (IH a (b * 10) (k + 1) ltac:(lia) H Hf') as (K1 & K2 & K3).
      set (k' := ord_up f a (b * 10) (k + 1)) in *.
      split; [lia|].
      replace (k' - k) with (Z.succ (k' - (k + 1))) by lia.
      replace (Z.succ (k' - (k + 1)) + 1) with (Z.succ (k' - (k + 1) + 1)) by lia.
      rewrite !Z.pow_succ_r by lia. split; lia.
    + replace (k - k) with 0 by lia. cbn. split; lia.
Qed.

Lemma ord_down_spec fuel : forall a b k, 0 < a -> 0 < b -> b <= a * 10 ^ Z.of_nat fuel ->
  let k' := ord_down fuel a b k in
  k' <= k /\ b <= a * 10 ^ (k - k') /\ (k' = k \/ a * 10 ^ (k - k' - 1) < b).
Proof.
  induction fuel as [|f IH]; intros a b k Ha Hb Hf; cbn [ord_down].
  - cbn in Hf. replace (k - k) with 0 by lia. cbn. lia.
  - destruct (Z.ltb_spec a b) as [H|H].
    + assert (Hf' : b <= a * 10 * 10 ^ Z.of_nat f).
      { rewrite Nat2Z.inj_succ, Z.pow_succ_r in Hf by lia. lia. }
      destruct (IH (a * 10) b (k - 1) ltac:(lia) Hb Hf') as (K1 & K2 & K3).
      set (k' := ord_down f (a * 10) b (k - 1)) in *.
      split; [lia|]. split.
      * replace (k - k') with (Z.succ (k - 1 - k')) by lia. rewrite Z.pow_succ_r by lia. lia.
      * right. destruct (Z.eq_dec k' (k - 1)) as [K4|K4].
        -- rewrite K4. replace (k - (k - 1) - 1) with 0 by lia. cbn. lia.
        -- destruct K3 as [K3|K3]; [contradiction|].
           replace (k - k' - 1) with (Z.succ (k - 1 - k' - 1)) by lia. rewrite Z.pow_succ_r by lia. lia.
    + replace (k - k) with 0 by lia. cbn. lia.
Qed.

Lemma pow2_le_pow10 n : 0 <= n -> 2 ^ n <= 10 ^ n.
Proof. intro H. apply Z.pow_le_mono_l. lia. Qed.

Lemma fuel_enough a : 0 < a -> a < 10 ^ Z.of_nat (S (Z.to_nat (Z.log2 a))).
Proof.
  intro Ha. pose proof (Z.log2_nonneg a) as L. destruct (Z.log2_spec a Ha) as [_ U].
  rewrite Nat2Z.inj_succ, Z2Nat.id by exact L.
  pose proof (pow2_le_pow10 (Z.succ (Z.log2 a)) ltac:(lia)). lia.
Qed.

Close Scope Z_scope.

Lemma Qabs_frac x : Qabs x == inject_Z (Z.abs (Qnum x)) / inject_Z (Zpos (Qden x)).
Proof.
  destruct x as [a b]. unfold Qabs. cbn [Qnum Qden]. rewrite (Qmake_Qdiv (Z.abs a) b). reflexivity.
Qed.

Lemma frac_ge a b t : (0 < b)%Z -> (t * b <= a)%Z -> inject_Z t <= inject_Z a / inject_Z b.
Proof.
  intros Hb H. apply Qle_shift_div_l.
  - change 0 with (inject_Z 0). rewrite <- Zlt_Qlt. exact Hb.
  - rewrite <- inject_Z_mult, <- Zle_Qle. exact H.
Qed.
Lemma frac_lt a b t : (0 < b)%Z -> (a < t * b)%Z -> inject_Z a / inject_Z b < inject_Z t.
Proof.
  intros Hb H. apply Qlt_shift_div_r.
  - change 0 with (inject_Z 0). rewrite <- Zlt_Qlt. exact Hb.
  - rewrite <- inject_Z_mult, <- Zlt_Qlt. exact H.
Qed.

(** for negative exponents: 10^(-j) <= a/b  <->  b <= a * 10^j *)
Lemma frac_ge_neg a b j : (0 < b)%Z -> (0 <= j)%Z -> (b <= a * 10 ^ j)%Z -> pow10 (- j) <= inject_Z a / inject_Z b.
Proof.
  intros Hb Hj H. rewrite pow10_opp, pow10_Z by exact Hj.
  assert (P : 0 < inject_Z (10 ^ j)).
  { change 0 with (inject_Z 0). rewrite <- Zlt_Qlt. apply Z.pow_pos_nonneg; lia. }
  assert (Q : 0 < inject_Z b) by (change 0 with (inject_Z 0); rewrite <- Zlt_Qlt; exact Hb).
  apply Qle_shift_div_l; [exact Q|].
  rewrite Zle_Qle, inject_Z_mult in H.
  assert (E : / inject_Z (10 ^ j) * inject_Z b == inject_Z b / inject_Z (10 ^ j)) by (field; lra).
  rewrite E. apply Qle_shift_div_r; [exact P|exact H].
Qed.
Lemma frac_lt_neg a b j : (0 < b)%Z -> (0 <= j)%Z -> (a * 10 ^ j < b)%Z -> inject_Z a / inject_Z b < pow10 (- j).
Proof.
  intros Hb Hj H. rewrite pow10_opp, pow10_Z by exact Hj.
  assert (P : 0 < inject_Z (10 ^ j)).
  { change 0 with (inject_Z 0). rewrite <- Zlt_Qlt. apply Z.pow_pos_nonneg; lia. }
  assert (Q : 0 < inject_Z b) by (change 0 with (inject_Z 0); rewrite <- Zlt_Qlt; exact Hb).
  apply Qlt_shift_div_r; [exact Q|].
  rewrite Zlt_Qlt, inject_Z_mult in H.
  assert (E : / inject_Z (10 ^ j) * inject_Z b == inject_Z b / inject_Z (10 ^ j)) by (field; lra).
  rewrite E. apply Qlt_shift_div_l; [exact P|exact H].
Qed.

Theorem order_spec : ord_spec order.
Proof.
  intros x Hx. rewrite Qabs_frac. unfold order.
  set (a := Z.abs (Qnum x)). set (b := Zpos (Qden x)).
  assert (Ha : (0 < a)%Z).
  { unfold a. assert (Qnum x <> 0)%Z; [|lia]. intro E. apply Hx. destruct x as [n d]. cbn in E. subst n. reflexivity. }
  assert (Hb : (0 < b)%Z) by (unfold b; lia).
  destruct (Z.leb_spec b a) as [H|H].
  - pose proof (fuel_enough a Ha) as F.
    destruct (ord_up_spec (S (Z.to_nat (Z.log2 a))) a b 0 Hb H ltac:(nia)) as (K1 & K2 & K3).
    set (k := ord_up _ a b 0) in *. replace (k - 0)%Z with k in K2, K3 by lia.
    rewrite !pow10_Z by lia. split.
    + apply frac_ge; [exact Hb|lia].
    + apply frac_lt; [exact Hb|lia].
  - pose proof (fuel_enough b Hb) as F.
    destruct (ord_down_spec (S (Z.to_nat (Z.log2 b))) a b 0 Ha Hb ltac:(nia)) as (K1 & K2 & K3).
    set (k := ord_down _ a b 0) in *.
    destruct K3 as [K3|K3].
    + rewrite K3 in K2. cbn in K2. lia.
    + assert (k < 0)%Z by (destruct (Z.eq_dec k 0) as [E|E]; [rewrite E in K2; cbn in K2; lia|lia]).
      split.
      * replace k with (- (0 - k))%Z at 1 by lia. apply frac_ge_neg; [exact Hb|lia|exact K2].
      * replace (k + 1)%Z with (- (0 - k - 1))%Z by lia. apply frac_lt_neg; [exact Hb|lia|exact K3].
Qed.
