(** C09 over object histories: every text printed along any history of public operations is
    the printer's text for the value and uncertainty the object holds at that moment, and
    formatting succeeds. *)
From Coq Require Import ZArith QArith Qabs Bool List Lia Lqa.
From QV Require Import Model.Printing Model.PrintingObj Proofs.PrintingAux Proofs.Printing.
Import ListNotations.
Open Scope Q_scope.

Lemma with_ve_ok st v e : state_ok st -> 0 <= e -> state_ok (with_ve st v e).
Proof. intros (He & Hn & Hk) H. unfold state_ok, with_ve. cbn. auto. Qed.

Lemma step_ok st op : state_ok st -> op_ok op -> state_ok (step st op).
Proof.
  intros Hs Ho. pose proof Hs as (He & Hn & Hk). destruct op; cbn [step op_ok] in *.
  - unfold state_ok. cbn. auto.
  - exact Hs.
  - unfold state_ok. cbn. auto.
  - apply with_ve_ok; assumption.
  - apply with_ve_ok; [assumption|]. apply Qmult_le_0_compat; [apply Qabs_nonneg|exact Ho].
  - destruct (s_stats st) as [k|]; [|exact Hs]. apply with_ve_ok; [assumption|apply Hk].
  - destruct (s_stats st) as [k|]; [|exact Hs]. apply with_ve_ok; [assumption|apply Hk].
  - destruct (s_stats st) as [k|]; [|exact Hs]. destruct (st_ewm k); [|exact Hs]. apply with_ve_ok; assumption.
  - destruct (s_stats st) as [k|]; [|exact Hs]. destruct (st_prop k) eqn:E2; [|exact Hs].
    apply with_ve_ok; [assumption|]. destruct Hk as (_ & _ & Hp). rewrite E2 in Hp. exact Hp.
Qed.

Section WithModel.
Variable ord : Q -> Z.
Hypothesis Hord : ord_spec ord.
Variable rd : rounders.
Hypothesis Hrd : rounders_ok rd.

(** formatting succeeds for every pair with a non-negative uncertainty *)
Lemma printer_succeeds s c v e : (1 <= c_n c <= 13)%Z -> 0 <= e -> exists o, printer ord rd s c v e = Some o.
Proof.
  intros Hn He. destruct (Qeq_dec e 0) as [E0|E0].
  - destruct (zero_error_lemma ord Hord rd Hrd s c v e Hn E0) as (o & Ho & _). exists o. exact Ho.
  - assert (Hp : 0 < e) by (destruct (Qlt_le_dec 0 e) as [L|L]; [exact L|exfalso; apply E0; lra]).
    destruct (c_mode c) eqn:Hm.
    + destruct (auto_error_lemma ord Hord rd Hrd s c v e Hn ltac:(rewrite Hm; discriminate) Hp) as (o & Ho & _).
      exists o. exact Ho.
    + destruct (Qeq_dec v 0) as [V0|V0].
      * destruct (zero_value_lemma ord Hord rd Hrd s c v e Hn Hm V0 Hp) as (o & Ho & _). exists o. exact Ho.
      * destruct (value_mode_lemma ord Hord rd Hrd s c v e Hn Hm V0 He) as (o & Ho & _). exists o. exact Ho.
    + destruct (auto_error_lemma ord Hord rd Hrd s c v e Hn ltac:(rewrite Hm; discriminate) Hp) as (o & Ho & _).
      exists o. exact Ho.
Qed.

(** every print of every history: the state it was printed in is a state of the domain (so
    the pair theorems C09_auto_error / C09_value_mode / C09_zero_error / C09_zero_value apply to
    its CURRENT value and uncertainty), the text is the printer's text for that state and
    nothing else (no memory of earlier prints or earlier pairs), and formatting succeeded *)
Theorem history_lemma ops : forall st, state_ok st -> Forall op_ok ops ->
  Forall (fun p => state_ok (fst p) /\
                   snd p = printer ord rd (s_style (fst p)) (s_cfg (fst p)) (s_value (fst p)) (s_error (fst p)) /\
                   exists o, snd p = Some o) (run ord rd st ops).
Proof.
  induction ops as [|op ops IH]; intros st Hs Ho; [constructor|].
  inversion Ho as [|? ? Hop Hops]; subst.
  destruct op; cbn [run]; try (apply IH; [apply step_ok; assumption|assumption]).
  constructor; [|apply IH; assumption].
  cbn [fst snd]. split; [exact Hs|]. split; [reflexivity|].
  destruct Hs as (He & Hn & _). apply printer_succeeds; assumption.
Qed.
End WithModel.
