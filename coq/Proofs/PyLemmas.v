(** Lemmas about the Python-value combinators of Base/Py.v *)
From Coq Require Import List ZArith QArith Bool String Lia.
From QV Require Import Base.Py.
Import ListNotations.
Open Scope string_scope.

Lemma Qle_bool_inject_Z_0 z : Qle_bool (inject_Z z) 0 = Z.leb z 0.
Proof. unfold Qle_bool; cbn. now rewrite Z.mul_1_r. Qed.

Lemma Qle_bool_inject_Z_0' z : Qle_bool (inject_Z z) (inject_Z 0) = Z.leb z 0.
Proof. apply Qle_bool_inject_Z_0. Qed.

Lemma negb_leb_ltb z : negb (Z.leb z 0) = Z.ltb 0 z.
Proof. destruct (Z.leb_spec z 0), (Z.ltb_spec 0 z); simpl; auto; lia. Qed.

Lemma sget_sset_same s k v : sget (sset s k v) k = Ok v.
Proof.
  induction s as [|[k' v'] s IH]; simpl.
  - now rewrite String.eqb_refl.
  - destruct (String.eqb_spec k k') as [->|Hne]; simpl.
    + now rewrite String.eqb_refl.
    + destruct (String.eqb_spec k k'); [contradiction|]. exact IH.
Qed.

Lemma sget_sset_other s k k' v : k <> k' -> sget (sset s k v) k' = sget s k'.
Proof.
  intros Hne. induction s as [|[k0 v0] s IH]; simpl.
  - destruct (String.eqb_spec k' k); [congruence|reflexivity].
  - destruct (String.eqb_spec k k0) as [->|Hne0]; simpl.
    + destruct (String.eqb_spec k' k0); [congruence|reflexivity].
    + destruct (String.eqb_spec k' k0); [reflexivity|exact IH].
Qed.

Lemma keys_sset_in s k v : In k (map fst s) -> map fst (sset s k v) = map fst s.
Proof.
  induction s as [|[k0 v0] s IH]; simpl; [tauto|].
  intros [->|Hin].
  - now rewrite String.eqb_refl.
  - destruct (String.eqb_spec k k0) as [->|Hne]; simpl; [reflexivity|]. now rewrite IH.
Qed.
