(** Transfer from the executed evaluator (Model/Core.v over [option Q]) to the evaluator the
    theorems of C01/C03 are about (over R): on a rational object list, every number the Q-instance
    computes is the rational image of the number the R-instance defines. *)
From Coq Require Import List Arith Bool ZArith QArith Qreals Reals Lra Lia.
From Coquelicot Require Import Coquelicot.
From QV Require Import Base.RealOps Base.QOps Gen.OpsTable Model.Core Model.CoreQ Proofs.CoreLists Proofs.QROps Proofs.CoreR.
Import ListNotations.
Local Open Scope R_scope.

Definition map_ref {A B} (f : A -> B) (r : ref A) : ref B :=
  match r with RObj k => RObj k | RConst c => RConst (f c) end.
Definition map_obj {A B} (f : A -> B) (o : obj A) : obj B :=
  match o with
  | OMeas v e => OMeas (f v) (f e)
  | ODer (FU op a) => ODer (FU op (map_ref f a))
  | ODer (FB op a b) => ODer (FB op (map_ref f a) (map_ref f b))
  end.

(** a rational object list, seen by the executed instance and by the real instance *)
Definition injQ (l : list (obj Q)) : list (obj oq) := map (map_obj (@Some Q)) l.
Definition injR (l : list (obj Q)) : list (obj R) := map (map_obj Q2R) l.

Lemma rel_zero : rel qzero 0. Proof. intros x H. injection H as <-. symmetry. apply Q2R_0. Qed.
Lemma rel_one : rel qone 1. Proof. intros x H. injection H as <-. symmetry. apply Q2R_1. Qed.
Lemma rel_two : rel qtwo 2. Proof. intros x H. injection H as <-. symmetry. apply Q2R_2. Qed.

Lemma Forall2_len {A B} (P : A -> B -> Prop) l m : Forall2 P l m -> length l = length m.
Proof. induction 1; simpl; congruence. Qed.

Lemma lookup_rel tq tr k : Forall2 rel tq tr -> rel (lookup qzero tq k) (lookup 0 tr k).
Proof.
  intros H. unfold lookup. assert (E : @length oq tq = length tr) by (eapply Forall2_len; eauto). rewrite E. clear E.
  generalize (length tr - 1 - k)%nat. induction H as [|a b tq tr Hab H IH]; intros [|n]; simpl;
    try apply rel_zero; [exact Hab|apply IH].
Qed.

Lemma rel_q_su o a x : rel a x -> rel (q_su o a) (sem_u o x).
Proof. intros H. destruct a as [p|]; [|apply rel_none]. rewrite (H p eq_refl). apply rel_qsem_u. Qed.
Lemma rel_q_sb o a b x y : rel a x -> rel b y -> rel (q_sb o a b) (sem_b o x y).
Proof.
  intros Ha Hb. destruct a as [p|]; [|apply rel_none]. destruct b as [q|]; [|apply rel_none].
  rewrite (Ha p eq_refl), (Hb q eq_refl). apply rel_qsem_b.
Qed.
Lemma rel_q_du o a b x y : rel a x -> rel b y -> rel (q_du o a b) (d_u o x y).
Proof.
  intros Ha Hb. destruct a as [p|]; [|apply rel_none]. destruct b as [q|]; [|apply rel_none].
  rewrite (Ha p eq_refl), (Hb q eq_refl). apply rel_qd_u.
Qed.
Lemma rel_q_db o a b c d x y z w : rel a x -> rel b y -> rel c z -> rel d w ->
  rel (q_db o a b c d) (d_b o x y z w).
Proof.
  intros Ha Hb Hc Hd. destruct a as [p|]; [|apply rel_none]. destruct b as [q|]; [|apply rel_none].
  destruct c as [r|]; [|apply rel_none]. destruct d as [s|]; [|apply rel_none].
  rewrite (Ha p eq_refl), (Hb q eq_refl), (Hc r eq_refl), (Hd s eq_refl). apply rel_qd_b.
Qed.

Lemma val_ref_rel tq tr a : Forall2 rel tq tr ->
  rel (val_ref oq qzero tq (map_ref (@Some Q) a)) (val_ref R 0 tr (map_ref Q2R a)).
Proof. intros H. destruct a as [k|c]; simpl; [apply lookup_rel, H|apply rel_some]. Qed.

Lemma d_ref_rel tq tr a : Forall2 rel tq tr ->
  rel (d_ref oq qzero tq (map_ref (@Some Q) a)) (d_ref R 0 tr (map_ref Q2R a)).
Proof. intros H. destruct a as [k|c]; simpl; [apply lookup_rel, H|apply rel_zero]. Qed.

Lemma vals_rel l : Forall2 rel (vals oq qzero q_su q_sb (injQ l)) (rvals (injR l)).
Proof.
  induction l as [|o l IH]; simpl; [constructor|]. constructor; [|exact IH].
  destruct o as [v e|[op a|op a b]]; simpl.
  - apply rel_some.
  - apply rel_q_su, val_ref_rel, IH.
  - apply rel_q_sb; apply val_ref_rel, IH.
Qed.

Lemma length_inj l : length (injQ l) = length l /\ length (injR l) = length l.
Proof. unfold injQ, injR. rewrite !map_length. tauto. Qed.

Lemma dvals_rel m l :
  Forall2 rel (dvals oq qzero qone q_su q_sb q_du q_db m (injQ l)) (rdvals m (injR l)).
Proof.
  induction l as [|o l IH]; simpl; [constructor|]. constructor; [|exact IH].
  destruct (length_inj l) as [Lq Lr]. fold (injQ l) (injR l). rewrite Lq, Lr.
  unfold d_of. destruct (Nat.eqb (length l) m); [apply rel_one|].
  assert (V := vals_rel l).
  destruct o as [v e|[op a|op a b]]; simpl.
  - apply rel_zero.
  - apply rel_q_du; [apply val_ref_rel, V|apply d_ref_rel, IH].
  - apply rel_q_db; [apply val_ref_rel, V|apply d_ref_rel, IH|apply val_ref_rel, V|apply d_ref_rel, IH].
Qed.

(** sources depend on the structure only *)
Lemma srcs_map {A B} (f : A -> B) l : srcs B (map (map_obj f) l) = srcs A l.
Proof.
  induction l as [|o l IH]; simpl; [reflexivity|]. rewrite IH, map_length. f_equal.
  destruct o as [v e|[op a|op a b]]; simpl; try reflexivity.
  - destruct a; reflexivity.
  - destruct a, b; reflexivity.
Qed.

Lemma error_m_rel l i : rel (error_m oq qzero (injQ l) i) (error_m R 0 (injR l) i).
Proof.
  unfold error_m, lookup, injQ, injR. rewrite !map_length.
  generalize (length l - 1 - i)%nat. induction l as [|o l IH]; intros [|n]; simpl; try apply rel_zero.
  - destruct o as [v e|[op a|op a b]]; simpl; [apply rel_some|apply rel_zero|apply rel_zero].
  - apply IH.
Qed.

Lemma sum_rel (A : Type) (f : A -> oq) (g : A -> R) (s : list A) :
  (forall a, rel (f a) (g a)) -> rel (sum oq qzero oadd (map f s)) (sum R 0 Rplus (map g s)).
Proof.
  intros H. unfold sum. induction s as [|a s IH]; simpl; [apply rel_zero|]. apply rel_oadd; [apply H|exact IH].
Qed.

(** ---- the transfer theorem ---- *)
Theorem value_transfer l k x : qvalue (injQ l) k = Some x -> rvalue (injR l) k = Q2R x.
Proof. apply (lookup_rel _ _ k (vals_rel l)). Qed.

Theorem deriv_transfer l k m x : qderiv (injQ l) k m = Some x -> rderiv (injR l) k m = Q2R x.
Proof. apply (lookup_rel _ _ k (dvals_rel m l)). Qed.

Theorem sources_transfer l k : qsources (injQ l) k = sources R (injR l) k.
Proof. unfold qsources, sources, injQ, injR. rewrite !srcs_map. reflexivity. Qed.

Theorem err2_transfer (rq : nat -> nat -> oq) (rr : nat -> nat -> R) l k x :
  (forall i j, rel (rq i j) (rr i j)) ->
  qerr2 rq (injQ l) k = Some x -> rerr2 rr (injR l) k = Q2R x.
Proof.
  intros Hrho. unfold qerr2, rerr2, err2.
  change (sources oq (injQ l) k) with (qsources (injQ l) k). rewrite sources_transfer.
  assert (D : forall i, rel (deriv oq qzero qone q_su q_sb q_du q_db (injQ l) k i)
                            (deriv R 0 1 sem_u sem_b d_u d_b (injR l) k i)).
  { intros i y Hy. apply (deriv_transfer l k i y Hy). }
  apply rel_oadd.
  - apply sum_rel. intros i. apply rel_omul; apply rel_omul; try apply error_m_rel; apply D.
  - apply sum_rel. intros [i j].
    repeat apply rel_omul; try apply rel_two; try apply Hrho; try apply error_m_rel; apply D.
Qed.

(** combined with the main theorem of C03: an executed derivative is the true partial derivative *)
Theorem executed_is_derivative (lq : list (obj Q)) m v k x :
  wf R (injR lq) = true -> Dom (injR lq) -> meas_at (injR lq) m v -> (k < length (injR lq))%nat ->
  qderiv (injQ lq) k m = Some x ->
  is_derive (fun t => rvalue (set_value R (injR lq) m t) k) v (Q2R x).
Proof.
  intros Hwf Hdom Hm Hk Hq. rewrite <- (deriv_transfer lq k m x Hq).
  apply (deriv_is_derive (injR lq) m v Hwf Hdom Hm k Hk).
Qed.

Theorem executed_is_model (lq : list (obj Q)) (rq : nat -> nat -> oq) (rr : nat -> nat -> R) k :
  (forall i j, rel (rq i j) (rr i j)) ->
  (forall x, qvalue (injQ lq) k = Some x -> rvalue (injR lq) k = Q2R x) /\
  (forall x, qerr2 rq (injQ lq) k = Some x -> rerr2 rr (injR lq) k = Q2R x) /\
  qsources (injQ lq) k = sources R (injR lq) k.
Proof.
  intros Hrho. split; [|split].
  - intros x. apply value_transfer.
  - intros x. apply (err2_transfer rq rr lq k x Hrho).
  - apply sources_transfer.
Qed.
