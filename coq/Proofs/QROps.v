(** The executable operator tables over [option Q] compute, whenever they compute at all, the
    rational image of the real-number tables (both GENERATED from operations.py): what is executed in
    the correspondence is what the theorems over R are about. *)
From Coq Require Import ZArith QArith Qreals Qpower Reals Lra Lia Bool.
From QV Require Import Base.RealOps Base.QOps Gen.OpsTable Proofs.OpsRules.

Local Open Scope R_scope.
Local Opaque Qred Qplus Qminus Qmult Qdiv Qpower.

Definition rel (a : option Q) (b : R) : Prop := forall x, a = Some x -> b = Q2R x.

Lemma rel_some x : rel (Some x) (Q2R x).
Proof. intros y H. injection H as <-. reflexivity. Qed.

Lemma rel_none b : rel None b.
Proof. intros y H. discriminate H. Qed.

Lemma Q2R_Qred x : Q2R (Qred x) = Q2R x.
Proof. apply Qeq_eqR, Qred_correct. Qed.

Lemma Q2R_0 : Q2R 0 = 0. Proof. unfold Q2R; simpl; lra. Qed.
Lemma Q2R_1 : Q2R 1 = 1. Proof. unfold Q2R; simpl; lra. Qed.
Lemma Q2R_2 : Q2R 2 = 2. Proof. unfold Q2R; simpl; lra. Qed.
Lemma Q2R_inject_Z z : Q2R (inject_Z z) = IZR z.
Proof. unfold Q2R, inject_Z; simpl. field. Qed.

Lemma Qeq_bool_false_neq x y : Qeq_bool x y = false -> ~ (x == y)%Q.
Proof. intros H E. apply Qeq_bool_iff in E. congruence. Qed.

Lemma Q2R_neq_0 x : ~ (x == 0)%Q -> Q2R x <> 0.
Proof. intros H E. apply H. apply eqR_Qeq. rewrite E, Q2R_0. reflexivity. Qed.

(** lifted arithmetic *)
Lemma rel_oadd a b x y : rel a x -> rel b y -> rel (oadd a b) (x + y).
Proof.
  intros Ha Hb z H. destruct a as [p|], b as [q|]; try discriminate H.
  unfold oadd, osub, omul, olift2, obind in H. injection H as <-.
  rewrite Q2R_Qred, Q2R_plus, (Ha p eq_refl), (Hb q eq_refl). reflexivity.
Qed.
Lemma rel_osub a b x y : rel a x -> rel b y -> rel (osub a b) (x - y).
Proof.
  intros Ha Hb z H. destruct a as [p|], b as [q|]; try discriminate H.
  unfold oadd, osub, omul, olift2, obind in H. injection H as <-.
  rewrite Q2R_Qred, Q2R_minus, (Ha p eq_refl), (Hb q eq_refl). reflexivity.
Qed.
Lemma rel_omul a b x y : rel a x -> rel b y -> rel (omul a b) (x * y).
Proof.
  intros Ha Hb z H. destruct a as [p|], b as [q|]; try discriminate H.
  unfold oadd, osub, omul, olift2, obind in H. injection H as <-.
  rewrite Q2R_Qred, Q2R_mult, (Ha p eq_refl), (Hb q eq_refl). reflexivity.
Qed.
Lemma rel_oneg a x : rel a x -> rel (oneg a) (- x).
Proof.
  intros Ha z H. destruct a as [p|]; try discriminate H. injection H as <-.
  rewrite Q2R_opp, (Ha p eq_refl). reflexivity.
Qed.
Lemma rel_odiv a b x y : rel a x -> rel b y -> rel (odiv a b) (x / y).
Proof.
  intros Ha Hb z H. unfold odiv, obind in H. destruct a as [p|]; [|discriminate H]. destruct b as [q|]; [|discriminate H].
  destruct (Qeq_bool q 0) eqn:E; [discriminate H|]. injection H as <-.
  rewrite Q2R_Qred, Q2R_div by (apply Qeq_bool_false_neq, E).
  rewrite (Ha p eq_refl), (Hb q eq_refl). reflexivity.
Qed.

(** integer powers *)
Lemma Q2R_Qpower_positive x p : Q2R (Qpower_positive x p) = Q2R x ^ Pos.to_nat p.
Proof.
  induction p as [|p IH] using Pos.peano_ind.
  - simpl. lra.
  - rewrite Pos2Nat.inj_succ. simpl pow. rewrite <- IH, <- Q2R_mult. apply Qeq_eqR.
    rewrite <- Pos.add_1_l. rewrite Qpower_plus_positive. reflexivity.
Qed.

Lemma Q2R_Qpower x k : (~ (x == 0)%Q \/ (0 <= k)%Z) -> Q2R (Qpower x k) = powerRZ (Q2R x) k.
Proof.
  intros H. Local Transparent Qpower. destruct k as [|p|p]; simpl.
  - apply Q2R_1.
  - apply Q2R_Qpower_positive.
  - destruct H as [H|H]; [|lia].
    rewrite Q2R_inv by (apply Qpower_not_0_positive, H). rewrite Q2R_Qpower_positive. reflexivity.
Qed.
Local Opaque Qpower.

Lemma rel_opow a b x y : rel a x -> rel b y -> rel (opow a b) (Rpow x y).
Proof.
  intros Ha Hb z H. unfold opow, obind in H. destruct a as [p|]; [|discriminate H]. destruct b as [q|]; [|discriminate H].
  cbv zeta in H.
  destruct (Pos.eqb_spec (Qden (Qred q)) 1) as [E|N]; [|discriminate H].
  rewrite (Ha p eq_refl), (Hb q eq_refl).
  assert (Eq : Q2R q = IZR (Qnum (Qred q))).
  { rewrite <- Q2R_Qred. unfold Q2R. rewrite E. simpl. field. }
  rewrite Eq, Rpow_int.
  unfold Qpow_Z in H. destruct (Qeq_bool p 0) eqn:E0.
  - destruct (Z.ltb_spec (Qnum (Qred q)) 0) as [Hlt|Hge]; [discriminate H|]. injection H as <-.
    rewrite Q2R_Qred. symmetry. apply Q2R_Qpower. right. exact Hge.
  - injection H as <-. rewrite Q2R_Qred. symmetry. apply Q2R_Qpower. left. apply Qeq_bool_false_neq, E0.
Qed.

Lemma pow2_powerRZ x : x ^ 2 = Rpow x 2.
Proof. change 2 with (IZR 2). rewrite Rpow_int. simpl. ring. Qed.

(** the generated tables *)
Lemma rel_qsem_u o x : rel (qsem_u o x) (sem_u o (Q2R x)).
Proof.
  destruct o; unfold qsem_u, sem_u; try apply rel_none.
  apply rel_oneg, rel_some.
Qed.

Lemma rel_qsem_b o x y : rel (qsem_b o x y) (sem_b o (Q2R x) (Q2R y)).
Proof.
  destruct o; unfold qsem_b, sem_b.
  - apply rel_oadd; apply rel_some.
  - apply rel_osub; apply rel_some.
  - apply rel_omul; apply rel_some.
  - apply rel_odiv; apply rel_some.
  - apply rel_opow; apply rel_some.
  - apply rel_odiv; apply rel_none.
Qed.

Lemma rel_c1 : rel (Some (1 # 1)%Q) 1. Proof. rewrite <- Q2R_1. apply rel_some. Qed.
Lemma rel_c2 : rel (Some (2 # 1)%Q) 2. Proof. rewrite <- Q2R_2. apply rel_some. Qed.

(** local assignments of a differentiator function: [obind] on the rational side; on the real side the [let]s are
    gone after unfolding, so the real counterpart of the bound expression is synthesised ([rel_syn] on an evar) and
    replaced by the image of the bound rational *)
Lemma rel_obind (a : option Q) (f : Q -> option Q) (r : R) :
  (forall x, a = Some x -> rel (f x) r) -> rel (obind a f) r.
Proof. intros Hf z H. destruct a as [q|]; [|discriminate H]. exact (Hf q eq_refl z H). Qed.

Ltac rel_syn :=
  repeat first
    [ match goal with
      | |- rel (Some (1 # 1)%Q) _ => apply rel_c1
      | |- rel (Some (2 # 1)%Q) _ => apply rel_c2
      | |- rel (Some _) _ => apply rel_some          (* only a syntactic [Some]: no unification by computing *)
      | |- rel (oadd _ _) _ => apply rel_oadd
      | |- rel (osub _ _) _ => apply rel_osub
      | |- rel (omul _ _) _ => apply rel_omul
      | |- rel (odiv _ _) _ => apply rel_odiv
      | |- rel (oneg _) _ => apply rel_oneg
      | |- rel (opow _ _) _ => apply rel_opow
      end ].

Ltac rel_let :=
  match goal with
  | |- rel (obind ?a ?f) ?r =>
      first
        [ solve [let z := fresh in let H := fresh in intros z H; cbn in H; discriminate H]
        | let Ha := fresh "Ha" in let x := fresh "l" in let Hx := fresh "Hl" in let E := fresh "E" in
          eassert (Ha : rel a _); [ solve [rel_syn] | ];
          apply rel_obind; intros x Hx; pose proof (Ha x Hx) as E; rewrite ?E; clear E Ha Hx; cbv beta ]
  end.

Ltac rel_tac :=
  repeat first
    [ rel_let
    | apply rel_none | apply rel_some | apply rel_c1 | apply rel_c2
    | apply rel_oadd | apply rel_osub | apply rel_omul | apply rel_odiv | apply rel_oneg | apply rel_opow ].

Lemma rel_qd_u o v d : rel (qd_u o v d) (d_u o (Q2R v) (Q2R d)).
Proof.
  destruct o; unfold qd_u, d_u; try apply rel_none; rewrite ?pow2_powerRZ; rel_tac.
Qed.

Lemma rel_qd_b o v0 d0 v1 d1 : rel (qd_b o v0 d0 v1 d1) (d_b o (Q2R v0) (Q2R d0) (Q2R v1) (Q2R d1)).
Proof.
  destruct o; unfold qd_b, d_b; try apply rel_none; rewrite ?pow2_powerRZ; try (rel_tac; fail).
  (* POW *)
  intros z H. unfold obind in H.
  destruct (opow (Some v0) (osub (Some v1) (Some (1 # 1)%Q))) as [lq|] eqn:El; [|discriminate H].
  assert (Hl : Rpow (Q2R v0) (Q2R v1 - 1) = Q2R lq).
  { apply (rel_opow (Some v0) (osub (Some v1) (Some (1 # 1)%Q)) _ _ (rel_some v0)); [|exact El].
    apply rel_osub; [apply rel_some|apply rel_c1]. }
  destruct (omul (Some v1) (Some d0)) as [fq|] eqn:Ef; [|discriminate H].
  assert (Hf : Q2R v1 * Q2R d0 = Q2R fq) by (apply (rel_omul _ _ _ _ (rel_some v1) (rel_some d0)); exact Ef).
  unfold oifnz, obind in H.
  destruct (Qeq_bool d1 0) eqn:E0; [|discriminate H].
  assert (Hd : Q2R d1 = 0).
  { apply Qeq_bool_iff in E0. rewrite (Qeq_eqR _ _ E0). apply Q2R_0. }
  cbv zeta. rewrite Hl, Hf, Hd. destruct (Req_EM_T 0 0) as [_|N]; [|contradiction N; reflexivity].
  assert (Hz : rel (omul (Some lq) (oadd (Some fq) (Some (0 # 1)%Q))) (Q2R lq * (Q2R fq + 0))).
  { apply rel_omul; [apply rel_some|]. apply rel_oadd; [apply rel_some|]. rewrite <- Q2R_0. apply rel_some. }
  apply Hz. exact H.
Qed.
