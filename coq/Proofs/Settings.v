(** Proofs about the generated settings model (Gen/SettingsGen.v) against the spec of
    Model/Settings.v.  Each generated setter first gets a characterising lemma; the
    property theorems follow from those. *)
From Coq Require Import List ZArith QArith Bool String Lia.
From QV Require Import Base.Py Gen.SettingsGen Model.Settings Proofs.PyLemmas.
Import ListNotations.
Open Scope string_scope.

(** every value of the domain that is an enum is one of these *)
Lemma real_enum_cases c n :
  real_enum (PEnum c n) = true ->
  In (c, n) [("ErrorMethod","DERIVATIVE"); ("ErrorMethod","MONTE_CARLO"); ("ErrorMethod","AUTO");
             ("PrintStyle","DEFAULT"); ("PrintStyle","LATEX"); ("PrintStyle","SCIENTIFIC");
             ("UnitStyle","FRACTION"); ("UnitStyle","EXPONENTS");
             ("SigFigMode","AUTOMATIC"); ("SigFigMode","VALUE"); ("SigFigMode","ERROR")].
Proof.
  unfold real_enum, str_in; cbn [existsb].
  intros H.
  repeat match goal with
  | H : (_ || _)%bool = true |- _ => apply orb_true_iff in H; destruct H as [H|H]
  | H : (_ && _)%bool = true |- _ => apply andb_true_iff in H; destruct H as [? H]
  | H : String.eqb _ _ = true |- _ => apply String.eqb_eq in H; subst
  | H : false = true |- _ => discriminate H
  end; cbn; tauto.
Qed.

Ltac enum_cases H :=
  apply real_enum_cases in H; cbn [In] in H;
  repeat match type of H with
         | _ \/ _ => destruct H as [H|H]
         | (_, _) = (_, _) => injection H as <- <-
         | False => destruct H
         end.

Definition outcome (o : opt) (v : pv) (s : store) : store * option exn :=
  if documented o v
  then (fold_left (fun st kv => sset st (fst kv) (snd kv)) (writes o v) s, None)
  else (s, Some ValueError).

(** string membership tests written in either order *)
Ltac str_cases s :=
  repeat match goal with
  | |- context [String.eqb s ?lit] =>
      destruct (String.eqb_spec s lit) as [->|?]; [vm_compute; reflexivity|]
  end.

Lemma apply_spec o v s : in_domain v = true -> apply o v s = outcome o v s.
Proof.
  unfold in_domain. intros Hd. apply andb_true_iff in Hd. destruct Hd as [Hre Hauto].
  destruct o; unfold apply, outcome, documented.
  - (* error_method *)
    destruct v as [|b|z|q|s0|c n|l|l]; try (destruct b); try reflexivity.
    + unfold api_set_error_method, set_error_method, enum_member, str_in.
      cbn -[String.eqb]. str_cases s0. reflexivity.
    + enum_cases Hre; try reflexivity. discriminate Hauto.
  - destruct v as [|b|z|q|s0|c n|l|l]; try (destruct b); try reflexivity.
    + unfold api_set_print_style, set_print_style, enum_member, str_in.
      cbn -[String.eqb]. str_cases s0. reflexivity.
    + enum_cases Hre; reflexivity.
  - destruct v as [|b|z|q|s0|c n|l|l]; try (destruct b); try reflexivity.
    + unfold api_set_unit_style, set_unit_style, enum_member, str_in.
      cbn -[String.eqb]. str_cases s0. reflexivity.
    + enum_cases Hre; reflexivity.
  - destruct v as [|b|z|q|s0|c n|l|l]; try (destruct b); try reflexivity.
    + unfold api_set_sig_figs_for_value, m_set_sig_figs_for_value, set_sig_fig_value, s_seq, s_call, s_if, s_assign, s_raise.
      cbn -[Qle_bool inject_Z]. rewrite Qle_bool_inject_Z_0', negb_leb_ltb.
      destruct (Z.ltb 0 z); reflexivity.
  - destruct v as [|b|z|q|s0|c n|l|l]; try (destruct b); try reflexivity.
    + unfold api_set_sig_figs_for_error, m_set_sig_figs_for_error, set_sig_fig_value, s_seq, s_call, s_if, s_assign, s_raise.
      cbn -[Qle_bool inject_Z]. rewrite Qle_bool_inject_Z_0', negb_leb_ltb.
      destruct (Z.ltb 0 z); reflexivity.
  - destruct v as [|b|z|q|s0|c n|l|l]; try (destruct b); try reflexivity.
    + unfold api_set_monte_carlo_sample_size, set_monte_carlo_sample_size, s_seq, s_call, s_if, s_assign, s_raise.
      cbn -[Qle_bool inject_Z]. rewrite Qle_bool_inject_Z_0', negb_leb_ltb.
      destruct (Z.ltb 0 z); reflexivity.
  - (* plot dimensions *)
    destruct v as [|b|z|q|s0|c n|l|l]; try (destruct b); try reflexivity.
    destruct l as [|a [|b [|c l]]]; try reflexivity.
    unfold api_set_plot_dimensions, set_plot_dimensions.
    assert (Hnum : forall x : pv,
      bind (e_or (e_not (e_isinstance (Ok x) [T_int; T_float]))
                 (fun _ => e_cmp Le (Ok x) (Ok (PInt 0)))) (fun vx => Ok (PBool (truthy vx)))
      = Ok (PBool (negb (positive_number x)))).
    { intros x. destruct x; try reflexivity.
      - destruct b0; reflexivity.
      - cbn -[Qle_bool inject_Z]. rewrite Qle_bool_inject_Z_0', <- negb_leb_ltb.
        destruct (Z.leb z 0); reflexivity.
      - cbn -[Qle_bool]. change (inject_Z 0) with 0%Q. destruct (Qle_bool q 0); reflexivity. }
    assert (Hnum' : forall x : pv, exists t,
      e_or (e_not (e_isinstance (Ok x) [T_int; T_float]))
           (fun _ => e_cmp Le (Ok x) (Ok (PInt 0))) = Ok t /\ truthy t = negb (positive_number x)).
    { intros x. destruct x; try (eexists; split; [reflexivity|reflexivity]).
      - destruct b0; eexists; split; reflexivity.
      - cbn -[Qle_bool inject_Z]. rewrite Qle_bool_inject_Z_0', <- negb_leb_ltb.
        destruct (Z.leb z 0); eexists; split; reflexivity.
      - cbn -[Qle_bool]. change (inject_Z 0) with 0%Q. destruct (Qle_bool q 0); eexists; split; reflexivity. }
    clear Hnum.
    destruct (Hnum' a) as [ta [Ea Ta]], (Hnum' b) as [tb [Eb Tb]].
    unfold s_seq, s_if, s_assign, s_raise, s_skip.
    change (e_or (e_not (e_isinstance (Ok (PTuple [a; b])) [T_tuple]))
         (fun _ : unit => e_cmp Ne (e_len (Ok (PTuple [a; b]))) (Ok (PInt 2))))
      with (@Ok pv (PBool false)).
    cbn [truthy e_any bind any_list].
    rewrite Ea. cbn [bind]. rewrite Ta.
    destruct (positive_number a); cbn [negb andb]; [|reflexivity].
    rewrite Eb. cbn [bind]. rewrite Tb.
    destruct (positive_number b); cbn [negb andb]; reflexivity.
    unfold api_set_plot_dimensions, set_plot_dimensions, s_seq, s_if, s_raise.
    assert (E : e_or (e_not (e_isinstance (Ok (PTuple (a :: b :: c :: l))) [T_tuple]))
                  (fun _ => e_cmp Ne (e_len (Ok (PTuple (a :: b :: c :: l)))) (Ok (PInt 2)))
                = Ok (PBool true)).
    { cbn [e_or e_not e_isinstance bind existsb isinstance1 orb negb truthy e_cmp e_len py_eq num_of List.length].
      do 2 f_equal.
      destruct (Qeq_bool _ _) eqn:E; [|reflexivity].
      apply Qeq_bool_eq in E. unfold Qeq in E. cbn -[Z.of_nat] in E. lia. }
    rewrite E. reflexivity.
Qed.

(** ---- consequences ---- *)
Lemma validation_lemma o v s :
  in_domain v = true -> (snd (apply o v s) = None <-> documented o v = true).
Proof.
  intros Hd. rewrite (apply_spec o v s Hd). unfold outcome.
  destruct (documented o v); simpl; split; congruence.
Qed.

Lemma atomic_lemma o v s :
  in_domain v = true -> snd (apply o v s) <> None -> fst (apply o v s) = s.
Proof.
  intros Hd. rewrite (apply_spec o v s Hd). unfold outcome.
  destruct (documented o v); simpl; congruence.
Qed.

Fixpoint assoc (k : string) (l : list (string * pv)) : option pv :=
  match l with
  | [] => None
  | (k', v) :: l' => if String.eqb k k' then Some v else assoc k l'
  end.

Lemma sget_fold_sset w : forall s k,
  NoDup (map fst w) ->
  sget (fold_left (fun st kv => sset st (fst kv) (snd kv)) w s) k
  = match assoc k w with Some x => Ok x | None => sget s k end.
Proof.
  induction w as [|[k0 v0] w IH]; intros s k Hnd; simpl; [reflexivity|].
  inversion Hnd as [|? ? Hnotin Hnd']; subst.
  rewrite IH by assumption.
  destruct (assoc k w) eqn:Ea.
  - destruct (String.eqb_spec k k0) as [->|Hne]; [|reflexivity].
    exfalso. apply Hnotin. clear -Ea. induction w as [|[k1 v1] w IHw]; simpl in *; [discriminate|].
    destruct (String.eqb_spec k0 k1); [left; auto| right; auto].
  - destruct (String.eqb_spec k k0) as [->|Hne].
    + apply sget_sset_same.
    + apply sget_sset_other. congruence.
Qed.

Lemma writes_nodup o v : NoDup (map fst (writes o v)).
Proof.
  destruct o; simpl; repeat constructor; simpl; intuition discriminate.
Qed.

Lemma accepts_lemma o v s k :
  in_domain v = true -> documented o v = true ->
  snd (apply o v s) = None /\
  sget (fst (apply o v s)) k = match assoc k (writes o v) with Some x => Ok x | None => sget s k end.
Proof.
  intros Hd Hdoc. rewrite (apply_spec o v s Hd). unfold outcome. rewrite Hdoc. simpl.
  split; [reflexivity|]. apply sget_fold_sset, writes_nodup.
Qed.

(** reset *)
Lemma reset_lemma s : keys s = keys init_cfg -> fst (api_reset_default_configuration s) = init_cfg.
Proof.
  unfold keys. intros H.
  destruct s as [|[k1 v1] [|[k2 v2] [|[k3 v3] [|[k4 v4] [|[k5 v5] [|[k6 v6] [|[k7 v7] [|x s]]]]]]]];
    try discriminate H.
  cbn in H. injection H as -> -> -> -> -> -> ->. reflexivity.
Qed.

Lemma keys_fold_sset w : forall s,
  (forall k, In k (map fst w) -> In k (keys s)) ->
  keys (fold_left (fun st kv => sset st (fst kv) (snd kv)) w s) = keys s.
Proof.
  induction w as [|[k0 v0] w IH]; intros s Hin; simpl; [reflexivity|].
  assert (E : keys (sset s k0 v0) = keys s) by (apply keys_sset_in, Hin; simpl; auto).
  rewrite IH; [exact E|]. intros k Hk. rewrite E. apply Hin. simpl; auto.
Qed.

Lemma writes_keys o v k : In k (map fst (writes o v)) -> In k (keys init_cfg).
Proof. destruct o; simpl; intuition (subst; auto 10). Qed.

Definition op_in_domain (x : op) : bool := match x with Set_ _ v => in_domain v | Reset => true end.

Lemma step_keys s x : op_in_domain x = true -> keys s = keys init_cfg -> keys (fst (step s x)) = keys init_cfg.
Proof.
  intros Hd Hk. destruct x as [o v|].
  - simpl. rewrite (apply_spec o v s Hd). unfold outcome. destruct (documented o v); simpl; [|exact Hk].
    rewrite keys_fold_sset; [exact Hk|]. intros k Hin. rewrite Hk. eapply writes_keys; eauto.
  - change (step s Reset) with (api_reset_default_configuration s).
    rewrite reset_lemma by exact Hk. reflexivity.
Qed.

Lemma run_keys ops : forall s, forallb op_in_domain ops = true -> keys s = keys init_cfg ->
  keys (run ops s) = keys init_cfg.
Proof.
  induction ops as [|x ops IH]; intros s Hd Hk; simpl; [exact Hk|].
  simpl in Hd. apply andb_true_iff in Hd. destruct Hd as [Hx Hops].
  apply IH; [exact Hops|]. apply step_keys; assumption.
Qed.

Lemma reset_after_history ops :
  forallb op_in_domain ops = true -> fst (step (run ops init_cfg) Reset) = init_cfg.
Proof. intros Hd. change (step (run ops init_cfg) Reset) with (api_reset_default_configuration (run ops init_cfg)). apply reset_lemma, run_keys; [exact Hd|reflexivity]. Qed.

(** the Monte Carlo sample size stays a positive integer in every reachable state *)
Definition mc_ok (s : store) : Prop :=
  exists t, sget s "monte_carlo_sample_size" = Ok t /\ positive_int t = true.

Lemma positive_int_in_domain t : positive_int t = true -> in_domain t = true.
Proof. destruct t as [|b|z|q|s0|c n|l|l]; simpl; try discriminate; try (destruct b); reflexivity. Qed.

Lemma step_mc_ok s x : op_in_domain x = true -> mc_ok s -> mc_ok (fst (step s x)).
Proof.
  intros Hd [t [Hg Hp]]. destruct x as [o v|].
  - simpl. rewrite (apply_spec o v s Hd). unfold outcome.
    destruct (documented o v) eqn:Hdoc; simpl; [|exists t; auto].
    unfold mc_ok. rewrite sget_fold_sset by apply writes_nodup.
    destruct o; simpl; try (exists t; split; assumption).
    exists v. split; [reflexivity|exact Hdoc].
  - exists (PInt 10000). split; [|reflexivity].
    (* whatever the order in which reset writes the options: peel the writes off until the one of the sample size *)
    cbv beta iota delta [step api_reset_default_configuration m_reset s_seq s_assign s_skip fst snd].
    repeat first [apply sget_sset_same | rewrite sget_sset_other by discriminate].
Qed.

Lemma temporary_lemma (func : store -> store * res pv) size s :
  in_domain size = true -> mc_ok s ->
  sget (fst (wrapper func size s)) "monte_carlo_sample_size" = sget s "monte_carlo_sample_size".
Proof.
  intros Hd [t [Hg Hp]]. unfold wrapper, get_monte_carlo_sample_size. rewrite Hg.
  change api_set_monte_carlo_sample_size with (apply O_mc_size).
  rewrite (apply_spec O_mc_size size s Hd). unfold outcome.
  destruct (documented O_mc_size size); [|simpl; exact Hg].
  destruct (func _) as [s2 r].
  change wrapper_restores_in_finally with true. cbv iota.
  unfold restore. change api_set_monte_carlo_sample_size with (apply O_mc_size).
  rewrite (apply_spec O_mc_size t s2 (positive_int_in_domain t Hp)). unfold outcome.
  simpl documented. rewrite Hp. simpl. rewrite sget_sset_same. reflexivity.
Qed.
