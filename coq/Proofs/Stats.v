(** Lemmas about the statistics model (Model/Stats.v): the model of the code equals the textbook
    definitions, the selector state machine, Cauchy-Schwarz, exactly collinear arrays. *)
From Coq Require Import List ZArith QArith Qabs Qminmax Bool Lia Lqa.
From QV Require Import Model.Stats.
Import ListNotations.
Open Scope Q_scope.

(** ---- sums ---------------------------------------------------------------------------------- *)
Lemma qadd_eq x y : qadd x y == x + y.
Proof. unfold qadd. apply Qred_correct. Qed.

Lemma qsum_map_ext {A} (f g : A -> Q) l : (forall x, f x == g x) -> qsum (map f l) == qsum (map g l).
Proof. intros H. induction l as [|x l IH]; simpl; [reflexivity|]. now rewrite !qadd_eq, H, IH. Qed.

Lemma qsum_map2_ext {A B} (f g : A -> B -> Q) l m :
  (forall x y, f x y == g x y) -> qsum (map2 f l m) == qsum (map2 g l m).
Proof.
  intros H. revert m. induction l as [|x l IH]; intros [|y m]; simpl; try reflexivity. now rewrite !qadd_eq, H, IH.
Qed.

Lemma qsum_map2_nonneg {A B} (f : A -> B -> Q) l m : (forall x y, 0 <= f x y) -> 0 <= qsum (map2 f l m).
Proof.
  intros H. revert m. induction l as [|x l IH]; intros [|y m]; simpl; rewrite ?qadd_eq; try lra.
  specialize (H x y). specialize (IH m). lra.
Qed.

Lemma qsum_map_nonneg {A} (f : A -> Q) l : (forall x, 0 <= f x) -> 0 <= qsum (map f l).
Proof. intros H. induction l as [|x l IH]; simpl; [lra|]. rewrite qadd_eq. specialize (H x). lra. Qed.

Lemma qlen_cons {A} (x : A) l : qlen (x :: l) == qlen l + 1.
Proof.
  unfold qlen. simpl length. rewrite Nat2Z.inj_succ, <- Z.add_1_r, inject_Z_plus. reflexivity.
Qed.

Lemma qlen_nonneg {A} (l : list A) : 0 <= qlen l.
Proof. unfold qlen. change 0 with (inject_Z 0). rewrite <- Zle_Qle. lia. Qed.

Lemma qlen_ge {A} (l : list A) n : (n <= length l)%nat -> inject_Z (Z.of_nat n) <= qlen l.
Proof. intros H. unfold qlen. rewrite <- Zle_Qle. lia. Qed.

Lemma Qabs_sq x : Qabs x * Qabs x == x * x.
Proof. rewrite <- Qabs_Qmult. apply Qabs_pos. nra. Qed.

Lemma sq_nonneg x : 0 <= sq x.
Proof. unfold sq. nra. Qed.

(** ---- the model of the code equals the textbook definitions ------------------------------------- *)
Lemma c_mean_t xs : c_mean xs = t_mean xs.
Proof. reflexivity. Qed.

Lemma c_var_t xs : c_var 1 xs == t_var xs.
Proof.
  unfold c_var, t_var, dev2. cbv zeta. apply Qdiv_comp; [|reflexivity].
  apply qsum_map_ext. intros x. unfold sq. apply Qabs_sq.
Qed.

Lemma c_eom_sq_t xs : c_eom_sq xs == t_eom_sq xs.
Proof. unfold c_eom_sq, t_eom_sq. now rewrite c_var_t. Qed.

Lemma c_wsum_t ss : qsum (c_weights ss) == t_wsum ss.
Proof. unfold c_weights, t_wsum, sq. reflexivity. Qed.

Lemma c_wnum_t xs ss :
  qsum (map2 Qmult (c_weights ss) xs) == qsum (map2 (fun x s => x / sq s) xs ss).
Proof.
  unfold c_weights. revert ss. induction xs as [|x xs IH]; intros [|s ss]; simpl; try reflexivity. rewrite !qadd_eq.
  rewrite IH. unfold sq, Qdiv. ring.
Qed.

Lemma c_wmean_t xs ss : c_wmean xs ss == t_wmean xs ss.
Proof. unfold c_wmean, t_wmean. now rewrite c_wnum_t, c_wsum_t. Qed.

Lemma c_perr_sq_t ss : c_perr_sq ss == t_perr_sq ss.
Proof. unfold c_perr_sq, t_perr_sq. now rewrite c_wsum_t. Qed.

Lemma c_cov_t xs ys c : c_cov xs ys = Some c -> length xs = length ys /\ c == t_cov xs ys.
Proof.
  unfold c_cov. destruct (Nat.eqb_spec (length xs) (length ys)) as [E|]; [|discriminate].
  intros H; inversion H. split; [exact E|]. unfold t_cov, devxy, t_mean, c_mean. generalize (qsum (map2 (fun x y : Q => (x - qsum xs / qlen xs) * (y - qsum ys / qlen ys)) xs ys)). intros S. unfold Qdiv. ring.
Qed.

Lemma c_cov_some xs ys : length xs = length ys -> exists c, c_cov xs ys = Some c /\ c == t_cov xs ys.
Proof.
  intros E. unfold c_cov. rewrite (proj2 (Nat.eqb_eq _ _) E). eexists. split; [reflexivity|].
  unfold t_cov, devxy, t_mean, c_mean. generalize (qsum (map2 (fun x y : Q => (x - qsum xs / qlen xs) * (y - qsum ys / qlen ys)) xs ys)). intros S. unfold Qdiv. ring.
Qed.

Lemma c_cov_none xs ys : length xs <> length ys -> c_cov xs ys = None.
Proof. intros E. unfold c_cov. now rewrite (proj2 (Nat.eqb_neq _ _) E). Qed.

(** all uncertainties positive: the weighted statistics are valid *)
Lemma weights_valid_pos ss : Forall (fun s => 0 < s) ss -> c_weights_valid ss = true.
Proof.
  induction 1 as [|s ss Hs _ IH]; simpl; [reflexivity|]. rewrite IH, andb_true_r.
  apply negb_true_iff. destruct (Qeq_bool s 0) eqn:E; [|reflexivity].
  apply Qeq_bool_iff in E. lra.
Qed.

(** ---- the statistics lemma used by Props/C10.v ------------------------------------------------------ *)
Lemma stats_lemma xs ss :
  let r := rmv_new xs ss in
  r_mean r == qsum xs / qlen xs /\
  r_std_sq r == qsum (map (fun x => sq (x - qsum xs / qlen xs)) xs) / (qlen xs - 1) /\
  r_eom_sq r == r_std_sq r / qlen xs /\
  r_value r == r_mean r /\ r_err_sq r == r_eom_sq r /\ r_xs r = xs.
Proof.
  cbv zeta. unfold r_mean, r_std_sq, r_eom_sq, rmv_new; simpl.
  repeat split; try reflexivity. apply c_var_t.
Qed.

Lemma weighted_lemma xs ss :
  Forall (fun s => 0 < s) ss ->
  let r := rmv_new xs ss in
  exists wm pe, r_wmean r = Some wm /\ r_perr_sq r = Some pe /\
    wm == qsum (map2 (fun x s => x / (s * s)) xs ss) / qsum (map (fun s => 1 / (s * s)) ss) /\
    pe == 1 / qsum (map (fun s => 1 / (s * s)) ss).
Proof.
  intros H. cbv zeta. unfold r_wmean, r_perr_sq, rmv_new; simpl. rewrite (weights_valid_pos ss H).
  eexists; eexists. split; [reflexivity|]. split; [reflexivity|]. split.
  - apply c_wmean_t.
  - apply c_perr_sq_t.
Qed.

Lemma weighted_invalid_lemma xs ss :
  c_weights_valid ss = false ->
  let r := rmv_new xs ss in
  r_wmean r = None /\ r_perr_sq r = None /\ sel_step r UseEwm = (r, true) /\ sel_step r UsePerr = (r, true).
Proof.
  intros H. cbv zeta. unfold r_wmean, r_perr_sq, sel_step, rmv_new; simpl. rewrite H. auto.
Qed.

(** ---- selectors: the last effective selector of each group wins ------------------------------------ *)
Lemma sel_step_fields r o : r_xs (fst (sel_step r o)) = r_xs r /\ r_ss (fst (sel_step r o)) = r_ss r.
Proof. destruct o; simpl; try (destruct (c_weights_valid (r_ss r))); simpl; auto. Qed.

Lemma sel_run_fields ops r : r_xs (sel_run ops r) = r_xs r /\ r_ss (sel_run ops r) = r_ss r.
Proof.
  revert r. induction ops as [|o ops IH]; intros r; simpl; [auto|].
  destruct (IH (fst (sel_step r o))) as [H1 H2]. destruct (sel_step_fields r o) as [H3 H4].
  unfold sel_run in *. simpl. rewrite H1, H2. auto.
Qed.

Lemma last_such_sat {A} (p : A -> bool) l x : last_such p l = Some x -> p x = true.
Proof.
  induction l as [|y l IH]; simpl; [discriminate|].
  destruct (last_such p l) as [z|]; [intros H; inversion H; subst; auto|].
  destruct (p y) eqn:E; [intros H; inversion H; subst; exact E|discriminate].
Qed.

Lemma sel_run_value ops r :
  r_value (sel_run ops r) =
  match last_such (fun o => negb (is_err_sel o) && effective (r_ss r) o) ops with
  | Some _ => c_wmean (r_xs r) (r_ss r)
  | None => r_value r
  end.
Proof.
  revert r. induction ops as [|o ops IH]; intros r; [reflexivity|].
  change (sel_run (o :: ops) r) with (sel_run ops (fst (sel_step r o))). rewrite IH.
  destruct (sel_step_fields r o) as [H1 H2]. rewrite H1, H2. simpl.
  destruct (last_such _ ops); [reflexivity|].
  destruct o; simpl; try reflexivity; destruct (c_weights_valid (r_ss r)); reflexivity.
Qed.

Lemma sel_run_err ops r :
  r_err_sq (sel_run ops r) =
  match last_such (fun o => is_err_sel o && effective (r_ss r) o) ops with
  | Some UseStd => c_var 1 (r_xs r)
  | Some UseEom => c_eom_sq (r_xs r)
  | Some UsePerr => c_perr_sq (r_ss r)
  | Some UseEwm => r_err_sq r
  | None => r_err_sq r
  end.
Proof.
  revert r. induction ops as [|o ops IH]; intros r; [reflexivity|].
  change (sel_run (o :: ops) r) with (sel_run ops (fst (sel_step r o))). rewrite IH.
  destruct (sel_step_fields r o) as [H1 H2]. rewrite H1, H2. simpl.
  destruct (last_such _ ops) as [y|] eqn:L.
  - destruct y; try reflexivity. apply last_such_sat in L. discriminate.
  - destruct o; simpl; try reflexivity; destruct (c_weights_valid (r_ss r)); reflexivity.
Qed.

Lemma selectors_lemma xs ss ops :
  let r := sel_run ops (rmv_new xs ss) in
  r_value r == spec_value xs ss ops /\ r_err_sq r == spec_err_sq xs ss ops /\ r_xs r = xs /\ r_ss r = ss.
Proof.
  cbv zeta. destruct (sel_run_fields ops (rmv_new xs ss)) as [H1 H2].
  rewrite sel_run_value, sel_run_err. unfold spec_value, spec_err_sq. simpl.
  split; [|split; [|split; assumption]].
  - destruct (last_such _ ops); [apply c_wmean_t|reflexivity].
  - destruct (last_such _ ops) as [y|] eqn:L; [|apply c_eom_sq_t].
    destruct y; [apply c_var_t|apply c_eom_sq_t|apply c_eom_sq_t|apply c_perr_sq_t].
Qed.

(** what the last selector of a kind means, spelled out: the history ends with selector [o] followed only
    by selectors of the other group (or ineffective ones) *)
Lemma last_such_app {A} (p : A -> bool) l x m :
  p x = true -> forallb (fun y => negb (p y)) m = true -> last_such p (l ++ x :: m) = Some x.
Proof.
  intros Hx Hm. induction l as [|y l IH]; simpl.
  - assert (E : last_such p m = None).
    { induction m as [|z m IHm]; simpl in *; [reflexivity|].
      apply andb_true_iff in Hm. destruct Hm as [Hz Hm]. rewrite (IHm Hm).
      apply negb_true_iff in Hz. now rewrite Hz. }
    now rewrite E, Hx.
  - now rewrite IH.
Qed.

(** ---- Cauchy-Schwarz -------------------------------------------------------------------------------- *)
Lemma cs_quadratic mx my xs ys t :
  qsum (map2 (fun x y => sq ((x - mx) * t - (y - my))) xs ys) ==
  qsum (map2 (fun x (_ : Q) => sq (x - mx)) xs ys) * t * t - 2 * devxy mx my xs ys * t
  + qsum (map2 (fun (_ : Q) y => sq (y - my)) xs ys).
Proof.
  unfold devxy. revert ys. induction xs as [|x xs IH]; intros [|y ys]; simpl; rewrite ?qadd_eq; try ring.
  rewrite IH. unfold sq. ring.
Qed.

Lemma map2_fst_len (f : Q -> Q) xs (ys : list Q) :
  length xs = length ys -> map2 (fun x _ => f x) xs ys = map f xs.
Proof.
  revert ys. induction xs as [|x xs IH]; intros [|y ys]; simpl; try discriminate; auto.
  intros E. f_equal. apply IH. lia.
Qed.

Lemma map2_snd_len (f : Q -> Q) (xs : list Q) ys :
  length xs = length ys -> map2 (fun _ y => f y) xs ys = map f ys.
Proof.
  revert ys. induction xs as [|x xs IH]; intros [|y ys]; simpl; try discriminate; auto.
  intros E. f_equal. apply IH. lia.
Qed.

Lemma cauchy_schwarz_abc A B C :
  0 <= A -> (forall t, 0 <= A * t * t - 2 * C * t + B) -> C * C <= A * B.
Proof.
  intros HA H. destruct (Qeq_dec A 0) as [EA|NA].
  - (* A = 0: the linear function B - 2 C t is >= 0 for all t, so C = 0 *)
    destruct (Qeq_dec C 0) as [EC|NC]; [rewrite EA, EC; lra|].
    exfalso. specialize (H ((B + 1) / (2 * C))).
    assert (E : A * ((B + 1) / (2 * C)) * ((B + 1) / (2 * C)) - 2 * C * ((B + 1) / (2 * C)) + B == -1).
    { rewrite EA. field. exact NC. }
    rewrite E in H. lra.
  - assert (HA' : 0 < A) by (apply Qle_lteq in HA; destruct HA as [HA|HA]; [exact HA|exfalso; apply NA; now symmetry]).
    specialize (H (C / A)).
    assert (E : A * (C / A) * (C / A) - 2 * C * (C / A) + B == B - C * C / A) by (field; exact NA).
    rewrite E in H.
    assert (E2 : C * C == (C * C / A) * A) by (field; exact NA).
    rewrite E2. assert (C * C / A <= B) by lra.
    rewrite (Qmult_comm A B). apply Qmult_le_compat_r; [assumption|lra].
Qed.

Lemma cauchy_schwarz_dev mx my xs ys :
  length xs = length ys ->
  devxy mx my xs ys * devxy mx my xs ys <= dev2 mx xs * dev2 my ys.
Proof.
  intros E. apply cauchy_schwarz_abc.
  - unfold dev2. apply qsum_map_nonneg. intros x. apply sq_nonneg.
  - intros t. pose proof (cs_quadratic mx my xs ys t) as Q.
    rewrite (map2_fst_len (fun x => sq (x - mx)) xs ys E) in Q.
    rewrite (map2_snd_len (fun y => sq (y - my)) xs ys E) in Q.
    unfold dev2. rewrite <- Q. apply qsum_map2_nonneg. intros x y. apply sq_nonneg.
Qed.

(** sample covariance^2 <= variance x * variance y *)
Lemma cauchy_schwarz_stats xs ys :
  length xs = length ys -> t_cov xs ys * t_cov xs ys <= t_var xs * t_var ys.
Proof.
  intros E. unfold t_cov, t_var.
  assert (L : qlen ys = qlen xs) by (unfold qlen; now rewrite E).
  rewrite L.
  set (d := / (qlen xs - 1)).
  assert (E1 : devxy (t_mean xs) (t_mean ys) xs ys / (qlen xs - 1) * (devxy (t_mean xs) (t_mean ys) xs ys / (qlen xs - 1))
               == devxy (t_mean xs) (t_mean ys) xs ys * devxy (t_mean xs) (t_mean ys) xs ys * (d * d))
    by (unfold Qdiv, d; ring).
  assert (E2 : dev2 (t_mean xs) xs / (qlen xs - 1) * (dev2 (t_mean ys) ys / (qlen xs - 1))
               == dev2 (t_mean xs) xs * dev2 (t_mean ys) ys * (d * d))
    by (unfold Qdiv, d; ring).
  rewrite E1, E2. apply Qmult_le_compat_r; [now apply cauchy_schwarz_dev|nra].
Qed.

Lemma sq_le_bounds L c : 0 <= L -> c * c <= L * L -> - L <= c <= L.
Proof. intros HL H. split; nra. Qed.

(** ---- exactly collinear readings ------------------------------------------------------------------------- *)
Lemma dev2_ext m m' xs : m == m' -> dev2 m xs == dev2 m' xs.
Proof. intros E. unfold dev2. apply qsum_map_ext. intros x. unfold sq. now rewrite E. Qed.

Lemma devxy_ext mx mx' my my' xs ys : mx == mx' -> my == my' -> devxy mx my xs ys == devxy mx' my' xs ys.
Proof. intros E1 E2. unfold devxy. apply qsum_map2_ext. intros x y. now rewrite E1, E2. Qed.

Definition affine (k c : Q) (xs : list Q) : list Q := map (fun x => k * x + c) xs.

Lemma affine_length k c xs : length (affine k c xs) = length xs.
Proof. apply map_length. Qed.

Lemma qsum_affine k c xs : qsum (affine k c xs) == k * qsum xs + c * qlen xs.
Proof.
  induction xs as [|x xs IH]; simpl; rewrite ?qadd_eq.
  - unfold qlen; simpl. ring.
  - rewrite IH, (qlen_cons x xs). ring.
Qed.

Lemma mean_affine k c xs : ~ qlen xs == 0 -> t_mean (affine k c xs) == k * t_mean xs + c.
Proof.
  intros H. unfold t_mean. rewrite qsum_affine.
  assert (L : qlen (affine k c xs) = qlen xs) by (unfold qlen; now rewrite affine_length).
  rewrite L. field. exact H.
Qed.

Lemma devxy_affine k c m xs : devxy m (k * m + c) xs (affine k c xs) == k * dev2 m xs.
Proof.
  unfold devxy, dev2, affine. induction xs as [|x xs IH]; simpl; rewrite ?qadd_eq; [ring|].
  rewrite IH. unfold sq. ring.
Qed.

Lemma dev2_affine k c m xs : dev2 (k * m + c) (affine k c xs) == k * k * dev2 m xs.
Proof.
  unfold dev2, affine. induction xs as [|x xs IH]; simpl; rewrite ?qadd_eq; [ring|].
  rewrite IH. unfold sq. ring.
Qed.

Lemma cov_affine k c xs : ~ qlen xs == 0 -> t_cov xs (affine k c xs) == k * t_var xs.
Proof.
  intros H. unfold t_cov, t_var.
  rewrite (devxy_ext _ (t_mean xs) _ (k * t_mean xs + c) xs (affine k c xs) (Qeq_refl _) (mean_affine k c xs H)).
  rewrite devxy_affine. unfold Qdiv. ring.
Qed.

Lemma var_affine k c xs : ~ qlen xs == 0 -> t_var (affine k c xs) == k * k * t_var xs.
Proof.
  intros H. unfold t_var.
  assert (L : qlen (affine k c xs) = qlen xs) by (unfold qlen; now rewrite affine_length).
  rewrite L, (dev2_ext _ (k * t_mean xs + c) (affine k c xs) (mean_affine k c xs H)).
  rewrite dev2_affine. unfold Qdiv. ring.
Qed.

Lemma var_nonneg xs : (2 <= length xs)%nat -> 0 <= t_var xs.
Proof.
  intros H. unfold t_var. apply Qle_shift_div_l.
  - pose proof (qlen_ge xs 2 H) as G. simpl in G. change (inject_Z 2) with 2 in G. lra.
  - rewrite Qmult_0_l. unfold dev2. apply qsum_map_nonneg. intros x. apply sq_nonneg.
Qed.

Lemma qlen_nonzero {A} (l : list A) : (2 <= length l)%nat -> ~ qlen l == 0.
Proof. intros H E. pose proof (qlen_ge l 2 H) as G. change (inject_Z (Z.of_nat 2)) with 2 in G. lra. Qed.

(** ys = k xs + c, k <> 0: covariance^2 = variance x * variance y, and the covariance has the sign of k *)
Lemma collinear_stats k c xs :
  (2 <= length xs)%nat ->
  let ys := affine k c xs in
  t_cov xs ys * t_cov xs ys == t_var xs * t_var ys /\ t_cov xs ys == k * t_var xs /\ 0 <= t_var xs.
Proof.
  intros H. cbv zeta. pose proof (qlen_nonzero xs H) as N.
  rewrite (cov_affine k c xs N), (var_affine k c xs N).
  split; [ring|]. split; [reflexivity|]. now apply var_nonneg.
Qed.

(** with exact standard deviations sx, sy (sx^2 = var x, sy^2 = var y, both > 0) the normalised
    covariance of exactly collinear readings is exactly +1 or -1, and the clamp of the code is the identity *)
Lemma collinear_corr k c xs sx sy :
  (2 <= length xs)%nat -> ~ k == 0 -> 0 < sx -> 0 < sy ->
  sx * sx == t_var xs -> sy * sy == t_var (affine k c xs) ->
  let cv := t_cov xs (affine k c xs) in
  (0 < k -> cv == sx * sy) /\ (k < 0 -> cv == - (sx * sy)).
Proof.
  intros H K Hx Hy Ex Ey. cbv zeta. pose proof (qlen_nonzero xs H) as N.
  rewrite (cov_affine k c xs N). rewrite (var_affine k c xs N) in Ey. rewrite <- Ex in *.
  (* sy^2 = k^2 sx^2, sy > 0, sx > 0  =>  sy = |k| sx *)
  assert (F : (sy - k * sx) * (sy + k * sx) == 0) by (ring_simplify; rewrite Ey; ring).
  apply Qmult_integral in F. split; intros Hk.
  - destruct F as [F|F]; [|exfalso; nra].
    assert (sy == k * sx) by lra. rewrite H0. ring.
  - destruct F as [F|F]; [exfalso; nra|].
    assert (sy == - (k * sx)) by lra. rewrite H0. ring.
Qed.

(** ---- "the last selector wins", spelled out on a history pre ++ o :: post -------------------------------- *)
Lemma selectors_last_error xs ss pre o post :
  is_err_sel o = true -> effective ss o = true ->
  forallb (fun y => negb (is_err_sel y && effective ss y)) post = true ->
  r_err_sq (sel_run (pre ++ o :: post) (rmv_new xs ss)) ==
  match o with UseStd => t_var xs | UsePerr => t_perr_sq ss | _ => t_eom_sq xs end.
Proof.
  intros H1 H2 H3. destruct (selectors_lemma xs ss (pre ++ o :: post)) as (_ & E & _).
  rewrite E. unfold spec_err_sq.
  rewrite (last_such_app (fun o => is_err_sel o && effective ss o) pre o post); [|now rewrite H1, H2|exact H3].
  destruct o; reflexivity.
Qed.

Lemma selectors_last_value xs ss pre post :
  c_weights_valid ss = true ->
  forallb (fun y => negb (negb (is_err_sel y) && effective ss y)) post = true ->
  r_value (sel_run (pre ++ UseEwm :: post) (rmv_new xs ss)) == t_wmean xs ss.
Proof.
  intros H1 H3. destruct (selectors_lemma xs ss (pre ++ UseEwm :: post)) as (E & _).
  rewrite E. unfold spec_value.
  rewrite (last_such_app (fun o => negb (is_err_sel o) && effective ss o) pre UseEwm post); [reflexivity|simpl; exact H1|exact H3].
Qed.

Lemma selectors_no_value_selector xs ss ops :
  forallb (fun y => negb (negb (is_err_sel y) && effective ss y)) ops = true ->
  r_value (sel_run ops (rmv_new xs ss)) == t_mean xs.
Proof.
  intros H. destruct (selectors_lemma xs ss ops) as (E & _). rewrite E. unfold spec_value.
  assert (L : last_such (fun o => negb (is_err_sel o) && effective ss o) ops = None).
  { clear E. induction ops as [|z m IHm]; simpl in *; [reflexivity|].
    apply andb_true_iff in H. destruct H as [Hz Hm]. rewrite (IHm Hm).
    apply negb_true_iff in Hz. simpl in Hz. now rewrite Hz. }
  now rewrite L.
Qed.

Lemma model_is_textbook xs ys ss :
  c_mean xs == t_mean xs /\ c_var 1 xs == t_var xs /\ c_eom_sq xs == t_eom_sq xs /\
  c_wmean xs ss == t_wmean xs ss /\ c_perr_sq ss == t_perr_sq ss /\
  (length xs = length ys -> exists c, c_cov xs ys = Some c /\ c == t_cov xs ys) /\
  (length xs <> length ys -> c_cov xs ys = None).
Proof.
  split; [reflexivity|]. split; [apply c_var_t|]. split; [apply c_eom_sq_t|]. split; [apply c_wmean_t|].
  split; [apply c_perr_sq_t|]. split; [apply c_cov_some|apply c_cov_none].
Qed.

(** a propagation k * a + c after any selector history reads the selected statistics *)
Lemma propagation_lemma xs ss ops k c :
  let r := sel_run ops (rmv_new xs ss) in
  lin_value k c r == k * spec_value xs ss ops + c /\ lin_err_sq k r == k * k * spec_err_sq xs ss ops.
Proof.
  cbv zeta. destruct (selectors_lemma xs ss ops) as (E1 & E2 & _).
  unfold lin_value, lin_err_sq. now rewrite E1, E2.
Qed.

Lemma rmv_make_some xs ss :
  length xs = length ss -> Forall (fun s => 0 <= s) ss -> rmv_make xs ss = Some (rmv_new xs ss).
Proof.
  intros E H. unfold rmv_make. rewrite (proj2 (Nat.eqb_eq _ _) E). simpl.
  assert (F : forallb (fun e => Qle_bool 0 e) ss = true).
  { clear E. induction H as [|s ss Hs _ IH]; simpl; [reflexivity|].
    rewrite IH, andb_true_r. now apply Qle_bool_iff. }
  now rewrite F.
Qed.

(** ---- Monte Carlo propagation of k * a + c from the value and uncertainty in use ------------------------------ *)
Lemma t_mean_map_ext {A} (f g : A -> Q) l : (forall x, f x == g x) -> t_mean (map f l) == t_mean (map g l).
Proof.
  intros H. unfold t_mean.
  assert (L : qlen (map f l) = qlen (map g l)) by (unfold qlen; now rewrite !map_length).
  rewrite L. apply Qdiv_comp; [now apply qsum_map_ext|reflexivity].
Qed.

Lemma t_var_map_ext {A} (f g : A -> Q) l : (forall x, f x == g x) -> t_var (map f l) == t_var (map g l).
Proof.
  intros H. unfold t_var.
  assert (L : qlen (map f l) = qlen (map g l)) by (unfold qlen; now rewrite !map_length).
  rewrite L. apply Qdiv_comp; [|reflexivity].
  unfold dev2. rewrite !map_map. apply qsum_map_ext. intros x.
  unfold sq. now rewrite (t_mean_map_ext f g l H), (H x).
Qed.

Lemma monte_carlo_lemma xs ss ops k c e offs :
  let r := sel_run ops (rmv_new xs ss) in
  e * e == r_err_sq r -> (2 <= length offs)%nat -> t_mean offs == 0 ->
  let samples := map (mc_lin k c (r_value r) e) offs in
  t_mean samples == k * spec_value xs ss ops + c /\
  t_var samples == k * k * spec_err_sq xs ss ops * t_var offs.
Proof.
  cbv zeta. intros He Hn Hm. destruct (selectors_lemma xs ss ops) as (E1 & E2 & _).
  set (r := sel_run ops (rmv_new xs ss)) in *.
  assert (P : forall o, mc_lin k c (r_value r) e o == (k * e) * o + (k * r_value r + c))
    by (intros o; unfold mc_lin; ring).
  pose proof (qlen_nonzero offs Hn) as N.
  split.
  - rewrite (t_mean_map_ext _ _ offs P).
    change (map (fun o => k * e * o + (k * r_value r + c)) offs) with (affine (k * e) (k * r_value r + c) offs).
    rewrite (mean_affine _ _ offs N), Hm, E1. ring.
  - rewrite (t_var_map_ext _ _ offs P).
    change (map (fun o => k * e * o + (k * r_value r + c)) offs) with (affine (k * e) (k * r_value r + c) offs).
    rewrite (var_affine _ _ offs N), <- E2, <- He. ring.
Qed.
