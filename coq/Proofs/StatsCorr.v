(** The inferred covariance / correlation of the correlation-store model (Model/Corr.v) in terms of the
    textbook statistics (Model/Stats.v): with exact standard deviations the clamp is the identity
    (Cauchy-Schwarz), the record is the sample covariance and its normalised form, and exactly collinear
    readings are recorded with correlation exactly +1 or -1. *)
From Coq Require Import List ZArith QArith Qabs Qminmax Bool Lia Lqa.
From QV Require Import Model.Stats Model.Corr Proofs.Stats Proofs.Corr.
Import ListNotations.
Open Scope Q_scope.

(** "sx is the standard deviation of xs" without square roots *)
Definition exact_std (sx : Q) (xs : list Q) : Prop := 0 < sx /\ sx * sx == t_var xs.

Lemma exact_std_clamp x y c :
  length (q_data x) = length (q_data y) ->
  exact_std (q_std x) (q_data x) -> exact_std (q_std y) (q_data y) ->
  c == t_cov (q_data x) (q_data y) ->
  qclamp (q_std x * q_std y) c == c.
Proof.
  intros E [Hx Ex] [Hy Ey] Hc. apply qclamp_id. apply sq_le_bounds; [nra|].
  rewrite Hc. pose proof (cauchy_schwarz_stats _ _ E) as CS. rewrite <- Ex, <- Ey in CS.
  assert (R : q_std x * q_std y * (q_std x * q_std y) == q_std x * q_std x * (q_std y * q_std y)) by ring.
  rewrite R. exact CS.
Qed.

Lemma inferred_exact s f a b x y :
  nthq s a = Some x -> nthq s b = Some y -> is_repeated x = true -> is_repeated y = true ->
  q_plain x = true -> q_plain y = true -> length (q_data x) = length (q_data y) ->
  exact_std (q_std x) (q_data x) -> exact_std (q_std y) (q_data y) ->
  let tc := t_cov (q_data x) (q_data y) in
  (exists corr cov, step s (SetCov f (Ref a) (Ref b) ANone) = (put s a b (corr, cov), Done) /\
                    cov == tc /\ corr == tc / (q_std x * q_std y)) /\
  (exists corr cov, step s (SetCorr f (Ref a) (Ref b) ANone) = (put s a b (corr, cov), Done) /\
                    cov == tc /\ corr == tc / (q_std x * q_std y)).
Proof.
  intros Ha Hb Rx Ry Px Py E Sx Sy. cbv zeta.
  destruct (c_cov_some _ _ E) as [c [Hc Ec]].
  assert (Nx : ~ q_std x == 0) by (destruct Sx; lra).
  assert (Ny : ~ q_std y == 0) by (destruct Sy; lra).
  assert (L : ~ q_std x * q_std y == 0) by (intros Z; apply Qmult_integral in Z; tauto).
  pose proof (exact_std_clamp x y c E Sx Sy Ec) as K.
  split.
  - eexists; eexists. split; [apply (set_cov_inferred_accepts s f a b x y c); assumption|].
    split; [now rewrite K|now rewrite K, Ec].
  - eexists; eexists. split; [apply (set_corr_inferred_accepts s f a b x y c); assumption|].
    split; [rewrite K, Ec; field; tauto|now rewrite K, Ec].
Qed.

Lemma inferred_rejected_length s f a b x y :
  nthq s a = Some x -> nthq s b = Some y -> is_repeated x = true -> is_repeated y = true ->
  length (q_data x) <> length (q_data y) ->
  (exists e, step s (SetCov f (Ref a) (Ref b) ANone) = (s, Raised e)) /\
  (exists e, step s (SetCorr f (Ref a) (Ref b) ANone) = (s, Raised e)).
Proof.
  intros Ha Hb Rx Ry E.
  assert (My : is_measured y = true) by (unfold is_repeated in Ry; unfold is_measured; destruct (q_kind y); auto).
  assert (I : infer x y = InfNone) by (unfold infer; now rewrite (c_cov_none _ _ E)).
  split.
  - assert (M : exists e, meth_set_cov s a x (Ref b) ANone = (s, Raised e)).
    { unfold meth_set_cov. simpl. rewrite Hb, My, Ry. simpl.
      unfold is_repeated in Rx. destruct (q_kind x); try discriminate. rewrite I.
      unfold measured_set_cov. destruct (_ || _); eauto. }
    simpl. rewrite Ha, Hb. destruct f; exact M.
  - assert (M : exists e, meth_set_corr s a x (Ref b) ANone = (s, Raised e)).
    { unfold meth_set_corr. simpl. rewrite Hb, My, Ry. simpl.
      unfold is_repeated in Rx. destruct (q_kind x); try discriminate. rewrite I.
      unfold measured_set_corr. destruct (_ || _); eauto. }
    simpl. rewrite Ha, Hb. destruct f; exact M.
Qed.

(** exactly collinear readings ys = k xs + c, k <> 0: the request is accepted and records the
    correlation sign(k) exactly and the covariance k * var(xs) *)
Lemma collinear_recorded s f a b x y k c :
  nthq s a = Some x -> nthq s b = Some y -> is_repeated x = true -> is_repeated y = true ->
  q_plain x = true -> q_plain y = true ->
  (2 <= length (q_data x))%nat -> q_data y = affine k c (q_data x) -> ~ k == 0 ->
  exact_std (q_std x) (q_data x) -> exact_std (q_std y) (q_data y) ->
  let sgn := if Qlt_le_dec 0 k then 1 else -1 in
  (exists corr cov, step s (SetCorr f (Ref a) (Ref b) ANone) = (put s a b (corr, cov), Done) /\
                    corr == sgn /\ cov == k * t_var (q_data x)) /\
  (exists corr cov, step s (SetCov f (Ref a) (Ref b) ANone) = (put s a b (corr, cov), Done) /\
                    corr == sgn /\ cov == k * t_var (q_data x)).
Proof.
  intros Ha Hb Rx Ry Px Py H2 Ey K Sx Sy. cbv zeta.
  assert (E : length (q_data x) = length (q_data y)) by (rewrite Ey; now rewrite affine_length).
  destruct (inferred_exact s f a b x y Ha Hb Rx Ry Px Py E Sx Sy) as [(r1 & c1 & St1 & Hc1 & Hr1) (r2 & c2 & St2 & Hc2 & Hr2)].
  assert (Sy' := Sy). destruct Sx as [Hx Ex], Sy' as [Hy Ey2]. rewrite Ey in Ey2.
  destruct (collinear_corr k c (q_data x) (q_std x) (q_std y) H2 K Hx Hy Ex Ey2) as [Pos Neg].
  pose proof (cov_affine k c (q_data x) (qlen_nonzero _ H2)) as CA.
  rewrite Ey in *.
  assert (L : ~ q_std x * q_std y == 0) by nra.
  assert (Sg : t_cov (q_data x) (affine k c (q_data x)) / (q_std x * q_std y) == (if Qlt_le_dec 0 k then 1 else -1)).
  { destruct (Qlt_le_dec 0 k) as [Hk|Hk].
    - rewrite (Pos Hk). field. split; lra.
    - assert (Hk' : k < 0) by (apply Qle_lteq in Hk; destruct Hk as [Hk|Hk]; [exact Hk|exfalso; apply K; exact Hk]).
      rewrite (Neg Hk'). field. split; lra. }
  split.
  - exists r2, c2. split; [exact St2|]. split; [now rewrite Hr2|now rewrite Hc2].
  - exists r1, c1. split; [exact St1|]. split; [now rewrite Hr1|now rewrite Hc1].
Qed.
