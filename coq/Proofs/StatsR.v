(** The square-root statements of C10 over the real numbers: the rational squares carried by the model
    (Model/Stats.v) are the squares of the textbook standard deviation sqrt(sum (x-mean)^2/(n-1)) and
    error on the mean std/sqrt(n); comparing squares of non-negative numbers is comparing the numbers. *)
From Coq Require Import List ZArith QArith Qreals Reals Lra Lia.
From QV Require Import Model.Stats Proofs.Stats.
Import ListNotations.

Local Open Scope R_scope.

Definition std_R (xs : list Q) : R := sqrt (Q2R (t_var xs)).
Definition eom_R (xs : list Q) : R := std_R xs / sqrt (Q2R (qlen xs)).

Lemma Q2R_qlen_pos xs : (2 <= length xs)%nat -> 0 < Q2R (@qlen Q xs).
Proof.
  intros H. pose proof (qlen_ge xs 2 H) as G. apply Qle_Rle in G.
  change (inject_Z (Z.of_nat 2)) with (2 # 1)%Q in G.
  assert (E : Q2R (2 # 1) = 2) by (unfold Q2R; simpl; lra). rewrite E in G. lra.
Qed.

Lemma var_R_nonneg xs : (2 <= length xs)%nat -> 0 <= Q2R (t_var xs).
Proof.
  intros H. pose proof (var_nonneg xs H) as G. apply Qle_Rle in G.
  assert (E : Q2R 0 = 0) by (unfold Q2R; simpl; lra). rewrite E in G. exact G.
Qed.

Lemma stats_R xs :
  (2 <= length xs)%nat ->
  std_R xs * std_R xs = Q2R (t_var xs) /\
  eom_R xs = sqrt (Q2R (t_eom_sq xs)) /\
  eom_R xs * eom_R xs = Q2R (t_eom_sq xs) /\
  0 <= std_R xs /\ 0 <= eom_R xs.
Proof.
  intros H. pose proof (var_R_nonneg xs H) as V. pose proof (Q2R_qlen_pos xs H) as N.
  assert (E : Q2R (t_eom_sq xs) = Q2R (t_var xs) / Q2R (qlen xs)).
  { unfold t_eom_sq. unfold Qdiv. rewrite Q2R_mult, Q2R_inv; [reflexivity|].
    intros Z. apply Qeq_eqR in Z. assert (E0 : Q2R 0 = 0) by (unfold Q2R; simpl; lra). rewrite E0 in Z. lra. }
  assert (D : eom_R xs = sqrt (Q2R (t_eom_sq xs))).
  { unfold eom_R, std_R. rewrite E. symmetry. apply sqrt_div_alt. exact N. }
  assert (P : 0 <= Q2R (t_eom_sq xs)).
  { rewrite E. apply Rmult_le_pos; [exact V|]. left. now apply Rinv_0_lt_compat. }
  split; [unfold std_R; now apply sqrt_sqrt|]. split; [exact D|].
  split; [rewrite D; now apply sqrt_sqrt|]. split; [apply sqrt_pos|rewrite D; apply sqrt_pos].
Qed.

(** an uncertainty e >= 0 whose square is the model's square IS the square root *)
Lemma square_determines e (v : Q) : 0 <= e -> e * e = Q2R v -> e = sqrt (Q2R v).
Proof.
  intros He E. symmetry. apply sqrt_lem_1; [rewrite <- E; nra|exact He|exact E].
Qed.
