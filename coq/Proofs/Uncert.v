(** C14: the uncertainty is non-negative on every path; rejections are atomic. *)
From Coq Require Import List ZArith QArith Qabs Bool Lia.
From QV Require Import Base.Py Model.Uncert.
Import ListNotations.

Definition Inv (q : quantity) : Prop := 0 <= q_error q /\ stats_ok (q_stats q).

Lemma Qle_bool_true x y : Qle_bool x y = true -> x <= y.
Proof. apply Qle_bool_iff. Qed.

Lemma no_stats_ok : stats_ok no_stats.
Proof. unfold stats_ok, no_stats; simpl. repeat split; apply Qle_refl. Qed.

Lemma construct_inv v e q : fst (construct v e) = Some q -> Inv q.
Proof.
  unfold construct.
  assert (G : forall x, fst (if Qle_bool 0 x then (Some (mk KSingle v x no_stats), Accepted)
                             else (None, Rejected ValueError)) = Some q -> Inv q).
  { intros x. destruct (Qle_bool 0 x) eqn:E; simpl; [|discriminate].
    intros H. injection H as <-. split; [apply Qle_bool_true, E|apply no_stats_ok]. }
  destruct e as [|b|z|q0|s|c n|l|l]; simpl; try discriminate; try apply G.
  - intros H; injection H as <-; split; [apply Qle_refl|apply no_stats_ok].
  - destruct b; apply G.
Qed.

Lemma construct_rejects_negative v e x :
  is_real e = Some x -> x < 0 -> construct v e = (None, Rejected ValueError).
Proof.
  intros Hr Hx. unfold construct. destruct e; try discriminate Hr; rewrite Hr.
  all: destruct (Qle_bool 0 x) eqn:E; [apply Qle_bool_true in E; exfalso; apply (Qlt_not_le _ _ Hx E)|reflexivity].
Qed.

Lemma check_nonneg_spec l r : fst (check_nonneg l) = Some r -> r = l /\ Forall (fun x => 0 <= x) l.
Proof.
  unfold check_nonneg. destruct (forallb _ l) eqn:E; simpl; [|discriminate].
  intros H. injection H as <-. split; [reflexivity|].
  rewrite forallb_forall in E. apply Forall_forall. intros x Hx. apply Qle_bool_true, E, Hx.
Qed.

(** every way of constructing an array of uncertainties gives non-negative entries or is rejected *)
Definition good (c : option (list Q) * outcome) : Prop :=
  forall l, fst c = Some l -> Forall (fun x => 0 <= x) l.

Lemma good_check m : good (check_nonneg m).
Proof. intros l H. destruct (check_nonneg_spec m l H) as [-> F]. exact F. Qed.
Lemma good_none o : good (None, o).
Proof. intros l H. discriminate H. Qed.
Lemma good_zeros (data : list Q) : good (Some (map (fun _ : Q => 0) data), Accepted).
Proof.
  intros l H. injection H as <-. apply Forall_forall. intros x Hx.
  apply in_map_iff in Hx. destruct Hx as [_ [<- _]]. apply Qle_refl.
Qed.

Theorem error_array_nonneg data error rel l :
  fst (error_array data error rel) = Some l -> Forall (fun x => 0 <= x) l.
Proof.
  revert l. change (good (error_array data error rel)). unfold error_array.
  repeat match goal with
  | |- good (check_nonneg _) => apply good_check
  | |- good (None, _) => apply good_none
  | |- good (Some (map (fun _ : Q => 0) _), Accepted) => apply good_zeros
  | |- good (match ?x with _ => _ end) => destruct x
  | |- good (if ?x then _ else _) => destruct x
  end.
Qed.

Theorem step_inv q x : Inv q -> Inv (fst (step q x)).
Proof.
  intros [He Hs]. destruct Hs as [Hstd [Heom Hperr]].
  assert (Hs : stats_ok (q_stats q)) by (repeat split; assumption).
  destruct x; simpl.
  - destruct (is_real v); [|split; assumption]. destruct (q_kind q); simpl; split; assumption.
  - destruct (is_real e) as [x|]; [|split; assumption].
    destruct (Qle_bool 0 x) eqn:E; [|split; assumption].
    apply Qle_bool_true in E. destruct (q_kind q); simpl; split; assumption.
  - destruct (is_real r) as [x|]; [|split; assumption].
    destruct (Qle_bool 0 x) eqn:E; [|split; assumption].
    apply Qle_bool_true in E.
    assert (0 <= Qabs (q_value q) * x) by (apply Qmult_le_0_compat; [apply Qabs_nonneg|exact E]).
    destruct (q_kind q); simpl; split; assumption.
  - destruct (q_kind q); simpl; split; assumption.
  - destruct (q_kind q); simpl; split; assumption.
  - destruct (q_kind q); simpl; try (split; assumption).
    destruct (st_ewm (q_stats q)); simpl; split; assumption.
  - destruct (q_kind q); simpl; try (split; assumption).
    destruct (st_perr (q_stats q)) eqn:E; simpl; split; assumption.
  - destruct (q_kind q); simpl; try (split; assumption).
    destruct (is_real v); [|split; assumption].
    destruct (is_real e) as [y|]; [|split; assumption].
    destruct (Qle_bool 0 y) eqn:E; [|split; assumption].
    apply Qle_bool_true in E. simpl. split; assumption.
  - destruct (q_kind q); simpl; try (split; assumption).
    assert (A : Inv (fst (if Qle_bool 0 e then (mk KDerived v e (q_stats q), Accepted) else (q, Rejected OtherError)))).
    { destruct (Qle_bool 0 e) eqn:E; simpl; [|split; assumption]. apply Qle_bool_true in E. split; assumption. }
    destruct (truthy c); [|exact A].
    destruct (is_real c) as [x|]; [|split; assumption].
    destruct (Qle_bool 0 x && Qle_bool x 1); [exact A|split; assumption].
Qed.

Theorem run_inv ops : forall q, Inv q -> Inv (run q ops).
Proof.
  unfold run. induction ops as [|x ops IH]; intros q Hq; simpl; [exact Hq|].
  apply IH, step_inv, Hq.
Qed.

Theorem step_atomic q x e : snd (step q x) = Rejected e -> fst (step q x) = q.
Proof.
  destruct x; simpl;
    repeat match goal with
    | |- context [match is_real ?v with Some _ => _ | None => _ end] => destruct (is_real v); simpl
    | |- context [if Qle_bool ?a ?b then _ else _] => destruct (Qle_bool a b); simpl
    | |- context [match q_kind q with KSingle => _ | KRepeated => _ | KDerived => _ end] => destruct (q_kind q); simpl
    | |- context [match st_ewm ?s with Some _ => _ | None => _ end] => destruct (st_ewm s); simpl
    | |- context [match st_perr ?s with Some _ => _ | None => _ end] => destruct (st_perr s); simpl
    | |- context [if truthy ?c then _ else _] => destruct (truthy c); simpl
    | |- context [if (?a && ?b)%bool then _ else _] => destruct (a && b)%bool; simpl
    end; try discriminate; reflexivity.
Qed.

Theorem relative_error_law q r x :
  is_real r = Some x -> 0 <= x ->
  snd (step q (SetRelError r)) = Accepted /\ q_error (fst (step q (SetRelError r))) == Qabs (q_value q) * x
  /\ q_value (fst (step q (SetRelError r))) = q_value q.
Proof.
  intros Hr Hx. simpl. rewrite Hr.
  destruct (Qle_bool 0 x) eqn:E.
  - destruct (q_kind q); simpl; repeat split; reflexivity.
  - exfalso. apply Qle_bool_iff in Hx. congruence.
Qed.

Theorem negative_rejected q v x :
  is_real v = Some x -> x < 0 ->
  step q (SetError v) = (q, Rejected ValueError) /\ step q (SetRelError v) = (q, Rejected ValueError).
Proof.
  intros Hr Hx. simpl. rewrite Hr.
  destruct (Qle_bool 0 x) eqn:E; [apply Qle_bool_true in E; exfalso; apply (Qlt_not_le _ _ Hx E)|].
  split; reflexivity.
Qed.
