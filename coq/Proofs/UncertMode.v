(** C14, Monte Carlo path: the uncertainty reported by the mode-with-confidence statistic is never negative.
    [find_mode] is the model of utils.find_mode_and_uncertainty (Model/MC.v, tied to the code by C16's correspondence). *)
From Coq Require Import List ZArith QArith Bool Lia.
From QV Require Import Base.Py Model.MC Proofs.MCMode Proofs.MCHist.
Import ListNotations.
Open Scope Q_scope.

Lemma find_mode_error_nonneg : forall n bins conf v e,
  n <> [] -> nonneg n -> conf <= 1 ->
  qnth bins (argmax n) <= qnth bins (S (argmax n)) ->
  find_mode n bins conf = Some (v, e) -> 0 <= e.
Proof.
  intros n bins conf v e Hne Hn Hc Hedges Hf.
  destruct (find_mode_spec n bins conf Hne Hn Hc) as (v' & e' & Hf' & _ & k & _ & He & _).
  rewrite Hf in Hf'. injection Hf' as _ Ee. subst e'. rewrite He.
  apply Qmult_le_0_compat.
  - change 0 with (inject_Z 0). rewrite <- Zle_Qle. lia.
  - unfold Qminus. rewrite <- (Qplus_opp_r (qnth bins (argmax n))).
    apply Qplus_le_compat; [exact Hedges|apply Qle_refl].
Qed.

(** ... and for the histogram the library actually bins (numpy.histogram's equal-width edges) the hypothesis on the
    edges holds, so the reported mode uncertainty of EVERY sample list is >= 0 *)
Lemma qmin_l_le : forall l a, qmin_l a l <= a.
Proof.
  induction l as [|x t IH]; intros a; cbn [qmin_l]; [apply Qle_refl|].
  destruct (Qle_bool x a) eqn:E.
  - apply Qle_bool_iff in E. eapply Qle_trans; [apply IH|exact E].
  - apply IH.
Qed.

Lemma qmax_l_ge : forall l a, a <= qmax_l a l.
Proof.
  induction l as [|x t IH]; intros a; cbn [qmax_l]; [apply Qle_refl|].
  destruct (Qle_bool a x) eqn:E.
  - apply Qle_bool_iff in E. eapply Qle_trans; [exact E|apply IH].
  - apply IH.
Qed.

Lemma outer_edges_ordered : forall xs, fst (outer_edges xs) <= snd (outer_edges xs).
Proof.
  intros [|x t]; cbn [outer_edges fst snd]; [discriminate|].
  assert (H : qmin_l x t <= qmax_l x t) by (eapply Qle_trans; [apply qmin_l_le|apply qmax_l_ge]).
  destruct (Qeq_bool (qmin_l x t) (qmax_l x t)); cbn [fst snd]; [|exact H].
  apply Qplus_le_compat; [exact H|discriminate].
Qed.

Lemma hist_edges_step : forall xs nb i, (i < nb)%nat ->
  qnth (hist_edges xs nb) i <= qnth (hist_edges xs nb) (S i).
Proof.
  intros xs nb i Hi. unfold hist_edges, qnth.
  pose proof (outer_edges_ordered xs) as Ho. destruct (outer_edges xs) as [lo hi]. cbn [fst snd] in Ho.
  set (f := fun j : nat => lo + inject_Z (Z.of_nat j) * (hi - lo) / inject_Z (Z.of_nat nb)).
  assert (Hn : forall j, (j < S nb)%nat -> nth j (map f (seq 0 (S nb))) 0 = f j).
  { intros j Hj. rewrite (nth_indep _ 0 (f 0%nat)) by (rewrite map_length, seq_length; exact Hj).
    rewrite map_nth, seq_nth by exact Hj. reflexivity. }
  rewrite (Hn i) by lia. rewrite (Hn (S i)) by lia. unfold f.
  apply Qplus_le_compat; [apply Qle_refl|].
  assert (Hnb : 0 < inject_Z (Z.of_nat nb)) by (change 0 with (inject_Z 0); rewrite <- Zlt_Qlt; lia).
  apply Qmult_le_compat_r; [|apply Qlt_le_weak, Qinv_lt_0_compat; exact Hnb].
  apply Qmult_le_compat_r.
  - rewrite <- Zle_Qle. lia.
  - unfold Qminus. rewrite <- (Qplus_opp_r lo). apply Qplus_le_compat; [exact Ho|apply Qle_refl].
Qed.

Lemma mode_rep_error_nonneg : forall xs conf, conf <= 1 ->
  match r_error (mode_rep xs conf) with EExact e => 0 <= e | ESqrt _ => False | EUndef => False end.
Proof.
  intros xs conf Hc. unfold mode_rep.
  pose proof (MCHist.hist_nonempty xs) as Hne. pose proof (MCHist.hist_nonneg xs NBINS) as Hn.
  destruct (find_mode_spec _ (hist_edges xs NBINS) conf Hne Hn Hc) as (v & e & Hf & _).
  rewrite Hf. cbn [r_error].
  refine (find_mode_error_nonneg _ _ conf v e Hne Hn Hc _ Hf).
  apply hist_edges_step. destruct (argmax_spec _ Hne) as (Hm & _). rewrite MCHist.hist_length in Hm. exact Hm.
Qed.
