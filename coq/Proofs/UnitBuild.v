(** The two-stack builder on an alternating token list, and the evaluation of the resulting
    left-nested tree. *)
From Coq Require Import List ZArith NArith QArith Bool Lia Setoid.
From QV Require Import Gen.UnitSyntaxGen Model.UnitSyntax Proofs.UnitLexer Proofs.UnitPieces.
Import ListNotations.

(** ---- facts about the generated precedence table and comparisons ---- *)
Definition s_star : str := [c_star].
Definition s_slash : str := [c_slash].
Definition s_caret : str := [c_caret].
Definition is_mulop (o : str) : Prop := o = s_star \/ o = s_slash.

Lemma table_facts :
  prec s_star = Some 1%Z /\ prec s_slash = Some 1%Z /\ prec s_caret = Some 2%Z /\ prec gen_sentinel = Some 0%Z /\
  gen_cmp_push 1 0 = true /\ gen_cmp_push 1 1 = false /\ gen_cmp_reduce 1 1 = true /\ gen_cmp_push 2 0 = true.
Proof. vm_compute. repeat split. Qed.

Lemma prec_mulop : forall o, is_mulop o -> prec o = Some 1%Z.
Proof. intros o [H|H]; subst; apply table_facts. Qed.

Lemma prec_none : forall c s, (c =? c_star)%N = false -> (c =? c_slash)%N = false -> (c =? c_caret)%N = false ->
  prec (c :: s) = None.
Proof.
  intros c s H1 H2 H3. unfold c_star, c_slash, c_caret in *. unfold prec, gen_prec_table. simpl.
  rewrite H1, H2, H3. reflexivity.
Qed.

(** ---- operands ---- *)
Definition operand (X : tok) (T : tree) : Prop :=
  match X with
  | TS s => prec s = None /\ T = Leaf s
  | TL _ => build_tok X = Some T
  end.

Lemma step_operand : forall X T operands top ops, operand X T ->
  step build_tok X operands (top :: ops) = Some (T :: operands, top :: ops).
Proof.
  intros [s|l] T operands top ops H; unfold operand in H.
  - destruct H as [Hp HT]. subst. unfold step. rewrite Hp. reflexivity.
  - unfold step. rewrite H. reflexivity.
Qed.

Lemma build_tok_TL : forall l, build_tok (TL l) = finalize (run build_tok l [] [gen_sentinel]).
Proof. reflexivity. Qed.

Definition pairs_toks (ps : list (str * tok)) : list tok := flat_map (fun p => [TS (fst p); snd p]) ps.
Definition left_nest (T0 : tree) (pts : list (str * tree)) : tree :=
  fold_left (fun acc p => Node (fst p) acc (snd p)) pts T0.
Definition pair_ok (p : str * tok) (q : str * tree) : Prop :=
  fst p = fst q /\ is_mulop (fst p) /\ operand (snd p) (snd q).

Lemma run_pairs : forall ps pts A T o, Forall2 pair_ok ps pts -> is_mulop o ->
  finalize (run build_tok (pairs_toks ps) [T; A] [o; gen_sentinel]) = Some (left_nest (Node o A T) pts).
Proof.
  induction ps as [|[o' X] ps IH]; intros pts A T o HF Ho.
  - inversion HF; subst. reflexivity.
  - inversion HF as [|? [o'' T'] ? pts' [Ho1 [Ho2 Hop]] HF']; subst. simpl in Ho1, Ho2, Hop. subst o''.
    destruct table_facts as (_ & _ & _ & _ & _ & Hc1 & Hc2 & _).
    cbn [pairs_toks flat_map app run fst snd].
    assert (Hs : step build_tok (TS o') [T; A] [o; gen_sentinel] = Some ([Node o A T], [o'; gen_sentinel])).
    { unfold step. rewrite (prec_mulop o' Ho2), (prec_mulop o Ho). rewrite Hc1, Hc2. reflexivity. }
    rewrite Hs. rewrite (step_operand X T') by assumption.
    apply (IH pts' (Node o A T) T' o'); assumption.
Qed.

Lemma build_alternating : forall X0 T0 ps pts, operand X0 T0 -> Forall2 pair_ok ps pts ->
  build_tok (TL (X0 :: pairs_toks ps)) = Some (left_nest T0 pts).
Proof.
  intros X0 T0 ps pts H0 HF. rewrite build_tok_TL. cbn [run].
  rewrite (step_operand X0 T0) by assumption.
  destruct ps as [|[o1 X1] ps].
  - inversion HF; subst. reflexivity.
  - inversion HF as [|? [o1' T1] ? pts' [Ho1 [Ho2 Hop]] HF']; subst. simpl in Ho1, Ho2, Hop. subst o1'.
    destruct table_facts as (_ & _ & _ & Hs0 & Hc0 & _).
    cbn [pairs_toks flat_map app run fst snd].
    match goal with |- context [step build_tok (TS o1) ?a ?b] =>
      assert (Hs : step build_tok (TS o1) a b = Some (a, o1 :: b)) end.
    { unfold step. rewrite (prec_mulop o1 Ho2), Hs0, Hc0. reflexivity. }
    rewrite Hs. rewrite (step_operand X1 T1) by assumption.
    apply (run_pairs ps pts' T0 T1 o1); assumption.
Qed.

(** a symbol with a power: [unit, "^", power] *)
Lemma build_power : forall u p, prec u = None -> prec p = None ->
  build_tok (TL [TS u; TS s_caret; TS p]) = Some (Node s_caret (Leaf u) (Leaf p)).
Proof.
  intros u p Hu Hp. rewrite build_tok_TL. cbn [run]. unfold step at 1. rewrite Hu.
  destruct table_facts as (_ & _ & Hc & Hs0 & _ & _ & _ & Hpush).
  unfold step at 1. rewrite Hc, Hs0, Hpush. unfold step. rewrite Hp. reflexivity.
Qed.

(** ---- exponent maps ---- *)
Definition keys (u : umap) : list str := map fst u.

Lemma assoc_uset_same : forall k (v : Q) u, assoc k (uset k v u) = Some v.
Proof.
  induction u as [|[k' v'] u IH]; simpl.
  - rewrite str_eqb_refl. reflexivity.
  - destruct (str_eqb k k') eqn:E; simpl; rewrite E; [reflexivity|exact IH].
Qed.
Lemma assoc_uset_other : forall k k' (v : Q) u, k <> k' -> assoc k' (uset k v u) = assoc k' u.
Proof.
  intros k k' v u Hne. induction u as [|[k0 v0] u IH]; simpl.
  - rewrite (str_eqb_neq k' k) by congruence. reflexivity.
  - destruct (str_eqb k k0) eqn:E; simpl.
    + apply str_eqb_eq in E. subst k0. rewrite (str_eqb_neq k' k) by congruence. reflexivity.
    + destruct (str_eqb k' k0); [reflexivity|exact IH].
Qed.
Lemma in_keys_uset : forall x k (v : Q) u, In x (keys (uset k v u)) -> x = k \/ In x (keys u).
Proof.
  induction u as [|[k0 v0] u IH]; simpl; intro H.
  - destruct H as [H|[]]. left. congruence.
  - destruct (str_eqb k k0) eqn:E; simpl in H.
    + right. exact H.
    + destruct H as [H|H]; [right; left; exact H|]. destruct (IH H); [left|right; right]; assumption.
Qed.
Lemma nodup_uset : forall k (v : Q) u, NoDup (keys u) -> NoDup (keys (uset k v u)).
Proof.
  induction u as [|[k0 v0] u IH]; simpl; intro H.
  - constructor; [intros []|constructor].
  - inversion H as [|? ? Hn Hu]; subst. destruct (str_eqb k k0) eqn:E; simpl.
    + constructor; assumption.
    + constructor; [|apply IH; assumption]. intro Hin. apply in_keys_uset in Hin. destruct Hin as [Hin|Hin].
      * subst. rewrite str_eqb_refl in E. discriminate.
      * contradiction.
Qed.
Lemma assoc_not_in : forall k (u : umap), ~ In k (keys u) -> assoc k u = None.
Proof.
  induction u as [|[k0 v0] u IH]; simpl; intro H; [reflexivity|].
  destruct (str_eqb k k0) eqn:E.
  - apply str_eqb_eq in E. subst. exfalso. apply H. left. reflexivity.
  - apply IH. intro. apply H. right. assumption.
Qed.
Lemma uset_fresh : forall k (v : Q) u, ~ In k (keys u) -> uset k v u = u ++ [(k, v)].
Proof.
  induction u as [|[k0 v0] u IH]; simpl; intro H; [reflexivity|].
  destruct (str_eqb k k0) eqn:E.
  - apply str_eqb_eq in E. subst. exfalso. apply H. left. reflexivity.
  - rewrite IH; [reflexivity|]. intro. apply H. right. assumption.
Qed.

Lemma copy_into_fresh : forall ul acc, NoDup (keys ul) -> (forall k, In k (keys ul) -> ~ In k (keys acc)) ->
  copy_into acc ul = acc ++ ul.
Proof.
  induction ul as [|[k e] ul IH]; intros acc Hnd Hdis; simpl.
  - rewrite app_nil_r. reflexivity.
  - inversion Hnd as [|? ? Hn Hnd']; subst.
    rewrite uset_fresh by (apply Hdis; left; reflexivity).
    rewrite IH; [rewrite <- app_assoc; reflexivity|assumption|].
    intros k' Hk' Hin. unfold keys in Hin. rewrite map_app in Hin. apply in_app_or in Hin. destruct Hin as [Hin|Hin].
    + apply (Hdis k'); [right; assumption|assumption].
    + simpl in Hin. destruct Hin as [Hin|[]]. subst. contradiction.
Qed.
Lemma copy_into_nil : forall ul, NoDup (keys ul) -> copy_into [] ul = ul.
Proof. intros ul H. rewrite copy_into_fresh; [reflexivity|assumption|]. intros k _ []. Qed.

Lemma dim_uset : forall k v u k', dim (uset k v u) k' = if str_eqb k' k then v else dim u k'.
Proof.
  intros k v u k'. unfold dim, uget. destruct (str_eqb k' k) eqn:E.
  - apply str_eqb_eq in E. subst. rewrite assoc_uset_same. reflexivity.
  - rewrite assoc_uset_other; [reflexivity|]. intro. subst. rewrite str_eqb_refl in E. discriminate.
Qed.

Lemma dim_cons : forall k0 e right k, dim ((k0, e) :: right) k = if str_eqb k k0 then e else dim right k.
Proof. intros. unfold dim, uget. simpl. destruct (str_eqb k k0); reflexivity. Qed.

Lemma merge_spec : forall sign right units, NoDup (keys right) -> NoDup (keys units) ->
  NoDup (keys (merge sign units right)) /\
  forall k, dim (merge sign units right) k == dim units k + sign * dim right k.
Proof.
  induction right as [|[k0 e] right IH]; intros units Hr Hu; simpl.
  - split; [assumption|]. intro k. unfold dim at 3. unfold uget. simpl. ring.
  - inversion Hr as [|? ? Hn Hr']; subst.
    destruct (IH (uset k0 (uget k0 units + sign * e) units) Hr' (nodup_uset _ _ _ Hu)) as [H1 H2].
    split; [exact H1|]. intro k. rewrite H2. rewrite dim_uset. rewrite dim_cons.
    destruct (str_eqb k k0) eqn:E.
    + apply str_eqb_eq in E. subst k.
      assert (Hz : dim right k0 = 0) by (unfold dim, uget; rewrite (assoc_not_in k0 right Hn); reflexivity).
      rewrite Hz. unfold dim. ring.
    + ring.
Qed.

(** ---- evaluation ---- *)
Definition eval_ok (T : tree) (D : str -> Q) : Prop :=
  exists u, eval T = Some u /\ NoDup (keys u) /\ forall k, dim u k == D k.

Lemma eval_ok_ext : forall T D D', (forall k, D k == D' k) -> eval_ok T D -> eval_ok T D'.
Proof.
  intros T D D' H (u & H1 & H2 & H3). exists u. repeat split; try assumption. intro k. rewrite H3. apply H.
Qed.

Definition sign_of_op (o : str) : Q := if str_eqb o s_star then 1 else -1.

Lemma eval_node : forall o l r Dl Dr, is_mulop o -> eval_ok l Dl -> eval_ok r Dr ->
  eval_ok (Node o l r) (fun k => Dl k + sign_of_op o * Dr k).
Proof.
  intros o l r Dl Dr Ho (ul & El & Nl & Hl) (ur & Er & Nr & Hr).
  assert (Hev : eval (Node o l r) = Some (merge (sign_of_op o) (copy_into [] ul) ur)).
  { destruct Ho as [Ho|Ho]; subst o; simpl; rewrite El, Er; reflexivity. }
  rewrite copy_into_nil in Hev by assumption.
  destruct (merge_spec (sign_of_op o) ur ul Nr Nl) as [H1 H2].
  eexists. split; [exact Hev|]. split; [exact H1|]. intro k. rewrite H2, Hl, Hr. reflexivity.
Qed.

Fixpoint sum_pairs (Ds : list (str * (str -> Q))) (k : str) : Q :=
  match Ds with
  | [] => 0
  | (o, D) :: Ds' => sign_of_op o * D k + sum_pairs Ds' k
  end.

Lemma eval_left_nest : forall pts Ds T0 D0,
  Forall2 (fun p q => fst p = fst q /\ is_mulop (fst p) /\ eval_ok (snd p) (snd q)) pts Ds ->
  eval_ok T0 D0 -> eval_ok (left_nest T0 pts) (fun k => D0 k + sum_pairs Ds k).
Proof.
  induction pts as [|[o T] pts IH]; intros Ds T0 D0 HF H0.
  - inversion HF; subst. simpl. eapply eval_ok_ext; [|exact H0]. intro k. simpl. ring.
  - inversion HF as [|? [o' D] ? Ds' [Ho1 [Ho2 He]] HF']; subst. simpl in Ho1, Ho2, He. subst o'.
    simpl. eapply eval_ok_ext; [|apply (IH Ds' (Node o T0 T) (fun k => D0 k + sign_of_op o * D k) HF')].
    + intro k. simpl. ring.
    + apply eval_node; assumption.
Qed.

Lemma eval_one_leaf : eval_ok (Leaf [c_one]) (fun _ => 0).
Proof. exists []. split; [reflexivity|]. split; [constructor|]. intro k. reflexivity. Qed.
