(** Lemmas about the lexer model: token matching, the scan relation, validity and coverage. *)
From Coq Require Import List ZArith NArith QArith Bool Lia.
From QV Require Import Gen.UnitSyntaxGen Model.UnitSyntax.
Import ListNotations.
Local Open Scope N_scope.
Global Arguments N.eqb : simpl never.
Global Arguments N.leb : simpl never.

(** ---- strings ---- *)
Lemma str_eqb_eq : forall a b, str_eqb a b = true <-> a = b.
Proof.
  induction a as [|x a IH]; destruct b as [|y b]; simpl; split; intro H; try congruence; try discriminate.
  - apply andb_true_iff in H. destruct H as [H1 H2]. apply N.eqb_eq in H1. apply IH in H2. congruence.
  - inversion H; subst. rewrite N.eqb_refl. simpl. apply IH. reflexivity.
Qed.
Lemma str_eqb_refl : forall a, str_eqb a a = true.
Proof. intro a. apply str_eqb_eq. reflexivity. Qed.
Lemma str_eqb_neq : forall a b, a <> b -> str_eqb a b = false.
Proof. intros a b H. destruct (str_eqb a b) eqn:E; [apply str_eqb_eq in E; contradiction|reflexivity]. Qed.

(** first character of what follows *)
Definition hd_is (p : N -> bool) (s : str) : bool := match s with c :: _ => p c | [] => false end.

(** ---- span ---- *)
Lemma span_split : forall p s a b, span p s = (a, b) -> s = a ++ b.
Proof.
  induction s as [|c s IH]; simpl; intros a b H.
  - inversion H. reflexivity.
  - destruct (p c).
    + destruct (span p s) as [a' b'] eqn:E. inversion H; subst. simpl. f_equal. apply IH. reflexivity.
    + inversion H. reflexivity.
Qed.
Lemma span_all : forall p s a b, span p s = (a, b) -> forallb p a = true /\ hd_is p b = false.
Proof.
  induction s as [|c s IH]; simpl; intros a b H.
  - inversion H. split; reflexivity.
  - destruct (p c) eqn:Ec.
    + destruct (span p s) as [a' b'] eqn:E. inversion H; subst. simpl. rewrite Ec.
      destruct (IH _ _ eq_refl) as [H1 H2]. split; assumption.
    + inversion H; subst. simpl. rewrite Ec. split; reflexivity.
Qed.
Lemma span_app : forall p a r, forallb p a = true -> hd_is p r = false -> span p (a ++ r) = (a, r).
Proof.
  induction a as [|c a IH]; simpl; intros r Ha Hr.
  - destruct r as [|x r]; simpl in *; [reflexivity|]. rewrite Hr. reflexivity.
  - apply andb_true_iff in Ha. destruct Ha as [Hc Ha]. rewrite Hc. rewrite IH by assumption. reflexivity.
Qed.

(** ---- the pieces of a token: split lemmas ---- *)
Lemma opt_minus_split : forall s sg r, opt_minus s = (sg, r) -> s = sg ++ r.
Proof.
  intros [|c t] sg r H; simpl in H.
  - inversion H. reflexivity.
  - destruct (c =? c_minus) eqn:E; inversion H; subst; [apply N.eqb_eq in E; subst|]; reflexivity.
Qed.

Lemma match_intpow_split : forall s t r, match_intpow s = Some (t, r) -> s = t ++ r /\ t <> [].
Proof.
  intros [|c s1] t r H; simpl in H; [discriminate|].
  destruct (c =? c_caret) eqn:Ec; [|discriminate]. apply N.eqb_eq in Ec. subst c.
  destruct (opt_minus s1) as [sg s2] eqn:E1. destruct (span is_digit s2) as [ds s3] eqn:E2.
  destruct ds as [|d ds]; [discriminate|]. inversion H; subst.
  apply opt_minus_split in E1. apply span_split in E2. subst. split; [|discriminate].
  simpl. rewrite <- app_assoc. reflexivity.
Qed.

Lemma match_frac_split : forall s t r, match_frac s = Some (t, r) -> s = t ++ r /\ (2 <= length t)%nat.
Proof.
  intros [|c [|l t1]] t r H; simpl in H; try discriminate.
  destruct ((c =? c_caret) && (l =? c_lpar)) eqn:Ec; [|discriminate].
  apply andb_true_iff in Ec. destruct Ec as [Ec El]. apply N.eqb_eq in Ec, El. subst.
  destruct (opt_minus t1) as [sg t2] eqn:E1. destruct (span is_digit t2) as [n t3] eqn:E2.
  destruct n as [|n0 n]; [discriminate|]. destruct t3 as [|sl t4]; [discriminate|].
  destruct (sl =? c_slash) eqn:Es; [|discriminate]. apply N.eqb_eq in Es. subst.
  destruct (span is_digit t4) as [d t5] eqn:E3. destruct d as [|d0 d]; [discriminate|].
  destruct t5 as [|rp t6]; [discriminate|]. destruct (rp =? c_rpar) eqn:Er; [|discriminate].
  apply N.eqb_eq in Er. subst. inversion H; subst.
  apply opt_minus_split in E1. apply span_split in E2. apply span_split in E3. subst.
  split; [|simpl; lia].
  simpl. repeat (rewrite <- app_assoc; simpl). reflexivity.
Qed.

Lemma match_power_split : forall s t r, match_power s = Some (t, r) -> s = t ++ r /\ t <> [].
Proof.
  intros s t r H. unfold match_power in H. destruct (match_intpow s) as [[t' r']|] eqn:E.
  - inversion H; subst. apply match_intpow_split. assumption.
  - apply match_frac_split in H. destruct H as [H1 H2]. split; [assumption|].
    destruct t; [simpl in H2; lia|discriminate].
Qed.

Global Arguments match_frac : simpl never.
Global Arguments match_intpow : simpl never.
Global Arguments match_power : simpl never.

Lemma bracket_body_split : forall s k i r, bracket_body s k = Some (i, r) -> s = i ++ c_rpar :: r.
Proof.
  induction s as [|c t IH]; intros k i r H; simpl in H; [discriminate|].
  assert (Hc : forall k', match bracket_body t k' with Some (i0, r0) => Some (c :: i0, r0) | None => None end
                          = Some (i, r) -> c :: t = i ++ c_rpar :: r).
  { intros k' H'. destruct (bracket_body t k') as [[i0 r0]|] eqn:E; [|discriminate].
    inversion H'; subst. simpl. f_equal. eapply IH. eassumption. }
  destruct k as [|k].
  - destruct (c =? c_rpar) eqn:E1.
    + apply N.eqb_eq in E1. inversion H; subst. reflexivity.
    + destruct (c =? c_lpar); [discriminate|].
      destruct (match_frac (c :: t)) as [[g r']|]; eapply Hc; eassumption.
  - eapply Hc; eassumption.
Qed.

Lemma match_at_split : forall b s t r, match_at b s = Some (t, r) -> s = t ++ r /\ t <> [].
Proof.
  intros b [|c s'] t r H; simpl in H; [discriminate|].
  destruct (b && (c =? c_one) && starts_with c_slash s') eqn:E1.
  { apply andb_true_iff in E1. destruct E1 as [E1 _]. apply andb_true_iff in E1. destruct E1 as [_ E1].
    apply N.eqb_eq in E1. inversion H; subst. split; [reflexivity|discriminate]. }
  destruct (is_letter c) eqn:E2.
  { destruct (span is_letter s') as [a b'] eqn:Es.
    assert (Hs : c :: s' = (c :: a) ++ b') by (simpl; f_equal; apply (span_split _ _ _ _ Es)).
    destruct (match_power b') as [[p r']|] eqn:Ep.
    - inversion H; subst. apply match_power_split in Ep. destruct Ep as [Ep _]. subst b'.
      split; [|discriminate]. rewrite Hs. simpl. rewrite <- app_assoc. reflexivity.
    - inversion H; subst. split; [assumption|discriminate]. }
  destruct (c =? c_slash) eqn:E3.
  { apply N.eqb_eq in E3. inversion H; subst. split; [reflexivity|discriminate]. }
  destruct (c =? c_star) eqn:E4.
  { apply N.eqb_eq in E4. inversion H; subst. split; [reflexivity|discriminate]. }
  destruct (c =? c_lpar) eqn:E5; [|discriminate].
  apply N.eqb_eq in E5. subst c.
  destruct (bracket_body s' 0) as [[inner r']|] eqn:Eb; [|discriminate].
  inversion H; subst. apply bracket_body_split in Eb. subst s'. split; [|discriminate].
  simpl. rewrite <- app_assoc. reflexivity.
Qed.

(** ---- the scan relation: the greedy left-to-right tokenisation covers [s] with tokens [ts] ---- *)
Inductive scans : bool -> str -> list str -> Prop :=
| scans_nil : forall b, scans b [] []
| scans_cons : forall b s t r ts, match_at b s = Some (t, r) -> scans false r ts -> scans b s (t :: ts).

Lemma scans_concat : forall b s ts, scans b s ts -> concat ts = s.
Proof.
  induction 1; simpl; [reflexivity|]. apply match_at_split in H. destruct H as [H _]. rewrite H. f_equal. exact IHscans.
Qed.

Lemma match_at_shorter : forall b s t r, match_at b s = Some (t, r) -> (length r < length s)%nat.
Proof.
  intros b s t r H. apply match_at_split in H. destruct H as [H1 H2]. subst. rewrite app_length.
  destruct t; [congruence|simpl; lia].
Qed.

Lemma scans_finditer : forall b s ts, scans b s ts -> forall fuel, (length s <= fuel)%nat -> finditer fuel b s = ts.
Proof.
  induction 1; intros fuel Hf.
  - destruct fuel; reflexivity.
  - pose proof (match_at_shorter _ _ _ _ H) as Hl.
    destruct fuel as [|f]; [lia|]. simpl. destruct s as [|c s']; [simpl in H; discriminate|].
    rewrite H. f_equal. apply IHscans. simpl in *. lia.
Qed.

Lemma scans_valid : forall b s ts, scans b s ts -> ts <> [] ->
  forall fuel, (length s <= fuel)%nat -> valid_from fuel b s = true.
Proof.
  induction 1; intros Hne fuel Hf; [congruence|].
  pose proof (match_at_shorter _ _ _ _ H) as Hl.
  destruct fuel as [|f]; [lia|]. simpl. rewrite H.
  destruct r as [|x r]; [reflexivity|].
  apply IHscans; [|simpl in *; lia]. inversion H0; subst. discriminate.
Qed.

(** validity implies coverage: the coverage check never fires on a string that passed the
    validity check (so its presence does not matter) *)
Lemma valid_covers : forall fuel b s, valid_from fuel b s = true ->
  exists ts, scans b s ts /\ ts <> [].
Proof.
  induction fuel as [|f IH]; intros b s H; simpl in H; [discriminate|].
  destruct (match_at b s) as [[t r]|] eqn:E; [|discriminate].
  destruct r as [|x r].
  - exists [t]. split; [|discriminate]. econstructor; [eassumption|constructor].
  - apply IH in H. destruct H as [ts [H1 H2]]. exists (t :: ts). split; [|discriminate].
    econstructor; eassumption.
Qed.

Lemma valid_scans : forall s, valid s = true -> exists ts, scans true s ts /\ ts <> [] /\
  finditer (length s) true s = ts /\ concat ts = s.
Proof.
  intros s H. apply valid_covers in H. destruct H as [ts [H1 H2]]. exists ts.
  repeat split; try assumption.
  - apply (scans_finditer _ _ _ H1). lia.
  - apply (scans_concat _ _ _ H1).
Qed.

(** the lexer, with the two checks resolved *)
Lemma lex_unfold : forall f s0,
  lex (S f) s0 =
  let s := preprocess s0 in
  if valid s then
    match map_opt (process (lex f)) (finditer (length s) true s) with
    | Some raw => group raw
    | None => None
    end
  else None.
Proof.
  intros f s0.
  change (lex (S f) s0) with
    (let s := preprocess s0 in
     if negb (valid s) then None
     else let ts := finditer (length s) true s in
          if gen_coverage_check && negb (str_eqb (concat ts) s) then None
          else match map_opt (process (lex f)) ts with Some raw => group raw | None => None end).
  cbv zeta. destruct (valid (preprocess s0)) eqn:Ev; cbn [negb]; [|reflexivity].
  apply valid_scans in Ev. destruct Ev as [ts [_ [_ [Hf Hc]]]].
  assert (Hcov : gen_coverage_check &&
                 negb (str_eqb (concat (finditer (length (preprocess s0)) true (preprocess s0))) (preprocess s0)) = false).
  { rewrite Hf, Hc, str_eqb_refl. apply andb_false_r. }
  rewrite Hcov. reflexivity.
Qed.

(** ---- preprocessing ---- *)
Lemma preprocess_eq : forall s, preprocess s = map (fun c => if c =? c_dot then c_star else c) s.
Proof.
  intro s. unfold preprocess. simpl. unfold replace_char.
  induction s as [|c s IH]; simpl; [reflexivity|]. rewrite IH.
  change (8901) with c_dot. destruct (c =? c_dot); reflexivity.
Qed.
Lemma preprocess_app : forall a b, preprocess (a ++ b) = preprocess a ++ preprocess b.
Proof. intros. rewrite !preprocess_eq. apply map_app. Qed.
Lemma preprocess_nodot : forall s, existsb (N.eqb c_dot) s = false -> preprocess s = s.
Proof.
  intros s H. rewrite preprocess_eq. induction s as [|c s IH]; simpl in *; [reflexivity|].
  apply orb_false_iff in H. destruct H as [H1 H2]. rewrite N.eqb_sym in H1. rewrite H1. f_equal. apply IH. assumption.
Qed.
Lemma preprocess_idem : forall s, preprocess (preprocess s) = preprocess s.
Proof.
  intro s. rewrite !preprocess_eq. rewrite map_map. apply map_ext. intro c.
  destruct (c =? c_dot) eqn:E; [reflexivity|]. rewrite E. reflexivity.
Qed.
Lemma preprocess_length : forall s, length (preprocess s) = length s.
Proof. intro s. rewrite preprocess_eq. apply map_length. Qed.
Lemma lex_preprocess : forall fuel s, lex fuel (preprocess s) = lex fuel s.
Proof. intros [|f] s; [reflexivity|]. rewrite !lex_unfold. simpl. rewrite preprocess_idem. reflexivity. Qed.
