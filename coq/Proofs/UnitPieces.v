(** Token-level lemmas: each kind of text piece of a sentence is exactly one token of the lexer,
    is processed to the expected Python token, and is transparent for the bracket scan. *)
From Coq Require Import List ZArith NArith QArith Bool Lia.
From QV Require Import Gen.UnitSyntaxGen Model.UnitSyntax Proofs.UnitLexer.
Import ListNotations.
Local Open Scope N_scope.

Ltac chr :=
  unfold is_letter, is_digit, hd_is, starts_with, c_nl, c_lpar, c_rpar, c_star, c_minus, c_slash, c_zero, c_one,
    c_caret, c_dot in *;
  repeat match goal with
         | |- context [N.leb ?a ?b] => destruct (N.leb_spec a b)
         | |- context [N.eqb ?a ?b] => destruct (N.eqb_spec a b)
         | H : context [N.leb ?a ?b] |- _ => destruct (N.leb_spec a b)
         | H : context [N.eqb ?a ?b] |- _ => destruct (N.eqb_spec a b)
         end; simpl in *; try congruence; try lia.

Lemma letter_facts : forall c, is_letter c = true ->
  is_digit c = false /\ (c =? c_one) = false /\ (c =? c_lpar) = false /\ (c =? c_rpar) = false /\
  (c =? c_caret) = false /\ (c =? c_slash) = false /\ (c =? c_star) = false /\ (c =? c_minus) = false /\
  (c =? c_dot) = false.
Proof. intros c H. repeat split; chr. Qed.
Lemma digit_facts : forall c, is_digit c = true ->
  is_letter c = false /\ (c =? c_lpar) = false /\ (c =? c_rpar) = false /\
  (c =? c_caret) = false /\ (c =? c_slash) = false /\ (c =? c_star) = false /\ (c =? c_minus) = false /\
  (c =? c_dot) = false.
Proof. intros c H. repeat split; chr. Qed.

(** what may follow a piece *)
Inductive follow_kind := FAny | FNoLetterCaret | FNoDigit.
Definition follows (fk : follow_kind) (r : str) : Prop :=
  match fk with
  | FAny => True
  | FNoLetterCaret => hd_is is_letter r = false /\ hd_is (N.eqb c_caret) r = false
  | FNoDigit => hd_is is_digit r = false
  end.

Definition sign_of (neg : bool) : str := if neg then [c_minus] else [].
Definition intpow_text (neg : bool) (ds : str) : str := c_caret :: sign_of neg ++ ds.
Definition frac_text (neg : bool) (n d : str) : str :=
  c_caret :: c_lpar :: sign_of neg ++ n ++ c_slash :: d ++ [c_rpar].
Definition digits_ok' (ds : str) : Prop := ds <> [] /\ forallb is_digit ds = true.

(** ---- powers ---- *)
Lemma opt_minus_sign : forall neg ds r, digits_ok' ds ->
  opt_minus (sign_of neg ++ ds ++ r) = (sign_of neg, ds ++ r).
Proof.
  intros neg ds r [Hne Hd]. destruct neg; simpl.
  - reflexivity.
  - destruct ds as [|d ds]; [congruence|]. simpl in Hd. apply andb_true_iff in Hd. destruct Hd as [Hd _].
    simpl. destruct (digit_facts d Hd) as (_ & _ & _ & _ & _ & _ & Hm & _). rewrite Hm. reflexivity.
Qed.

Lemma match_intpow_text : forall neg ds r, digits_ok' ds -> hd_is is_digit r = false ->
  match_intpow (intpow_text neg ds ++ r) = Some (intpow_text neg ds, r).
Proof.
  intros neg ds r Hd Hr. unfold match_intpow, intpow_text. simpl. rewrite ?N.eqb_refl.
  rewrite <- app_assoc. rewrite opt_minus_sign by assumption.
  destruct Hd as [Hne Hd]. rewrite span_app by assumption.
  destruct ds; [congruence|reflexivity].
Qed.

Lemma match_intpow_nocaret : forall r, hd_is (N.eqb c_caret) r = false -> match_intpow r = None.
Proof.
  intros [|c r] H; [reflexivity|]. unfold match_intpow. simpl in H. rewrite N.eqb_sym in H. rewrite H. reflexivity.
Qed.
Lemma match_frac_nocaret : forall r, hd_is (N.eqb c_caret) r = false -> match_frac r = None.
Proof.
  intros [|c [|l r]] H; try reflexivity. unfold match_frac. simpl in H. rewrite N.eqb_sym in H. rewrite H. reflexivity.
Qed.
Lemma match_power_nocaret : forall r, hd_is (N.eqb c_caret) r = false -> match_power r = None.
Proof. intros r H. unfold match_power. rewrite match_intpow_nocaret, match_frac_nocaret by assumption. reflexivity. Qed.

Lemma match_frac_text : forall neg n d r, digits_ok' n -> digits_ok' d ->
  match_frac (frac_text neg n d ++ r) = Some (frac_text neg n d, r).
Proof.
  intros neg n d r Hn Hd. unfold match_frac, frac_text. simpl. rewrite ?N.eqb_refl. simpl.
  replace ((sign_of neg ++ n ++ c_slash :: d ++ [c_rpar]) ++ r)
    with (sign_of neg ++ n ++ (c_slash :: d ++ c_rpar :: r))
    by (repeat (rewrite <- app_assoc; simpl); reflexivity).
  rewrite opt_minus_sign by assumption.
  destruct Hn as [Hnn Hn]. rewrite span_app; [|assumption|reflexivity].
  destruct n as [|n0 n]; [congruence|]. rewrite ?N.eqb_refl.
  destruct Hd as [Hdn Hd]. rewrite span_app; [|assumption|reflexivity].
  destruct d as [|d0 d]; [congruence|]. rewrite ?N.eqb_refl. reflexivity.
Qed.

Lemma match_intpow_frac_text : forall neg n d r, match_intpow (frac_text neg n d ++ r) = None.
Proof. intros. unfold match_intpow, frac_text. simpl. rewrite ?N.eqb_refl. reflexivity. Qed.

Lemma match_power_int : forall neg ds r, digits_ok' ds -> hd_is is_digit r = false ->
  match_power (intpow_text neg ds ++ r) = Some (intpow_text neg ds, r).
Proof. intros. unfold match_power. rewrite match_intpow_text by assumption. reflexivity. Qed.
Lemma match_power_frac : forall neg n d r, digits_ok' n -> digits_ok' d ->
  match_power (frac_text neg n d ++ r) = Some (frac_text neg n d, r).
Proof. intros. unfold match_power. rewrite match_intpow_frac_text. apply match_frac_text; assumption. Qed.

(** ---- tokens ---- *)
Definition letters_ok (ls : str) : Prop := ls <> [] /\ forallb is_letter ls = true.

Lemma match_at_letters_gen : forall b ls r, letters_ok ls -> hd_is is_letter r = false ->
  match_at b (ls ++ r) =
  match match_power r with Some (p, r') => Some (ls ++ p, r') | None => Some (ls, r) end.
Proof.
  intros b ls r [Hne Hl] Hr. destruct ls as [|c ls]; [congruence|].
  pose proof Hl as Hl'. simpl in Hl'. apply andb_true_iff in Hl'. destruct Hl' as [Hc Hls].
  destruct (letter_facts c Hc) as (_ & H1 & _).
  change ((c :: ls) ++ r) with (c :: (ls ++ r)). unfold match_at. rewrite H1, andb_false_r. simpl.
  rewrite !Hc. rewrite span_app by assumption. reflexivity.
Qed.

Lemma match_at_sym : forall b ls r, letters_ok ls -> follows FNoLetterCaret r ->
  match_at b (ls ++ r) = Some (ls, r).
Proof.
  intros b ls r Hl [H1 H2]. rewrite match_at_letters_gen by assumption.
  rewrite match_power_nocaret by assumption. reflexivity.
Qed.
Lemma match_at_sym_int : forall b ls neg ds r, letters_ok ls -> digits_ok' ds -> follows FNoDigit r ->
  match_at b ((ls ++ intpow_text neg ds) ++ r) = Some (ls ++ intpow_text neg ds, r).
Proof.
  intros b ls neg ds r Hl Hd Hr. rewrite <- app_assoc. rewrite match_at_letters_gen; [|assumption|reflexivity].
  rewrite match_power_int by assumption. reflexivity.
Qed.
Lemma match_at_sym_frac : forall b ls neg n d r, letters_ok ls -> digits_ok' n -> digits_ok' d ->
  match_at b ((ls ++ frac_text neg n d) ++ r) = Some (ls ++ frac_text neg n d, r).
Proof.
  intros b ls neg n d r Hl Hn Hd. rewrite <- app_assoc. rewrite match_at_letters_gen; [|assumption|reflexivity].
  rewrite match_power_frac by assumption. reflexivity.
Qed.
Lemma match_at_slash : forall b r, match_at b ([c_slash] ++ r) = Some ([c_slash], r).
Proof. intros. simpl. rewrite andb_false_r. reflexivity. Qed.
Lemma match_at_star : forall b r, match_at b ([c_star] ++ r) = Some ([c_star], r).
Proof. intros. simpl. rewrite andb_false_r. reflexivity. Qed.
Lemma match_at_one : forall r, match_at true (c_one :: c_slash :: r) = Some ([c_one], c_slash :: r).
Proof. intros. reflexivity. Qed.

(** ---- the bracket scan ---- *)
Definition lift_body (x : str) (o : option (str * str)) : option (str * str) :=
  match o with Some (i, r) => Some (x ++ i, r) | None => None end.
Definition transparent (x : str) : Prop :=
  forall r, bracket_body (x ++ r) 0 = lift_body x (bracket_body r 0).

Lemma lift_body_app : forall x y o, lift_body x (lift_body y o) = lift_body (x ++ y) o.
Proof. intros x y [[i r]|]; simpl; [rewrite app_assoc|]; reflexivity. Qed.
Lemma transparent_nil : transparent [].
Proof. intro r. simpl. destruct (bracket_body r 0) as [[i r']|]; reflexivity. Qed.
Lemma transparent_app : forall x y, transparent x -> transparent y -> transparent (x ++ y).
Proof. intros x y Hx Hy r. rewrite <- app_assoc, Hx, Hy, lift_body_app. reflexivity. Qed.
Lemma transparent_char : forall c, (c =? c_lpar) = false -> (c =? c_rpar) = false -> (c =? c_caret) = false ->
  transparent [c].
Proof.
  intros c H1 H2 H3 r. simpl. rewrite H2, H1.
  rewrite match_frac_nocaret by (simpl; rewrite N.eqb_sym; assumption).
  destruct (bracket_body r 0) as [[i r']|]; reflexivity.
Qed.
Lemma transparent_forall : forall x,
  forallb (fun c => negb (c =? c_lpar) && negb (c =? c_rpar) && negb (c =? c_caret)) x = true -> transparent x.
Proof.
  induction x as [|c x IH]; intro H; [apply transparent_nil|].
  simpl in H. apply andb_true_iff in H. destruct H as [Hc Hx].
  apply andb_true_iff in Hc. destruct Hc as [Hc H3]. apply andb_true_iff in Hc. destruct Hc as [H1 H2].
  apply negb_true_iff in H1, H2, H3.
  change (c :: x) with ([c] ++ x). apply transparent_app; [apply transparent_char; assumption|apply IH; assumption].
Qed.
Lemma transparent_letters : forall ls, forallb is_letter ls = true -> transparent ls.
Proof.
  intros ls H. apply transparent_forall. rewrite forallb_forall in *. intros c Hc. specialize (H c Hc).
  destruct (letter_facts c H) as (_ & _ & H1 & H2 & H3 & _). rewrite H1, H2, H3. reflexivity.
Qed.
Lemma transparent_digits : forall ds, forallb is_digit ds = true -> transparent ds.
Proof.
  intros ds H. apply transparent_forall. rewrite forallb_forall in *. intros c Hc. specialize (H c Hc).
  destruct (digit_facts c H) as (_ & H1 & H2 & H3 & _). rewrite H1, H2, H3. reflexivity.
Qed.

(** a caret that does not start a fractional-power group is an ordinary character *)
Lemma transparent_caret : forall y, (forall r, match_frac (c_caret :: y ++ r) = None) -> transparent y ->
  transparent (c_caret :: y).
Proof.
  intros y Hy Ht r. simpl. rewrite Hy. rewrite Ht.
  destruct (bracket_body r 0) as [[i r']|]; reflexivity.
Qed.

Lemma skip_copy : forall x r, bracket_body (x ++ r) (length x) = lift_body x (bracket_body r 0).
Proof.
  induction x as [|c x IH]; intro r; simpl.
  - destruct (bracket_body r 0) as [[i r']|]; reflexivity.
  - rewrite IH. destruct (bracket_body r 0) as [[i r']|]; reflexivity.
Qed.

Lemma transparent_intpow : forall neg ds, digits_ok' ds -> transparent (intpow_text neg ds).
Proof.
  intros neg ds [Hne Hd]. unfold intpow_text. apply transparent_caret.
  - intro r. unfold match_frac. destruct neg; simpl.
    + reflexivity.
    + destruct ds as [|d ds]; [congruence|]. simpl in Hd. apply andb_true_iff in Hd. destruct Hd as [Hd _].
      simpl. destruct (digit_facts d Hd) as (_ & H1 & _). rewrite H1. rewrite ?andb_false_r. reflexivity.
  - apply transparent_app; [|apply transparent_digits; assumption].
    destruct neg; [|apply transparent_nil]. apply transparent_char; reflexivity.
Qed.

Lemma transparent_frac : forall neg n d, digits_ok' n -> digits_ok' d -> transparent (frac_text neg n d).
Proof.
  intros neg n d Hn Hd r.
  pose proof (match_frac_text neg n d r Hn Hd) as Hm.
  remember (frac_text neg n d) as g eqn:Eg.
  assert (Hg : exists g', g = c_caret :: g') by (subst g; eexists; reflexivity).
  destruct Hg as [g' Hg']. rewrite Hg' in *.
  change ((c_caret :: g') ++ r) with (c_caret :: g' ++ r) in *.
  cbn [bracket_body]. rewrite Hm. simpl (c_caret =? c_rpar). simpl (c_caret =? c_lpar).
  change (c_caret =? c_rpar) with false. change (c_caret =? c_lpar) with false. cbv iota.
  simpl length. simpl Init.Nat.pred. rewrite skip_copy.
  destruct (bracket_body r 0) as [[i r']|]; reflexivity.
Qed.

Lemma bracket_body_close : forall x r, transparent x ->
  bracket_body (x ++ c_rpar :: r) 0 = Some (x, r).
Proof.
  intros x r H. rewrite H. simpl. rewrite ?N.eqb_refl. simpl. rewrite app_nil_r. reflexivity.
Qed.

Definition bracket_text (inner : str) : str := c_lpar :: inner ++ [c_rpar].

Lemma match_at_bracket : forall b inner r, transparent inner ->
  match_at b (bracket_text inner ++ r) = Some (bracket_text inner, r).
Proof.
  intros b inner r H. unfold bracket_text. simpl. rewrite andb_false_r. simpl.
  rewrite <- app_assoc. simpl. rewrite bracket_body_close by assumption. reflexivity.
Qed.

(** ---- processing of the tokens ---- *)
Lemma is_bracket_token_letter : forall c t, (c =? c_lpar) = false -> is_bracket_token (c :: t) = false.
Proof. intros c t H. unfold is_bracket_token. rewrite H. reflexivity. Qed.

Lemma process_sym : forall rec ls, letters_ok ls -> process rec ls = Some (TS ls).
Proof.
  intros rec ls [Hne Hl]. destruct ls as [|c ls]; [congruence|].
  pose proof Hl as Hl'. simpl in Hl'. apply andb_true_iff in Hl'. destruct Hl' as [Hc _].
  destruct (letter_facts c Hc) as (_ & _ & H1 & _).
  unfold process. rewrite is_bracket_token_letter by assumption.
  unfold split_unit_power. rewrite Hc.
  rewrite <- (app_nil_r (c :: ls)) at 1. rewrite span_app; [|assumption|reflexivity].
  reflexivity.
Qed.

Lemma process_sym_pow : forall rec ls p, letters_ok ls -> match_power (c_caret :: p) = Some (c_caret :: p, []) ->
  process rec (ls ++ c_caret :: p) = Some (TL [TS ls; TS [c_caret]; TS p]).
Proof.
  intros rec ls p [Hne Hl] Hp. destruct ls as [|c ls]; [congruence|].
  pose proof Hl as Hl'. simpl in Hl'. apply andb_true_iff in Hl'. destruct Hl' as [Hc _].
  destruct (letter_facts c Hc) as (_ & _ & H1 & _).
  unfold process. change ((c :: ls) ++ c_caret :: p) with (c :: (ls ++ c_caret :: p)).
  rewrite is_bracket_token_letter by assumption.
  unfold split_unit_power. rewrite Hc.
  change (c :: ls ++ c_caret :: p) with ((c :: ls) ++ c_caret :: p).
  rewrite span_app; [|assumption|reflexivity]. rewrite Hp. reflexivity.
Qed.

Lemma process_op : forall rec c, (c = c_slash \/ c = c_star \/ c = c_one) -> process rec [c] = Some (TS [c]).
Proof. intros rec c [H|[H|H]]; subst; reflexivity. Qed.

Lemma removelast_snoc : forall (x : str) c, removelast (x ++ [c]) = x.
Proof. intros. rewrite removelast_app by discriminate. simpl. apply app_nil_r. Qed.

Lemma process_bracket : forall rec inner, transparent inner ->
  process rec (bracket_text inner) = match rec inner with Some l => Some (TL l) | None => None end.
Proof.
  intros rec inner H. unfold process, bracket_text, is_bracket_token. rewrite ?N.eqb_refl. simpl andb.
  rewrite bracket_body_close by assumption.
  unfold inner_of. simpl tl. rewrite removelast_snoc. reflexivity.
Qed.
