(** C12, rejection: what the lexer accepts is built from well-shaped tokens; strings with an illegal
    character, unbalanced brackets or a digit that cannot belong to a power are rejected. *)
From Coq Require Import List ZArith NArith QArith Bool Lia.
From QV Require Import Gen.UnitSyntaxGen Model.UnitSyntax Model.UnitGrammar
     Proofs.UnitLexer Proofs.UnitPieces.
Import ListNotations.
Local Open Scope N_scope.

(** ---- inversion of the power matchers ---- *)
Lemma opt_minus_inv : forall s sg r, opt_minus s = (sg, r) -> exists neg, sg = sign_of neg /\ s = sg ++ r.
Proof.
  intros [|c t] sg r H; simpl in H.
  - inversion H. exists false. split; reflexivity.
  - destruct (c =? c_minus) eqn:E; inversion H; subst.
    + apply N.eqb_eq in E. subst. exists true. split; reflexivity.
    + exists false. split; reflexivity.
Qed.

Lemma match_intpow_inv : forall s t r, match_intpow s = Some (t, r) ->
  exists neg ds, digits_ok' ds /\ t = intpow_text neg ds.
Proof.
  intros [|c s1] t r H; unfold match_intpow in H; [discriminate|].
  destruct (c =? c_caret) eqn:Ec; [|discriminate]. apply N.eqb_eq in Ec. subst c.
  destruct (opt_minus s1) as [sg s2] eqn:E1. destruct (span is_digit s2) as [ds s3] eqn:E2.
  destruct ds as [|d ds]; [discriminate|]. inversion H; subst.
  destruct (opt_minus_inv _ _ _ E1) as (neg & Hs & _). apply span_all in E2. destruct E2 as [E2 _].
  exists neg, (d :: ds). split; [split; [discriminate|assumption]|]. subst. reflexivity.
Qed.

Lemma match_frac_inv : forall s t r, match_frac s = Some (t, r) ->
  exists neg n d, digits_ok' n /\ digits_ok' d /\ t = frac_text neg n d.
Proof.
  intros [|c [|l t1]] t r H; unfold match_frac in H; try discriminate.
  destruct ((c =? c_caret) && (l =? c_lpar)) eqn:Ec; [|discriminate].
  apply andb_true_iff in Ec. destruct Ec as [Ec El]. apply N.eqb_eq in Ec, El. subst.
  destruct (opt_minus t1) as [sg t2] eqn:E1. destruct (span is_digit t2) as [n t3] eqn:E2.
  destruct n as [|n0 n]; [discriminate|]. destruct t3 as [|sl t4]; [discriminate|].
  destruct (sl =? c_slash) eqn:Es; [|discriminate]. apply N.eqb_eq in Es. subst.
  destruct (span is_digit t4) as [d t5] eqn:E3. destruct d as [|d0 d]; [discriminate|].
  destruct t5 as [|rp t6]; [discriminate|]. destruct (rp =? c_rpar) eqn:Er; [|discriminate].
  apply N.eqb_eq in Er. subst. inversion H; subst.
  destruct (opt_minus_inv _ _ _ E1) as (neg & Hs & _).
  apply span_all in E2. destruct E2 as [E2 _]. apply span_all in E3. destruct E3 as [E3 _].
  exists neg, (n0 :: n), (d0 :: d). repeat split; try discriminate; try assumption. subst. reflexivity.
Qed.

(** ---- a bracket token is recognised as such when it is looked at again on its own ---- *)
Lemma lift_body_some : forall x o i r, lift_body x o = Some (i, r) ->
  exists i', o = Some (i', r) /\ i = x ++ i'.
Proof. intros x [[i0 r0]|] i r H; simpl in H; [|discriminate]. inversion H; subst. eauto. Qed.

Lemma bracket_body_local : forall n s k inner r, (length s <= n)%nat ->
  bracket_body s k = Some (inner, r) -> bracket_body (inner ++ [c_rpar]) k = Some (inner, []).
Proof.
  induction n as [|n IH]; intros s k inner r Hn H.
  { destruct s; [simpl in H; discriminate|simpl in Hn; lia]. }
  destruct s as [|c t]; [simpl in H; discriminate|]. simpl in Hn.
  destruct k as [|k].
  - cbn [bracket_body] in H. destruct (c =? c_rpar) eqn:E1.
    { inversion H; subst. simpl. rewrite ?N.eqb_refl. reflexivity. }
    destruct (c =? c_lpar) eqn:E2; [discriminate|].
    destruct (match_frac (c :: t)) as [[g r']|] eqn:Em.
    + (* a fractional-power group: it lies inside the bracket content *)
      destruct (match_frac_inv _ _ _ Em) as (neg & nn & dd & Hnn & Hdd & Hg).
      pose proof (match_frac_split _ _ _ Em) as [Hsplit _].
      assert (Hg' : exists g', g = c :: g').
      { subst g. unfold frac_text in *. inversion Hsplit. eexists. reflexivity. }
      destruct Hg' as [g' Hg']. subst g. rewrite Hg' in *. inversion Hsplit as [Ht]. simpl length in H. simpl Init.Nat.pred in H.
      rewrite Ht in H. rewrite skip_copy in H.
      destruct (bracket_body r' 0) as [[i' r0]|] eqn:Eb; [|simpl in H; discriminate].
      simpl in H. inversion H; subst inner r0.
      assert (Hl : (length r' <= n)%nat).
      { rewrite Ht in Hn. rewrite app_length in Hn. lia. }
      pose proof (IH r' 0%nat i' r Hl Eb) as Hi'.
      change ((c :: g' ++ i') ++ [c_rpar]) with (c :: (g' ++ i') ++ [c_rpar]).
      cbn [bracket_body]. rewrite E1, E2.
      replace (c :: (g' ++ i') ++ [c_rpar]) with (frac_text neg nn dd ++ (i' ++ [c_rpar]))
        by (rewrite Hg'; simpl; rewrite <- app_assoc; reflexivity).
      rewrite (match_frac_text neg nn dd (i' ++ [c_rpar]) Hnn Hdd). rewrite Hg'. simpl length. simpl Init.Nat.pred.
      rewrite <- app_assoc. rewrite skip_copy. rewrite Hi'. simpl. reflexivity.
    + destruct (bracket_body t 0) as [[i r0]|] eqn:Eb; [|discriminate]. inversion H; subst inner r0.
      assert (Hl : (length t <= n)%nat) by lia.
      pose proof (IH t 0%nat i r Hl Eb) as Hi.
      change ((c :: i) ++ [c_rpar]) with (c :: i ++ [c_rpar]). cbn [bracket_body]. rewrite E1, E2.
      destruct (match_frac (c :: i ++ [c_rpar])) as [[g2 r2]|] eqn:Em2.
      * exfalso. destruct (match_frac_inv _ _ _ Em2) as (neg & nn & dd & Hnn & Hdd & Hg).
        pose proof (match_frac_split _ _ _ Em2) as [Hsplit _].
        pose proof (bracket_body_split _ _ _ _ Eb) as Ht.
        assert (Hct : c :: t = g2 ++ (r2 ++ r)).
        { rewrite app_assoc, <- Hsplit, Ht. simpl. rewrite <- app_assoc. reflexivity. }
        rewrite Hct, Hg in Em. rewrite (match_frac_text neg nn dd (r2 ++ r) Hnn Hdd) in Em. discriminate.
      * rewrite Hi. reflexivity.
  - cbn [bracket_body] in H. destruct (bracket_body t k) as [[i r0]|] eqn:Eb; [|discriminate]. inversion H; subst inner r0.
    assert (Hl : (length t <= n)%nat) by lia.
    pose proof (IH t k i r Hl Eb) as Hi.
    change ((c :: i) ++ [c_rpar]) with (c :: i ++ [c_rpar]). cbn [bracket_body]. rewrite Hi. reflexivity.
Qed.

(** ---- the shape of a token ---- *)
Definition pow_shape (p : str) : Prop :=
  p = [] \/ (exists neg ds, digits_ok' ds /\ p = intpow_text neg ds) \/
  (exists neg n d, digits_ok' n /\ digits_ok' d /\ p = frac_text neg n d).

Inductive tokshape (b : bool) : str -> Prop :=
| ts_one : b = true -> tokshape b [c_one]
| ts_unit : forall ls p, letters_ok ls -> pow_shape p -> tokshape b (ls ++ p)
| ts_slash : tokshape b [c_slash]
| ts_star : tokshape b [c_star]
| ts_bracket : forall inner, is_bracket_token (bracket_text inner) = true -> tokshape b (bracket_text inner).

Lemma inner_of_bracket : forall inner, inner_of (bracket_text inner) = inner.
Proof. intro. unfold inner_of, bracket_text. simpl tl. apply removelast_snoc. Qed.

Lemma match_at_shape : forall b s t r, match_at b s = Some (t, r) -> tokshape b t.
Proof.
  intros b [|c s'] t r H; simpl in H; [discriminate|].
  destruct (b && (c =? c_one) && starts_with c_slash s') eqn:E1.
  { apply andb_true_iff in E1. destruct E1 as [E1 _]. apply andb_true_iff in E1. destruct E1 as [Eb E1].
    inversion H; subst. apply ts_one. reflexivity. }
  destruct (is_letter c) eqn:E2.
  { destruct (span is_letter s') as [a b'] eqn:Es. apply span_all in Es. destruct Es as [Ha _].
    assert (Hl : letters_ok (c :: a)) by (split; [discriminate|simpl; rewrite E2, Ha; reflexivity]).
    destruct (match_power b') as [[p r']|] eqn:Ep.
    - inversion H; subst. apply (ts_unit b (c :: a) p); [assumption|]. unfold match_power in Ep.
      destruct (match_intpow b') as [[p' r'']|] eqn:Ei.
      + inversion Ep; subst. right. left. eapply match_intpow_inv. eassumption.
      + right. right. eapply match_frac_inv. eassumption.
    - inversion H; subst. rewrite <- (app_nil_r (c :: a)). apply (ts_unit b (c :: a) []); [assumption|left; reflexivity]. }
  destruct (c =? c_slash) eqn:E3.
  { inversion H; subst. apply ts_slash. }
  destruct (c =? c_star) eqn:E4.
  { inversion H; subst. apply ts_star. }
  destruct (c =? c_lpar) eqn:E5; [|discriminate].
  destruct (bracket_body s' 0) as [[inner r']|] eqn:Eb; [|discriminate].
  inversion H; subst. apply (ts_bracket b inner).
  unfold is_bracket_token, bracket_text. rewrite ?N.eqb_refl. simpl andb.
  rewrite (bracket_body_local (length s') s' 0%nat inner r (le_n _) Eb). reflexivity.
Qed.

Lemma scans_shapes : forall b s ts, scans b s ts ->
  match ts with [] => True | t :: ts' => tokshape b t /\ Forall (tokshape false) ts' end.
Proof.
  induction 1; [exact I|]. split; [eapply match_at_shape; eassumption|].
  destruct ts as [|t' ts']; [constructor|]. destruct IHscans. constructor; assumption.
Qed.

Lemma tokshape_weaken : forall b t, tokshape false t -> tokshape b t.
Proof. intros b t H. inversion H; subst; try discriminate; constructor; assumption. Qed.

Lemma map_opt_forall : forall {A B} (f : A -> option B) l r, map_opt f l = Some r ->
  forall x, In x l -> exists y, f x = Some y.
Proof.
  induction l as [|a l IH]; intros r H x Hx; [destruct Hx|]. simpl in H.
  destruct (f a) as [y|] eqn:E; [|discriminate]. destruct (map_opt f l) as [ys|] eqn:E'; [|discriminate].
  destruct Hx as [Hx|Hx]; [subst; eauto|eapply IH; eauto].
Qed.

(** inversion of a successful lexer run *)
Lemma lex_inv : forall f s0 toks, lex (S f) s0 = Some toks ->
  exists ts, scans true (preprocess s0) ts /\ ts <> [] /\ concat ts = preprocess s0 /\
    forall t, In t ts -> is_bracket_token t = true -> exists l, lex f (inner_of t) = Some l.
Proof.
  intros f s0 toks H. rewrite lex_unfold in H. simpl in H.
  destruct (valid (preprocess s0)) eqn:Ev; [|discriminate].
  destruct (valid_scans _ Ev) as (ts & Hs & Hne & Hf & Hc). rewrite Hf in H.
  destruct (map_opt (process (lex f)) ts) as [raw|] eqn:Em; [|discriminate].
  exists ts. repeat split; try assumption.
  intros t Ht Hb. destruct (map_opt_forall _ _ _ Em t Ht) as [y Hy]. unfold process in Hy. rewrite Hb in Hy.
  destruct (lex f (inner_of t)) as [l|]; [eauto|discriminate].
Qed.

(** ---- a generic induction over accepted strings ---- *)
Section Good.
  Variable Good : str -> Prop.
  Hypothesis G_pre : forall s, Good (preprocess s) -> Good s.
  Hypothesis G_cat : forall ts, scans true (concat ts) ts ->
    (forall t, In t ts -> is_bracket_token t = true -> Good (inner_of t)) -> Good (concat ts).

  Lemma lex_good : forall fuel s toks, lex fuel s = Some toks -> Good s.
  Proof.
    induction fuel as [|f IH]; intros s toks H; [discriminate|].
    destruct (lex_inv f s toks H) as (ts & Hs & Hne & Hc & Hbr).
    apply G_pre. rewrite <- Hc. apply G_cat; [rewrite Hc; assumption|].
    intros t Ht Hb. destruct (Hbr t Ht Hb) as [l Hl]. eapply IH. eassumption.
  Qed.

  Lemma parse_good : forall s u, parse s = Some u -> Good s.
  Proof.
    intros s u H. unfold parse in H. destruct (lex (S (length s)) s) as [toks|] eqn:E; [|discriminate].
    eapply lex_good. eassumption.
  Qed.
End Good.

(** ---- illegal characters ---- *)
Definition all_allowed (s : str) : Prop := forallb allowed_char s = true.

Lemma allowed_letters : forall s, forallb is_letter s = true -> forallb allowed_char s = true.
Proof.
  intros s H. rewrite forallb_forall in *. intros c Hc. unfold allowed_char. rewrite (H c Hc). reflexivity.
Qed.
Lemma allowed_digits : forall s, forallb is_digit s = true -> forallb allowed_char s = true.
Proof.
  intros s H. rewrite forallb_forall in *. intros c Hc. unfold allowed_char. rewrite (H c Hc). rewrite orb_true_r. reflexivity.
Qed.
Lemma allowed_sign : forall neg, forallb allowed_char (sign_of neg) = true.
Proof. intros [|]; reflexivity. Qed.

Lemma allowed_pow : forall p, pow_shape p -> forallb allowed_char p = true.
Proof.
  intros p [H|[(neg & ds & (Hn & Hd) & H)|(neg & n & d & (Hn1 & Hn) & (Hd1 & Hd) & H)]]; subst; [reflexivity| |].
  - unfold intpow_text. simpl. rewrite forallb_app, allowed_sign, (allowed_digits ds Hd). reflexivity.
  - unfold frac_text. simpl. rewrite forallb_app, allowed_sign. simpl. rewrite forallb_app, (allowed_digits n Hn). simpl.
    rewrite forallb_app, (allowed_digits d Hd). reflexivity.
Qed.

Lemma forallb_concat : forall {A} (p : A -> bool) l, (forall x, In x l -> forallb p x = true) -> forallb p (concat l) = true.
Proof.
  induction l as [|x l IH]; intro H; simpl; [reflexivity|]. rewrite forallb_app, H by (left; reflexivity).
  apply IH. intros y Hy. apply H. right. assumption.
Qed.

Lemma scans_in_shape : forall ts s, scans true s ts -> forall t, In t ts -> tokshape true t.
Proof.
  intros ts s Hs t Ht. pose proof (scans_shapes _ _ _ Hs) as H. destruct ts as [|t0 ts']; [destruct Ht|].
  destruct H as [H0 H']. destruct Ht as [Ht|Ht]; [subst; assumption|]. rewrite Forall_forall in H'.
  apply tokshape_weaken. apply H'. assumption.
Qed.

Lemma allowed_preprocess : forall s, all_allowed (preprocess s) -> all_allowed s.
Proof.
  intros s H. unfold all_allowed in *. rewrite preprocess_eq in H. rewrite forallb_forall in *.
  intros c Hc. specialize (H _ (in_map _ _ _ Hc)). simpl in H. destruct (c =? c_dot) eqn:E; [|assumption].
  apply N.eqb_eq in E. subst. reflexivity.
Qed.

Lemma allowed_cat : forall ts, scans true (concat ts) ts ->
  (forall t, In t ts -> is_bracket_token t = true -> all_allowed (inner_of t)) -> all_allowed (concat ts).
Proof.
  intros ts Hs Hbr. apply forallb_concat. intros t Ht.
  pose proof (scans_in_shape ts _ Hs t Ht) as Hshape. inversion Hshape as [|ls p Hl Hp| | |inner Hb]; subst; try reflexivity.
  - rewrite forallb_app, (allowed_letters ls (proj2 Hl)), (allowed_pow p Hp). reflexivity.
  - specialize (Hbr _ Ht Hb). rewrite inner_of_bracket in Hbr. unfold bracket_text. simpl.
    rewrite forallb_app, Hbr. reflexivity.
Qed.

Lemma reject_char_lemma : forall s, (exists c, In c s /\ allowed_char c = false) -> parse s = None.
Proof.
  intros s (c & Hc & Hbad). destruct (parse s) as [u|] eqn:E; [|reflexivity]. exfalso.
  pose proof (parse_good all_allowed allowed_preprocess allowed_cat s u E) as H.
  unfold all_allowed in H. rewrite forallb_forall in H. rewrite (H c Hc) in Hbad. discriminate.
Qed.

(** ---- brackets ---- *)
Definition is_balanced (s : str) : Prop := balanced s = true.

Lemma balanced_from_app : forall a b d0 d, balanced_from d0 a = true ->
  balanced_from (d0 + d) (a ++ b) = balanced_from d b.
Proof.
  induction a as [|c a IH]; intros b d0 d H; simpl in *.
  - apply Nat.eqb_eq in H. subst. reflexivity.
  - destruct (c =? c_lpar).
    + apply (IH b (S d0) d H).
    + destruct (c =? c_rpar).
      * destruct d0 as [|d0]; [discriminate|]. apply (IH b d0 d H).
      * apply (IH b d0 d H).
Qed.
Lemma balanced_app : forall a b, balanced a = true -> balanced b = true -> balanced (a ++ b) = true.
Proof.
  intros a b Ha Hb. unfold balanced in *. pose proof (balanced_from_app a b 0 0 Ha) as H. simpl in H. rewrite H. assumption.
Qed.
Lemma balanced_concat : forall l, (forall x, In x l -> balanced x = true) -> balanced (concat l) = true.
Proof.
  induction l as [|x l IH]; intro H; simpl; [reflexivity|]. apply balanced_app; [apply H; left; reflexivity|].
  apply IH. intros y Hy. apply H. right. assumption.
Qed.
Lemma balanced_nopar : forall s, forallb (fun c => negb (c =? c_lpar) && negb (c =? c_rpar)) s = true ->
  forall d, balanced_from d s = Nat.eqb d 0.
Proof.
  induction s as [|c s IH]; intros H d; simpl in *; [reflexivity|].
  apply andb_true_iff in H. destruct H as [Hc Hs]. apply andb_true_iff in Hc. destruct Hc as [H1 H2].
  apply negb_true_iff in H1, H2. rewrite H1, H2. apply IH. assumption.
Qed.
Lemma nopar_letters : forall s, forallb is_letter s = true ->
  forallb (fun c => negb (c =? c_lpar) && negb (c =? c_rpar)) s = true.
Proof.
  intros s H. rewrite forallb_forall in *. intros c Hc. destruct (letter_facts c (H c Hc)) as (_ & _ & H1 & H2 & _).
  rewrite H1, H2. reflexivity.
Qed.
Lemma nopar_digits : forall s, forallb is_digit s = true ->
  forallb (fun c => negb (c =? c_lpar) && negb (c =? c_rpar)) s = true.
Proof.
  intros s H. rewrite forallb_forall in *. intros c Hc. destruct (digit_facts c (H c Hc)) as (_ & H1 & H2 & _).
  rewrite H1, H2. reflexivity.
Qed.
Lemma nopar_sign : forall neg, forallb (fun c => negb (c =? c_lpar) && negb (c =? c_rpar)) (sign_of neg) = true.
Proof. intros [|]; reflexivity. Qed.

Lemma balanced_bracket : forall inner, balanced inner = true -> balanced (bracket_text inner) = true.
Proof.
  intros inner H. unfold balanced, bracket_text in *. simpl.
  pose proof (balanced_from_app inner [c_rpar] 0 1 H) as H'. simpl in H'. rewrite H'. reflexivity.
Qed.

Lemma balanced_pow : forall p, pow_shape p -> balanced p = true.
Proof.
  intros p [H|[(neg & ds & (Hn & Hd) & H)|(neg & n & d & (Hn1 & Hn) & (Hd1 & Hd) & H)]]; subst; [reflexivity| |].
  - unfold intpow_text, balanced. simpl. rewrite balanced_nopar; [reflexivity|].
    rewrite forallb_app, nopar_sign, (nopar_digits ds Hd). reflexivity.
  - unfold frac_text. replace (c_caret :: c_lpar :: sign_of neg ++ n ++ c_slash :: d ++ [c_rpar])
      with ([c_caret] ++ bracket_text (sign_of neg ++ n ++ c_slash :: d))
      by (unfold bracket_text; simpl; repeat (rewrite <- app_assoc; simpl); reflexivity).
    + apply balanced_app; [reflexivity|]. apply balanced_bracket. unfold balanced. rewrite balanced_nopar; [reflexivity|].
      rewrite forallb_app, nopar_sign. simpl. rewrite forallb_app, (nopar_digits n Hn). simpl. apply (nopar_digits d Hd).
Qed.

Lemma balanced_preprocess : forall s, is_balanced (preprocess s) -> is_balanced s.
Proof.
  intros s H. unfold is_balanced, balanced in *. rewrite preprocess_eq in H. revert H. generalize 0%nat.
  induction s as [|c s IH]; intros d H; simpl in *; [assumption|].
  destruct (c =? c_dot) eqn:E.
  - apply N.eqb_eq in E. subst c. simpl in *. apply IH. assumption.
  - destruct (c =? c_lpar); [apply IH; assumption|]. destruct (c =? c_rpar); [destruct d; [assumption|apply IH; assumption]|].
    apply IH. assumption.
Qed.

Lemma balanced_cat : forall ts, scans true (concat ts) ts ->
  (forall t, In t ts -> is_bracket_token t = true -> is_balanced (inner_of t)) -> is_balanced (concat ts).
Proof.
  intros ts Hs Hbr. apply balanced_concat. intros t Ht.
  pose proof (scans_in_shape ts _ Hs t Ht) as Hshape. inversion Hshape as [|ls p Hl Hp| | |inner Hb]; subst; try reflexivity.
  - apply balanced_app; [|apply balanced_pow; assumption]. unfold balanced. rewrite balanced_nopar; [reflexivity|].
    apply nopar_letters. apply Hl.
  - specialize (Hbr _ Ht Hb). rewrite inner_of_bracket in Hbr. apply balanced_bracket. assumption.
Qed.

Lemma reject_parens_lemma : forall s, balanced s = false -> parse s = None.
Proof.
  intros s Hbad. destruct (parse s) as [u|] eqn:E; [|reflexivity]. exfalso.
  pose proof (parse_good is_balanced balanced_preprocess balanced_cat s u E) as H.
  unfold is_balanced in H. congruence.
Qed.
