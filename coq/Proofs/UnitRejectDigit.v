(** C12, rejection: a digit that cannot belong to a power. *)
From Coq Require Import List ZArith NArith QArith Bool Lia.
From QV Require Import Gen.UnitSyntaxGen Model.UnitSyntax Model.UnitGrammar
     Proofs.UnitLexer Proofs.UnitPieces Proofs.UnitReject.
Import ListNotations.
Local Open Scope N_scope.

Definition unsafe (c : N) : bool := is_letter c || mul_char c || (c =? c_rpar).
Definition badpair (c d : N) : bool := is_digit d && unsafe c.
Fixpoint nobad (s : str) : bool :=
  match s with
  | c :: s' => match s' with d :: _ => negb (badpair c d) && nobad s' | [] => true end
  | [] => true
  end.

Lemma nobad_cons2 : forall c d s, nobad (c :: d :: s) = negb (badpair c d) && nobad (d :: s).
Proof. reflexivity. Qed.

Lemma nobad_app : forall a b, nobad a = true -> nobad b = true -> hd_is is_digit b = false -> nobad (a ++ b) = true.
Proof.
  induction a as [|c a IH]; intros b Ha Hb Hd; [assumption|].
  destruct a as [|d a].
  - simpl. destruct b as [|x b]; [reflexivity|]. simpl in Hd. unfold badpair. rewrite Hd. simpl. assumption.
  - rewrite nobad_cons2 in Ha. apply andb_true_iff in Ha. destruct Ha as [H1 H2].
    change ((c :: d :: a) ++ b) with (c :: d :: (a ++ b)). rewrite nobad_cons2, H1. simpl.
    apply (IH b H2 Hb Hd).
Qed.
Lemma nobad_safe_cons : forall c y, unsafe c = false -> nobad (c :: y) = nobad y.
Proof.
  intros c [|d y] H; [reflexivity|]. rewrite nobad_cons2. unfold badpair. rewrite H, andb_false_r. reflexivity.
Qed.
Lemma nobad_nodigits : forall x, forallb (fun c => negb (is_digit c)) x = true -> nobad x = true.
Proof.
  induction x as [|c x IH]; intro H; [reflexivity|]. simpl in H. apply andb_true_iff in H. destruct H as [_ Hx].
  destruct x as [|d x]; [reflexivity|]. rewrite nobad_cons2. rewrite (IH Hx). simpl in Hx.
  apply andb_true_iff in Hx. destruct Hx as [Hd _]. apply negb_true_iff in Hd. unfold badpair. rewrite Hd. reflexivity.
Qed.
Lemma digit_safe : forall c, is_digit c = true -> unsafe c = false.
Proof.
  intros c H. destruct (digit_facts c H) as (H1 & _ & H2 & _ & _ & H3 & _ & H4). unfold unsafe, mul_char.
  rewrite H1, H2, H3, H4. reflexivity.
Qed.
Lemma nobad_digits : forall ds, forallb is_digit ds = true -> nobad ds = true.
Proof.
  induction ds as [|c ds IH]; intro H; [reflexivity|]. simpl in H. apply andb_true_iff in H. destruct H as [Hc Hd].
  rewrite nobad_safe_cons by (apply digit_safe; assumption). apply IH. assumption.
Qed.
Lemma nobad_mid : forall a c d b, nobad (a ++ c :: d :: b) = true -> badpair c d = false.
Proof.
  induction a as [|x a IH]; intros c d b H.
  - simpl app in H. rewrite nobad_cons2 in H. apply andb_true_iff in H. destruct H as [H _]. apply negb_true_iff in H. assumption.
  - destruct a as [|y a].
    + simpl app in H. rewrite nobad_cons2 in H. apply andb_true_iff in H. destruct H as [_ H]. apply (IH c d b). exact H.
    + change ((x :: y :: a) ++ c :: d :: b) with (x :: y :: (a ++ c :: d :: b)) in H. rewrite nobad_cons2 in H.
      apply andb_true_iff in H. destruct H as [_ H]. apply (IH c d b). exact H.
Qed.

Definition no_bad_digit (s : str) : Prop := nobad s = true.

Lemma letters_nodigits : forall ls, forallb is_letter ls = true -> forallb (fun c => negb (is_digit c)) ls = true.
Proof.
  intros ls H. rewrite forallb_forall in *. intros c Hc. destruct (letter_facts c (H c Hc)) as (H1 & _). rewrite H1. reflexivity.
Qed.

Lemma nobad_sign_digits : forall neg ds, forallb is_digit ds = true -> nobad (sign_of neg ++ ds) = true.
Proof.
  intros [|] ds H; [change (sign_of true ++ ds) with (c_minus :: ds); rewrite nobad_safe_cons by reflexivity
                   |change (sign_of false ++ ds) with ds]; apply nobad_digits; assumption.
Qed.

Lemma nobad_pow : forall p, pow_shape p -> nobad p = true /\ hd_is is_digit p = false.
Proof.
  intros p [H|[(neg & ds & (Hn & Hd) & H)|(neg & n & d & (Hn1 & Hn) & (Hd1 & Hd) & H)]]; subst; split; try reflexivity.
  - unfold intpow_text. rewrite nobad_safe_cons by reflexivity. apply nobad_sign_digits. assumption.
  - unfold frac_text. rewrite nobad_safe_cons by reflexivity. rewrite nobad_safe_cons by reflexivity.
    rewrite app_assoc. apply nobad_app; [apply nobad_sign_digits; assumption| |reflexivity].
    rewrite nobad_safe_cons by reflexivity. apply nobad_app; [apply nobad_digits; assumption|reflexivity|reflexivity].
Qed.

Lemma nobad_bracket : forall inner, nobad inner = true -> nobad (bracket_text inner) = true.
Proof.
  intros inner H. unfold bracket_text. rewrite nobad_safe_cons by reflexivity.
  apply nobad_app; [assumption|reflexivity|reflexivity].
Qed.

Lemma shape_nondigit : forall t, tokshape false t -> hd_is is_digit t = false /\ t <> [].
Proof.
  intros t H. inversion H as [Hb|ls p [Hne Hl] Hp| | |inner Hb]; subst; try discriminate; try (split; [reflexivity|discriminate]).
  destruct ls as [|c ls]; [congruence|]. simpl in Hl. apply andb_true_iff in Hl. destruct Hl as [Hc _].
  destruct (letter_facts c Hc) as (H1 & _). split; [exact H1|discriminate].
Qed.

Lemma nobad_concat : forall ts, (forall t, In t ts -> nobad t = true) ->
  (forall t, In t (tl ts) -> hd_is is_digit t = false /\ t <> []) -> nobad (concat ts) = true.
Proof.
  induction ts as [|t ts IH]; intros H1 H2; [reflexivity|]. simpl concat.
  apply nobad_app; [apply H1; left; reflexivity| |].
  - apply IH; [intros x Hx; apply H1; right; assumption|].
    intros x Hx. apply H2. simpl. destruct ts as [|t' ts']; [destruct Hx|]. right. exact Hx.
  - destruct ts as [|t' ts']; [reflexivity|]. destruct (H2 t') as [Hd Hne]; [left; reflexivity|].
    simpl. destruct t'; [congruence|]. exact Hd.
Qed.

Lemma nobad_preprocess_eq : forall s, nobad (preprocess s) = nobad s.
Proof.
  intro s. rewrite preprocess_eq.
  assert (Hpair : forall c d, badpair (if c =? c_dot then c_star else c) (if d =? c_dot then c_star else d) = badpair c d).
  { intros c d. destruct (c =? c_dot) eqn:Ec; destruct (d =? c_dot) eqn:Ed;
      try (apply N.eqb_eq in Ec; subst c); try (apply N.eqb_eq in Ed; subst d); try reflexivity. }
  induction s as [|c s IH]; [reflexivity|]. destruct s as [|d s]; [reflexivity|].
  change (map (fun c0 => if c0 =? c_dot then c_star else c0) (c :: d :: s))
    with ((if c =? c_dot then c_star else c) :: (if d =? c_dot then c_star else d)
          :: map (fun c0 => if c0 =? c_dot then c_star else c0) s).
  rewrite !nobad_cons2, Hpair. f_equal. exact IH.
Qed.

Lemma nobad_pre : forall s, no_bad_digit (preprocess s) -> no_bad_digit s.
Proof. intros s H. unfold no_bad_digit in *. rewrite nobad_preprocess_eq in H. exact H. Qed.

Lemma nobad_cat : forall ts, scans true (concat ts) ts ->
  (forall t, In t ts -> is_bracket_token t = true -> no_bad_digit (inner_of t)) -> no_bad_digit (concat ts).
Proof.
  intros ts Hs Hbr. apply nobad_concat.
  - intros t Ht. pose proof (scans_in_shape ts _ Hs t Ht) as Hshape.
    inversion Hshape as [Hb|ls p [Hne Hl] Hp| | |inner Hb]; subst; try reflexivity.
    + destruct (nobad_pow p Hp) as [H1 H2]. apply nobad_app; [apply nobad_nodigits, letters_nodigits; assumption|assumption|assumption].
    + specialize (Hbr _ Ht Hb). rewrite inner_of_bracket in Hbr. apply nobad_bracket. exact Hbr.
  - intros t Ht. pose proof (scans_shapes _ _ _ Hs) as H. destruct ts as [|t0 ts']; [destruct Ht|].
    destruct H as [_ H]. rewrite Forall_forall in H. apply shape_nondigit. apply H. exact Ht.
Qed.

Lemma starts_slash_preprocess : forall b, starts_with c_slash (preprocess b) = starts_with c_slash b.
Proof.
  intros [|c b]; [reflexivity|]. rewrite preprocess_eq. simpl. destruct (c =? c_dot) eqn:E; [|reflexivity].
  apply N.eqb_eq in E. subst. reflexivity.
Qed.

Lemma reject_digit_lemma : forall s, digit_without_caret s -> parse s = None.
Proof.
  intros s Hbad. destruct (parse s) as [u|] eqn:E; [|reflexivity]. exfalso.
  destruct Hbad as [(a & c & d & b & Hs & Hd & Hc)|(d & b & Hs & Hd & Hnot)].
  - pose proof (parse_good no_bad_digit nobad_pre nobad_cat s u E) as H. unfold no_bad_digit in H.
    subst s. apply nobad_mid in H. unfold badpair in H. rewrite Hd in H. simpl in H.
    unfold unsafe in H. destruct Hc as [Hc|[Hc|Hc]]; [rewrite Hc in H|rewrite Hc in H; rewrite orb_true_r in H|subst c; rewrite orb_true_r in H];
      discriminate.
  - unfold parse in E. destruct (lex (S (length s)) s) as [toks|] eqn:El; [|discriminate].
    destruct (lex_inv _ _ _ El) as (ts & Hsc & Hne & _ & _). subst s.
    assert (Hpp : preprocess (d :: b) = d :: preprocess b).
    { rewrite !preprocess_eq. simpl. destruct (digit_facts d Hd) as (_ & _ & _ & _ & _ & _ & _ & H7). rewrite H7. reflexivity. }
    rewrite Hpp in Hsc. inversion Hsc as [|? ? t r ts' Hm Hrest]; subst.
    simpl in Hm. destruct (digit_facts d Hd) as (H1 & H2 & _ & _ & H4 & H5 & _).
    destruct ((d =? c_one) && starts_with c_slash (preprocess b)) eqn:E1.
    + apply andb_true_iff in E1. destruct E1 as [E1 E2]. apply N.eqb_eq in E1. rewrite starts_slash_preprocess in E2.
      apply Hnot. split; assumption.
    + rewrite H1, H4, H5, H2 in Hm. discriminate.
Qed.
