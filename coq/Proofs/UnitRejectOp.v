(** C12, rejection: an explicit operator at the beginning, at the end, or directly after another one.
    The lexer accepts such strings; the two-stack builder then pops from an empty operand stack. *)
From Coq Require Import List ZArith NArith QArith Bool Lia.
From QV Require Import Gen.UnitSyntaxGen Model.UnitSyntax Model.UnitGrammar
     Proofs.UnitLexer Proofs.UnitPieces Proofs.UnitBuild Proofs.UnitReject.
Import ListNotations.
Local Open Scope N_scope.

(** ================= part 1: the builder on grouped lists ================= *)

Definition st := option (list tree * list str).
Definition S_of (acc : list tok) : st := run build_tok (rev acc) [] [gen_sentinel].

Lemma run_snoc : forall l x a b,
  run build_tok (l ++ [x]) a b =
  match run build_tok l a b with Some (a', b') => step build_tok x a' b' | None => None end.
Proof.
  induction l as [|y l IH]; intros x a b; simpl.
  - destruct (step build_tok x a b) as [[a' b']|]; reflexivity.
  - destruct (step build_tok y a b) as [[a' b']|]; [apply IH|reflexivity].
Qed.
Lemma S_cons : forall x acc,
  S_of (x :: acc) = match S_of acc with Some (a, b) => step build_tok x a b | None => None end.
Proof. intros. unfold S_of. simpl rev. apply run_snoc. Qed.

Definition is_opstr (s : str) : bool := match s with [c] => (c =? c_slash) || (c =? c_star) | _ => false end.
Lemma is_opstr_mulop : forall s, is_opstr s = true -> is_mulop s.
Proof.
  intros [|c [|d s]] H; simpl in H; try discriminate. apply orb_true_iff in H.
  destruct H as [H|H]; apply N.eqb_eq in H; subst; [right|left]; reflexivity.
Qed.
Lemma is_op_tok_TS : forall s, is_op_tok (TS s) = is_opstr s.
Proof. intros [|c [|d s]]; reflexivity. Qed.

(** what the lexer can hand to the builder *)
Definition rawtok (x : tok) : Prop :=
  match x with TS s => prec s = None \/ is_opstr s = true | TL _ => True end.
Definition badX (x : tok) : Prop :=
  (exists s, x = TS s /\ is_opstr s = true) \/ build_tok x = None.

(** builder states *)
Definition AfterOp (s : st) : Prop :=
  s = None \/ exists operands o, s = Some (operands, [o; gen_sentinel]) /\ prec o = Some 1%Z /\ (length operands <= 1)%nat.
Definition GoodX (s : st) : Prop :=
  s = None \/ (exists operands, s = Some (operands, [gen_sentinel]) /\ (length operands <= 1)%nat) \/
  exists operands o, s = Some (operands, [o; gen_sentinel]) /\ prec o = Some 1%Z /\ (length operands <= 2)%nat.
Definition P (acc : list tok) : Prop := acc = [] \/ AfterOp (S_of acc).

Lemma S_nil : S_of [] = Some ([], [gen_sentinel]).
Proof. reflexivity. Qed.

Lemma step_opstr_after : forall o operands o', is_opstr o = true -> prec o' = Some 1%Z -> (length operands <= 1)%nat ->
  step build_tok (TS o) operands [o'; gen_sentinel] = None.
Proof.
  intros o operands o' Ho Hp Hl. unfold step. rewrite (prec_mulop o (is_opstr_mulop o Ho)), Hp.
  destruct table_facts as (_ & _ & _ & _ & _ & Hc1 & Hc2 & _). rewrite Hc1, Hc2.
  destruct operands as [|x [|y l]]; simpl in *; try reflexivity. lia.
Qed.

Lemma stepX_good : forall X acc, P acc -> rawtok X -> GoodX (S_of (X :: acc)).
Proof.
  intros X acc HP HX. rewrite S_cons. destruct HP as [HP|[HP|(operands & o & HP & Hp & Hl)]].
  - subst acc. rewrite S_nil. destruct X as [s|l].
    + destruct HX as [HX|HX].
      * unfold step. rewrite HX. right. left. exists [Leaf s]. split; [reflexivity|simpl; lia].
      * unfold step. rewrite (prec_mulop s (is_opstr_mulop s HX)).
        destruct table_facts as (_ & _ & _ & Hs0 & Hc0 & _). rewrite Hs0, Hc0.
        right. right. exists [], s. repeat split; [apply prec_mulop, is_opstr_mulop; assumption|simpl; lia].
    + unfold step. destruct (build_tok (TL l)) as [T|]; [|left; reflexivity].
      right. left. exists [T]. split; [reflexivity|simpl; lia].
  - rewrite HP. left. reflexivity.
  - rewrite HP. destruct X as [s|l].
    + destruct HX as [HX|HX].
      * unfold step. rewrite HX. right. right. exists (Leaf s :: operands), o. repeat split; [assumption|simpl; lia].
      * rewrite step_opstr_after by assumption. left. reflexivity.
    + unfold step. destruct (build_tok (TL l)) as [T|]; [|left; reflexivity].
      right. right. exists (T :: operands), o. repeat split; [assumption|simpl; lia].
Qed.

Lemma stepOp_after : forall o s, is_opstr o = true -> GoodX s ->
  AfterOp (match s with Some (a, b) => step build_tok (TS o) a b | None => None end).
Proof.
  intros o s Ho [Hs|[(operands & Hs & Hl)|(operands & o' & Hs & Hp & Hl)]]; subst s.
  - left. reflexivity.
  - unfold step. rewrite (prec_mulop o (is_opstr_mulop o Ho)).
    destruct table_facts as (_ & _ & _ & Hs0 & Hc0 & _). rewrite Hs0, Hc0.
    right. exists operands, o. repeat split; [apply prec_mulop, is_opstr_mulop; assumption|assumption].
  - unfold step. rewrite (prec_mulop o (is_opstr_mulop o Ho)), Hp.
    destruct table_facts as (_ & _ & _ & _ & _ & Hc1 & Hc2 & _). rewrite Hc1, Hc2.
    destruct operands as [|x [|y l]]; simpl; try (left; reflexivity).
    right. exists (Node o' y x :: l), o. repeat split; [apply prec_mulop, is_opstr_mulop; assumption|simpl in *; lia].
Qed.

Lemma afterop_final : forall s, AfterOp s -> finalize s = None.
Proof.
  intros s [Hs|(operands & o & Hs & Hp & Hl)]; subst s; [reflexivity|].
  destruct operands as [|x [|y l]]; simpl in *; try reflexivity. lia.
Qed.

(** a bad element in operand position *)
Lemma badX_step : forall X acc, badX X -> P acc ->
  S_of (X :: acc) = None \/ exists o, S_of (X :: acc) = Some ([], [o; gen_sentinel]) /\ prec o = Some 1%Z.
Proof.
  intros X acc HB HP. rewrite S_cons. destruct HP as [HP|[HP|(operands & o & HP & Hp & Hl)]].
  - subst acc. rewrite S_nil. destruct HB as [(s & Hs & Ho)|HB].
    + subst X. right. exists s. unfold step. rewrite (prec_mulop s (is_opstr_mulop s Ho)).
      destruct table_facts as (_ & _ & _ & Hs0 & Hc0 & _). rewrite Hs0, Hc0.
      split; [reflexivity|first [reflexivity|apply prec_mulop, is_opstr_mulop; assumption]].
    + left. destruct X as [s|l]; [simpl in HB; discriminate|]. unfold step. rewrite HB. reflexivity.
  - rewrite HP. left. reflexivity.
  - rewrite HP. left. destruct HB as [(s & Hs & Ho)|HB].
    + subst X. apply step_opstr_after; assumption.
    + destruct X as [s|l]; [simpl in HB; discriminate|]. unfold step. rewrite HB. reflexivity.
Qed.

Lemma nest_bad_left : forall X t, badX X -> build_tok (TL [X; TS s_star; t]) = None.
Proof.
  intros X t HB. rewrite build_tok_TL.
  pose proof (badX_step X [] HB (or_introl eq_refl)) as H. unfold S_of in H. simpl rev in H. simpl app in H.
  change (run build_tok [X] [] [gen_sentinel]) with
    (match step build_tok X [] [gen_sentinel] with Some (a, b) => Some (a, b) | None => None end) in H.
  cbn [run]. destruct (step build_tok X [] [gen_sentinel]) as [[a b]|] eqn:E; [|reflexivity].
  destruct H as [H|(o & H & Hp)]; [discriminate|]. inversion H; subst a b.
  assert (Hz : step build_tok (TS s_star) [] [o; gen_sentinel] = None) by (apply step_opstr_after; [reflexivity|assumption|simpl; lia]).
  match goal with |- context [step build_tok (TS s_star) ?a ?b] =>
    change (step build_tok (TS s_star) a b) with (step build_tok (TS s_star) [] [o; gen_sentinel]) end.
  rewrite Hz. reflexivity.
Qed.

Lemma nest_bad_right : forall X l, build_tok (TL l) = None -> build_tok (TL [X; TS s_star; TL l]) = None.
Proof.
  intros X l HB. rewrite build_tok_TL. cbn [run].
  destruct (step build_tok X [] [gen_sentinel]) as [[a b]|]; [|reflexivity].
  destruct (step build_tok (TS s_star) a b) as [[a' b']|]; [|reflexivity].
  assert (Hs : step build_tok (TL l) a' b' = None).
  { unfold step. destruct b'; [reflexivity|]. rewrite HB. reflexivity. }
  rewrite Hs. reflexivity.
Qed.

(** doomed: whatever follows, the builder fails *)
Definition Dm (p : bool) (acc : list tok) : Prop :=
  if p then S_of acc = None
  else exists X acc', acc = X :: acc' /\ (S_of acc' = None \/ (badX X /\ P acc')).

Lemma Dm_false_state : forall X acc', S_of acc' = None \/ (badX X /\ P acc') ->
  S_of (X :: acc') = None \/ exists o, S_of (X :: acc') = Some ([], [o; gen_sentinel]) /\ prec o = Some 1%Z.
Proof.
  intros X acc' [H|[HB HP]]; [left; rewrite S_cons, H; reflexivity|apply badX_step; assumption].
Qed.

Lemma doomed : forall raw acc p G, Dm p acc -> group_aux raw acc p = Some G ->
  finalize (run build_tok G [] [gen_sentinel]) = None.
Proof.
  induction raw as [|t raw IH]; intros acc p G HD HG; simpl in HG.
  - inversion HG; subst G. fold (S_of acc). destruct p; simpl in HD.
    + rewrite HD. reflexivity.
    + destruct HD as (X & acc' & Hacc & HD). subst acc.
      destruct (Dm_false_state X acc' HD) as [H|(o & H & Hp)]; rewrite H; reflexivity.
  - destruct p.
    + apply (IH (t :: acc) false G); [|assumption]. exists t, acc. split; [reflexivity|]. left. exact HD.
    + destruct HD as (X & acc' & Hacc & HD). subst acc.
      destruct (is_op_tok t) eqn:Et.
      * apply (IH (t :: X :: acc') true G); [|assumption]. simpl. rewrite S_cons.
        destruct (Dm_false_state X acc' HD) as [H|(o & H & Hp)]; rewrite H; [reflexivity|].
        destruct t as [s|l]; [|simpl in Et; discriminate]. rewrite is_op_tok_TS in Et.
        apply step_opstr_after; [assumption|assumption|simpl; lia].
      * apply (IH (TL [X; TS [c_star]; t] :: acc') false G); [|assumption].
        exists (TL [X; TS [c_star]; t]), acc'. split; [reflexivity|].
        destruct HD as [HD|[HB HP]]; [left; assumption|right]. split; [|assumption].
        right. apply nest_bad_left. assumption.
Qed.

(** badness of the raw token list, relative to the grouping flag *)
Fixpoint rawbad (p : bool) (raw : list tok) : Prop :=
  match raw with
  | [] => False
  | t :: raw' =>
      if is_op_tok t then p = true \/ raw' = [] \/ rawbad true raw'
      else build_tok t = None \/ rawbad false raw'
  end.

Definition Inv (p : bool) (acc : list tok) : Prop :=
  if p then P acc else exists X acc', acc = X :: acc' /\ rawtok X /\ P acc'.

Lemma nest_rawtok : forall X t, rawtok (TL [X; TS [c_star]; t]).
Proof. intros. exact I. Qed.

Lemma group_build_bad : forall raw acc p G, Forall rawtok raw -> Inv p acc -> rawbad p raw ->
  group_aux raw acc p = Some G -> finalize (run build_tok G [] [gen_sentinel]) = None.
Proof.
  induction raw as [|t raw IH]; intros acc p G Hraw HI HB HG; [destruct HB|].
  inversion Hraw as [|? ? Ht Hraw']; subst. simpl in HG. simpl in HB.
  destruct p.
  - (* the token is placed in operand position *)
    simpl in HI. destruct (is_op_tok t) eqn:Et.
    + destruct t as [s|l]; [|simpl in Et; discriminate]. rewrite is_op_tok_TS in Et.
      apply (doomed raw (TS s :: acc) false G); [|assumption].
      exists (TS s), acc. split; [reflexivity|]. right. split; [|assumption]. left. exists s. split; [reflexivity|assumption].
    + destruct HB as [HB|HB].
      * apply (doomed raw (t :: acc) false G); [|assumption].
        exists t, acc. split; [reflexivity|]. right. split; [right; assumption|assumption].
      * apply (IH (t :: acc) false G); try assumption. exists t, acc. repeat split; assumption.
  - destruct HI as (X & acc' & Hacc & HX & HP). subst acc. destruct (is_op_tok t) eqn:Et.
    + destruct t as [s|l]; [|simpl in Et; discriminate]. rewrite is_op_tok_TS in Et.
      assert (HA : AfterOp (S_of (TS s :: X :: acc'))).
      { rewrite S_cons. apply stepOp_after; [assumption|apply stepX_good; assumption]. }
      destruct HB as [HB|[HB|HB]]; [discriminate| |].
      * subst raw. simpl in HG. inversion HG; subst G. fold (S_of (TS s :: X :: acc')). apply afterop_final. assumption.
      * apply (IH (TS s :: X :: acc') true G); try assumption. right. assumption.
    + destruct HB as [HB|HB].
      * apply (doomed raw (TL [X; TS [c_star]; t] :: acc') false G); [|assumption].
        exists (TL [X; TS [c_star]; t]), acc'. split; [reflexivity|]. right. split; [|assumption]. right.
        destruct t as [s|l]; [simpl in HB; discriminate|]. apply nest_bad_right. assumption.
      * apply (IH (TL [X; TS [c_star]; t] :: acc') false G); try assumption.
        exists (TL [X; TS [c_star]; t]), acc'. split; [reflexivity|]. split; [exact I|assumption].
Qed.

Lemma group_bad : forall raw G, Forall rawtok raw -> rawbad true raw -> group raw = Some G -> build G = None.
Proof.
  intros raw G Hraw HB HG. unfold build. rewrite build_tok_TL.
  apply (group_build_bad raw [] true G Hraw (or_introl eq_refl) HB HG).
Qed.

(** ================= part 2: from the text to the token lists ================= *)
Definition starts_op (s : str) : Prop := exists c b, s = c :: b /\ op_char c = true.
Definition ends_op (s : str) : Prop := exists a c, s = a ++ [c] /\ op_char c = true.
Definition adj_op (s : str) : Prop :=
  exists a c d b, s = a ++ c :: d :: b /\ op_char c = true /\ op_char d = true.
Definition ddp (p : bool) (s : str) : Prop := (p = true /\ starts_op s) \/ ends_op s \/ adj_op s.

Lemma ddp_true : forall s, doubled_or_dangling_operator s <-> ddp true s.
Proof.
  intro s. unfold doubled_or_dangling_operator, ddp, starts_op, ends_op, adj_op. split.
  - intros [H|[H|H]]; [left; split; [reflexivity|assumption]|right; left; assumption|right; right; assumption].
  - intros [[_ H]|[H|H]]; [left|right; left|right; right]; assumption.
Qed.

Fixpoint tokbad (p : bool) (ts : list str) : Prop :=
  match ts with
  | [] => False
  | t :: ts' =>
      if is_opstr t then p = true \/ ts' = [] \/ tokbad true ts'
      else (is_bracket_token t = true /\ ddp true (inner_of t)) \/ tokbad false ts'
  end.

(** small facts about lists *)
Lemma last_app_nonnil : forall (l p : str) d, p <> [] -> last (l ++ p) d = last p d.
Proof.
  induction l as [|x l IH]; intros p d Hp; [reflexivity|]. simpl app.
  destruct (l ++ p) eqn:E; [destruct l; [simpl in E; congruence|discriminate]|].
  rewrite <- E. change (last (x :: l ++ p) d) with (match l ++ p with [] => x | _ :: _ => last (l ++ p) d end).
  rewrite E. rewrite <- E. apply IH. assumption.
Qed.
Lemma last_snoc : forall (a : str) c d, last (a ++ [c]) d = c.
Proof. intros. rewrite last_app_nonnil by discriminate. reflexivity. Qed.
Lemma last_forallb : forall (f : N -> bool) l d, l <> [] -> forallb f l = true -> f (last l d) = true.
Proof.
  induction l as [|x l IH]; intros d Hne H; [congruence|]. simpl in H. apply andb_true_iff in H. destruct H as [Hx Hl].
  destruct l as [|y l]; [exact Hx|]. change (last (x :: y :: l) d) with (last (y :: l) d). apply IH; [discriminate|assumption].
Qed.
Lemma ends_op_last : forall s, ends_op s -> s <> [] /\ op_char (last s 0) = true.
Proof. intros s (a & c & Hs & Hc). subst. split; [destruct a; discriminate|]. rewrite last_snoc. assumption. Qed.
Lemma last_ends_op : forall s, s <> [] -> op_char (last s 0) = true -> ends_op s.
Proof.
  intros s Hne H. destruct (exists_last Hne) as (a & c & Hs). subst. rewrite last_snoc in H. exists a, c. split; [reflexivity|assumption].
Qed.

Lemma letter_not_op : forall c, is_letter c = true -> op_char c = false.
Proof.
  intros c H. destruct (letter_facts c H) as (_ & _ & _ & _ & _ & H1 & H2 & _ & H3). unfold op_char. rewrite H1, H2, H3. reflexivity.
Qed.
Lemma digit_not_op : forall c, is_digit c = true -> op_char c = false.
Proof.
  intros c H. destruct (digit_facts c H) as (_ & _ & _ & _ & H1 & H2 & _ & H3). unfold op_char. rewrite H1, H2, H3. reflexivity.
Qed.
Lemma is_opstr_inv : forall t, is_opstr t = true -> exists c, t = [c] /\ op_char c = true.
Proof.
  intros [|c [|d t]] H; simpl in H; try discriminate. exists c. split; [reflexivity|].
  unfold op_char. apply orb_true_iff in H. destruct H as [H|H]; rewrite H; simpl; [rewrite orb_true_r|]; reflexivity.
Qed.

Definition Shape (t : str) : Prop := tokshape true t.

Lemma shape_nonnil : forall t, Shape t -> t <> [].
Proof.
  intros t H. inversion H as [Hb|ls p [Hne Hl] Hp| | |inner Hb]; subst; try discriminate.
  destruct ls; [congruence|discriminate].
Qed.

Lemma shape_starts_op : forall t, Shape t -> starts_op t -> is_opstr t = true.
Proof.
  intros t H (c & b & Ht & Hc). inversion H as [Hb|ls p [Hne Hl] Hp| | |inner Hb]; subst; try reflexivity.
  - match goal with E : [c_one] = _ |- _ => inversion E; subst end. vm_compute in Hc. discriminate.
  - destruct ls as [|x ls]; [congruence|].
    match goal with E : (_ :: _) ++ _ = _ |- _ => inversion E; subst end.
    simpl in Hl. apply andb_true_iff in Hl. destruct Hl as [Hx _].
    rewrite (letter_not_op c Hx) in Hc. discriminate.
  - match goal with E : bracket_text _ = _ |- _ => inversion E; subst end. vm_compute in Hc. discriminate.
Qed.

Lemma pow_shape_last : forall p, pow_shape p -> p <> [] -> op_char (last p 0) = false.
Proof.
  intros p [H|[(neg & ds & (Hn & Hd) & H)|(neg & n & d & (Hn1 & Hn) & (Hd1 & Hd) & H)]] Hne; subst; [congruence| |].
  - unfold intpow_text. change (c_caret :: sign_of neg ++ ds) with (([c_caret] ++ sign_of neg) ++ ds).
    rewrite last_app_nonnil by assumption. apply digit_not_op. apply last_forallb; assumption.
  - unfold frac_text. change (c_caret :: c_lpar :: sign_of neg ++ n ++ c_slash :: d ++ [c_rpar])
      with ([c_caret; c_lpar] ++ sign_of neg ++ n ++ c_slash :: d ++ [c_rpar]).
    replace ([c_caret; c_lpar] ++ sign_of neg ++ n ++ c_slash :: d ++ [c_rpar])
      with (([c_caret; c_lpar] ++ sign_of neg ++ n ++ c_slash :: d) ++ [c_rpar])
      by (repeat (rewrite <- app_assoc; simpl); reflexivity).
    rewrite last_snoc. reflexivity.
Qed.

Lemma shape_ends_op : forall t, Shape t -> ends_op t -> is_opstr t = true.
Proof.
  intros t H He. destruct (ends_op_last t He) as [Hne Hl].
  inversion H as [Hb|ls p [Hne' Hls] Hp| | |inner Hb]; subst; try reflexivity.
  - simpl in Hl. discriminate.
  - exfalso. destruct p as [|x p].
    + rewrite app_nil_r in Hl. rewrite (letter_not_op _ (last_forallb is_letter ls 0 Hne' Hls)) in Hl. discriminate.
    + rewrite last_app_nonnil in Hl by discriminate. rewrite (pow_shape_last (x :: p) Hp) in Hl by discriminate. discriminate.
  - exfalso. unfold bracket_text in Hl. change (c_lpar :: inner ++ [c_rpar]) with (([c_lpar] ++ inner) ++ [c_rpar]) in Hl.
    rewrite last_snoc in Hl. discriminate.
Qed.

(** at most one operator character in a token that is not a bracket *)
Definition opcount (s : str) : nat := length (filter op_char s).
Lemma opcount_app : forall a b, opcount (a ++ b) = (opcount a + opcount b)%nat.
Proof. intros. unfold opcount. rewrite filter_app, app_length. reflexivity. Qed.
Lemma opcount_zero : forall s, (forall c, In c s -> op_char c = false) -> opcount s = 0%nat.
Proof.
  induction s as [|c s IH]; intro H; [reflexivity|]. unfold opcount in *. simpl. rewrite (H c) by (left; reflexivity).
  apply IH. intros x Hx. apply H. right. assumption.
Qed.
Lemma opcount_letters : forall s, forallb is_letter s = true -> opcount s = 0%nat.
Proof. intros s H. apply opcount_zero. rewrite forallb_forall in H. intros c Hc. apply letter_not_op. auto. Qed.
Lemma opcount_digits : forall s, forallb is_digit s = true -> opcount s = 0%nat.
Proof. intros s H. apply opcount_zero. rewrite forallb_forall in H. intros c Hc. apply digit_not_op. auto. Qed.
Lemma opcount_sign : forall neg, opcount (sign_of neg) = 0%nat.
Proof. intros [|]; reflexivity. Qed.
Lemma opcount_adj : forall s, adj_op s -> (2 <= opcount s)%nat.
Proof.
  intros s (a & c & d & b & Hs & Hc & Hd). subst. rewrite opcount_app. unfold opcount at 2. simpl. rewrite Hc, Hd. simpl. lia.
Qed.
Lemma opcount_pow : forall p, pow_shape p -> (opcount p <= 1)%nat.
Proof.
  intros p [H|[(neg & ds & (Hn & Hd) & H)|(neg & n & d & (Hn1 & Hn) & (Hd1 & Hd) & H)]]; subst; [unfold opcount; simpl; lia| |].
  - unfold intpow_text. change (c_caret :: sign_of neg ++ ds) with ([c_caret] ++ sign_of neg ++ ds).
    rewrite !opcount_app, opcount_sign, (opcount_digits ds Hd). unfold opcount. simpl. lia.
  - unfold frac_text. change (c_caret :: c_lpar :: sign_of neg ++ n ++ c_slash :: d ++ [c_rpar])
      with ([c_caret; c_lpar] ++ sign_of neg ++ n ++ [c_slash] ++ d ++ [c_rpar]).
    rewrite !opcount_app, opcount_sign, (opcount_digits n Hn), (opcount_digits d Hd). unfold opcount. simpl. lia.
Qed.

Lemma bracket_adj_inner : forall inner, adj_op (bracket_text inner) -> adj_op inner.
Proof.
  intros inner (a & c & d & b & Hs & Hc & Hd). unfold bracket_text in Hs.
  destruct a as [|x a]; [inversion Hs; subst; discriminate|]. inversion Hs as [[Hx Hin]]. clear Hs.
  destruct (@exists_last _ b) as (b' & y & Hb).
  { intro Hb. subst b. assert (Hl : last (inner ++ [c_rpar]) 0 = last (a ++ [c; d]) 0) by (rewrite Hin; reflexivity).
    rewrite last_snoc in Hl. rewrite last_app_nonnil in Hl by discriminate. simpl in Hl. subst d. discriminate. }
  subst b. replace (a ++ c :: d :: b' ++ [y]) with ((a ++ c :: d :: b') ++ [y]) in Hin
    by (rewrite <- app_assoc; reflexivity).
  apply app_inj_tail in Hin. destruct Hin as [Hin _]. exists a, c, d, b'. repeat split; assumption.
Qed.

Lemma shape_adj : forall t, Shape t -> adj_op t -> is_bracket_token t = true /\ adj_op (inner_of t).
Proof.
  intros t H Ha. pose proof (opcount_adj t Ha) as Hc.
  inversion H as [Hb|ls p [Hne Hl] Hp| | |inner Hb]; subst; try (exfalso; unfold opcount in Hc; simpl in Hc; lia).
  - exfalso. rewrite opcount_app, (opcount_letters ls Hl) in Hc. pose proof (opcount_pow p Hp). lia.
  - split; [assumption|]. rewrite inner_of_bracket. apply bracket_adj_inner. assumption.
Qed.

(** where a pair of adjacent characters of [t ++ r] lies *)
Lemma pair_split : forall (t r a : str) c d b, t ++ r = a ++ c :: d :: b ->
  (exists b', t = a ++ c :: d :: b') \/ (t = a ++ [c] /\ r = d :: b) \/ (exists a', r = a' ++ c :: d :: b).
Proof.
  induction t as [|x t IH]; intros r a c d b H.
  - right. right. exists a. exact H.
  - destruct a as [|y a].
    + simpl in H. inversion H as [[Hx Ht]]. subst x. destruct t as [|z t].
      * right. left. split; first [reflexivity|assumption|symmetry; assumption].
      * left. simpl in Ht. inversion Ht; subst. exists t. reflexivity.
    + simpl in H. inversion H as [[Hx Ht]]. destruct (IH r a c d b Ht) as [(b' & H1)|[[H1 H2]|(a' & H1)]].
      * left. exists b'. subst. reflexivity.
      * right. left. subst. split; reflexivity.
      * right. right. exists a'. assumption.
Qed.

Lemma ends_op_app : forall x r, r <> [] -> ends_op (x ++ r) -> ends_op r.
Proof.
  intros x r Hr He. destruct (ends_op_last _ He) as [_ Hl]. rewrite last_app_nonnil in Hl by assumption.
  apply last_ends_op; assumption.
Qed.

Lemma concat_nonnil : forall ts, Forall Shape ts -> ts <> [] -> concat ts <> [].
Proof.
  intros [|t ts] H Hne; [congruence|]. inversion H; subst. simpl. pose proof (shape_nonnil t H2).
  destruct t; [congruence|discriminate].
Qed.

Lemma tokens_bad : forall ts p, Forall Shape ts -> ddp p (concat ts) -> tokbad p ts.
Proof.
  induction ts as [|t ts IH]; intros p Hsh Hd.
  - exfalso. simpl in Hd. destruct Hd as [[_ (c & b & H & _)]|[(a & c & H & _)|(a & c & d & b & H & _)]];
      try discriminate; destruct a; discriminate.
  - inversion Hsh as [|? ? Ht Hts]; subst. pose proof (shape_nonnil t Ht) as Htne.
    simpl concat in Hd. simpl. destruct (is_opstr t) eqn:Eo.
    + destruct (is_opstr_inv t Eo) as (c & Htc & Hc). subst t.
      destruct Hd as [[Hp _]|[He|(a & c' & d & b & Hs & Hc' & Hd')]].
      * left. assumption.
      * destruct ts as [|t' ts']; [right; left; reflexivity|]. right. right. apply IH; [assumption|].
        right. left. apply (ends_op_app [c]); [apply concat_nonnil; [assumption|discriminate]|assumption].
      * right. right. apply IH; [assumption|]. destruct a as [|x a].
        -- simpl in Hs. inversion Hs; subst. left. split; [reflexivity|]. exists d, b. split; [assumption|assumption].
        -- simpl in Hs. inversion Hs; subst. right. right. exists a, c', d, b. repeat split; assumption.
    + destruct Hd as [[Hp (c & b & Hs & Hc)]|[He|(a & c' & d & b & Hs & Hc' & Hd')]].
      * exfalso. destruct t as [|x t]; [congruence|]. inversion Hs; subst.
        rewrite (shape_starts_op (c :: t) Ht) in Eo; [discriminate|]. exists c, t. split; [reflexivity|assumption].
      * destruct ts as [|t' ts'].
        -- exfalso. simpl in He. rewrite app_nil_r in He. rewrite (shape_ends_op t Ht He) in Eo. discriminate.
        -- right. apply IH; [assumption|]. right. left.
           apply (ends_op_app t); [apply concat_nonnil; [assumption|discriminate]|assumption].
      * destruct (pair_split t (concat ts) a c' d b Hs) as [(b' & H1)|[[H1 H2]|(a' & H1)]].
        -- left. destruct (shape_adj t Ht) as [Hb Hin]; [exists a, c', d, b'; repeat split; assumption|].
           split; [assumption|]. right. right. assumption.
        -- exfalso. rewrite (shape_ends_op t Ht) in Eo; [discriminate|]. exists a, c'. split; assumption.
        -- right. apply IH; [assumption|]. right. right. exists a', c', d, b. repeat split; assumption.
Qed.

(** the raw Python tokens of bad token texts are bad *)
Lemma shape_rawtok : forall rec t x, Shape t -> process rec t = Some x -> rawtok x.
Proof.
  intros rec t x Ht Hp. unfold process in Hp. destruct (is_bracket_token t) eqn:Eb.
  { destruct (rec (inner_of t)); inversion Hp; subst. exact I. }
  destruct (split_unit_power t) as [[u p]|]; inversion Hp; subst; [exact I|].
  inversion Ht as [Hb|ls p [Hne Hl] Hpw| | |inner Hb]; subst; simpl.
  - left. apply prec_none; reflexivity.
  - left. destruct ls as [|c ls]; [congruence|]. simpl in Hl. apply andb_true_iff in Hl. destruct Hl as [Hc _].
    destruct (letter_facts c Hc) as (_ & _ & _ & _ & H3 & H1 & H2 & _). apply prec_none; assumption.
  - right. reflexivity.
  - right. reflexivity.
  - rewrite Hb in Eb. discriminate.
Qed.

Lemma raw_bad : forall f ts raw p,
  (forall inner l, lex f inner = Some l -> ddp true inner -> build_tok (TL l) = None) ->
  Forall Shape ts -> map_opt (process (lex f)) ts = Some raw -> tokbad p ts ->
  rawbad p raw /\ Forall rawtok raw.
Proof.
  intros f ts. induction ts as [|t ts IH]; intros raw p HIH Hsh Hm Hb; [destruct Hb|].
  inversion Hsh as [|? ? Ht Hts]; subst. simpl in Hm.
  destruct (process (lex f) t) as [x|] eqn:Ex; [|discriminate].
  destruct (map_opt (process (lex f)) ts) as [raw'|] eqn:Er; [|discriminate]. inversion Hm; subst raw.
  assert (Hall : forall ts' raw'', Forall Shape ts' -> map_opt (process (lex f)) ts' = Some raw'' -> Forall rawtok raw'').
  { clear. induction ts' as [|t' ts' IH']; intros raw'' Hs Hm; simpl in Hm.
    - inversion Hm. constructor.
    - inversion Hs; subst. destruct (process (lex f) t') as [x'|] eqn:E; [|discriminate].
      destruct (map_opt (process (lex f)) ts') as [r'|] eqn:E'; [|discriminate]. inversion Hm; subst.
      constructor; [eapply shape_rawtok; eassumption|apply IH'; [assumption|reflexivity]]. }
  split; [|constructor; [eapply shape_rawtok; eassumption|apply (Hall ts raw' Hts Er)]].
  simpl in Hb. simpl. destruct (is_opstr t) eqn:Eo.
  - destruct (is_opstr_inv t Eo) as (c & Htc & Hc). subst t.
    assert (Hx : x = TS [c]).
    { simpl in Eo. unfold process in Ex. destruct (is_bracket_token [c]) eqn:Eb.
      - exfalso. unfold is_bracket_token in Eb. apply andb_true_iff in Eb. destruct Eb as [Eb _]. apply N.eqb_eq in Eb. subst c. discriminate.
      - destruct (split_unit_power [c]) as [[u pw]|] eqn:Es; [|inversion Ex; reflexivity].
        exfalso. unfold split_unit_power in Es. destruct (is_letter c) eqn:El; [|discriminate].
        rewrite (letter_not_op c El) in Hc. discriminate. }
    subst x. rewrite is_op_tok_TS, Eo. destruct Hb as [Hb|[Hb|Hb]]; [left; assumption| |].
    + right. left. subst ts. simpl in Er. inversion Er. reflexivity.
    + right. right. apply (proj1 (IH raw' true HIH Hts eq_refl Hb)).
  - assert (Hnop : is_op_tok x = false).
    { unfold process in Ex. destruct (is_bracket_token t).
      - destruct (lex f (inner_of t)); inversion Ex; reflexivity.
      - destruct (split_unit_power t) as [[u pw]|]; inversion Ex; subst; [reflexivity|]. rewrite is_op_tok_TS. assumption. }
    rewrite Hnop. destruct Hb as [[Hbr Hdd]|Hb].
    + left. unfold process in Ex. rewrite Hbr in Ex. destruct (lex f (inner_of t)) as [l|] eqn:El; [|discriminate].
      inversion Ex; subst x. apply (HIH (inner_of t) l El Hdd).
    + right. apply (proj1 (IH raw' false HIH Hts eq_refl Hb)).
Qed.

(** the dot sign is an operator like the star *)
Lemma ddp_preprocess : forall p s, ddp p s -> ddp p (preprocess s).
Proof.
  intros p s H. rewrite preprocess_eq. set (g := fun c : N => if c =? c_dot then c_star else c).
  assert (Hg : forall c, op_char c = true -> op_char (g c) = true).
  { intros c Hc. unfold g. destruct (c =? c_dot); [reflexivity|assumption]. }
  destruct H as [[Hp (c & b & Hs & Hc)]|[(a & c & Hs & Hc)|(a & c & d & b & Hs & Hc & Hd)]]; subst s.
  - left. split; [assumption|]. exists (g c), (map g b). split; [reflexivity|auto].
  - right. left. exists (map g a), (g c). split; [rewrite map_app; reflexivity|auto].
  - right. right. exists (map g a), (g c), (g d), (map g b). split; [rewrite map_app; reflexivity|auto].
Qed.

Lemma lex_inv2 : forall f s0 toks, lex (S f) s0 = Some toks ->
  exists ts raw, scans true (preprocess s0) ts /\ concat ts = preprocess s0 /\
    map_opt (process (lex f)) ts = Some raw /\ group raw = Some toks.
Proof.
  intros f s0 toks H. rewrite lex_unfold in H. simpl in H.
  destruct (valid (preprocess s0)) eqn:Ev; [|discriminate].
  destruct (valid_scans _ Ev) as (ts & Hs & Hne & Hf & Hc). rewrite Hf in H.
  destruct (map_opt (process (lex f)) ts) as [raw|] eqn:Em; [|discriminate].
  exists ts, raw. repeat split; assumption.
Qed.

Lemma lex_dd : forall fuel s l, lex fuel s = Some l -> ddp true s -> build_tok (TL l) = None.
Proof.
  induction fuel as [|f IH]; intros s l Hl Hd; [discriminate|].
  destruct (lex_inv2 f s l Hl) as (ts & raw & Hs & Hc & Hm & Hg).
  assert (Hsh : Forall Shape ts).
  { rewrite Forall_forall. intros t Ht. apply (scans_in_shape ts _ Hs t Ht). }
  pose proof (ddp_preprocess true s Hd) as Hd'. rewrite <- Hc in Hd'.
  pose proof (tokens_bad ts true Hsh Hd') as Hb.
  destruct (raw_bad f ts raw true IH Hsh Hm Hb) as [Hrb Hrt].
  apply (group_bad raw l Hrt Hrb Hg).
Qed.

Lemma reject_operator_lemma : forall s, doubled_or_dangling_operator s -> parse s = None.
Proof.
  intros s H. apply ddp_true in H. unfold parse.
  destruct (lex (S (length s)) s) as [toks|] eqn:E; [|reflexivity].
  unfold build. rewrite (lex_dd _ _ _ E H). reflexivity.
Qed.
