(** C13: what the printers emit is a well-formed sentence whose conventional reading is the map. *)
From Coq Require Import List ZArith NArith QArith Bool Lia Setoid.
From Coq Require Import DecimalPos DecimalZ.
From QV Require Import Gen.UnitSyntaxGen Model.UnitSyntax Model.UnitGrammar Model.UnitPrint
     Proofs.UnitLexer Proofs.UnitPieces Proofs.UnitBuild Proofs.UnitSentences.
Import ListNotations.

(** ---- decimal digits ---- *)
Lemma digits_of_uint_digits : forall u, forallb is_digit (digits_of_uint u) = true.
Proof. induction u; simpl; try reflexivity; assumption. Qed.
Lemma digits_of_uint_inv : forall u, fold_right digit_cons Decimal.Nil (digits_of_uint u) = u.
Proof. induction u; cbn [digits_of_uint fold_right]; try reflexivity; rewrite IHu; reflexivity. Qed.
Lemma digits_of_uint_nonnil : forall u, u <> Decimal.Nil -> digits_of_uint u <> [].
Proof. destruct u; simpl; intro H; try discriminate. congruence. Qed.

Lemma show_pos_ok : forall p, digits_ok (show_pos p).
Proof.
  intro p. split; [apply digits_of_uint_nonnil, Unsigned.to_uint_nonnil|apply digits_of_uint_digits].
Qed.
Lemma show_pos_value : forall p, digits_value (show_pos p) = Zpos p.
Proof.
  intro p. unfold digits_value, show_pos. rewrite digits_of_uint_inv.
  unfold Z.of_uint. rewrite Unsigned.of_to. reflexivity.
Qed.

(** ---- one printed power ---- *)
Definition den_ok (q : Q) : Prop := (Zpos (Qden (Qred q)) <= 10)%Z.
(** the bound of limit_denominator in the source is (at least) the 10 of the property *)
Lemma max_denominator_ok : (10 <=? gen_max_denominator)%Z = true.
Proof. reflexivity. Qed.
Definition power_of (q : Q) : power :=
  let n := Qnum (Qred q) in
  let d := Qden (Qred q) in
  match d with
  | xH => match n with
          | Zpos xH => PNone
          | Zpos p => PInt false (show_pos p)
          | Zneg p => PInt true (show_pos p)
          | Z0 => PInt false [c_zero]
          end
  | _ => match n with
         | Zneg p => PFrac true (show_pos p) (show_pos d)
         | Zpos p => PFrac false (show_pos p) (show_pos d)
         | Z0 => PFrac false [c_zero] (show_pos d)
         end
  end.

Lemma limit_denominator_id : forall q, den_ok q ->
  limit_denominator gen_max_denominator q = (Qnum (Qred q), Zpos (Qden (Qred q))).
Proof.
  intros q H. unfold limit_denominator. unfold den_ok in H. pose proof max_denominator_ok as Hm. apply Z.leb_le in Hm.
  assert (Hle : (Z.pos (Qden (Qred q)) <=? gen_max_denominator)%Z = true) by (apply Z.leb_le; lia).
  rewrite Hle. reflexivity.
Qed.

Lemma power_num2str_render : forall q, den_ok q -> power_num2str q = render_power (power_of q).
Proof.
  intros q H. unfold power_num2str. rewrite limit_denominator_id by assumption.
  unfold power_of. destruct (Qred q) as [n d]. simpl Qnum. simpl Qden.
  destruct d as [d|d|]; destruct n as [|p|p]; try reflexivity; destruct p; reflexivity.
Qed.

Lemma power_of_wf : forall q, wf_power (power_of q).
Proof.
  intro q. unfold power_of. destruct (Qred q) as [n d]. simpl.
  assert (Hz : digits_ok [c_zero]) by (split; [discriminate|reflexivity]).
  assert (Hd : (0 < digits_value (show_pos d))%Z) by (rewrite show_pos_value; lia).
  destruct d as [d|d|]; destruct n as [|p|p]; simpl; try (repeat split; try apply show_pos_ok; try exact Hd; apply Hz);
    try apply show_pos_ok; try exact Hz.
  destruct p; simpl; try exact I; apply show_pos_ok.
Qed.

Lemma power_of_value : forall q, power_value (power_of q) == q.
Proof.
  intro q. rewrite <- (Qred_correct q) at 2. unfold power_of. destruct (Qred q) as [n d]. simpl Qnum. simpl Qden.
  assert (Hzero : digits_value [c_zero] = 0%Z) by reflexivity.
  destruct d as [d|d|]; destruct n as [|p|p]; simpl power_value; rewrite ?show_pos_value, ?Hzero; simpl signed; simpl Z.to_pos;
    try reflexivity.
  destruct p; simpl power_value; rewrite ?show_pos_value; reflexivity.
Qed.

(** ---- one printed factor ---- *)
Definition atom_of (kv : str * Q) : atom := mk_atom (fst kv) (power_of (snd kv)).
Definition item_text (kv : list N * Q) : list N := fst kv ++ power_num2str (snd kv).
Definition entry_ok (kv : str * Q) : Prop :=
  letters_ok (fst kv) /\ ~ snd kv == 0 /\ den_ok (snd kv).

Lemma atom_of_render : forall kv, den_ok (snd kv) -> render_atom (atom_of kv) = item_text kv.
Proof. intros [k q] H. unfold render_atom, atom_of, item_text. simpl in *. rewrite power_num2str_render by assumption. reflexivity. Qed.
Lemma atom_of_wf : forall kv, letters_ok (fst kv) -> wf_atom (atom_of kv).
Proof. intros [k q] [H1 H2]. repeat split; try assumption. apply power_of_wf. Qed.
Lemma atom_of_denote : forall kv k, denote_atom (atom_of kv) k == if str_eqb k (fst kv) then snd kv else 0.
Proof.
  intros [k' q] k. unfold denote_atom, atom_of. simpl. destruct (str_eqb k k'); [apply power_of_value|reflexivity].
Qed.

(** ---- sums over a map ---- *)
Fixpoint sumdim (l : umap) (k : str) : Q :=
  match l with
  | [] => 0
  | (k', q) :: l' => (if str_eqb k k' then q else 0) + sumdim l' k
  end.
Lemma sumdim_notin : forall l k, ~ In k (keys l) -> sumdim l k == 0.
Proof.
  induction l as [|[k' q] l IH]; intros k H; simpl; [reflexivity|].
  rewrite str_eqb_neq by (intro; subst; apply H; left; reflexivity).
  rewrite IH; [ring|]. intro. apply H. right. assumption.
Qed.
Lemma sumdim_nodup : forall l k, NoDup (keys l) -> sumdim l k == dim l k.
Proof.
  induction l as [|[k' q] l IH]; intros k H; simpl; [reflexivity|].
  inversion H as [|? ? Hn Hl]; subst. rewrite dim_cons. destruct (str_eqb k k') eqn:E.
  - apply str_eqb_eq in E. subst. rewrite sumdim_notin by assumption. ring.
  - rewrite IH by assumption. ring.
Qed.
Lemma sumdim_filter : forall p l k, sumdim l k == sumdim (filter p l) k + sumdim (filter (fun x => negb (p x)) l) k.
Proof.
  induction l as [|[k' q] l IH]; intro k; simpl; [reflexivity|].
  rewrite IH. destruct (p (k', q)); simpl; ring.
Qed.
Definition negate (l : umap) : umap := map (fun kv => (fst kv, - snd kv)) l.
Lemma sumdim_negate : forall l k, sumdim (negate l) k == - sumdim l k.
Proof.
  induction l as [|[k' q] l IH]; intro k; simpl; [reflexivity|]. rewrite IH. destruct (str_eqb k k'); ring.
Qed.
Lemma sumdim_atoms : forall l k, denote_term denote_atom (map atom_of l) k == sumdim l k.
Proof.
  induction l as [|[k' q] l IH]; intro k; simpl; [reflexivity|].
  rewrite IH. rewrite (atom_of_denote (k', q) k). reflexivity.
Qed.

(** ---- a chain of factors joined by the dot sign ---- *)
Definition dots {A} (l : list A) : list (mulop * list A) := map (fun b => (Dot, [b])) l.

Lemma join_cons : forall sep x l, join sep (x :: l) = x ++ concat (map (fun y => sep ++ y) l).
Proof.
  intros sep x l. revert x. induction l as [|y l IH]; intro x.
  - simpl. rewrite app_nil_r. reflexivity.
  - change (join sep (x :: y :: l)) with (x ++ sep ++ join sep (y :: l)). rewrite IH.
    simpl. rewrite <- app_assoc. reflexivity.
Qed.

Section Chains.
  Context {item : Type} (render_item : item -> str) (denote_item : item -> str -> Q).
  Lemma render_dots : forall l,
    render_tail render_item (dots l) = concat (map (fun y => gen_dot_string ++ render_item y) l).
  Proof.
    induction l as [|b l IH]; [reflexivity|]. unfold render_tail, dots in *. simpl. rewrite IH.
    unfold render_term. simpl. rewrite app_nil_r. reflexivity.
  Qed.
  Lemma render_tail_app : forall t1 t2,
    render_tail render_item (t1 ++ t2) = render_tail render_item t1 ++ render_tail render_item t2.
  Proof. intros. unfold render_tail. rewrite map_app, concat_app. reflexivity. Qed.
  Lemma denote_dots : forall l k, denote_tail denote_item (dots l) k == denote_term denote_item l k.
  Proof.
    induction l as [|b l IH]; intro k; simpl; [reflexivity|]. rewrite IH. ring.
  Qed.
  Lemma denote_tail_app : forall t1 t2 k,
    denote_tail denote_item (t1 ++ t2) k == denote_tail denote_item t1 k + denote_tail denote_item t2 k.
  Proof.
    induction t1 as [|[o t] t1 IH]; intros t2 k; simpl; [ring|]. rewrite IH. ring.
  Qed.
End Chains.

Lemma concat_map_map : forall {A} (f : A -> str) (g : str -> str) l,
  concat (map (fun y => g (f y)) l) = concat (map g (map f l)).
Proof. intros. rewrite map_map. reflexivity. Qed.

(** bracket-free chain of atoms *)
Definition chain_flat (l : list atom) : flat :=
  match l with a :: l' => mk_gsent false [a] (dots l') | [] => mk_gsent false [] [] end.

Lemma wf_single : forall {item} (ok : item -> Prop) bare sl (a : item), ok a -> wf_term ok bare sl [a].
Proof. intros. split; [discriminate|]. split; [constructor; [assumption|constructor]|exact I]. Qed.
Lemma wf_dots : forall {item} (ok : item -> Prop) bare sl (l : list item), Forall ok l ->
  Forall (fun ot => wf_term ok bare sl (snd ot)) (dots l).
Proof. induction 1; simpl; constructor; [apply wf_single; assumption|assumption]. Qed.

Lemma chain_flat_wf : forall l, l <> [] -> Forall wf_atom l -> wf_flat (chain_flat l).
Proof.
  intros [|a l] Hne H; [congruence|]. inversion H; subst. split; simpl; [apply wf_single; assumption|apply wf_dots; assumption].
Qed.
Lemma chain_flat_render : forall l, l <> [] ->
  render_flat (chain_flat l) = join gen_dot_string (map render_atom l).
Proof.
  intros [|a l] Hne; [congruence|]. unfold render_flat, render_gsent.
  cbn [chain_flat g_one g_head g_tail app map]. rewrite join_cons, render_dots.
  unfold render_term. cbn [map concat]. rewrite app_nil_r, map_map. reflexivity.
Qed.
Lemma chain_flat_denote : forall l k, l <> [] -> denote_flat (chain_flat l) k == denote_term denote_atom l k.
Proof.
  intros [|a l] k Hne; [congruence|]. unfold denote_flat, denote_gsent. simpl. rewrite denote_dots. ring.
Qed.

(** ---- the exponent style ---- *)
Definition good_map (m : umap) : Prop :=
  m <> [] /\ NoDup (keys m) /\ Forall entry_ok m.

Definition expr_exponents (m : umap) : expr :=
  match map (fun kv => FAtom (atom_of kv)) m with
  | a :: l => mk_gsent false [a] (dots l)
  | [] => mk_gsent false [] []
  end.

Lemma map_item_text : forall l : list (list N * Q), Forall entry_ok l ->
  @map (list N * Q) (list N) item_text l = map render_atom (map atom_of l).
Proof.
  induction 1 as [|kv l (H1 & H2 & H3) Hl IH]; simpl; [reflexivity|]. rewrite atom_of_render by assumption. rewrite IH. reflexivity.
Qed.
Lemma atoms_wf : forall l, Forall entry_ok l -> Forall wf_atom (map atom_of l).
Proof. induction 1 as [|kv l (H1 & _) Hl IH]; simpl; constructor; [apply atom_of_wf|]; assumption. Qed.
Lemma factors_wf : forall l, Forall wf_atom l -> Forall wf_factor (map FAtom l).
Proof. induction 1; simpl; constructor; assumption. Qed.
Lemma denote_factors : forall l k, denote_term denote_factor (map FAtom l) k == denote_term denote_atom l k.
Proof. induction l as [|a l IH]; intro k; simpl; [reflexivity|]. rewrite IH. reflexivity. Qed.
Lemma render_factors : forall l, map render_factor (map FAtom l) = map render_atom l.
Proof. intro l. rewrite map_map. reflexivity. Qed.

(** an expression  n1 . n2 ... [ / den ]  with an optional last "/" term *)
Definition chain_expr (l : list atom) (last : list (mulop * list factor)) : expr :=
  match map FAtom l with a :: l' => mk_gsent false [a] (dots l' ++ last) | [] => mk_gsent false [] last end.

Lemma chain_expr_wf : forall l last, l <> [] -> Forall wf_atom l ->
  Forall (fun ot => wf_term wf_factor factor_bare factor_starts_letter (snd ot)) last -> wf (chain_expr l last).
Proof.
  intros [|a l] last Hne H Hlast; [congruence|]. inversion H; subst. unfold chain_expr. simpl. split; simpl.
  - apply wf_single. assumption.
  - apply Forall_app. split; [apply wf_dots, factors_wf; assumption|assumption].
Qed.
Lemma chain_expr_render : forall l last, l <> [] ->
  render (chain_expr l last) = join gen_dot_string (map render_atom l) ++ render_tail render_factor last.
Proof.
  intros [|a l] last Hne; [congruence|]. unfold render, render_gsent, chain_expr.
  cbn [g_one g_head g_tail app map].
  rewrite join_cons, render_tail_app, render_dots. unfold render_term. cbn [map concat render_factor].
  rewrite app_nil_r, <- app_assoc. f_equal. f_equal.
  rewrite !map_map. reflexivity.
Qed.
Lemma chain_expr_denote : forall l last k, l <> [] ->
  denote (chain_expr l last) k == denote_term denote_atom l k + denote_tail denote_factor last k.
Proof.
  intros [|a l] last k Hne; [congruence|]. unfold denote, denote_gsent, chain_expr. simpl.
  rewrite denote_tail_app, denote_dots, denote_factors. ring.
Qed.

Lemma map_nonnil : forall {A B} (f : A -> B) l, l <> [] -> map f l <> [].
Proof. intros A B f [|x l] H; [congruence|discriminate]. Qed.

Lemma exponents_sentence : forall m, good_map m ->
  exists e, wf e /\ render e = construct_exponents m /\ forall k, denote e k == dim m k.
Proof.
  intros m (Hne & Hnd & Hok). exists (chain_expr (map atom_of m) []).
  assert (Hne' : map atom_of m <> []) by (apply map_nonnil; assumption).
  split; [apply chain_expr_wf; [assumption|apply atoms_wf; assumption|constructor]|]. split.
  - rewrite chain_expr_render by assumption. unfold render_tail. simpl. rewrite app_nil_r.
    unfold construct_exponents. change (fun kv : list N * Q => fst kv ++ power_num2str (snd kv)) with item_text.
    rewrite map_item_text by assumption. reflexivity.
  - intro k. rewrite chain_expr_denote by assumption. simpl. rewrite sumdim_atoms, sumdim_nodup by assumption. ring.
Qed.

(** ---- the fraction style ---- *)
Definition nums (m : umap) : umap := filter (fun kv => Qpositive (snd kv)) m.
Definition dens (m : umap) : umap := filter (fun kv => Qnegative (snd kv)) m.

Lemma Qpositive_negative : forall q, ~ q == 0 -> negb (Qpositive q) = Qnegative q.
Proof.
  intros [n d] H. unfold Qpositive, Qnegative. simpl. unfold Qeq in H. simpl in H.
  destruct n; simpl; try reflexivity. exfalso. apply H. reflexivity.
Qed.
Lemma dens_complement : forall m, Forall entry_ok m ->
  dens m = filter (fun kv => negb (Qpositive (snd kv))) m.
Proof.
  induction 1 as [|kv l (H1 & H2 & H3) Hl IH]; simpl; [reflexivity|].
  unfold dens in *. simpl. rewrite IH. rewrite (Qpositive_negative _ H2). reflexivity.
Qed.

Lemma Qred_opp' : forall q, Qred (- q) = - Qred q.
Proof.
  intros [n d]. unfold Qopp, Qred. simpl Qnum. simpl Qden.
  pose proof (Z.ggcd_opp n (Zpos d)) as H. destruct (Z.ggcd n (Zpos d)) as [g [a b]]. rewrite H. reflexivity.
Qed.
Lemma den_ok_opp : forall q, den_ok q -> den_ok (- q).
Proof. intros q H. unfold den_ok in *. rewrite Qred_opp'. destruct (Qred q). exact H. Qed.

Lemma filter_entry_ok : forall p m, Forall entry_ok m -> Forall entry_ok (filter p m).
Proof. intros p m H. rewrite Forall_forall in *. intros x Hx. apply filter_In in Hx. apply H. tauto. Qed.
Lemma negate_entry_ok : forall m, Forall entry_ok m -> Forall entry_ok (negate m).
Proof.
  induction 1 as [|[k q] l (H1 & H2 & H3) Hl IH]; simpl; constructor; [|assumption].
  repeat split; simpl in *; try apply H1; [|apply den_ok_opp; assumption].
  intro Hz. apply H2. rewrite <- (Qopp_involutive q). rewrite Hz. reflexivity.
Qed.
Lemma map_negate_text : forall l : list (list N * Q),
  @map (list N * Q) (list N) (fun kv => fst kv ++ power_num2str (- snd kv)) l = @map (list N * Q) (list N) item_text (negate l).
Proof. intro l. unfold negate. rewrite map_map. reflexivity. Qed.

Definition den_term (m : umap) : list (mulop * list factor) :=
  match map atom_of (negate (dens m)) with
  | [] => []
  | [d] => [(Slash, [FAtom d])]
  | ds => [(Slash, [FParen (chain_flat ds)])]
  end.

Definition expr_fraction (m : umap) : expr :=
  match map atom_of (nums m) with
  | [] => match map atom_of (negate (dens m)) with
          | [d] => mk_gsent true [FAtom d] []
          | ds => mk_gsent true [FParen (chain_flat ds)] []
          end
  | ns => chain_expr ns (den_term m)
  end.

Lemma fraction_dim : forall m k, good_map m ->
  dim m k == sumdim (nums m) k - sumdim (negate (dens m)) k.
Proof.
  intros m k (Hne & Hnd & Hok). rewrite <- sumdim_nodup by assumption.
  rewrite (sumdim_filter (fun kv => Qpositive (snd kv)) m k). rewrite <- dens_complement by assumption.
  rewrite sumdim_negate. unfold nums. ring.
Qed.

Lemma all_nonneg_nums : forall m, Forall entry_ok m -> dens m = [] -> nums m = m.
Proof.
  intros m Hok Hd. rewrite dens_complement in Hd by assumption. unfold nums.
  induction m as [|kv m IH]; simpl in *; [reflexivity|]. inversion Hok; subst.
  destruct (Qpositive (snd kv)); simpl in Hd; [f_equal; apply IH; assumption|discriminate].
Qed.

Local Arguments join : simpl never.
Local Arguments chain_flat : simpl never.
Local Arguments render_flat : simpl never.
Local Arguments denote_flat : simpl never.

Lemma fraction_sentence : forall m, good_map m ->
  exists e, wf e /\ render e = construct_fraction m /\ forall k, denote e k == dim m k.
Proof.
  intros m Hg. pose proof Hg as (Hne & Hnd & Hok). exists (expr_fraction m).
  pose proof (filter_entry_ok (fun kv => Qpositive (snd kv)) m Hok) as Hnok. fold (nums m) in Hnok.
  pose proof (negate_entry_ok _ (filter_entry_ok (fun kv => Qnegative (snd kv)) m Hok)) as Hdok. fold (dens m) in Hdok.
  pose proof (fraction_dim m) as Hdim.
  unfold construct_fraction. fold (nums m). fold (dens m).
  change (fun kv : list N * Q => fst kv ++ power_num2str (snd kv)) with item_text.
  rewrite (map_negate_text (dens m)).
  rewrite (map_item_text (nums m) Hnok), (map_item_text (negate (dens m)) Hdok).
  pose proof (atoms_wf _ Hnok) as Hnw. pose proof (atoms_wf _ Hdok) as Hdw.
  assert (Hsum : forall k, dim m k == denote_term denote_atom (map atom_of (nums m)) k
                                      - denote_term denote_atom (map atom_of (negate (dens m))) k).
  { intro k. rewrite !sumdim_atoms. apply Hdim. assumption. }
  clear Hdim.
  assert (Hboth : nums m = [] -> dens m = [] -> False).
  { intros H1 H2. rewrite (all_nonneg_nums m Hok H2) in H1. contradiction. }
  unfold expr_fraction, den_term.
  remember (map atom_of (nums m)) as N eqn:EN. remember (map atom_of (negate (dens m))) as D eqn:ED.
  assert (HN : N = [] -> nums m = []) by (intro; subst N; destruct (nums m); [reflexivity|discriminate]).
  assert (HD : D = [] -> dens m = []) by (intro; subst D; destruct (dens m); [reflexivity|discriminate]).
  destruct N as [|n N'].
  - (* empty numerator *)
    destruct D as [|d [|d2 D']].
    + exfalso. apply Hboth; auto.
    + inversion Hdw as [|? ? Hd _]; subst.
      split; [split; simpl; [apply wf_single; assumption|constructor]|]. split.
      * unfold render, render_gsent. simpl. unfold render_term, render_tail. simpl. rewrite !app_nil_r. reflexivity.
      * intro k. rewrite Hsum. unfold denote, denote_gsent. unfold denote_term; simpl; ring.
    + assert (Hcf : wf_flat (chain_flat (d :: d2 :: D'))) by (apply chain_flat_wf; [discriminate|assumption]).
      split; [split; simpl; [apply wf_single; exact Hcf|constructor]|]. split.
      * unfold render, render_gsent. simpl. unfold render_term, render_tail. simpl. rewrite !app_nil_r.
        rewrite chain_flat_render by discriminate. reflexivity.
      * intro k. rewrite Hsum. unfold denote, denote_gsent. cbn [g_one g_head g_tail denote_term denote_tail fold_right denote_factor].
        rewrite chain_flat_denote by discriminate. unfold denote_term; simpl; ring.
  - (* numerator present *)
    assert (Hnn : n :: N' <> []) by discriminate.
    destruct D as [|d [|d2 D']].
    + split; [apply chain_expr_wf; [assumption|assumption|constructor]|]. split.
      * rewrite chain_expr_render by assumption. unfold render_tail. simpl. rewrite app_nil_r. reflexivity.
      * intro k. rewrite chain_expr_denote by assumption. rewrite Hsum. unfold denote_term; simpl; ring.
    + inversion Hdw as [|? ? Hd _]; subst.
      split; [apply chain_expr_wf; [assumption|assumption|constructor; [apply wf_single; assumption|constructor]]|]. split.
      * rewrite chain_expr_render by assumption. unfold render_tail, render_term. simpl. rewrite !app_nil_r. reflexivity.
      * intro k. rewrite chain_expr_denote by assumption. rewrite Hsum. unfold denote_term; simpl; ring.
    + assert (Hcf : wf_flat (chain_flat (d :: d2 :: D'))) by (apply chain_flat_wf; [discriminate|assumption]).
      split; [apply chain_expr_wf; [assumption|assumption|constructor; [apply wf_single; exact Hcf|constructor]]|]. split.
      * rewrite chain_expr_render by assumption. unfold render_tail, render_term. simpl concat. rewrite !app_nil_r.
        cbn [render_factor render_op fst snd]. rewrite chain_flat_render by discriminate.
        repeat (rewrite <- app_assoc; simpl). reflexivity.
      * intro k. rewrite chain_expr_denote by assumption. rewrite Hsum.
        cbn [denote_tail fold_right fst snd denote_term denote_factor op_sign].
        rewrite chain_flat_denote by discriminate. unfold denote_term; simpl; ring.
Qed.

Lemma printed_sentence_lemma : forall st m, good_map m ->
  exists e, wf e /\ render e = construct st m /\ forall k, denote e k == dim m k.
Proof.
  intros st m H. destruct st; [exact (fraction_sentence m H)|exact (exponents_sentence m H)].
Qed.

(** ---- the round trip ---- *)
Lemma roundtrip_lemma : forall st m, good_map m ->
  exists u, parse (construct st m) = Some u /\ forall k, dim u k == dim m k.
Proof.
  intros st m Hg.
  assert (H : exists e, wf e /\ render e = construct st m /\ forall k, denote e k == dim m k).
  { destruct st; simpl; [apply fraction_sentence|apply exponents_sentence]; assumption. }
  destruct H as (e & Hw & Hr & Hd). destruct (sentences_lemma e Hw) as (u & Hp & Hu).
  exists u. rewrite <- Hr. split; [assumption|]. intro k. rewrite Hu. apply Hd.
Qed.

Lemma construct_nonempty : forall st m, good_map m -> construct st m <> [].
Proof.
  intros st m Hg H. destruct (roundtrip_lemma st m Hg) as (u & Hp & _). rewrite H in Hp. vm_compute in Hp. discriminate.
Qed.

Lemma assign_lemma : forall st m, good_map m ->
  exists u, set_unit (get_unit st m) = Some u /\ forall k, dim u k == dim m k.
Proof.
  intros st m Hg. destruct (roundtrip_lemma st m Hg) as (u & Hp & Hu). exists u. split; [|assumption].
  unfold get_unit. destruct Hg as (Hne & _). destruct m as [|kv m]; [congruence|].
  unfold set_unit. destruct (construct st (kv :: m)) eqn:E; [|assumption].
  exfalso. rewrite ?E in Hp. vm_compute in Hp. discriminate.
Qed.

(** array edits: every element ends with a unit equal (as exponents) to the array's unit *)
Definition all_dim (m : umap) (arr : list umap) : Prop := Forall (fun u => forall k, dim u k == dim m k) arr.

Lemma map_opt_const : forall {A B} (x : B) (l : list A), map_opt (fun _ => Some x) l = Some (map (fun _ => x) l).
Proof. induction l; simpl; [reflexivity|]. rewrite IHl. reflexivity. Qed.

Lemma edit_lemma : forall st m rest, good_map m ->
  (exists r, arr_append st (m :: rest) = Some r /\ all_dim m r /\ length r = S (length (m :: rest))) /\
  (forall i, exists r, arr_insert st i (m :: rest) = Some r /\ all_dim m r /\ length r = S (length (m :: rest))) /\
  (forall i, (i < length (m :: rest))%nat -> exists r u, arr_setitem st i (m :: rest) = Some r /\
      nth_error r i = Some u /\ (forall k, dim u k == dim m k) /\ length r = length (m :: rest)).
Proof.
  intros st m rest Hg. destruct (assign_lemma st m Hg) as (u & Hs & Hu).
  assert (Hall : forall l : list umap, all_dim m (map (fun _ => u) l)).
  { induction l; simpl; constructor; assumption. }
  split; [|split].
  - unfold arr_append, arr_unit. rewrite Hs. rewrite map_opt_const. eexists. split; [reflexivity|]. split; [apply Hall|].
    rewrite map_length, app_length. simpl. lia.
  - intro i. unfold arr_insert, arr_unit. rewrite Hs. rewrite map_opt_const. eexists. split; [reflexivity|]. split; [apply Hall|].
    rewrite map_length. generalize (m :: rest). clear. intro l. revert i. induction l; destruct i; simpl; auto.
  - intros i Hi. unfold arr_setitem, arr_unit. rewrite Hs. exists (set_at i u (m :: rest)), u. split; [reflexivity|].
    generalize dependent i. generalize (m :: rest). induction l as [|x l IH]; intros i Hi; simpl in *; [lia|].
    destruct i; simpl.
    + repeat split; assumption.
    + destruct (IH i) as (H1 & H2 & H3); [lia|]. repeat split; try assumption. simpl. f_equal. assumption.
Qed.
