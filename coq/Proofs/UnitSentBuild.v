(** Building and evaluating the grouped token list of a whole sentence, generically in the kind of
    item; and the effect of the dot-sign preprocessing on the rendered text. *)
From Coq Require Import List ZArith NArith QArith Bool Lia Setoid.
From QV Require Import Gen.UnitSyntaxGen Model.UnitSyntax Model.UnitGrammar
     Proofs.UnitLexer Proofs.UnitPieces Proofs.UnitSentLex Proofs.UnitBuild.
Import ListNotations.

Lemma opc_str : forall o, [opc o] = s_star \/ [opc o] = s_slash.
Proof. intros [| |]; [left|right|left]; reflexivity. Qed.
Lemma sign_opc : forall o, sign_of_op [opc o] = op_sign o.
Proof. intros [| |]; reflexivity. Qed.

Section GenericBuild.
  Context {item : Type}.
  Variables (item_tok : item -> tok) (item_tree : item -> tree) (denote_item : item -> str -> Q)
            (starts_letter bare : item -> bool) (ok : item -> Prop).
  Hypothesis H_operand : forall i, ok i -> operand (item_tok i) (item_tree i).
  Hypothesis H_eval : forall i, ok i -> eval_ok (item_tree i) (denote_item i).

  Definition tree_nest (Tx : tree) (t : list item) : tree :=
    fold_left (fun acc j => Node s_star acc (item_tree j)) t Tx.
  Definition term_tree (t : list item) : tree :=
    match t with i :: t' => tree_nest (item_tree i) t' | [] => Leaf [] end.

  Lemma nest_operand : forall t x Tx, operand x Tx -> Forall ok t ->
    operand (nest item_tok x t) (tree_nest Tx t).
  Proof.
    induction t as [|j t IH]; intros x Tx Hx Hok; [exact Hx|].
    inversion Hok as [|? ? Hj Hok']; subst. simpl. apply IH; [|assumption].
    unfold operand.
    apply (build_alternating x Tx [(s_star, item_tok j)] [(s_star, item_tree j)] Hx).
    constructor; [|constructor]. repeat split; [left; reflexivity|apply H_operand; assumption].
  Qed.

  Lemma nest_eval : forall t Tx Dx, eval_ok Tx Dx -> Forall ok t ->
    eval_ok (tree_nest Tx t) (fun k => Dx k + denote_term denote_item t k).
  Proof.
    induction t as [|j t IH]; intros Tx Dx Hx Hok.
    - simpl. eapply eval_ok_ext; [|exact Hx]. intro k. simpl. ring.
    - inversion Hok as [|? ? Hj Hok']; subst. simpl.
      eapply eval_ok_ext; [|apply (IH (Node s_star Tx (item_tree j))
                                      (fun k => Dx k + sign_of_op s_star * denote_item j k))].
      + intro k. simpl. change (sign_of_op s_star) with 1. ring.
      + apply eval_node; [left; reflexivity|assumption|apply H_eval; assumption].
      + assumption.
  Qed.

  Lemma term_operand : forall t, t <> [] -> Forall ok t -> operand (nest_term item_tok t) (term_tree t).
  Proof.
    intros [|i t] Hne Hok; [congruence|]. inversion Hok; subst. simpl.
    apply nest_operand; [apply H_operand|]; assumption.
  Qed.
  Lemma term_eval : forall t, t <> [] -> Forall ok t -> eval_ok (term_tree t) (denote_term denote_item t).
  Proof.
    intros [|i t] Hne Hok; [congruence|]. inversion Hok; subst. simpl.
    eapply eval_ok_ext; [|apply nest_eval; [apply H_eval; eassumption|assumption]].
    intro k. reflexivity.
  Qed.

  Definition tail_pairs (tl : list (mulop * list item)) : list (str * tok) :=
    map (fun ot => ([opc (fst ot)], nest_term item_tok (snd ot))) tl.
  Definition tail_trees (tl : list (mulop * list item)) : list (str * tree) :=
    map (fun ot => ([opc (fst ot)], term_tree (snd ot))) tl.
  Definition tail_dens (tl : list (mulop * list item)) : list (str * (str -> Q)) :=
    map (fun ot => ([opc (fst ot)], denote_term denote_item (snd ot))) tl.

  Lemma grouped_tail_pairs : forall tl, grouped_tail item_tok tl = pairs_toks (tail_pairs tl).
  Proof. induction tl as [|[o t] tl IH]; simpl; [reflexivity|]. rewrite IH. reflexivity. Qed.

  Definition wft' := wf_term ok bare starts_letter.

  Lemma tail_pairs_ok : forall tl, Forall (fun ot => wft' (snd ot)) tl ->
    Forall2 pair_ok (tail_pairs tl) (tail_trees tl).
  Proof.
    induction tl as [|[o t] tl IH]; intro H; [constructor|].
    inversion H as [|? ? (Hne & Hok & _) Htl]; subst. simpl in *. constructor; [|apply IH; assumption].
    repeat split; [exact (opc_str o)|]. simpl. apply term_operand; assumption.
  Qed.
  Lemma tail_trees_ok : forall tl, Forall (fun ot => wft' (snd ot)) tl ->
    Forall2 (fun p q => fst p = fst q /\ is_mulop (fst p) /\ eval_ok (snd p) (snd q)) (tail_trees tl) (tail_dens tl).
  Proof.
    induction tl as [|[o t] tl IH]; intro H; [constructor|].
    inversion H as [|? ? (Hne & Hok & _) Htl]; subst. simpl in *. constructor; [|apply IH; assumption].
    repeat split; [exact (opc_str o)|]. simpl. apply term_eval; assumption.
  Qed.
  Lemma sum_tail_dens : forall tl k, sum_pairs (tail_dens tl) k == denote_tail denote_item tl k.
  Proof.
    induction tl as [|[o t] tl IH]; intro k; simpl; [reflexivity|]. rewrite IH, sign_opc. reflexivity.
  Qed.

  Definition sent_tree (g : gsent item) : tree :=
    if g_one g
    then left_nest (Leaf [c_one]) ((s_slash, term_tree (g_head g)) :: tail_trees (g_tail g))
    else left_nest (term_tree (g_head g)) (tail_trees (g_tail g)).

  Lemma one_operand : operand (TS [c_one]) (Leaf [c_one]).
  Proof. split; [|reflexivity]. apply prec_none; reflexivity. Qed.

  Lemma build_sentence : forall g, wf_gsent ok bare starts_letter g ->
    build (grouped item_tok g) = Some (sent_tree g).
  Proof.
    intros [one hd tl] [(Hne & Hok & Hadj) Htl]. simpl in *. unfold build, grouped, sent_tree. simpl.
    rewrite grouped_tail_pairs. destruct one; simpl.
    - apply (build_alternating (TS [c_one]) (Leaf [c_one])
               ((s_slash, nest_term item_tok hd) :: tail_pairs tl)
               ((s_slash, term_tree hd) :: tail_trees tl) one_operand).
      constructor; [|apply tail_pairs_ok; assumption].
      repeat split; [right; reflexivity|]. simpl. apply term_operand; assumption.
    - apply build_alternating; [apply term_operand; assumption|apply tail_pairs_ok; assumption].
  Qed.

  Lemma eval_sentence : forall g, wf_gsent ok bare starts_letter g ->
    eval_ok (sent_tree g) (denote_gsent denote_item g).
  Proof.
    intros [one hd tl] [(Hne & Hok & Hadj) Htl]. simpl in *. unfold sent_tree, denote_gsent. simpl.
    destruct one.
    - eapply eval_ok_ext; [|apply (eval_left_nest ((s_slash, term_tree hd) :: tail_trees tl) ((s_slash, denote_term denote_item hd) :: tail_dens tl)
                                      (Leaf [c_one]) (fun _ => 0))].
      + intro k. simpl. rewrite sum_tail_dens. change (sign_of_op s_slash) with (-1). ring.
      + constructor; [|apply tail_trees_ok; assumption].
        repeat split; [right; reflexivity|]. simpl. apply term_eval; assumption.
      + apply eval_one_leaf.
    - eapply eval_ok_ext; [|apply (eval_left_nest (tail_trees tl) (tail_dens tl) (term_tree hd) (denote_term denote_item hd))].
      + intro k. simpl. rewrite sum_tail_dens. ring.
      + apply tail_trees_ok; assumption.
      + apply term_eval; assumption.
  Qed.

  (** the text after replacing the dot sign *)
  Variables (render_item text : item -> str).
  Hypothesis H_text : forall i, ok i -> preprocess (render_item i) = text i.

  Lemma preprocess_term : forall t, Forall ok t -> preprocess (render_term render_item t) = tterm text t.
  Proof.
    induction t as [|i t IH]; intro H; [reflexivity|]. inversion H; subst.
    unfold render_term, tterm in *. simpl. rewrite preprocess_app, IH, H_text by assumption. reflexivity.
  Qed.
  Lemma preprocess_op : forall o, preprocess (render_op o) = [opc o].
  Proof. intros [| |]; reflexivity. Qed.
  Lemma preprocess_tail : forall tl, Forall (fun ot => wft' (snd ot)) tl ->
    preprocess (render_tail render_item tl) = ttail text tl.
  Proof.
    induction tl as [|[o t] tl IH]; intro H; [reflexivity|].
    inversion H as [|? ? (Hne & Hok & _) Htl]; subst. simpl in *.
    unfold render_tail, ttail in *. simpl. rewrite !preprocess_app, IH, preprocess_op, preprocess_term by assumption.
    reflexivity.
  Qed.
  Lemma preprocess_sentence : forall g, wf_gsent ok bare starts_letter g ->
    preprocess (render_gsent render_item g) = stext text g.
  Proof.
    intros [one hd tl] [(Hne & Hok & Hadj) Htl]. simpl in *. unfold render_gsent, stext. simpl.
    rewrite !preprocess_app, preprocess_term, preprocess_tail by assumption.
    destruct one; reflexivity.
  Qed.
End GenericBuild.
