(** Lexing and grouping of a whole sentence, generically in the kind of item (atoms for a bracket-free
    expression, factors for a full expression). *)
From Coq Require Import List ZArith NArith QArith Bool Lia.
From QV Require Import Gen.UnitSyntaxGen Model.UnitSyntax Model.UnitGrammar Proofs.UnitLexer Proofs.UnitPieces.
Import ListNotations.
Local Open Scope N_scope.

Definition opc (o : mulop) : N := match o with Slash => c_slash | _ => c_star end.

Lemma map_opt_app : forall {A B} (f : A -> option B) l1 l2 r1 r2,
  map_opt f l1 = Some r1 -> map_opt f l2 = Some r2 -> map_opt f (l1 ++ l2) = Some (r1 ++ r2).
Proof.
  induction l1 as [|x l1 IH]; simpl; intros l2 r1 r2 H1 H2.
  - inversion H1. assumption.
  - destruct (f x) as [y|]; [|discriminate]. destruct (map_opt f l1) as [ys|] eqn:E; [|discriminate].
    inversion H1; subst. rewrite (IH l2 ys r2 eq_refl H2). reflexivity.
Qed.
Lemma map_opt_map : forall {A B C} (f : A -> option B) (g : C -> A) (h : C -> B) l,
  (forall x, In x l -> f (g x) = Some (h x)) -> map_opt f (map g l) = Some (map h l).
Proof.
  induction l as [|x l IH]; intro H; simpl; [reflexivity|].
  rewrite H by (left; reflexivity). rewrite IH; [reflexivity|]. intros y Hy. apply H. right. assumption.
Qed.

Section Generic.
  Context {item : Type}.
  Variables (text : item -> str) (item_tok : item -> tok) (fk_item : item -> follow_kind)
            (starts_letter bare : item -> bool) (ok : item -> Prop).
  Variable rec : str -> option (list tok).

  Hypothesis H_match : forall i, ok i -> forall b r, follows (fk_item i) r ->
    match_at b (text i ++ r) = Some (text i, r).
  Hypothesis H_first : forall i, ok i -> exists c x, text i = c :: x /\
    ((is_letter c = true /\ starts_letter i = true) \/ (c = c_lpar /\ starts_letter i = false)).
  Hypothesis H_fk : forall i, ok i -> fk_item i = FNoLetterCaret -> bare i = true.
  Hypothesis H_proc : forall i, ok i -> process rec (text i) = Some (item_tok i).
  Hypothesis H_notop : forall i, ok i -> is_op_tok (item_tok i) = false.

  Definition tterm (t : list item) : str := concat (map text t).
  Definition ttail (tl : list (mulop * list item)) : str :=
    concat (map (fun ot => opc (fst ot) :: tterm (snd ot)) tl).
  Definition stext (g : gsent item) : str :=
    (if g_one g then [c_one; c_slash] else []) ++ tterm (g_head g) ++ ttail (g_tail g).

  Definition tokens_tail (tl : list (mulop * list item)) : list str :=
    flat_map (fun ot => [opc (fst ot)] :: map text (snd ot)) tl.
  Definition tokens (g : gsent item) : list str :=
    (if g_one g then [[c_one]; [c_slash]] else []) ++ map text (g_head g) ++ tokens_tail (g_tail g).

  Definition raw_tail (tl : list (mulop * list item)) : list tok :=
    flat_map (fun ot => TS [opc (fst ot)] :: map item_tok (snd ot)) tl.
  Definition raw (g : gsent item) : list tok :=
    (if g_one g then [TS [c_one]; TS [c_slash]] else []) ++ map item_tok (g_head g) ++ raw_tail (g_tail g).

  Definition nest (x : tok) (t : list item) : tok :=
    fold_left (fun acc j => TL [acc; TS [c_star]; item_tok j]) t x.
  Definition nest_term (t : list item) : tok :=
    match t with i :: t' => nest (item_tok i) t' | [] => TL [] end.
  Definition grouped_tail (tl : list (mulop * list item)) : list tok :=
    flat_map (fun ot => [TS [opc (fst ot)]; nest_term (snd ot)]) tl.
  Definition grouped (g : gsent item) : list tok :=
    (if g_one g then [TS [c_one]; TS [c_slash]] else []) ++ nest_term (g_head g) :: grouped_tail (g_tail g).

  Definition wft := wf_term ok bare starts_letter.
  Definition wfg := wf_gsent ok bare starts_letter.

  (** nothing that restricts what may precede it: empty, or starting with an operator *)
  Definition neutral (r : str) : Prop :=
    hd_is is_letter r = false /\ hd_is (N.eqb c_caret) r = false /\ hd_is is_digit r = false.
  Lemma neutral_follows : forall fk r, neutral r -> follows fk r.
  Proof. intros [| |] r (H1 & H2 & H3); simpl; auto. Qed.
  Lemma neutral_nil : neutral [].
  Proof. repeat split. Qed.
  Lemma neutral_op : forall o r, neutral (opc o :: r).
  Proof. intros [| |] r; repeat split. Qed.
  Lemma ttail_neutral : forall tl, neutral (ttail tl).
  Proof. intros [|[o t] tl]; [apply neutral_nil|apply neutral_op]. Qed.

  Lemma item_follows_item : forall i j r, ok i -> ok j -> (bare i = true -> starts_letter j = false) ->
    follows (fk_item i) (text j ++ r).
  Proof.
    intros i j r Hi Hj Hadj. destruct (H_first j Hj) as (c & x & Hc & Hcase). rewrite Hc. simpl.
    destruct (fk_item i) eqn:Efk; simpl; [exact I| |].
    - specialize (Hadj (H_fk i Hi Efk)). destruct Hcase as [[_ Hs]|[Hc' _]]; [congruence|]. subst c. split; reflexivity.
    - destruct Hcase as [[Hl _]|[Hc' _]]; [destruct (letter_facts c Hl) as (H & _); exact H|subst c; reflexivity].
  Qed.

  Lemma scans_term : forall t rest ts b, t <> [] \/ b = false -> Forall ok t -> adjacent_ok bare starts_letter t ->
    neutral rest -> scans false rest ts -> scans b (tterm t ++ rest) (map text t ++ ts).
  Proof.
    induction t as [|i t IH]; intros rest ts b Hb Hok Hadj Hn Hs.
    - destruct Hb as [Hb|Hb]; [congruence|]. subst b. exact Hs.
    - inversion Hok as [|? ? Hi Hok']; subst. unfold tterm. simpl. rewrite <- app_assoc.
      econstructor.
      + apply H_match; [assumption|]. destruct t as [|j t'].
        * simpl. apply neutral_follows. assumption.
        * inversion Hok' as [|? ? Hj _]; subst. simpl. rewrite <- app_assoc.
          apply item_follows_item; try assumption. simpl in Hadj. tauto.
      + apply (IH rest ts false); try assumption; [right; reflexivity|].
        destruct t; [exact I|]. simpl in Hadj. tauto.
  Qed.

  Lemma scans_tail : forall tl, Forall (fun ot => wft (snd ot)) tl -> scans false (ttail tl) (tokens_tail tl).
  Proof.
    induction tl as [|[o t] tl IH]; intro H; [constructor|].
    inversion H as [|? ? Ht Htl]; subst. destruct Ht as (Hne & Hok & Hadj). simpl in *.
    unfold ttail. simpl. econstructor.
    - change (opc o :: tterm t ++ ttail tl) with ([opc o] ++ (tterm t ++ ttail tl)).
      destruct o; simpl opc; first [apply match_at_star | apply match_at_slash].
    - apply scans_term; auto; apply (ttail_neutral tl).
  Qed.

  Lemma scans_sentence : forall g, wfg g -> scans true (stext g) (tokens g) /\ tokens g <> [].
  Proof.
    intros [one hd tl] [(Hne & Hok & Hadj) Htl]. simpl in *. unfold stext, tokens. simpl.
    assert (Hrest : forall b, scans b (tterm hd ++ ttail tl) (map text hd ++ tokens_tail tl)).
    { intro b. apply scans_term; auto using ttail_neutral, scans_tail. }
    split.
    - destruct one; [|apply Hrest]. simpl. econstructor; [apply match_at_one|].
      econstructor; [apply (match_at_slash false)|apply Hrest].
    - destruct one; [discriminate|]. destruct hd; [congruence|discriminate].
  Qed.

  Lemma process_tokens : forall g, wfg g -> map_opt (process rec) (tokens g) = Some (raw g).
  Proof.
    intros [one hd tl] [(Hne & Hok & Hadj) Htl]. simpl in *. unfold tokens, raw. simpl.
    apply map_opt_app; [destruct one; reflexivity|]. apply map_opt_app.
    - apply map_opt_map. intros i Hi. apply H_proc. rewrite Forall_forall in Hok. auto.
    - clear Hne Hok Hadj. induction tl as [|[o t] tl IH]; [reflexivity|].
      inversion Htl as [|? ? Ht Htl']; subst. destruct Ht as (_ & Hok & _). simpl in Hok.
      apply (map_opt_app (process rec) [[opc o]] (map text t ++ tokens_tail tl) [TS [opc o]]
                         (map item_tok t ++ raw_tail tl)); [destruct o; reflexivity|].
      apply map_opt_app; [|apply IH; assumption].
      apply map_opt_map. intros i Hi. apply H_proc. rewrite Forall_forall in Hok. auto.
  Qed.

  (** grouping *)
  Lemma group_items : forall t x rest acc, Forall ok t ->
    group_aux (map item_tok t ++ rest) (x :: acc) false = group_aux rest (nest x t :: acc) false.
  Proof.
    induction t as [|j t IH]; intros x rest acc Hok; [reflexivity|].
    inversion Hok as [|? ? Hj Hok']; subst. simpl. rewrite (H_notop j Hj). apply IH. assumption.
  Qed.
  Lemma group_term_first : forall t rest acc, t <> [] -> Forall ok t ->
    group_aux (map item_tok t ++ rest) acc true = group_aux rest (nest_term t :: acc) false.
  Proof.
    intros [|i t] rest acc Hne Hok; [congruence|]. inversion Hok; subst. simpl. apply group_items. assumption.
  Qed.
  Lemma group_tail : forall tl acc x, Forall (fun ot => wft (snd ot)) tl ->
    group_aux (raw_tail tl) (x :: acc) false = Some (rev (x :: acc) ++ grouped_tail tl).
  Proof.
    induction tl as [|[o t] tl IH]; intros acc x H.
    - simpl. rewrite app_nil_r. reflexivity.
    - inversion H as [|? ? Ht Htl]; subst. destruct Ht as (Hne & Hok & _). simpl in *.
      assert (Hop : (opc o =? c_slash) || (opc o =? c_star) = true) by (destruct o; reflexivity).
      rewrite Hop. rewrite group_term_first by assumption. rewrite IH by assumption.
      simpl. repeat rewrite <- app_assoc. reflexivity.
  Qed.

  Lemma group_sentence : forall g, wfg g -> group (raw g) = Some (grouped g).
  Proof.
    intros [one hd tl] [(Hne & Hok & Hadj) Htl]. simpl in *. unfold group, raw, grouped. simpl.
    destruct one; simpl.
    - rewrite group_term_first by assumption. rewrite group_tail by assumption. reflexivity.
    - rewrite group_term_first by assumption. rewrite group_tail by assumption. reflexivity.
  Qed.

  (** the whole of __parse_unit_string_to_list on a sentence, one bracket level *)
  Lemma lex_sentence : forall f s0 g, wfg g -> preprocess s0 = stext g -> rec = lex f ->
    lex (S f) s0 = Some (grouped g).
  Proof.
    intros f s0 g Hw Hp Hrec. rewrite lex_unfold. simpl. rewrite Hp.
    destruct (scans_sentence g Hw) as [Hs Hne].
    assert (Hv : valid (stext g) = true) by (apply (scans_valid _ _ _ Hs Hne); lia).
    rewrite Hv. rewrite (scans_finditer _ _ _ Hs) by lia.
    rewrite <- Hrec. rewrite process_tokens by assumption. apply group_sentence. assumption.
  Qed.
End Generic.
