(** C12, acceptance: every well-formed sentence is parsed to the exponents of its conventional reading.
    Instantiation of the generic sentence lemmas, first for bracket-free expressions (items = atoms),
    then for full expressions (items = atoms and bracketed groups). *)
From Coq Require Import List ZArith NArith QArith Bool Lia Setoid.
From QV Require Import Gen.UnitSyntaxGen Model.UnitSyntax Model.UnitGrammar
     Proofs.UnitLexer Proofs.UnitPieces Proofs.UnitSentLex Proofs.UnitBuild Proofs.UnitSentBuild.
Import ListNotations.
Local Open Scope N_scope.

(** ---- atoms ---- *)
Definition atom_fk (a : atom) : follow_kind :=
  match a_pow a with PNone => FNoLetterCaret | PInt _ _ => FNoDigit | PFrac _ _ _ => FAny end.
Definition pow_str (p : power) : str :=
  match p with
  | PNone => []
  | PInt neg ds => sign_str neg ++ ds
  | PFrac neg n d => c_lpar :: sign_str neg ++ n ++ c_slash :: d ++ [c_rpar]
  end.
Definition atom_tok (a : atom) : tok :=
  match a_pow a with
  | PNone => TS (a_sym a)
  | p => TL [TS (a_sym a); TS s_caret; TS (pow_str p)]
  end.
Definition atom_tree (a : atom) : tree :=
  match a_pow a with
  | PNone => Leaf (a_sym a)
  | p => Node s_caret (Leaf (a_sym a)) (Leaf (pow_str p))
  end.

Lemma sign_str_of : forall neg, sign_str neg = sign_of neg.
Proof. reflexivity. Qed.
Lemma render_power_caret : forall p, p <> PNone -> render_power p = c_caret :: pow_str p.
Proof. intros [|neg ds|neg n d] H; [congruence| |]; reflexivity. Qed.

Lemma wf_letters : forall a, wf_atom a -> letters_ok (a_sym a).
Proof. intros a (H1 & H2 & _). split; assumption. Qed.

Lemma atom_match : forall a, wf_atom a -> forall b r, follows (atom_fk a) r ->
  match_at b (render_atom a ++ r) = Some (render_atom a, r).
Proof.
  intros [sym p] Hw b r Hf. pose proof (wf_letters _ Hw) as Hl. destruct Hw as (_ & _ & Hp).
  unfold render_atom, atom_fk in *. simpl in *. destruct p as [|neg ds|neg n d]; simpl in *.
  - rewrite app_nil_r. apply match_at_sym; assumption.
  - apply (match_at_sym_int b sym neg ds r); assumption.
  - destruct Hp as (Hn & Hd & _). apply (match_at_sym_frac b sym neg n d r); assumption.
Qed.

Lemma atom_first : forall a, wf_atom a -> exists c x, render_atom a = c :: x /\
  ((is_letter c = true /\ true = true) \/ (c = c_lpar /\ true = false)).
Proof.
  intros [sym p] (H1 & H2 & _). simpl in *. destruct sym as [|c sym]; [congruence|].
  exists c, (sym ++ render_power p). split; [reflexivity|]. left. simpl in H2.
  apply andb_true_iff in H2. tauto.
Qed.

Lemma atom_fk_bare : forall a, wf_atom a -> atom_fk a = FNoLetterCaret -> atom_bare a = true.
Proof. intros [sym [| |]] _ H; simpl in *; [reflexivity|discriminate|discriminate]. Qed.

Lemma atom_proc : forall rec a, wf_atom a -> process rec (render_atom a) = Some (atom_tok a).
Proof.
  intros rec [sym p] Hw. pose proof (wf_letters _ Hw) as Hl. destruct Hw as (_ & _ & Hp).
  unfold render_atom, atom_tok. simpl in *. destruct p as [|neg ds|neg n d]; simpl in *.
  - rewrite app_nil_r. apply process_sym. assumption.
  - apply (process_sym_pow rec sym (sign_of neg ++ ds) Hl).
    pose proof (match_power_int neg ds [] Hp eq_refl) as H. rewrite app_nil_r in H. exact H.
  - destruct Hp as (Hn & Hd & _).
    apply (process_sym_pow rec sym (c_lpar :: sign_of neg ++ n ++ c_slash :: d ++ [c_rpar]) Hl).
    pose proof (match_power_frac neg n d [] Hn Hd) as H. rewrite app_nil_r in H. exact H.
Qed.

Lemma atom_notop : forall a, wf_atom a -> is_op_tok (atom_tok a) = false.
Proof.
  intros [sym p] Hw. destruct (wf_letters _ Hw) as [Hne Hl]. simpl in *.
  unfold atom_tok. simpl. destruct p; try reflexivity.
  destruct sym as [|c [|d sym]]; [congruence| |reflexivity].
  simpl in Hl. rewrite andb_true_r in Hl. destruct (letter_facts c Hl) as (_ & _ & _ & _ & _ & H1 & H2 & _).
  simpl. rewrite H1, H2. reflexivity.
Qed.

Lemma prec_letters : forall s, letters_ok s -> prec s = None.
Proof.
  intros [|c s] [Hne Hl]; [congruence|]. simpl in Hl. apply andb_true_iff in Hl. destruct Hl as [Hc _].
  destruct (letter_facts c Hc) as (_ & _ & _ & _ & H3 & H1 & H2 & _). apply prec_none; assumption.
Qed.
Lemma prec_signed_digits : forall neg ds, digits_ok' ds -> prec (sign_of neg ++ ds) = None.
Proof.
  intros neg [|d ds] [Hne Hd]; [congruence|]. simpl in Hd. apply andb_true_iff in Hd. destruct Hd as [Hd _].
  destruct (digit_facts d Hd) as (_ & _ & _ & H3 & H1 & H2 & _).
  destruct neg; simpl; apply prec_none; try assumption; reflexivity.
Qed.

Lemma atom_operand : forall a, wf_atom a -> operand (atom_tok a) (atom_tree a).
Proof.
  intros [sym p] Hw. pose proof (wf_letters _ Hw) as Hl. destruct Hw as (_ & _ & Hp). simpl in *.
  unfold atom_tok, atom_tree. simpl. destruct p as [|neg ds|neg n d]; simpl in *.
  - split; [apply prec_letters; assumption|reflexivity].
  - apply build_power; [apply prec_letters; assumption|apply prec_signed_digits; assumption].
  - apply build_power; [apply prec_letters; assumption|]. apply prec_none; reflexivity.
Qed.

(** numbers *)
Lemma uint_of_digits_ok : forall ds, digits_ok' ds ->
  uint_of_digits ds = Some (fold_right digit_cons Decimal.Nil ds).
Proof. intros [|d ds] [Hne Hd]; [congruence|]. unfold uint_of_digits. rewrite Hd. reflexivity. Qed.

Lemma parse_int_text : forall neg ds, digits_ok' ds ->
  parse_int (sign_of neg ++ ds) = Some (signed neg (digits_value ds)).
Proof.
  intros neg ds Hd. unfold parse_int.
  pose proof (opt_minus_sign neg ds [] Hd) as H. rewrite app_nil_r in H. rewrite H.
  rewrite uint_of_digits_ok by assumption. destruct neg; reflexivity.
Qed.

Lemma split_at_app : forall sep x y, forallb (fun c => negb (c =? sep)) x = true ->
  split_at sep (x ++ sep :: y) = (x, y).
Proof.
  induction x as [|c x IH]; intros y H; simpl.
  - rewrite N.eqb_refl. reflexivity.
  - simpl in H. apply andb_true_iff in H. destruct H as [Hc Hx]. apply negb_true_iff in Hc. rewrite Hc.
    rewrite IH by assumption. reflexivity.
Qed.

Lemma no_slash_signed_digits : forall neg n, forallb is_digit n = true ->
  forallb (fun c => negb (c =? c_slash)) (sign_of neg ++ n) = true.
Proof.
  intros neg n H. rewrite forallb_app. apply andb_true_iff. split.
  - destruct neg; reflexivity.
  - rewrite forallb_forall in *. intros c Hc. destruct (digit_facts c (H c Hc)) as (_ & _ & _ & _ & H1 & _).
    rewrite H1. reflexivity.
Qed.

Lemma power_str2num_int : forall neg ds, digits_ok' ds ->
  power_str2num (sign_of neg ++ ds) = Some (inject_Z (signed neg (digits_value ds))).
Proof.
  intros neg ds Hd. unfold power_str2num.
  assert (Hs : starts_with c_lpar (sign_of neg ++ ds) = false).
  { destruct Hd as [Hne Hd]. destruct ds as [|d ds]; [congruence|]. simpl in Hd.
    apply andb_true_iff in Hd. destruct Hd as [Hd _]. destruct (digit_facts d Hd) as (_ & H1 & _).
    destruct neg; simpl; [reflexivity|assumption]. }
  rewrite Hs. rewrite parse_int_text by assumption. reflexivity.
Qed.

Lemma power_str2num_frac : forall neg n d, digits_ok' n -> digits_ok' d -> (0 < digits_value d)%Z ->
  power_str2num (c_lpar :: sign_of neg ++ n ++ c_slash :: d ++ [c_rpar]) =
  Some (signed neg (digits_value n) # Z.to_pos (digits_value d)).
Proof.
  intros neg n d Hn Hd Hpos. unfold power_str2num.
  change (starts_with c_lpar (c_lpar :: sign_of neg ++ n ++ c_slash :: d ++ [c_rpar])) with true. cbv iota.
  unfold inner_of. simpl tl.
  replace (sign_of neg ++ n ++ c_slash :: d ++ [c_rpar]) with (((sign_of neg ++ n) ++ c_slash :: d) ++ [c_rpar])
    by (repeat (rewrite <- app_assoc; simpl); reflexivity).
  rewrite removelast_snoc. rewrite split_at_app by (apply no_slash_signed_digits; apply Hn).
  rewrite parse_int_text by assumption. rewrite uint_of_digits_ok by assumption.
  fold (digits_value d). destruct (digits_value d) as [|pd|pd]; try lia. reflexivity.
Qed.

Lemma atom_eval : forall a, wf_atom a -> eval_ok (atom_tree a) (denote_atom a).
Proof.
  intros [sym p] Hw. pose proof (wf_letters _ Hw) as Hl. destruct Hw as (_ & _ & Hp). simpl in *.
  unfold atom_tree, denote_atom. simpl.
  assert (Hres : forall q T, eval T = Some [(sym, q)] -> eval_ok T (fun k => if str_eqb k sym then q else 0%Q)).
  { intros q T HT. exists [(sym, q)]. split; [exact HT|]. split.
    - constructor; [intros []|constructor].
    - intro k. rewrite dim_cons. destruct (str_eqb k sym); reflexivity. }
  destruct p as [|neg ds|neg n d]; simpl in *.
  - apply Hres. simpl.
    assert (H1 : str_eqb sym gen_one_leaf = false).
    { destruct Hl as [Hne Hl]. destruct sym as [|c sym]; [congruence|]. simpl in Hl.
      apply andb_true_iff in Hl. destruct Hl as [Hc _]. destruct (letter_facts c Hc) as (_ & H1 & _).
      unfold gen_one_leaf. simpl. unfold c_one in H1. rewrite H1. reflexivity. }
    rewrite H1. reflexivity.
  - apply Hres. change (eval (Node s_caret (Leaf sym) (Leaf (sign_str neg ++ ds))))
      with (match power_str2num (sign_of neg ++ ds) with Some q => Some [(sym, q)] | None => None end).
    rewrite power_str2num_int by assumption. reflexivity.
  - destruct Hp as (Hn & Hd & Hpos). apply Hres.
    change (eval (Node s_caret (Leaf sym) (Leaf (c_lpar :: sign_str neg ++ n ++ c_slash :: d ++ [c_rpar]))))
      with (match power_str2num (c_lpar :: sign_of neg ++ n ++ c_slash :: d ++ [c_rpar])
            with Some q => Some [(sym, q)] | None => None end).
    rewrite power_str2num_frac by assumption. reflexivity.
Qed.

(** the atoms contain no dot sign and no stray brackets *)
Lemma nodot_letters : forall s, forallb is_letter s = true -> existsb (N.eqb c_dot) s = false.
Proof.
  induction s as [|c s IH]; simpl; intro H; [reflexivity|]. apply andb_true_iff in H. destruct H as [Hc Hs].
  destruct (letter_facts c Hc) as (_ & _ & _ & _ & _ & _ & _ & _ & H1). rewrite N.eqb_sym, H1. simpl. apply IH. assumption.
Qed.
Lemma nodot_digits : forall s, forallb is_digit s = true -> existsb (N.eqb c_dot) s = false.
Proof.
  induction s as [|c s IH]; simpl; intro H; [reflexivity|]. apply andb_true_iff in H. destruct H as [Hc Hs].
  destruct (digit_facts c Hc) as (_ & _ & _ & _ & _ & _ & _ & H1). rewrite N.eqb_sym, H1. simpl. apply IH. assumption.
Qed.
Lemma nodot_sign : forall neg, existsb (N.eqb c_dot) (sign_str neg) = false.
Proof. intros [|]; reflexivity. Qed.

Lemma atom_nodot : forall a, wf_atom a -> preprocess (render_atom a) = render_atom a.
Proof.
  intros [sym p] (H1 & H2 & Hp). simpl in *. apply preprocess_nodot. unfold render_atom. simpl.
  rewrite existsb_app, (nodot_letters sym H2). simpl.
  destruct p as [|neg ds|neg n d]; simpl in *; [reflexivity| |].
  - rewrite existsb_app, nodot_sign, (nodot_digits ds (proj2 Hp)). reflexivity.
  - destruct Hp as ((_ & Hn) & (_ & Hd) & _).
    rewrite existsb_app, nodot_sign. simpl. rewrite existsb_app, (nodot_digits n Hn). simpl.
    rewrite existsb_app, (nodot_digits d Hd). reflexivity.
Qed.

Lemma atom_transparent : forall a, wf_atom a -> transparent (render_atom a).
Proof.
  intros [sym p] (H1 & H2 & Hp). simpl in *. unfold render_atom. simpl.
  apply transparent_app; [apply transparent_letters; assumption|].
  destruct p as [|neg ds|neg n d]; simpl in *.
  - apply transparent_nil.
  - apply (transparent_intpow neg ds Hp).
  - destruct Hp as (Hn & Hd & _). apply (transparent_frac neg n d Hn Hd).
Qed.

(** ---- bracket-free expressions ---- *)
Definition flat_grouped (e : flat) : list tok := grouped atom_tok e.
Definition flat_text (e : flat) : str := stext render_atom e.
Definition flat_tree (e : flat) : tree := sent_tree atom_tree e.

Lemma flat_lex : forall e f s0, wf_flat e -> preprocess s0 = flat_text e ->
  lex (S f) s0 = Some (flat_grouped e).
Proof.
  intros e f s0 Hw Hp.
  apply (lex_sentence render_atom atom_tok atom_fk (fun _ => true) atom_bare wf_atom (lex f)
           atom_match atom_first atom_fk_bare (atom_proc (lex f)) atom_notop f s0 e Hw Hp eq_refl).
Qed.

Lemma flat_preprocess : forall e, wf_flat e -> preprocess (render_flat e) = flat_text e.
Proof.
  intros e Hw. apply (preprocess_sentence (fun _ => true) atom_bare wf_atom render_atom render_atom atom_nodot e Hw).
Qed.

Lemma flat_build : forall e, wf_flat e -> build (flat_grouped e) = Some (flat_tree e).
Proof. intros e Hw. apply (build_sentence atom_tok atom_tree (fun _ => true) atom_bare wf_atom atom_operand e Hw). Qed.

Lemma flat_eval : forall e, wf_flat e -> eval_ok (flat_tree e) (denote_flat e).
Proof.
  intros e Hw. apply (eval_sentence atom_tree denote_atom (fun _ => true) atom_bare wf_atom atom_eval e Hw).
Qed.

Lemma transparent_concat : forall l, Forall transparent l -> transparent (concat l).
Proof.
  induction 1; simpl; [apply transparent_nil|apply transparent_app; assumption].
Qed.
Lemma transparent_opc : forall o, transparent [opc o].
Proof. intros [| |]; apply transparent_char; reflexivity. Qed.
Lemma transparent_tterm : forall t, Forall wf_atom t -> transparent (tterm render_atom t).
Proof.
  intros t H. apply transparent_concat. rewrite Forall_map. eapply Forall_impl; [|exact H].
  intros a Ha. apply atom_transparent. assumption.
Qed.
Lemma flat_transparent : forall e, wf_flat e -> transparent (flat_text e).
Proof.
  intros [one hd tl] [(Hne & Hok & _) Htl]. simpl in *. unfold flat_text, stext. simpl.
  apply transparent_app; [|apply transparent_app].
  - destruct one; [|apply transparent_nil].
    change [c_one; c_slash] with ([c_one] ++ [c_slash]). apply transparent_app; apply transparent_char; reflexivity.
  - apply transparent_tterm. assumption.
  - apply transparent_concat. rewrite Forall_map. eapply Forall_impl; [|exact Htl].
    intros [o t] (_ & Hok' & _). simpl in *.
    change (opc o :: tterm render_atom t) with ([opc o] ++ tterm render_atom t).
    apply transparent_app; [apply transparent_opc|apply transparent_tterm; assumption].
Qed.

(** ---- full expressions ---- *)
Definition factor_text (x : factor) : str :=
  match x with FAtom a => render_atom a | FParen e => bracket_text (flat_text e) end.
Definition factor_tok (x : factor) : tok :=
  match x with FAtom a => atom_tok a | FParen e => TL (flat_grouped e) end.
Definition factor_tree (x : factor) : tree :=
  match x with FAtom a => atom_tree a | FParen e => flat_tree e end.
Definition factor_fk (x : factor) : follow_kind :=
  match x with FAtom a => atom_fk a | FParen _ => FAny end.

Lemma factor_match : forall x, wf_factor x -> forall b r, follows (factor_fk x) r ->
  match_at b (factor_text x ++ r) = Some (factor_text x, r).
Proof.
  intros [a|e] Hw b r Hf; simpl in *.
  - apply atom_match; assumption.
  - apply match_at_bracket. apply flat_transparent. assumption.
Qed.
Lemma factor_first : forall x, wf_factor x -> exists c y, factor_text x = c :: y /\
  ((is_letter c = true /\ factor_starts_letter x = true) \/ (c = c_lpar /\ factor_starts_letter x = false)).
Proof.
  intros [a|e] Hw; simpl in *.
  - destruct (atom_first a Hw) as (c & y & H1 & [[H2 _]|[_ H2]]); [|discriminate].
    exists c, y. split; [assumption|]. left. split; [assumption|reflexivity].
  - exists c_lpar, (flat_text e ++ [c_rpar]). split; [reflexivity|]. right. split; reflexivity.
Qed.
Lemma factor_fk_bare : forall x, wf_factor x -> factor_fk x = FNoLetterCaret -> factor_bare x = true.
Proof. intros [a|e] Hw H; simpl in *; [apply atom_fk_bare; assumption|discriminate]. Qed.
Lemma factor_proc : forall f x, wf_factor x -> process (lex (S f)) (factor_text x) = Some (factor_tok x).
Proof.
  intros f [a|e] Hw; cbn [factor_text factor_tok wf_factor] in *.
  - apply atom_proc. assumption.
  - rewrite process_bracket by (apply flat_transparent; assumption).
    rewrite (flat_lex e f (flat_text e) Hw); [reflexivity|].
    rewrite <- (flat_preprocess e Hw). apply preprocess_idem.
Qed.
Lemma factor_notop : forall x, wf_factor x -> is_op_tok (factor_tok x) = false.
Proof. intros [a|e] Hw; simpl in *; [apply atom_notop; assumption|reflexivity]. Qed.
Lemma factor_operand : forall x, wf_factor x -> operand (factor_tok x) (factor_tree x).
Proof.
  intros [a|e] Hw; simpl in *; [apply atom_operand; assumption|]. apply (flat_build e Hw).
Qed.
Lemma factor_eval : forall x, wf_factor x -> eval_ok (factor_tree x) (denote_factor x).
Proof. intros [a|e] Hw; simpl in *; [apply atom_eval|apply flat_eval]; assumption. Qed.
Lemma factor_preprocess : forall x, wf_factor x -> preprocess (render_factor x) = factor_text x.
Proof.
  intros [a|e] Hw; simpl in *; [apply atom_nodot; assumption|].
  change (c_lpar :: render_flat e ++ [c_rpar]) with ([c_lpar] ++ render_flat e ++ [c_rpar]).
  rewrite !preprocess_app, (flat_preprocess e Hw). reflexivity.
Qed.

Definition expr_grouped (e : expr) : list tok := grouped factor_tok e.
Definition expr_tree (e : expr) : tree := sent_tree factor_tree e.

Lemma expr_lex : forall e f, wf e -> lex (S (S f)) (render e) = Some (expr_grouped e).
Proof.
  intros e f Hw.
  apply (lex_sentence factor_text factor_tok factor_fk factor_starts_letter factor_bare wf_factor (lex (S f))
           factor_match factor_first factor_fk_bare (factor_proc f) factor_notop (S f) (render e) e Hw).
  - apply (preprocess_sentence factor_starts_letter factor_bare wf_factor render_factor factor_text
             factor_preprocess e Hw).
  - reflexivity.
Qed.

Lemma render_nonempty : forall e, wf e -> render e <> [].
Proof.
  intros [one hd tl] [(Hne & Hok & _) _] H. simpl in *. unfold render, render_gsent in H. simpl in H.
  destruct one; [discriminate|]. destruct hd as [|x hd]; [congruence|]. inversion Hok as [|? ? Hx _]; subst.
  destruct (factor_first x Hx) as (c & y & Hc & _).
  unfold render_term in H. simpl in H.
  assert (Hr : render_factor x <> []).
  { destruct x as [a|e']; simpl in *; [|discriminate]. rewrite Hc. discriminate. }
  destruct (render_factor x); [congruence|discriminate].
Qed.

(** the acceptance theorem *)
Lemma sentences_lemma : forall e, wf e ->
  exists u, parse (render e) = Some u /\ forall k, dim u k == denote e k.
Proof.
  intros e Hw. unfold parse.
  destruct (length (render e)) as [|n] eqn:El.
  { apply length_zero_iff_nil in El. exfalso. exact (render_nonempty e Hw El). }
  rewrite (expr_lex e n Hw). unfold expr_grouped.
  rewrite (build_sentence factor_tok factor_tree factor_starts_letter factor_bare wf_factor factor_operand e Hw).
  destruct (eval_sentence factor_tree denote_factor factor_starts_letter factor_bare wf_factor
              factor_eval e Hw) as (u & H1 & _ & H3).
  exists u. split; assumption.
Qed.
