(** Basic facts about the parser model: the generated literals are the ones it was written for. *)
From Coq Require Import List ZArith NArith QArith Bool Lia.
From QV Require Import Gen.UnitSyntaxGen Model.UnitSyntax.
Import ListNotations.

Lemma patterns_ok : patterns_as_modelled = true.
Proof. vm_compute. reflexivity. Qed.
