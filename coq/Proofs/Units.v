(** Lemmas about the model of unit propagation (Model/Units.v): expansion of named units,
    packing, [operate_with_units], [propagate_units], and the induction over expression trees
    that carries C08 and C18. *)
From Coq Require Import List QArith Bool PArith Lia Permutation Setoid.
From QV Require Import Model.UnitsBase Gen.UnitsGen Model.Units Proofs.UnitsBase.
Import ListNotations.
Open Scope Q_scope.

(** * Finite sums over a list of symbols *)
Fixpoint sumL (f : sym -> Q) (L : list sym) : Q :=
  match L with [] => 0 | m :: r => f m + sumL f r end.

Lemma sumL_ext f g L : (forall m, In m L -> f m == g m) -> sumL f L == sumL g L.
Proof.
  induction L as [|m r IH]; simpl; intros H; [reflexivity|].
  rewrite (H m) by (left; reflexivity). rewrite IH; [reflexivity|]. intros x Hx. apply H. right. exact Hx.
Qed.

Lemma sumL_plus f g L : sumL (fun m => f m + g m) L == sumL f L + sumL g L.
Proof. induction L as [|m r IH]; simpl; [ring|]. rewrite IH. ring. Qed.

Lemma sumL_scale c f L : sumL (fun m => c * f m) L == c * sumL f L.
Proof. induction L as [|m r IH]; simpl; [ring|]. rewrite IH. ring. Qed.

Lemma sumL_zero f L : (forall m, In m L -> f m == 0) -> sumL f L == 0.
Proof.
  induction L as [|m r IH]; simpl; intros H; [reflexivity|].
  rewrite (H m) by (left; reflexivity). rewrite IH; [ring|]. intros x Hx. apply H. right. exact Hx.
Qed.

Lemma sumL_indicator n x f L : NoDup L -> In n L ->
  sumL (fun m => (if Pos.eqb m n then x else 0) * f m) L == x * f n.
Proof.
  induction L as [|m r IH]; simpl; intros Hn Hi; [tauto|]. inversion Hn; subst.
  destruct Hi as [Hi|Hi].
  - subst. rewrite peqb_refl. rewrite sumL_zero; [ring|]. intros y Hy.
    rewrite peqb_neq; [ring|]. intros ->. tauto.
  - rewrite IH by assumption. rewrite peqb_neq; [ring|]. intros ->. tauto.
Qed.

(** * The dimension a map denotes under an assignment [E] of dimensions to symbols *)
Section XDim.
  Variable E : sym -> sym -> Q.

  Lemma xdim_sum u k L : NoDup L -> incl (keys u) L ->
    xdim E u k == sumL (fun m => total u m * E m k) L.
  Proof.
    intros HL. induction u as [|[n x] r IH]; simpl; intros Hinc.
    - symmetry. apply sumL_zero. intros; ring.
    - rewrite IH by (intros y Hy; apply Hinc; right; exact Hy).
      rewrite <- (sumL_indicator n x (fun m => E m k) L HL) by (apply Hinc; left; reflexivity).
      rewrite <- sumL_plus. apply sumL_ext. intros m _. ring.
  Qed.

  Lemma xdim_dim_sum u k L : wf u -> NoDup L -> incl (keys u) L ->
    xdim E u k == sumL (fun m => dim u m * E m k) L.
  Proof.
    intros Hu HL Hinc. rewrite (xdim_sum u k L HL Hinc). apply sumL_ext. intros m _.
    rewrite total_dim by exact Hu. reflexivity.
  Qed.

  (** the denoted dimension is a linear function of the exponent function *)
  Lemma xdim_linear r a b al be k : wf r -> wf a -> wf b ->
    (forall m, dim r m == al * dim a m + be * dim b m) ->
    xdim E r k == al * xdim E a k + be * xdim E b k.
  Proof.
    intros Hr Ha Hb H.
    set (L := nodup Pos.eq_dec (keys r ++ keys a ++ keys b)).
    assert (HL : NoDup L) by apply NoDup_nodup.
    assert (Ir : incl (keys r) L) by (intros x Hx; apply nodup_In; apply in_or_app; tauto).
    assert (Ia : incl (keys a) L) by (intros x Hx; apply nodup_In; apply in_or_app; right; apply in_or_app; tauto).
    assert (Ib : incl (keys b) L) by (intros x Hx; apply nodup_In; apply in_or_app; right; apply in_or_app; tauto).
    rewrite (xdim_dim_sum r k L Hr HL Ir), (xdim_dim_sum a k L Ha HL Ia), (xdim_dim_sum b k L Hb HL Ib).
    rewrite <- !sumL_scale, <- sumL_plus. apply sumL_ext. intros m _. cbv beta. rewrite H. generalize (dim a m) (dim b m) (E m k). intros q1 q2 q3. ring.
  Qed.

  Lemma xdim_ext u v k : wf u -> wf v -> (forall m, dim u m == dim v m) -> xdim E u k == xdim E v k.
  Proof.
    intros Hu Hv H. rewrite (xdim_linear u v [] 1 0 k Hu Hv); [change (xdim E [] k) with 0; ring|constructor|].
    intros m. rewrite H. change (dim [] m) with 0. ring.
  Qed.

  Lemma xdim_scaled u v c k : wf u -> wf v -> (forall m, dim u m == c * dim v m) -> xdim E u k == c * xdim E v k.
  Proof.
    intros Hu Hv H. rewrite (xdim_linear u v [] c 0 k Hu Hv); [change (xdim E [] k) with 0; ring|constructor|].
    intros m. rewrite H. change (dim [] m) with 0. ring.
  Qed.

  Lemma xdim_map_vals_scale u p k : xdim E (map (fun kv => (fst kv, snd kv * p)) u) k == xdim E u k * p.
  Proof. induction u as [|[n x] r IH]; simpl; [ring|]. rewrite IH. ring. Qed.

  (** on base symbols the denoted dimension is the exponent function itself *)
  Lemma xdim_base u k : wf u -> (forall n, In n (keys u) -> forall j, E n j == delta n j) ->
    xdim E u k == dim u k.
  Proof.
    unfold wf, dim. induction u as [|[n x] r IH]; simpl; intros Hn Hb; [reflexivity|]. inversion Hn; subst.
    rewrite IH by (try assumption; intros; apply Hb; right; assumption).
    rewrite (Hb n) by (left; reflexivity). unfold delta. peq k n.
    - rewrite u_get_notin by assumption. ring.
    - ring.
  Qed.
End XDim.

Lemma xdim_ext_E E1 E2 u k : (forall n, In n (keys u) -> E1 n k == E2 n k) -> xdim E1 u k == xdim E2 u k.
Proof.
  induction u as [|[n x] r IH]; simpl; intros H; [reflexivity|].
  rewrite IH by (intros; apply H; right; assumption). rewrite (H n) by (left; reflexivity). reflexivity.
Qed.

Lemma is_expansion_nil : is_expansion [] delta.
Proof. intros s. simpl. intros k. reflexivity. Qed.

Lemma xdim_delta u k : wf u -> xdim delta u k == dim u k.
Proof. intros H. apply xdim_base; [exact H|]. intros; reflexivity. Qed.

(** * Expansion of named units ([__unpack_unit]) agrees with the semantic expansion [E] *)
Lemma merge_into_spec result unpacked : wf result -> wf unpacked ->
  wf (merge_into result unpacked) /\
  (forall m, dim (merge_into result unpacked) m == dim result m + dim unpacked m) /\
  (forall x, In x (keys (merge_into result unpacked)) -> In x (keys result) \/ In x (keys unpacked)).
Proof.
  intros Hr Hu. unfold merge_into.
  set (st := fun (result : umap) (kv : sym * Q) => let '(tok, val) := kv in update_count result tok val).
  assert (Hst : forall acc k v, st acc (k, v) = update_count acc k ((fun x => x) v)) by reflexivity.
  split; [|split].
  - apply (fold_update_wf _ _ Hst). exact Hr.
  - intros m. rewrite (fold_update_dim _ _ Hst), totalg_id, total_dim by assumption. reflexivity.
  - intros x H. apply (fold_update_keys _ _ Hst) in H. exact H.
Qed.

Definition ustep (rec : sym -> Q -> option umap) (count : Q) (acc : option umap) (kv : sym * Q) : option umap :=
  let '(name, exp) := kv in
  match acc with
  | None => None
  | Some result =>
    match rec name (exp * count) with
    | None => None
    | Some unpacked => Some (merge_into result unpacked)
    end
  end.

Lemma unpack_items_eq rec u c : unpack_items rec u c = fold_left (ustep rec c) u (Some []).
Proof. reflexivity. Qed.

Lemma ustep_none rec c u : fold_left (ustep rec c) u None = None.
Proof. induction u as [|[n x] r IH]; simpl; [reflexivity|exact IH]. Qed.

Section Expansion.
  Variable defs : defmap.
  Variable E : sym -> sym -> Q.
  Hypothesis HE : is_expansion defs E.

  Definition base (u : umap) : Prop := forall n, In n (keys u) -> d_lookup defs n = None.

  Lemma E_base n : d_lookup defs n = None -> forall j, E n j == delta n j.
  Proof. intros H. specialize (HE n). rewrite H in HE. exact HE. Qed.

  Lemma xdim_of_base u k : wf u -> base u -> xdim E u k == dim u k.
  Proof. intros Hw Hb. apply xdim_base; [exact Hw|]. intros n Hn. apply E_base. apply Hb. exact Hn. Qed.

  Lemma unpack_fold_sound rec u count : 
    (forall n c r', In n (keys u) -> rec n c = Some r' ->
                    wf r' /\ base r' /\ forall k, xdim E r' k == c * E n k) ->
    forall acc r, wf acc -> base acc ->
    fold_left (ustep rec count) u (Some acc) = Some r ->
    wf r /\ base r /\ forall k, xdim E r k == xdim E acc k + count * xdim E u k.
  Proof.
    induction u as [|[n x] u' IH]; intros Hrec acc r Hw Hb H; simpl in H.
    - inversion H; subst. split; [exact Hw|]. split; [exact Hb|]. intros k. simpl. ring.
    - destruct (rec n (x * count)) as [unp|] eqn:Er; [|rewrite ustep_none in H; discriminate].
      destruct (Hrec n (x * count) unp (or_introl eq_refl) Er) as [Hw1 [Hb1 Hx1]].
      destruct (merge_into_spec acc unp Hw Hw1) as [Hw2 [Hd2 Hk2]].
      assert (Hb2 : base (merge_into acc unp)).
      { intros y Hy. apply Hk2 in Hy. destruct Hy; [apply Hb|apply Hb1]; assumption. }
      destruct (IH (fun n0 c r' Hn => Hrec n0 c r' (or_intror Hn)) _ _ Hw2 Hb2 H) as [Hw3 [Hb3 Hx3]].
      split; [exact Hw3|]. split; [exact Hb3|]. intros k. rewrite Hx3.
      rewrite (xdim_linear E (merge_into acc unp) acc unp 1 1 k Hw2 Hw Hw1).
      + rewrite Hx1. simpl. ring.
      + intros m. rewrite Hd2. ring.
  Qed.

  Lemma unpack_items_sound rec u count r :
    (forall n c r', In n (keys u) -> rec n c = Some r' ->
                    wf r' /\ base r' /\ forall k, xdim E r' k == c * E n k) ->
    unpack_items rec u count = Some r ->
    wf r /\ base r /\ forall k, xdim E r k == count * xdim E u k.
  Proof.
    intros Hrec H. rewrite unpack_items_eq in H.
    destruct (unpack_fold_sound rec u count Hrec [] r) as [Hw [Hb Hx]]; try assumption.
    - constructor.
    - intros n [].
    - split; [exact Hw|]. split; [exact Hb|]. intros k. rewrite Hx. simpl. ring.
  Qed.

  Lemma unpack_str_sound fuel : forall s c r, unpack_str fuel defs s c = Some r ->
    wf r /\ base r /\ forall k, xdim E r k == c * E s k.
  Proof.
    induction fuel as [|f IH]; intros s c r H; simpl in H; [discriminate|].
    destruct (d_lookup defs s) as [d|] eqn:El.
    - destruct (unpack_items_sound (unpack_str f defs) d c r) as [Hw [Hb Hx]]; [|exact H|].
      + intros n c' r' _ Hr. apply IH. exact Hr.
      + split; [exact Hw|]. split; [exact Hb|]. intros k. rewrite Hx.
        specialize (HE s). rewrite El in HE. rewrite HE. reflexivity.
    - inversion H; subst. split; [|split].
      + unfold wf. simpl. constructor; [tauto|constructor].
      + intros n [Hn|[]]. subst. exact El.
      + intros k. simpl. ring.
  Qed.

  Lemma unpack_map_sound fuel u c r : unpack_map fuel defs u c = Some r ->
    wf r /\ base r /\ forall k, xdim E r k == c * xdim E u k.
  Proof.
    intros H. apply (unpack_items_sound (unpack_str fuel defs) u c r); [|exact H].
    intros n c' r' _ Hr. apply (unpack_str_sound fuel). exact Hr.
  Qed.
End Expansion.

(** * [__try_pack]: a non-zero answer means the unit is EXACTLY that power of the compound *)
Lemma try_pack_loop_inv pre : forall unit e r, try_pack_loop unit pre e = Some r ->
  (~ e == 0 -> r == e) /\
  (forall n x, In (n, x) unit -> ~ u_get pre n == 0 /\ (x / u_get pre n == r \/ x / u_get pre n == 0)).
Proof.
  induction unit as [|[n x] rest IH]; intros e r H; simpl in H.
  - inversion H; subst. split; [reflexivity|]. intros ? ? [].
  - destruct (Qeq_bool (u_get pre n) 0) eqn:Ep; [discriminate|].
    assert (Hp : ~ u_get pre n == 0) by (intros Hq; apply Qeq_bool_iff in Hq; congruence).
    destruct (Qeq_bool e 0) eqn:Ee; simpl in H.
    + apply Qeq_bool_iff in Ee. destruct (IH _ _ H) as [H1 H2]. split; [tauto|].
      intros n' x' [Hi|Hi]; [|apply H2; exact Hi]. inversion Hi; subst. split; [exact Hp|].
      destruct (Qeq_dec (x' / u_get pre n') 0) as [Hz|Hz]; [right; exact Hz|left].
      symmetry. apply H1. exact Hz.
    + assert (He : ~ e == 0) by (intros Hq; apply Qeq_bool_iff in Hq; congruence).
      destruct (Qeq_bool e (x / u_get pre n)) eqn:Ex; simpl in H; [|discriminate].
      apply Qeq_bool_iff in Ex. destruct (IH _ _ H) as [H1 H2]. split; [intros _; apply H1; exact He|].
      intros n' x' [Hi|Hi]; [|apply H2; exact Hi]. inversion Hi; subst. split; [exact Hp|].
      left. rewrite <- Ex. symmetry. apply H1. exact He.
Qed.

Lemma In_first k d : In k (keys d) -> In (k, u_get d k) d.
Proof.
  induction d as [|[k' v] r IH]; simpl; [tauto|]. intros H. peq k k'; [left; reflexivity|].
  right. apply IH. destruct H; [congruence|assumption].
Qed.

Lemma try_pack_exact u d : ~ try_pack u d == 0 -> forall k, dim u k == try_pack u d * dim d k.
Proof.
  unfold try_pack. destruct (try_pack_loop u d 0) as [e|] eqn:El; [|intros H; exfalso; apply H; reflexivity].
  destruct (forallb (fun kv => negb (Qeq_bool (u_get u (fst kv)) 0)) d) eqn:Ef; [|intros H; exfalso; apply H; reflexivity].
  intros Hr k. destruct (try_pack_loop_inv d _ _ _ El) as [_ Hinv]. rewrite forallb_forall in Ef.
  assert (Hd : In k (keys d) -> ~ u_get u k == 0).
  { intros Hk. apply In_keys in Hk. destruct Hk as [v Hv]. specialize (Ef _ Hv). simpl in Ef.
    intros Hq. apply Qeq_bool_iff in Hq. rewrite Hq in Ef. discriminate. }
  unfold dim. destruct (in_dec Pos.eq_dec k (keys u)) as [Hu|Hu].
  - destruct (Hinv _ _ (In_first _ _ Hu)) as [Hp [Hq|Hq]].
    + rewrite <- Hq. field. exact Hp.
    + exfalso. apply Hd; [apply dim_nonzero_In; exact Hp|].
      assert (u_get u k == u_get u k / u_get d k * u_get d k) as -> by (field; exact Hp). rewrite Hq. ring.
  - rewrite (u_get_notin _ _ Hu). destruct (in_dec Pos.eq_dec k (keys d)) as [Hk|Hk].
    + exfalso. apply (Hd Hk). rewrite (u_get_notin _ _ Hu). reflexivity.
    + rewrite (u_get_notin _ _ Hk). ring.
Qed.

Lemma try_pack_nil d : try_pack [] d == 0.
Proof.
  unfold try_pack. simpl. destruct d as [|[k v] r]; simpl; reflexivity.
Qed.

Lemma pack_first_cases l result :
  pack_first l result = result \/
  exists n d, In (n, d) l /\ ~ try_pack result d == 0 /\ pack_first l result = [(n, try_pack result d)].
Proof.
  induction l as [|[n d] l IH]; simpl; [left; reflexivity|].
  destruct (Qeq_bool (try_pack result d) 0) eqn:Eq; simpl.
  - destruct IH as [IH|[n' [d' [H1 [H2 H3]]]]]; [left; exact IH|]. right. exists n', d'. tauto.
  - right. exists n, d. split; [left; reflexivity|]. split; [|reflexivity].
    intros Hq. apply Qeq_bool_iff in Hq. congruence.
Qed.

Lemma pack_first_nil l : pack_first l [] = [].
Proof.
  induction l as [|[n d] l IH]; simpl; [reflexivity|].
  assert (H : Qeq_bool (try_pack [] d) 0 = true) by (apply Qeq_bool_iff; apply try_pack_nil).
  rewrite H. simpl. exact IH.
Qed.


Lemma d_lookup_In defs n d : NoDup (map fst defs) -> In (n, d) defs -> d_lookup defs n = Some d.
Proof.
  induction defs as [|[n' d'] r IH]; simpl; [tauto|]. intros Hn [H|H].
  - inversion H; subst. rewrite peqb_refl. reflexivity.
  - inversion Hn; subst. peq n n'.
    + exfalso. apply H2. apply in_map_iff. exists (n', d). auto.
    + apply IH; assumption.
Qed.

Section Operate.
  Variable defs : defmap.
  Variable E : sym -> sym -> Q.
  Hypothesis HE : is_expansion defs E.
  Hypothesis Hdefs : wf_defs defs.

  Notation has_dim := (has_unit E).

  Lemma has_dim_nonempty u : has_dim u -> u <> [].
  Proof. intros [k Hk] ->. apply Hk. reflexivity. Qed.

  (** packing never changes the denoted dimension *)
  Lemma pack_first_sound result : wf result -> nz result ->
    wf (pack_first defs result) /\ nz (pack_first defs result) /\
    (pack_first defs result = [] <-> result = []) /\
    forall k, xdim E (pack_first defs result) k == xdim E result k.
  Proof.
    intros Hw Hz. destruct (pack_first_cases defs result) as [H|[n [d [Hin [Hr H]]]]]; rewrite H.
    - split; [exact Hw|]. split; [exact Hz|]. split; [tauto|]. intros; reflexivity.
    - destruct Hdefs as [Hnd Hwd].
      split; [unfold wf; simpl; constructor; [tauto|constructor]|].
      split; [intros k v [Hi|[]]; inversion Hi; subst; exact Hr|].
      split.
      + split; [discriminate|]. intros ->. exfalso. apply Hr. apply try_pack_nil.
      + intros k. simpl. pose proof (HE n) as Hn. rewrite (d_lookup_In _ _ _ Hnd Hin) in Hn.
        rewrite Hn. rewrite (xdim_scaled E result d (try_pack result d) k Hw (Hwd _ _ Hin)); [ring|].
        apply try_pack_exact. exact Hr.
  Qed.

  Definition post (result : umap) : umap := pack_first defs (filter_zero result).

  Lemma post_sound result : wf result ->
    wf (post result) /\ nz (post result) /\ (post result = [] <-> filter_zero result = []) /\
    forall k, xdim E (post result) k == xdim E result k.
  Proof.
    intros Hw. unfold post.
    destruct (pack_first_sound (filter_zero result) (wf_filter_zero _ Hw) (nz_filter_zero _)) as [H1 [H2 [H3 H4]]].
    split; [exact H1|]. split; [exact H2|]. split; [exact H3|]. intros k. rewrite H4.
    apply xdim_ext; [apply wf_filter_zero; exact Hw|exact Hw|]. intros m. apply dim_filter_zero. exact Hw.
  Qed.

  (** an operand after unpacking and zero filtering *)
  Lemma operand_sound fuel ua r0 : unpack_map fuel defs ua 1 = Some r0 ->
    wf (filter_zero r0) /\ base defs (filter_zero r0) /\ nz (filter_zero r0) /\
    forall k, xdim E (filter_zero r0) k == xdim E ua k.
  Proof.
    intros H. destruct (unpack_map_sound defs E HE fuel ua 1 r0 H) as [Hw [Hb Hx]].
    split; [apply wf_filter_zero; exact Hw|]. split; [|split; [apply nz_filter_zero|]].
    - intros n Hn. apply Hb. apply keys_filter_zero. exact Hn.
    - intros k. rewrite (xdim_ext E (filter_zero r0) r0 k (wf_filter_zero _ Hw) Hw (fun m => dim_filter_zero r0 m Hw)).
      rewrite Hx. ring.
  Qed.

  Lemma unpack_map_nil fuel c : unpack_map fuel defs [] c = Some [].
  Proof. reflexivity. Qed.

  Lemma unpack_all1 fuel ua l : unpack_all fuel defs [ua] = Some l ->
    exists r0, unpack_map fuel defs ua 1 = Some r0 /\ l = [filter_zero r0].
  Proof.
    simpl. destruct (unpack_map fuel defs ua 1) as [r0|]; [|discriminate]. intros H. inversion H. eauto.
  Qed.

  Lemma unpack_all2 fuel ua ub l : unpack_all fuel defs [ua; ub] = Some l ->
    exists r0a r0b, unpack_map fuel defs ua 1 = Some r0a /\ unpack_map fuel defs ub 1 = Some r0b /\
                    l = [filter_zero r0a; filter_zero r0b].
  Proof.
    simpl. destruct (unpack_map fuel defs ua 1) as [r0a|]; [|discriminate].
    destruct (unpack_map fuel defs ub 1) as [r0b|]; [|discriminate]. intros H. inversion H. eauto.
  Qed.

  (** what the tree induction knows about an operand: its stored unit [ua] denotes [da];
      a constant has no unit; a non-constant operand carries a dimension *)
  Definition operand (ca : bool) (ua : umap) (da : sym -> Q) : Prop :=
    (forall k, xdim E ua k == da k) /\ (ca = true -> ua = []) /\ (ca = false -> has_dim ua).

  Lemma operand_nonempty fuel ca ua da r0 : operand ca ua da -> unpack_map fuel defs ua 1 = Some r0 ->
    (filter_zero r0 = [] <-> ca = true).
  Proof.
    intros [Hx [Hc Hd]] Hu. destruct (operand_sound fuel ua r0 Hu) as [_ [_ [_ Hx']]]. split.
    - intros Hnil. destruct ca; [reflexivity|]. destruct (Hd eq_refl) as [k Hk]. exfalso. apply Hk.
      rewrite <- Hx'. rewrite Hnil. reflexivity.
    - intros ->. rewrite (Hc eq_refl) in Hu. rewrite unpack_map_nil in Hu. inversion Hu. reflexivity.
  Qed.

  Lemma operate_mul_sound fuel ua da ub db u w :
    (forall k, xdim E ua k == da k) -> (forall k, xdim E ub k == db k) ->
    operate_with_units fuel defs OP_mul [ua; ub] = Some (u, w) ->
    w = false /\ wf u /\ nz u /\ forall k, xdim E u k == da k + db k.
  Proof.
    intros Ha Hb H. unfold operate_with_units in H.
    destruct (unpack_all fuel defs [ua; ub]) as [l|] eqn:El; [|discriminate].
    destruct (unpack_all2 _ _ _ _ El) as [r0a [r0b [Hua [Hub ->]]]].
    destruct (operand_sound _ _ _ Hua) as [Hwa [_ [_ Hxa]]]. destruct (operand_sound _ _ _ Hub) as [Hwb [_ [_ Hxb]]].
    cbn [unit_operations apply_ufn] in H. destruct (f_mul_spec _ _ Hwa Hwb) as [Hs [Hw [Hd _]]].
    destruct (f_mul (filter_zero r0a) (filter_zero r0b)) as [res wn]. simpl in *. subst wn.
    inversion H; subst. destruct (post_sound res Hw) as [P1 [P2 [_ P4]]].
    split; [reflexivity|]. split; [exact P1|]. split; [exact P2|]. intros k. fold (post res). rewrite P4.
    rewrite (xdim_linear E res _ _ 1 1 k Hw Hwa Hwb) by (intros m; rewrite Hd; ring).
    rewrite Hxa, Hxb. rewrite Ha, Hb. ring.
  Qed.

  Lemma operate_div_sound fuel ua da ub db u w :
    (forall k, xdim E ua k == da k) -> (forall k, xdim E ub k == db k) ->
    operate_with_units fuel defs OP_div [ua; ub] = Some (u, w) ->
    w = false /\ wf u /\ nz u /\ forall k, xdim E u k == da k - db k.
  Proof.
    intros Ha Hb H. unfold operate_with_units in H.
    destruct (unpack_all fuel defs [ua; ub]) as [l|] eqn:El; [|discriminate].
    destruct (unpack_all2 _ _ _ _ El) as [r0a [r0b [Hua [Hub ->]]]].
    destruct (operand_sound _ _ _ Hua) as [Hwa [_ [_ Hxa]]]. destruct (operand_sound _ _ _ Hub) as [Hwb [_ [_ Hxb]]].
    cbn [unit_operations apply_ufn] in H. destruct (f_div_spec _ _ Hwa Hwb) as [Hs [Hw [Hd _]]].
    destruct (f_div (filter_zero r0a) (filter_zero r0b)) as [res wn]. simpl in *. subst wn.
    inversion H; subst. destruct (post_sound res Hw) as [P1 [P2 [_ P4]]].
    split; [reflexivity|]. split; [exact P1|]. split; [exact P2|]. intros k. fold (post res). rewrite P4.
    rewrite (xdim_linear E res _ _ 1 (-1) k Hw Hwa Hwb) by (intros m; rewrite Hd; ring).
    rewrite Hxa, Hxb. rewrite Ha, Hb. ring.
  Qed.

  Lemma operate_neg_sound fuel ua da u w :
    (forall k, xdim E ua k == da k) ->
    operate_with_units fuel defs OP_neg [ua] = Some (u, w) ->
    w = false /\ wf u /\ nz u /\ forall k, xdim E u k == da k.
  Proof.
    intros Ha H. unfold operate_with_units in H.
    destruct (unpack_all fuel defs [ua]) as [l|] eqn:El; [|discriminate].
    destruct (unpack_all1 _ _ _ El) as [r0a [Hua ->]].
    destruct (operand_sound _ _ _ Hua) as [Hwa [_ [_ Hxa]]].
    cbn [unit_operations apply_ufn] in H. rewrite f_neg_spec in H. inversion H; subst.
    destruct (post_sound _ Hwa) as [P1 [P2 [_ P4]]].
    split; [reflexivity|]. split; [exact P1|]. split; [exact P2|]. intros k.
    fold (post (filter_zero r0a)). rewrite P4, Hxa. apply Ha.
  Qed.

  Lemma operate_sqrt_sound fuel ua da u w :
    (forall k, xdim E ua k == da k) ->
    operate_with_units fuel defs OP_sqrt [ua] = Some (u, w) ->
    w = false /\ wf u /\ nz u /\ forall k, xdim E u k == da k / 2.
  Proof.
    intros Ha H. unfold operate_with_units in H.
    destruct (unpack_all fuel defs [ua]) as [l|] eqn:El; [|discriminate].
    destruct (unpack_all1 _ _ _ El) as [r0a [Hua ->]].
    destruct (operand_sound _ _ _ Hua) as [Hwa [_ [_ Hxa]]].
    cbn [unit_operations apply_ufn] in H. rewrite (f_sqrt_spec _ Hwa) in H. inversion H; subst.
    set (res := map_vals (fun x => x / (2 # 1)) (filter_zero r0a)).
    assert (Hw : wf res) by (apply wf_map_vals; exact Hwa).
    destruct (post_sound res Hw) as [P1 [P2 [_ P4]]].
    split; [reflexivity|]. split; [exact P1|]. split; [exact P2|]. intros k.
    fold (post res). rewrite P4.
    rewrite (xdim_scaled E res (filter_zero r0a) (1 / 2) k Hw Hwa).
    - rewrite Hxa. rewrite Ha. field.
    - intros m. unfold res. rewrite dim_map_vals by reflexivity. field.
  Qed.

  Lemma operate_addsub_sound fuel o ca ua da cb ub db u w :
    is_addsub o = true ->
    operand ca ua da -> operand cb ub db ->
    operate_with_units fuel defs o [ua; ub] = Some (u, w) ->
    (w = false /\ wf u /\ nz u /\ (forall k, xdim E u k == if ca then db k else da k) /\
     (ca = false -> cb = false -> forall k, da k == db k)) \/
    (w = true /\ u = [] /\ ca = false /\ cb = false /\ exists k, ~ da k == db k).
  Proof.
    intros Ho Ha Hb H. unfold operate_with_units in H.
    destruct (unpack_all fuel defs [ua; ub]) as [l|] eqn:El; [|discriminate].
    destruct (unpack_all2 _ _ _ _ El) as [r0a [r0b [Hua [Hub ->]]]].
    destruct (operand_sound _ _ _ Hua) as [Hwa [Hba [Hza Hxa]]]. destruct (operand_sound _ _ _ Hub) as [Hwb [Hbb [Hzb Hxb]]].
    pose proof (operand_nonempty _ _ _ _ _ Ha Hua) as Hea. pose proof (operand_nonempty _ _ _ _ _ Hb Hub) as Heb.
    destruct Ha as [Hda _], Hb as [Hdb _].
    set (ra := filter_zero r0a) in *. set (rb := filter_zero r0b) in *.
    assert (Hop : unit_operations o = Some F_add_and_sub) by (destruct o; simpl in Ho; try discriminate; reflexivity).
    rewrite Hop in H. cbn [apply_ufn] in H.
    destruct (f_add_and_sub_cases ra rb) as [[Na [Nb [Hne Hf]]]|[[Na Hf]|[Na [Hor Hf]]]]; rewrite Hf in H; inversion H; subst; clear H.
    - right. split; [reflexivity|]. split; [simpl; apply pack_first_nil|].
      assert (Hca : ca = false) by (destruct ca; [exfalso; apply Na; apply Hea; reflexivity|reflexivity]).
      assert (Hcb : cb = false) by (destruct cb; [exfalso; apply Nb; apply Heb; reflexivity|reflexivity]).
      split; [exact Hca|]. split; [exact Hcb|].
      destruct (dict_eqb_false_witness ra rb Hwa Hwb Hza Hzb Hne) as [m Hm]. exists m.
      rewrite <- Hda, <- Hdb, <- Hxa, <- Hxb.
      rewrite (xdim_of_base defs E HE ra m Hwa Hba), (xdim_of_base defs E HE rb m Hwb Hbb). exact Hm.
    - left. assert (Hca : ca = true) by (apply Hea; exact Na). subst ca.
      destruct (post_sound rb Hwb) as [P1 [P2 [_ P4]]].
      split; [reflexivity|]. split; [exact P1|]. split; [exact P2|]. split; [|discriminate].
      intros k. fold (post rb). rewrite P4, Hxb. apply Hdb.
    - left. assert (Hca : ca = false) by (destruct ca; [exfalso; apply Na; apply Hea; reflexivity|reflexivity]). subst ca.
      destruct (post_sound ra Hwa) as [P1 [P2 [_ P4]]].
      split; [reflexivity|]. split; [exact P1|]. split; [exact P2|]. split.
      + intros k. fold (post ra). rewrite P4, Hxa. apply Hda.
      + intros _ Hcb k. destruct Hor as [Hnil|Heq].
        * exfalso. apply Heb in Hnil. congruence.
        * rewrite <- Hda, <- Hdb, <- Hxa, <- Hxb.
          apply xdim_ext; [exact Hwa|exact Hwb|]. apply dict_eqb_sound; assumption.
  Qed.
End Operate.

(** * Induction over expression trees *)
Section Tree.
  Variable defs : defmap.
  Variable E : sym -> sym -> Q.
  Hypothesis HE : is_expansion defs E.
  Hypothesis Hdefs : wf_defs defs.
  Variable fuel : nat.

  Definition node_ok (e : expr) (u : umap) (w : bool) : Prop :=
    wf u /\
    (w = false -> forall k, xdim E u k == dspec E e k) /\
    (w = true -> u = [] /\ genuine_mismatch E e) /\
    (genuine_mismatch E e -> w = true).

  (** an operand that is in the domain, as the operate lemmas want it *)
  Lemma child_operand a ua wa :
    unit_of fuel defs a = Some (ua, wa) -> node_ok a ua wa -> operand_ok fuel defs E a ->
    wa = false /\ wf ua /\ operand E (is_const a) ua (dspec E a).
  Proof.
    intros Hu [Hw [Hf [Ht _]]] Hok.
    assert (Hwa : wa = false).
    { destruct wa; [|reflexivity]. destruct (Ht eq_refl) as [Hnil Hg]. subst ua.
      destruct Hok as [Hc|[u' [w' [Hu' [k Hk]]]]].
      - destruct a; simpl in Hc; try discriminate; try (simpl in Hg; tauto).
      - rewrite Hu in Hu'. inversion Hu'; subst. exfalso. apply Hk. reflexivity. }
    split; [exact Hwa|]. split; [exact Hw|]. split; [exact (Hf Hwa)|]. split.
    - intros Hc. destruct a; simpl in Hc; try discriminate. simpl in Hu. inversion Hu. reflexivity.
    - intros Hc. destruct Hok as [Hc'|[u' [w' [Hu' Hd]]]]; [congruence|].
      rewrite Hu in Hu'. inversion Hu'; subst. exact Hd.
  Qed.

  Lemma guard_true (ops : list (expr * umap)) :
    (forall a ua, In (a, ua) ops -> (is_const a = true -> ua = []) /\ (is_const a = false -> has_unit E ua)) ->
    forallb (fun eu => negb (u_empty (snd eu)) || is_const (fst eu)) ops = true.
  Proof.
    intros H. apply forallb_forall. intros [a ua] Hin. simpl. destruct (H _ _ Hin) as [_ H2].
    destruct (is_const a); [apply orb_true_r|]. destruct ua; [|reflexivity].
    destruct (H2 eq_refl) as [k Hk]. exfalso. apply Hk. reflexivity.
  Qed.

  Theorem unit_of_sound : forall e u w,
    in_domain fuel defs E e -> unit_of fuel defs e = Some (u, w) -> node_ok e u w.
  Proof.
    induction e as [u0|c|o a IHa|o a IHa b IHb]; intros u w Hdom H.
    - (* Leaf *) simpl in H. inversion H; subst. simpl in Hdom. unfold node_ok. simpl.
      split; [exact Hdom|]. split; [intros; reflexivity|]. split; [discriminate|tauto].
    - (* Cst *) simpl in H. inversion H; subst. unfold node_ok. simpl.
      split; [constructor|]. split; [intros; reflexivity|]. split; [discriminate|tauto].
    - (* unary *)
      simpl in Hdom. destruct Hdom as [Hg [Hda Hoka]]. simpl in H.
      destruct (unit_of fuel defs a) as [[ua wa]|] eqn:Ea; [|discriminate].
      destruct (child_operand a ua wa Ea (IHa _ _ Hda eq_refl) Hoka) as [-> [Hwa Hopa]].
      assert (Hguard : forallb (fun eu => negb (u_empty (snd eu)) || is_const (fst eu)) [(a, ua)] = true).
      { apply guard_true. intros a' ua' [Hi|[]]. inversion Hi; subst. destruct Hopa as [_ Hopa]. exact Hopa. }
      destruct o; simpl in Hg; try discriminate.
      + (* neg *) unfold propagate_units in H. rewrite Hguard in H. simpl map in H.
        destruct (operate_with_units fuel defs OP_neg [ua]) as [[u1 w1]|] eqn:Eo; [|discriminate].
        inversion H; subst. destruct (operate_neg_sound defs E HE Hdefs _ _ _ _ _ (proj1 Hopa) Eo) as [-> [Hw [_ Hx]]].
        unfold node_ok. simpl. split; [exact Hw|]. split; [intros _; exact Hx|]. split; [discriminate|tauto].
      + (* sqrt *) unfold propagate_units in H. rewrite Hguard in H. simpl map in H.
        destruct (operate_with_units fuel defs OP_sqrt [ua]) as [[u1 w1]|] eqn:Eo; [|discriminate].
        inversion H; subst. destruct (operate_sqrt_sound defs E HE Hdefs _ _ _ _ _ (proj1 Hopa) Eo) as [-> [Hw [_ Hx]]].
        unfold node_ok. simpl. split; [exact Hw|]. split; [intros _; exact Hx|]. split; [discriminate|tauto].
    - (* binary *)
      simpl in Hdom. destruct Hdom as [Hda [Hdb [Hoka Hcase]]]. simpl in H.
      destruct (unit_of fuel defs a) as [[ua wa]|] eqn:Ea; [|discriminate].
      destruct (unit_of fuel defs b) as [[ub wb]|] eqn:Eb; [|discriminate].
      destruct (child_operand a ua wa Ea (IHa _ _ Hda eq_refl) Hoka) as [-> [Hwa Hopa]].
      destruct Hcase as [[Hg Hokb]|[-> [p ->]]].
      + destruct (child_operand b ub wb Eb (IHb _ _ Hdb eq_refl) Hokb) as [-> [Hwb Hopb]].
        assert (Hguard : forallb (fun eu => negb (u_empty (snd eu)) || is_const (fst eu)) [(a, ua); (b, ub)] = true).
        { apply guard_true. intros a' ua' [Hi|[Hi|[]]]; inversion Hi; subst.
          - destruct Hopa as [_ Hopa]. exact Hopa.
          - destruct Hopb as [_ Hopb]. exact Hopb. }
        assert (Hprop : propagate_units fuel defs o [(a, ua); (b, ub)] = operate_with_units fuel defs o [ua; ub]).
        { destruct o; simpl in Hg; try discriminate; unfold propagate_units; rewrite Hguard; reflexivity. }
        rewrite Hprop in H. destruct (operate_with_units fuel defs o [ua; ub]) as [[u1 w1]|] eqn:Eo; [|discriminate].
        inversion H; subst. simpl.
        destruct o; simpl in Hg; try discriminate.
        * (* add *)
          destruct (operate_addsub_sound defs E HE Hdefs _ OP_add _ _ _ _ _ _ _ _ eq_refl Hopa Hopb Eo)
            as [[-> [Hw [_ [Hx Hnm]]]]|[-> [-> [Hca [Hcb Hex]]]]].
          -- unfold node_ok. simpl. split; [exact Hw|]. split; [intros _; exact Hx|]. split; [discriminate|].
             intros [_ [Hca [Hcb [k Hk]]]]. exfalso. apply Hk. apply Hnm; assumption.
          -- unfold node_ok. simpl. split; [constructor|]. split; [discriminate|]. split; [|reflexivity].
             intros _. split; [reflexivity|]. tauto.
        * (* sub *)
          destruct (operate_addsub_sound defs E HE Hdefs _ OP_sub _ _ _ _ _ _ _ _ eq_refl Hopa Hopb Eo)
            as [[-> [Hw [_ [Hx Hnm]]]]|[-> [-> [Hca [Hcb Hex]]]]].
          -- unfold node_ok. simpl. split; [exact Hw|]. split; [intros _; exact Hx|]. split; [discriminate|].
             intros [_ [Hca [Hcb [k Hk]]]]. exfalso. apply Hk. apply Hnm; assumption.
          -- unfold node_ok. simpl. split; [constructor|]. split; [discriminate|]. split; [|reflexivity].
             intros _. split; [reflexivity|]. tauto.
        * (* mul *)
          destruct (operate_mul_sound defs E HE Hdefs _ _ _ _ _ _ _ (proj1 Hopa) (proj1 Hopb) Eo) as [-> [Hw [_ Hx]]].
          unfold node_ok. simpl. split; [exact Hw|]. split; [intros _; exact Hx|]. split; [discriminate|tauto].
        * (* div *)
          destruct (operate_div_sound defs E HE Hdefs _ _ _ _ _ _ _ (proj1 Hopa) (proj1 Hopb) Eo) as [-> [Hw [_ Hx]]].
          unfold node_ok. simpl. split; [exact Hw|]. split; [intros _; exact Hx|]. split; [discriminate|tauto].
      + (* constant power: no unpacking, no filter, no packing *)
        simpl in Eb. inversion Eb; subst. simpl in H. inversion H; subst.
        unfold node_ok. simpl. split.
        * unfold wf, keys. rewrite map_map. simpl. exact Hwa.
        * split; [|split; [discriminate|intros [Hf _]; discriminate]].
          intros _ k. rewrite xdim_map_vals_scale. destruct Hopa as [Hx _]. rewrite Hx. reflexivity.
  Qed.
End Tree.

Lemma d_lookup_some_In defs s d : d_lookup defs s = Some d -> In s (map fst defs).
Proof.
  induction defs as [|[n' d'] r IH]; simpl; [discriminate|].
  peq s n'; [tauto|]. intros H. right. apply IH. exact H.
Qed.

(** * Termination: with acyclic definitions enough fuel always exists *)
Section Termination.
  Variable defs : defmap.
  Variable rank : sym -> nat.
  Hypothesis Hrank : forall n d m, d_lookup defs n = Some d -> In m (keys d) -> d_lookup defs m <> None ->
                                   (rank m < rank n)%nat.

  Definition lvl (s : sym) : nat := match d_lookup defs s with None => 1 | Some _ => rank s + 2 end.

  Lemma fold_ustep_total rec count u : (forall n c, In n (keys u) -> rec n c <> None) ->
    forall acc, fold_left (ustep rec count) u (Some acc) <> None.
  Proof.
    induction u as [|[n x] r IH]; intros Hrec acc; simpl; [discriminate|].
    destruct (rec n (x * count)) as [unp|] eqn:Er.
    - apply IH. intros n0 c Hn0. apply Hrec. right. exact Hn0.
    - exfalso. apply (Hrec n (x * count)); [left; reflexivity|exact Er].
  Qed.

  Lemma unpack_str_total : forall f s c, (lvl s <= f)%nat -> unpack_str f defs s c <> None.
  Proof.
    induction f as [|f IH]; intros s c Hl.
    - unfold lvl in Hl. destruct (d_lookup defs s); lia.
    - simpl. unfold lvl in Hl. destruct (d_lookup defs s) as [d|] eqn:El; [|discriminate].
      rewrite unpack_items_eq. apply fold_ustep_total. intros n c' Hn. apply IH.
      unfold lvl. destruct (d_lookup defs n) as [d'|] eqn:En; [|lia].
      assert (rank n < rank s)%nat by (apply (Hrank s d n El Hn); congruence). lia.
  Qed.

  Definition enough : nat := S (list_max (map (fun n => S (rank n)) (map fst defs))).

  Lemma rank_le_max s d : d_lookup defs s = Some d ->
    (S (rank s) <= list_max (map (fun n => S (rank n)) (map fst defs)))%nat.
  Proof.
    intros El. apply d_lookup_some_In in El.
    pose proof (list_max_le (map (fun n => S (rank n)) (map fst defs))
                            (list_max (map (fun n => S (rank n)) (map fst defs)))) as [Hle _].
    specialize (Hle (Nat.le_refl _)). rewrite Forall_forall in Hle. apply Hle.
    apply (in_map (fun n => S (rank n))). exact El.
  Qed.

  Lemma lvl_enough s : (lvl s <= enough)%nat.
  Proof.
    unfold lvl, enough. destruct (d_lookup defs s) as [d|] eqn:El; [|lia].
    pose proof (rank_le_max s d El). lia.
  Qed.

  Lemma unpack_map_total fuel u c : (enough <= fuel)%nat -> unpack_map fuel defs u c <> None.
  Proof.
    intros Hf. unfold unpack_map. rewrite unpack_items_eq. apply fold_ustep_total.
    intros n c' _. apply unpack_str_total. pose proof (lvl_enough n). lia.
  Qed.

  Lemma operate_total1 fuel o ua : (enough <= fuel)%nat -> un_in_grammar o = true ->
    operate_with_units fuel defs o [ua] <> None.
  Proof.
    intros Hf Hg. unfold operate_with_units. simpl.
    destruct (unpack_map fuel defs ua 1) as [r|] eqn:Eu; [|exfalso; exact (unpack_map_total fuel ua 1 Hf Eu)].
    destruct o; simpl in Hg; try discriminate.
    all: cbn [unit_operations apply_ufn]; try (destruct (f_sqrt _)); discriminate.
  Qed.

  Lemma operate_total2 fuel o ua ub : (enough <= fuel)%nat -> bin_in_grammar o = true ->
    operate_with_units fuel defs o [ua; ub] <> None.
  Proof.
    intros Hf Hg. unfold operate_with_units. simpl.
    destruct (unpack_map fuel defs ua 1) as [ra|] eqn:Ea; [|exfalso; exact (unpack_map_total fuel ua 1 Hf Ea)].
    destruct (unpack_map fuel defs ub 1) as [rb|] eqn:Eb; [|exfalso; exact (unpack_map_total fuel ub 1 Hf Eb)].
    destruct o; simpl in Hg; try discriminate.
    all: cbn [unit_operations apply_ufn]; try (destruct (f_add_and_sub _ _)); try (destruct (f_mul _ _));
      try (destruct (f_div _ _)); discriminate.
  Qed.

  Theorem unit_of_total E fuel : (enough <= fuel)%nat ->
    forall e, in_domain fuel defs E e -> exists u w, unit_of fuel defs e = Some (u, w).
  Proof.
    intros Hf. induction e as [u0|c|o a IHa|o a IHa b IHb]; intros Hdom; simpl.
    - eauto.
    - eauto.
    - simpl in Hdom. destruct Hdom as [Hg [Hda _]]. destruct (IHa Hda) as [ua [wa ->]].
      assert (Hp : propagate_units fuel defs o [(a, ua)] <> None).
      { destruct o; simpl in Hg; try discriminate; unfold propagate_units;
          (destruct (forallb _ _); [apply operate_total1; [exact Hf|reflexivity]|discriminate]). }
      destruct (propagate_units fuel defs o [(a, ua)]) as [[u w]|]; [eauto|tauto].
    - simpl in Hdom. destruct Hdom as [Hda [Hdb [_ Hcase]]].
      destruct (IHa Hda) as [ua [wa ->]]. destruct (IHb Hdb) as [ub [wb ->]].
      assert (Hp : propagate_units fuel defs o [(a, ua); (b, ub)] <> None).
      { destruct Hcase as [[Hg _]|[-> [p ->]]].
        - destruct o; simpl in Hg; try discriminate; unfold propagate_units;
            (destruct (forallb _ _); [apply operate_total2; [exact Hf|reflexivity]|discriminate]).
        - simpl. discriminate. }
      destruct (propagate_units fuel defs o [(a, ua); (b, ub)]) as [[u w]|]; [eauto|tauto].
  Qed.
End Termination.

(** * Existence of the semantic expansion for acyclic definitions *)

Section ExpansionExists.
  Variable defs : defmap.
  Variable rank : sym -> nat.
  Hypothesis Hrank : forall n d m, d_lookup defs n = Some d -> In m (keys d) -> d_lookup defs m <> None ->
                                   (rank m < rank n)%nat.

  Lemma Efuel_stable : forall f s k, (lvl defs rank s <= f)%nat -> Efuel defs f s k == Efuel defs (S f) s k.
  Proof.
    induction f as [|f IH]; intros s k Hl.
    - unfold lvl in Hl. destruct (d_lookup defs s); lia.
    - unfold lvl in Hl. simpl. destruct (d_lookup defs s) as [d|] eqn:El; [|reflexivity].
      apply xdim_ext_E. intros n Hn. apply IH. unfold lvl.
      destruct (d_lookup defs n) as [d'|] eqn:En; [|lia].
      assert (rank n < rank s)%nat by (apply (Hrank s d n El Hn); congruence). lia.
  Qed.

  Lemma expansion_exists_rank : is_expansion defs (Efuel defs (enough defs rank)).
  Proof.
    intros s. destruct (d_lookup defs s) as [d|] eqn:El.
    - intros k. unfold enough. simpl. rewrite El. apply xdim_ext_E. intros n Hn.
      apply (Efuel_stable _ n k). unfold lvl. pose proof (rank_le_max defs rank s d El) as Hm.
      destruct (d_lookup defs n) as [d'|] eqn:En; [|lia].
      assert (rank n < rank s)%nat by (apply (Hrank s d n El Hn); congruence). lia.
    - intros k. unfold enough. simpl. rewrite El. reflexivity.
  Qed.
End ExpansionExists.

Theorem expansion_exists defs : acyclic defs -> exists E, is_expansion defs E.
Proof. intros [rank Hrank]. exists (Efuel defs (enough defs rank)). apply expansion_exists_rank. exact Hrank. Qed.

(** * Histories of define / clear *)

Lemma d_lookup_set defs m u n : d_lookup (d_set defs m u) n = if Pos.eqb n m then Some u else d_lookup defs n.
Proof.
  induction defs as [|[k d] r IH]; simpl.
  - destruct (Pos.eqb n m); reflexivity.
  - peq m k; simpl.
    + peq n k; reflexivity.
    + rewrite IH. peq n k; [rewrite peqb_neq by congruence; reflexivity|reflexivity].
Qed.

Lemma d_run_lookup_gen h : forall defs n, d_lookup (fold_left d_step h defs) n = last_def h n (d_lookup defs n).
Proof.
  induction h as [|e r IH]; intros defs n; simpl; [reflexivity|].
  destruct e as [m u|]; simpl; rewrite IH; [rewrite d_lookup_set|]; reflexivity.
Qed.

Lemma d_run_lookup h n : d_lookup (d_run h) n = last_def h n None.
Proof. unfold d_run. rewrite d_run_lookup_gen. reflexivity. Qed.

Lemma d_run_clear h : d_run (h ++ [Clear]) = [].
Proof. unfold d_run. rewrite fold_left_app. reflexivity. Qed.

Lemma d_run_app h1 h2 : d_run (h1 ++ h2) = fold_left d_step h2 (d_run h1).
Proof. unfold d_run. apply fold_left_app. Qed.


Lemma names_d_set defs m u : map fst (d_set defs m u) = if existsb (Pos.eqb m) (map fst defs) then map fst defs else map fst defs ++ [m].
Proof.
  induction defs as [|[k d] r IH]; simpl; [reflexivity|].
  peq m k; simpl; [reflexivity|]. rewrite IH. destruct (existsb (Pos.eqb m) (map fst r)); reflexivity.
Qed.

Lemma wf_defs_set defs m u : wf_defs defs -> wf u -> wf_defs (d_set defs m u).
Proof.
  intros [Hn Hd] Hu. split.
  - rewrite names_d_set. destruct (existsb (Pos.eqb m) (map fst defs)) eqn:Ex; [exact Hn|].
    apply NoDup_snoc; [exact Hn|]. intros Hi.
    assert (existsb (Pos.eqb m) (map fst defs) = true); [|congruence].
    apply existsb_exists. exists m. split; [exact Hi|apply Pos.eqb_refl].
  - clear Hn. induction defs as [|[k d] r IH]; simpl.
    + intros n d [Hi|[]]. inversion Hi; subst. exact Hu.
    + peq m k.
      * intros n d' [Hi|Hi]; [inversion Hi; subst; exact Hu|]. apply (Hd n d'). right. exact Hi.
      * intros n' d' [Hi|Hi]; [apply (Hd n' d'); left; exact Hi|].
        apply (IH (fun a b Hab => Hd a b (or_intror Hab)) n' d' Hi).
Qed.

Lemma wf_defs_run_gen h : forall defs, wf_history h -> wf_defs defs -> wf_defs (fold_left d_step h defs).
Proof.
  induction h as [|e r IH]; intros defs Hh Hd; simpl; [exact Hd|].
  apply IH; [intros n u Hi; apply (Hh n u); right; exact Hi|].
  destruct e as [m u|]; simpl.
  - apply wf_defs_set; [exact Hd|]. apply (Hh m u). left. reflexivity.
  - split; [constructor|intros ? ? []].
Qed.

Lemma wf_defs_run h : wf_history h -> wf_defs (d_run h).
Proof. intros H. apply wf_defs_run_gen; [exact H|]. split; [constructor|intros ? ? []]. Qed.

(** * No definitions active (C08) *)
Lemma wf_defs_nil : wf_defs [].
Proof. split; [constructor|intros ? ? []]. Qed.

Lemma rank0_ok : forall n d m, d_lookup [] n = Some d -> In m (keys d) -> d_lookup [] m <> None -> (0 < 0)%nat.
Proof. intros n d m H. discriminate. Qed.

Lemma C08_dim_lemma e : in_domain 1 [] delta e ->
  exists u w, unit_of 1 [] e = Some (u, w) /\ NoDup (keys u) /\
    (w = false -> forall k, dim u k == dspec delta e k) /\
    (w = true -> u = [] /\ genuine_mismatch delta e) /\
    (genuine_mismatch delta e -> w = true).
Proof.
  intros Hdom.
  destruct (unit_of_total [] (fun _ => 0%nat) rank0_ok delta 1 (Nat.le_refl _) e Hdom) as [u [w Hu]].
  exists u, w. split; [exact Hu|].
  destruct (unit_of_sound [] delta is_expansion_nil wf_defs_nil 1 e u w Hdom Hu) as [Hw [Hf [Ht Hg]]].
  split; [exact Hw|]. split; [|split; assumption].
  intros Hwf k. rewrite <- (Hf Hwf k). symmetry. apply xdim_delta. exact Hw.
Qed.

Lemma order_insensitive_lemma o u1 u2 :
  is_addsub o = true -> NoDup (keys u1) -> NoDup (keys u2) -> has_unit delta u1 ->
  (forall k, dim u1 k == dim u2 k) ->
  exists u, unit_of 1 [] (Bin o (Leaf u1) (Leaf u2)) = Some (u, false) /\ forall k, dim u k == dim u1 k.
Proof.
  intros Ho H1 H2 Hd Heq.
  assert (Hd2 : has_unit delta u2).
  { destruct Hd as [k Hk]. exists k. rewrite xdim_delta by exact H2. rewrite <- Heq. rewrite <- xdim_delta by exact H1. exact Hk. }
  assert (Hdom : in_domain 1 [] delta (Bin o (Leaf u1) (Leaf u2))).
  { simpl. split; [exact H1|]. split; [exact H2|]. split.
    - right. exists u1, false. split; [reflexivity|exact Hd].
    - left. split; [destruct o; simpl in Ho; try discriminate; reflexivity|].
      right. exists u2, false. split; [reflexivity|exact Hd2]. }
  destruct (C08_dim_lemma _ Hdom) as [u [w [Hu [Hw [Hf [Ht Hg]]]]]].
  destruct w.
  - exfalso. destruct (Ht eq_refl) as [_ [_ [_ [_ [k Hk]]]]]. apply Hk. simpl.
    rewrite (xdim_delta u1 k H1), (xdim_delta u2 k H2). apply Heq.
  - exists u. split; [exact Hu|]. intros k. rewrite (Hf eq_refl k).
    destruct o; simpl in Ho; try discriminate; simpl; apply xdim_delta; exact H1.
Qed.

Lemma order_insensitive_perm o u1 u2 :
  is_addsub o = true -> NoDup (keys u1) -> has_unit delta u1 -> Permutation u1 u2 ->
  exists u, unit_of 1 [] (Bin o (Leaf u1) (Leaf u2)) = Some (u, false) /\ forall k, dim u k == dim u1 k.
Proof.
  intros Ho H1 Hd Hp. apply order_insensitive_lemma; try assumption.
  - unfold keys. eapply Permutation_NoDup; [apply Permutation_map; exact Hp|exact H1].
  - intros k. apply dim_perm; assumption.
Qed.

Lemma no_zero_lemma o a b u w : (o = OP_mul \/ o = OP_div) ->
  operate_with_units 1 [] o [a; b] = Some (u, w) -> forall k v, In (k, v) u -> ~ v == 0.
Proof.
  intros [->| ->] H.
  - destruct (operate_mul_sound [] delta is_expansion_nil wf_defs_nil 1 a (xdim delta a) b (xdim delta b) u w
                (fun k => Qeq_refl _) (fun k => Qeq_refl _) H) as [_ [_ [Hz _]]]. exact Hz.
  - destruct (operate_div_sound [] delta is_expansion_nil wf_defs_nil 1 a (xdim delta a) b (xdim delta b) u w
                (fun k => Qeq_refl _) (fun k => Qeq_refl _) H) as [_ [_ [Hz _]]]. exact Hz.
Qed.

Lemma cancel_lemma a b : NoDup (keys a) -> NoDup (keys b) ->
  exists ab r, operate_with_units 1 [] OP_mul [a; b] = Some (ab, false) /\
               operate_with_units 1 [] OP_div [ab; b] = Some (r, false) /\
               (forall k, dim r k == dim a k) /\ (forall k v, In (k, v) r -> ~ v == 0).
Proof.
  intros Ha Hb.
  pose proof (operate_total2 [] (fun _ => 0%nat) rank0_ok 1 OP_mul a b (Nat.le_refl _) eq_refl) as Hm.
  destruct (operate_with_units 1 [] OP_mul [a; b]) as [[ab w1]|] eqn:Em; [|tauto].
  destruct (operate_mul_sound [] delta is_expansion_nil wf_defs_nil 1 a (xdim delta a) b (xdim delta b) ab w1
              (fun k => Qeq_refl _) (fun k => Qeq_refl _) Em) as [-> [Hwab [_ Hxab]]].
  pose proof (operate_total2 [] (fun _ => 0%nat) rank0_ok 1 OP_div ab b (Nat.le_refl _) eq_refl) as Hd.
  destruct (operate_with_units 1 [] OP_div [ab; b]) as [[r w2]|] eqn:Ed; [|tauto].
  destruct (operate_div_sound [] delta is_expansion_nil wf_defs_nil 1 ab (xdim delta ab) b (xdim delta b) r w2
              (fun k => Qeq_refl _) (fun k => Qeq_refl _) Ed) as [-> [Hwr [Hzr Hxr]]].
  exists ab, r. split; [reflexivity|]. split; [exact Ed|]. split; [|exact Hzr].
  intros k. rewrite <- (xdim_delta r k Hwr), Hxr, Hxab, (xdim_delta a k Ha). ring.
Qed.

(** with no definitions the fuel is irrelevant (one frame is enough) *)
Lemma fold_ustep_ext rec1 rec2 c u : (forall n x, rec1 n x = rec2 n x) ->
  forall acc, fold_left (ustep rec1 c) u acc = fold_left (ustep rec2 c) u acc.
Proof.
  intros H. induction u as [|[n x] r IH]; intros acc; simpl; [reflexivity|].
  rewrite H. apply IH.
Qed.

Lemma unpack_map_fuel_nil f u c : unpack_map (S f) [] u c = unpack_map 1 [] u c.
Proof. unfold unpack_map. rewrite !unpack_items_eq. apply fold_ustep_ext. intros; reflexivity. Qed.

Lemma unpack_all_fuel_nil f l : unpack_all (S f) [] l = unpack_all 1 [] l.
Proof. induction l as [|u r IH]; [reflexivity|]. cbn [unpack_all]. rewrite IH, unpack_map_fuel_nil. reflexivity. Qed.

Lemma operate_fuel_nil f o l : operate_with_units (S f) [] o l = operate_with_units 1 [] o l.
Proof. unfold operate_with_units. rewrite unpack_all_fuel_nil. reflexivity. Qed.

Lemma propagate_fuel_nil f o l : propagate_units (S f) [] o l = propagate_units 1 [] o l.
Proof. unfold propagate_units. rewrite operate_fuel_nil. reflexivity. Qed.

Lemma unit_of_fuel_nil f e : unit_of (S f) [] e = unit_of 1 [] e.
Proof.
  induction e as [u0|c|o a IHa|o a IHa b IHb]; try reflexivity.
  - cbn [unit_of]. rewrite IHa. destruct (unit_of 1 [] a) as [[ua wa]|]; [|reflexivity].
    rewrite propagate_fuel_nil. reflexivity.
  - cbn [unit_of]. rewrite IHa, IHb. destruct (unit_of 1 [] a) as [[ua wa]|]; [|reflexivity].
    destruct (unit_of 1 [] b) as [[ub wb]|]; [|reflexivity]. rewrite propagate_fuel_nil. reflexivity.
Qed.

Lemma clear_lemma h f e : unit_of (S f) (d_run (h ++ [Clear])) e = unit_of 1 [] e.
Proof. rewrite d_run_clear. apply unit_of_fuel_nil. Qed.

(** * Statements for C18 *)
Lemma C18_dimension_lemma defs E fuel e u w :
  is_expansion defs E -> wf_defs defs -> in_domain fuel defs E e -> unit_of fuel defs e = Some (u, w) ->
  NoDup (keys u) /\
  (w = false -> forall k, xdim E u k == dspec E e k) /\
  (w = true -> u = [] /\ genuine_mismatch E e) /\
  (genuine_mismatch E e -> w = true).
Proof. intros HE Hd Hdom Hu. exact (unit_of_sound defs E HE Hd fuel e u w Hdom Hu). Qed.

Lemma C18_terminates_lemma defs : acyclic defs ->
  exists F, forall fuel E e, (F <= fuel)%nat -> in_domain fuel defs E e -> exists u w, unit_of fuel defs e = Some (u, w).
Proof.
  intros [rank Hrank]. exists (enough defs rank). intros fuel E e Hf Hdom.
  exact (unit_of_total defs rank Hrank E fuel Hf e Hdom).
Qed.

(** the library's own expansion computes the semantic expansion, down to undefined symbols *)
Lemma unpack_expands_lemma defs E fuel u r : is_expansion defs E -> unpack_map fuel defs u 1 = Some r ->
  NoDup (keys r) /\ (forall n, In n (keys r) -> d_lookup defs n = None) /\ forall k, dim r k == xdim E u k.
Proof.
  intros HE H. destruct (unpack_map_sound defs E HE fuel u 1 r H) as [Hw [Hb Hx]].
  split; [exact Hw|]. split; [exact Hb|]. intros k.
  rewrite <- (xdim_of_base defs E HE r k Hw Hb), Hx. ring.
Qed.

Lemma unpack_terminates_lemma defs : acyclic defs ->
  exists F, forall fuel u c, (F <= fuel)%nat -> unpack_map fuel defs u c <> None.
Proof.
  intros [rank Hrank]. exists (enough defs rank). intros fuel u c Hf.
  exact (unpack_map_total defs rank Hrank fuel u c Hf).
Qed.

(** a unit is shown under a defined name only when it is exactly that power of the compound *)
Lemma shown_exact_lemma defs u :
  pack_first defs u = u \/
  exists n d, In (n, d) defs /\ pack_first defs u = [(n, try_pack u d)] /\ ~ try_pack u d == 0 /\
              forall k, dim u k == try_pack u d * dim d k.
Proof.
  destruct (pack_first_cases defs u) as [H|[n [d [H1 [H2 H3]]]]]; [left; exact H|right].
  exists n, d. split; [exact H1|]. split; [exact H3|]. split; [exact H2|]. apply try_pack_exact. exact H2.
Qed.

Lemma display_sound_lemma defs E u : is_expansion defs E -> wf_defs defs -> NoDup (keys u) ->
  forall k, xdim E (display defs u) k == xdim E u k.
Proof.
  intros HE [Hnd Hwd] Hw k. unfold display. destruct u as [|x u']; [reflexivity|]. cbn [u_empty].
  destruct (shown_exact_lemma defs (x :: u')) as [H|[n [d [H1 [H2 [H3 H4]]]]]]; [rewrite H; reflexivity|].
  rewrite H2. simpl xdim at 1. pose proof (HE n) as Hn. rewrite (d_lookup_In _ _ _ Hnd H1) in Hn. rewrite Hn.
  rewrite (xdim_scaled E (x :: u') d (try_pack (x :: u') d) k Hw (Hwd _ _ H1) H4). ring.
Qed.

(** the semantic expansion of acyclic definitions is unique *)
Lemma expansion_unique_lemma defs E1 E2 : acyclic defs -> is_expansion defs E1 -> is_expansion defs E2 ->
  forall s k, E1 s k == E2 s k.
Proof.
  intros [rank Hrank] H1 H2.
  assert (Hind : forall f s k, (lvl defs rank s <= f)%nat -> E1 s k == E2 s k).
  { induction f as [|f IH]; intros s k Hl.
    - unfold lvl in Hl. destruct (d_lookup defs s); lia.
    - pose proof (H1 s) as A1. pose proof (H2 s) as A2. unfold lvl in Hl.
      destruct (d_lookup defs s) as [d|] eqn:El.
      + rewrite A1, A2. apply xdim_ext_E. intros n Hn. apply IH. unfold lvl.
        destruct (d_lookup defs n) as [d'|] eqn:En; [|lia].
        assert (rank n < rank s)%nat by (apply (Hrank s d n El Hn); congruence). lia.
      + rewrite A1, A2. reflexivity. }
  intros s k. apply (Hind (lvl defs rank s)). lia.
Qed.

Lemma history_lemma h n : d_lookup (d_run h) n = last_def h n None.
Proof. apply d_run_lookup. Qed.

(** end to end: after any history of define/clear calls that leaves acyclic definitions *)
Lemma C18_main_lemma h : wf_history h -> acyclic (d_run h) ->
  exists E F, is_expansion (d_run h) E /\
    forall fuel e, (F <= fuel)%nat -> in_domain fuel (d_run h) E e ->
      exists u w, unit_of fuel (d_run h) e = Some (u, w) /\
        (w = false -> forall k, xdim E u k == dspec E e k /\ xdim E (display (d_run h) u) k == dspec E e k) /\
        (w = true -> u = [] /\ genuine_mismatch E e) /\
        (genuine_mismatch E e -> w = true).
Proof.
  intros Hh [rank Hrank].
  exists (Efuel (d_run h) (enough (d_run h) rank)), (enough (d_run h) rank).
  pose proof (expansion_exists_rank (d_run h) rank Hrank) as HE.
  pose proof (wf_defs_run h Hh) as Hd.
  split; [exact HE|]. intros fuel e Hf Hdom.
  destruct (unit_of_total (d_run h) rank Hrank _ fuel Hf e Hdom) as [u [w Hu]].
  exists u, w. split; [exact Hu|].
  destruct (unit_of_sound (d_run h) _ HE Hd fuel e u w Hdom Hu) as [Hw [Hfa [Ht Hg]]].
  split; [|split; assumption].
  intros Hwf k. split; [apply Hfa; exact Hwf|].
  rewrite (display_sound_lemma (d_run h) _ u HE Hd Hw k). apply Hfa. exact Hwf.
Qed.
