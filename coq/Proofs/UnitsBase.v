(** Lemmas about the carrier of the unit algebra (Model/UnitsBase.v) and the generated
    exponent arithmetic (Gen/UnitsGen.v). *)
From Coq Require Import List QArith Bool PArith Lia Permutation Setoid.
From QV Require Import Model.UnitsBase Gen.UnitsGen.
Import ListNotations.
Open Scope Q_scope.

Definition wf (u : umap) : Prop := NoDup (keys u).
Definition nz (u : umap) : Prop := forall k v, In (k, v) u -> ~ v == 0.

Lemma peqb_refl k : Pos.eqb k k = true. Proof. apply Pos.eqb_refl. Qed.
Lemma peqb_neq k m : k <> m -> Pos.eqb k m = false. Proof. intro; apply Pos.eqb_neq; assumption. Qed.

Ltac peq k m := destruct (Pos.eqb_spec k m); [subst|].

(** ** membership / lookup *)
Lemma u_mem_In k d : u_mem k d = true <-> In k (keys d).
Proof.
  induction d as [|[k' v] r IH]; simpl; [split; [discriminate|tauto]|].
  peq k k'; [tauto|]. rewrite IH. split; [tauto|]. intros [H|H]; [congruence|exact H].
Qed.

Lemma u_mem_false k d : u_mem k d = false <-> ~ In k (keys d).
Proof. rewrite <- u_mem_In. destruct (u_mem k d); split; congruence. Qed.

Lemma u_get_notin k d : ~ In k (keys d) -> u_get d k = 0.
Proof.
  induction d as [|[k' v] r IH]; simpl; [reflexivity|]. intros H.
  peq k k'; [tauto|]. apply IH; tauto.
Qed.

Lemma u_get_In k v d : wf d -> In (k, v) d -> u_get d k = v.
Proof.
  unfold wf. induction d as [|[k' v'] r IH]; simpl; [tauto|]. intros Hn [H|H].
  - inversion H; subst. rewrite peqb_refl. reflexivity.
  - inversion Hn; subst. peq k k'.
    + exfalso. apply H2. change (In k' (keys r)). unfold keys. apply in_map_iff. exists (k', v). auto.
    + apply IH; assumption.
Qed.

Lemma In_keys k d : In k (keys d) -> exists v, In (k, v) d.
Proof.
  unfold keys. intros H. apply in_map_iff in H. destruct H as [[k' v] [H1 H2]]. simpl in H1; subst. eauto.
Qed.

Lemma In_keys_of k v d : In (k, v) d -> In k (keys d).
Proof. intros H. unfold keys. apply in_map_iff. exists (k, v); auto. Qed.

Lemma dim_nonzero_In k d : ~ dim d k == 0 -> In k (keys d).
Proof.
  intros H. destruct (in_dec Pos.eq_dec k (keys d)) as [Hi|Hi]; [exact Hi|].
  exfalso. apply H. unfold dim. rewrite u_get_notin by exact Hi. reflexivity.
Qed.

(** ** assignment *)
Lemma u_get_set_same d k v : u_get (u_set d k v) k = v.
Proof.
  induction d as [|[k' v'] r IH]; simpl; [rewrite peqb_refl; reflexivity|].
  peq k k'; simpl; [rewrite peqb_refl; reflexivity|]. rewrite (peqb_neq _ _ n). exact IH.
Qed.

Lemma u_get_set_other d k v m : m <> k -> u_get (u_set d k v) m = u_get d m.
Proof.
  intros Hm. induction d as [|[k' v'] r IH]; simpl; [rewrite (peqb_neq _ _ Hm); reflexivity|].
  peq k k'; simpl.
  - rewrite (peqb_neq _ _ Hm). reflexivity.
  - peq m k'; [reflexivity|exact IH].
Qed.

Lemma keys_set d k v : keys (u_set d k v) = if u_mem k d then keys d else keys d ++ [k].
Proof.
  induction d as [|[k' v'] r IH]; simpl; [reflexivity|].
  peq k k'; simpl; [reflexivity|]. rewrite IH. destruct (u_mem k r); reflexivity.
Qed.

Lemma NoDup_snoc {A} (l : list A) (k : A) : NoDup l -> ~ In k l -> NoDup (l ++ [k]).
Proof.
  intros H1 H2. apply (Permutation_NoDup (l := k :: l)).
  - apply Permutation_cons_append.
  - constructor; assumption.
Qed.

Lemma wf_set d k v : wf d -> wf (u_set d k v).
Proof.
  unfold wf. intros H. rewrite keys_set. destruct (u_mem k d) eqn:E; [exact H|].
  apply u_mem_false in E. apply NoDup_snoc; assumption.
Qed.

(** ** the generated update helper *)
Lemma update_count_dim d k c m :
  dim (update_count d k c) m == dim d m + (if Pos.eqb m k then c else 0).
Proof.
  unfold update_count, dim. peq m k.
  - rewrite u_get_set_same. destruct (u_mem k d) eqn:E; simpl; [reflexivity|].
    apply u_mem_false in E. rewrite (u_get_notin _ _ E). reflexivity.
  - rewrite u_get_set_other by assumption. ring.
Qed.

Lemma wf_update_count d k c : wf d -> wf (update_count d k c).
Proof. intros H. unfold update_count. apply wf_set. exact H. Qed.

Lemma keys_update_count d k c x : In x (keys (update_count d k c)) -> In x (keys d) \/ x = k.
Proof.
  unfold update_count. rewrite keys_set. destruct (u_mem k d); [tauto|].
  intros H. apply in_app_or in H. destruct H as [H|[H|[]]]; auto.
Qed.

(** ** totals (sum of all entries of a key) *)
Lemma total_notin k d : ~ In k (keys d) -> total d k == 0.
Proof.
  induction d as [|[k' v] r IH]; simpl; [reflexivity|]. intros H.
  peq k k'; [tauto|]. rewrite IH by tauto. ring.
Qed.

Lemma total_dim d k : wf d -> total d k == dim d k.
Proof.
  unfold wf, dim. induction d as [|[k' v] r IH]; simpl; [reflexivity|]. intros H. inversion H; subst.
  peq k k'.
  - rewrite total_notin by assumption. ring.
  - rewrite IH by assumption. ring.
Qed.

(** ** loops that accumulate with [update_count] *)
Section FoldUpdate.
  Variable g : Q -> Q.
  Variable step : umap -> sym * Q -> umap.
  Hypothesis step_spec : forall acc k v, step acc (k, v) = update_count acc k (g v).

  Fixpoint totalg (d : umap) (k : sym) : Q :=
    match d with
    | [] => 0
    | (k', v) :: r => (if Pos.eqb k k' then g v else 0) + totalg r k
    end.

  Lemma fold_update_dim u acc m :
    dim (fold_left step u acc) m == dim acc m + totalg u m.
  Proof.
    revert acc. induction u as [|[k v] r IH]; intros acc; simpl; [ring|].
    rewrite IH, step_spec, update_count_dim. ring.
  Qed.

  Lemma fold_update_wf u acc : wf acc -> wf (fold_left step u acc).
  Proof.
    revert acc. induction u as [|[k v] r IH]; intros acc H; simpl; [exact H|].
    apply IH. rewrite step_spec. apply wf_update_count. exact H.
  Qed.

  Lemma fold_update_keys u acc x :
    In x (keys (fold_left step u acc)) -> In x (keys acc) \/ In x (keys u).
  Proof.
    revert acc. induction u as [|[k v] r IH]; intros acc; simpl; [tauto|].
    intros H. apply IH in H. destruct H as [H|H]; [|tauto].
    rewrite step_spec in H. apply keys_update_count in H. destruct H; [tauto|subst; tauto].
  Qed.
End FoldUpdate.

Lemma totalg_id d k : totalg (fun x => x) d k == total d k.
Proof. induction d as [|[k' v] r IH]; simpl; [reflexivity|]. rewrite IH. reflexivity. Qed.

Lemma totalg_opp d k : totalg Qopp d k == - total d k.
Proof. induction d as [|[k' v] r IH]; simpl; [reflexivity|]. rewrite IH. destruct (Pos.eqb k k'); ring. Qed.

(** ** the generated operations *)
Lemma f_mul_spec a b : wf a -> wf b ->
  snd (f_mul a b) = false /\ wf (fst (f_mul a b)) /\
  (forall m, dim (fst (f_mul a b)) m == dim a m + dim b m) /\
  (forall x, In x (keys (fst (f_mul a b))) -> In x (keys a) \/ In x (keys b)).
Proof.
  intros Ha Hb. unfold f_mul. simpl.
  set (st := fun (v_units : umap) (kv : sym * Q) => let '(v_unit, v_exponent) := kv in update_count v_units v_unit v_exponent).
  assert (Hst : forall acc k v, st acc (k, v) = update_count acc k ((fun x => x) v)) by reflexivity.
  split; [reflexivity|]. split; [|split].
  - apply (fold_update_wf _ _ Hst). apply (fold_update_wf _ _ Hst). constructor.
  - intros m. rewrite (fold_update_dim _ _ Hst), (fold_update_dim _ _ Hst).
    rewrite !totalg_id, !total_dim by assumption. unfold dim at 1. simpl. ring.
  - intros x H. apply (fold_update_keys _ _ Hst) in H. destruct H as [H|H]; [|tauto].
    apply (fold_update_keys _ _ Hst) in H. destruct H as [[]|H]. tauto.
Qed.

Lemma f_div_spec a b : wf a -> wf b ->
  snd (f_div a b) = false /\ wf (fst (f_div a b)) /\
  (forall m, dim (fst (f_div a b)) m == dim a m - dim b m) /\
  (forall x, In x (keys (fst (f_div a b))) -> In x (keys a) \/ In x (keys b)).
Proof.
  intros Ha Hb. unfold f_div. simpl.
  set (st := fun (v_units : umap) (kv : sym * Q) => let '(v_unit, v_exponent) := kv in update_count v_units v_unit v_exponent).
  set (st2 := fun (v_units : umap) (kv : sym * Q) => let '(v_unit, v_exponent) := kv in update_count v_units v_unit (- v_exponent)).
  assert (Hst : forall acc k v, st acc (k, v) = update_count acc k ((fun x => x) v)) by reflexivity.
  assert (Hst2 : forall acc k v, st2 acc (k, v) = update_count acc k (Qopp v)) by reflexivity.
  split; [reflexivity|]. split; [|split].
  - apply (fold_update_wf _ _ Hst2). apply (fold_update_wf _ _ Hst). constructor.
  - intros m. rewrite (fold_update_dim _ _ Hst2), (fold_update_dim _ _ Hst).
    rewrite totalg_id, totalg_opp, !total_dim by assumption. unfold dim at 1. simpl. ring.
  - intros x H. apply (fold_update_keys _ _ Hst2) in H. destruct H as [H|H]; [|tauto].
    apply (fold_update_keys _ _ Hst) in H. destruct H as [[]|H]. tauto.
Qed.

(** ** loops that assign [new[k] = h v] into a fresh dict: on a map with unique keys this is [map] *)
Definition map_vals (h : Q -> Q) (u : umap) : umap := map (fun kv => (fst kv, h (snd kv))) u.

Lemma keys_map_vals h u : keys (map_vals h u) = keys u.
Proof. unfold keys, map_vals. rewrite map_map. reflexivity. Qed.

Lemma u_set_fresh d k v : ~ In k (keys d) -> u_set d k v = d ++ [(k, v)].
Proof.
  induction d as [|[k' v'] r IH]; simpl; [reflexivity|]. intros H.
  peq k k'; [tauto|]. rewrite IH by tauto. reflexivity.
Qed.

Section FoldSet.
  Variable h : Q -> Q.
  Variable step : umap -> sym * Q -> umap.
  Hypothesis step_spec : forall acc k v, step acc (k, v) = u_set acc k (h v).

  Lemma fold_set_map u acc :
    NoDup (keys acc ++ keys u) -> fold_left step u acc = acc ++ map_vals h u.
  Proof.
    revert acc. induction u as [|[k v] r IH]; intros acc H; simpl; [rewrite app_nil_r; reflexivity|].
    rewrite step_spec. simpl in H.
    assert (Hk : ~ In k (keys acc)).
    { intros Hi. apply NoDup_remove_2 in H. apply H. apply in_or_app. left. exact Hi. }
    rewrite u_set_fresh by exact Hk. rewrite IH.
    - rewrite <- app_assoc. reflexivity.
    - unfold keys in *. rewrite map_app. simpl. rewrite <- app_assoc. simpl. exact H.
  Qed.
End FoldSet.

Lemma dim_map_vals h u m : (h 0 == 0) -> dim (map_vals h u) m == h (dim u m).
Proof.
  intros H0. unfold dim. induction u as [|[k v] r IH]; simpl; [symmetry; exact H0|].
  peq m k; [reflexivity|exact IH].
Qed.

Lemma wf_map_vals h u : wf u -> wf (map_vals h u).
Proof. unfold wf. rewrite keys_map_vals. tauto. Qed.

Lemma f_sqrt_spec a : wf a ->
  f_sqrt a = (map_vals (fun x => x / (2 # 1)) a, false).
Proof.
  intros Ha. unfold f_sqrt.
  set (st := fun (v_new_units : umap) (kv : sym * Q) => let '(v_unit, v_exponent) := kv in u_set v_new_units v_unit (v_exponent / (2 # 1))).
  assert (Hst : forall acc k v, st acc (k, v) = u_set acc k ((fun x => x / (2 # 1)) v)) by reflexivity.
  rewrite (fold_set_map _ _ Hst); [reflexivity|]. simpl. exact Ha.
Qed.

Lemma f_neg_spec a : f_neg a = (a, false).
Proof. reflexivity. Qed.

(** ** zero filter *)
Lemma keys_filter_zero k u : In k (keys (filter_zero u)) -> In k (keys u).
Proof.
  intros H. apply In_keys in H. destruct H as [v H]. unfold filter_zero in H. apply filter_In in H.
  eapply In_keys_of. apply H.
Qed.

Lemma wf_filter_zero u : wf u -> wf (filter_zero u).
Proof.
  unfold wf. induction u as [|[k v] r IH]; simpl; [tauto|]. intros H. inversion H; subst.
  destruct (negb (Qeq_bool v 0)); simpl; [|apply IH; assumption].
  constructor; [|apply IH; assumption]. intros Hi. apply H2. apply keys_filter_zero. exact Hi.
Qed.

Lemma dim_filter_zero u m : wf u -> dim (filter_zero u) m == dim u m.
Proof.
  unfold wf, dim. induction u as [|[k v] r IH]; simpl; [reflexivity|]. intros H. inversion H; subst.
  destruct (Qeq_bool v 0) eqn:E; simpl.
  - apply Qeq_bool_iff in E. peq m k.
    + rewrite IH by assumption. rewrite u_get_notin by assumption. symmetry. exact E.
    + apply IH; assumption.
  - peq m k; [reflexivity|apply IH; assumption].
Qed.

Lemma nz_filter_zero u : nz (filter_zero u).
Proof.
  intros k v H. unfold filter_zero in H. apply filter_In in H. destruct H as [_ H]. simpl in H.
  intros E. apply Qeq_bool_iff in E. rewrite E in H. discriminate.
Qed.

Lemma filter_zero_nil : filter_zero [] = []. Proof. reflexivity. Qed.

(** ** dict equality *)
Lemma forallb_false_ex {A} (f : A -> bool) l : forallb f l = false -> exists x, In x l /\ f x = false.
Proof.
  induction l as [|x r IH]; simpl; [discriminate|]. destruct (f x) eqn:E; simpl.
  - intros H. destruct (IH H) as [y [Hy1 Hy2]]. eauto.
  - intros _. eauto.
Qed.

Lemma dict_eqb_sound a b : wf a -> wf b -> dict_eqb a b = true -> forall m, dim a m == dim b m.
Proof.
  intros Ha Hb H m. unfold dict_eqb in H. apply andb_true_iff in H. destruct H as [Hl Hf].
  apply Nat.eqb_eq in Hl. rewrite forallb_forall in Hf.
  assert (Hinc : incl (keys a) (keys b)).
  { intros k Hk. apply In_keys in Hk. destruct Hk as [v Hk]. specialize (Hf _ Hk). simpl in Hf.
    apply andb_true_iff in Hf. apply u_mem_In. apply Hf. }
  assert (Hinc' : incl (keys b) (keys a)).
  { apply NoDup_length_incl; [exact Ha| |exact Hinc]. unfold keys. rewrite !map_length. lia. }
  destruct (in_dec Pos.eq_dec m (keys a)) as [Hi|Hi].
  - apply In_keys in Hi. destruct Hi as [v Hv]. specialize (Hf _ Hv). simpl in Hf.
    apply andb_true_iff in Hf. destruct Hf as [_ Hq]. apply Qeq_bool_iff in Hq.
    unfold dim. rewrite (u_get_In _ _ _ Ha Hv). symmetry. exact Hq.
  - unfold dim. rewrite (u_get_notin _ _ Hi). rewrite u_get_notin; [reflexivity|].
    intros Hb'. apply Hi. apply Hinc'. exact Hb'.
Qed.

Lemma dict_eqb_complete a b : wf a -> wf b -> nz a -> nz b ->
  (forall m, dim a m == dim b m) -> dict_eqb a b = true.
Proof.
  intros Ha Hb Hza Hzb H. unfold dict_eqb.
  assert (Hinc : forall x y, wf x -> nz x -> (forall m, dim x m == dim y m) -> incl (keys x) (keys y)).
  { intros x y Hx Hzx Hxy k Hk. apply In_keys in Hk. destruct Hk as [v Hv]. apply dim_nonzero_In.
    rewrite <- Hxy. unfold dim. rewrite (u_get_In _ _ _ Hx Hv). apply (Hzx _ _ Hv). }
  apply andb_true_iff. split.
  - apply Nat.eqb_eq. apply Nat.le_antisymm.
    + replace (length a) with (length (keys a)) by (unfold keys; apply map_length).
      replace (length b) with (length (keys b)) by (unfold keys; apply map_length).
      apply NoDup_incl_length; [exact Ha|]. apply Hinc; assumption.
    + replace (length a) with (length (keys a)) by (unfold keys; apply map_length).
      replace (length b) with (length (keys b)) by (unfold keys; apply map_length).
      apply NoDup_incl_length; [exact Hb|]. apply Hinc; try assumption. intros m. symmetry. apply H.
  - apply forallb_forall. intros [k v] Hv. simpl. apply andb_true_iff. split.
    + apply u_mem_In. apply (Hinc a b); try assumption. eapply In_keys_of. exact Hv.
    + apply Qeq_bool_iff. specialize (H k). unfold dim in H. rewrite (u_get_In _ _ _ Ha Hv) in H.
      symmetry. exact H.
Qed.

(** a constructive witness of a difference *)
Lemma dict_eqb_false_witness a b : wf a -> wf b -> nz a -> nz b ->
  dict_eqb a b = false -> exists m, ~ dim a m == dim b m.
Proof.
  intros Ha Hb Hza Hzb H.
  set (fa := fun kv : sym * Q => u_mem (fst kv) b && Qeq_bool (u_get b (fst kv)) (snd kv)).
  set (fb := fun kv : sym * Q => u_mem (fst kv) a).
  destruct (forallb fa a) eqn:Ea.
  - destruct (forallb fb b) eqn:Eb.
    + exfalso. rewrite forallb_forall in Ea, Eb.
      assert (dict_eqb a b = true); [|congruence].
      unfold dict_eqb. apply andb_true_iff. split; [|apply forallb_forall; exact Ea].
      apply Nat.eqb_eq. apply Nat.le_antisymm.
      * replace (length a) with (length (keys a)) by (unfold keys; apply map_length).
        replace (length b) with (length (keys b)) by (unfold keys; apply map_length).
        apply NoDup_incl_length; [exact Ha|]. intros k Hk. apply In_keys in Hk. destruct Hk as [v Hv].
        specialize (Ea _ Hv). unfold fa in Ea. simpl in Ea. apply andb_true_iff in Ea. apply u_mem_In. apply Ea.
      * replace (length a) with (length (keys a)) by (unfold keys; apply map_length).
        replace (length b) with (length (keys b)) by (unfold keys; apply map_length).
        apply NoDup_incl_length; [exact Hb|]. intros k Hk. apply In_keys in Hk. destruct Hk as [v Hv].
        specialize (Eb _ Hv). unfold fb in Eb. simpl in Eb. apply u_mem_In. exact Eb.
    + apply forallb_false_ex in Eb. destruct Eb as [[k v] [Hv Hf]]. unfold fb in Hf. simpl in Hf.
      apply u_mem_false in Hf. exists k. unfold dim. rewrite (u_get_notin _ _ Hf), (u_get_In _ _ _ Hb Hv).
      intros E. apply (Hzb _ _ Hv). symmetry. exact E.
  - apply forallb_false_ex in Ea. destruct Ea as [[k v] [Hv Hf]]. unfold fa in Hf. simpl in Hf.
    exists k. unfold dim. rewrite (u_get_In _ _ _ Ha Hv).
    destruct (u_mem k b) eqn:Em; simpl in Hf.
    + intros E. assert (Qeq_bool (u_get b k) v = true); [|congruence]. apply Qeq_bool_iff. symmetry. exact E.
    + apply u_mem_false in Em. rewrite (u_get_notin _ _ Em). apply (Hza _ _ Hv).
Qed.

(** ** addition / subtraction *)
Lemma u_empty_nil u : u_empty u = true <-> u = [].
Proof. destruct u; simpl; split; congruence. Qed.

Lemma f_add_and_sub_cases a b :
  (a <> [] /\ b <> [] /\ dict_eqb a b = false /\ f_add_and_sub a b = ([], true)) \/
  (a = [] /\ f_add_and_sub a b = (b, false)) \/
  (a <> [] /\ (b = [] \/ dict_eqb a b = true) /\ f_add_and_sub a b = (a, false)).
Proof.
  unfold f_add_and_sub. destruct a as [|x a]; simpl.
  - right. left. split; reflexivity.
  - destruct b as [|y b]; simpl.
    + right. right. split; [discriminate|]. split; [left; reflexivity|reflexivity].
    + destruct (dict_eqb (x :: a) (y :: b)) eqn:E; simpl.
      * right. right. split; [discriminate|]. split; [right; reflexivity|reflexivity].
      * left. repeat split; discriminate.
Qed.

(** ** orderings *)
Lemma dim_perm a b m : wf a -> Permutation a b -> dim a m == dim b m.
Proof.
  intros Ha Hp. assert (Hb : wf b).
  { unfold wf, keys. eapply Permutation_NoDup; [apply Permutation_map; exact Hp|exact Ha]. }
  destruct (in_dec Pos.eq_dec m (keys a)) as [Hi|Hi].
  - apply In_keys in Hi. destruct Hi as [v Hv]. unfold dim. rewrite (u_get_In _ _ _ Ha Hv).
    rewrite (u_get_In m v b Hb); [reflexivity|]. eapply Permutation_in; eassumption.
  - unfold dim. rewrite (u_get_notin _ _ Hi). rewrite u_get_notin; [reflexivity|].
    intros Hb'. apply Hi. unfold keys in *. eapply Permutation_in; [apply Permutation_map; apply Permutation_sym; exact Hp|exact Hb'].
Qed.
