(** C01 -- derivative-method results obey the first-order propagation law.
    Tables GENERATED from operations.py (Gen/OpsTable.v); evaluator of Model/Core.v. *)
From Coq Require Import List Arith Bool Reals Lra.
From Coquelicot Require Import Coquelicot.
From Coq Require Import QArith Qreals.
From QV Require Import Base.RealOps Base.QOps Gen.OpsTable Model.Core Model.CoreQ Proofs.OpsRules Proofs.CoreLists Proofs.CoreR Proofs.CoreQFast Proofs.QROps Proofs.QRCore.
Import ListNotations.
Local Open Scope R_scope.

(** the central value is the formula evaluated at the central values: a measurement is its value,
    a calculated quantity is its operator applied to the values of its operands (whatever has been
    read or buffered before) *)
Theorem C01_value : forall o older,
  rvalue (o :: older) (length older) = val_of R 0 sem_u sem_b (rvals older) o.
Proof.
  intros o older. unfold rvalue, value. simpl vals. fold (rvals older).
  apply (lookup_hd 0 _ _ _ (len_rvals older)).
Qed.
Print Assumptions C01_value.

(** the propagated variance is sum_i (df/dx_i s_i)^2 + 2 sum_{i<j} df/dx_i df/dx_j rho_ij s_i s_j over
    the distinct source measurements, with the EXACT partial derivatives of the whole composed formula
    (Dpart = Coquelicot's Derive of the value as a function of the measurement's central value) *)
Theorem C01_error : forall rho l k,
  wf R l = true -> Dom l -> (k < length l)%nat ->
  rerr2 rho l k = law_terms rho l k (sources R l k).
Proof. exact err2_is_law. Qed.
Print Assumptions C01_error.

(** measurements the result does not depend on may be added to the sum: they contribute nothing *)
Theorem C01_error_superset : forall rho l k X,
  wf R l = true -> Dom l -> (k < length l)%nat ->
  (forall i, In i X -> meas_at l i (central l i) /\ ~ In i (sources R l k)) ->
  rerr2 rho l k = law_terms rho l k (sources R l k ++ X).
Proof. exact err2_law_superset. Qed.
Print Assumptions C01_error_superset.

(** every source is a measurement (one variable however often it occurs: [sources] is duplicate-free
    by construction of [union_sorted]) *)
Theorem C01_sources_are_measurements : forall l k i, wf R l = true -> (k < length l)%nat ->
  In i (sources R l k) -> meas_at l i (central l i).
Proof. exact sources_are_meas. Qed.
Print Assumptions C01_sources_are_measurements.

Theorem C01_x_minus_x : forall rho v e, rerr2 rho [ODer (FB SUB (RObj 0) (RObj 0)); OMeas v e] 1 = 0.
Proof. exact x_minus_x_zero. Qed.
Print Assumptions C01_x_minus_x.

Theorem C01_x_div_x : forall rho v e, v <> 0 -> rerr2 rho [ODer (FB DIV (RObj 0) (RObj 0)); OMeas v e] 1 = 0.
Proof. exact x_div_x_zero. Qed.
Print Assumptions C01_x_div_x.

(** what the correspondence EXECUTES is what the theorems are about: on a rational object list, every value,
    variance and source list the executed instance (over option Q) computes is the rational image of what
    the real-number instance defines *)
Theorem C01_executed_is_model : forall (lq : list (obj Q)) (rq : nat -> nat -> oq) (rr : nat -> nat -> R) k,
  (forall i j, rel (rq i j) (rr i j)) ->
  (forall x, qvalue (injQ lq) k = Some x -> rvalue (injR lq) k = Q2R x) /\
  (forall x, qerr2 rq (injQ lq) k = Some x -> rerr2 rr (injR lq) k = Q2R x) /\
  qsources (injQ lq) k = sources R (injR lq) k.
Proof. exact executed_is_model. Qed.
Print Assumptions C01_executed_is_model.

(** the table-sharing checker that the correspondence runs decides exactly the specification check
    (model value / variance / sources / derivatives of Model/Core.v against the observations) *)
Theorem C01_checker_is_spec : forall c, check_case_fast c = check_case c.
Proof. exact check_case_fast_spec. Qed.
Print Assumptions C01_checker_is_spec.

(** non-vacuity: sqrt((a + b) / 2) with a = 5 +/- 1/2, b = 2 +/- 1/5 meets the hypotheses *)
Example C01_nonvacuous :
  let l := [ODer (FU SQRT (RObj 3)); ODer (FB DIV (RObj 2) (RConst 2)); ODer (FB ADD (RObj 0) (RObj 1));
            OMeas 2 (1/5); OMeas 5 (1/2)] in
  wf R l = true /\ Dom l /\ sources R l 4 = [0%nat; 1%nat].
Proof.
  cbv zeta. split; [reflexivity|]. split; [|reflexivity].
  cbn. repeat split; try (left; exact I); try (left; lra).
  unfold Rdiv. rewrite Rmult_comm. apply Rmult_lt_0_compat; lra.
Qed.
